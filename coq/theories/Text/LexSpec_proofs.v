(* C15 - literals decode exactly: lexing the text of a literal yields the value the text spells
   (positional notation), hence the value a renderer started from. *)
From Coq Require Import NArith ZArith List Bool Lia.
From NV Require Import Common.Outcome Text.Chars Text.Chars_proofs Text.LexLit Text.LexLit_proofs
  Text.Lexer Text.Lexer_proofs Text.LexSpec.
Import ListNotations.
Open Scope N_scope.

Lemma lex_one_digit U c r : is_ascii_digit c = true -> lex_one U c r = lex_number c r.
Proof.
  intros H. apply ascii_digit_cases in H.
  repeat (destruct H as [H|H]; [subst c; reflexivity|]). subst c; reflexivity.
Qed.

Lemma lex_single U s toks : s <> [] -> lex_first U s = Ok (toks, []) -> lex U s = Ok toks.
Proof.
  intros Hs H. destruct s as [|c r]; [congruence|]. cbn [lex_first] in H.
  unfold lex. cbn [length lex_loop]. rewrite H. cbn [bind].
  rewrite frev_rev, app_nil_r, rev_involutive. reflexivity.
Qed.

(* delimiters are not digits of any kind *)
Lemma delim_facts c : is_delim c = true ->
  digit_val c = None /\ b64_digit c = None /\ is_ascii_digit c = false /\
  existsb (N.eqb c) [46; 120; 88; 98; 66; 111; 79; 114; 82; 105; 73; 106; 74; 113; 81; 102; 70; 101; 69] = false.
Proof.
  unfold is_delim. cbn [existsb]. intros H.
  repeat (apply orb_true_iff in H; destruct H as [H|H]); try discriminate;
    apply N.eqb_eq in H; subst c; repeat split; reflexivity.
Qed.
Lemma stops_stop_base b rest : stops rest -> stop_base b rest.
Proof.
  destruct rest as [|c r]; cbn; auto. intros H. apply delim_facts in H. destruct H as (H & _).
  unfold to_digit. now rewrite H.
Qed.
Lemma stops_stop_b64 rest : stops rest -> stop_b64 rest.
Proof. destruct rest as [|c r]; cbn; auto. intros H. apply delim_facts in H. tauto. Qed.
Lemma stops_not_digit rest : stops rest -> match rest with [] => True | c :: _ => is_ascii_digit c = false end.
Proof. destruct rest as [|c r]; cbn; auto. intros H. apply delim_facts in H. tauto. Qed.

Lemma digit_string_shape cs : cs <> [] -> forallb is_ascii_digit cs = true ->
  exists c ds, cs = c :: ds /\ is_ascii_digit c = true /\ forallb is_ascii_digit ds = true.
Proof.
  destruct cs as [|c ds]; [congruence|]. intros _ H. cbn in H. apply andb_true_iff in H. exists c, ds. tauto.
Qed.

(* ---- <radix>r<digits> ---- *)
Lemma lex_radix_spells U b (up : bool) cs ds rest : 2 <= b -> b <= 36 -> spells b cs ds -> stop_base b rest ->
  lex_first U (render_dec b ++ (if up then 82 else 114) :: cs ++ rest) = Ok ([TInt (positional b ds)], rest).
Proof.
  intros Hb1 Hb2 Hs Hr.
  destruct (digit_string_shape _ (render_dec_nonempty b) (render_dec_digits b)) as (c & pre & E & Hc & Hpre).
  rewrite E. cbn [app lex_first]. rewrite (lex_one_digit U c _ Hc). unfold lex_number.
  rewrite (span_app is_ascii_digit pre _ Hpre) by (destruct up; reflexivity).
  assert (Hp : parse_u32 (c :: pre) = Some b).
  { unfold parse_u32. rewrite parse_bigint_digits; [|discriminate|cbn [forallb]; now rewrite Hc, Hpre].
    rewrite <- E, render_dec_value. unfold u32_max. destruct (N.leb_spec b 4294967295); [reflexivity|lia]. }
  assert (Hrange : (2 <=? b) && (b <=? 36) = true) by (apply andb_true_iff; split; now apply N.leb_le).
  destruct up; cbn [N.eqb Pos.eqb orb andb]; rewrite ?andb_false_r; cbn [orb];
    rewrite Hp, Hrange, (lex_base_go_spells b cs ds Hs 0 rest Hr); do 3 f_equal; lia.
Qed.

(* ---- 0x 0b 0o ---- *)
Lemma lex_0x_spells U (up : bool) cs ds rest : spells 16 cs ds -> stop_base 16 rest ->
  lex_first U (48 :: (if up then 88 else 120) :: cs ++ rest) = Ok ([TInt (positional 16 ds)], rest).
Proof.
  intros Hs Hr. cbn [lex_first]. rewrite (lex_one_digit U 48 _ eq_refl). unfold lex_number.
  destruct up; cbn [span is_ascii_digit in_range N.leb N.compare Pos.compare Pos.compare_cont andb
                    N.eqb Pos.eqb orb list_eqb];
    rewrite (lex_base_go_spells 16 cs ds Hs 0 rest Hr); do 3 f_equal; lia.
Qed.
Lemma lex_0b_spells U (up : bool) cs ds rest : spells 2 cs ds -> stop_base 2 rest ->
  lex_first U (48 :: (if up then 66 else 98) :: cs ++ rest) = Ok ([TInt (positional 2 ds)], rest).
Proof.
  intros Hs Hr. cbn [lex_first]. rewrite (lex_one_digit U 48 _ eq_refl). unfold lex_number.
  destruct up; cbn [span is_ascii_digit in_range N.leb N.compare Pos.compare Pos.compare_cont andb
                    N.eqb Pos.eqb orb list_eqb];
    rewrite (lex_base_go_spells 2 cs ds Hs 0 rest Hr); do 3 f_equal; lia.
Qed.
Lemma lex_0o_spells U (up : bool) cs ds rest : spells 8 cs ds -> stop_base 8 rest ->
  lex_first U (48 :: (if up then 79 else 111) :: cs ++ rest) = Ok ([TInt (positional 8 ds)], rest).
Proof.
  intros Hs Hr. cbn [lex_first]. rewrite (lex_one_digit U 48 _ eq_refl). unfold lex_number.
  destruct up; cbn [span is_ascii_digit in_range N.leb N.compare Pos.compare Pos.compare_cont andb
                    N.eqb Pos.eqb orb list_eqb];
    rewrite (lex_base_go_spells 8 cs ds Hs 0 rest Hr); do 3 f_equal; lia.
Qed.

(* ---- 64r ---- *)
Lemma lex_64r_spells U (up : bool) cs ds rest : spells64 cs ds -> stop_b64 rest ->
  lex_first U (54 :: 52 :: (if up then 82 else 114) :: cs ++ rest) = Ok ([TInt (positional 64 ds)], rest).
Proof.
  intros Hs Hr. cbn [lex_first]. rewrite (lex_one_digit U 54 _ eq_refl). unfold lex_number.
  destruct up; cbn -[lex_base64_go positional N.pow];
    rewrite (lex_base64_go_spells cs ds Hs 0 rest Hr); do 3 f_equal; lia.
Qed.

(* ---- bare decimal of any length ---- *)
Lemma lex_dec_spells U cs rest : cs <> [] -> forallb is_ascii_digit cs = true -> stops rest ->
  lex_first U (cs ++ rest) = Ok ([TInt (positional 10 (map (fun c => c - 48) cs))], rest).
Proof.
  intros Hne Hd Hr. destruct (digit_string_shape cs Hne Hd) as (c & ds & -> & Hc & Hds).
  cbn [app lex_first]. rewrite (lex_one_digit U c _ Hc). unfold lex_number.
  rewrite (span_app is_ascii_digit ds rest Hds (stops_not_digit rest Hr)).
  assert (Hi : int_tok (c :: ds) = Ok (TInt (positional 10 (map (fun c => c - 48) (c :: ds))))).
  { unfold int_tok. rewrite parse_bigint_digits; [|discriminate|cbn [forallb]; now rewrite Hc, Hds].
    now rewrite dec_value_spec. }
  destruct rest as [|p r2]; [rewrite Hi; reflexivity|].
  cbn in Hr. apply delim_facts in Hr. destruct Hr as (_ & _ & _ & Hr). cbn [existsb] in Hr.
  repeat (apply orb_false_iff in Hr; destruct Hr as [? Hr]).
  repeat match goal with H : (p =? _) = false |- _ => rewrite H; clear H end.
  cbn [orb]. rewrite ?andb_false_r. rewrite Hi. reflexivity.
Qed.

(* ---- the statement for renderers: every syntax, every value ---- *)
Lemma digits_text_spells b up n : 2 <= b -> b <= 36 ->
  exists ds, spells b (digits_text b up n) ds /\ positional b ds = n.
Proof.
  intros H1 H2. destruct up; [apply render_radix_upper_spells | apply render_radix_spells]; auto.
Qed.

Lemma int_literal_exact U syn n rest : syntax_ok syn -> stops rest ->
  lex_first U (render_int syn n ++ rest) = Ok ([TInt n], rest).
Proof.
  intros Hok Hr. destruct syn as [|ux ud|u|u|b ur ud|ur]; cbn [render_int].
  - pose proof (lex_dec_spells U (render_dec n) rest (render_dec_nonempty n) (render_dec_digits n) Hr) as H.
    rewrite H. rewrite <- dec_value_spec, render_dec_value. reflexivity.
  - destruct (digits_text_spells 16 ud n ltac:(lia) ltac:(lia)) as (ds & Hs & <-).
    cbn [app]. apply lex_0x_spells; auto. now apply stops_stop_base.
  - destruct (render_radix_spells 2 n ltac:(lia) ltac:(lia)) as (ds & Hs & <-).
    cbn [app]. apply lex_0b_spells; auto. now apply stops_stop_base.
  - destruct (render_radix_spells 8 n ltac:(lia) ltac:(lia)) as (ds & Hs & <-).
    cbn [app]. apply lex_0o_spells; auto. now apply stops_stop_base.
  - cbn in Hok. destruct Hok as [H1 H2]. destruct (digits_text_spells b ud n H1 H2) as (ds & Hs & <-).
    rewrite <- app_assoc. cbn [app]. apply lex_radix_spells; auto. now apply stops_stop_base.
  - destruct (render_base64_spells n) as (ds & Hs & <-).
    cbn [app]. apply lex_64r_spells; auto. now apply stops_stop_b64.
Qed.

Lemma int_literal_exact_whole U syn n : syntax_ok syn -> lex U (render_int syn n) = Ok [TInt n].
Proof.
  intros Hok. apply lex_single.
  - destruct syn; cbn [render_int]; try discriminate.
    + apply render_dec_nonempty.
    + pose proof (render_dec_nonempty b). destruct (render_dec b); [congruence|discriminate].
  - pose proof (int_literal_exact U syn n [] Hok I) as H. now rewrite app_nil_r in H.
Qed.

(* ---- rationals: <decimal>q, whatever follows ---- *)
Lemma rat_literal_exact U (up : bool) n rest :
  lex_first U (render_rat up n ++ rest) = Ok ([TRat n], rest).
Proof.
  unfold render_rat. rewrite <- app_assoc. cbn [app].
  destruct (digit_string_shape _ (render_dec_nonempty n) (render_dec_digits n)) as (c & ds & E & Hc & Hds).
  rewrite E. cbn [app lex_first]. rewrite (lex_one_digit U c _ Hc). unfold lex_number.
  rewrite (span_app is_ascii_digit ds _ Hds) by (destruct up; reflexivity).
  assert (Hq : rat_tok (c :: ds) = Ok (TRat n)).
  { unfold rat_tok. rewrite parse_bigint_digits; [|discriminate|cbn [forallb]; now rewrite Hc, Hds].
    now rewrite <- E, render_dec_value. }
  destruct up; cbn [N.eqb Pos.eqb orb andb]; rewrite ?andb_false_r; cbn [orb]; rewrite Hq; reflexivity.
Qed.

(* ---- strings ---- *)
Lemma string_literal_exact U q f s rest : quote_ok q ->
  forallb is_scalar s = true -> forallb (fun c => style_ok q (f c) c) s = true ->
  lex_first U (render_string q f s ++ rest) = Ok ([TStr s], rest).
Proof.
  intros Hq Hsc Hok. unfold render_string. cbn [app lex_first]. rewrite <- app_assoc. cbn [app].
  assert (Hq92 : q <> 92) by (destruct Hq; subst; discriminate).
  assert (E : lex_one U q (render_escaped f s ++ q :: rest) =
              (x <- lex_string q (render_escaped f s ++ q :: rest) ;;
               let '(inv, s, rest) := x in Ok (inv_tok inv ++ [TStr s], rest))).
  { destruct Hq; subst q; reflexivity. }
  rewrite E, (lex_string_render q f s rest Hq92 Hsc Hok). reflexivity.
Qed.

Lemma string_literal_exact_whole U q f s : quote_ok q ->
  forallb is_scalar s = true -> forallb (fun c => style_ok q (f c) c) s = true ->
  lex U (render_string q f s) = Ok [TStr s].
Proof.
  intros Hq Hsc Hok. apply lex_single; [discriminate|].
  pose proof (string_literal_exact U q f s [] Hq Hsc Hok) as H. now rewrite app_nil_r in H.
Qed.

(* Parser::atom: the i64 / BigInt split keeps the value *)
Lemma atom_int_value n : int_expr_value (atom_int n) = Z.of_N n.
Proof. unfold atom_int. destruct (Z.of_N n <=? 9223372036854775807)%Z; reflexivity. Qed.

(* the digit direction, all syntaxes together *)
Lemma int_digits_spell : forall (U : uclass),
  (forall b (up : bool) cs ds rest, 2 <= b -> b <= 36 -> spells b cs ds -> stop_base b rest ->
     lex_first U (render_dec b ++ (if up then 82 else 114) :: cs ++ rest) = Ok ([TInt (positional b ds)], rest)) /\
  (forall (up : bool) cs ds rest, spells 16 cs ds -> stop_base 16 rest ->
     lex_first U (48 :: (if up then 88 else 120) :: cs ++ rest) = Ok ([TInt (positional 16 ds)], rest)) /\
  (forall (up : bool) cs ds rest, spells 2 cs ds -> stop_base 2 rest ->
     lex_first U (48 :: (if up then 66 else 98) :: cs ++ rest) = Ok ([TInt (positional 2 ds)], rest)) /\
  (forall (up : bool) cs ds rest, spells 8 cs ds -> stop_base 8 rest ->
     lex_first U (48 :: (if up then 79 else 111) :: cs ++ rest) = Ok ([TInt (positional 8 ds)], rest)) /\
  (forall (up : bool) cs ds rest, spells64 cs ds -> stop_b64 rest ->
     lex_first U (54 :: 52 :: (if up then 82 else 114) :: cs ++ rest) = Ok ([TInt (positional 64 ds)], rest)) /\
  (forall cs rest, cs <> [] -> forallb is_ascii_digit cs = true -> stops rest ->
     lex_first U (cs ++ rest) = Ok ([TInt (positional 10 (map (fun c => c - 48) cs))], rest)).
Proof.
  intros U. repeat split.
  - exact (lex_radix_spells U).
  - exact (lex_0x_spells U).
  - exact (lex_0b_spells U).
  - exact (lex_0o_spells U).
  - exact (lex_64r_spells U).
  - exact (lex_dec_spells U).
Qed.
