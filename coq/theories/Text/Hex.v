(* C16 - hex_encode / hex_decode (src/lib.rs ~5557, ~5566) on byte lists.  A string argument
   of hex_decode is read through as_bytes(), i.e. hex_decode_str s = hex_decode (utf8_encode s).
   Definitions only. *)
From Coq Require Import ZArith NArith List Bool.
From NV Require Import Common.Outcome Text.CodecChars.
Import ListNotations.
Open Scope N_scope.

(* format!("{:02x}", x) for a u8 *)
Definition hex_digit (d : N) : N := if d <? 10 then 48 + d else 87 + d.
Definition hex_byte (b : N) : list N := [hex_digit (b / 16); hex_digit (b mod 16)].
Definition hex_encode (bs : list N) : str := flat_map hex_byte bs.

(* fn val(c: u8) -> NRes<u8> *)
Definition hex_val (c : N) : outcome N :=
  if (65 <=? c) && (c <=? 70) then Ok (c - 65 + 10)
  else if (97 <=? c) && (c <=? 102) then Ok (c - 97 + 10)
  else if (48 <=? c) && (c <=? 57) then Ok (c - 48)
  else Err EValue.

(* chunks(2).map(|ch| Ok(val(ch[0])? << 4 | val(ch[1])?)).collect::<NRes<Vec<u8>>>() *)
Fixpoint hex_chunks (bs : list N) : outcome (list N) :=
  match bs with
  | [] => Ok []
  | [_] => Panic                      (* ch[1] out of bounds: excluded by the length test *)
  | a :: b :: r =>
    h <- hex_val a ;; l <- hex_val b ;; rest <- hex_chunks r ;; Ok ((h * 16 + l) :: rest)
  end.

Definition hex_decode (bs : list N) : outcome (list N) :=
  if Nat.even (length bs) then hex_chunks bs else Err EValue.

Example hex_ex :
  hex_encode [0; 255; 16] = [48; 48; 102; 102; 49; 48] /\
  hex_decode [48; 48; 102; 70; 49; 48] = Ok [0; 255; 16] /\
  hex_decode [48] = Err EValue /\ hex_decode [48; 103] = Err EValue /\ hex_decode [] = Ok [].
Proof. repeat split; reflexivity. Qed.
