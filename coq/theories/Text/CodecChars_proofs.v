(* C16 - lemmas about digits, digit characters, split_on and trim. *)
From Coq Require Import ZArith NArith List Bool Lia.
From NV Require Import Common.Outcome Text.CodecChars.
Import ListNotations.
Open Scope Z_scope.
Ltac Zify.zify_post_hook ::= Z.div_mod_to_equations.

(* ---- Horner / little-endian evaluation ---- *)
Lemma eval_be_app b l d : eval_be b (l ++ [d]) = b * eval_be b l + d.
Proof. unfold eval_be. rewrite fold_left_app. reflexivity. Qed.

Lemma eval_be_rev b l : eval_be b (rev l) = eval_le b l.
Proof.
  induction l as [|d r IH]; [reflexivity|].
  cbn [rev eval_le]. rewrite eval_be_app, IH. lia.
Qed.

Lemma fold_horner_shift b ds : forall x,
  fold_left (fun x d => b * x + d) ds x = x * b ^ Z.of_nat (length ds) + fold_left (fun x d => b * x + d) ds 0.
Proof.
  induction ds as [|d r IH]; intro x.
  - cbn. lia.
  - cbn [fold_left length]. rewrite IH. rewrite (IH (b * 0 + d)).
    rewrite Nat2Z.inj_succ, Z.pow_succ_r by lia. lia.
Qed.

Lemma eval_be_cons b d r : eval_be b (d :: r) = d * b ^ Z.of_nat (length r) + eval_be b r.
Proof. unfold eval_be. cbn [fold_left]. rewrite fold_horner_shift. f_equal. f_equal. lia. Qed.

Lemma eval_be_app_gen b l1 l2 :
  eval_be b (l1 ++ l2) = eval_be b l1 * b ^ Z.of_nat (length l2) + eval_be b l2.
Proof. unfold eval_be. rewrite fold_left_app. apply fold_horner_shift. Qed.

(* ---- the digit loop ---- *)
Lemma pow2_half f n b : 2 <= b -> 0 <= n < 2 ^ Z.of_nat (S f) -> 0 <= n / b < 2 ^ Z.of_nat f.
Proof.
  intros Hb Hn. rewrite Nat2Z.inj_succ, Z.pow_succ_r in Hn by lia.
  split. { apply Z.div_pos; lia. }
  apply Z.div_lt_upper_bound; [lia|]. nia.
Qed.

Lemma digits_le_fuel_zero f b : digits_le_fuel f b 0 = [].
Proof. destruct f; reflexivity. Qed.

Lemma digits_le_fuel_spec b : 2 <= b -> forall f n, 0 <= n < 2 ^ Z.of_nat f ->
  eval_le b (digits_le_fuel f b n) = n /\
  Forall (fun d => 0 <= d < b) (digits_le_fuel f b n) /\
  (0 < n -> last (digits_le_fuel f b n) 0 <> 0).
Proof.
  intros Hb. induction f as [|f IH]; intros n Hn.
  - cbn in Hn. assert (n = 0) by lia. subst. cbn. repeat split; [constructor | lia].
  - cbn [digits_le_fuel]. destruct (Z.ltb_spec 0 n) as [Hp|Hp].
    + destruct (IH (n / b) (pow2_half f n b Hb Hn)) as (He & Hf & Hl).
      cbn [eval_le]. rewrite He. split; [|split].
      * pose proof (Z.div_mod n b). lia.
      * constructor; [|exact Hf]. apply Z.mod_pos_bound. lia.
      * intros _. destruct (Z.eq_dec (n / b) 0) as [Hz|Hz].
        -- rewrite Hz, digits_le_fuel_zero. cbn. pose proof (Z.div_mod n b). lia.
        -- assert (Hq : 0 < n / b). { assert (0 <= n / b) by (apply Z.div_pos; lia). lia. }
           specialize (Hl Hq).
           destruct (digits_le_fuel f b (n / b)) as [|x r] eqn:E.
           { cbn in He. lia. }
           exact Hl.
    + assert (n = 0) by lia. subst. cbn. repeat split; [constructor | lia].
Qed.

Lemma digit_fuel_enough n : 0 <= n -> 0 <= n < 2 ^ Z.of_nat (pred (digit_fuel n)).
Proof.
  intros Hn. unfold digit_fuel. cbn [pred]. rewrite Nat2Z.inj_succ.
  destruct (Z.eq_dec n 0) as [->|Hz]. { cbn. lia. }
  rewrite Z2Nat.id by apply Z.log2_nonneg.
  pose proof (Z.log2_spec n ltac:(lia)). lia.
Qed.

Lemma digit_fuel_enough' n : 0 <= n -> 0 <= n < 2 ^ Z.of_nat (digit_fuel n).
Proof.
  intros Hn. pose proof (digit_fuel_enough n Hn) as H. unfold digit_fuel in *. cbn [pred] in H.
  rewrite (Nat2Z.inj_succ (S _)), Z.pow_succ_r by lia. lia.
Qed.

Lemma digits_le_spec b n : 2 <= b -> 0 <= n ->
  eval_le b (digits_le b n) = n /\ Forall (fun d => 0 <= d < b) (digits_le b n) /\
  (0 < n -> last (digits_le b n) 0 <> 0).
Proof. intros. apply digits_le_fuel_spec; [assumption|]. apply digit_fuel_enough'. assumption. Qed.

Lemma digits_le_zero b : digits_le b 0 = [].
Proof. reflexivity. Qed.

Lemma digits_le_nonempty b n : 2 <= b -> 0 < n -> digits_le b n <> [].
Proof.
  intros Hb Hn E. destruct (digits_le_spec b n Hb ltac:(lia)) as (He & _).
  rewrite E in He. cbn in He. lia.
Qed.

Lemma hd_rev {A} (l : list A) d : hd d (rev l) = last l d.
Proof.
  rewrite <- (rev_involutive l) at 2. generalize (rev l) as m. intros m.
  destruct m as [|x m']; [reflexivity|]. cbn [rev hd]. symmetry. apply last_last.
Qed.

(* big-endian digits: value, range, canonical form *)
Lemma digits_be_spec b n : 2 <= b -> 0 <= n ->
  eval_be b (digits_be b n) = n /\ Forall (fun d => 0 <= d < b) (digits_be b n) /\
  digits_be b n <> [] /\ (hd 0 (digits_be b n) = 0 -> digits_be b n = [0] /\ n = 0).
Proof.
  intros Hb Hn. destruct (digits_le_spec b n Hb Hn) as (He & Hf & Hl).
  unfold digits_be. destruct (digits_le b n) as [|x r] eqn:E.
  - cbn in He. subst n. cbn. repeat split; try lia; try discriminate. repeat constructor; lia.
  - assert (Hpos : 0 < n).
    { destruct (Z.eq_dec n 0) as [->|]; [rewrite digits_le_zero in E; discriminate | lia]. }
    rewrite eval_be_rev. split; [exact He|]. split; [apply Forall_rev; exact Hf|]. split.
    + intro Hr. apply (f_equal (@length Z)) in Hr. rewrite rev_length in Hr. discriminate.
    + rewrite hd_rev. intro H0. exfalso. exact (Hl Hpos H0).
Qed.

(* ---- digit characters ---- *)
Ltac set_true t :=
  let E := fresh "E" in
  assert (E : t = true) by (apply andb_true_iff; split; apply Z.leb_le; lia); rewrite E; clear E.
Ltac set_false t :=
  let E := fresh "E" in
  assert (E : t = false) by (apply andb_false_iff; ((left; apply Z.leb_gt; lia) || (right; apply Z.leb_gt; lia)));
  rewrite E; clear E.
Lemma to_digit_digit_char d b : 0 <= d < b -> b <= 36 -> to_digit (digit_char d) b = Some d.
Proof.
  intros Hd Hb. unfold to_digit, alnum_value, digit_char.
  destruct (Z.ltb_spec d 10); cbv iota.
  - rewrite Z2N.id by lia.
    set_true ((48 <=? 48 + d) && (48 + d <=? 57)).
    replace (48 + d - 48) with d by lia.
    destruct (Z.ltb_spec d b); [reflexivity | lia].
  - rewrite Z2N.id by lia.
    set_false ((48 <=? 87 + d) && (87 + d <=? 57)).
    set_true ((97 <=? 87 + d) && (87 + d <=? 122)).
    replace (87 + d - 87) with d by lia.
    destruct (Z.ltb_spec d b); [reflexivity | lia].
Qed.

Lemma to_digit_digit_char_upper d b : 0 <= d < b -> b <= 36 -> to_digit (digit_char_upper d) b = Some d.
Proof.
  intros Hd Hb. unfold to_digit, alnum_value, digit_char_upper.
  destruct (Z.ltb_spec d 10); cbv iota.
  - rewrite Z2N.id by lia.
    set_true ((48 <=? 48 + d) && (48 + d <=? 57)).
    replace (48 + d - 48) with d by lia.
    destruct (Z.ltb_spec d b); [reflexivity | lia].
  - rewrite Z2N.id by lia.
    set_false ((48 <=? 55 + d) && (55 + d <=? 57)).
    set_false ((97 <=? 55 + d) && (55 + d <=? 122)).
    set_true ((65 <=? 55 + d) && (55 + d <=? 90)).
    replace (55 + d - 55) with d by lia.
    destruct (Z.ltb_spec d b); [reflexivity | lia].
Qed.

Lemma to_digit_range c b d : to_digit c b = Some d -> 0 <= d < b.
Proof.
  unfold to_digit, alnum_value. intros H.
  destruct ((48 <=? Z.of_N c) && (Z.of_N c <=? 57)) eqn:E1.
  { apply andb_true_iff in E1. destruct E1 as [A B]. apply Z.leb_le in A, B.
    destruct (Z.ltb_spec (Z.of_N c - 48) b); inversion H; subst; lia. }
  destruct ((97 <=? Z.of_N c) && (Z.of_N c <=? 122)) eqn:E2.
  { apply andb_true_iff in E2. destruct E2 as [A B]. apply Z.leb_le in A, B.
    destruct (Z.ltb_spec (Z.of_N c - 87) b); inversion H; subst; lia. }
  destruct ((65 <=? Z.of_N c) && (Z.of_N c <=? 90)) eqn:E3.
  { apply andb_true_iff in E3. destruct E3 as [A B]. apply Z.leb_le in A, B.
    destruct (Z.ltb_spec (Z.of_N c - 55) b); inversion H; subst; lia. }
  discriminate.
Qed.

Lemma digit_char_is_ascii_digit d : 0 <= d < 10 -> is_ascii_digit (digit_char d) = true.
Proof.
  intros H. unfold is_ascii_digit, digit_char.
  destruct (Z.ltb_spec d 10); [|lia].
  apply andb_true_iff; split; apply N.leb_le; lia.
Qed.

Lemma digit_char_10 d : 0 <= d < 10 -> Z.of_N (digit_char d) = 48 + d.
Proof. intros H. unfold digit_char. destruct (Z.ltb_spec d 10); lia. Qed.

(* ---- split_on ---- *)
Lemma split_on_app p l1 c l2 :
  forallb (fun x => negb (p x)) l1 = true -> p c = true -> split_on p (l1 ++ c :: l2) = Some (l1, l2).
Proof.
  induction l1 as [|x r IH]; intros Hn Hc; cbn [app split_on].
  - rewrite Hc. reflexivity.
  - cbn in Hn. apply andb_true_iff in Hn. destruct Hn as [Hx Hr].
    apply negb_true_iff in Hx. rewrite Hx, (IH Hr Hc). reflexivity.
Qed.

Lemma split_on_none p l : forallb (fun x => negb (p x)) l = true -> split_on p l = None.
Proof.
  induction l as [|x r IH]; intros Hn; cbn [split_on]; [reflexivity|].
  cbn in Hn. apply andb_true_iff in Hn. destruct Hn as [Hx Hr].
  apply negb_true_iff in Hx. rewrite Hx, (IH Hr). reflexivity.
Qed.

(* ---- trim ---- *)
Lemma trim_start_ws ws s : forallb is_whitespace ws = true -> trim_start (ws ++ s) = trim_start s.
Proof.
  induction ws as [|x r IH]; intros H; [reflexivity|].
  cbn in H. apply andb_true_iff in H. destruct H as [Hx Hr].
  cbn [app trim_start]. rewrite Hx. apply IH. exact Hr.
Qed.

Lemma trim_start_id c s : is_whitespace c = false -> trim_start (c :: s) = c :: s.
Proof. intros H. cbn [trim_start]. rewrite H. reflexivity. Qed.

Lemma trim_start_all_ws ws : forallb is_whitespace ws = true -> trim_start ws = [].
Proof. intros H. rewrite <- (app_nil_r ws). rewrite trim_start_ws by exact H. reflexivity. Qed.

(* a core that neither starts nor ends with white space survives trimming of anything around it *)
Definition no_ws_ends (s : str) : Prop :=
  exists a m, (s = [a] \/ exists z, s = a :: m ++ [z] /\ is_whitespace z = false) /\ is_whitespace a = false.

Lemma trim_core ws1 core ws2 :
  forallb is_whitespace ws1 = true -> forallb is_whitespace ws2 = true -> no_ws_ends core ->
  trim (ws1 ++ core ++ ws2) = core.
Proof.
  intros H1 H2 (a & m & Hs & Ha). unfold trim.
  rewrite trim_start_ws by exact H1.
  assert (Hrev2 : forallb is_whitespace (rev ws2) = true).
  { rewrite forallb_forall in *. intros x Hx. apply H2. apply in_rev. exact Hx. }
  destruct Hs as [-> | (z & -> & Hz)].
  - cbn [app]. rewrite trim_start_id by exact Ha.
    change (a :: ws2) with ([a] ++ ws2). rewrite rev_app_distr.
    rewrite trim_start_ws by exact Hrev2. cbn [rev app]. rewrite trim_start_id by exact Ha. reflexivity.
  - cbn [app]. rewrite trim_start_id by exact Ha.
    change (a :: (m ++ [z]) ++ ws2) with ((a :: m ++ [z]) ++ ws2). rewrite rev_app_distr.
    rewrite trim_start_ws by exact Hrev2.
    change (a :: m ++ [z]) with ((a :: m) ++ [z]). rewrite rev_app_distr. cbn [rev app].
    rewrite trim_start_id by exact Hz.
    change (z :: rev m ++ [a]) with ([z] ++ (rev m ++ [a])).
    rewrite rev_app_distr, rev_app_distr, rev_involutive. reflexivity.
Qed.
