(* C15 - specification side: the literal syntaxes of the language and how a value is
   written in each (built from the renderers of LexLit.v).  Nothing here is a transcription
   of the Rust code. *)
From Coq Require Import NArith ZArith List Bool Ascii String.
From NV Require Import Common.Outcome Text.Chars Text.LexLit Text.Lexer.
Import ListNotations.
Open Scope N_scope.

(* what the main loop does with the first token of s *)
Definition lex_first (U : uclass) (s : list N) : outcome (list token * list N) :=
  match s with c :: r => lex_one U c r | [] => Ok ([], []) end.

(* every way of writing a non-negative integer literal; the bools choose upper case for the
   prefix letter / for the digits above 9 *)
Inductive int_syntax :=
| SynDec
| SynHex (up_x up_digits : bool)
| SynBin (up_b : bool)
| SynOct (up_o : bool)
| SynRadix (b : N) (up_r up_digits : bool)      (* <b>r<digits>, 2 <= b <= 36 *)
| Syn64 (up_r : bool).                          (* 64r<base-64 digits> *)

Definition digits_text (b : N) (up : bool) (n : N) : list N :=
  if up then render_radix_upper b n else render_radix b n.

Definition render_int (syn : int_syntax) (n : N) : list N :=
  match syn with
  | SynDec => render_dec n
  | SynHex ux ud => 48 :: (if ux then 88 else 120) :: digits_text 16 ud n
  | SynBin u => 48 :: (if u then 66 else 98) :: render_radix 2 n
  | SynOct u => 48 :: (if u then 79 else 111) :: render_radix 8 n
  | SynRadix b ur ud => render_dec b ++ (if ur then 82 else 114) :: digits_text b ud n
  | Syn64 ur => 54 :: 52 :: (if ur then 82 else 114) :: render_base64 n
  end.

Definition syntax_ok (syn : int_syntax) : Prop :=
  match syn with SynRadix b _ _ => 2 <= b /\ b <= 36 | _ => True end.

(* rational literal: decimal digits followed by q or Q *)
Definition render_rat (up_q : bool) (n : N) : list N := render_dec n ++ [if up_q then 81 else 113].

(* a literal is followed by the end of the input or by a delimiter: space, newline, ) ] } , ; *)
Definition is_delim (c : N) : bool := existsb (N.eqb c) [32; 10; 41; 93; 125; 44; 59].
Definition stops (rest : list N) : Prop :=
  match rest with [] => True | c :: _ => is_delim c = true end.

(* a string literal: quote, rendered characters, quote *)
Definition render_string (q : N) (f : N -> style) (s : list N) : list N :=
  q :: render_escaped f s ++ [q].
Definition quote_ok (q : N) : Prop := q = 34 \/ q = 39.

Example ex_render_int :
  render_int (SynRadix 36 false false) 1295 = cps "36rzz" /\ render_int (SynHex true true) 255 = cps "0XFF" /\
  render_int (Syn64 false) 63 = cps "64r/" /\ render_int SynDec 0 = cps "0" /\ render_rat false 12 = cps "12q".
Proof. repeat split; reflexivity. Qed.
