(* C16 - characters, bytes and strings for the codec models.
   A Rust `char` is its code point (N), a `u8` is an N below 256, a `String`/`&str` is the list
   of its chars, a `Vec<u8>` the list of its bytes.  Definitions only. *)
From Coq Require Import ZArith NArith List Bool.
Import ListNotations.
Open Scope Z_scope.

Definition char := N.
Definition byte := N.
Definition str := list N.

(* Unicode scalar value: what a Rust `char` can hold (char::from_u32 succeeds) *)
Definition is_scalar (c : N) : bool :=
  (((c <? 55296) || (57343 <? c)) && (c <=? 1114111))%N.
Definition is_byte (b : N) : bool := (b <? 256)%N.

(* ASCII constants *)
Definition c_plus : N := 43.
Definition c_minus : N := 45.
Definition c_dot : N := 46.
Definition c_slash : N := 47.
Definition c_zero : N := 48.
Definition c_E : N := 69.
Definition c_under : N := 95.
Definition c_e : N := 101.

Definition is_ascii_digit (c : N) : bool := ((48 <=? c) && (c <=? 57))%N.

(* value of an ASCII letter or digit as a digit of base <= 36; None for anything else *)
Definition alnum_value (c : N) : option Z :=
  let z := Z.of_N c in
  if (48 <=? z) && (z <=? 57) then Some (z - 48)
  else if (97 <=? z) && (z <=? 122) then Some (z - 87)
  else if (65 <=? z) && (z <=? 90) then Some (z - 55)
  else None.

(* char::to_digit(radix), 2 <= radix <= 36 *)
Definition to_digit (c : N) (radix : Z) : option Z :=
  match alnum_value c with
  | Some d => if d <? radix then Some d else None
  | None => None
  end.

(* the character char::from_digit produces for a digit value (lower case letters) *)
Definition digit_char (d : Z) : N := Z.to_N (if d <? 10 then 48 + d else 87 + d).
(* char::from_digit(num, radix): None when num >= radix *)
Definition from_digit (d radix : Z) : option N :=
  if (0 <=? d) && (d <? radix) then Some (digit_char d) else None.
(* upper-case variant used by {:X} *)
Definition digit_char_upper (d : Z) : N := Z.to_N (if d <? 10 then 48 + d else 55 + d).

(* char::is_whitespace: the Unicode White_Space property (used by str::trim) *)
Definition is_whitespace (c : N) : bool :=
  (((9 <=? c) && (c <=? 13)) || (c =? 32) || (c =? 133) || (c =? 160) || (c =? 5760) ||
   ((8192 <=? c) && (c <=? 8202)) || (c =? 8232) || (c =? 8233) || (c =? 8239) || (c =? 8287) ||
   (c =? 12288))%N.

(* s.find(pred) together with the two slices &s[..pos] and &s[pos+1..] (pos is a char boundary
   and the matched char is ASCII in every use, so byte positions and char positions agree) *)
Fixpoint split_on (p : N -> bool) (s : str) : option (str * str) :=
  match s with
  | [] => None
  | c :: r => if p c then Some ([], r)
              else match split_on p r with
                   | Some (a, b) => Some (c :: a, b)
                   | None => None
                   end
  end.

Fixpoint trim_start (s : str) : str :=
  match s with
  | c :: r => if is_whitespace c then trim_start r else s
  | [] => []
  end.
Definition trim (s : str) : str := rev (trim_start (rev (trim_start s))).

Definition all_chars (p : N -> bool) (s : str) : bool := forallb p s.

(* Horner evaluation of big-endian digits, and the little-endian sum *)
Definition eval_be (b : Z) (ds : list Z) : Z := fold_left (fun x d => b * x + d) ds 0.
Fixpoint eval_le (b : Z) (ds : list Z) : Z :=
  match ds with
  | [] => 0
  | d :: r => d + b * eval_le b r
  end.

(* the loop `while a > 0 { push(a % b); a /= b }`: little-endian digits; fuel bounds the trip count *)
Fixpoint digits_le_fuel (fuel : nat) (b n : Z) : list Z :=
  match fuel with
  | O => []
  | S f => if 0 <? n then (n mod b) :: digits_le_fuel f b (n / b) else []
  end.
(* enough fuel for every b >= 2: more than the bit length *)
Definition digit_fuel (n : Z) : nat := S (S (Z.to_nat (Z.log2 n))).
Definition digits_le (b n : Z) : list Z := digits_le_fuel (digit_fuel n) b n.
(* big-endian digits of n >= 0, "0" for zero: what to_str_radix / Display print *)
Definition digits_be (b n : Z) : list Z :=
  match digits_le b n with
  | [] => [0]
  | l => rev l
  end.

Example digits_be_ex : digits_be 10 1203 = [1; 2; 0; 3] /\ digits_be 2 0 = [0] /\ digits_be 36 71 = [1; 35].
Proof. repeat split; reflexivity. Qed.
Example to_digit_ex : to_digit 122 36 = Some 35 /\ to_digit 90 36 = Some 35 /\ to_digit 57 8 = None /\
                      map digit_char [0; 9; 10; 35] = [48; 57; 97; 122]%N.
Proof. repeat split; reflexivity. Qed.
