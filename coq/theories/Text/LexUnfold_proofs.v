(* C15 - the fuel of lex is an artefact: lex satisfies the fuel-free recursive equation of the
   Rust loop (consume one token group, continue on the rest), and any fuel above the input
   length gives the same answer. *)
From Coq Require Import NArith ZArith List Bool Lia.
From NV Require Import Common.Outcome Text.Chars Text.Chars_proofs Text.LexLit Text.Lexer Text.Lexer_proofs.
Import ListNotations.
Open Scope N_scope.

Lemma lex_loop_acc U : forall f s racc,
  lex_loop U f s racc = omap (fun l => rev racc ++ l) (lex_loop U f s []).
Proof.
  induction f as [|f IH]; intros s racc; [reflexivity|].
  cbn [lex_loop]. destruct s as [|c r].
  - cbn. rewrite !frev_rev. cbn. now rewrite app_nil_r.
  - destruct (lex_one U c r) as [[toks rest]| | |]; cbn [bind omap]; try reflexivity.
    rewrite (IH rest (rev toks ++ racc)), (IH rest (rev toks ++ [])).
    destruct (lex_loop U f rest []); cbn [omap bind]; try reflexivity.
    f_equal. rewrite app_nil_r, rev_app_distr, rev_involutive, app_assoc. reflexivity.
Qed.

Lemma lex_loop_fuel U : forall f1 f2 s racc, (length s < f1)%nat -> (length s < f2)%nat ->
  lex_loop U f1 s racc = lex_loop U f2 s racc.
Proof.
  induction f1 as [|f1 IH]; intros f2 s racc H1 H2; [lia|]. destruct f2 as [|f2]; [lia|].
  cbn [lex_loop]. destruct s as [|c r]; [reflexivity|].
  pose proof (lex_one_shrinks U c r) as Hs.
  destruct (lex_one U c r) as [[toks rest]| | |]; cbn [bind shrinks] in *; try reflexivity.
  cbn [length] in *. apply IH; lia.
Qed.

Lemma lex_loop_step U f c r racc :
  lex_loop U (S f) (c :: r) racc =
  (x <- lex_one U c r ;; let '(toks, rest) := x in lex_loop U f rest (rev toks ++ racc)).
Proof. reflexivity. Qed.

Lemma lex_unfold U c r :
  lex U (c :: r) = (x <- lex_one U c r ;; let '(toks, rest) := x in ts <- lex U rest ;; Ok (toks ++ ts)).
Proof.
  unfold lex at 1. cbn [length]. rewrite lex_loop_step.
  pose proof (lex_one_shrinks U c r) as Hs.
  destruct (lex_one U c r) as [[toks rest]| | |]; cbn [bind shrinks] in *; try reflexivity.
  rewrite (lex_loop_fuel U (S (length r)) (S (length rest)) rest _ ltac:(lia) ltac:(lia)).
  rewrite lex_loop_acc. fold (lex U rest).
  destruct (lex U rest); cbn [omap bind]; try reflexivity.
  now rewrite app_nil_r, rev_involutive.
Qed.

Lemma lex_nil U : lex U [] = Ok [].
Proof. reflexivity. Qed.

Lemma lex_fuel_irrelevant U s fuel : (length s < fuel)%nat -> lex_loop U fuel s [] = lex U s.
Proof. intros H. apply lex_loop_fuel; auto. Qed.
