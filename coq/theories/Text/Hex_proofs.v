(* C16 - hex_decode inverts hex_encode on every byte string, accepts exactly the even-length
   strings of hex digits (either case), never panics. *)
From Coq Require Import ZArith NArith List Bool Lia.
From NV Require Import Common.Outcome Text.CodecChars Text.Hex.
Import ListNotations.
Open Scope N_scope.
Ltac Zify.zify_post_hook ::= Z.div_mod_to_equations.

Definition is_hexdigit (c : N) : Prop :=
  (48 <= c <= 57) \/ (65 <= c <= 70) \/ (97 <= c <= 102).

Lemma hex_val_digit d : d < 16 -> hex_val (hex_digit d) = Ok d.
Proof.
  intros H. assert (Hc : exists k, (k < 16)%nat /\ d = N.of_nat k) by (exists (N.to_nat d); lia).
  destruct Hc as (k & Hk & ->). do 16 (destruct k as [|k]; [reflexivity|]). lia.
Qed.

Lemma hex_val_ok c : is_hexdigit c -> exists v, hex_val c = Ok v /\ v < 16.
Proof.
  intros H. unfold hex_val.
  destruct ((65 <=? c) && (c <=? 70)) eqn:E1.
  { apply andb_true_iff in E1. destruct E1 as [A B]. apply N.leb_le in A, B. eexists; split; [reflexivity | lia]. }
  destruct ((97 <=? c) && (c <=? 102)) eqn:E2.
  { apply andb_true_iff in E2. destruct E2 as [A B]. apply N.leb_le in A, B. eexists; split; [reflexivity | lia]. }
  destruct ((48 <=? c) && (c <=? 57)) eqn:E3.
  { apply andb_true_iff in E3. destruct E3 as [A B]. apply N.leb_le in A, B. eexists; split; [reflexivity | lia]. }
  exfalso. apply andb_false_iff in E1, E2, E3.
  rewrite !N.leb_gt in E1, E2, E3. unfold is_hexdigit in H. lia.
Qed.

Lemma hex_val_cases c : (exists v, hex_val c = Ok v /\ is_hexdigit c) \/ (hex_val c = Err EValue /\ ~ is_hexdigit c).
Proof.
  unfold hex_val, is_hexdigit.
  destruct ((65 <=? c) && (c <=? 70)) eqn:E1.
  { apply andb_true_iff in E1. destruct E1 as [A B]. apply N.leb_le in A, B. left. eexists; split; [reflexivity | lia]. }
  destruct ((97 <=? c) && (c <=? 102)) eqn:E2.
  { apply andb_true_iff in E2. destruct E2 as [A B]. apply N.leb_le in A, B. left. eexists; split; [reflexivity | lia]. }
  destruct ((48 <=? c) && (c <=? 57)) eqn:E3.
  { apply andb_true_iff in E3. destruct E3 as [A B]. apply N.leb_le in A, B. left. eexists; split; [reflexivity | lia]. }
  right. split; [reflexivity|]. apply andb_false_iff in E1, E2, E3. rewrite !N.leb_gt in E1, E2, E3. lia.
Qed.

Lemma hex_encode_cons b r : hex_encode (b :: r) = hex_digit (b / 16) :: hex_digit (b mod 16) :: hex_encode r.
Proof. reflexivity. Qed.

Lemma hex_encode_length bs : length (hex_encode bs) = (2 * length bs)%nat.
Proof. induction bs as [|b r IH]; [reflexivity|]. rewrite hex_encode_cons. cbn [length]. rewrite IH. lia. Qed.

Lemma hex_chunks_encode bs : Forall (fun b => b < 256) bs -> hex_chunks (hex_encode bs) = Ok bs.
Proof.
  intros H. induction H as [|b r Hb Hr IH]; [reflexivity|].
  rewrite hex_encode_cons. cbn [hex_chunks].
  rewrite hex_val_digit by (apply N.div_lt_upper_bound; lia).
  rewrite hex_val_digit by (apply N.mod_lt; lia).
  cbn [bind]. rewrite IH. cbn [bind]. f_equal. f_equal.
  pose proof (N.div_mod b 16 ltac:(lia)). lia.
Qed.

Theorem hex_roundtrip : forall bs : list N, Forall (fun b => b < 256) bs -> hex_decode (hex_encode bs) = Ok bs.
Proof.
  intros bs H. unfold hex_decode. rewrite hex_encode_length.
  assert (E : Nat.even (2 * length bs) = true).
  { rewrite Nat.even_mul. reflexivity. }
  rewrite E. apply hex_chunks_encode. exact H.
Qed.

(* the text produced is lower-case hex digits, two per byte *)
Theorem hex_encode_digits : forall bs : list N, Forall (fun b => b < 256) bs ->
  length (hex_encode bs) = (2 * length bs)%nat /\ Forall is_hexdigit (hex_encode bs).
Proof.
  intros bs H. split; [apply hex_encode_length|].
  induction H as [|b r Hb Hr IH]; [constructor|]. rewrite hex_encode_cons.
  assert (Hd : forall d, d < 16 -> is_hexdigit (hex_digit d)).
  { intros d Hdd. unfold hex_digit, is_hexdigit. destruct (N.ltb_spec d 10); lia. }
  constructor; [apply Hd; apply N.div_lt_upper_bound; lia|].
  constructor; [apply Hd; apply N.mod_lt; lia | exact IH].
Qed.

(* induction two elements at a time *)
Lemma list_ind2 {A} (P : list A -> Prop) :
  P [] -> (forall a, P [a]) -> (forall a b r, P r -> P (a :: b :: r)) -> forall l, P l.
Proof.
  intros H0 H1 H2. fix IH 1. intros [|a [|b r]]; [exact H0 | apply H1 | apply H2; apply IH].
Qed.

Lemma hex_chunks_even : forall bs, Nat.even (length bs) = true ->
  (exists out, hex_chunks bs = Ok out /\ Forall is_hexdigit bs /\ Forall (fun b => b < 256) out /\
               length bs = (2 * length out)%nat) \/
  (hex_chunks bs = Err EValue /\ ~ Forall is_hexdigit bs).
Proof.
  intros bs. induction bs as [|a|a b r IH] using list_ind2; intros He.
  - left. exists []. repeat split; constructor.
  - discriminate He.
  - cbn [length] in He. change (Nat.even (S (S (length r)))) with (Nat.even (length r)) in He.
    cbn [hex_chunks].
    destruct (hex_val_cases a) as [(va & Ea & Ha) | (Ea & Ha)].
    2:{ right. rewrite Ea. split; [reflexivity|]. intro F. inversion F; subst. contradiction. }
    destruct (hex_val_cases b) as [(vb & Eb & Hb) | (Eb & Hb)].
    2:{ right. rewrite Ea, Eb. split; [reflexivity|]. intro F. inversion F as [|? ? ? F2]; subst. inversion F2; subst. contradiction. }
    rewrite Ea, Eb. cbn [bind].
    destruct (IH He) as [(out & Eo & Fh & Fb & Hl) | (Eo & Fh)].
    + left. exists ((va * 16 + vb) :: out). rewrite Eo. cbn [bind]. split; [reflexivity|].
      split; [constructor; [exact Ha | constructor; [exact Hb | exact Fh]]|]. split.
      * constructor; [|exact Fb].
        destruct (hex_val_ok a Ha) as (v1 & E1 & L1). destruct (hex_val_ok b Hb) as (v2 & E2 & L2).
        rewrite Ea in E1. rewrite Eb in E2. inversion E1; inversion E2; subst. lia.
      * cbn [length]. lia.
    + right. rewrite Eo. split; [reflexivity|]. intro F. inversion F as [|? ? ? F2]; subst. inversion F2; subst. contradiction.
Qed.

(* hex_decode succeeds exactly on even-length texts of hex digits; otherwise it is a value error, never a panic *)
Theorem hex_decode_rejects : forall bs : list N,
  (Nat.even (length bs) = true /\ Forall is_hexdigit bs ->
     exists out, hex_decode bs = Ok out /\ Forall (fun b => b < 256) out /\ length bs = (2 * length out)%nat) /\
  (~ (Nat.even (length bs) = true /\ Forall is_hexdigit bs) -> hex_decode bs = Err EValue).
Proof.
  intros bs. unfold hex_decode. destruct (Nat.even (length bs)) eqn:E.
  - destruct (hex_chunks_even bs E) as [(out & Eo & Fh & Fb & Hl) | (Eo & Fh)].
    + split; [intros _; exists out; auto|]. intros H. exfalso. apply H. auto.
    + split; [intros [_ F]; contradiction | intros _; exact Eo].
  - split; [intros [H _]; discriminate | reflexivity].
Qed.

(* decoding is insensitive to the case of the hex digits *)
Definition hex_lower (c : N) : N := if (65 <=? c) && (c <=? 70) then c + 32 else c.
Lemma hex_val_lower c : hex_val (hex_lower c) = hex_val c.
Proof.
  unfold hex_lower. destruct ((65 <=? c) && (c <=? 70)) eqn:E; [|reflexivity].
  apply andb_true_iff in E. destruct E as [A B]. apply N.leb_le in A, B.
  assert (Hc : exists k, (k < 6)%nat /\ c = 65 + N.of_nat k) by (exists (N.to_nat (c - 65)); lia).
  destruct Hc as (k & Hk & ->). do 6 (destruct k as [|k]; [reflexivity|]). lia.
Qed.
Theorem hex_decode_case_insensitive : forall bs : list N, hex_decode (map hex_lower bs) = hex_decode bs.
Proof.
  intros bs. unfold hex_decode. rewrite map_length. destruct (Nat.even (length bs)); [|reflexivity].
  induction bs as [|a|a b r IH] using list_ind2; try reflexivity.
  cbn [map hex_chunks]. rewrite !hex_val_lower. rewrite IH. reflexivity.
Qed.
