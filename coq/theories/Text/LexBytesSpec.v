(* C15 - specification of bytes literals B"..." / B'...': the bytes a literal spells when a
   \xHH escape means the byte HH and everything else means its UTF-8 encoding.  The code as
   found reads \xHH as the character U+00HH and encodes that (known finding
   bytes-x-escape-utf8), which differs exactly when HH >= 0x80: `known_bytes_x`. *)
From Coq Require Import NArith List Bool.
From NV Require Import Text.Chars Text.LexLit.
Import ListNotations.
Open Scope N_scope.

Definition spelled_bytes (f : N -> style) (s : list N) : list N :=
  flat_map (fun c => match f c with StX => [c] | _ => utf8_char c end) s.

(* structural matcher of the known finding: some character >= 0x80 is written as \xHH *)
Definition known_bytes_x (f : N -> style) (s : list N) : Prop :=
  exists c, In c s /\ f c = StX /\ 128 <= c.
