(* C15 - facts about the character helpers of Chars.v *)
From Coq Require Import NArith ZArith List Bool Lia.
From NV Require Import Common.Outcome Text.Chars.
Import ListNotations.
Open Scope N_scope.

Ltac nb :=
  repeat match goal with
  | |- context [N.leb ?a ?b] => destruct (N.leb_spec a b)
  | |- context [N.ltb ?a ?b] => destruct (N.ltb_spec a b)
  | |- context [N.eqb ?a ?b] => destruct (N.eqb_spec a b)
  end; cbn [andb orb negb]; try lia; try reflexivity; try discriminate.

Lemma frev_rev {A} (l : list A) : frev l = rev l.
Proof. unfold frev. rewrite rev_append_rev. apply app_nil_r. Qed.

Lemma span_spec p : forall s a b, span p s = (a, b) ->
  s = a ++ b /\ forallb p a = true /\ match b with [] => True | c :: _ => p c = false end.
Proof.
  induction s as [|c r IH]; intros a b H; cbn in H.
  - inversion H; subst. auto.
  - destruct (p c) eqn:E.
    + destruct (span p r) as [a' b'] eqn:E2. inversion H; subst.
      destruct (IH _ _ eq_refl) as (H1 & H2 & H3). subst r. cbn. rewrite E, H2. auto.
    + inversion H; subst. cbn. auto.
Qed.

Lemma span_length p s a b : span p s = (a, b) -> (length b <= length s)%nat.
Proof. intros H. apply span_spec in H. destruct H as (H & _). subst. rewrite app_length. lia. Qed.

(* span stops exactly at the first character outside p *)
Lemma span_app p : forall a rest, forallb p a = true ->
  match rest with [] => True | c :: _ => p c = false end -> span p (a ++ rest) = (a, rest).
Proof.
  induction a as [|c a IH]; intros rest Ha Hr; cbn.
  - destruct rest as [|c r]; cbn; auto. now rewrite Hr.
  - cbn in Ha. apply andb_true_iff in Ha. destruct Ha as [Hc Ha]. cbn. rewrite Hc, (IH rest Ha Hr). reflexivity.
Qed.

Lemma list_eqb_eq : forall a b, list_eqb a b = true <-> a = b.
Proof.
  induction a as [|x a IH]; destruct b as [|y b]; cbn; split; intros H; try discriminate; auto.
  - apply andb_true_iff in H. destruct H as [H1 H2]. apply N.eqb_eq in H1. apply IH in H2. congruence.
  - inversion H; subst. rewrite N.eqb_refl. cbn. now apply IH.
Qed.

(* ---- digits ---- *)
Lemma digit_val_lt36 c v : digit_val c = Some v -> v < 36.
Proof.
  unfold digit_val, is_ascii_digit, is_ascii_lower, is_ascii_upper, in_range. intros H.
  destruct ((48 <=? c) && (c <=? 57)) eqn:E1; [inversion H; subst; revert E1; nb|].
  destruct ((97 <=? c) && (c <=? 122)) eqn:E2; [inversion H; subst; revert E2; nb|].
  destruct ((65 <=? c) && (c <=? 90)) eqn:E3; [inversion H; subst; revert E3; nb|]. discriminate.
Qed.

Lemma to_digit_lt c b d : to_digit c b = Some d -> d < b.
Proof.
  unfold to_digit. destruct (digit_val c) as [v|]; [|discriminate].
  destruct (N.ltb_spec v b) as [Hlt|Hge]; intros E; inversion E; subst; auto.
Qed.

Lemma ascii_digit_to_digit c : is_ascii_digit c = true -> to_digit c 10 = Some (c - 48).
Proof.
  unfold to_digit, digit_val. intros H. rewrite H.
  unfold is_ascii_digit, in_range in H. apply andb_true_iff in H. destruct H as [H1 H2].
  apply N.leb_le in H1, H2. destruct (N.ltb_spec (c - 48) 10); [reflexivity|lia].
Qed.

Lemma ascii_digit_cases c : is_ascii_digit c = true ->
  c = 48 \/ c = 49 \/ c = 50 \/ c = 51 \/ c = 52 \/ c = 53 \/ c = 54 \/ c = 55 \/ c = 56 \/ c = 57.
Proof.
  unfold is_ascii_digit, in_range. intros H. apply andb_true_iff in H. destruct H as [H1 H2].
  apply N.leb_le in H1, H2. lia.
Qed.
