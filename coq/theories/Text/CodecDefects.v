(* C16 - the anchored code as it was BEFORE the repairs (commits 014492b, b70001a, 7d2e4bd, a25b23c
   in /repo), transcribed the same way, and the inputs on which the property failed.  These are
   records of the findings F18, F19, F20 and of the exponent overflow; nothing else depends on this file. *)
From Coq Require Import ZArith NArith QArith List Bool.
From NV Require Import Common.Outcome Common.MachineInt Text.CodecChars Text.IntText Text.Radix Text.Decimal
  Text.IntFmt Text.CodecSpec.
Import ListNotations.
Open Scope Z_scope.

(* i32 arithmetic of a debug build *)
Definition chk_i32_panic (z : Z) : outcome Z := if in_i32b z then Ok z else Panic.
Definition as_i32 (z : Z) : Z := let m := z mod 2 ^ 32 in if m <? 2 ^ 31 then m else m - 2 ^ 32.

Definition apply_exp10_v0 (base exponent : Z) : outcome Q :=
  if 0 <=? exponent then Ok (inject_Z (base * 10 ^ exponent))
  else e <- chk_i32_panic (- exponent) ;; ratio_new base (10 ^ e).          (* (-exponent) as u32 *)

Definition parse_decimal_v0 (s : str) : outcome Q :=
  be <- match split_on is_e s with
        | Some (base_part, exp_part) => e <- opt_out (parse_i32 exp_part) ;; Ok (base_part, e)
        | None => Ok (s, 0)
        end ;;
  let '(base_str, exponent) := be in
  match split_on is_dot base_str with
  | Some (integer_part, fractional_part) =>
    if is_nil integer_part && is_nil fractional_part then Err EValue
    else if negb (all_chars is_ascii_digit fractional_part) then Err EValue
    else
      integer_digits <- (if is_nil integer_part then Ok 0 else opt_out (parse_bigint 10 integer_part)) ;;
      fractional_digits <- (if is_nil fractional_part then Ok 0 else opt_out (parse_bigint 10 fractional_part)) ;;
      let decimal_places := Z.of_nat (length fractional_part) in
      let base_value := integer_digits * 10 ^ decimal_places + fractional_digits in   (* sign only in integer_digits *)
      e <- chk_i32_panic (exponent - as_i32 decimal_places) ;;
      apply_exp10_v0 base_value e
  | None =>
    b <- opt_out (parse_bigint 10 base_str) ;; apply_exp10_v0 b exponent
  end.

Definition minus_1_5 : dec := {| d_sign := SMinus; d_int := [1]; d_frac := Some [5]; d_exp := None |}.
Definition minus_0_5 : dec := {| d_sign := SMinus; d_int := [0]; d_frac := Some [5]; d_exp := None |}.

(* F18: rational("-1.5") = -1/2 and rational("-0.5") = +1/2 *)
Example F18_refuted :
  parse_decimal_v0 (render_dec minus_1_5) = Ok (-1 # 2)%Q /\ ~ ((-1 # 2) == dec_value minus_1_5)%Q /\
  parse_decimal_v0 (render_dec minus_0_5) = Ok (1 # 2)%Q /\ ~ ((1 # 2) == dec_value minus_0_5)%Q /\
  parse_decimal_exactly (render_dec minus_1_5) = Ok (-3 # 2)%Q /\
  parse_decimal_exactly (render_dec minus_0_5) = Ok (-1 # 2)%Q.
Proof. repeat split; try (vm_compute; reflexivity); vm_compute; discriminate. Qed.

(* exponent arithmetic: "0.5e-2147483648" and "1e-2147483648" panicked *)
Example exp_overflow_refuted :
  parse_decimal_v0 [48; 46; 53; 101; 45; 50; 49; 52; 55; 52; 56; 51; 54; 52; 56]%N = Panic /\
  parse_decimal_exactly [48; 46; 53; 101; 45; 50; 49; 52; 55; 52; 56; 51; 54; 52; 56]%N = Err EValue.
Proof. split; vm_compute; reflexivity. Qed.
Example exp_negate_refuted : apply_exp10_v0 1 i32_min = Panic.
Proof. vm_compute. reflexivity. Qed.

(* F20: str_radix(0, b) = "" *)
Definition str_radix_v0 (a r : Z) : outcome str :=
  match to_u32 r with
  | None => Err EValue
  | Some base =>
    if (2 <=? base) && (base <=? 36) then
      let neg := a <? 0 in
      let a := if neg then - a else a in
      ret <- radix_loop (digit_fuel a) base a ;;
      let ret := if neg then ret ++ [c_minus] else ret in
      Ok (rev ret)
    else Err EValue
  end.
Example F20_refuted : str_radix_v0 0 2 = Ok [] /\ int_radix [] 2 = Ok 0 /\ str_radix 0 2 = Ok [48%N].
Proof. repeat split; reflexivity. Qed.

(* F19: the Small arm delegated to i64 formatting in every base *)
Definition fmt_nint_v0 (f : fmt_base) (x : nint) : str :=
  match x with Small n => fmt_i64 f n | Big n => fmt_bigint f n end.
Example F19_refuted :
  nint_val (Small (-3)) = nint_val (Big (-3)) /\ fmt_nint_v0 LowerHex (Small (-3)) <> fmt_nint_v0 LowerHex (Big (-3)) /\
  fmt_nint_v0 Binary (Small (-3)) <> fmt_nint_v0 Binary (Big (-3)) /\
  fmt_nint_v0 Octal (Small (-3)) <> fmt_nint_v0 Octal (Big (-3)) /\
  fmt_nint LowerHex (Small (-3)) = fmt_nint LowerHex (Big (-3)).
Proof. repeat split; try reflexivity; vm_compute; discriminate. Qed.
