(* C15 - characters as Unicode code points (N), the character classes the lexer of
   /repo/src/lex.rs asks about, and the small machine-integer helpers (u32 / i32) it needs.

   ASCII behaviour of `char::is_alphabetic / is_numeric / is_uppercase` is written out;
   for code points >= 128 these three are tables of the Unicode database and are an
   explicit parameter `U : uclass` of the model (every theorem quantifies over U; the
   correspondence run instantiates U with the tables dumped from the implementation's own
   `char` methods).  `char::is_whitespace` (White_Space, 25 code points) is concrete. *)
From Coq Require Import NArith ZArith List Bool Ascii String.
From NV Require Import Common.Outcome.
Import ListNotations.
Open Scope N_scope.

(* ---- writing characters and ASCII strings ----
   `chr "a"` and `cps "text"` are evaluated to N / list N constants when a definition is
   elaborated (ltac in a parsing-only notation), so the model never mentions Coq's ascii or
   string types and nothing of them is extracted. *)
Fixpoint cps_fn (s : string) : list N :=
  match s with EmptyString => [] | String a r => N_of_ascii a :: cps_fn r end.
Notation chr a := (ltac:(let v := eval vm_compute in (N_of_ascii a) in exact v)) (only parsing).
Notation cps s := (ltac:(let v := eval vm_compute in (cps_fn s) in exact v)) (only parsing).
Notation isc a c := (N.eqb c (chr a)) (only parsing).
Notation one_of a b c := (orb (isc a c) (isc b c)) (only parsing).

Fixpoint list_eqb (a b : list N) : bool :=
  match a, b with
  | [], [] => true
  | x :: a', y :: b' => (x =? y) && list_eqb a' b'
  | _, _ => false
  end.
Notation str_is s l := (list_eqb l (cps s)) (only parsing).

Definition in_range (lo hi c : N) : bool := (lo <=? c) && (c <=? hi).

(* ---- character classes ---- *)
Record uclass := {
  uc_alphabetic : N -> bool;   (* char::is_alphabetic for c >= 128 *)
  uc_numeric : N -> bool;      (* char::is_numeric    for c >= 128 *)
  uc_uppercase : N -> bool     (* char::is_uppercase  for c >= 128 *)
}.

Definition is_ascii_digit (c : N) : bool := in_range 48 57 c.            (* char::is_digit(10) *)
Definition is_ascii_upper (c : N) : bool := in_range 65 90 c.
Definition is_ascii_lower (c : N) : bool := in_range 97 122 c.

Definition is_alphabetic (U : uclass) (c : N) : bool :=
  if c <? 128 then is_ascii_upper c || is_ascii_lower c else uc_alphabetic U c.
Definition is_numeric (U : uclass) (c : N) : bool :=
  if c <? 128 then is_ascii_digit c else uc_numeric U c.
Definition is_alphanumeric (U : uclass) (c : N) : bool := is_alphabetic U c || is_numeric U c.
Definition is_uppercase (U : uclass) (c : N) : bool :=
  if c <? 128 then is_ascii_upper c else uc_uppercase U c.

Definition is_whitespace (c : N) : bool :=
  in_range 9 13 c || (c =? 32) || (c =? 133) || (c =? 160) || (c =? 5760) ||
  in_range 8192 8202 c || (c =? 8232) || (c =? 8233) || (c =? 8239) || (c =? 8287) || (c =? 12288).

(* char::to_digit(radix), radix <= 36 (the callers pass 2..36) *)
Definition digit_val (c : N) : option N :=
  if is_ascii_digit c then Some (c - 48)
  else if is_ascii_lower c then Some (c - 97 + 10)
  else if is_ascii_upper c then Some (c - 65 + 10)
  else None.
Definition to_digit (c radix : N) : option N :=
  match digit_val c with
  | Some v => if v <? radix then Some v else None
  | None => None
  end.

(* the digit alphabet of lex_base_64_and_emit *)
Definition b64_digit (c : N) : option N :=
  if is_ascii_upper c then Some (c - 65)
  else if is_ascii_lower c then Some (c - 97 + 26)
  else if is_ascii_digit c then Some (c - 48 + 52)
  else if isc "+" c || isc "-" c then Some 62
  else if isc "/" c || isc "_" c then Some 63
  else None.

(* OPERATOR_SYMBOLS = "!$%&*+-./<=>?@^|~" and x215 and 12 mathematical symbols *)
Definition opsyms : list N :=
  [33; 36; 37; 38; 42; 43; 45; 46; 47; 60; 61; 62; 63; 64; 94; 124; 126; 215; 8712; 8713; 8715; 8716;
   8728; 8743; 8744; 8800; 8804; 8805; 8853; 10746].
Definition is_opsym (c : N) : bool := existsb (N.eqb c) opsyms.

Definition c_dragon : N := 128009.  (* U+1F409 *)
Definition c_wedge : N := 8743.     (* U+2227 logical and *)
Definition c_vee : N := 8744.       (* U+2228 logical or *)

(* ---- Unicode scalar values, char::from_u32, UTF-8 ---- *)
Definition is_scalar (x : N) : bool := (x <? 55296) || ((57343 <? x) && (x <? 1114112)).
Definition from_u32 (x : N) : option N := if is_scalar x then Some x else None.

Definition utf8_len (c : N) : N :=
  if c <? 128 then 1 else if c <? 2048 then 2 else if c <? 65536 then 3 else 4.
Definition utf8_char (c : N) : list N :=
  if c <? 128 then [c]
  else if c <? 2048 then [192 + c / 64; 128 + c mod 64]
  else if c <? 65536 then [224 + c / 4096; 128 + (c / 64) mod 64; 128 + c mod 64]
  else [240 + c / 262144; 128 + (c / 4096) mod 64; 128 + (c / 64) mod 64; 128 + c mod 64].
Definition utf8_encode (s : list N) : list N := flat_map utf8_char s.   (* String::into_bytes *)

(* ---- machine integers of this file's code ---- *)
Definition u32_max : N := 4294967295.
Definition usize_max_n : N := 18446744073709551615.
(* `x = 16 * x + cc` on u32, debug build: overflow panics (the code as found, F13) *)
Definition u32_mul_add_checked (x cc : N) : outcome N :=
  let y := 16 * x + cc in if y <=? u32_max then Ok y else Panic.
(* repaired: `x.saturating_mul(16).saturating_add(cc)` *)
Definition u32_mul_add_sat (x cc : N) : N := N.min (16 * x + cc) u32_max.

(* i32 counters (`depth`, `nesting_level`): checked in a debug build *)
Definition i32_max : Z := 2147483647.
Definition i32_min : Z := -2147483648.
Definition chk_i32 (z : Z) : outcome Z := if ((i32_min <=? z) && (z <=? i32_max))%Z then Ok z else Panic.

(* decimal value of a run of ASCII digits; str::parse::<BigInt/u32/usize> on such a run *)
Definition dec_value (s : list N) : N := fold_left (fun x c => 10 * x + (c - 48)) s 0.
Definition parse_bigint (s : list N) : option N :=
  match s with [] => None | _ => if forallb is_ascii_digit s then Some (dec_value s) else None end.
Definition parse_u32 (s : list N) : option N :=
  match parse_bigint s with Some v => if v <=? u32_max then Some v else None | None => None end.

(* list reversal in linear time (Coq's rev is quadratic when extracted); frev_rev in Chars_proofs *)
Definition frev {A} (l : list A) : list A := rev_append l [].

Definition span (p : N -> bool) : list N -> list N * list N :=
  fix go (s : list N) : list N * list N :=
    match s with
    | c :: r => if p c then let (a, b) := go r in (c :: a, b) else ([], s)
    | [] => ([], [])
    end.
