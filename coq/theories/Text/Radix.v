(* C16 - str_radix / int_radix (src/lib.rs ~5458, ~5491), on integer values (BigInt/NInt as Z;
   the arithmetic used - negation through BigInt, % and /= by a base in 2..36 - is total).
   Transcribes the tree after the F20 repair (an empty digit vector becomes "0").
   Definitions only. *)
From Coq Require Import ZArith NArith List Bool.
From NV Require Import Common.Outcome Text.CodecChars.
Import ListNotations.
Open Scope Z_scope.

Definition u32_max : Z := 2 ^ 32 - 1.
(* NInt::to_u32 *)
Definition to_u32 (z : Z) : option Z := if (0 <=? z) && (z <=? u32_max) then Some z else None.

(* the while loop; each pushed char is from_digit((a % r).to_u32().expect(..), base).expect(..) *)
Fixpoint radix_loop (fuel : nat) (base a : Z) : outcome (list N) :=
  match fuel with
  | O => OutOfFuel
  | S f =>
    if 0 <? a then
      match to_u32 (a mod base) with
      | None => Panic
      | Some d =>
        match from_digit d base with
        | None => Panic
        | Some c => rest <- radix_loop f base (a / base) ;; Ok (c :: rest)
        end
      end
    else Ok []
  end.

Definition str_radix (a r : Z) : outcome str :=
  match to_u32 r with
  | None => Err EValue                               (* "Base way out of range" *)
  | Some base =>
    if (2 <=? base) && (base <=? 36) then
      let neg := a <? 0 in
      let a := if neg then - a else a in
      ret <- radix_loop (digit_fuel a) base a ;;
      let ret := match ret with [] => [c_zero] | _ => ret end in      (* F20 repair *)
      let ret := if neg then ret ++ [c_minus] else ret in
      Ok (rev ret)
    else Err EValue                                  (* "Base not in [2, 36]" *)
  end.

(* the for loop over s.chars() (or over bytes read as Latin-1 chars) *)
Fixpoint int_radix_loop (base x : Z) (s : str) : outcome Z :=
  match s with
  | [] => Ok x
  | c :: r =>
    match to_digit c base with
    | Some cc => int_radix_loop base (base * x + cc) r
    | None => Err EValue                             (* "Bad digit in base" *)
    end
  end.

Definition int_radix (s : str) (r : Z) : outcome Z :=
  match to_u32 r with
  | None => Err EValue
  | Some base =>
    if (2 <=? base) && (base <=? 36) then int_radix_loop base 0 s else Err EValue
  end.

Example str_radix_ex :
  str_radix 255 16 = Ok [102; 102]%N /\ str_radix (-5) 2 = Ok [45; 49; 48; 49]%N /\
  str_radix 0 7 = Ok [48]%N /\ str_radix 5 1 = Err EValue /\ str_radix 5 37 = Err EValue /\
  str_radix 5 (-2) = Err EValue /\ int_radix [122; 90]%N 36 = Ok 1295 /\ int_radix [56]%N 8 = Err EValue /\
  int_radix [] 10 = Ok 0.
Proof. repeat split; reflexivity. Qed.
