(* C16 - utf8_encode (String::as_bytes), utf8_decode (String::from_utf8), chr, ord
   (src/lib.rs ~5540, ~5547, ~3724, ~3740; nnum.rs char_from_bigint).  A String is the list of
   its scalar values, so as_bytes/from_utf8 are the UTF-8 encoding form itself (Unicode
   Standard table 3-7, "well-formed UTF-8 byte sequences"): shortest form only, no surrogates,
   nothing above U+10FFFF.  Definitions only. *)
From Coq Require Import ZArith NArith List Bool.
From NV Require Import Common.Outcome Text.CodecChars.
Import ListNotations.
Open Scope N_scope.

Definition utf8_char (c : N) : list N :=
  if c <? 128 then [c]
  else if c <? 2048 then [192 + c / 64; 128 + c mod 64]
  else if c <? 65536 then [224 + c / 4096; 128 + (c / 64) mod 64; 128 + c mod 64]
  else [240 + c / 262144; 128 + (c / 4096) mod 64; 128 + (c / 64) mod 64; 128 + c mod 64].
Definition utf8_encode (s : str) : list N := flat_map utf8_char s.

Definition in_range (lo hi b : N) : bool := (lo <=? b) && (b <=? hi).
Definition is_cont (b : N) : bool := in_range 128 191 b.

Fixpoint utf8_decode (bs : list N) : outcome str :=
  match bs with
  | [] => Ok []
  | b0 :: r0 =>
    if b0 <? 128 then s <- utf8_decode r0 ;; Ok (b0 :: s)
    else if in_range 194 223 b0 then
      match r0 with
      | b1 :: r1 =>
        if is_cont b1 then s <- utf8_decode r1 ;; Ok (((b0 - 192) * 64 + (b1 - 128)) :: s)
        else Err EValue
      | _ => Err EValue
      end
    else if in_range 224 239 b0 then
      match r0 with
      | b1 :: b2 :: r2 =>
        if (if b0 =? 224 then in_range 160 191 b1
            else if b0 =? 237 then in_range 128 159 b1
            else is_cont b1) && is_cont b2
        then s <- utf8_decode r2 ;; Ok (((b0 - 224) * 4096 + (b1 - 128) * 64 + (b2 - 128)) :: s)
        else Err EValue
      | _ => Err EValue
      end
    else if in_range 240 244 b0 then
      match r0 with
      | b1 :: b2 :: b3 :: r3 =>
        if (if b0 =? 240 then in_range 144 191 b1
            else if b0 =? 244 then in_range 128 143 b1
            else is_cont b1) && is_cont b2 && is_cont b3
        then s <- utf8_decode r3 ;;
             Ok (((b0 - 240) * 262144 + (b1 - 128) * 4096 + (b2 - 128) * 64 + (b3 - 128)) :: s)
        else Err EValue
      | _ => Err EValue
      end
    else Err EValue
  end.

(* chr(n): char_from_bigint = n.to_u32().and_then(char::from_u32), then to_string *)
Definition chr (n : Z) : outcome str :=
  if (0 <=? n)%Z && (n <=? 4294967295)%Z then
    if is_scalar (Z.to_N n) then Ok [Z.to_N n] else Err EValue
  else Err EValue.
(* ord(s): exactly one char *)
Definition ord (s : str) : outcome Z :=
  match s with
  | [c] => Ok (Z.of_N c)
  | _ => Err EValue
  end.

Example utf8_ex :
  utf8_encode [97; 233; 119070] = [97; 195; 169; 240; 157; 132; 158] /\
  utf8_decode [97; 195; 169; 240; 157; 132; 158] = Ok [97; 233; 119070] /\
  utf8_decode [195] = Err EValue /\ utf8_decode [192; 128] = Err EValue /\
  utf8_decode [237; 160; 128] = Err EValue /\ utf8_decode [244; 144; 128; 128] = Err EValue /\
  utf8_decode [224; 128; 128] = Err EValue /\
  chr 55296 = Err EValue /\ chr 1114112 = Err EValue /\ chr (-1) = Err EValue /\ chr 119070 = Ok [119070] /\
  ord [] = Err EValue /\ ord [1; 2] = Err EValue.
Proof. repeat split; reflexivity. Qed.
