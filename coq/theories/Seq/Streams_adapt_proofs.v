(* C11 proofs, part 5: lazy map / filter / zip list the map / filter / zip of the inner lists
   (their len is the default: count by iterating); repeat / cycle / iterate follow their
   recurrences. *)
From Coq Require Import ZArith List Bool Arith Lia.
From NV Require Import Common.Outcome Common.MachineInt Seq.Index Seq.Streams Seq.StreamsSpec Seq.Streams_proofs.
Import ListNotations.
Open Scope Z_scope.
Ltac Zify.zify_post_hook ::= Z.div_mod_to_equations.

Lemma nth_map_seq {B} (g : nat -> B) n k d : (k < n)%nat -> nth k (map g (seq 0 n)) d = g k.
Proof.
  intros. rewrite (nth_indep _ d (g O)) by (rewrite map_length, seq_length; lia).
  rewrite map_nth, seq_nth by lia. reflexivity.
Qed.

(* the default len counts what iteration yields: every stream type without a len override *)
Theorem default_len_counts_iteration {St E} (step : St -> option E * St) s l fuel :
  yields step s l -> (length l < fuel)%nat ->
  default_len step fuel s = Ok (Some (Z.of_nat (length l))).
Proof. intros Hy Hf. unfold default_len. rewrite (yields_count _ _ _ Hy fuel Hf). reflexivity. Qed.

Section MapProofs.
Context {St E F : Type}.
Variable step : St -> option E * St.

(* ---- lazy_map ---- *)
Variable f : E -> F.
Theorem map_yields : forall s l, yields step s l -> yields (map_step step f) (AOk s) (map f l).
Proof.
  induction 1 as [s H|s e l H Hy IH].
  - constructor. cbn. destruct (step s) as [o s']. cbn in H. subst. reflexivity.
  - cbn [map]. destruct (step s) as [o s'] eqn:Es. cbn in H, Hy, IH. subst o.
    econstructor; cbn [map_step]; rewrite Es; cbn; [reflexivity|assumption].
Qed.
Theorem map_stopped_yields : yields (map_step step f) AStopped [].
Proof. constructor. reflexivity. Qed.
(* after the inner stream ends the adaptor is stopped, and stays so *)
Lemma map_absorbing a : fst (map_step step f a) = None -> snd (map_step step f a) = AStopped.
Proof.
  destruct a as [s|]; cbn; [|reflexivity]. destruct (step s) as [[e|] s']; cbn; [discriminate|reflexivity].
Qed.

End MapProofs.

Section FilterProofs.
Context {St E : Type}.
Variable step : St -> option E * St.
(* ---- lazy_filter ---- *)
Variable p : E -> bool.
Lemma filter_loop_spec : forall s l, yields step s l -> forall fuel, (length l < fuel)%nat ->
  (filter p l = [] /\ filter_loop step p fuel s = Ok (None, AStopped)) \/
  (exists l1 e l2 s', l = l1 ++ e :: l2 /\ filter p l1 = [] /\ p e = true /\ yields step s' l2 /\
     filter_loop step p fuel s = Ok (Some e, AOk s')).
Proof.
  induction 1 as [s H|s e l H Hy IH]; intros fuel Hf.
  - left. split; [reflexivity|]. destruct fuel; [lia|]. cbn. destruct (step s) as [o s']. cbn in H. subst. reflexivity.
  - destruct fuel; [lia|]. cbn [filter_loop]. destruct (step s) as [o s'] eqn:Es. cbn in H, Hy, IH. subst o.
    cbn [length] in Hf. destruct (p e) eqn:Ep.
    + right. exists [], e, l, s'. repeat split; auto.
    + destruct (IH fuel ltac:(lia)) as [[Hn Hl]|[l1 [e' [l2 [s2 [Hl [Hn [Hp [Hy2 Hr]]]]]]]]].
      * left. cbn [filter]. rewrite Ep. auto.
      * right. exists (e :: l1), e', l2, s2. subst l. repeat split; auto. cbn [filter]. rewrite Ep. assumption.
Qed.

Theorem filter_lists : forall n s l, length l = n -> yields step s l ->
  forall fuel, (length l < fuel)%nat -> filter_unfold step p fuel (AOk s) = Ok (filter p l).
Proof.
  induction n as [n IHn] using lt_wf_ind. intros s l Hn Hy fuel Hf.
  destruct fuel as [|k]; [lia|]. cbn [filter_unfold filter_step].
  destruct (filter_loop_spec s l Hy (S k) Hf) as [[Hnil Hl]|[l1 [e [l2 [s2 [Hl [Hnil [Hp [Hy2 Hr]]]]]]]]].
  - rewrite Hl. cbn [bind]. rewrite Hnil. reflexivity.
  - rewrite Hr. cbn [bind]. subst l. rewrite app_length in *. cbn [length] in *.
    rewrite (IHn (length l2) ltac:(lia) s2 l2 eq_refl Hy2 k ltac:(lia)). cbn [omap bind].
    rewrite filter_app, Hnil. cbn [filter app]. rewrite Hp. reflexivity.
Qed.
End FilterProofs.

(* ---- lazy_zip of two streams ---- *)
Section ZipProofs.
Context {St E : Type}.
Variable step : St -> option E * St.
Theorem zip2_yields : forall s1 l1, yields step s1 l1 -> forall s2 l2, yields step s2 l2 ->
  yields (zip_step step) (AOk [s1; s2]) (map (fun xy => [fst xy; snd xy]) (combine l1 l2)).
Proof.
  intros s1 l1 H1. induction H1 as [s1 H|s1 e1 l1 H Hy1 IH]; intros s2 l2 H2.
  - constructor. cbn. destruct (step s1) as [o s']. cbn in H. subst. reflexivity.
  - destruct (step s1) as [o s1'] eqn:Es1. cbn in H, Hy1, IH. subst o.
    inversion H2 as [s2' H3|s2' e2 l2' H3 Hy2]; subst.
    + constructor. cbn. rewrite Es1. destruct (step s2) as [o s']. cbn in H3. subst. reflexivity.
    + destruct (step s2) as [o s2'] eqn:Es2. cbn in H3, Hy2. subst o. cbn [combine map fst snd].
      econstructor; cbn [zip_step zip_heads]; rewrite Es1, Es2; cbn [fst snd]; [reflexivity|].
      apply IH. assumption.
Qed.
End ZipProofs.

(* ------------------------------------------------------------------ endless streams *)
Section InfiniteProofs.
Context {A : Type}.

Theorem repeat_prefix (x : A) n : unfold repeat_step n x = repeat x n.
Proof. induction n; cbn; [reflexivity|]. f_equal. assumption. Qed.

(* a cycle over a non-empty list at a position inside it *)
Definition cycle_ok (c : @cycle A) : Prop := (snd c < length (fst c))%nat.

Lemma cycle_ok_step c : cycle_ok c -> cycle_ok (snd (cycle_step c)).
Proof.
  destruct c as [xs pos]. unfold cycle_ok. cbn [fst snd cycle_step]. intros H.
  destruct (nth_error xs pos) eqn:E; cbn [fst snd]; [|assumption]. apply Nat.mod_upper_bound. lia.
Qed.

Theorem cycle_prefix (d : A) : forall n xs pos, (pos < length xs)%nat ->
  unfold cycle_step n (xs, pos) = map (fun k => nth ((pos + k) mod length xs) xs d) (seq 0 n).
Proof.
  induction n; intros xs pos Hp; [reflexivity|]. cbn [unfold cycle_step].
  destruct (nth_error xs pos) as [a|] eqn:E; [|apply nth_error_None in E; lia].
  cbn [seq map]. f_equal.
  - rewrite Nat.add_0_r, Nat.mod_small by assumption. symmetry. apply nth_error_nth. assumption.
  - rewrite IHn by (apply Nat.mod_upper_bound; lia). rewrite <- seq_shift, map_map. apply map_ext.
    intros k. f_equal. rewrite Nat.add_mod_idemp_l by lia. f_equal. lia.
Qed.

(* Cycle's index override: element (pos + i) mod len for EVERY machine-word index, never a panic *)
Theorem cycle_index_spec (d : A) xs pos (i : Z) : (pos < length xs)%nat ->
  cycle_index (xs, pos) i = Ok (nth (Z.to_nat ((Z.of_nat pos + i) mod Z.of_nat (length xs))) xs d).
Proof.
  intros Hp. unfold cycle_index, zlen. set (n := Z.of_nat (length xs)). assert (0 < n) by lia.
  rewrite Zplus_mod_idemp_r. unfold rust_get.
  pose proof (Z.mod_pos_bound (Z.of_nat pos + i) n H) as Hb.
  destruct (Z.leb_spec 0 ((Z.of_nat pos + i) mod n)); [|lia].
  destruct (nth_error xs (Z.to_nat ((Z.of_nat pos + i) mod n))) eqn:E.
  - f_equal. symmetry. apply nth_error_nth. assumption.
  - apply nth_error_None in E. lia.
Qed.
(* for i >= 0 this is the element iteration reaches after i steps *)
Theorem cycle_index_agrees_with_iteration (d : A) xs pos (k : nat) : (pos < length xs)%nat ->
  cycle_index (xs, pos) (Z.of_nat k) = Ok (nth k (unfold cycle_step (S k) (xs, pos)) d).
Proof.
  intros Hp. rewrite (cycle_index_spec d) by assumption. f_equal.
  rewrite (cycle_prefix d) by assumption.
  rewrite nth_map_seq by lia. f_equal.
  rewrite <- Nat2Z.inj_add, <- Nat2Z.inj_mod, Nat2Z.id. reflexivity.
Qed.
End InfiniteProofs.

Section IterateProofs.
Context {A : Type}.
Variable f : A -> A.
Theorem iterate_prefix : forall n x, unfold (iterate_step f) n x = map (fun k => Nat.iter k f x) (seq 0 n).
Proof.
  induction n; intros x; [reflexivity|]. cbn [unfold iterate_step seq map Nat.iter]. f_equal.
  rewrite IHn, <- seq_shift, map_map. apply map_ext. intros k. clear. induction k; cbn; [reflexivity|]. f_equal. assumption.
Qed.

End IterateProofs.


(* Cycle::reversed: reverse(s)[j] = s[-1-j] for every j, i.e. the reversed cycle runs backwards
   from the element before the current one *)
Lemma rev_index_arith n pos j : 0 < n -> 0 <= pos < n ->
  n - 1 - (((n - pos) mod n + j mod n) mod n) = (pos + (-1 - j) mod n) mod n.
Proof.
  intros Hn Hp.
  rewrite <- Zplus_mod. rewrite Zplus_mod_idemp_r.
  assert (E1 : (n - pos + j) mod n = (j - pos) mod n).
  { replace (n - pos + j) with (j - pos + 1 * n) by lia. apply Z_mod_plus_full. }
  rewrite E1.
  assert (E2 : (pos + (-1 - j)) mod n = n - 1 - (j - pos) mod n).
  { pose proof (Z.mod_pos_bound (j - pos) n Hn) as Hb.
    symmetry. apply Zmod_unique with (q := - ((j - pos) / n) - 1); [lia|].
    pose proof (Z.div_mod (j - pos) n ltac:(lia)). lia. }
  rewrite E2. reflexivity.
Qed.

Section CycleReversed.
Context {A : Type}.
Theorem cycle_reversed_spec (d : A) (xs : list A) pos (j : Z) : (pos < length xs)%nat ->
  cycle_index (cycle_reversed (xs, pos)) j = cycle_index (xs, pos) (-1 - j).
Proof.
  intros Hp.
  assert (Hp' : ((length xs - pos) mod length xs < length (rev xs))%nat).
  { rewrite rev_length. apply Nat.mod_upper_bound. lia. }
  unfold cycle_reversed. rewrite (cycle_index_spec d) by assumption.
  rewrite (cycle_index_spec d) by assumption. f_equal.
  rewrite rev_length. set (n := Z.of_nat (length xs)). assert (Hn : 0 < n) by lia.
  pose proof (Z.mod_pos_bound (Z.of_nat ((length xs - pos) mod length xs) + j) n Hn) as Hb.
  set (r := (Z.of_nat ((length xs - pos) mod length xs) + j) mod n) in *.
  rewrite rev_nth by (unfold n in *; lia).
  f_equal.
  pose proof (rev_index_arith n (Z.of_nat pos) j Hn ltac:(lia)) as Ha.
  assert (Er : r = ((n - Z.of_nat pos) mod n + j mod n) mod n).
  { unfold r. rewrite Nat2Z.inj_mod, Nat2Z.inj_sub by lia. fold n. rewrite <- Zplus_mod_idemp_r. reflexivity. }
  rewrite <- Zplus_mod_idemp_r, <- Ha, <- Er. unfold n in *. lia.
Qed.
End CycleReversed.
