(* C11 proofs, part 4: the observers are the list functions of list(s); consumers holding a
   second reference never advance the variable's stream. *)
From Coq Require Import ZArith List Bool Arith Lia.
From NV Require Import Common.Outcome Common.MachineInt Seq.Index Seq.IndexSpec Seq.Index_proofs
  Seq.Streams Seq.StreamsSpec Seq.Streams_proofs.
Import ListNotations.
Open Scope Z_scope.

Section ObsProofs.
Context {St E : Type}.
Variable step : St -> option E * St.
Variable len : St -> outcome (option Z).
Variable eqb : E -> E -> bool.
Variable fuel : nat.
Variable s : St.
Variable l : list E.
Hypothesis Hy : yields step s l.
Hypothesis Hlen : len s = Ok (Some (Z.of_nat (length l))).
Hypothesis Hfuel : (length l <= fuel)%nat.

Lemma force_is_list : force step fuel s = l.
Proof. unfold force. apply yields_unfold; assumption. Qed.

Theorem observers_as_list : fits l ->
  obs_len len s = Ok (Some (Z.of_nat (length l))) /\
  obs_truthy len s = Ok (match l with [] => false | _ => true end) /\
  (forall i, obs_index step fuel s i = index_list l i) /\
  (forall lo hi, all_i64 lo -> all_i64 hi ->
     omap sliced_elems (obs_slice step fuel s (obound lo) (obound hi)) = Ok (py_slice l lo hi)) /\
  obs_reverse step fuel s = Ok (rev l) /\
  obs_last step fuel s = opt_out (py_index l (-1)) /\
  (forall x, obs_in step eqb fuel x s = Ok (existsb (eqb x) l)) /\
  (forall k, obs_unpack step len fuel k s = if (length l =? k)%nat then Ok l else Err EValue).
Proof.
  intros Hfit. unfold obs_len, obs_truthy, obs_index, obs_slice, obs_reverse, obs_last, obs_in, obs_unpack.
  rewrite force_is_list, Hlen. cbn [bind]. repeat split.
  - destruct l; reflexivity.
  - intros i. apply stream_index_as_list. assumption.
  - intros lo hi Hlo Hhi. rewrite stream_slice_as_list by assumption. apply slice_python; assumption.
  - rewrite <- (index_python l (-1) Hfit). rewrite <- (stream_index_as_list l (IInt (-1)) Hfit). reflexivity.
Qed.
End ObsProofs.

(* ------------------------------------------------------------------ shared ownership *)
Section SharedProofs.
Context {St E : Type}.
Variable step : St -> option E * St.

(* what k calls of next on a private clone of s return *)
Fixpoint nexts (k : nat) (s : St) : list (option E) :=
  match k with
  | O => []
  | S k' => fst (step s) :: nexts k' (snd (step s))
  end.

Lemma nth_error_firstn_lt {A} : forall (h : list A) a b, (b < a)%nat -> nth_error (firstn a h) b = nth_error h b.
Proof.
  induction h as [|x h IH]; intros a b H.
  - destruct a, b; reflexivity.
  - destruct a; [lia|]. destruct b; [reflexivity|]. cbn. apply IH. lia.
Qed.
Lemma nth_error_skipn_add {A} : forall (h : list A) a b, nth_error (skipn a h) b = nth_error h (a + b).
Proof.
  induction h as [|x h IH]; intros a b.
  - destruct a, b; reflexivity.
  - destruct a; [reflexivity|]. cbn. apply IH.
Qed.
Lemma set_cell_length (h : @heap St) a c : (a < length h)%nat -> length (set_cell h a c) = length h.
Proof.
  intros Ha. unfold set_cell. rewrite app_length, firstn_length. cbn [length]. rewrite skipn_length. lia.
Qed.
Lemma set_cell_same (h : @heap St) a c : (a < length h)%nat -> nth_error (set_cell h a c) a = Some c.
Proof.
  intros Ha. unfold set_cell. rewrite nth_error_app2; rewrite firstn_length; [|lia].
  replace (a - Nat.min a (length h))%nat with O by lia. reflexivity.
Qed.
Lemma set_cell_other (h : @heap St) a b c : (a < length h)%nat -> b <> a ->
  nth_error (set_cell h a c) b = nth_error h b.
Proof.
  intros Ha Hb. unfold set_cell. destruct (Nat.lt_ge_cases b a).
  - rewrite nth_error_app1 by (rewrite firstn_length; lia). apply nth_error_firstn_lt; assumption.
  - rewrite nth_error_app2 by (rewrite firstn_length; lia). rewrite firstn_length.
    replace (b - Nat.min a (length h))%nat with (S (b - S a)) by lia. cbn [nth_error].
    rewrite nth_error_skipn_add. f_equal. lia.
Qed.

(* a uniquely owned stream is advanced in place, touching no other cell *)
Lemma unique_in_place : forall k (h : @heap St) a s es h' a',
  nth_error h a = Some (s, 1%nat) -> handle_run step k h a = Some (es, h', a') ->
  a' = a /\ length h' = length h /\ (forall b, b <> a -> nth_error h' b = nth_error h b) /\ es = nexts k s.
Proof.
  induction k as [|k IH]; intros h a s es h' a' Hc Hr.
  - cbn in Hr. injection Hr as <- <- <-. auto.
  - cbn [handle_run] in Hr. unfold handle_next in Hr. rewrite Hc in Hr.
    assert (Ha : (a < length h)%nat) by (apply nth_error_Some; congruence).
    destruct (step s) as [e s1] eqn:Es. cbn [Nat.eqb] in Hr.
    destruct (handle_run step k (set_cell h a (s1, 1%nat)) a) as [[[es1 h1] a1]|] eqn:Er; [|discriminate].
    injection Hr as <- <- <-.
    destruct (IH _ _ _ _ _ _ (set_cell_same h a _ Ha) Er) as [-> [Hl [Ho He]]].
    rewrite set_cell_length in Hl by assumption. repeat split; [assumption| |].
    + intros b Hb. rewrite (Ho b Hb). apply set_cell_other; assumption.
    + cbn [nexts]. rewrite Es. cbn [fst snd]. f_equal. assumption.
Qed.

(* the variable's cell has another owner (strong count >= 2): whatever the consumer does with
   its handle, the variable's stream state is unchanged, and the consumer saw what a clone yields *)
Theorem observation_does_not_advance : forall k (h : @heap St) a s cnt es h' a',
  nth_error h a = Some (s, cnt) -> (2 <= cnt)%nat -> handle_run step k h a = Some (es, h', a') ->
  (exists c, nth_error h' a = Some (s, c) /\ (1 <= c)%nat) /\
  (forall b, b <> a -> (b < length h)%nat -> nth_error h' b = nth_error h b) /\
  es = nexts k s.
Proof.
  intros k h a s cnt es h' a' Hc Hcnt Hr.
  assert (Ha : (a < length h)%nat) by (apply nth_error_Some; congruence).
  destruct k as [|k].
  - cbn in Hr. injection Hr as <- <- <-. split; [exists cnt; split; [assumption|lia]|]. auto.
  - cbn [handle_run] in Hr. unfold handle_next in Hr. rewrite Hc in Hr. destruct (step s) as [e s1] eqn:Es.
    destruct (Nat.eqb_spec cnt 1); [lia|].
    set (h1 := set_cell h a (s, (cnt - 1)%nat) ++ [(s1, 1%nat)]) in *.
    destruct (handle_run step k h1 (length h)) as [[[es1 h2] a2]|] eqn:Er; [|discriminate].
    injection Hr as <- <- <-.
    assert (Hnew : nth_error h1 (length h) = Some (s1, 1%nat)).
    { unfold h1. rewrite nth_error_app2; rewrite set_cell_length by assumption; [|lia].
      rewrite Nat.sub_diag. reflexivity. }
    destruct (unique_in_place _ _ _ _ _ _ _ Hnew Er) as [-> [Hl [Ho He]]].
    assert (Hold : forall b, (b < length h)%nat -> nth_error h1 b = nth_error (set_cell h a (s, (cnt - 1)%nat)) b).
    { intros b Hb. unfold h1. apply nth_error_app1. rewrite set_cell_length; assumption. }
    repeat split.
    + exists (cnt - 1)%nat. split; [|lia]. rewrite Ho by lia. rewrite Hold by assumption.
      apply set_cell_same. assumption.
    + intros b Hb Hlt. rewrite Ho by lia. rewrite Hold by assumption. apply set_cell_other; assumption.
    + cbn [nexts]. rewrite Es. cbn [fst snd]. f_equal. assumption.
Qed.
End SharedProofs.
