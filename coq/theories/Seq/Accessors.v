(* C10 model, second part: the lib.rs accessors that the property says "agree with the
   corresponding index or slice expression" -- tail, butlast, take n, drop n (lib.rs ~4968-5032,
   each a call of eval.rs `slice` with one bound fixed), uncons / unsnoc (lib.rs fn uncons ~3024,
   fn unsnoc ~3078: Vec::remove(0), Vec::pop, Stream::next / force) and only (lib.rs ~3826).
   Definitions only; proofs are in Accessors_proofs.v. *)
From Coq Require Import ZArith List Bool.
From NV Require Import Common.Outcome Common.MachineInt Seq.Index.
Import ListNotations.
Open Scope Z_scope.

Section Elems.
Context {A : Type}.

(* ---- slice-backed kinds (List / Vector / Bytes / String by byte) ---- *)
(* tail: slice(a, Some(1), None);  butlast: slice(a, None, Some(-1)) *)
Definition tail_list (xs : list A) : outcome (list A) := slice_list xs (Some (IInt 1)) None.
Definition butlast_list (xs : list A) : outcome (list A) := slice_list xs None (Some (IInt (-1))).
(* take: slice(a, None, Some(b));  drop: slice(a, Some(b), None)  (b not a function) *)
Definition take_list (xs : list A) (n : idx) : outcome (list A) := slice_list xs None (Some n).
Definition drop_list (xs : list A) (n : idx) : outcome (list A) := slice_list xs (Some n) None.

(* Vec::remove(0): panics when 0 >= len; the caller tests is_empty() first *)
Definition vec_remove0 (xs : list A) : outcome (A * list A) :=
  a <- rust_get xs 0 ;; Ok (a, remove_nth xs 0).
(* Vec::pop *)
Definition vec_pop (xs : list A) : option (list A * A) :=
  match rev xs with [] => None | e :: r => Some (rev r, e) end.

(* fn uncons / fn unsnoc: None for the empty sequence *)
Definition uncons_fn (xs : list A) : outcome (option (A * list A)) :=
  if zlen xs =? 0 then Ok None else p <- vec_remove0 xs ;; Ok (Some p).
Definition unsnoc_fn (xs : list A) : outcome (option (list A * A)) := Ok (vec_pop xs).
(* the builtins "uncons" / "unsnoc": index error on None *)
Definition uncons_builtin (xs : list A) : outcome (A * list A) :=
  r <- uncons_fn xs ;; match r with None => Err EIndex | Some p => Ok p end.
Definition unsnoc_builtin (xs : list A) : outcome (list A * A) :=
  r <- unsnoc_fn xs ;; match r with None => Err EIndex | Some p => Ok p end.
(* "uncons?" / "unsnoc?": null on None *)
Definition uncons_q (xs : list A) : outcome (option (A * list A)) := uncons_fn xs.
Definition unsnoc_q (xs : list A) : outcome (option (list A * A)) := unsnoc_fn xs.

(* "only": s.len() == Some(1) => linear_index_isize(s, 0), any other length an index error *)
Definition only_list (xs : list A) : outcome A :=
  if zlen xs =? 1 then linear_index_isize xs 0 else Err EIndex.

(* ---- streams (the iterator's remaining elements are xs) ---- *)
Definition tail_stream (xs : list A) : outcome (@sliced A) := stream_slice xs (Some (IInt 1)) None.
Definition butlast_stream (xs : list A) : outcome (@sliced A) := stream_slice xs None (Some (IInt (-1))).
Definition take_stream (xs : list A) (n : idx) : outcome (@sliced A) := stream_slice xs None (Some n).
Definition drop_stream (xs : list A) (n : idx) : outcome (@sliced A) := stream_slice xs (Some n) None.
(* uncons on a stream: clone_box, next() *)
Definition uncons_stream (xs : list A) : outcome (A * list A) :=
  match xs with [] => Err EIndex | e :: r => Ok (e, r) end.
(* unsnoc on a stream: unsnoc(List(force())) *)
Definition unsnoc_stream (xs : list A) : outcome (list A * A) := unsnoc_builtin xs.
(* only on a (finite) stream: len() == Some(1) => Stream::pythonic_index_isize(0) *)
Definition only_stream (xs : list A) : outcome A :=
  if zlen xs =? 1 then stream_index_isize xs 0 else Err EIndex.
End Elems.
