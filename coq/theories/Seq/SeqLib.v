(* C13 - executable specification of the sequence library: one-line definitions over lists.
   Definitions and small Examples only; the facts that make this specification deserve its
   name are in SeqLib_proofs.v / SeqEnum_proofs.v; the value universe (kinds, functions
   family, the interpreter [run] used by the correspondence) is in SeqVal.v.

   Every definition is generic in the element type; equality [eqb] and order [leb] are
   parameters.  A function that can raise in Noulith returns [option] (None = raises).
   What each definition transcribes is the DOCUMENTED meaning (BUILTINS.md, README.md), the
   Rust code was read only to resolve what the documentation leaves open (argument order,
   tie-breaking, enumeration order), see notes/C13.md. *)
From Coq Require Import List Bool Arith NArith Lia.
Import ListNotations.
Set Implicit Arguments.

Section Elementwise.
  Variables A B : Type.

  (* map is List.map; each f xs performs the calls of map f xs in order and returns null *)
  Definition sl_filter (p : A -> bool) (xs : list A) : list A := filter p xs.
  Definition sl_reject (p : A -> bool) (xs : list A) : list A := filter (fun x => negb (p x)) xs.
  Definition sl_partition (p : A -> bool) (xs : list A) : list A * list A := (sl_filter p xs, sl_reject p xs).
  Definition sl_flatten (xss : list (list A)) : list A := concat xss.
  Definition sl_flat_map (f : B -> list A) (xs : list B) : list A := flat_map f xs.
  Definition sl_count (p : A -> bool) (xs : list A) : nat := length (filter p xs).
  Definition sl_any (p : A -> bool) (xs : list A) : bool := existsb p xs.
  Definition sl_all (p : A -> bool) (xs : list A) : bool := forallb p xs.
  Definition sl_find (p : A -> bool) (xs : list A) : option A := find p xs.
  Fixpoint sl_locate (p : A -> bool) (xs : list A) : option nat :=
    match xs with
    | [] => None
    | x :: t => if p x then Some 0 else option_map S (sl_locate p t)
    end.
  Fixpoint sl_take_while (p : A -> bool) (xs : list A) : list A :=
    match xs with
    | [] => []
    | x :: t => if p x then x :: sl_take_while p t else []
    end.
  Fixpoint sl_drop_while (p : A -> bool) (xs : list A) : list A :=
    match xs with
    | [] => []
    | x :: t => if p x then sl_drop_while p t else xs
    end.
  Definition sl_enumerate (xs : list A) : list (nat * A) := combine (seq 0 (length xs)) xs.
  Definition sl_reverse (xs : list A) : list A := rev xs.
  Definition sl_pairwise (f : A -> A -> B) (xs : list A) : list B :=
    map (fun ab => f (fst ab) (snd ab)) (combine xs (tl xs)).

  (* ++  .+  +.  ..  .*  *)
  Definition sl_concat (xs ys : list A) : list A := xs ++ ys.
  Definition sl_prepend (x : A) (xs : list A) : list A := x :: xs.
  Definition sl_append (xs : list A) (x : A) : list A := xs ++ [x].
  Definition sl_pair (a b : A) : list A := [a; b].
  Definition sl_replicate (x : A) (n : nat) : list A := repeat x n.
  (* take / drop with a non-negative count *)
  Definition sl_take_n (n : nat) (xs : list A) : list A := firstn n xs.
  Definition sl_drop_n (n : nat) (xs : list A) : list A := skipn n xs.
End Elementwise.

Section Folds.
  Variable A : Type.
  (* fold without a start value needs a non-empty sequence *)
  Definition sl_fold (f : A -> A -> A) (xs : list A) : option A :=
    match xs with [] => None | x :: t => Some (fold_left f t x) end.
  Definition sl_fold_from (f : A -> A -> A) (xs : list A) (a : A) : A := fold_left f xs a.
  Fixpoint sl_scan_from (f : A -> A -> A) (xs : list A) (a : A) : list A :=
    a :: match xs with [] => [] | x :: t => sl_scan_from f t (f a x) end.
  Definition sl_scan (f : A -> A -> A) (xs : list A) : list A :=
    match xs with [] => [] | x :: t => sl_scan_from f t x end.
  (* min / max: the FIRST element that no other element beats; [better b r] = b strictly beats r *)
  Definition sl_extremum (better : A -> A -> bool) (xs : list A) : option A :=
    sl_fold (fun r b => if better b r then b else r) xs.
End Folds.

Section Zips.
  Variable A : Type.
  (* transpose of a possibly ragged matrix: exhausted rows are skipped *)
  Fixpoint zip_cons (xs : list A) (yss : list (list A)) : list (list A) :=
    match xs, yss with
    | [], _ => yss
    | _, [] => map (fun x => [x]) xs
    | x :: xs', ys :: yss' => (x :: ys) :: zip_cons xs' yss'
    end.
  Fixpoint sl_transpose (xss : list (list A)) : list (list A) :=
    match xss with
    | [] => []
    | xs :: t => zip_cons xs (sl_transpose t)
    end.
  Definition minlen (xss : list (list A)) : nat :=
    match xss with [] => 0 | xs :: t => fold_right (fun ys m => Nat.min (length ys) m) (length xs) t end.
  Definition maxlen (xss : list (list A)) : nat := fold_right (fun ys m => Nat.max (length ys) m) 0 xss.
  (* n-ary zip stops at the shortest, ziplongest at the longest argument *)
  Definition sl_zip (xss : list (list A)) : list (list A) := firstn (minlen xss) (sl_transpose xss).
  Definition sl_ziplongest (xss : list (list A)) : list (list A) := sl_transpose xss.
  Definition sl_zip_with (f : A -> A -> A) (xs ys : list A) : list A :=
    map (fun ab => f (fst ab) (snd ab)) (combine xs ys).
  (* with a function, ziplongest reduces every batch pairwise from the left *)
  Definition sl_ziplongest_with (f : A -> A -> A) (xss : list (list A)) : list A :=
    flat_map (fun b => match sl_fold f b with Some r => [r] | None => [] end) (sl_transpose xss).
End Zips.

Section Ordered.
  Variable A : Type.
  Variable leb : A -> A -> bool.
  (* the specification of every sort: stable insertion sort *)
  Fixpoint insert (x : A) (l : list A) : list A :=
    match l with
    | [] => [x]
    | y :: t => if leb x y then x :: l else y :: insert x t
    end.
  Definition sl_sort (xs : list A) : list A := fold_right insert [] xs.
End Ordered.

Definition sl_sort_on (A K : Type) (lebk : K -> K -> bool) (key : A -> K) (xs : list A) : list A :=
  sl_sort (fun a b => lebk (key a) (key b)) xs.

Section Equality.
  Variable A : Type.
  Variable eqb : A -> A -> bool.
  (* unique keeps the first occurrence of every ==-class, in order of first appearance *)
  Fixpoint sl_unique (xs : list A) : list A :=
    match xs with
    | [] => []
    | x :: t => x :: filter (fun y => negb (eqb x y)) (sl_unique t)
    end.
  Definition sl_frequencies (xs : list A) : list (A * nat) :=
    map (fun u => (u, length (filter (eqb u) xs))) (sl_unique xs).
  (* group(xs): maximal runs of adjacent equal elements; group(xs, r): runs in which every
     adjacent pair (previous, next) satisfies r *)
  Fixpoint sl_group_by (r : A -> A -> bool) (xs : list A) : list (list A) :=
    match xs with
    | [] => []
    | x :: t =>
      match sl_group_by r t with
      | (y :: g) :: gs => if r x y then (x :: y :: g) :: gs else [x] :: (y :: g) :: gs
      | _ => [[x]]
      end
    end.
  Definition sl_group_eq (xs : list A) : list (list A) := sl_group_by eqb xs.
End Equality.

(* group_all(xs, key): one group per distinct key (keys in order of first appearance here;
   the implementation's order of groups is unspecified), each group in input order *)
Definition sl_group_all (A K : Type) (eqbk : K -> K -> bool) (key : A -> K) (xs : list A) : list (list A) :=
  map (fun k => filter (fun x => eqbk k (key x)) xs) (sl_unique eqbk (map key xs)).

Section Slices.
  Variable A : Type.
  (* group(xs, n): consecutive chunks of n, the last may be short; n = 0 raises *)
  Fixpoint chunks (fuel n : nat) (xs : list A) : list (list A) :=
    match fuel, xs with
    | _, [] => []
    | 0, _ => []
    | S fuel', _ => firstn n xs :: chunks fuel' n (skipn n xs)
    end.
  Definition sl_group (n : nat) (xs : list A) : option (list (list A)) :=
    if n =? 0 then None else Some (chunks (length xs) n xs).
  (* group' : same, but raises when the length is not a multiple of n *)
  Definition sl_group_strict (n : nat) (xs : list A) : option (list (list A)) :=
    if n =? 0 then None else if length xs mod n =? 0 then Some (chunks (length xs) n xs) else None.
  (* window(xs, n): every slice of length n, in order; n = 0 raises *)
  Fixpoint windows (n : nat) (xs : list A) : list (list A) :=
    match xs with
    | [] => []
    | _ :: t => if n <=? length xs then firstn n xs :: windows n t else []
    end.
  Definition sl_window (n : nat) (xs : list A) : option (list (list A)) :=
    if n =? 0 then None else Some (windows n xs).
  Fixpoint sl_prefixes (xs : list A) : list (list A) :=
    match xs with
    | [] => [[]]
    | x :: t => [] :: map (cons x) (sl_prefixes t)
    end.
  Fixpoint tails (xs : list A) : list (list A) :=
    match xs with
    | [] => [[]]
    | _ :: t => xs :: tails t
    end.
  (* suffixes by increasing length: suffixes([1,2,3]) = [[],[3],[2,3],[1,2,3]] *)
  Definition sl_suffixes (xs : list A) : list (list A) := rev (tails xs).
End Slices.

Section Products.
  Variable A : Type.
  (* n-ary cartesian product, leftmost factor varies slowest *)
  Fixpoint sl_cartesian (xss : list (list A)) : list (list A) :=
    match xss with
    | [] => [[]]
    | xs :: t => flat_map (fun x => map (cons x) (sl_cartesian t)) xs
    end.
  Definition sl_cartesian_power (xs : list A) (n : nat) : list (list A) := sl_cartesian (repeat xs n).
  (* xs ** n : xs concatenated with itself n times *)
  Definition sl_repeat_concat (xs : list A) (n : nat) : list A := concat (repeat xs n).

  (* enumerators; the orders are those stated in src/streams.rs: subsequences "big-endian
     binary" (the first element is the most significant bit, absent before present),
     combinations and permutations "lexicographic indexes" *)
  Fixpoint sl_subsequences (xs : list A) : list (list A) :=
    match xs with
    | [] => [[]]
    | x :: t => sl_subsequences t ++ map (cons x) (sl_subsequences t)
    end.
  Fixpoint sl_combinations (xs : list A) (k : nat) : list (list A) :=
    match k with
    | 0 => [[]]
    | S k' =>
      match xs with
      | [] => []
      | x :: t => map (cons x) (sl_combinations t k') ++ sl_combinations t k
      end
    end.
  (* every way to take one element out: (element, the others in order) *)
  Fixpoint selects (xs : list A) : list (A * list A) :=
    match xs with
    | [] => []
    | x :: t => (x, t) :: map (fun yr => (fst yr, x :: snd yr)) (selects t)
    end.
  Fixpoint perms (fuel : nat) (xs : list A) : list (list A) :=
    match fuel with
    | 0 => [[]]
    | S fuel' => flat_map (fun yr => map (cons (fst yr)) (perms fuel' (snd yr))) (selects xs)
    end.
  Definition sl_permutations (xs : list A) : list (list A) := perms (length xs) xs.
End Products.

(* ---- strings: lists of code points *)
Section Strings.
  Variable Ch : Type.
  Variable ceqb : Ch -> Ch -> bool.
  Definition str := list Ch.
  Fixpoint sl_join (sep : str) (pieces : list str) : str :=
    match pieces with
    | [] => []
    | [p] => p
    | p :: t => p ++ sep ++ sl_join sep t
    end.
  Fixpoint prefixb (p s : str) : bool :=
    match p, s with
    | [], _ => true
    | _, [] => false
    | a :: p', b :: s' => ceqb a b && prefixb p' s'
    end.
  (* split by a non-empty separator: leftmost non-overlapping occurrences; [skip] counts the
     remaining characters of an occurrence being stepped over, [cur] is the current piece reversed *)
  Fixpoint split_go (sep : str) (skip : nat) (cur : str) (s : str) : list str :=
    match s with
    | [] => [rev cur]
    | c :: t =>
      match skip with
      | S k => split_go sep k cur t
      | 0 => if prefixb sep s then rev cur :: split_go sep (length sep - 1) [] t
             else split_go sep 0 (c :: cur) t
      end
    end.
  Definition sl_unwords (space : Ch) (ps : list str) : str := sl_join [space] ps.
  Definition sl_split (sep s : str) : option (list str) :=
    match sep with [] => None | _ => Some (split_go sep 0 [] s) end.
  (* split ... by n: at most n pieces, the last one is the unsplit remainder; n = 0 gives no piece *)
  Definition sl_splitn (sep : str) (n : nat) (s : str) : option (list str) :=
    match sep, n with
    | [], _ => None
    | _, 0 => Some []
    | _, S k => let ps := split_go sep 0 [] s in
                Some (firstn k ps ++ (if length ps <=? k then [] else [sl_join sep (skipn k ps)]))
    end.
  (* s $* n *)
  Definition sl_str_repeat (s : str) (n : nat) : str := concat (repeat s n).
  (* words: maximal runs of non-whitespace *)
  Variable is_space : Ch -> bool.
  Fixpoint words_go (cur : str) (s : str) : list str :=
    match s with
    | [] => match cur with [] => [] | _ => [rev cur] end
    | c :: t => if is_space c then match cur with [] => words_go [] t | _ => rev cur :: words_go [] t end
                else words_go (c :: cur) t
    end.
  Definition sl_words (s : str) : list str := words_go [] s.
  (* lines: split at newlines; one trailing newline is ignored *)
  Variable newline : Ch.
  Definition sl_lines (s : str) : list str :=
    let ps := split_go [newline] 0 [] s in
    match rev ps with
    | [] :: r => rev r
    | _ => ps
    end.
  (* unlines: join by newlines and add a trailing newline; unwords: join by one space *)
  Definition sl_unlines (ps : list str) : str := sl_join [newline] ps ++ [newline].
End Strings.

(* ---- small sanity examples (the documentation's own examples where it gives one) *)
Example ex_window : sl_window 2 [1; 2; 3; 4] = Some [[1; 2]; [2; 3]; [3; 4]]. Proof. reflexivity. Qed.
Example ex_prefixes : sl_prefixes [1; 2; 3] = [[]; [1]; [1; 2]; [1; 2; 3]]. Proof. reflexivity. Qed.
Example ex_suffixes : sl_suffixes [1; 2; 3] = [[]; [3]; [2; 3]; [1; 2; 3]]. Proof. reflexivity. Qed.
Example ex_frequencies : sl_frequencies Nat.eqb [1; 1; 2; 1] = [(1, 3); (2, 1)]. Proof. reflexivity. Qed.
Example ex_group : sl_group 3 [1; 2; 3; 4; 5; 6; 7] = Some [[1; 2; 3]; [4; 5; 6]; [7]]. Proof. reflexivity. Qed.
Example ex_group_eq : sl_group_eq Nat.eqb [1; 1; 2; 1] = [[1; 1]; [2]; [1]]. Proof. reflexivity. Qed.
Example ex_sort : sl_sort Nat.leb [2; 5; 3] = [2; 3; 5]. Proof. reflexivity. Qed.
Example ex_transpose : sl_transpose [[1; 2; 3]; [4; 5]] = [[1; 4]; [2; 5]; [3]]. Proof. reflexivity. Qed.
Example ex_zip : sl_zip [[1; 2; 3]; [4; 5]] = [[1; 4]; [2; 5]]. Proof. reflexivity. Qed.
Example ex_cart : sl_cartesian [[1; 2]; [3; 4]] = [[1; 3]; [1; 4]; [2; 3]; [2; 4]]. Proof. reflexivity. Qed.
Example ex_perms : sl_permutations [1; 2; 3] = [[1; 2; 3]; [1; 3; 2]; [2; 1; 3]; [2; 3; 1]; [3; 1; 2]; [3; 2; 1]].
Proof. reflexivity. Qed.
Example ex_combs : sl_combinations [1; 2; 3] 2 = [[1; 2]; [1; 3]; [2; 3]]. Proof. reflexivity. Qed.
Example ex_subseqs : sl_subsequences [1; 2; 3] = [[]; [3]; [2]; [2; 3]; [1]; [1; 3]; [1; 2]; [1; 2; 3]].
Proof. reflexivity. Qed.
Example ex_split : sl_split Nat.eqb [0] [1; 0; 2; 0; 0; 3] = Some [[1]; [2]; []; [3]]. Proof. reflexivity. Qed.
Example ex_split2 : sl_split Nat.eqb [0; 0] [0; 0; 0; 1] = Some [[]; [0; 1]]. Proof. reflexivity. Qed.
Example ex_lines : sl_lines Nat.eqb 0 [1; 0; 0; 2; 0] = [[1]; []; [2]]. Proof. reflexivity. Qed.
Example ex_splitn : sl_splitn Nat.eqb [0] 2 [1; 0; 2; 0; 3] = Some [[1]; [2; 0; 3]]. Proof. reflexivity. Qed.
Example ex_lines_cr : sl_lines Nat.eqb 0 [1; 13; 0; 2; 13; 0] = [[1; 13]; [2; 13]]. Proof. reflexivity. Qed.
Example ex_scan : sl_scan Nat.add [1; 2; 3] = [1; 3; 6]. Proof. reflexivity. Qed.
