(* C13 - join / split are inverse to each other. *)
From Coq Require Import List Bool Arith Lia Wf_nat.
From NV Require Import Seq.SeqLib.
Import ListNotations.

Section Str.
  Variable Ch : Type.
  Variable ceqb : Ch -> Ch -> bool.
  Hypothesis ceqb_spec : forall a b, ceqb a b = true <-> a = b.
  Notation str := (list Ch).

  Lemma prefixb_spec : forall (p s : str), prefixb ceqb p s = true <-> exists rest, s = p ++ rest.
  Proof.
    induction p as [|a p IH]; intros s; cbn [prefixb].
    - split; [intros _; exists s; reflexivity|reflexivity].
    - destruct s as [|b s]; [split; [discriminate|intros (r & H); discriminate]|].
      rewrite andb_true_iff, ceqb_spec, IH. split.
      + intros (-> & r & ->). exists r. reflexivity.
      + intros (r & H). inversion H; subst. split; [reflexivity|exists r; reflexivity].
  Qed.

  Lemma split_go_skip : forall sep (u : str) cur rest,
    split_go ceqb sep (length u) cur (u ++ rest) = split_go ceqb sep 0 cur rest.
  Proof. induction u as [|c u IH]; intros cur rest; [reflexivity|]. cbn [length app split_go]. apply IH. Qed.

  Lemma split_go_nonempty : forall sep s skip cur, split_go ceqb sep skip cur s <> [].
  Proof.
    intros sep. induction s as [|c t IH]; intros skip cur; cbn [split_go]; [discriminate|].
    destruct skip; [|apply IH]. destruct (prefixb ceqb sep (c :: t)); [discriminate|apply IH].
  Qed.

  Lemma join_cons : forall sep (p : str) ps, ps <> [] -> sl_join sep (p :: ps) = p ++ sep ++ sl_join sep ps.
  Proof. intros sep p ps H. destruct ps; [congruence|reflexivity]. Qed.

  (* split then join gives the string back, for every non-empty separator *)
  Lemma join_split_go : forall sep, sep <> [] -> forall n (s : str) cur, length s <= n ->
    sl_join sep (split_go ceqb sep 0 cur s) = rev cur ++ s.
  Proof.
    intros sep Hsep. induction n as [|n IH]; intros s cur Hl.
    - destruct s; [|cbn [length] in Hl; lia]. cbn [split_go sl_join]. now rewrite app_nil_r.
    - destruct s as [|c t]; [cbn [split_go sl_join]; now rewrite app_nil_r|].
      cbn [split_go]. destruct (prefixb ceqb sep (c :: t)) eqn:E.
      + apply prefixb_spec in E as (rest & E). destruct sep as [|c0 sep']; [congruence|].
        cbn [app] in E. injection E as E1 E2. subst c t.
        replace (length (c0 :: sep') - 1) with (length sep') by (cbn [length]; lia).
        rewrite split_go_skip. rewrite join_cons by apply split_go_nonempty.
        rewrite IH by (cbn [length] in Hl; rewrite app_length in Hl; lia). reflexivity.
      + rewrite IH by (cbn [length] in Hl; lia). cbn [rev]. now rewrite <- app_assoc.
  Qed.

  (* joining pieces that do not contain the (one-character) separator, then splitting, gives the pieces back *)
  Lemma split_go_piece : forall (c : Ch) (p : str) cur rest, ~ In c p ->
    split_go ceqb [c] 0 cur (p ++ rest) = split_go ceqb [c] 0 (rev p ++ cur) rest.
  Proof.
    intros c. induction p as [|a p IH]; intros cur rest Hn; [reflexivity|].
    cbn [app split_go prefixb]. destruct (ceqb c a) eqn:E.
    - apply ceqb_spec in E. subst. exfalso. apply Hn. now left.
    - cbn [andb]. rewrite IH by (intros H; apply Hn; now right). cbn [rev]. now rewrite <- app_assoc.
  Qed.

  Lemma split_join_char : forall (c : Ch) ps cur, ps <> [] -> (forall p, In p ps -> ~ In c p) ->
    split_go ceqb [c] 0 cur (sl_join [c] ps) =
    match ps with p :: t => (rev cur ++ p) :: t | [] => [] end.
  Proof.
    intros c. induction ps as [|p t IH]; intros cur Hne Hc; [congruence|].
    destruct t as [|q t'].
    - cbn [sl_join]. rewrite <- (app_nil_r p) at 1. rewrite split_go_piece by (apply Hc; now left).
      cbn [split_go]. now rewrite rev_app_distr, rev_involutive.
    - rewrite join_cons by discriminate. rewrite split_go_piece by (apply Hc; now left).
      cbn [app split_go prefixb]. assert (Hcc : ceqb c c = true) by now apply ceqb_spec. rewrite Hcc. cbn [andb length Nat.sub].
      rewrite IH; [|discriminate|intros p' Hp'; apply Hc; now right].
      now rewrite rev_app_distr, rev_involutive.
  Qed.

  Theorem join_split_inverse :
    (forall sep s, sep <> [] -> exists ps, sl_split ceqb sep s = Some ps /\ ps <> [] /\ sl_join sep ps = s) /\
    (forall c ps, ps <> [] -> (forall p, In p ps -> ~ In c p) -> sl_split ceqb [c] (sl_join [c] ps) = Some ps) /\
    (forall s, sl_split ceqb [] s = None).
  Proof.
    split; [|split].
    - intros sep s Hsep. unfold sl_split. destruct sep as [|c0 sep']; [congruence|].
      eexists. split; [reflexivity|]. split; [apply split_go_nonempty|].
      now rewrite (join_split_go (c0 :: sep') Hsep (length s) s [] (le_n _)).
    - intros c ps Hne Hc. unfold sl_split. rewrite split_join_char by assumption. destruct ps; [congruence|reflexivity].
    - reflexivity.
  Qed.

  (* ---------------------------------------------------------------- lines *)
  Lemma split_go_char_pieces : forall (c : Ch) s cur, ~ In c cur ->
    Forall (fun l => ~ In c l) (split_go ceqb [c] 0 cur s).
  Proof.
    intros c. induction s as [|a t IH]; intros cur Hc; cbn [split_go prefixb].
    - constructor; [|constructor]. intros H. apply in_rev in H. auto.
    - destruct (ceqb c a) eqn:E; cbn [andb length Nat.sub].
      + constructor; [intros H; apply in_rev in H; auto|]. apply IH. intros [].
      + apply IH. intros [Heq|H]; [subst a|auto]. assert (ceqb c c = true) by now apply ceqb_spec. congruence.
  Qed.

  Lemma join_snoc : forall sep (l : list str) p, l <> [] -> sl_join sep (l ++ [p]) = sl_join sep l ++ sep ++ p.
  Proof.
    intros sep. induction l as [|q t IH]; intros p H; [congruence|].
    destruct t as [|q2 t']; [reflexivity|].
    change ((q :: q2 :: t') ++ [p]) with (q :: ((q2 :: t') ++ [p])).
    rewrite (join_cons sep q ((q2 :: t') ++ [p])) by (cbn [app]; discriminate).
    rewrite (IH p) by discriminate.
    rewrite (join_cons sep q (q2 :: t')) by discriminate. now rewrite !app_assoc.
  Qed.

  Lemma join_ends_with_last : forall sep (l : list str) p, exists pre, sl_join sep (l ++ [p]) = pre ++ p.
  Proof.
    intros sep l p. destruct l as [|q t]; [exists []; reflexivity|].
    rewrite join_snoc by discriminate. exists (sl_join sep (q :: t) ++ sep). now rewrite app_assoc.
  Qed.

  (* lines(s): no line contains the newline; joining the lines with newlines gives s back, up to the
     one trailing newline that is ignored. Any other character - "\r" included - is ordinary. *)
  Theorem lines_spec : forall (nl : Ch) (s : str),
    Forall (fun l => ~ In nl l) (sl_lines ceqb nl s) /\
    (forall t, s = t ++ [nl] -> sl_join [nl] (sl_lines ceqb nl s) ++ [nl] = s) /\
    ((forall t, s <> t ++ [nl]) -> sl_join [nl] (sl_lines ceqb nl s) = s).
  Proof.
    intros nl s. unfold sl_lines.
    pose proof (join_split_go [nl] ltac:(discriminate) (length s) s [] (le_n _)) as J. cbn [rev app] in J.
    pose proof (split_go_char_pieces nl s [] (fun H => H)) as P.
    pose proof (split_go_nonempty [nl] s 0 []) as NE.
    set (ps := split_go ceqb [nl] 0 [] s) in *.
    rewrite <- (rev_involutive ps) in J, P. destruct (rev ps) as [|p r] eqn:E.
    { exfalso. apply NE. rewrite <- (rev_involutive ps), E. reflexivity. }
    cbn [rev] in J, P. apply Forall_app in P as [P1 P2]. pose proof (Forall_inv P2) as Pp. cbv beta in Pp.
    destruct p as [|a p'].
    - (* the last piece is empty: it is dropped *)
      split; [exact P1|]. destruct r as [|q r'].
      + cbn in J. subst s. split; [intros t Ht; destruct t; discriminate|reflexivity].
      + rewrite join_snoc in J by (cbn [rev]; intros H; apply app_eq_nil in H as [_ H]; discriminate).
        rewrite app_nil_r in J. split; [intros t Ht; exact J|].
        intros H. exfalso. apply (H (sl_join [nl] (rev (q :: r')))). now rewrite <- J.
    - (* the last piece is not empty: nothing is dropped, and s does not end with a newline *)
      assert (Hps : ps = rev r ++ [a :: p']) by (rewrite <- (rev_involutive ps), E; reflexivity).
      rewrite Hps. split; [apply Forall_app; split; [exact P1|constructor; [exact Pp|constructor]]|].
      split; [|intros _; exact J].
      intros t Ht. exfalso. destruct (join_ends_with_last [nl] (rev r) (a :: p')) as (pre & Hpre).
      unfold SeqLib.str in *. assert (J2 : pre ++ a :: p' = t ++ [nl]) by congruence. clear J Hpre Ht.
      apply (f_equal (@rev Ch)) in J2.
      rewrite !rev_app_distr in J2. cbn [rev app] in J2.
      destruct (rev p') as [|b u] eqn:Er; cbn [app] in J2; inversion J2; subst.
      + apply Pp. now left.
      + apply Pp. right. apply in_rev. rewrite Er. now left.
  Qed.

  (* ---------------------------------------------------------------- split ... by n *)
  Lemma join_app : forall sep (l1 l2 : list str), l1 <> [] -> l2 <> [] ->
    sl_join sep (l1 ++ l2) = sl_join sep l1 ++ sep ++ sl_join sep l2.
  Proof.
    intros sep. induction l1 as [|q t IH]; intros l2 H1 H2; [congruence|].
    destruct t as [|q2 t'].
    - cbn [app]. now rewrite join_cons.
    - change ((q :: q2 :: t') ++ l2) with (q :: ((q2 :: t') ++ l2)).
      rewrite (join_cons sep q ((q2 :: t') ++ l2)) by (cbn [app]; discriminate).
      rewrite (IH l2) by (auto; discriminate).
      rewrite (join_cons sep q (q2 :: t')) by discriminate. now rewrite !app_assoc.
  Qed.

  (* at most n pieces, which still join to the string; with enough room it is plain split; none for n = 0 *)
  Theorem splitn_spec : forall sep n s, sep <> [] ->
    match n with
    | 0 => sl_splitn ceqb sep 0 s = Some []
    | S k => exists ps, sl_splitn ceqb sep n s = Some ps /\ ps <> [] /\ length ps <= n /\ sl_join sep ps = s /\
             (forall qs, sl_split ceqb sep s = Some qs -> length qs <= n -> ps = qs) /\
             firstn k ps = firstn k (split_go ceqb sep 0 [] s)
    end.
  Proof.
    intros sep n s Hsep. destruct sep as [|c0 sep']; [congruence|]. destruct n as [|k]; [reflexivity|].
    unfold sl_splitn, sl_split. set (ps := split_go ceqb (c0 :: sep') 0 [] s).
    pose proof (join_split_go (c0 :: sep') Hsep (length s) s [] (le_n _)) as J. cbn [rev app] in J. fold ps in J.
    pose proof (split_go_nonempty (c0 :: sep') s 0 []) as NE. fold ps in NE.
    assert (Eps : split_go ceqb (c0 :: sep') 0 [] s = ps) by reflexivity. clearbody ps. rewrite ?Eps.
    eexists. split; [reflexivity|]. destruct (Nat.leb_spec (length ps) k) as [Hle|Hgt].
    - rewrite app_nil_r, firstn_all2 by exact Hle. repeat split; auto; try lia; try (now apply firstn_all2).
      intros qs Hq _. now inversion Hq.
    - assert (Hs : skipn k ps <> []).
      { intros E. apply (f_equal (@length _)) in E. rewrite skipn_length in E. cbn in E. lia. }
      split; [intros E; apply app_eq_nil in E as [_ E]; discriminate|].
      split; [rewrite app_length, firstn_length; cbn [length]; lia|].
      split; [|split].
      + destruct k as [|k'].
        * cbn [firstn skipn app sl_join]. exact J.
        * assert (Hf : firstn (S k') ps <> []).
          { intros E. apply (f_equal (@length _)) in E. rewrite firstn_length in E. cbn [length] in E. rewrite Nat.min_l in E by lia. discriminate. }
          rewrite join_snoc by exact Hf. rewrite <- join_app by assumption. now rewrite firstn_skipn.
      + intros qs Hq Hl. inversion Hq; subst qs. rewrite <- (firstn_skipn k ps) at 3.
        f_equal. assert (Hl1 : length (skipn k ps) = 1) by (rewrite skipn_length; cbn [length] in Hl; lia).
        destruct (skipn k ps) as [|x [|y u]]; try discriminate. reflexivity.
      + rewrite firstn_app, firstn_firstn, Nat.min_id, firstn_length.
        replace (k - Nat.min k (length ps)) with 0 by lia. cbn [firstn]. now rewrite app_nil_r.
  Qed.

  (* words: no word is empty or contains whitespace, and the words concatenate to the string with
     its whitespace removed *)
  Variable is_space : Ch -> bool.
  Definition wordy (w : str) : Prop := w <> [] /\ Forall (fun c => is_space c = false) w.

  Lemma words_go_spec : forall s cur, Forall (fun c => is_space c = false) cur ->
    Forall wordy (words_go is_space cur s) /\
    concat (words_go is_space cur s) = rev cur ++ filter (fun c => negb (is_space c)) s.
  Proof.
    induction s as [|c t IH]; intros cur Hc; cbn [words_go filter].
    - destruct cur as [|a cur']; [split; [constructor|reflexivity]|].
      split; [|cbn [concat]; now rewrite !app_nil_r].
      constructor; [|constructor]. split.
      + cbn [rev]. intros E. apply (f_equal (@length Ch)) in E. rewrite app_length in E. cbn in E. lia.
      + apply Forall_rev. exact Hc.
    - destruct (is_space c) eqn:E; cbn [negb].
      + destruct cur as [|a cur'].
        * apply (IH [] Hc).
        * destruct (IH [] (Forall_nil _)) as (I1 & I2). split.
          -- constructor; auto. split.
             ++ cbn [rev]. intros E'. apply (f_equal (@length Ch)) in E'. rewrite app_length in E'. cbn in E'. lia.
             ++ apply Forall_rev. exact Hc.
          -- cbn [concat]. rewrite I2. reflexivity.
      + destruct (IH (c :: cur)) as (I1 & I2); [constructor; auto|]. split; auto.
        rewrite I2. cbn [rev]. now rewrite <- app_assoc.
  Qed.

  Theorem words_spec : forall s,
    Forall wordy (sl_words is_space s) /\ concat (sl_words is_space s) = filter (fun c => negb (is_space c)) s.
  Proof. intros s. exact (words_go_spec s [] (Forall_nil _)). Qed.

  (* words(s) are exactly the maximal runs of non-whitespace: s reads gap, word, gap, word, ..., gap
     where gaps are whitespace only, words are non-empty and whitespace-free, and every word is
     followed by whitespace or the end of the string (so no run is cut in two) *)
  Inductive words_of : str -> list str -> Prop :=
  | wo_end : forall g, Forall (fun c => is_space c = true) g -> words_of g []
  | wo_word : forall g w rest ws,
      Forall (fun c => is_space c = true) g -> w <> [] -> Forall (fun c => is_space c = false) w ->
      match rest with [] => True | c :: _ => is_space c = true end ->
      words_of rest ws -> words_of (g ++ w ++ rest) (w :: ws).

  Lemma wo_space : forall c t ws, is_space c = true -> words_of t ws -> words_of (c :: t) ws.
  Proof.
    intros c t ws Hc H. inversion H; subst.
    - apply wo_end. constructor; auto.
    - change (c :: g ++ w ++ rest) with ((c :: g) ++ w ++ rest). apply wo_word; auto.
  Qed.

  Lemma words_go_runs : forall s cur, Forall (fun c => is_space c = false) cur ->
    match cur with
    | [] => words_of s (words_go is_space [] s)
    | _ => exists w' rest ws, s = w' ++ rest /\ Forall (fun c => is_space c = false) w' /\
             match rest with [] => True | c :: _ => is_space c = true end /\
             words_of rest ws /\ words_go is_space cur s = (rev cur ++ w') :: ws
    end.
  Proof.
    induction s as [|c t IH]; intros cur Hcur.
    - destruct cur as [|a cur']; [apply wo_end; constructor|].
      exists [], [], []. cbn [words_go app]. rewrite app_nil_r. repeat split; auto. apply wo_end. constructor.
    - destruct (is_space c) eqn:E.
      + pose proof (IH [] (Forall_nil _)) as I0. cbn beta iota in I0.
        destruct cur as [|a cur']; cbn [words_go]; rewrite E.
        * now apply wo_space.
        * exists [], (c :: t), (words_go is_space [] t). cbn [app]. rewrite app_nil_r.
          repeat split; auto. now apply wo_space.
      + assert (Hc : Forall (fun c0 => is_space c0 = false) (c :: cur)) by (constructor; auto).
        pose proof (IH (c :: cur) Hc) as I1. cbn beta iota in I1.
        destruct I1 as (w' & rest & ws & Et & Hw & Hr & Hwo & Hgo).
        destruct cur as [|a cur']; cbn [words_go]; rewrite E.
        * rewrite Hgo. cbn [rev app]. subst t.
          change (c :: w' ++ rest) with ([] ++ (c :: w') ++ rest). apply wo_word; [constructor|discriminate|constructor; auto|exact Hr|exact Hwo].
        * exists (c :: w'), rest, ws. subst t. repeat split; auto.
          rewrite Hgo. cbn [rev]. now rewrite <- !app_assoc.
  Qed.

  Theorem words_maximal_runs : forall s, words_of s (sl_words is_space s).
  Proof. intros s. exact (words_go_runs s [] (Forall_nil _)). Qed.

  (* and the decomposition determines the words: the relation is functional *)
  Lemma words_of_functional : forall s ws1, words_of s ws1 -> forall ws2, words_of s ws2 -> ws1 = ws2.
  Proof.
    assert (Hsp : forall g : str, Forall (fun c => is_space c = true) g -> forall c, In c g -> is_space c = true)
      by (intros g Hg; now apply Forall_forall).
    assert (Hns : forall w : str, Forall (fun c => is_space c = false) w -> forall c, In c w -> is_space c = false)
      by (intros w Hw; now apply Forall_forall).
    (* strip a gap: the first non-space character is where the first word starts *)
    assert (Strip : forall (g1 g2 : str) (x1 x2 : str),
      Forall (fun c => is_space c = true) g1 -> Forall (fun c => is_space c = true) g2 ->
      match x1 with [] => True | c :: _ => is_space c = false end ->
      match x2 with [] => True | c :: _ => is_space c = false end ->
      g1 ++ x1 = g2 ++ x2 -> g1 = g2 /\ x1 = x2).
    { induction g1 as [|a g1 IH]; intros g2 x1 x2 H1 H2 N1 N2 Eq.
      - destruct g2 as [|b g2]; [auto|]. cbn [app] in Eq. subst x1. pose proof (Forall_inv H2) as Hb. cbv beta in Hb. congruence.
      - destruct g2 as [|b g2].
        + cbn [app] in Eq. subst x2. pose proof (Forall_inv H1) as Ha. cbv beta in Ha. congruence.
        + cbn [app] in Eq. injection Eq as Eab Eq. subst b.
          destruct (IH g2 x1 x2 (Forall_inv_tail H1) (Forall_inv_tail H2) N1 N2 Eq) as [-> ->]. auto. }
    assert (StripW : forall (w1 w2 : str) (r1 r2 : str),
      Forall (fun c => is_space c = false) w1 -> Forall (fun c => is_space c = false) w2 ->
      match r1 with [] => True | c :: _ => is_space c = true end ->
      match r2 with [] => True | c :: _ => is_space c = true end ->
      w1 ++ r1 = w2 ++ r2 -> w1 = w2 /\ r1 = r2).
    { induction w1 as [|a w1 IH]; intros w2 r1 r2 H1 H2 N1 N2 Eq.
      - destruct w2 as [|b w2]; [auto|]. cbn [app] in Eq. subst r1. pose proof (Forall_inv H2) as Hb. cbv beta in Hb. congruence.
      - destruct w2 as [|b w2].
        + cbn [app] in Eq. subst r2. pose proof (Forall_inv H1) as Ha. cbv beta in Ha. congruence.
        + cbn [app] in Eq. injection Eq as Eab Eq. subst b.
          destruct (IH w2 r1 r2 (Forall_inv_tail H1) (Forall_inv_tail H2) N1 N2 Eq) as [-> ->]. auto. }
    intros s ws1 H1. induction H1 as [g Hg|g w rest ws Hg Hne Hw Hr Hrest IH]; intros ws2 H2.
    - inversion H2 as [|g' w' rest' ws' Hg' Hne' Hw' Hr' Hrest' Eq]; subst; [reflexivity|].
      exfalso. destruct w' as [|c w'']; [congruence|]. pose proof (Forall_inv Hw') as Hc. cbv beta in Hc.
      assert (Hin : In c (g' ++ (c :: w'') ++ rest')) by (apply in_or_app; right; now left).
      rewrite (Hsp _ Hg c Hin) in Hc. discriminate.
    - inversion H2 as [g' Hg' Eq|g' w' rest' ws' Hg' Hne' Hw' Hr' Hrest' Eq]; subst.
      + exfalso. destruct w as [|c w'']; [congruence|]. pose proof (Forall_inv Hw) as Hc. cbv beta in Hc.
        assert (Hin : In c (g ++ (c :: w'') ++ rest)) by (apply in_or_app; right; now left).
        rewrite (Hsp _ Hg' c Hin) in Hc. discriminate.
      + destruct (Strip g' g (w' ++ rest') (w ++ rest)) as [_ E2]; auto.
        * destruct w' as [|c w'']; [congruence|]. exact (Forall_inv Hw').
        * destruct w as [|c w'']; [congruence|]. exact (Forall_inv Hw).
        * destruct (StripW w' w rest' rest) as [-> ->]; auto. f_equal. now apply IH.
  Qed.
End Str.
Arguments wordy {Ch} is_space w.
Arguments words_of {Ch} is_space _ _.
