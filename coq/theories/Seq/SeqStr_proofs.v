(* C13 - join / split are inverse to each other. *)
From Coq Require Import List Bool Arith Lia Wf_nat.
From NV Require Import Seq.SeqLib.
Import ListNotations.

Section Str.
  Variable Ch : Type.
  Variable ceqb : Ch -> Ch -> bool.
  Hypothesis ceqb_spec : forall a b, ceqb a b = true <-> a = b.
  Notation str := (list Ch).

  Lemma prefixb_spec : forall (p s : str), prefixb ceqb p s = true <-> exists rest, s = p ++ rest.
  Proof.
    induction p as [|a p IH]; intros s; cbn [prefixb].
    - split; [intros _; exists s; reflexivity|reflexivity].
    - destruct s as [|b s]; [split; [discriminate|intros (r & H); discriminate]|].
      rewrite andb_true_iff, ceqb_spec, IH. split.
      + intros (-> & r & ->). exists r. reflexivity.
      + intros (r & H). inversion H; subst. split; [reflexivity|exists r; reflexivity].
  Qed.

  Lemma split_go_skip : forall sep (u : str) cur rest,
    split_go ceqb sep (length u) cur (u ++ rest) = split_go ceqb sep 0 cur rest.
  Proof. induction u as [|c u IH]; intros cur rest; [reflexivity|]. cbn [length app split_go]. apply IH. Qed.

  Lemma split_go_nonempty : forall sep s skip cur, split_go ceqb sep skip cur s <> [].
  Proof.
    intros sep. induction s as [|c t IH]; intros skip cur; cbn [split_go]; [discriminate|].
    destruct skip; [|apply IH]. destruct (prefixb ceqb sep (c :: t)); [discriminate|apply IH].
  Qed.

  Lemma join_cons : forall sep (p : str) ps, ps <> [] -> sl_join sep (p :: ps) = p ++ sep ++ sl_join sep ps.
  Proof. intros sep p ps H. destruct ps; [congruence|reflexivity]. Qed.

  (* split then join gives the string back, for every non-empty separator *)
  Lemma join_split_go : forall sep, sep <> [] -> forall n (s : str) cur, length s <= n ->
    sl_join sep (split_go ceqb sep 0 cur s) = rev cur ++ s.
  Proof.
    intros sep Hsep. induction n as [|n IH]; intros s cur Hl.
    - destruct s; [|cbn [length] in Hl; lia]. cbn [split_go sl_join]. now rewrite app_nil_r.
    - destruct s as [|c t]; [cbn [split_go sl_join]; now rewrite app_nil_r|].
      cbn [split_go]. destruct (prefixb ceqb sep (c :: t)) eqn:E.
      + apply prefixb_spec in E as (rest & E). destruct sep as [|c0 sep']; [congruence|].
        cbn [app] in E. injection E as E1 E2. subst c t.
        replace (length (c0 :: sep') - 1) with (length sep') by (cbn [length]; lia).
        rewrite split_go_skip. rewrite join_cons by apply split_go_nonempty.
        rewrite IH by (cbn [length] in Hl; rewrite app_length in Hl; lia). reflexivity.
      + rewrite IH by (cbn [length] in Hl; lia). cbn [rev]. now rewrite <- app_assoc.
  Qed.

  (* joining pieces that do not contain the (one-character) separator, then splitting, gives the pieces back *)
  Lemma split_go_piece : forall (c : Ch) (p : str) cur rest, ~ In c p ->
    split_go ceqb [c] 0 cur (p ++ rest) = split_go ceqb [c] 0 (rev p ++ cur) rest.
  Proof.
    intros c. induction p as [|a p IH]; intros cur rest Hn; [reflexivity|].
    cbn [app split_go prefixb]. destruct (ceqb c a) eqn:E.
    - apply ceqb_spec in E. subst. exfalso. apply Hn. now left.
    - cbn [andb]. rewrite IH by (intros H; apply Hn; now right). cbn [rev]. now rewrite <- app_assoc.
  Qed.

  Lemma split_join_char : forall (c : Ch) ps cur, ps <> [] -> (forall p, In p ps -> ~ In c p) ->
    split_go ceqb [c] 0 cur (sl_join [c] ps) =
    match ps with p :: t => (rev cur ++ p) :: t | [] => [] end.
  Proof.
    intros c. induction ps as [|p t IH]; intros cur Hne Hc; [congruence|].
    destruct t as [|q t'].
    - cbn [sl_join]. rewrite <- (app_nil_r p) at 1. rewrite split_go_piece by (apply Hc; now left).
      cbn [split_go]. now rewrite rev_app_distr, rev_involutive.
    - rewrite join_cons by discriminate. rewrite split_go_piece by (apply Hc; now left).
      cbn [app split_go prefixb]. assert (Hcc : ceqb c c = true) by now apply ceqb_spec. rewrite Hcc. cbn [andb length Nat.sub].
      rewrite IH; [|discriminate|intros p' Hp'; apply Hc; now right].
      now rewrite rev_app_distr, rev_involutive.
  Qed.

  Theorem join_split_inverse :
    (forall sep s, sep <> [] -> exists ps, sl_split ceqb sep s = Some ps /\ ps <> [] /\ sl_join sep ps = s) /\
    (forall c ps, ps <> [] -> (forall p, In p ps -> ~ In c p) -> sl_split ceqb [c] (sl_join [c] ps) = Some ps) /\
    (forall s, sl_split ceqb [] s = None).
  Proof.
    split; [|split].
    - intros sep s Hsep. unfold sl_split. destruct sep as [|c0 sep']; [congruence|].
      eexists. split; [reflexivity|]. split; [apply split_go_nonempty|].
      now rewrite (join_split_go (c0 :: sep') Hsep (length s) s [] (le_n _)).
    - intros c ps Hne Hc. unfold sl_split. rewrite split_join_char by assumption. destruct ps; [congruence|reflexivity].
    - reflexivity.
  Qed.

  (* words: no word is empty or contains whitespace, and the words concatenate to the string with
     its whitespace removed *)
  Variable is_space : Ch -> bool.
  Definition wordy (w : str) : Prop := w <> [] /\ Forall (fun c => is_space c = false) w.

  Lemma words_go_spec : forall s cur, Forall (fun c => is_space c = false) cur ->
    Forall wordy (words_go is_space cur s) /\
    concat (words_go is_space cur s) = rev cur ++ filter (fun c => negb (is_space c)) s.
  Proof.
    induction s as [|c t IH]; intros cur Hc; cbn [words_go filter].
    - destruct cur as [|a cur']; [split; [constructor|reflexivity]|].
      split; [|cbn [concat]; now rewrite !app_nil_r].
      constructor; [|constructor]. split.
      + cbn [rev]. intros E. apply (f_equal (@length Ch)) in E. rewrite app_length in E. cbn in E. lia.
      + apply Forall_rev. exact Hc.
    - destruct (is_space c) eqn:E; cbn [negb].
      + destruct cur as [|a cur'].
        * apply (IH [] Hc).
        * destruct (IH [] (Forall_nil _)) as (I1 & I2). split.
          -- constructor; auto. split.
             ++ cbn [rev]. intros E'. apply (f_equal (@length Ch)) in E'. rewrite app_length in E'. cbn in E'. lia.
             ++ apply Forall_rev. exact Hc.
          -- cbn [concat]. rewrite I2. reflexivity.
      + destruct (IH (c :: cur)) as (I1 & I2); [constructor; auto|]. split; auto.
        rewrite I2. cbn [rev]. now rewrite <- app_assoc.
  Qed.

  Theorem words_spec : forall s,
    Forall wordy (sl_words is_space s) /\ concat (sl_words is_space s) = filter (fun c => negb (is_space c)) s.
  Proof. intros s. exact (words_go_spec s [] (Forall_nil _)). Qed.
End Str.
Arguments wordy {Ch} is_space w.
