(* C13 - the concrete value universe on which the specification of Seq/SeqLib.v is run
   against the implementation: a small value type with Noulith's ==, ordering and truthiness,
   a closed family of total functions (rendered to Noulith lambdas by driver/props/c13.py),
   sequence kinds, and [run]: one clause per builtin saying which one-liner of SeqLib it is.
   Definitions and Examples only. *)
From Coq Require Import List Bool Arith ZArith NArith Lia.
From NV Require Import Seq.SeqLib.
Import ListNotations.
Local Open Scope Z_scope.

(* kinds of sequence values. SDict = the keys of a dictionary/set (an input kind: iteration
   order unspecified), SStream = a lazy stream, SFreq = the dictionary returned by frequencies
   (entries [k, count], default 0) *)
Inductive skind := SList | SVec | SBytes | SDict | SStream | SFreq.

(* VFlt z is the float z.0: enough to have values that are == but distinguishable (1, 1.0) *)
Inductive val :=
| VNull
| VInt (z : Z)
| VFlt (z : Z)
| VStr (s : list N)
| VSeq (k : skind) (l : list val).

Definition skind_eqb (a b : skind) : bool :=
  match a, b with
  | SList, SList | SVec, SVec | SBytes, SBytes | SDict, SDict | SStream, SStream | SFreq, SFreq => true
  | _, _ => false
  end.

Fixpoint list_eqb {T} (e : T -> T -> bool) (a b : list T) : bool :=
  match a, b with
  | [], [] => true
  | x :: a', y :: b' => e x y && list_eqb e a' b'
  | _, _ => false
  end.

(* Noulith's == : numbers by value across int/float, sequences of the same kind elementwise *)
Fixpoint veq (a b : val) : bool :=
  match a, b with
  | VNull, VNull => true
  | VInt x, VInt y | VInt x, VFlt y | VFlt x, VInt y | VFlt x, VFlt y => Z.eqb x y
  | VStr s, VStr t => list_eqb N.eqb s t
  | VSeq k l, VSeq k' l' =>
    skind_eqb k k' &&
    (fix go (l l' : list val) : bool :=
       match l, l' with
       | [], [] => true
       | x :: t, y :: u => veq x y && go t u
       | _, _ => false
       end) l l'
  | _, _ => false
  end.

Fixpoint lex_cmp {T} (c : T -> T -> comparison) (a b : list T) : comparison :=
  match a, b with
  | [], [] => Eq
  | [], _ => Lt
  | _, [] => Gt
  | x :: a', y :: b' => match c x y with Eq => lex_cmp c a' b' | r => r end
  end.

(* Noulith's ordering (ncmp): numbers by value, strings and same-kind sequences
   lexicographically, anything else is not comparable (None = raises) *)
Fixpoint vcmp (a b : val) : option comparison :=
  match a, b with
  | VInt x, VInt y | VInt x, VFlt y | VFlt x, VInt y | VFlt x, VFlt y => Some (Z.compare x y)
  | VStr s, VStr t => Some (lex_cmp N.compare s t)
  | VSeq k l, VSeq k' l' =>
    if skind_eqb k k' then
      (fix go (l l' : list val) : option comparison :=
         match l, l' with
         | [], [] => Some Eq
         | [], _ => Some Lt
         | _, [] => Some Gt
         | x :: t, y :: u =>
           match vcmp x y with
           | Some Eq => go t u
           | r => r
           end
         end) l l'
    else None
  | _, _ => None
  end.

Definition truthy (v : val) : bool :=
  match v with
  | VNull => false
  | VInt z | VFlt z => negb (z =? 0)
  | VStr s => match s with [] => false | _ => true end
  | VSeq _ l => match l with [] => false | _ => true end
  end.

Definition is_num (v : val) : bool := match v with VInt _ | VFlt _ => true | _ => false end.
Definition num_z (v : val) : Z := match v with VInt z | VFlt z => z | _ => 0 end.
Definition vbool (b : bool) : val := VInt (if b then 1 else 0).
Definition num_add (a b : val) : val :=
  match a, b with VInt x, VInt y => VInt (x + y) | _, _ => VFlt (num_z a + num_z b) end.
Definition num_mul (a b : val) : val :=
  match a, b with VInt x, VInt y => VInt (x * y) | _, _ => VFlt (num_z a * num_z b) end.
Definition num_neg (a : val) : val :=
  match a with VInt x => VInt (- x) | VFlt x => VFlt (- x) | v => v end.
Definition cmp_is (c : comparison) (o : option comparison) : bool :=
  match o, c with Some Lt, Lt | Some Eq, Eq | Some Gt, Gt => true | _, _ => false end.
Definition vlt (a b : val) : bool := cmp_is Lt (vcmp a b).
Definition vgt (a b : val) : bool := cmp_is Gt (vcmp a b).
Definition vle (a b : val) : bool := cmp_is Lt (vcmp a b) || cmp_is Eq (vcmp a b).
Definition chr_a : N := 97%N.
Definition chr_b : N := 98%N.

(* ---- the family of functions. Every member is total on every value, in Gallina and as the
   Noulith lambda given in the comment (guards make them total) *)
Inductive fn1 :=
| FId      (* \x -> x *)
| FEven    (* \x -> x is int and x % 2 == 0 *)
| FLt2     (* \x -> x is number and x < 2 *)
| FNeg     (* \x -> if (x is number) 0 - x else x *)
| FConst7  (* \x -> 7 *)
| FFst     (* \x -> if (x is list and len(x) > 0) first(x) else x *)
| FEq1     (* \x -> x == 1 *)
| FEqA     (* \x -> x == "a" *)
| FGeB     (* \x -> x is str and x >= "b" *)
| FDup     (* \x -> [x, x] *)
| FNumKey  (* \x -> if (x is number) x else 0 *).

Definition app1 (f : fn1) (x : val) : val :=
  match f with
  | FId => x
  | FEven => match x with VInt z => vbool (Z.even z) | _ => VInt 0 end
  | FLt2 => if is_num x then vbool (num_z x <? 2) else VInt 0
  | FNeg => num_neg x
  | FConst7 => VInt 7
  | FFst => match x with VSeq SList (y :: _) => y | _ => x end
  | FEq1 => vbool (veq x (VInt 1))
  | FEqA => vbool (veq x (VStr [chr_a]))
  | FGeB => match x with VStr _ => vbool (negb (vlt x (VStr [chr_b]))) | _ => VInt 0 end
  | FDup => VSeq SList [x; x]
  | FNumKey => if is_num x then x else VInt 0
  end.

Inductive fn2 :=
| GPair    (* \a, b -> [a, b] *)
| GAdd     (* \a, b -> if (a is number and b is number) a + b else [a, b] *)
| GMax     (* \a, b -> if (a is number and b is number and b > a) b else a *)
| GFst     (* \a, b -> a *)
| GSnd     (* \a, b -> b *)
| GEq      (* \a, b -> a == b *)
| GLe      (* \a, b -> a is number and b is number and a <= b *)
| GCmpOn (k : fn1) (rev : bool)
           (* \a, b -> K(a) <=> K(b)   (>=< when rev); used with keys that return numbers *).

Definition cmp_val (o : option comparison) : val :=
  match o with Some Lt => VInt (-1) | Some Gt => VInt 1 | _ => VInt 0 end.

Definition app2 (g : fn2) (a b : val) : val :=
  match g with
  | GPair => VSeq SList [a; b]
  | GAdd => if is_num a && is_num b then num_add a b else VSeq SList [a; b]
  | GMax => if is_num a && is_num b && vgt b a then b else a
  | GFst => a
  | GSnd => b
  | GEq => vbool (veq a b)
  | GLe => vbool (is_num a && is_num b && vle a b)
  | GCmpOn k rev => if rev then cmp_val (vcmp (app1 k b) (app1 k a)) else cmp_val (vcmp (app1 k a) (app1 k b))
  end.

(* ---- sequence kinds *)
(* iteration: strings yield one-character strings, dictionaries their keys *)
Definition elems (v : val) : option (list val) :=
  match v with
  | VStr s => Some (map (fun c => VStr [c]) s)
  | VSeq _ l => Some l
  | _ => None
  end.

Definition chars_of (l : list val) : list N :=
  flat_map (fun v => match v with VStr s => s | _ => [] end) l.

(* "a sequence of the same type": lists, strings, vectors and bytes keep their kind;
   dictionaries (keys) and streams give lists *)
Definition rebuild_like (v : val) (l : list val) : val :=
  match v with
  | VStr _ => VStr (chars_of l)
  | VSeq SVec _ => VSeq SVec l
  | VSeq SBytes _ => VSeq SBytes l
  | _ => VSeq SList l
  end.
Definition vlist (l : list val) : val := VSeq SList l.

Definition bind {X Y} (o : option X) (f : X -> option Y) : option Y :=
  match o with Some x => f x | None => None end.
Notation "'do' x <- o ; k" := (bind o (fun x => k)) (at level 200, x ident, o at level 100, k at level 200).

Fixpoint all_some {X} (l : list (option X)) : option (list X) :=
  match l with
  | [] => Some []
  | o :: t => do x <- o; do r <- all_some t; Some (x :: r)
  end.

Definition pred (f : fn1) (x : val) : bool := truthy (app1 f x).
Definition rel (g : fn2) (a b : val) : bool := truthy (app2 g a b).

(* every pair comparable: what sort needs *)
Definition all_comparable (l : list val) : bool :=
  forallb (fun x => forallb (fun y => match vcmp x y with Some _ => true | None => false end) l) l.
Definition all_nums (l : list val) : bool := forallb is_num l.

Definition str_of (v : val) : option (list N) := match v with VStr s => Some s | _ => None end.
(* whitespace = Unicode White_Space (what Rust's char::is_whitespace and "runs of whitespace" mean):
   U+0009..000D, 0020, 0085, 00A0, 1680, 2000..200A, 2028, 2029, 202F, 205F, 3000 *)
Definition is_space (c : N) : bool :=
  ((9 <=? c) && (c <=? 13) || (c =? 32) || (c =? 133) || (c =? 160) || (c =? 5760) ||
   (8192 <=? c) && (c <=? 8202) || (c =? 8232) || (c =? 8233) || (c =? 8239) || (c =? 8287) || (c =? 12288))%N.

Inductive call :=
| CMap (f : fn1) | CFilter (f : fn1) | CReject (f : fn1) | CPartition (f : fn1)
| CFlatMap (f : fn1) | CFlatten | CEach
| CCount (f : fn1) | CCountTruthy | CCountEq (v : val)
| CAny (f : fn1) | CAll (f : fn1) | CAnyTruthy | CAllTruthy
| CFind (f : fn1) | CFindQ (f : fn1) | CFindEq (v : val)
| CLocate (f : fn1) | CLocateQ (f : fn1) | CLocateEq (v : val)
| CTakeWhile (f : fn1) | CDropWhile (f : fn1)
| CZip | CZipWith (g : fn2) | CZipLongest | CZipLongestWith (g : fn2)
| CPairwise (g : fn2) | CTranspose | CEnumerate
| CFold (g : fn2) | CFoldFrom (g : fn2) (a : val) | CScan (g : fn2) | CScanFrom (g : fn2) (a : val)
| CSum | CSumF (f : fn1) | CProduct | CProductF (f : fn1)
| CMin | CMax
| CSort | CSortBy (g : fn2) | CSortOn (f : fn1)
| CReverse | CUnique
| CGroupEq | CGroupN (n : nat) | CGroupStrict (n : nat) | CGroupBy (g : fn2) | CGroupAll (f : fn1)
| CWindow (n : nat) | CPrefixes | CSuffixes | CFrequencies
| CConcat | CPrepend (v : val) | CAppend (v : val) | CPair (a b : val) | CReplicate (v : val) (n : nat)
| CCartesian | CRepeatConcat (n : nat) | CPower (n : nat)
| CJoin (sep : list N) | CSplit (sep : list N) | CWords | CLines | CUnwords | CUnlines
| CSplitN (sep : list N) (n : nat) | CStrRepeat (n : nat) | CTakeN (n : nat) | CDropN (n : nat)
| CPermutations | CCombinations (n : nat) | CSubsequences.

Definition vnat (n : nat) : val := VInt (Z.of_nat n).
Definition opt_val (o : option val) : val := match o with Some v => v | None => VNull end.
Definition pieces_like (x : val) (ps : list (list val)) : val := vlist (map (rebuild_like x) ps).
Definition lists (ps : list (list val)) : val := vlist (map vlist ps).
Definition leb_of_cmp (g : fn2) (a b : val) : bool :=
  match app2 g a b with VInt z | VFlt z => z <=? 0 | _ => true end.
Definition vleb (a b : val) : bool := negb (vgt a b).

Definition with1 (args : list val) (k : val -> list val -> option val) : option val :=
  match args with [x] => do l <- elems x; k x l | _ => None end.
Definition with_many (args : list val) (k : list (list val) -> option val) : option val :=
  match args with _ :: _ :: _ => do ls <- all_some (map elems args); k ls | _ => None end.
Definition with_str (args : list val) (k : list N -> option val) : option val :=
  match args with [VStr s] => k s | _ => None end.
Definition concat_like (args : list val) : option val :=
  match args with
  | [VSeq SList l; VSeq SList m] => Some (VSeq SList (sl_concat l m))
  | [VSeq SVec l; VSeq SVec m] => Some (VSeq SVec (sl_concat l m))
  | [VSeq SBytes l; VSeq SBytes m] => Some (VSeq SBytes (sl_concat l m))
  | _ => None
  end.
Definition with_list (args : list val) (k : list val -> option val) : option val :=
  match args with [VSeq SList l] => k l | _ => None end.
Definition no_args (args : list val) (r : val) : option val :=
  match args with [] => Some r | _ => None end.

(* [run c args]: the documented result of builtin call [c] on the sequence arguments [args];
   None = the call raises. One clause per builtin, each a one-liner of SeqLib. *)
Definition run (c : call) (args : list val) : option val :=
  match c with
  | CMap f => with1 args (fun x l => Some (vlist (map (app1 f) l)))
  | CFilter f => with1 args (fun x l => Some (rebuild_like x (sl_filter (pred f) l)))
  | CReject f => with1 args (fun x l => Some (rebuild_like x (sl_reject (pred f) l)))
  | CPartition f => with1 args (fun x l =>
      let p := sl_partition (pred f) l in Some (vlist [rebuild_like x (fst p); rebuild_like x (snd p)]))
  | CFlatMap f => with1 args (fun x l => do ls <- all_some (map (fun e => elems (app1 f e)) l); Some (vlist (sl_flatten ls)))
  | CFlatten => with1 args (fun x l => do ls <- all_some (map elems l); Some (vlist (sl_flatten ls)))
  | CEach => with1 args (fun x l => Some (vlist l))      (* the trace of calls, in order *)
  | CCount f => with1 args (fun x l => Some (vnat (sl_count (pred f) l)))
  | CCountTruthy => with1 args (fun x l => Some (vnat (sl_count truthy l)))
  | CCountEq v => with1 args (fun x l => Some (vnat (sl_count (fun e => veq e v) l)))
  | CAny f => with1 args (fun x l => Some (vbool (sl_any (pred f) l)))
  | CAll f => with1 args (fun x l => Some (vbool (sl_all (pred f) l)))
  | CAnyTruthy => with1 args (fun x l => Some (vbool (sl_any truthy l)))
  | CAllTruthy => with1 args (fun x l => Some (vbool (sl_all truthy l)))
  | CFind f => with1 args (fun x l => sl_find (pred f) l)
  | CFindQ f => with1 args (fun x l => Some (opt_val (sl_find (pred f) l)))
  | CFindEq v => with1 args (fun x l => sl_find (fun e => veq e v) l)
  | CLocate f => with1 args (fun x l => option_map vnat (sl_locate (pred f) l))
  | CLocateQ f => with1 args (fun x l => Some (opt_val (option_map vnat (sl_locate (pred f) l))))
  | CLocateEq v => with1 args (fun x l => option_map vnat (sl_locate (fun e => veq e v) l))
  | CTakeWhile f => with1 args (fun x l => Some (rebuild_like x (sl_take_while (pred f) l)))
  | CDropWhile f => with1 args (fun x l =>
      let r := sl_drop_while (pred f) l in
      Some (match x with VSeq SStream _ => VSeq SStream r | _ => rebuild_like x r end))   (* stays lazy *)
  | CZip => with_many args (fun ls => Some (lists (sl_zip ls)))
  | CZipWith g => with_many args (fun ls =>
      match ls with [l; m] => Some (vlist (sl_zip_with (app2 g) l m)) | _ => None end)
  | CZipLongest => with_many args (fun ls => Some (lists (sl_ziplongest ls)))
  | CZipLongestWith g => with_many args (fun ls => Some (vlist (sl_ziplongest_with (app2 g) ls)))
  | CPairwise g => with1 args (fun x l => Some (vlist (sl_pairwise (app2 g) l)))
  | CTranspose => with1 args (fun x l => do ls <- all_some (map elems l); Some (lists (sl_transpose ls)))
  | CEnumerate => with1 args (fun x l => Some (vlist (map (fun ie => vlist [vnat (fst ie); snd ie]) (sl_enumerate l))))
  | CFold g => with1 args (fun x l => sl_fold (app2 g) l)
  | CFoldFrom g a => with1 args (fun x l => Some (sl_fold_from (app2 g) l a))
  | CScan g => with1 args (fun x l => Some (vlist (sl_scan (app2 g) l)))
  | CScanFrom g a => with1 args (fun x l => Some (vlist (sl_scan_from (app2 g) l a)))
  | CSum => with1 args (fun x l => if all_nums l then Some (sl_fold_from num_add l (VInt 0)) else None)
  | CSumF f => with1 args (fun x l =>
      let m := map (app1 f) l in if all_nums m then Some (sl_fold_from num_add m (VInt 0)) else None)
  | CProduct => with1 args (fun x l => if all_nums l then Some (sl_fold_from num_mul l (VInt 1)) else None)
  | CProductF f => with1 args (fun x l =>
      let m := map (app1 f) l in if all_nums m then Some (sl_fold_from num_mul m (VInt 1)) else None)
  | CMin => with1 args (fun x l => if all_comparable l then sl_extremum vlt l else None)
  | CMax => with1 args (fun x l => if all_comparable l then sl_extremum vgt l else None)
  | CSort => with1 args (fun x l => if all_comparable l then Some (rebuild_like x (sl_sort vleb l)) else None)
  | CSortBy g => with1 args (fun x l => Some (rebuild_like x (sl_sort (leb_of_cmp g) l)))
  | CSortOn f => with1 args (fun x l =>
      if all_comparable (map (app1 f) l) then Some (rebuild_like x (sl_sort_on vleb (app1 f) l)) else None)
  | CReverse => with1 args (fun x l => Some (rebuild_like x (sl_reverse l)))
  | CUnique => with1 args (fun x l => Some (rebuild_like x (sl_unique veq l)))
  | CGroupEq => with1 args (fun x l => Some (pieces_like x (sl_group_eq veq l)))
  | CGroupN n => with1 args (fun x l => option_map (pieces_like x) (sl_group n l))
  | CGroupStrict n => with1 args (fun x l => option_map (pieces_like x) (sl_group_strict n l))
  | CGroupBy g => with1 args (fun x l => Some (pieces_like x (sl_group_by (rel g) l)))
  | CGroupAll f => with1 args (fun x l => Some (pieces_like x (sl_group_all veq (app1 f) l)))
  | CWindow n => with1 args (fun x l => option_map (pieces_like x) (sl_window n l))
  | CPrefixes => with1 args (fun x l => Some (pieces_like x (sl_prefixes l)))
  | CSuffixes => with1 args (fun x l => Some (pieces_like x (sl_suffixes l)))
  | CFrequencies => with1 args (fun x l =>
      Some (VSeq SFreq (map (fun kc => vlist [fst kc; vnat (snd kc)]) (sl_frequencies veq l))))
  | CConcat => concat_like args
  | CPrepend v => with_list args (fun l => Some (VSeq SList (sl_prepend v l)))
  | CAppend v => with_list args (fun l => Some (VSeq SList (sl_append l v)))
  | CPair a b => no_args args (vlist (sl_pair a b))
  | CReplicate v n => no_args args (vlist (sl_replicate v n))
  | CCartesian => with_many args (fun ls => Some (lists (sl_cartesian ls)))
  | CRepeatConcat n => with1 args (fun x l => Some (vlist (sl_repeat_concat l n)))
  | CPower n => with1 args (fun x l => Some (VSeq SStream (map vlist (sl_cartesian_power l n))))
  | CJoin sep => with1 args (fun x l => do ss <- all_some (map str_of l); Some (VStr (sl_join sep ss)))
  | CSplit sep => with_str args (fun s => option_map (fun ps => vlist (map VStr ps)) (sl_split N.eqb sep s))
  | CWords => with_str args (fun s => Some (vlist (map VStr (sl_words is_space s))))
  | CLines => with_str args (fun s => Some (vlist (map VStr (sl_lines N.eqb 10%N s))))
  | CSplitN sep n => with_str args (fun s => option_map (fun ps => vlist (map VStr ps)) (sl_splitn N.eqb sep n s))
  | CStrRepeat n => with_str args (fun s => Some (VStr (sl_str_repeat s n)))
  | CTakeN n => with1 args (fun x l => Some (rebuild_like x (sl_take_n n l)))
  | CDropN n => with1 args (fun x l => Some (rebuild_like x (sl_drop_n n l)))
  | CUnwords => with1 args (fun x l => do ss <- all_some (map str_of l); Some (VStr (sl_unwords 32%N ss)))
  | CUnlines => with1 args (fun x l => do ss <- all_some (map str_of l); Some (VStr (sl_unlines 10%N ss)))
  | CPermutations => with1 args (fun x l => Some (VSeq SStream (map vlist (sl_permutations l))))
  | CCombinations n => with1 args (fun x l => Some (VSeq SStream (map vlist (sl_combinations l n))))
  | CSubsequences => with1 args (fun x l => Some (VSeq SStream (map vlist (sl_subsequences l))))
  end.

Example run_filter_string :
  run (CFilter FEqA) [VStr [97; 98; 97]%N] = Some (VStr [97; 97]%N).
Proof. reflexivity. Qed.
Example run_sort_stable :
  run CSort [vlist [VInt 2; VFlt 1; VInt 1]] = Some (vlist [VFlt 1; VInt 1; VInt 2]).
Proof. reflexivity. Qed.
Example run_sort_mixed_raises : run CSort [vlist [VInt 2; VStr [97%N]]] = None.
Proof. reflexivity. Qed.
Example run_unique_first :
  run CUnique [vlist [VInt 1; VFlt 1; VInt 2; VInt 1]] = Some (vlist [VInt 1; VInt 2]).
Proof. reflexivity. Qed.
Example run_window_string :
  run (CWindow 2) [VStr [97; 98; 99]%N] = Some (vlist [VStr [97; 98]%N; VStr [98; 99]%N]).
Proof. reflexivity. Qed.
