(* C11 proofs, part 7 (extensions): n-ary lazy_zip and lazy_zip with a function,
   Repeat::pythonic_slice, lazy_map / lazy_filter with callbacks that may raise. *)
From Coq Require Import ZArith List Bool Arith Lia.
From NV Require Import Common.Outcome Common.MachineInt Seq.Index Seq.Streams Seq.StreamsSpec Seq.Streams_proofs.
Import ListNotations.
Open Scope Z_scope.

(* ------------------------------------------------------------------ n-ary zip *)
Section ZipN.
Context {St E : Type}.
Variable step : St -> option E * St.

Lemma zip_heads_spec : forall ss ls, Forall2 (yields step) ss ls ->
  match heads_tails ls with
  | Some (hs, ts) => exists ss', zip_heads step ss = Some (hs, ss') /\ Forall2 (yields step) ss' ts
  | None => zip_heads step ss = None
  end.
Proof.
  induction 1 as [|s l ss ls Hy Hf IH]; [cbn; eauto|].
  cbn [heads_tails zip_heads]. destruct l as [|x t].
  - apply yields_inv_nil in Hy. destruct (step s) as [o s']. cbn in Hy. subst. reflexivity.
  - apply yields_inv_cons in Hy. destruct Hy as [H1 H2]. destruct (step s) as [o s']. cbn in H1, H2. subst o.
    destruct (heads_tails ls) as [[hs ts]|].
    + destruct IH as [ss' [Hz Hf']]. rewrite Hz. eexists. split; [reflexivity|]. constructor; assumption.
    + rewrite IH. reflexivity.
Qed.

(* lazy_zip of any non-empty list of streams lists the n-ary zip of their lists *)
Theorem zipn_yields : forall fuel ss ls, Forall2 (yields step) ss ls -> ss <> [] ->
  (length (hd [] ls) < fuel)%nat ->
  yields (zip_step step) (AOk ss) (zipn fuel ls).
Proof.
  induction fuel as [|f IH]; intros ss ls Hf Hne Hl; [lia|].
  cbn [zipn]. pose proof (zip_heads_spec ss ls Hf) as Hs.
  destruct (heads_tails ls) as [[hs ts]|] eqn:Eh.
  - destruct Hs as [ss' [Hz Hf']]. econstructor; cbn [zip_step]; rewrite Hz; cbn [fst snd]; [reflexivity|].
    apply IH; [assumption| |].
    + destruct ss as [|s0 ss0]; [contradiction|]. cbn [zip_heads] in Hz.
      destruct (step s0) as [[e|] s1]; [|discriminate]. destruct (zip_heads step ss0) as [[es r']|]; [|discriminate].
      injection Hz as _ <-. discriminate.
    + destruct ls as [|l0 ls0]; [inversion Hf; subst; contradiction|]. cbn [heads_tails] in Eh.
      destruct l0 as [|x t]; [discriminate|]. destruct (heads_tails ls0) as [[hs0 ts0]|]; [|discriminate].
      injection Eh as _ <-. cbn [hd length] in *. lia.
  - constructor. cbn [zip_step]. rewrite Hs. reflexivity.
Qed.

(* the n-ary zip is as long as the shortest list and its i-th element is the list of i-th elements *)
Lemma zipn_spec (d : E) : forall fuel ls, ls <> [] -> (length (hd [] ls) < fuel)%nat ->
  (forall l, In l ls -> (length (zipn fuel ls) <= length l)%nat) /\
  (exists l, In l ls /\ length (zipn fuel ls) = length l) /\
  (forall i, (i < length (zipn fuel ls))%nat -> nth i (zipn fuel ls) [] = map (fun l => nth i l d) ls).
Proof.
  induction fuel as [|f IH]; intros ls Hne Hl; [lia|]. cbn [zipn].
  destruct (heads_tails ls) as [[hs ts]|] eqn:Eh.
  - (* every list is a cons *)
    assert (Hshape : ls = map (fun ht => fst ht :: snd ht) (combine hs ts) /\ length hs = length ts /\ length ts = length ls).
    { clear -Eh. revert hs ts Eh. induction ls as [|l ls IHl]; intros hs ts Eh; cbn [heads_tails] in Eh.
      - injection Eh as <- <-. auto.
      - destruct l as [|x t]; [discriminate|]. destruct (heads_tails ls) as [[hs0 ts0]|]; [|discriminate].
        injection Eh as <- <-. destruct (IHl _ _ eq_refl) as [H1 [H2 H3]]. cbn. rewrite <- H1. auto. }
    destruct Hshape as [Hls [Hlh Hlt]].
    assert (Hts : ts <> []) by (destruct ts; [destruct ls; [contradiction|discriminate]|discriminate]).
    assert (Hlt' : (length (hd [] ts) < f)%nat).
    { destruct ls as [|l0 ls0]; [contradiction|]. cbn [heads_tails] in Eh.
      destruct l0 as [|x t]; [discriminate|]. destruct (heads_tails ls0) as [[hs0 ts0]|]; [|discriminate].
      injection Eh as _ <-. cbn [hd length] in *. lia. }
    destruct (IH ts Hts Hlt') as [Hle [[lm [Hin Hlm]] Hnth]].
    assert (Htl : forall l, In l ls -> exists x t, l = x :: t /\ In t ts).
    { intros l Hl'. rewrite Hls in Hl'. apply in_map_iff in Hl'. destruct Hl' as [[x t] [<- Hc]].
      exists x, t. split; [reflexivity|]. eapply in_combine_r; eauto. }
    split; [|split].
    + intros l Hl'. destruct (Htl l Hl') as [x [t [-> Ht]]]. cbn [length]. specialize (Hle t Ht). lia.
    + assert (exists x, In (x :: lm) ls) as [x Hx].
      { rewrite Hls. clear -Hin Hlh. revert hs Hlh. induction ts as [|t ts IHt]; intros hs Hlh; [contradiction|].
        destruct hs as [|h hs]; [discriminate|]. cbn [combine map]. destruct Hin as [->|Hin].
        - exists h. left. reflexivity.
        - destruct (IHt Hin hs ltac:(cbn in Hlh; lia)) as [x Hx]. exists x. right. assumption. }
      exists (x :: lm). split; [assumption|]. cbn [length]. lia.
    + intros [|i] Hi; cbn [nth length] in *.
      * rewrite Hls. rewrite map_map. cbn [fst nth]. clear -Hlh. revert ts Hlh.
        induction hs as [|h hs IHh]; intros [|t ts] Hlh; try discriminate; [reflexivity|].
        cbn [combine map fst]. f_equal. apply IHh. cbn in Hlh. lia.
      * rewrite Hnth by lia. rewrite Hls. rewrite map_map. cbn [nth snd]. clear -Hlh. revert hs Hlh.
        induction ts as [|t ts IHt]; intros [|h hs] Hlh; try discriminate; [reflexivity|].
        cbn [combine map snd]. f_equal. apply IHt. cbn in Hlh. lia.
  - (* some list is empty *)
    assert (Hex : exists l, In l ls /\ l = []).
    { clear -Eh. induction ls as [|l ls IHl]; [discriminate|]. cbn [heads_tails] in Eh.
      destruct l as [|x t]; [exists []; split; [left|]; reflexivity|].
      destruct (heads_tails ls) as [[hs0 ts0]|]; [discriminate|]. destruct (IHl eq_refl) as [l [Hl ->]].
      exists []. split; [right; assumption|reflexivity]. }
    destruct Hex as [l [Hin ->]]. split; [intros; cbn; lia|]. split; [exists []; auto|]. intros i Hi. cbn in Hi. lia.
Qed.

(* lazy_zip with a function lists the function applied to each element of the n-ary zip *)
Context {F : Type}.
Variable g : list E -> F.
Lemma zipf_of_zip : forall a l, yields (zip_step step) a l -> yields (zipf_step step g) a (map g l).
Proof.
  induction 1 as [a H|a e l H Hy IH].
  - constructor. unfold zipf_step. destruct (zip_step step a) as [o a']. cbn in *. subst. reflexivity.
  - cbn [map]. unfold zipf_step in *. destruct (zip_step step a) as [o a'] eqn:Ez. cbn in H, Hy, IH. subst o.
    econstructor; unfold zipf_step; rewrite Ez; cbn; [reflexivity|assumption].
Qed.
Theorem zipf_yields : forall fuel ss ls, Forall2 (yields step) ss ls -> ss <> [] ->
  (length (hd [] ls) < fuel)%nat ->
  yields (zipf_step step g) (AOk ss) (map g (zipn fuel ls)).
Proof. intros. apply zipf_of_zip. apply zipn_yields; assumption. Qed.
End ZipN.

(* ------------------------------------------------------------------ Repeat::pythonic_slice *)
Section RepeatSliceProofs.
Context {A : Type}.
Variable cap : Z.
Variable x : A.

(* both bounds from the start, 0 <= lo, hi: the hi-lo elements from position lo of x, x, x, ... *)
Theorem repeat_slice_prefix lo hi n : 0 <= lo -> 0 <= hi -> Z.max (hi - lo) 0 <= cap ->
  (Z.to_nat hi <= n)%nat ->
  repeat_slice cap x (Some lo) (Some hi) =
  Ok (RList (firstn (Z.to_nat (hi - lo)) (skipn (Z.to_nat lo) (unfold repeat_step n x)))).
Proof.
  intros Hlo Hhi Hc Hn. unfold repeat_slice.
  destruct (Z.ltb_spec lo 0); [lia|]. destruct (Z.ltb_spec hi 0); [lia|]. cbn [Bool.eqb].
  destruct (Z.leb_spec (Z.max (hi - lo) 0) cap); [|lia]. do 2 f_equal.
  assert (Hu : forall k, unfold repeat_step k x = repeat x k) by (induction k; cbn; [reflexivity|f_equal; assumption]).
  rewrite Hu.
  assert (Hs : forall k j, skipn j (repeat x k) = repeat x (k - j)).
  { induction k; intros [|j]; cbn; try reflexivity. apply IHk. }
  assert (Hf : forall k j, firstn j (repeat x k) = repeat x (Nat.min j k)).
  { induction k; intros [|j]; cbn; try reflexivity. f_equal. apply IHk. }
  rewrite Hs, Hf. f_equal. lia.
Qed.

(* every bound combination: what the override returns *)
Theorem repeat_slice_cases lo hi :
  repeat_slice cap x lo hi =
  match lo, hi with
  | Some l, Some h =>
    if (l <? 0) && (0 <=? h) then Ok (RList [])               (* from the end to a finite position *)
    else if (0 <=? l) && (h <? 0) then Ok RSelf               (* from a finite position towards the end *)
    else if Z.max (h - l) 0 <=? cap then Ok (RList (repeat x (Z.to_nat (Z.max (h - l) 0)))) else Err EValue
  | Some l, None =>
    if l <? 0 then (if Z.max (- l) 0 <=? cap then Ok (RList (repeat x (Z.to_nat (- l)))) else Err EValue)
    else Ok RSelf
  | None, Some h =>
    if h <? 0 then Ok RSelf
    else if Z.max h 0 <=? cap then Ok (RList (repeat x (Z.to_nat h))) else Err EValue
  | None, None => Ok RSelf
  end.
Proof.
  unfold repeat_slice. destruct lo as [l|], hi as [h|].
  - destruct (Z.ltb_spec l 0), (Z.ltb_spec h 0), (Z.leb_spec 0 h), (Z.leb_spec 0 l); cbn [Bool.eqb andb]; try lia; reflexivity.
  - destruct (Z.ltb_spec l 0); cbn [Bool.eqb]; [|reflexivity].
    rewrite Z.sub_0_l. destruct (Z.max (- l) 0 <=? cap); [|reflexivity]. do 3 f_equal. lia.
  - destruct (Z.ltb_spec h 0); cbn [Bool.eqb]; [reflexivity|].
    rewrite Z.sub_0_r. destruct (Z.max h 0 <=? cap); [|reflexivity]. do 3 f_equal. lia.
  - reflexivity.
Qed.
Theorem repeat_slice_no_panic lo hi : repeat_slice cap x lo hi <> Panic.
Proof.
  unfold repeat_slice. destruct (Bool.eqb _ _); [destruct (_ <=? cap)|destruct (match lo with Some l => l <? 0 | None => false end)]; discriminate.
Qed.
End RepeatSliceProofs.

(* ------------------------------------------------------------------ callbacks that may raise *)
Section ErroringProofs.
Context {St E F : Type}.
Variable step : St -> option E * St.
Variable f : E -> outcome F.

(* the items of the mapped stream: results up to and including the first failure *)
Fixpoint upto_err (l : list E) : list (outcome F) :=
  match l with
  | [] => []
  | e :: r => match f e with Ok y => Ok y :: upto_err r | o => [o] end
  end.

Theorem emap_yields : forall s l, yields step s l -> yields (emap_step step f) (AOk s) (upto_err l).
Proof.
  induction 1 as [s H|s e l H Hy IH].
  - constructor. cbn. destruct (step s) as [o s']. cbn in H. subst. reflexivity.
  - cbn [upto_err]. destruct (step s) as [o s'] eqn:Es. cbn in H, Hy, IH. subst o.
    destruct (f e) as [y| | |] eqn:Ef.
    + econstructor; cbn [emap_step]; rewrite Es, Ef; cbn; [reflexivity|assumption].
    + econstructor; cbn [emap_step]; rewrite Es, Ef; cbn; [reflexivity|]. constructor. reflexivity.
    + econstructor; cbn [emap_step]; rewrite Es, Ef; cbn; [reflexivity|]. constructor. reflexivity.
    + econstructor; cbn [emap_step]; rewrite Es, Ef; cbn; [reflexivity|]. constructor. reflexivity.
Qed.

(* list(s) = the mapped list, or the first error raised by the callback *)
Theorem emap_collect : forall l, collect (upto_err l) = mapM f l.
Proof.
  induction l as [|e r IH]; [reflexivity|]. cbn [upto_err mapM].
  destruct (f e) as [y| | |]; cbn [collect bind]; try reflexivity. rewrite IH. reflexivity.
Qed.
(* when no callback fails the stream is the plain lazy_map *)
Theorem emap_total : forall l, (forall e, In e l -> exists y, f e = Ok y) ->
  exists ys, mapM f l = Ok ys /\ upto_err l = map Ok ys /\ length ys = length l.
Proof.
  induction l as [|e r IH]; intros H; [exists []; auto|].
  destruct (H e (or_introl eq_refl)) as [y Hy]. destruct (IH (fun e' He' => H e' (or_intror He'))) as [ys [H1 [H2 H3]]].
  exists (y :: ys). cbn [upto_err mapM map length]. rewrite Hy, H1, H2. cbn. auto.
Qed.

End ErroringProofs.

(* lazy_filter with a predicate that may raise *)
Section ErroringFilterProofs.
Context {St E : Type}.
Variable step : St -> option E * St.
Variable p : E -> outcome bool.
Fixpoint efilter_items (l : list E) : list (outcome E) :=
  match l with
  | [] => []
  | e :: r => match p e with
              | Ok true => Ok e :: efilter_items r
              | Ok false => efilter_items r
              | Err c => [Err c]
              | Panic => [Panic]
              | OutOfFuel => [OutOfFuel]
              end
  end.
Definition p_clean (l : list E) : Prop := forall e, In e l -> p e <> Panic /\ p e <> OutOfFuel.

(* one call of next: the first item of efilter_items, and a state that yields the rest *)
Theorem efilter_next : forall s l, yields step s l -> p_clean l -> forall fuel, (length l < fuel)%nat ->
  match efilter_items l with
  | [] => efilter_loop step p fuel s = Ok (None, AStopped)
  | Err c :: _ => efilter_items l = [Err c] /\ efilter_loop step p fuel s = Ok (Some (Err c), AStopped)
  | Ok e :: rest => exists s' l', efilter_loop step p fuel s = Ok (Some (Ok e), AOk s') /\
                      yields step s' l' /\ efilter_items l' = rest /\ (length l' < length l)%nat /\ p_clean l'
  | _ => False
  end.
Proof.
  induction 1 as [s H|s e l H Hy IH]; intros Hc fuel Hf.
  - cbn [efilter_items]. destruct fuel; [cbn in Hf; lia|]. cbn. destruct (step s) as [o s']. cbn in H. subst. reflexivity.
  - destruct fuel; [lia|]. cbn [efilter_loop efilter_items]. destruct (step s) as [o s'] eqn:Es. cbn in H, Hy, IH. subst o.
    assert (Hc' : p_clean l) by (intros e' He'; apply Hc; right; assumption).
    destruct (Hc e (or_introl eq_refl)) as [Hp1 Hp2].
    destruct (p e) as [[|]|c| |] eqn:Ep; try contradiction.
    + exists s', l. split; [reflexivity|]. split; [assumption|]. split; [reflexivity|]. split; [cbn [length]; lia|assumption].
    + cbn [length] in Hf. specialize (IH Hc' fuel ltac:(lia)).
      destruct (efilter_items l) as [|[e1|c1| |] rest]; auto.
      destruct IH as [s2 [l2 [H1 [H2 [H3 [H4 H5]]]]]]. exists s2, l2. split; [assumption|]. split; [assumption|]. split; [assumption|]. split; [cbn [length]; lia|assumption].
    + auto.
Qed.
End ErroringFilterProofs.
