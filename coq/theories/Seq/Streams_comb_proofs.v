(* C11 proofs, part 3: Permutations and Combinations of at most 6 things, by exhaustive
   computation (vm_compute) lifted through sound boolean checkers with forallb_forall.
   The bound is part of every statement. *)
From Coq Require Import ZArith List Bool Arith Lia Sorting.Sorted Sorting.Permutation RelationClasses.
From NV Require Import Common.Outcome Common.MachineInt Seq.Index Seq.Streams Seq.StreamsSpec Seq.Streams_proofs.
Import ListNotations.
Open Scope Z_scope.

(* ------------------------------------------------------------------ a checked run *)
Section Run.
Context {St E : Type}.
Variable step : St -> option E * St.
Variable len : St -> outcome (option Z).
Variable chk_len : bool.                     (* false: the type has no len override *)
Variable st_eqb : St -> St -> bool.
Hypothesis st_eqb_eq : forall a b, st_eqb a b = true -> a = b.

Definition len_is (s : St) (n : Z) : bool :=
  if chk_len then match len s with Ok (Some m) => m =? n | _ => false end else true.

(* Some l: the stream ends within `fuel` steps having yielded l, the exhausted state is a
   fixpoint, and at every state passed len was exactly the number of elements still to come *)
Fixpoint run (fuel : nat) (s : St) : option (list E) :=
  match fuel with
  | O => None
  | S f =>
    match step s with
    | (None, s') => if st_eqb s' s && len_is s 0 then Some [] else None
    | (Some e, s') =>
      match run f s' with
      | Some l => if len_is s (1 + Z.of_nat (length l)) then Some (e :: l) else None
      | None => None
      end
    end
  end.

Lemma reaches_fixpoint s : snd (step s) = s -> forall t, reaches step s t -> t = s.
Proof. intros Hf t Hr. induction Hr as [|s t Hr IH]; [reflexivity|]. rewrite Hf in IH. auto. Qed.

Lemma run_sound : forall fuel s l, run fuel s = Some l ->
  yields step s l /\
  forall t, reaches step s t -> exists l', yields step t l' /\ len_is t (Z.of_nat (length l')) = true.
Proof.
  induction fuel as [|f IH]; intros s l H; [discriminate|]. cbn [run] in H.
  destruct (step s) as [[e|] s'] eqn:Es.
  - destruct (run f s') as [l0|] eqn:Er; [|discriminate].
    destruct (len_is s (1 + Z.of_nat (length l0))) eqn:El; [|discriminate]. injection H as <-.
    destruct (IH _ _ Er) as [Hy Hr]. assert (Hys : yields step s (e :: l0)).
    { econstructor; rewrite Es; cbn; eauto. }
    split; [assumption|]. intros t Ht. inversion Ht; subst.
    + exists (e :: l0). split; [assumption|]. cbn [length]. rewrite Nat2Z.inj_succ. rewrite <- El. f_equal. lia.
    + rewrite Es in H. cbn in H. auto.
  - destruct (st_eqb s' s && len_is s 0) eqn:Eb; [|discriminate]. injection H as <-.
    apply andb_true_iff in Eb. destruct Eb as [Eq El]. apply st_eqb_eq in Eq. subst s'.
    assert (Hys : yields step s []) by (constructor; rewrite Es; reflexivity).
    split; [assumption|]. intros t Ht. apply reaches_fixpoint in Ht; [|rewrite Es; reflexivity].
    subst. exists []. split; assumption.
Qed.
End Run.

(* ------------------------------------------------------------------ deciders for the spec *)
Fixpoint veqb (u v : list nat) : bool :=
  match u, v with
  | [], [] => true
  | x :: u', y :: v' => (x =? y)%nat && veqb u' v'
  | _, _ => false
  end.
Lemma veqb_eq : forall u v, veqb u v = true -> u = v.
Proof.
  induction u as [|x u IH]; intros [|y v] H; try discriminate; [reflexivity|].
  cbn in H. apply andb_true_iff in H. destruct H as [H1 H2]. apply Nat.eqb_eq in H1. f_equal; auto.
Qed.
Lemma veqb_refl : forall u, veqb u u = true.
Proof. induction u; cbn; [reflexivity|]. rewrite Nat.eqb_refl. assumption. Qed.
Definition ivstate_eqb (a b : ivstate) : bool :=
  match a, b with
  | None, None => true
  | Some u, Some v => veqb u v
  | _, _ => false
  end.
Lemma ivstate_eqb_eq a b : ivstate_eqb a b = true -> a = b.
Proof. destruct a, b; cbn; intros H; try discriminate; [f_equal; apply veqb_eq; assumption | reflexivity]. Qed.
Definition memb (v : list nat) (l : list (list nat)) : bool := existsb (veqb v) l.
Lemma memb_In v l : memb v l = true -> In v l.
Proof.
  unfold memb. rewrite existsb_exists. intros [w [Hw He]]. apply veqb_eq in He. subst. assumption.
Qed.

(* all vectors of length k with entries below n *)
Fixpoint tuples (n k : nat) : list (list nat) :=
  match k with
  | O => [[]]
  | S k' => flat_map (fun d => map (cons d) (tuples n k')) (seq 0 n)
  end.
Lemma tuples_complete n : forall k v, length v = k -> Forall (fun i => (i < n)%nat) v -> In v (tuples n k).
Proof.
  induction k as [|k IH]; intros v Hl Hf.
  - destruct v; [left; reflexivity|discriminate].
  - destruct v as [|d v]; [discriminate|]. inversion Hf; subst. cbn [tuples].
    apply in_flat_map. exists d. split; [apply in_seq; lia|]. apply in_map. apply IH; [cbn in Hl; lia|assumption].
Qed.

(* lexicographic order is transitive, so adjacent-sorted lists are strongly sorted *)
Lemma lex_lt_trans : forall u v w, lex_lt u v = true -> lex_lt v w = true -> lex_lt u w = true.
Proof.
  induction u as [|x u IH]; intros [|y v] [|z w] H1 H2; try discriminate; try reflexivity.
  cbn [lex_lt] in *.
  apply orb_true_iff in H1. apply orb_true_iff in H2. apply orb_true_iff.
  rewrite andb_true_iff in *. rewrite Nat.ltb_lt, Nat.eqb_eq in *.
  destruct H1 as [H1|[H1 H1']]; destruct H2 as [H2|[H2 H2']]; subst; try (left; lia).
  right. split; [reflexivity|]. eapply IH; eauto.
Qed.
Lemma sortedb_sorted l : sortedb lex_lt l = true -> StronglySorted (fun u v => lex_lt u v = true) l.
Proof.
  intros H. apply Sorted_StronglySorted.
  - intros u v w. apply lex_lt_trans.
  - induction l as [|u r IH]; [constructor|]. cbn [sortedb] in H. destruct r as [|v r'].
    + constructor; constructor.
    + apply andb_true_iff in H. destruct H as [H1 H2]. constructor; [auto|]. constructor. assumption.
Qed.

Definition is_permb (n : nat) (v : list nat) : bool :=
  (length v =? n)%nat && forallb (fun i => existsb (Nat.eqb i) v) (seq 0 n).
Lemma is_permb_spec n v : is_permb n v = true <-> is_perm n v.
Proof.
  unfold is_permb, is_perm. rewrite andb_true_iff, Nat.eqb_eq, forallb_forall. split.
  - intros [Hl Hin]. apply Permutation_sym. apply NoDup_Permutation_bis.
    + apply seq_NoDup. + rewrite seq_length. lia.
    + intros i Hi. specialize (Hin i Hi). apply existsb_exists in Hin. destruct Hin as [j [Hj He]].
      apply Nat.eqb_eq in He. subst. assumption.
  - intros Hp. split; [rewrite (Permutation_length Hp); apply seq_length|].
    intros i Hi. apply existsb_exists. exists i. split; [|apply Nat.eqb_refl].
    eapply Permutation_in; [apply Permutation_sym; exact Hp | assumption].
Qed.
Lemma is_perm_tuple n v : is_perm n v -> length v = n /\ Forall (fun i => (i < n)%nat) v.
Proof.
  intros Hp. split; [rewrite (Permutation_length Hp); apply seq_length|].
  apply Forall_forall. intros i Hi. pose proof (Permutation_in _ Hp Hi) as H. apply in_seq in H. lia.
Qed.

Fixpoint incb (v : list nat) : bool :=
  match v with
  | [] => true
  | x :: r => match r with [] => true | y :: _ => (x <? y)%nat && incb r end
  end.
Lemma incb_spec v : incb v = true <-> StronglySorted lt v.
Proof.
  split.
  - intros H. apply Sorted_StronglySorted; [intros a b c; apply Nat.lt_trans|].
    induction v as [|x r IH]; [constructor|]. cbn [incb] in H. destruct r as [|y r'].
    + constructor; constructor.
    + apply andb_true_iff in H. destruct H as [H1 H2]. apply Nat.ltb_lt in H1. constructor; [auto|]. constructor. assumption.
  - intros H. apply StronglySorted_Sorted in H.
    induction v as [|x r IH]; [reflexivity|]. cbn [incb]. inversion H; subst. destruct r as [|y r']; [reflexivity|].
    inversion H3; subst. apply andb_true_iff. split; [apply Nat.ltb_lt; assumption | auto].
Qed.
Definition is_combb (n k : nat) (v : list nat) : bool :=
  (length v =? k)%nat && incb v && forallb (fun i => (i <? n)%nat) v.
Lemma is_combb_spec n k v : is_combb n k v = true <-> is_comb n k v.
Proof.
  unfold is_combb, is_comb. rewrite !andb_true_iff, Nat.eqb_eq, incb_spec, forallb_forall, Forall_forall.
  split; intros [[H1 H2] H3] || intros [H1 [H2 H3]]; repeat split; auto; intros i Hi; specialize (H3 i Hi);
    [apply Nat.ltb_lt | apply Nat.ltb_lt in H3]; assumption.
Qed.

(* l enumerates P, decided through a decider of P and the finite universe of candidate vectors *)
Definition enumeratesb (Pb : list nat -> bool) (universe : list (list nat)) (l : list (list nat)) : bool :=
  sortedb lex_lt l && forallb Pb l && forallb (fun v => implb (Pb v) (memb v l)) universe.
Lemma enumeratesb_sound (P : list nat -> Prop) Pb universe l :
  (forall v, Pb v = true <-> P v) -> (forall v, P v -> In v universe) ->
  enumeratesb Pb universe l = true -> enumerates P l.
Proof.
  intros HP HU H. unfold enumeratesb in H. rewrite !andb_true_iff, !forallb_forall in H.
  destruct H as [[Hs Hall] Hcomplete]. split; [|apply sortedb_sorted; assumption].
  intros v. split.
  - intros Hin. apply HP. auto.
  - intros Hv. specialize (Hcomplete v (HU v Hv)). rewrite (proj2 (HP v) Hv) in Hcomplete. apply memb_In. assumption.
Qed.

(* ------------------------------------------------------------------ Permutations *)
Definition perm_fuel : nat := 800.
Definition perm_check (n : nat) : bool :=
  match run perm_step perm_len true ivstate_eqb perm_fuel (perm_init n) with
  | Some l => enumeratesb (is_permb n) (tuples n n) l
  | None => false
  end.

Definition perm_statement (n : nat) : Prop :=
  exists l, yields perm_step (perm_init n) l /\ enumerates (is_perm n) l /\
    forall t, reaches perm_step (perm_init n) t ->
      exists l', yields perm_step t l' /\ perm_len t = Ok (Some (Z.of_nat (length l'))).

Lemma perm_check_sound n : perm_check n = true -> perm_statement n.
Proof.
  unfold perm_check, perm_statement.
  destruct (run perm_step perm_len true ivstate_eqb perm_fuel (perm_init n)) as [l|] eqn:Er; [|discriminate].
  intros He. destruct (run_sound _ _ _ _ ivstate_eqb_eq _ _ _ Er) as [Hy Hr].
  exists l. split; [assumption|]. split.
  - eapply enumeratesb_sound; [apply is_permb_spec | | exact He].
    intros v Hv. destruct (is_perm_tuple n v Hv). apply tuples_complete; assumption.
  - intros t Ht. destruct (Hr t Ht) as [l' [Hy' Hl]]. exists l'. split; [assumption|].
    unfold len_is in Hl. destruct (perm_len t) as [[m|]| | |]; try discriminate.
    apply Z.eqb_eq in Hl. subst. reflexivity.
Qed.

Lemma perm_checks_pass : forallb perm_check (seq 0 7) = true.
Proof. vm_cast_no_check (eq_refl true). Qed.

Theorem perm_bounded n : (n <= 6)%nat -> perm_statement n.
Proof.
  intros Hn. apply perm_check_sound.
  pose proof perm_checks_pass as H. rewrite forallb_forall in H. apply H. apply in_seq. lia.
Qed.

(* the one-step lemma, for every reachable state of permutations of at most 6 things *)
Theorem perm_len_step_bounded n t e : (n <= 6)%nat -> reaches perm_step (perm_init n) t ->
  fst (perm_step t) = Some e ->
  exists k, perm_len (snd (perm_step t)) = Ok (Some k) /\ perm_len t = Ok (Some (1 + k)).
Proof.
  intros Hn Hr He. destruct (perm_bounded n Hn) as [l [_ [_ Hall]]].
  destruct (Hall t Hr) as [l1 [Hy1 Hl1]].
  assert (Hr2 : reaches perm_step (perm_init n) (snd (perm_step t))).
  { eapply reaches_trans; [exact Hr|]. apply reaches_step. constructor. }
  destruct (Hall _ Hr2) as [l2 [Hy2 Hl2]].
  exists (Z.of_nat (length l2)). split; [assumption|]. rewrite Hl1.
  assert (Hy : yields perm_step t (e :: l2)) by (econstructor; eauto).
  rewrite (yields_fun _ _ _ Hy1 _ Hy). cbn [length]. do 2 f_equal. lia.
Qed.

(* ------------------------------------------------------------------ Combinations *)
Definition comb_check (nk : nat * nat) : bool :=
  let '(n, k) := nk in
  match run (comb_step n) (fun _ => Ok None) false ivstate_eqb perm_fuel (comb_init k) with
  | Some l => enumeratesb (is_combb n k) (tuples n k) l
  | None => false
  end.

(* Combinations has no len override: its len is Stream::len's default, count by iterating *)
Definition comb_statement (n k : nat) : Prop :=
  exists l, yields (comb_step n) (comb_init k) l /\ enumerates (is_comb n k) l /\
    forall t, reaches (comb_step n) (comb_init k) t ->
      exists l', yields (comb_step n) t l' /\
        forall fuel, (length l' < fuel)%nat ->
          default_len (comb_step n) fuel t = Ok (Some (Z.of_nat (length l'))).

Lemma comb_check_sound n k : comb_check (n, k) = true -> comb_statement n k.
Proof.
  unfold comb_check, comb_statement.
  destruct (run (comb_step n) (fun _ => Ok None) false ivstate_eqb perm_fuel (comb_init k)) as [l|] eqn:Er; [|discriminate].
  intros He. destruct (run_sound _ _ _ _ ivstate_eqb_eq _ _ _ Er) as [Hy Hr].
  exists l. split; [assumption|]. split.
  - eapply enumeratesb_sound; [apply is_combb_spec | | exact He].
    intros v [Hl [_ Hf]]. apply tuples_complete; assumption.
  - intros t Ht. destruct (Hr t Ht) as [l' [Hy' _]]. exists l'. split; [assumption|].
    intros fuel Hf. unfold default_len. rewrite (yields_count _ _ _ Hy' fuel Hf). reflexivity.
Qed.

Definition comb_cases : list (nat * nat) :=
  flat_map (fun n => map (fun k => (n, k)) (seq 0 (n + 2))) (seq 0 7).
Lemma comb_checks_pass : forallb comb_check comb_cases = true.
Proof. vm_cast_no_check (eq_refl true). Qed.

Theorem comb_bounded n k : (n <= 6)%nat -> (k <= n + 1)%nat -> comb_statement n k.
Proof.
  intros Hn Hk. apply comb_check_sound.
  pose proof comb_checks_pass as H. rewrite forallb_forall in H. apply H.
  unfold comb_cases. apply in_flat_map. exists n. split; [apply in_seq; lia|].
  apply in_map. apply in_seq. lia.
Qed.
