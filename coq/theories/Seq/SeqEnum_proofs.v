(* C13 - permutations / combinations / subsequences enumerate exactly the documented sets, once
   each, in the documented order ("lexicographic indexes" / "big-endian binary", src/streams.rs).
   Unbounded: naturality in the elements (so everything is decided on index lists), the order and
   exact contents of subsequences. Bounded (length <= 6, by computation in the kernel VM): the
   index lists of permutations / combinations are exactly the repetition-free / strictly
   increasing tuples of the cartesian power, in the cartesian power's (lexicographic) order. *)
From Coq Require Import List Bool Arith Lia.
From NV Require Import Seq.SeqLib.
Import ListNotations.

(* ------------------------------------------------------------------ naturality *)
Section Natural.
  Variables A B : Type.
  Variable f : A -> B.

  Lemma subsequences_map : forall l, sl_subsequences (map f l) = map (map f) (sl_subsequences l).
  Proof.
    induction l as [|x t IH]; [reflexivity|]. cbn [map sl_subsequences]. rewrite IH, map_app, !map_map. reflexivity.
  Qed.

  Lemma combinations_map : forall k l, sl_combinations (map f l) k = map (map f) (sl_combinations l k).
  Proof.
    induction k as [|k IHk]; intros l; [destruct l; reflexivity|].
    induction l as [|x t IHl]; [reflexivity|]. cbn [map sl_combinations]. rewrite IHk, IHl, map_app, !map_map. reflexivity.
  Qed.

  Lemma selects_map : forall l,
    selects (map f l) = map (fun yr => (f (fst yr), map f (snd yr))) (selects l).
  Proof.
    induction l as [|x t IH]; [reflexivity|]. cbn [map selects fst snd]. rewrite IH, !map_map. reflexivity.
  Qed.

  Lemma perms_map : forall fuel l, perms fuel (map f l) = map (map f) (perms fuel l).
  Proof.
    induction fuel as [|n IH]; intros l; [reflexivity|].
    cbn [perms]. rewrite selects_map. rewrite flat_map_concat_map, map_map. rewrite flat_map_concat_map, concat_map, map_map.
    f_equal. apply map_ext. intros [y r]. cbn [fst snd]. rewrite IH, !map_map. reflexivity.
  Qed.

  Lemma permutations_map : forall l, sl_permutations (map f l) = map (map f) (sl_permutations l).
  Proof. intros. unfold sl_permutations. rewrite map_length. apply perms_map. Qed.
End Natural.

Lemma positions : forall A (xs : list A) d, map (fun i => nth i xs d) (seq 0 (length xs)) = xs.
Proof.
  induction xs as [|x t IH]; intros d; [reflexivity|].
  cbn [length seq map nth]. rewrite <- seq_shift, map_map. cbn [nth]. now rewrite IH.
Qed.

(* ------------------------------------------------------------------ subsequences, unbounded *)
(* the n-bit big-endian representation of k *)
Fixpoint bits (n k : nat) : list bool :=
  match n with
  | 0 => []
  | S n' => (2 ^ n' <=? k) :: bits n' (k mod 2 ^ n')
  end.
Fixpoint mask_select {A} (m : list bool) (xs : list A) : list A :=
  match m, xs with
  | b :: m', x :: t => if b then x :: mask_select m' t else mask_select m' t
  | _, _ => []
  end.

Theorem subsequences_order : forall A (xs : list A),
  length (sl_subsequences xs) = 2 ^ length xs /\
  forall k, k < 2 ^ length xs -> nth k (sl_subsequences xs) [] = mask_select (bits (length xs) k) xs.
Proof.
  induction xs as [|x t (IHl & IHn)].
  - split; [reflexivity|]. intros k Hk. cbn in Hk. assert (k = 0) by lia. subst. reflexivity.
  - cbn [sl_subsequences length]. split; [rewrite app_length, map_length, IHl; cbn [Nat.pow]; lia|].
    intros k Hk. cbn [Nat.pow] in Hk. cbn [bits mask_select].
    pose proof (Nat.pow_nonzero 2 (length t)) as Hp.
    destruct (Nat.leb_spec (2 ^ length t) k) as [Hge|Hlt].
    + rewrite app_nth2 by (rewrite IHl; lia). rewrite IHl.
      assert (Hm : k mod 2 ^ length t = k - 2 ^ length t).
      { symmetry. apply (Nat.mod_unique k (2 ^ length t) 1 (k - 2 ^ length t)); lia. }
      rewrite Hm.
      rewrite nth_indep with (d' := (cons x) []) by (rewrite map_length, IHl; lia).
      rewrite map_nth. f_equal. apply IHn. lia.
    + rewrite app_nth1 by (rewrite IHl; lia). rewrite Nat.mod_small by lia. now apply IHn.
Qed.

(* ------------------------------------------------------------------ bounded: index lists *)
Fixpoint nat_list_eqb (a b : list nat) : bool :=
  match a, b with
  | [], [] => true
  | x :: a', y :: b' => (x =? y) && nat_list_eqb a' b'
  | _, _ => false
  end.
Fixpoint nat_lists_eqb (a b : list (list nat)) : bool :=
  match a, b with
  | [], [] => true
  | x :: a', y :: b' => nat_list_eqb x y && nat_lists_eqb a' b'
  | _, _ => false
  end.
Lemma nat_list_eqb_eq : forall a b, nat_list_eqb a b = true -> a = b.
Proof.
  induction a as [|x a IH]; destruct b as [|y b]; cbn [nat_list_eqb]; try discriminate; [reflexivity|].
  intros H. apply andb_true_iff in H as [H1 H2]. apply Nat.eqb_eq in H1. subst. f_equal. now apply IH.
Qed.
Lemma nat_lists_eqb_eq : forall a b, nat_lists_eqb a b = true -> a = b.
Proof.
  induction a as [|x a IH]; destruct b as [|y b]; cbn [nat_lists_eqb]; try discriminate; [reflexivity|].
  intros H. apply andb_true_iff in H as [H1 H2]. apply nat_list_eqb_eq in H1. subst. f_equal. now apply IH.
Qed.

(* no index occurs twice *)
Fixpoint nodupb (l : list nat) : bool :=
  match l with
  | [] => true
  | x :: t => negb (existsb (Nat.eqb x) t) && nodupb t
  end.
(* strictly increasing indexes *)
Fixpoint increasingb (l : list nat) : bool :=
  match l with
  | x :: ((y :: _) as t) => (x <? y) && increasingb t
  | _ => true
  end.

Definition perm_check (n : nat) : bool :=
  nat_lists_eqb (sl_permutations (seq 0 n)) (filter nodupb (sl_cartesian_power (seq 0 n) n)).
Definition comb_check (n : nat) : bool :=
  forallb (fun k => nat_lists_eqb (sl_combinations (seq 0 n) k) (filter increasingb (sl_cartesian_power (seq 0 n) k)))
          (seq 0 (n + 2)).

Lemma perm_check_6 : forallb perm_check (seq 0 7) = true.
Proof. vm_compute. reflexivity. Qed.
Lemma comb_check_6 : forallb comb_check (seq 0 7) = true.
Proof. vm_compute. reflexivity. Qed.

Theorem permutations_enumerate : forall A (xs : list A) d, length xs <= 6 ->
  sl_permutations xs =
  map (map (fun i => nth i xs d))
      (filter nodupb (sl_cartesian_power (seq 0 (length xs)) (length xs))).
Proof.
  intros A xs d Hl. rewrite <- (positions A xs d) at 1. rewrite permutations_map. f_equal.
  apply nat_lists_eqb_eq. pose proof perm_check_6 as H. rewrite forallb_forall in H.
  apply (H (length xs)). apply in_seq. lia.
Qed.

Theorem combinations_enumerate : forall A (xs : list A) d k, length xs <= 6 -> k <= length xs + 1 ->
  sl_combinations xs k =
  map (map (fun i => nth i xs d))
      (filter increasingb (sl_cartesian_power (seq 0 (length xs)) k)).
Proof.
  intros A xs d k Hl Hk. rewrite <- (positions A xs d) at 1. rewrite combinations_map. f_equal.
  apply nat_lists_eqb_eq. pose proof comb_check_6 as H. rewrite forallb_forall in H.
  assert (Hn : In (length xs) (seq 0 7)) by (apply in_seq; lia).
  specialize (H _ Hn). unfold comb_check in H. rewrite forallb_forall in H. apply H. apply in_seq. lia.
Qed.

(* more than length+1 elements cannot be chosen: unbounded *)
Lemma combinations_too_many : forall A (xs : list A) k, length xs < k -> sl_combinations xs k = [].
Proof.
  induction xs as [|x t IH]; intros k Hk; (destruct k as [|k]; [cbn [length] in Hk; lia|]); [reflexivity|].
  cbn [sl_combinations]. cbn [length] in Hk. rewrite (IH k), (IH (S k)) by lia. reflexivity.
Qed.
