(* C11 model: transcription of the lazy stream types of src/streams.rs (Repeat, Cycle, Range,
   Permutations, Combinations, Subsequences, CartesianPower, Iterate, MappedStream,
   ZippedStream, FilteredStream), of WrappedVec (src/core.rs) and of the consumers that
   observe a stream (Stream default methods, Seq::len/is_empty, obj_in, unpacking,
   MutObjIntoIter's clone-unless-unique rule).  Definitions only; proofs are in
   Streams_*_proofs.v.

   A stream type is a state type St with
     step : St -> option E * St      Iterator::next on a clone: the yielded element (None =
                                     exhausted) and the state afterwards
     len  : St -> outcome (option Z) the type's Stream::len; Ok None = "infinite" (also what
                                     the closed forms answer when the count does not fit usize).
   BigInt (NInt) arithmetic is exact Z arithmetic; usize arithmetic is checked
   (usize::checked_add / checked_mul are to_usize_z of the exact result). *)
From Coq Require Import ZArith List Bool Arith.
From NV Require Import Common.Outcome Common.MachineInt Seq.Index.
Import ListNotations.
Open Scope Z_scope.

Definition mul_usize (a b : Z) : outcome Z := chk_usize (a * b).
(* BigInt::to_usize / NInt::to_usize *)
Definition to_usize_z (z : Z) : option Z := if in_usizeb z then Some z else None.

(* ------------------------------------------------------------------ generic iteration *)
Section Iter.
Context {St E : Type}.
Variable step : St -> option E * St.

(* the elements a clone yields, at most `fuel` of them (force = collect, take n, canonical printing) *)
Fixpoint unfold (fuel : nat) (s : St) : list E :=
  match fuel with
  | O => []
  | S f => match step s with
           | (Some e, s') => e :: unfold f s'
           | (None, _) => []
           end
  end.

(* Stream::pythonic_slice(Some k, None): `for _ in 0..k { if it.next().is_none() { return it } }`
   on a clone -- the state of `s drop k` *)
Fixpoint drop_prefix (k : nat) (s : St) : St :=
  match k with
  | O => s
  | S k' => match step s with
            | (Some _, s') => drop_prefix k' s'
            | (None, s') => s'
            end
  end.

(* Stream::len default: `while let Some(_) = s.next() { ret += 1 }` on a clone *)
Fixpoint count_iter (fuel : nat) (s : St) : outcome Z :=
  match fuel with
  | O => OutOfFuel
  | S f => match step s with
           | (Some _, s') => omap Z.succ (count_iter f s')
           | (None, _) => Ok 0
           end
  end.
Definition default_len (fuel : nat) (s : St) : outcome (option Z) :=
  omap Some (count_iter fuel s).
End Iter.

(* ------------------------------------------------------------------ Range *)
(* Range(start, Option<end>, step), all NInt *)
Record range := Range { r_start : Z; r_end : option Z; r_step : Z }.

(* Range::empty *)
Definition range_empty (r : range) : bool :=
  match r_end r with
  | None => false
  | Some e => if r_step r <? 0 then r_start r <=? e else e <=? r_start r
  end.
(* Iterator::next *)
Definition range_step (r : range) : option Z * range :=
  if range_empty r then (None, r)
  else (Some (r_start r), Range (r_start r + r_step r) (r_end r) (r_step r)).
(* Stream::len (after the fix of the Sign::Minus arm); `/` on NInt truncates *)
Definition range_len (r : range) : option Z :=
  match r_end r with
  | None => None
  | Some e =>
    if r_step r =? 0 then (if r_start r <? e then None else Some 0)
    else if r_step r <? 0
    then to_usize_z (Z.quot (Z.max (r_start r - e - r_step r - 1) 0) (- r_step r))
    else to_usize_z (Z.quot (Z.max (e - r_start r + r_step r - 1) 0) (r_step r))
  end.
(* lib.rs constructors: a til b [by c], a to b [by c], iota a *)
Definition til (a b c : Z) : range := Range a (Some b) c.
Definition to (a b c : Z) : range := Range a (Some (if c <? 0 then b - 1 else b + 1)) c.
Definition iota (a : Z) : range := Range a None 1.

(* ------------------------------------------------------------------ WrappedVec *)
Section WVec.
Context {A : Type}.
(* WrappedVec(Rc<Vec<T>>, usize) *)
Definition wvec : Type := list A * nat.
Definition wvec_step (w : wvec) : option A * wvec :=
  let '(xs, pos) := w in
  match nth_error xs pos with
  | Some a => (Some a, (xs, S pos))      (* self.1 < self.0.len() *)
  | None => (None, w)
  end.
(* Some(self.0.len().saturating_sub(self.1)) *)
Definition wvec_len (w : wvec) : option Z :=
  let '(xs, pos) := w in Some (Z.of_nat (length xs - pos)).
Definition stream_of_list (xs : list A) : wvec := (xs, O).
End WVec.

(* ------------------------------------------------------------------ index vectors *)
(* self.0[*i] for every i of v: a Rust slice index, panics when out of bounds *)
Definition pick {A} (base : list A) (v : list nat) : outcome (list A) :=
  mapM (fun i => rust_get base (Z.of_nat i)) v.

(* ------------------------------------------------------------------ Permutations *)
(* Permutations(base, Option<Vec<usize>>): the state is the index vector *)
Definition ivstate : Type := option (list nat).

(* the `for i in 0..v.len().saturating_sub(1)` scan for (inc, linc) *)
Definition perm_scan (v : list nat) : option (nat * nat) :=
  fold_left (fun up i =>
    if (nth i v O <? nth (i + 1) v O)%nat then Some (i, (i + 1)%nat)
    else match up with
         | Some (inc, linc) => if (nth inc v O <? nth (i + 1) v O)%nat then Some (inc, (i + 1)%nat) else up
         | None => None
         end) (seq 0 (length v - 1)) None.
Definition swap_nth (v : list nat) (i j : nat) : list nat :=
  set_nth (set_nth v i (nth j v O)) j (nth i v O).
(* v[k..].reverse() *)
Definition rev_from (v : list nat) (k : nat) : list nat := firstn k v ++ rev (skipn k v).
Definition perm_succ (v : list nat) : ivstate :=
  match perm_scan v with
  | Some (inc, linc) => Some (rev_from (swap_nth v inc linc) (inc + 1))
  | None => None
  end.
Definition perm_step (s : ivstate) : option (list nat) * ivstate :=
  match s with
  | None => (None, None)
  | Some v => (Some v, perm_succ v)
  end.
(* Stream::len: 1 + sum over i in 1..n of i! * #{ j in n-i..n : v[j] > v[n-1-i] }, in checked
   usize arithmetic; `?` on an overflow returns None.  The loop state is (cur, total) with
   cur : Option<usize>; None of the whole = the function returned None. *)
Definition count_gt (v : list nat) (lo cnt : nat) (x : nat) : Z :=
  Z.of_nat (length (filter (fun j => (x <? nth j v O)%nat) (seq lo cnt))).
Definition omul (a : option Z) (b : Z) : option Z :=
  match a with Some c => to_usize_z (c * b) | None => None end.
(* total.checked_add(d.checked_mul(cur?)?)? *)
Definition add_term (total : Z) (d : Z) (cur : option Z) : option Z :=
  match omul cur d with Some t => to_usize_z (total + t) | None => None end.
Definition perm_len_vec (v : list nat) : option Z :=
  let n := length v in
  option_map snd
    (fold_left (fun acc i =>
       match acc with
       | None => None
       | Some (cur, total) =>
         let cur' := omul cur (Z.of_nat i) in
         let larger := count_gt v (n - i) i (nth (n - 1 - i) v O) in
         if 0 <? larger
         then match add_term total larger cur' with Some t => Some (cur', t) | None => None end
         else Some (cur', total)
       end) (seq 1 (n - 1)) (Some (Some 1, 1))).
Definition perm_len (s : ivstate) : outcome (option Z) :=
  match s with
  | None => Ok (Some 0)
  | Some v => Ok (perm_len_vec v)
  end.
(* permutations(xs): Some((0..n).collect()) *)
Definition perm_init (n : nat) : ivstate := Some (seq 0 n).

(* ------------------------------------------------------------------ Combinations *)
(* `for i in (0..k).rev() { if v[i] + 1 < last { found i } last -= 1 }`:
   comb_find v i last examines positions i-1, i-2, ..., 0 *)
Fixpoint comb_find (v : list nat) (i last : nat) : option nat :=
  match i with
  | O => None
  | S i' => if (nth i' v O + 1 <? last)%nat then Some i' else comb_find v i' (last - 1)
  end.
(* v[i] += 1; for j in i+1..k { v[j] = v[j-1] + 1 } *)
Definition comb_bump (v : list nat) (i : nat) : list nat :=
  firstn i v ++ map (fun d => (nth i v O + 1 + d)%nat) (seq 0 (length v - i)).
(* n = self.0.len() *)
Definition comb_step (n : nat) (s : ivstate) : option (list nat) * ivstate :=
  match s with
  | None => (None, None)
  | Some v =>
    if (n <? length v)%nat then (None, Some v)
    else match comb_find v (length v) n with
         | Some i => (Some v, Some (comb_bump v i))
         | None => (Some v, None)
         end
  end.
(* combinations(xs, k): Some((0..k).collect()); no len override (default: count by iterating) *)
Definition comb_init (k : nat) : ivstate := Some (seq 0 k).

(* ------------------------------------------------------------------ Subsequences *)
(* `for i in (0..n).rev() { if !v[i] { v[i] = true; v[i+1..] = false; return } } self.1 = None`:
   big-endian binary increment, None when every flag was set *)
Fixpoint sub_inc (v : list bool) : option (list bool) :=
  match v with
  | [] => None
  | b :: r => match sub_inc r with
              | Some r' => Some (b :: r')
              | None => if b then None else Some (true :: map (fun _ => false) r)
              end
  end.
Definition sub_step (s : option (list bool)) : option (list bool) * option (list bool) :=
  match s with
  | None => (None, None)
  | Some v => (Some v, sub_inc v)
  end.
(* the element: v.zip(base).filter_map(...) *)
Fixpoint mask_select {A} (v : list bool) (base : list A) : list A :=
  match v, base with
  | b :: v', x :: base' => if b then x :: mask_select v' base' else mask_select v' base'
  | _, _ => []
  end.
(* Stream::len: `for i in (0..n).rev() { if !v[i] { total = total.checked_add(cur?)? }
   cur = cur.and_then(|c| c.checked_mul(2)) }` starting from (Some(1), 1); the result for a
   list is the loop state after its positions (the tail is processed first) *)
Fixpoint sub_len_aux (v : list bool) : option (option Z * Z) :=
  match v with
  | [] => Some (Some 1, 1)
  | b :: r =>
    match sub_len_aux r with
    | None => None
    | Some (cur, total) =>
      match (if b then Some total else add_term total 1 cur) with
      | None => None
      | Some t => Some (omul cur 2, t)
      end
    end
  end.
Definition sub_len (s : option (list bool)) : outcome (option Z) :=
  match s with
  | None => Ok (Some 0)
  | Some v => Ok (option_map snd (sub_len_aux v))
  end.
Definition sub_init (n : nat) : option (list bool) := Some (repeat false n).

(* ------------------------------------------------------------------ CartesianPower *)
(* `for i in (0..k).rev() { v[i] += 1; if v[i] == m { v[i] = 0 } else { return } } self.1 = None` *)
Fixpoint cart_inc (m : nat) (v : list nat) : option (list nat) :=
  match v with
  | [] => None
  | d :: r => match cart_inc m r with
              | Some r' => Some (d :: r')
              | None => if (S d =? m)%nat then None else Some (S d :: map (fun _ => O) r)
              end
  end.
Definition cart_step (m : nat) (s : ivstate) : option (list nat) * ivstate :=
  match s with
  | None => (None, None)
  | Some v => (Some v, cart_inc m v)
  end.
(* Stream::len: `for i in (0..k).rev() { let d = m - 1 - v[i]; if d > 0 { total =
   total.checked_add(d.checked_mul(cur?)?)? } cur = cur.and_then(|c| c.checked_mul(m)) }`;
   the subtraction is plain usize arithmetic (Panic below zero: not for valid coordinates) *)
Fixpoint cart_len_aux (m : Z) (v : list nat) : outcome (option (option Z * Z)) :=
  match v with
  | [] => Ok (Some (Some 1, 1))
  | d :: r =>
    a <- cart_len_aux m r ;;
    match a with
    | None => Ok None
    | Some (cur, total) =>
      e <- sub_usize m 1 ;;
      e <- sub_usize e (Z.of_nat d) ;;
      match (if 0 <? e then add_term total e cur else Some total) with
      | None => Ok None
      | Some t => Ok (Some (omul cur m, t))
      end
    end
  end.
Definition cart_len (m : nat) (s : ivstate) : outcome (option Z) :=
  match s with
  | None => Ok (Some 0)
  | Some v => omap (option_map snd) (cart_len_aux (Z.of_nat m) v)
  end.
(* xs ^^ k: None when xs is empty and k > 0, else Some(vec![0; k]) *)
Definition cart_init (m k : nat) : ivstate :=
  if (m =? 0)%nat && negb (k =? 0)%nat then None else Some (repeat O k).

(* ------------------------------------------------------------------ infinite streams *)
Section Infinite.
Context {A : Type}.
(* Repeat(x) *)
Definition repeat_step (x : A) : option A * A := (Some x, x).
(* Repeat::pythonic_index_isize ignores the index *)
Definition repeat_index (x : A) (i : Z) : outcome A := Ok x.
(* Cycle(xs, pos): `ret = self.0[self.1]; self.1 = (self.1 + 1) % self.0.len()` *)
Definition cycle : Type := list A * nat.
Definition cycle_step (c : cycle) : option A * cycle :=
  let '(xs, pos) := c in
  match nth_error xs pos with
  | Some a => (Some a, (xs, ((pos + 1) mod length xs)%nat))
  | None => (None, c)     (* not reached: the constructor rejects an empty list, pos < len *)
  end.
(* Cycle::pythonic_index_isize: self.0[(self.1 as isize + i.rem_euclid(len)) % len] *)
Definition cycle_index (c : cycle) (i : Z) : outcome A :=
  let '(xs, pos) := c in
  rust_get xs ((Z.of_nat pos + i mod zlen xs) mod zlen xs).
(* Cycle::reversed: reversed list, position (len - pos) % len *)
Definition cycle_reversed (c : cycle) : cycle :=
  let '(xs, pos) := c in (rev xs, ((length xs - pos) mod length xs)%nat).
(* cycle(xs): an error for an empty list *)
Definition cycle_init (xs : list A) : outcome cycle :=
  match xs with [] => Err EValue | _ => Ok (xs, O) end.
(* Iterate(x, f) with a total f *)
Variable f : A -> A.
Definition iterate_step (x : A) : option A * A := (Some x, f x).
End Infinite.
Definition infinite_len : outcome (option Z) := Ok None.

(* ------------------------------------------------------------------ lazy adaptors *)
(* over an inner stream (Box<dyn Stream>) given by its step function; the state is
   Ok(inner, func, env) or Err(Break) = stopped.  Element functions are total here. *)
Section Adaptors.
Context {St E F : Type}.
Variable step : St -> option E * St.
Inductive adapted := AOk (s : St) | AStopped.

(* MappedStream::next *)
Variable f : E -> F.
Definition map_step (a : adapted) : option F * adapted :=
  match a with
  | AStopped => (None, AStopped)
  | AOk s => match step s with
             | (Some e, s') => (Some (f e), AOk s')
             | (None, _) => (None, AStopped)
             end
  end.

(* FilteredStream::next: `loop { match inner.next() ... }`; the loop is fuelled here *)
Variable p : E -> bool.
Fixpoint filter_loop (fuel : nat) (s : St) : outcome (option E * adapted) :=
  match fuel with
  | O => OutOfFuel
  | S k => match step s with
           | (Some e, s') => if p e then Ok (Some e, AOk s') else filter_loop k s'
           | (None, _) => Ok (None, AStopped)
           end
  end.
Definition filter_step (fuel : nat) (a : adapted) : outcome (option E * adapted) :=
  match a with
  | AStopped => Ok (None, AStopped)
  | AOk s => filter_loop fuel s
  end.
Fixpoint filter_unfold (fuel : nat) (a : adapted) : outcome (list E) :=
  match fuel with
  | O => OutOfFuel
  | S k => r <- filter_step fuel a ;;
           match r with
           | (Some e, a') => omap (cons e) (filter_unfold k a')
           | (None, _) => Ok []
           end
  end.
End Adaptors.
Arguments AStopped {St}.

Section Zip.
Context {St E : Type}.
Variable step : St -> option E * St.
(* ZippedStream::next without a function: next() on each inner stream in order; the first
   None stops the whole stream (Err(Break)), the element is the list of the heads *)
Fixpoint zip_heads (ss : list St) : option (list E * list St) :=
  match ss with
  | [] => Some ([], [])
  | s :: r => match step s with
              | (Some e, s') => match zip_heads r with
                                | Some (es, r') => Some (e :: es, s' :: r')
                                | None => None
                                end
              | (None, _) => None
              end
  end.
Definition zip_step (a : @adapted (list St)) : option (list E) * @adapted (list St) :=
  match a with
  | AStopped => (None, AStopped)
  | AOk ss => match zip_heads ss with
              | Some (es, ss') => (Some es, AOk ss')
              | None => (None, AStopped)
              end
  end.
End Zip.

(* ------------------------------------------------------------------ observers *)
(* What the language's consumers compute from a stream value, given its step and len and
   enough fuel for `force`.  All of them work on a clone (clone_box): they are functions of
   the state and return no new state. *)
Section Observers.
Context {St E : Type}.
Variable step : St -> option E * St.
Variable len : St -> outcome (option Z).
Variable eqb : E -> E -> bool.
Variable fuel : nat.

(* Stream::force *)
Definition force (s : St) : list E := unfold step fuel s.
(* len(s): usize, or infinity *)
Definition obs_len (s : St) : outcome (option Z) := len s.
(* Seq::is_empty is `len() == Some(0)`; truthiness is its negation *)
Definition obs_truthy (s : St) : outcome bool :=
  l <- len s ;; Ok (match l with Some 0 => false | _ => true end).
(* s[i], s[a:b]: the Stream default methods (Seq/Index.v) on the elements of a clone *)
Definition obs_index (s : St) (i : idx) : outcome E := stream_index (force s) i.
Definition obs_slice (s : St) (lo hi : option idx) : outcome (@sliced E) := stream_slice (force s) lo hi.
(* reverse(s): Stream::reversed default = force, reverse, a list *)
Definition obs_reverse (s : St) : outcome (list E) := Ok (rev (force s)).
(* last(s) = linear_index_isize(s, -1) *)
Definition obs_last (s : St) : outcome E := stream_index_isize (force s) (-1).
(* x in s: obj_in iterates, comparing with == *)
Definition obs_in (x : E) (s : St) : outcome bool := Ok (existsb (eqb x) (force s)).
(* a1, ..., ak := s: needs len() = Some(_), collects a cloning iterator, then compares counts *)
Definition obs_unpack (k : nat) (s : St) : outcome (list E) :=
  l <- len s ;;
  match l with
  | None => Err EType
  | Some _ => let xs := force s in if (length xs =? k)%nat then Ok xs else Err EValue
  end.
End Observers.

(* ------------------------------------------------------------------ shared ownership *)
(* MutObjIntoIter::Stream::next on a handle `&mut Rc<dyn Stream>`: advance in place only when
   the handle is the unique owner (Rc::get_mut); otherwise clone_box, advance the clone and
   repoint the handle at it.  A heap is a list of cells (state, strong count); a handle is an
   address. *)
Section Shared.
Context {St E : Type}.
Variable step : St -> option E * St.
Definition cell : Type := St * nat.
Definition heap : Type := list cell.
Definition set_cell (h : heap) (a : nat) (c : cell) : heap :=
  firstn a h ++ c :: skipn (S a) h.
(* returns the element, the new heap and the handle's new address *)
Definition handle_next (h : heap) (a : nat) : option (option E * heap * nat) :=
  match nth_error h a with
  | None => None
  | Some (s, cnt) =>
    let '(e, s') := step s in
    if (cnt =? 1)%nat then Some (e, set_cell h a (s', cnt), a)
    else Some (e, set_cell h a (s, (cnt - 1)%nat) ++ [(s', 1%nat)], length h)
  end.
(* a consumer calling next k times on its handle *)
Fixpoint handle_run (k : nat) (h : heap) (a : nat) : option (list (option E) * heap * nat) :=
  match k with
  | O => Some ([], h, a)
  | S k' => match handle_next h a with
            | None => None
            | Some (e, h', a') =>
              match handle_run k' h' a' with
              | None => None
              | Some (es, h'', a'') => Some (e :: es, h'', a'')
              end
            end
  end.
End Shared.

(* ================================================================== extensions *)
(* ---- lazy_zip with a function: ZippedStream(.., Some(func), ..) applies func to the heads ---- *)
Section ZipWith.
Context {St E F : Type}.
Variable step : St -> option E * St.
Variable g : list E -> F.
Definition zipf_step (a : @adapted (list St)) : option F * @adapted (list St) :=
  let '(o, a') := zip_step step a in (option_map g o, a').
End ZipWith.

(* the n-ary zip of lists: heads of all lists while every list is non-empty *)
Section ZipSpec.
Context {E : Type}.
Fixpoint heads_tails (ls : list (list E)) : option (list E * list (list E)) :=
  match ls with
  | [] => Some ([], [])
  | l :: r => match l with
              | [] => None
              | x :: t => match heads_tails r with
                          | Some (hs, ts) => Some (x :: hs, t :: ts)
                          | None => None
                          end
              end
  end.
Fixpoint zipn (fuel : nat) (ls : list (list E)) : list (list E) :=
  match fuel with
  | O => []
  | S f => match heads_tails ls with
           | Some (hs, ts) => hs :: zipn f ts
           | None => []
           end
  end.
End ZipSpec.

(* ---- Repeat::pythonic_slice (after 189da78): a negative bound counts back from the
   infinitely far end, a missing upper bound is that end; `cap` is the largest width for which
   try_reserve_exact succeeds ---- *)
Section RepeatSlice.
Context {A : Type}.
Variable cap : Z.
Inductive rsliced := RList (l : list A) | RSelf.
Definition repeat_slice (x : A) (lo hi : option Z) : outcome rsliced :=
  let lo_end := match lo with Some l => l <? 0 | None => false end in
  let lo' := match lo with Some l => l | None => 0 end in
  let hi_end := match hi with Some h => h <? 0 | None => true end in
  let hi' := match hi with Some h => h | None => 0 end in
  if Bool.eqb lo_end hi_end
  then let width := Z.max (hi' - lo') 0 in
       if width <=? cap then Ok (RList (repeat x (Z.to_nat width))) else Err EValue
  else if lo_end then Ok (RList []) else Ok RSelf.
End RepeatSlice.

(* ---- lazy_map / lazy_filter with a callback that may raise: the error is yielded once as
   the stream's last item, after which the adaptor is stopped (self.0 = Err(e); next() of an
   Err state is None).  Items are results: Ok value | Err class. ---- *)
Section Erroring.
Context {St E F : Type}.
Variable step : St -> option E * St.
Variable f : E -> outcome F.
Definition emap_step (a : @adapted St) : option (outcome F) * @adapted St :=
  match a with
  | AStopped => (None, AStopped)
  | AOk s => match step s with
             | (Some e, s') => match f e with
                               | Ok y => (Some (Ok y), AOk s')
                               | o => (Some o, AStopped)
                               end
             | (None, _) => (None, AStopped)
             end
  end.
Variable p : E -> outcome bool.
Fixpoint efilter_loop (fuel : nat) (s : St) : outcome (option (outcome E) * @adapted St) :=
  match fuel with
  | O => OutOfFuel
  | S k => match step s with
           | (Some e, s') => match p e with
                             | Ok true => Ok (Some (Ok e), AOk s')
                             | Ok false => efilter_loop k s'
                             | Err c => Ok (Some (Err c), AStopped)
                             | Panic => Panic
                             | OutOfFuel => OutOfFuel
                             end
           | (None, _) => Ok (None, AStopped)
           end
  end.
End Erroring.
(* collect::<NRes<Vec<_>>>(): the values, or the first error *)
Fixpoint collect {F} (l : list (outcome F)) : outcome (list F) :=
  match l with
  | [] => Ok []
  | o :: r => y <- o ;; ys <- collect r ;; Ok (y :: ys)
  end.
