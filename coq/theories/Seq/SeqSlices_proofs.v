(* C13 - window / prefixes / suffixes / group are the slices the documentation describes. *)
From Coq Require Import List Bool Arith Lia.
From NV Require Import Seq.SeqLib.
Import ListNotations.

Section Slices.
  Variable A : Type.
  Implicit Types xs : list A.

  (* ---------------------------------------------------------------- window *)
  Lemma windows_length : forall n xs, 0 < n -> length (windows n xs) = length xs + 1 - n.
  Proof.
    intros n xs Hn. induction xs as [|x t IH]; cbn [windows]; [cbn [length]; lia|].
    destruct (Nat.leb_spec n (length (x :: t))) as [H|H]; cbn [length] in *; [rewrite IH|]; lia.
  Qed.

  Lemma windows_nth : forall n xs i, 0 < n -> i < length (windows n xs) ->
    nth i (windows n xs) [] = firstn n (skipn i xs).
  Proof.
    intros n xs i Hn. revert i. induction xs as [|x t IH]; intros i Hi; cbn [windows] in *; [simpl in Hi; lia|].
    destruct (Nat.leb_spec n (length (x :: t))) as [H|H]; [|simpl in Hi; lia].
    destruct i as [|j]; [reflexivity|]. cbn [nth skipn]. apply IH. simpl in Hi. lia.
  Qed.

  Theorem window_spec : forall n xs,
    (n = 0 -> sl_window n xs = None) /\
    (0 < n -> exists ws, sl_window n xs = Some ws /\ length ws = length xs + 1 - n /\
       forall i, i < length ws -> nth i ws [] = firstn n (skipn i xs) /\ length (nth i ws []) = n).
  Proof.
    intros n xs. unfold sl_window. split; [intros ->; reflexivity|]. intros Hn.
    destruct (Nat.eqb_spec n 0); [lia|]. eexists; split; [reflexivity|]. split; [now apply windows_length|].
    intros i Hi. split; [now apply windows_nth|]. rewrite windows_nth by assumption.
    rewrite windows_length in Hi by assumption. rewrite firstn_length, skipn_length. lia.
  Qed.

  (* ---------------------------------------------------------------- prefixes / suffixes *)
  Lemma prefixes_length : forall xs, length (sl_prefixes xs) = S (length xs).
  Proof. induction xs; simpl; [reflexivity|]. now rewrite map_length, IHxs. Qed.

  Lemma prefixes_nth : forall xs i, i <= length xs -> nth i (sl_prefixes xs) [] = firstn i xs.
  Proof.
    induction xs as [|x t IH]; intros i Hi.
    - simpl in Hi. assert (i = 0) by lia. subst. reflexivity.
    - destruct i as [|j]; [reflexivity|]. cbn [sl_prefixes nth firstn].
      rewrite nth_indep with (d' := (cons x) []) by (rewrite map_length, prefixes_length; simpl in Hi; lia).
      rewrite map_nth. f_equal. apply IH. simpl in Hi. lia.
  Qed.

  Lemma tails_length : forall xs, length (tails xs) = S (length xs).
  Proof. induction xs; simpl; auto. Qed.

  Lemma tails_nth : forall xs j, j <= length xs -> nth j (tails xs) [] = skipn j xs.
  Proof.
    induction xs as [|x t IH]; intros j Hj.
    - simpl in Hj. assert (j = 0) by lia. subst. reflexivity.
    - destruct j as [|j]; [reflexivity|]. cbn [tails nth skipn]. apply IH. simpl in Hj. lia.
  Qed.

  Theorem prefixes_suffixes_spec : forall xs,
    length (sl_prefixes xs) = S (length xs) /\
    (forall i, i <= length xs -> nth i (sl_prefixes xs) [] = firstn i xs) /\
    length (sl_suffixes xs) = S (length xs) /\
    (forall i, i <= length xs -> nth i (sl_suffixes xs) [] = skipn (length xs - i) xs).
  Proof.
    intros xs. split; [apply prefixes_length|]. split; [apply prefixes_nth|].
    unfold sl_suffixes. split; [now rewrite rev_length, tails_length|].
    intros i Hi. rewrite rev_nth by (rewrite tails_length; lia). rewrite tails_length.
    replace (S (length xs) - S i) with (length xs - i) by lia. apply tails_nth. lia.
  Qed.

  (* ---------------------------------------------------------------- group(xs, n) *)
  Lemma chunks_nil : forall fuel n, chunks fuel n (@nil A) = [].
  Proof. destruct fuel; reflexivity. Qed.

  Lemma chunks_spec : forall fuel n xs, 0 < n -> length xs <= fuel ->
    concat (chunks fuel n xs) = xs /\
    (forall g, In g (chunks fuel n xs) -> 0 < length g <= n) /\
    (forall i, S i < length (chunks fuel n xs) -> length (nth i (chunks fuel n xs) []) = n) /\
    (length xs mod n = 0 -> forall g, In g (chunks fuel n xs) -> length g = n).
  Proof.
    induction fuel as [|f IH]; intros n xs Hn Hl.
    - destruct xs; [|cbn [length] in Hl; lia]. cbn [chunks concat length In].
      split; [reflexivity|]. split; [intros g []|]. split; [intros i Hi; lia|intros _ g []].
    - destruct xs as [|x t].
      { cbn [chunks concat length In]. split; [reflexivity|]. split; [intros g []|]. split; [intros i Hi; lia|intros _ g []]. }
      cbn [chunks]. set (xs := x :: t) in *.
      assert (Hxs : 0 < length xs) by (subst xs; cbn [length]; lia).
      assert (Hs : length (skipn n xs) <= f) by (rewrite skipn_length; subst xs; cbn [length] in *; lia).
      destruct (IH n (skipn n xs) Hn Hs) as (C & G & F & D).
      split; [|split; [|split]].
      + cbn [concat]. rewrite C. apply firstn_skipn.
      + intros g [<-|Hg]; [|auto]. rewrite firstn_length. lia.
      + intros i Hi. destruct i as [|j].
        * cbn [nth]. rewrite firstn_length. cbn [length] in Hi.
          destruct (skipn n xs) as [|y u] eqn:E; [rewrite chunks_nil in Hi; cbn [length] in Hi; lia|].
          assert (H0 : length (skipn n xs) > 0) by (rewrite E; cbn [length]; lia). rewrite skipn_length in H0. lia.
        * cbn [nth]. apply F. cbn [length] in Hi. lia.
      + intros Hm g [<-|Hg].
        * rewrite firstn_length. apply Nat.min_l.
          destruct (Nat.le_gt_cases n (length xs)) as [Hle|Hgt]; auto.
          rewrite Nat.mod_small in Hm by lia. lia.
        * apply D; auto. rewrite skipn_length.
          destruct (Nat.le_gt_cases n (length xs)) as [Hle|Hgt].
          -- rewrite <- (Nat.mod_add _ 1 n) by lia. replace (length xs - n + 1 * n) with (length xs) by lia. exact Hm.
          -- replace (length xs - n) with 0 by lia. apply Nat.mod_0_l. lia.
  Qed.

  Theorem group_concat : forall n xs,
    (n = 0 -> sl_group n xs = None /\ sl_group_strict n xs = None) /\
    (0 < n -> exists gs, sl_group n xs = Some gs /\ concat gs = xs /\
       (forall g, In g gs -> 0 < length g <= n) /\
       (forall i, S i < length gs -> length (nth i gs []) = n) /\
       sl_group_strict n xs = (if length xs mod n =? 0 then Some gs else None) /\
       (length xs mod n = 0 -> forall g, In g gs -> length g = n)).
  Proof.
    intros n xs. unfold sl_group, sl_group_strict. split; [intros ->; split; reflexivity|]. intros Hn.
    destruct (Nat.eqb_spec n 0); [lia|].
    destruct (chunks_spec (length xs) n xs Hn (le_n _)) as (C & G & F & D).
    eexists; split; [reflexivity|]. repeat split; auto; apply G; auto.
  Qed.

  (* ---------------------------------------------------------------- group(xs, r) *)
  Variable r : A -> A -> bool.

  (* every adjacent pair of g is related *)
  Fixpoint chain (g : list A) : Prop :=
    match g with
    | x :: ((y :: _) as t) => r x y = true /\ chain t
    | _ => True
    end.
  (* between consecutive groups the relation fails: (last of one, first of the next) *)
  Fixpoint breaks (gs : list (list A)) : Prop :=
    match gs with
    | g1 :: ((g2 :: _) as t) => match g2 with b :: _ => r (last g1 b) b = false | [] => True end /\ breaks t
    | _ => True
    end.

  Theorem group_by_adjacent : forall xs,
    concat (sl_group_by r xs) = xs /\
    Forall (fun g => g <> []) (sl_group_by r xs) /\
    Forall chain (sl_group_by r xs) /\
    breaks (sl_group_by r xs).
  Proof.
    induction xs as [|x t (C & N & H & B)]; [simpl; repeat split; constructor|].
    cbn [sl_group_by]. destruct (sl_group_by r t) as [|[|y g] gs] eqn:E.
    - simpl in C. subst t. simpl. repeat split; repeat constructor. discriminate.
    - inversion N; subst. congruence.
    - destruct (r x y) eqn:Er.
      + split; [simpl in *; now rewrite <- C|]. split; [|split].
        * constructor; [discriminate|]. inversion N; auto.
        * inversion H; subst. constructor; auto. simpl. auto.
        * destruct gs as [|g2 gs']; [exact I|]. cbn [breaks] in *. destruct B as [B1 B2]. split; auto.
      + split; [simpl in *; now rewrite <- C|]. split; [|split].
        * constructor; [discriminate|auto].
        * constructor; [exact I|auto].
        * cbn [breaks]. split; auto.
  Qed.
End Slices.
Arguments chain {A} r g.
Arguments breaks {A} r gs.
