(* C10 proofs, second part: tail/butlast/take/drop/uncons/unsnoc/only agree with the
   corresponding index or slice expression, for every list and every machine-word count. *)
From Coq Require Import ZArith List Bool Lia.
From NV Require Import Common.Outcome Common.MachineInt Seq.Index Seq.IndexSpec Seq.Index_proofs Seq.Accessors.
Import ListNotations.
Open Scope Z_scope.
Ltac Zify.zify_post_hook ::= Z.div_mod_to_equations.

Section Proofs.
Context {A : Type}.
Implicit Types xs : list A.

Lemma in_i64_small z : -2 <= z <= 2 -> in_i64 z.
Proof. unfold in_i64, i64_min, i64_max. lia. Qed.

(* Python's selection as firstn/skipn, for bounds of either sign *)
Lemma py_slice_firstn_skipn xs lo hi :
  let len := zlength xs in
  let l := match lo with Some l => py_bound len l | None => 0 end in
  let h := match hi with Some h => py_bound len h | None => len end in
  py_slice xs lo hi = firstn (Z.to_nat (h - Z.max 0 l)) (skipn (Z.to_nat l) xs).
Proof.
  intros len l h. unfold py_slice. fold len. fold l. fold h.
  rewrite (select_ext 0 (fun k => (l <=? k) && (k <? h)) (fun k => (Z.max 0 l <=? k) && (k <? h))).
  - rewrite select_from_range by lia. rewrite Z.sub_0_r.
    replace (Z.to_nat (Z.max 0 l)) with (Z.to_nat l) by lia. reflexivity.
  - intros k Hk. f_equal.
    destruct (Z.leb_spec l k); destruct (Z.leb_spec (Z.max 0 l) k); try reflexivity; lia.
Qed.

(* ---------- take / drop: a partition of the list at Python's reading of the count ---------- *)
Theorem take_drop_python xs n : fits xs -> in_i64 n ->
  let k := Z.to_nat (py_bound (zlen xs) n) in
  take_list xs (IInt n) = Ok (firstn k xs) /\ drop_list xs (IInt n) = Ok (skipn k xs).
Proof.
  intros Hf Hn k. unfold take_list, drop_list.
  change (Some (IInt n)) with (obound (Some n)). change (@None idx) with (obound None).
  rewrite !slice_python by (assumption || exact I).
  rewrite !py_slice_firstn_skipn. cbv zeta.
  change (@zlength A xs) with (zlen xs). fold k. split; f_equal.
  - cbn [skipn Z.to_nat]. rewrite Z.max_id, Z.sub_0_r. reflexivity.
  - apply firstn_all2. rewrite skipn_length. subst k. unfold zlen. lia.
Qed.

Corollary take_drop_partition xs n : fits xs -> in_i64 n ->
  exists a b, take_list xs (IInt n) = Ok a /\ drop_list xs (IInt n) = Ok b /\ a ++ b = xs.
Proof.
  intros Hf Hn. destruct (take_drop_python xs n Hf Hn) as [Ht Hd].
  eexists; eexists. split; [exact Ht|]. split; [exact Hd|]. apply firstn_skipn.
Qed.

Theorem take_drop_are_slices xs n : fits xs -> in_i64 n ->
  take_list xs (IInt n) = Ok (py_slice xs None (Some n)) /\
  drop_list xs (IInt n) = Ok (py_slice xs (Some n) None).
Proof.
  intros Hf Hn. unfold take_list, drop_list.
  change (Some (IInt n)) with (obound (Some n)). change (@None idx) with (obound None).
  split; apply slice_python; assumption || exact I.
Qed.

Theorem take_drop_non_integer xs :
  take_list xs INonInt = Err EIndex /\ drop_list xs INonInt = Err EIndex /\
  take_list xs INonNum = Err EIndex /\ drop_list xs INonNum = Err EIndex.
Proof. repeat split; reflexivity. Qed.

(* ---------- tail / butlast ---------- *)
Theorem tail_butlast_python xs : fits xs ->
  tail_list xs = Ok (tl xs) /\ butlast_list xs = Ok (removelast xs).
Proof.
  intros Hf. split.
  - destruct (take_drop_python xs 1 Hf (in_i64_small 1 ltac:(lia))) as [_ Hd].
    unfold tail_list. unfold drop_list in Hd. rewrite Hd. unfold py_bound. cbn [Z.ltb Z.compare Z.to_nat Pos.to_nat Pos.iter_op Nat.add].
    destruct xs; reflexivity.
  - destruct (take_drop_python xs (-1) Hf (in_i64_small (-1) ltac:(lia))) as [Ht _].
    unfold butlast_list. unfold take_list in Ht. rewrite Ht. unfold py_bound. cbn [Z.ltb Z.compare].
    rewrite removelast_firstn_len. f_equal. f_equal. unfold zlen. lia.
Qed.

(* ---------- uncons / unsnoc / only ---------- *)
Lemma index0_cons (x : A) r : fits (x :: r) -> index_list (x :: r) (IInt 0) = Ok x.
Proof.
  intros Hf. rewrite index_python by assumption. unfold py_index, zlength. cbn [length].
  destruct (Z.ltb_spec 0 (Z.of_nat (S (length r)))); [|lia]. reflexivity.
Qed.

Lemma index_last_snoc ys (e : A) : fits (ys ++ [e]) -> index_list (ys ++ [e]) (IInt (-1)) = Ok e.
Proof.
  intros Hf. rewrite index_python by assumption. unfold py_index, zlength.
  rewrite app_length. cbn [length].
  destruct (Z.leb_spec 0 (-1)); [lia|]. cbn [andb].
  destruct (Z.leb_spec (- Z.of_nat (length ys + 1)) (-1)); [|lia].
  destruct (Z.ltb_spec (-1) 0); [|lia]. cbn [andb].
  replace (Z.to_nat (Z.of_nat (length ys + 1) + -1)) with (length ys) by lia.
  rewrite nth_error_app2 by lia. rewrite Nat.sub_diag. reflexivity.
Qed.

Theorem uncons_is_index_and_tail xs : fits xs ->
  uncons_builtin xs = (a <- index_list xs (IInt 0) ;; t <- tail_list xs ;; Ok (a, t)).
Proof.
  intros Hf. destruct (tail_butlast_python xs Hf) as [Ht _]. rewrite Ht.
  destruct xs as [|x r].
  - reflexivity.
  - rewrite index0_cons by assumption. unfold uncons_builtin, uncons_fn, vec_remove0.
    destruct (Z.eqb_spec (zlen (x :: r)) 0) as [E|_]; [unfold zlen in E; cbn [length] in E; lia|].
    reflexivity.
Qed.

Lemma nil_or_snoc xs : xs = [] \/ exists ys e, xs = ys ++ [e].
Proof.
  destruct xs as [|x r]; [left; reflexivity|right].
  destruct (exists_last (l := x :: r)) as [ys [e E]]; [discriminate|]. exists ys, e. exact E.
Qed.

Lemma vec_pop_snoc ys (e : A) : vec_pop (ys ++ [e]) = Some (ys, e).
Proof. unfold vec_pop. rewrite rev_app_distr. cbn [rev app]. rewrite rev_involutive. reflexivity. Qed.

Theorem unsnoc_is_index_and_butlast xs : fits xs ->
  unsnoc_builtin xs = (a <- index_list xs (IInt (-1)) ;; t <- butlast_list xs ;; Ok (t, a)).
Proof.
  intros Hf. destruct (tail_butlast_python xs Hf) as [_ Hb]. rewrite Hb.
  destruct (nil_or_snoc xs) as [->|[ys [e ->]]].
  - reflexivity.
  - rewrite index_last_snoc by assumption. unfold unsnoc_builtin, unsnoc_fn.
    rewrite vec_pop_snoc, removelast_last. reflexivity.
Qed.

Theorem only_spec xs : fits xs ->
  only_list xs = match xs with [a] => Ok a | _ => Err EIndex end.
Proof.
  intros Hf. unfold only_list. destruct xs as [|a [|b r]].
  - reflexivity.
  - change (zlen [a] =? 1) with true. cbv iota.
    destruct (first_last_are_indices [a] Hf) as [H0 _]. rewrite H0. apply index0_cons. assumption.
  - destruct (Z.eqb_spec (zlen (a :: b :: r)) 1) as [E|_]; [unfold zlen in E; cbn [length] in E; lia|].
    reflexivity.
Qed.

Corollary only_is_index xs a : fits xs -> only_list xs = Ok a -> index_list xs (IInt 0) = Ok a /\ length xs = 1%nat.
Proof.
  intros Hf. rewrite only_spec by assumption. destruct xs as [|x [|y r]]; try discriminate.
  intros H. injection H as ->. split; [apply index0_cons; assumption | reflexivity].
Qed.

Theorem accessors_no_panic xs n : fits xs ->
  tail_list xs <> Panic /\ butlast_list xs <> Panic /\ take_list xs n <> Panic /\ drop_list xs n <> Panic /\
  uncons_builtin xs <> Panic /\ unsnoc_builtin xs <> Panic /\ only_list xs <> Panic.
Proof.
  intros Hf. repeat split; try (apply slice_no_panic; assumption).
  - rewrite uncons_is_index_and_tail by assumption. destruct (tail_butlast_python xs Hf) as [-> _].
    pose proof (index_no_panic xs (IInt 0) Hf). destruct (index_list xs (IInt 0)); try discriminate; congruence.
  - rewrite unsnoc_is_index_and_butlast by assumption. destruct (tail_butlast_python xs Hf) as [_ ->].
    pose proof (index_no_panic xs (IInt (-1)) Hf). destruct (index_list xs (IInt (-1))); try discriminate; congruence.
  - rewrite only_spec by assumption. destruct xs as [|a [|b r]]; discriminate.
Qed.

(* ---------- streams ---------- *)
Theorem stream_accessors_as_list xs n : fits xs -> in_i64 n ->
  omap sliced_elems (tail_stream xs) = tail_list xs /\
  omap sliced_elems (butlast_stream xs) = butlast_list xs /\
  omap sliced_elems (take_stream xs (IInt n)) = take_list xs (IInt n) /\
  omap sliced_elems (drop_stream xs (IInt n)) = drop_list xs (IInt n) /\
  uncons_stream xs = uncons_builtin xs /\
  unsnoc_stream xs = unsnoc_builtin xs /\
  only_stream xs = only_list xs.
Proof.
  intros Hf Hn.
  pose proof (fun lo hi => stream_slice_as_list xs lo hi Hf) as S.
  repeat split.
  - exact (S (Some 1) None (in_i64_small 1 ltac:(lia)) I).
  - exact (S None (Some (-1)) I (in_i64_small (-1) ltac:(lia))).
  - exact (S None (Some n) I Hn).
  - exact (S (Some n) None Hn I).
  - rewrite uncons_is_index_and_tail by assumption. destruct (tail_butlast_python xs Hf) as [-> _].
    destruct xs as [|x r]; [reflexivity|]. rewrite index0_cons by assumption. reflexivity.
  - unfold only_stream, only_list.
    destruct (zlen xs =? 1); [|reflexivity].
    pose proof (stream_index_as_list xs (IInt 0) Hf) as H.
    unfold stream_index, index_list, pythonic_index in H. unfold linear_index_isize.
    change (to_isize (IInt 0)) with (Some 0) in H. exact H.
Qed.

(* a stream's tail / drop of a non-negative count stays a stream of the remaining elements: nothing is forced *)
Theorem stream_tail_drop_lazy xs n : 0 <= n -> in_i64 n ->
  tail_stream xs = Ok (SStream (tl xs)) /\ drop_stream xs (IInt n) = Ok (SStream (skipn (Z.to_nat n) xs)).
Proof.
  intros Hn Hi. split.
  - destruct xs as [|x [|y r]]; reflexivity.
  - unfold drop_stream, stream_slice, obj_to_isize_slice_index, to_isize.
    apply in_i64b_spec in Hi. rewrite Hi. cbn [bind]. unfold stream_slice_isize.
    destruct (Z.leb_spec 0 n); [|lia]. rewrite advance_skipn by assumption. reflexivity.
Qed.
End Proofs.
