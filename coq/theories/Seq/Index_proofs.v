From Coq Require Import ZArith List Bool Lia.
From NV Require Import Common.Outcome Common.MachineInt Seq.Index Seq.IndexSpec.
Import ListNotations.
Open Scope Z_scope.
Ltac Zify.zify_post_hook ::= Z.div_mod_to_equations.

Section Proofs.
Context {A : Type}.
Implicit Types xs : list A.

Definition fits xs : Prop := zlen xs <= i64_max.

Lemma zlen_zlength xs : zlen xs = zlength xs. Proof. reflexivity. Qed.
Lemma zlen_nonneg xs : 0 <= zlen xs. Proof. unfold zlen. lia. Qed.

Lemma wrap_i64_cases z :
  i64_min + i64_min <= z <= i64_max + i64_max ->
  (in_i64 z /\ wrap_i64 z = z) \/ (z > i64_max /\ wrap_i64 z = z - 2 ^ 64) \/
  (z < i64_min /\ wrap_i64 z = z + 2 ^ 64).
Proof.
  unfold wrap_i64, as_i64, in_i64, i64_min, i64_max, u64_mod. intros.
  destruct (Z.ltb_spec (z mod 2 ^ 64) (2 ^ 63)); lia.
Qed.

(* ---------- pythonic_index_isize ---------- *)
Lemma pythonic_index_isize_spec len n :
  0 <= len <= i64_max -> in_i64 n ->
  pythonic_index_isize len n =
    if (0 <=? n) && (n <? len) then Ok n
    else if (- len <=? n) && (n <? 0) then Ok (len + n) else Err EIndex.
Proof.
  intros Hl Hn. unfold pythonic_index_isize.
  destruct ((0 <=? n) && (n <? len)) eqn:E1; [reflexivity|].
  assert (Hw := wrap_i64_cases (n + len)).
  unfold in_i64, i64_min, i64_max in *.
  destruct Hw as [[Hr Hw]|[[Hr Hw]|[Hr Hw]]]; try lia; rewrite Hw.
  - destruct ((- len <=? n) && (n <? 0)) eqn:E2.
    + apply andb_true_iff in E2. destruct E2 as [E2 E3].
      apply Z.leb_le in E2. apply Z.ltb_lt in E3.
      rewrite as_usize_nonneg by (unfold i64_max; lia).
      destruct (Z.ltb_spec (n + len) len); [f_equal; lia | lia].
    + apply andb_false_iff in E1. apply andb_false_iff in E2.
      destruct (Z_lt_le_dec (n + len) 0).
      * rewrite as_usize_neg by (unfold i64_min; lia).
        destruct (Z.ltb_spec (n + len + 2 ^ 64) len); [lia | reflexivity].
      * rewrite as_usize_nonneg by (unfold i64_max; lia).
        destruct (Z.ltb_spec (n + len) len); [|reflexivity].
        exfalso. destruct E1 as [E1|E1]; destruct E2 as [E2|E2];
        rewrite ?Z.leb_gt, ?Z.ltb_ge in *; lia.
  - (* overflowed upward: n >= len, wrapped value negative *)
    rewrite as_usize_neg by (unfold i64_min; lia).
    destruct ((- len <=? n) && (n <? 0)) eqn:E2.
    + apply andb_true_iff in E2. destruct E2 as [_ E3]. apply Z.ltb_lt in E3. lia.
    + destruct (Z.ltb_spec (n + len - 2 ^ 64 + 2 ^ 64) len); [lia | reflexivity].
Qed.

Lemma nth_error_Some_lt xs k : 0 <= k < zlen xs -> exists a, nth_error xs (Z.to_nat k) = Some a.
Proof.
  intros H. destruct (nth_error xs (Z.to_nat k)) eqn:E; [eauto|].
  apply nth_error_None in E. unfold zlen in H. lia.
Qed.

Lemma rust_get_in xs k : 0 <= k < zlen xs ->
  rust_get xs k = match nth_error xs (Z.to_nat k) with Some a => Ok a | None => Panic end
  /\ exists a, nth_error xs (Z.to_nat k) = Some a.
Proof.
  intros H. unfold rust_get. destruct (Z.leb_spec 0 k); [|lia].
  split; [reflexivity | apply nth_error_Some_lt; assumption].
Qed.

Definition opt_out (o : option A) : outcome A :=
  match o with Some a => Ok a | None => Err EIndex end.

(* ---------- Theorem: index_python ---------- *)
Theorem index_python xs (z : Z) : fits xs ->
  index_list xs (IInt z) = opt_out (py_index xs z).
Proof.
  intros Hf. unfold index_list, pythonic_index, to_isize, py_index.
  change (@zlength A xs) with (zlen xs); cbv zeta. pose proof (zlen_nonneg xs) as Hl. unfold fits in Hf.
  destruct (in_i64b z) eqn:Ez.
  - apply in_i64b_spec in Ez.
    rewrite pythonic_index_isize_spec by (auto; lia).
    destruct ((0 <=? z) && (z <? zlen xs)) eqn:E1.
    + apply andb_true_iff in E1. destruct E1 as [E1 E2].
      apply Z.leb_le in E1. apply Z.ltb_lt in E2. cbn [bind].
      destruct (rust_get_in xs z) as [-> [a ->]]; [lia|]. reflexivity.
    + destruct ((- zlen xs <=? z) && (z <? 0)) eqn:E2; [|reflexivity].
      apply andb_true_iff in E2. destruct E2 as [E2 E3].
      apply Z.leb_le in E2. apply Z.ltb_lt in E3. cbn [bind].
      destruct (rust_get_in xs (zlen xs + z)) as [-> [a ->]]; [lia|]. reflexivity.
  - (* does not fit isize: error; the spec also has no such position *)
    assert (~ in_i64 z) as Hn by (rewrite <- in_i64b_spec; congruence).
    unfold in_i64, i64_min, i64_max in *.
    destruct ((0 <=? z) && (z <? zlen xs)) eqn:E1.
    { apply andb_true_iff in E1. destruct E1 as [E1 E2].
      apply Z.leb_le in E1. apply Z.ltb_lt in E2. lia. }
    destruct ((- zlen xs <=? z) && (z <? 0)) eqn:E2; [|reflexivity].
    apply andb_true_iff in E2. destruct E2 as [E2 E3].
    apply Z.leb_le in E2. apply Z.ltb_lt in E3. lia.
Qed.

Theorem index_non_integer xs : index_list xs INonInt = Err EIndex /\ index_list xs INonNum = Err EIndex.
Proof. split; reflexivity. Qed.

Corollary index_no_panic xs i : fits xs -> index_list xs i <> Panic.
Proof.
  intros Hf. destruct i as [z| |]; try discriminate.
  rewrite index_python by assumption. destruct (py_index xs z); discriminate.
Qed.

(* ---------- slices ---------- *)
Lemma select_all_false s (p : Z -> bool) xs :
  (forall k, s <= k -> p k = false) -> select_from s p xs = [].
Proof.
  revert s. induction xs as [|x r IH]; intros s H; cbn [select_from]; [reflexivity|].
  rewrite H by lia. apply IH. intros k Hk. apply H. lia.
Qed.

Lemma select_from_firstn xs s a b : a <= s ->
  select_from s (fun k => (a <=? k) && (k <? b)) xs = firstn (Z.to_nat (b - s)) xs.
Proof.
  revert s. induction xs as [|x r IH]; intros s Hs; cbn [select_from].
  - rewrite firstn_nil. reflexivity.
  - destruct (Z.leb_spec a s); [|lia]. cbn [andb].
    destruct (Z.ltb_spec s b).
    + replace (Z.to_nat (b - s)) with (S (Z.to_nat (b - (s + 1)))) by lia.
      cbn [firstn]. f_equal. apply IH. lia.
    + replace (Z.to_nat (b - s)) with O by lia. cbn [firstn].
      apply select_all_false. intros k Hk.
      destruct (Z.ltb_spec k b); [lia|]. apply andb_false_r.
Qed.

Lemma select_from_range xs s a b : s <= a ->
  select_from s (fun k => (a <=? k) && (k <? b)) xs =
  firstn (Z.to_nat (b - a)) (skipn (Z.to_nat (a - s)) xs).
Proof.
  revert s. induction xs as [|x r IH]; intros s Hs.
  - cbn [select_from]. rewrite skipn_nil, firstn_nil. reflexivity.
  - destruct (Z.eq_dec s a) as [->|Hne].
    + rewrite select_from_firstn by lia. replace (Z.to_nat (a - a)) with O by lia. reflexivity.
    + cbn [select_from]. destruct (Z.leb_spec a s); [lia|]. cbn [andb].
      replace (Z.to_nat (a - s)) with (S (Z.to_nat (a - (s + 1)))) by lia.
      cbn [skipn]. apply IH. lia.
Qed.

Lemma clamped_spec len i : 0 <= len <= i64_max -> in_i64 i ->
  clamped_pythonic_index len i = Ok (Z.max 0 (Z.min len (py_bound len i))).
Proof.
  intros Hl Hi. unfold clamped_pythonic_index, py_bound, add_i64, chk_i64.
  unfold in_i64, i64_min, i64_max in *.
  destruct (Z.leb_spec 0 i).
  - destruct (Z.ltb_spec i 0); [lia|]. f_equal. lia.
  - destruct (Z.ltb_spec i 0); [|lia].
    assert (in_i64b (i + len) = true) as ->
      by (apply in_i64b_spec; unfold in_i64, i64_min, i64_max; lia).
    cbn [bind]. f_equal. destruct (Z.ltb_spec (i + len) 0); lia.
Qed.

Lemma select_ext s (p q : Z -> bool) xs :
  (forall k, s <= k < s + zlen xs -> p k = q k) -> select_from s p xs = select_from s q xs.
Proof.
  revert s. induction xs as [|x r IH]; intros s H; cbn [select_from]; [reflexivity|].
  unfold zlen in H. cbn [length] in H.
  rewrite (H s) by lia. rewrite (IH (s + 1)); [reflexivity|].
  intros k Hk. apply H. unfold zlen in Hk. lia.
Qed.

Definition obound (o : option Z) : option idx := option_map IInt o.
Definition all_i64 (o : option Z) : Prop := match o with Some z => in_i64 z | None => True end.

(* ---------- Theorem: slice_python ---------- *)
Theorem slice_python xs (lo hi : option Z) : fits xs -> all_i64 lo -> all_i64 hi ->
  slice_list xs (obound lo) (obound hi) = Ok (py_slice xs lo hi).
Proof.
  intros Hf Hlo Hhi. unfold fits in Hf. pose proof (zlen_nonneg xs) as Hl.
  unfold slice_list, pythonic_slice_obj.
  assert (Hconv : forall o, all_i64 o -> obj_to_isize_slice_index (obound o) = Ok o).
  { intros [z|] H; cbn; [|reflexivity]. apply in_i64b_spec in H. rewrite H. reflexivity. }
  rewrite (Hconv lo Hlo), (Hconv hi Hhi). cbn [bind].
  unfold pythonic_slice.
  set (L := match lo with Some l => py_bound (zlen xs) l | None => 0 end).
  set (H := match hi with Some h => py_bound (zlen xs) h | None => zlen xs end).
  assert (Elo : match lo with Some lo0 => clamped_pythonic_index (zlen xs) lo0 | None => Ok 0 end
                = Ok (Z.max 0 (Z.min (zlen xs) L))).
  { subst L. destruct lo as [l|]; [apply clamped_spec; [lia|exact Hlo]|]. f_equal. lia. }
  assert (Ehi : match hi with Some hi0 => clamped_pythonic_index (zlen xs) hi0 | None => Ok (zlen xs) end
                = Ok (Z.max 0 (Z.min (zlen xs) H))).
  { subst H. destruct hi as [h|]; [apply clamped_spec; [lia|exact Hhi]|]. f_equal. lia. }
  rewrite Elo, Ehi. cbn [bind fst snd].
  set (a := Z.max 0 (Z.min (zlen xs) L)). set (b0 := Z.max 0 (Z.min (zlen xs) H)).
  unfold rust_range.
  assert (((0 <=? a) && (a <=? Z.max b0 a) && (Z.max b0 a <=? zlen xs)) = true) as ->.
  { rewrite !andb_true_iff, !Z.leb_le. subst a b0. lia. }
  f_equal. unfold py_slice. change (@zlength A xs) with (zlen xs); cbv zeta. fold L H.
  rewrite (select_ext 0 _ (fun k => (a <=? k) && (k <? Z.max b0 a))).
  - rewrite select_from_range by (subst a; lia). f_equal. f_equal. lia.
  - intros k Hk. subst a b0.
    destruct (Z.leb_spec L k), (Z.ltb_spec k H),
             (Z.leb_spec (Z.max 0 (Z.min (zlen xs) L)) k),
             (Z.ltb_spec k (Z.max (Z.max 0 (Z.min (zlen xs) H)) (Z.max 0 (Z.min (zlen xs) L))));
    cbn [andb]; try reflexivity; lia.
Qed.

Theorem slice_rejects_out_of_word xs z (other : option idx) :
  ~ in_i64 z ->
  slice_list xs (Some (IInt z)) other = Err EIndex /\
  (forall lo, all_i64 lo -> slice_list xs (obound lo) (Some (IInt z)) = Err EIndex).
Proof.
  intros Hn. assert (in_i64b z = false) as E.
  { destruct (in_i64b z) eqn:E; [|reflexivity]. apply in_i64b_spec in E. contradiction. }
  split.
  - unfold slice_list, pythonic_slice_obj. cbn. rewrite E. reflexivity.
  - intros lo Hlo. unfold slice_list, pythonic_slice_obj.
    destruct lo as [l|]; cbn.
    + apply in_i64b_spec in Hlo. rewrite Hlo. cbn. rewrite E. reflexivity.
    + rewrite E. reflexivity.
Qed.

Corollary slice_no_panic xs lo hi : fits xs -> slice_list xs lo hi <> Panic.
Proof.
  intros Hf.
  assert (Hc : forall o : option idx,
     (exists z, all_i64 z /\ o = obound z) \/ obj_to_isize_slice_index o = Err EIndex).
  { intros [[z| |]|]; cbn.
    - destruct (in_i64b z) eqn:E; [left; exists (Some z); split; [apply in_i64b_spec; exact E|reflexivity]|right; reflexivity].
    - right; reflexivity.
    - right; reflexivity.
    - left. exists None. split; [exact I|reflexivity]. }
  destruct (Hc lo) as [[zl [Hl ->]]|El].
  - destruct (Hc hi) as [[zh [Hh ->]]|Eh].
    + rewrite slice_python by assumption. discriminate.
    + unfold slice_list, pythonic_slice_obj.
      assert (obj_to_isize_slice_index (obound zl) = Ok zl) as ->.
      { destruct zl as [z|]; cbn; [|reflexivity]. apply in_i64b_spec in Hl. rewrite Hl. reflexivity. }
      cbn [bind]. rewrite Eh. discriminate.
  - unfold slice_list, pythonic_slice_obj. rewrite El. discriminate.
Qed.

(* ---------- accessors ---------- *)
Theorem first_last_are_indices xs : fits xs ->
  linear_index_isize xs 0 = index_list xs (IInt 0) /\
  linear_index_isize xs 1 = index_list xs (IInt 1) /\
  linear_index_isize xs 2 = index_list xs (IInt 2) /\
  linear_index_isize xs (-1) = index_list xs (IInt (-1)).
Proof. intros _. repeat split; reflexivity. Qed.

Theorem safe_index_spec xs z : fits xs ->
  safe_index xs (IInt z) =
  Ok (if (0 <=? z) && (z <? zlen xs) then nth_error xs (Z.to_nat z) else None).
Proof.
  intros Hf. unfold fits, i64_max in Hf. unfold safe_index, to_usize.
  destruct (in_usizeb z) eqn:E.
  - apply in_usizeb_spec in E. unfold in_usize, usize_max in E.
    destruct (Z.leb_spec 0 z); [|lia]. cbn [andb].
    destruct (Z.ltb_spec z (zlen xs)); [|reflexivity].
    destruct (rust_get_in xs z) as [-> [a ->]]; [lia|]. reflexivity.
  - destruct ((0 <=? z) && (z <? zlen xs)) eqn:E1; [|reflexivity].
    apply andb_true_iff in E1. destruct E1 as [E1 E2]. apply Z.leb_le in E1. apply Z.ltb_lt in E2.
    assert (in_usizeb z = true); [|congruence].
    apply in_usizeb_spec. unfold in_usize, usize_max. lia.
Qed.

Theorem cyclic_index_spec xs z : in_i64 z -> zlen xs <> 0 ->
  exists a, cyclic_index xs (IInt z) = Ok a /\ nth_error xs (Z.to_nat (z mod zlen xs)) = Some a.
Proof.
  intros Hz Hne. unfold cyclic_index, to_isize. apply in_i64b_spec in Hz. rewrite Hz.
  destruct (Z.eqb_spec (zlen xs) 0); [contradiction|].
  pose proof (zlen_nonneg xs).
  destruct (rust_get_in xs (z mod zlen xs)) as [-> [a Ha]]; [lia|].
  exists a. rewrite Ha. split; reflexivity.
Qed.

(* ---------- streams: the default methods agree with the unfolded list ---------- *)
Lemma stream_index_nonneg_spec xs i : 0 <= i ->
  stream_index_nonneg xs i = opt_out (nth_error xs (Z.to_nat i)).
Proof.
  revert i. induction xs as [|x r IH]; intros i Hi; cbn [stream_index_nonneg].
  - destruct (Z.to_nat i); reflexivity.
  - destruct (Z.eqb_spec i 0) as [->|Hne]; [reflexivity|].
    rewrite IH by lia. replace (Z.to_nat i) with (S (Z.to_nat (i - 1))) by lia. reflexivity.
Qed.

Theorem stream_index_as_list xs i : fits xs -> stream_index xs i = index_list xs i.
Proof.
  intros Hf. destruct i as [z| |]; try reflexivity.
  rewrite index_python by assumption.
  unfold stream_index, to_isize, py_index. change (@zlength A xs) with (zlen xs); cbv zeta.
  unfold fits in Hf. pose proof (zlen_nonneg xs) as Hl.
  destruct (in_i64b z) eqn:Ez.
  - apply in_i64b_spec in Ez. unfold stream_index_isize.
    destruct (Z.leb_spec 0 z).
    + rewrite stream_index_nonneg_spec by lia. cbn [andb].
      destruct (Z.ltb_spec z (zlen xs)); [reflexivity|].
      destruct (Z.ltb_spec z 0); [lia|]. rewrite andb_false_r.
      assert (nth_error xs (Z.to_nat z) = None) as -> by (apply nth_error_None; unfold zlen in *; lia).
      reflexivity.
    + cbn [andb]. unfold add_i64, chk_i64. unfold in_i64, i64_min, i64_max in *.
      assert (in_i64b (z + zlen xs) = true) as -> by (apply in_i64b_spec; unfold in_i64, i64_min, i64_max; lia).
      cbn [bind]. destruct (Z.ltb_spec z 0); [|lia]. rewrite andb_true_r.
      destruct (Z.leb_spec (- zlen xs) z).
      * rewrite as_usize_nonneg by (unfold i64_max; lia).
        destruct (Z.ltb_spec (z + zlen xs) (zlen xs)); [|lia].
        destruct (rust_get_in xs (z + zlen xs)) as [-> [a Ha]]; [lia|].
        replace (zlen xs + z) with (z + zlen xs) by lia. rewrite Ha. reflexivity.
      * rewrite as_usize_neg by (unfold i64_min; lia).
        destruct (Z.ltb_spec (z + zlen xs + 2 ^ 64) (zlen xs)); [lia|reflexivity].
  - assert (~ in_i64 z) as Hn by (rewrite <- in_i64b_spec; congruence).
    unfold in_i64, i64_min, i64_max in *.
    destruct (Z.leb_spec 0 z), (Z.ltb_spec z (zlen xs)); cbn [andb]; try lia;
    destruct (Z.leb_spec (- zlen xs) z), (Z.ltb_spec z 0); cbn [andb]; try lia; reflexivity.
Qed.

Lemma advance_skipn xs k : 0 <= k -> advance xs k = skipn (Z.to_nat k) xs.
Proof.
  revert k. induction xs as [|x r IH]; intros k Hk; cbn [advance].
  - rewrite skipn_nil. reflexivity.
  - destruct (Z.leb_spec k 0).
    + replace (Z.to_nat k) with O by lia. reflexivity.
    + rewrite IH by lia. replace (Z.to_nat k) with (S (Z.to_nat (k - 1))) by lia. reflexivity.
Qed.
Lemma take_upto_firstn xs k : take_upto xs k = firstn (Z.to_nat k) xs.
Proof.
  revert k. induction xs as [|x r IH]; intros k; cbn [take_upto].
  - rewrite firstn_nil. reflexivity.
  - destruct (Z.leb_spec k 0).
    + replace (Z.to_nat k) with O by lia. reflexivity.
    + rewrite IH. replace (Z.to_nat k) with (S (Z.to_nat (k - 1))) by lia. reflexivity.
Qed.

Lemma py_slice_nonneg xs lo hi : 0 <= lo -> 0 <= hi ->
  py_slice xs (Some lo) (Some hi) = firstn (Z.to_nat (hi - lo)) (skipn (Z.to_nat lo) xs).
Proof.
  intros Hlo Hhi. unfold py_slice, py_bound.
  destruct (Z.ltb_spec lo 0); [lia|]. destruct (Z.ltb_spec hi 0); [lia|].
  rewrite select_from_range by lia. rewrite Z.sub_0_r. reflexivity.
Qed.
Lemma py_slice_nonneg_open xs lo : 0 <= lo ->
  py_slice xs (Some lo) None = skipn (Z.to_nat lo) xs.
Proof.
  intros Hlo. unfold py_slice, py_bound.
  destruct (Z.ltb_spec lo 0); [lia|].
  rewrite select_from_range by lia. rewrite Z.sub_0_r.
  apply firstn_all2. rewrite skipn_length. unfold zlength. lia.
Qed.

Theorem stream_slice_as_list xs (lo hi : option Z) : fits xs -> all_i64 lo -> all_i64 hi ->
  omap sliced_elems (stream_slice xs (obound lo) (obound hi)) = slice_list xs (obound lo) (obound hi).
Proof.
  intros Hf Hlo Hhi. rewrite slice_python by assumption.
  unfold stream_slice.
  assert (Hconv : forall o, all_i64 o -> obj_to_isize_slice_index (obound o) = Ok o).
  { intros [z|] H; cbn; [|reflexivity]. apply in_i64b_spec in H. rewrite H. reflexivity. }
  rewrite (Hconv lo Hlo), (Hconv hi Hhi). cbn [bind].
  unfold stream_slice_isize.
  set (l0 := match lo with Some l => l | None => 0 end).
  assert (Hl0 : in_i64 l0).
  { subst l0. destruct lo; [exact Hlo|]. unfold in_i64, i64_min, i64_max. lia. }
  assert (Hpl : forall h, py_slice xs lo h = py_slice xs (Some l0) h).
  { intros h. subst l0. destruct lo; [reflexivity|]. unfold py_slice, py_bound. cbn. reflexivity. }
  rewrite Hpl.
  assert (Hgen : forall h, all_i64 h ->
     (ab <- pythonic_slice (zlen xs) (Some l0) h ;; l <- rust_range xs (fst ab) (snd ab) ;; Ok (SList l))
     = Ok (SList (py_slice xs (Some l0) h))).
  { intros h Hh.
    pose proof (slice_python xs (Some l0) h Hf Hl0 Hh) as Hs.
    unfold slice_list, pythonic_slice_obj in Hs.
    rewrite (Hconv (Some l0) Hl0), (Hconv h Hh) in Hs. cbn [bind] in Hs.
    destruct (pythonic_slice (zlen xs) (Some l0) h) as [ab| | |]; cbn [bind] in *; try discriminate.
    destruct (rust_range xs (fst ab) (snd ab)); cbn [bind] in *; try discriminate.
    inversion Hs. reflexivity. }
  destruct hi as [h|].
  - destruct (Z.leb_spec 0 l0), (Z.leb_spec 0 h); cbn [andb].
    + cbn [omap bind sliced_elems]. f_equal.
      rewrite take_upto_firstn, advance_skipn by lia. rewrite py_slice_nonneg by lia. reflexivity.
    + rewrite Hgen by exact Hhi. reflexivity.
    + rewrite Hgen by exact Hhi. reflexivity.
    + rewrite Hgen by exact Hhi. reflexivity.
  - destruct (Z.leb_spec 0 l0).
    + cbn [omap bind sliced_elems]. f_equal.
      rewrite advance_skipn by lia. rewrite py_slice_nonneg_open by lia. reflexivity.
    + rewrite Hgen by exact I. reflexivity.
Qed.

(* ---------- writes address the positions reads do ---------- *)
Lemma set_nth_length xs k v : length (set_nth xs k v) = length xs.
Proof. revert k. induction xs as [|x r IH]; intros [|k]; cbn; auto. Qed.
Lemma set_nth_same xs k v : (k < length xs)%nat -> nth_error (set_nth xs k v) k = Some v.
Proof. revert k. induction xs as [|x r IH]; intros [|k] H; cbn in *; try lia; auto. apply IH. lia. Qed.
Lemma set_nth_other xs k j v : j <> k -> nth_error (set_nth xs k v) j = nth_error xs j.
Proof. revert k j. induction xs as [|x r IH]; intros [|k] [|j] H; cbn; auto; try congruence. Qed.

Lemma index_position xs z : fits xs ->
  (exists k, 0 <= k < zlen xs /\ pythonic_index (zlen xs) (IInt z) = Ok k /\
     py_index xs z = nth_error xs (Z.to_nat k))
  \/ (pythonic_index (zlen xs) (IInt z) = Err EIndex /\ py_index xs z = None).
Proof.
  intros Hf. unfold fits in Hf. pose proof (zlen_nonneg xs) as Hl.
  unfold pythonic_index, to_isize, py_index. change (@zlength A xs) with (zlen xs); cbv zeta.
  destruct (in_i64b z) eqn:Ez.
  - apply in_i64b_spec in Ez. rewrite pythonic_index_isize_spec by (auto; lia).
    destruct ((0 <=? z) && (z <? zlen xs)) eqn:E1.
    + apply andb_true_iff in E1. destruct E1 as [E1 E2]. apply Z.leb_le in E1. apply Z.ltb_lt in E2.
      left. exists z. repeat split; auto; lia.
    + destruct ((- zlen xs <=? z) && (z <? 0)) eqn:E2.
      * apply andb_true_iff in E2. destruct E2 as [E2 E3]. apply Z.leb_le in E2. apply Z.ltb_lt in E3.
        left. exists (zlen xs + z). repeat split; auto; lia.
      * right. split; reflexivity.
  - right. split; [reflexivity|].
    assert (~ in_i64 z) as Hn by (rewrite <- in_i64b_spec; congruence).
    unfold in_i64, i64_min, i64_max in *.
    destruct (Z.leb_spec 0 z), (Z.ltb_spec z (zlen xs)); cbn [andb]; try lia;
    destruct (Z.leb_spec (- zlen xs) z), (Z.ltb_spec z 0); cbn [andb]; try lia; reflexivity.
Qed.

Theorem write_addresses_read xs z v : fits xs ->
  match py_index xs z with
  | None => set_index_list xs (IInt z) v = Err EIndex
  | Some _ =>
    exists ys, set_index_list xs (IInt z) v = Ok ys /\ length ys = length xs /\
      py_index ys z = Some v /\
      (forall j, py_index xs j <> None ->
         (forall k, pythonic_index (zlen xs) (IInt j) = Ok k -> pythonic_index (zlen xs) (IInt z) <> Ok k) ->
         py_index ys j = py_index xs j)
  end.
Proof.
  intros Hf. unfold set_index_list.
  destruct (index_position xs z Hf) as [[k [Hk [Hp Hs]]]|[Hp Hs]].
  - rewrite Hs. destruct (nth_error_Some_lt xs k Hk) as [a Ha]. rewrite Ha.
    rewrite Hp. cbn [bind]. destruct (Z.ltb_spec k (zlen xs)); [|lia].
    exists (set_nth xs (Z.to_nat k) v).
    assert (Hlen : length (set_nth xs (Z.to_nat k) v) = length xs) by apply set_nth_length.
    assert (Hf' : fits (set_nth xs (Z.to_nat k) v)) by (unfold fits, zlen in *; rewrite Hlen; exact Hf).
    split; [reflexivity|]. split; [exact Hlen|]. split.
    + destruct (index_position _ z Hf') as [[k' [Hk' [Hp' Hs']]]|[Hp' Hs']].
      * unfold zlen in Hp'. rewrite Hlen in Hp'. fold (zlen xs) in Hp'. rewrite Hp in Hp'.
        inversion Hp'; subst k'. rewrite Hs'. apply set_nth_same. unfold zlen in Hk. lia.
      * unfold zlen in Hp'. rewrite Hlen in Hp'. fold (zlen xs) in Hp'. congruence.
    + intros j Hj Hdiff.
      destruct (index_position xs j Hf) as [[kj [Hkj [Hpj Hsj]]]|[Hpj Hsj]]; [|congruence].
      destruct (index_position _ j Hf') as [[kj' [Hkj' [Hpj' Hsj']]]|[Hpj' Hsj']].
      * unfold zlen in Hpj'. rewrite Hlen in Hpj'. fold (zlen xs) in Hpj'. rewrite Hpj in Hpj'.
        inversion Hpj'; subst kj'. rewrite Hsj', Hsj. apply set_nth_other.
        intro Heq. apply (Hdiff kj Hpj). f_equal. lia.
      * unfold zlen in Hpj'. rewrite Hlen in Hpj'. fold (zlen xs) in Hpj'. congruence.
  - rewrite Hs, Hp. reflexivity.
Qed.

Theorem remove_addresses_read xs z : fits xs ->
  match py_index xs z with
  | None => remove_index_list xs (IInt z) = Err EIndex
  | Some a => exists k, 0 <= k < zlen xs /\ pythonic_index (zlen xs) (IInt z) = Ok k /\
      remove_index_list xs (IInt z) = Ok (a, firstn (Z.to_nat k) xs ++ skipn (S (Z.to_nat k)) xs)
  end.
Proof.
  intros Hf. unfold remove_index_list.
  destruct (index_position xs z Hf) as [[k [Hk [Hp Hs]]]|[Hp Hs]].
  - rewrite Hs. destruct (rust_get_in xs k Hk) as [Hg [a Ha]]. rewrite Ha.
    exists k. split; [exact Hk|]. split; [exact Hp|].
    rewrite Hp. cbn [bind]. rewrite Hg, Ha. cbn [bind]. f_equal. f_equal.
    clear. generalize (Z.to_nat k) as n. induction xs as [|x r IH]; intros [|n]; cbn; auto.
    f_equal. apply IH.
  - rewrite Hs, Hp. reflexivity.
Qed.

Theorem remove_slice_addresses_read xs lo hi : fits xs -> all_i64 lo -> all_i64 hi ->
  exists rest, remove_slice_list xs (obound lo) (obound hi) = Ok (py_slice xs lo hi, rest) /\
    length rest = (length xs - length (py_slice xs lo hi))%nat.
Proof.
  intros Hf Hlo Hhi. pose proof (slice_python xs lo hi Hf Hlo Hhi) as Hs.
  unfold slice_list in Hs. unfold remove_slice_list.
  destruct (pythonic_slice_obj (zlen xs) (obound lo) (obound hi)) as [[a b]| | |]; cbn [bind] in *; try discriminate.
  cbn [fst snd] in *. rewrite Hs. cbn [bind]. eexists. split; [reflexivity|].
  unfold rust_range in Hs.
  destruct ((0 <=? a) && (a <=? b) && (b <=? zlen xs)) eqn:E; [|discriminate].
  rewrite !andb_true_iff, !Z.leb_le in E. destruct E as [[E1 E2] E3].
  inversion Hs as [Hs']. rewrite app_length, firstn_length, skipn_length, firstn_length, skipn_length.
  unfold zlen in *. lia.
Qed.
End Proofs.
