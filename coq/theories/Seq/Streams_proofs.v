(* C11 proofs, part 1: generic iteration lemmas, Range, WrappedVec. *)
From Coq Require Import ZArith List Bool Arith Lia.
From NV Require Import Common.Outcome Common.MachineInt Seq.Index Seq.Streams Seq.StreamsSpec.
Import ListNotations.
Open Scope Z_scope.
Ltac Zify.zify_post_hook ::= Z.div_mod_to_equations.

(* ------------------------------------------------------------------ generic *)
Section Generic.
Context {St E : Type}.
Variable step : St -> option E * St.
Notation yields := (yields step).
Notation unfold := (unfold step).

Lemma yields_fun s l : yields s l -> forall l', yields s l' -> l = l'.
Proof.
  induction 1 as [s H|s e l H Hy IH]; intros l' H'; inversion H'; subst; try congruence.
  f_equal; [congruence|]. apply IH. assumption.
Qed.

Lemma yields_unfold s l : yields s l -> forall fuel, (length l <= fuel)%nat -> unfold fuel s = l.
Proof.
  induction 1 as [s H|s e l H Hy IH]; intros fuel Hf.
  - destruct fuel; [reflexivity|]. cbn [Streams.unfold]. destruct (step s) as [o s']. cbn in H. subst. reflexivity.
  - destruct fuel; [cbn in Hf; lia|]. cbn [Streams.unfold]. destruct (step s) as [o s'] eqn:Es.
    cbn in H, Hy, IH. subst o. f_equal. apply IH. cbn in Hf. lia.
Qed.

Lemma yields_count s l : yields s l -> forall fuel, (length l < fuel)%nat ->
  count_iter step fuel s = Ok (Z.of_nat (length l)).
Proof.
  induction 1 as [s H|s e l H Hy IH]; intros fuel Hf.
  - destruct fuel; [lia|]. cbn [count_iter]. destruct (step s) as [o s']. cbn in H. subst. reflexivity.
  - destruct fuel; [lia|]. cbn [count_iter]. destruct (step s) as [o s'] eqn:Es.
    cbn in H, Hy, IH. subst o. rewrite IH by (cbn in Hf; lia). cbn [omap bind length]. f_equal. lia.
Qed.

Lemma yields_inv_nil s : yields s [] -> fst (step s) = None.
Proof. inversion 1; assumption. Qed.
Lemma yields_inv_cons s e l : yields s (e :: l) -> fst (step s) = Some e /\ yields (snd (step s)) l.
Proof. inversion 1; subst; auto. Qed.

Lemma yields_prefix s l : yields s l -> prefix_of step s l.
Proof. induction 1; econstructor; eauto. Qed.

Lemma prefix_unfold s l : prefix_of step s l -> unfold (length l) s = l.
Proof.
  induction 1 as [s|s e l H Hy IH]; [reflexivity|].
  cbn [length Streams.unfold]. destruct (step s) as [o s']. cbn in *. subst. f_equal. assumption.
Qed.

Lemma reaches_drop s k : reaches step s (drop_prefix step k s).
Proof.
  revert s. induction k; intros s; cbn [drop_prefix]; [constructor|].
  destruct (step s) as [[e|] s'] eqn:Es.
  - apply reaches_step. rewrite Es. apply IHk.
  - apply reaches_step. rewrite Es. constructor.
Qed.

Lemma reaches_trans s t u : reaches step s t -> reaches step t u -> reaches step s u.
Proof. induction 1; intros; [assumption|]. apply reaches_step. auto. Qed.

(* what `s drop k` lists: the elements of s without the first k (for streams that stay
   exhausted once exhausted, which every stream type here does) *)
Lemma yields_drop s l :
  (forall t, fst (step t) = None -> fst (step (snd (step t))) = None) ->
  yields s l -> forall k, yields (drop_prefix step k s) (skipn k l).
Proof.
  intros Habs. induction 1 as [s H|s e l H Hy IH]; intros k.
  - rewrite skipn_nil. destruct k; cbn [drop_prefix]; [constructor; assumption|].
    pose proof (Habs s H) as H2. destruct (step s) as [o s']. cbn in H, H2. subst o.
    constructor. assumption.
  - destruct k; [cbn; econstructor; eauto|].
    cbn [drop_prefix skipn]. destruct (step s) as [o s'] eqn:Es. cbn in H, Hy, IH. subst o. apply IH.
Qed.

(* The counting argument: an invariant, a candidate count, and the two one-step lemmas
   give `count = number of elements iteration yields`, with the count as the measure. *)
Section Measure.
Variable Inv : St -> Prop.
Variable cnt : St -> Z.
Hypothesis inv_step : forall s, Inv s -> Inv (snd (step s)).
Hypothesis cnt_none : forall s, Inv s -> fst (step s) = None -> cnt s = 0.
Hypothesis cnt_some : forall s e, Inv s -> fst (step s) = Some e -> cnt s = 1 + cnt (snd (step s)).
Hypothesis cnt_nonneg : forall s, Inv s -> 0 <= cnt s.

Lemma count_is_length_n : forall n s, Inv s -> Z.to_nat (cnt s) = n ->
  yields s (unfold n s) /\ Z.of_nat (length (unfold n s)) = cnt s.
Proof.
  induction n; intros s Hi Hn.
  - assert (cnt s = 0) by (specialize (cnt_nonneg s Hi); lia).
    destruct (fst (step s)) as [e|] eqn:Es.
    + specialize (cnt_some s e Hi Es). specialize (cnt_nonneg _ (inv_step s Hi)). lia.
    + cbn. split; [constructor; assumption | lia].
  - destruct (fst (step s)) as [e|] eqn:Es.
    + pose proof (cnt_some s e Hi Es) as Hc.
      destruct (IHn (snd (step s)) (inv_step s Hi)) as [Hy Hl]; [lia|].
      cbn [Streams.unfold]. destruct (step s) as [o s'] eqn:Ess. cbn [fst snd] in Es, Hy, Hl, Hc. subst o.
      split; [econstructor; rewrite ?Ess; cbn [fst snd]; eauto | cbn [length]; lia].
    + specialize (cnt_none s Hi Es). lia.
Qed.

Theorem count_is_length s : Inv s ->
  exists l, yields s l /\ Z.of_nat (length l) = cnt s.
Proof.
  intros Hi. destruct (count_is_length_n _ s Hi eq_refl). eauto.
Qed.

Lemma inv_reaches s t : reaches step s t -> Inv s -> Inv t.
Proof. induction 1; auto. Qed.

Theorem count_is_length_reached s t : Inv s -> reaches step s t ->
  exists l, yields t l /\ Z.of_nat (length l) = cnt t.
Proof. intros Hi Hr. apply count_is_length. eapply inv_reaches; eauto. Qed.
End Measure.
End Generic.

(* ------------------------------------------------------------------ Range *)
(* the number of elements, as a mathematical integer *)
Definition range_count (r : range) : Z :=
  match r_end r with
  | None => 0
  | Some e =>
    if r_step r <? 0 then Z.max (r_start r - e - r_step r - 1) 0 / (- r_step r)
    else if 0 <? r_step r then Z.max (e - r_start r + r_step r - 1) 0 / r_step r
    else 0
  end.
(* finite: has an end, and a zero step only when already exhausted *)
Definition range_finite (r : range) : Prop :=
  match r_end r with
  | None => False
  | Some e => r_step r <> 0 \/ e <= r_start r
  end.

Lemma div_step N d : 0 < d -> d <= N -> Z.max N 0 / d = 1 + Z.max (N - d) 0 / d.
Proof.
  intros Hd HN. rewrite !Z.max_l by lia.
  replace N with ((N - d) + 1 * d) at 1 by lia. rewrite Z.div_add by lia. lia.
Qed.
Lemma div_small N d : 0 < d -> N < d -> Z.max N 0 / d = 0.
Proof. intros. apply Z.div_small. lia. Qed.

Lemma range_finite_step r : range_finite r -> range_finite (snd (range_step r)).
Proof.
  unfold range_finite, range_step. destruct (range_empty r) eqn:E; cbn; [auto|].
  unfold range_empty in E. destruct (r_end r) as [e|]; [|auto]. intros [H|H]; [auto|].
  destruct (Z.ltb_spec (r_step r) 0); [left; lia|].
  apply Z.leb_gt in E. lia.
Qed.

(* one-step lemmas *)
Lemma range_count_none r : range_finite r -> fst (range_step r) = None -> range_count r = 0.
Proof.
  unfold range_finite, range_step, range_count, range_empty.
  destruct (r_end r) as [e|]; [|tauto]. intros Hf.
  destruct (Z.ltb_spec (r_step r) 0).
  - destruct (Z.leb_spec (r_start r) e); cbn [fst snd r_start r_end r_step]; [|discriminate]. intros _. apply div_small; lia.
  - destruct (Z.leb_spec e (r_start r)); cbn [fst snd r_start r_end r_step]; [|discriminate]. intros _.
    destruct (Z.ltb_spec 0 (r_step r)); [apply div_small; lia | reflexivity].
Qed.
Lemma range_count_some r x : range_finite r -> fst (range_step r) = Some x ->
  range_count r = 1 + range_count (snd (range_step r)).
Proof.
  unfold range_finite, range_step, range_count, range_empty.
  destruct (r_end r) as [e|] eqn:Ee; [|tauto]. intros Hf.
  destruct (Z.ltb_spec (r_step r) 0).
  - destruct (Z.leb_spec (r_start r) e); cbn [fst snd r_start r_end r_step]; [discriminate|]. intros _.
    destruct (Z.ltb_spec (r_step r) 0); [|lia].
    rewrite (div_step (r_start r - e - r_step r - 1)) by lia. do 3 f_equal. lia.
  - destruct (Z.leb_spec e (r_start r)); cbn [fst snd r_start r_end r_step]; [discriminate|]. intros _.
    destruct (Z.ltb_spec (r_step r) 0); [lia|].
    destruct (Z.ltb_spec 0 (r_step r)); [|lia].
    rewrite (div_step (e - r_start r + r_step r - 1)) by lia. do 3 f_equal. lia.
Qed.
Lemma range_count_nonneg r : 0 <= range_count r.
Proof.
  unfold range_count. destruct (r_end r); [|lia].
  destruct (Z.ltb_spec (r_step r) 0); [apply Z.div_pos; lia|].
  destruct (Z.ltb_spec 0 (r_step r)); [apply Z.div_pos; lia | lia].
Qed.

(* the implementation's len is the count squeezed through to_usize *)
Lemma range_len_count r : range_finite r -> range_len r = to_usize_z (range_count r).
Proof.
  unfold range_finite, range_len, range_count. destruct (r_end r) as [e|]; [|tauto]. intros Hf.
  destruct (Z.eqb_spec (r_step r) 0) as [H0|H0].
  - rewrite H0. cbn. destruct (Z.ltb_spec (r_start r) e); [lia | reflexivity].
  - destruct (Z.ltb_spec (r_step r) 0).
    + rewrite Z.quot_div_nonneg by lia. reflexivity.
    + destruct (Z.ltb_spec 0 (r_step r)); [|lia]. rewrite Z.quot_div_nonneg by lia. reflexivity.
Qed.

Theorem range_count_is_length r : range_finite r ->
  exists l, yields range_step r l /\ Z.of_nat (length l) = range_count r.
Proof.
  apply (count_is_length range_step range_finite range_count).
  - apply range_finite_step.
  - apply range_count_none.
  - apply range_count_some.
  - intros; apply range_count_nonneg.
Qed.

Lemma to_usize_small z : 0 <= z < 2 ^ 64 -> to_usize_z z = Some z.
Proof.
  intros H. unfold to_usize_z, in_usizeb, usize_max.
  destruct (Z.leb_spec 0 z); [|lia]. destruct (Z.leb_spec z (2 ^ 64 - 1)); [reflexivity|lia].
Qed.
Lemma to_usize_big z : 2 ^ 64 <= z -> to_usize_z z = None.
Proof.
  intros H. unfold to_usize_z, in_usizeb, usize_max.
  destruct (Z.leb_spec z (2 ^ 64 - 1)); [lia|]. rewrite andb_false_r. reflexivity.
Qed.

(* only finite ranges ever report exhaustion *)
Lemma range_yields_finite r l : yields range_step r l -> range_finite r.
Proof.
  induction 1 as [s H|s x l H Hy IH]; unfold range_finite, range_step, range_empty in *.
  - destruct (r_end s) as [e|]; [|discriminate].
    destruct (Z.ltb_spec (r_step s) 0); [left; lia|].
    destruct (Z.leb_spec e (r_start s)); [right; assumption|discriminate].
  - destruct (r_end s) as [e|] eqn:Ee.
    + destruct (if r_step s <? 0 then r_start s <=? e else e <=? r_start s);
        cbn [fst snd r_start r_end r_step] in *; [discriminate|].
      try rewrite Ee in IH. destruct (Z.eq_dec (r_step s) 0); [right; lia|left; assumption].
    + cbn [fst snd r_start r_end r_step] in *. try rewrite Ee in IH. assumption.
Qed.

(* len = number of elements iteration yields, for every finite range state (hence at every
   position reached by dropping a prefix), unless the count does not fit a machine word *)
Theorem range_len_counts_iteration r l :
  yields range_step r l -> Z.of_nat (length l) < 2 ^ 64 -> range_len r = Some (Z.of_nat (length l)).
Proof.
  intros Hy Hs. pose proof (range_yields_finite r l Hy) as Hf.
  destruct (range_count_is_length r Hf) as [l' [Hy' Hl']].
  rewrite (yields_fun _ _ _ Hy _ Hy') in *.
  rewrite range_len_count, <- Hl' by assumption. apply to_usize_small. lia.
Qed.

(* a range that reports a length is finite and has exactly that many elements *)
Theorem range_len_sound r n : range_len r = Some n ->
  exists l, yields range_step r l /\ Z.of_nat (length l) = n.
Proof.
  intros Hl.
  assert (Hf : range_finite r).
  { unfold range_finite, range_len in *. destruct (r_end r) as [e|]; [|discriminate].
    destruct (Z.eqb_spec (r_step r) 0); [|auto]. right.
    destruct (Z.ltb_spec (r_start r) e); [discriminate|lia]. }
  destruct (range_count_is_length r Hf) as [l [Hy Hc]]. exists l. split; [assumption|].
  rewrite range_len_count in Hl by assumption. unfold to_usize_z in Hl.
  destruct (in_usizeb (range_count r)); congruence.
Qed.

(* infinite ranges (no end, or a zero step before the end) report infinity and never end *)
Theorem range_infinite_len r : ~ range_finite r ->
  range_len r = None /\ forall l, ~ yields range_step r l.
Proof.
  intros Hn. split.
  - unfold range_finite, range_len in *. destruct (r_end r) as [e|]; [|reflexivity].
    destruct (Z.eqb_spec (r_step r) 0); [|tauto]. destruct (Z.ltb_spec (r_start r) e); [reflexivity|tauto].
  - intros l Hy. apply Hn. eapply range_yields_finite; eauto.
Qed.

(* known finding F15: a finite range with 2^64 elements reports infinity *)
Definition huge_range : range := til 0 (2 ^ 64) 1.
Theorem range_len_huge_refuted :
  exists r, (exists l, yields range_step r l /\ Z.of_nat (length l) = 2 ^ 64) /\ range_len r = None.
Proof.
  exists huge_range. split.
  - assert (Hf : range_finite huge_range) by (left; discriminate).
    destruct (range_count_is_length _ Hf) as [l [Hy Hl]]. exists l. split; [assumption|].
    rewrite Hl. reflexivity.
  - reflexivity.
Qed.

(* the elements: a, a+c, a+2c, ... while before b *)
Lemma range_elements : forall l a b c, c <> 0 ->
  yields range_step (Range a (Some b) c) l -> range_spec a b c l.
Proof.
  induction l as [|x l IH]; intros a b c Hc Hy; unfold range_spec.
  - apply yields_inv_nil in Hy. split; [cbn; intros; lia|].
    unfold range_step, range_empty in Hy. cbn [r_start r_end r_step] in Hy. unfold before.
    cbn [length]. rewrite Z.mul_0_l, Z.add_0_r.
    destruct (Z.ltb_spec c 0).
    + destruct (Z.leb_spec a b); [|discriminate]. apply Z.ltb_ge. assumption.
    + destruct (Z.leb_spec b a); [|discriminate]. apply Z.ltb_ge. assumption.
  - apply yields_inv_cons in Hy. destruct Hy as [H1 H3].
    unfold range_step, range_empty in H1, H3. cbn [r_start r_end r_step] in H1, H3.
    assert (Hne : (if c <? 0 then a <=? b else b <=? a) = false).
    { destruct (if c <? 0 then a <=? b else b <=? a); [discriminate|reflexivity]. }
    rewrite Hne in H1, H3. cbn [fst snd] in H1, H3. injection H1 as <-.
    destruct (IH _ _ _ Hc H3) as [Hk Hend]. split.
    + intros [|k] Hlt.
      * cbn [nth]. rewrite Z.mul_0_l, Z.add_0_r. split; [reflexivity|]. unfold before.
        destruct (Z.ltb_spec c 0).
        -- apply Z.leb_gt in Hne. apply Z.ltb_lt. assumption.
        -- apply Z.leb_gt in Hne. apply Z.ltb_lt. assumption.
      * cbn [length] in Hlt. destruct (Hk k) as [Hn Hb]; [lia|].
        cbn [nth]. replace (a + Z.of_nat (S k) * c) with (a + c + Z.of_nat k * c) by lia. auto.
    + cbn [length]. replace (a + Z.of_nat (S (length l)) * c) with (a + c + Z.of_nat (length l) * c) by lia.
      assumption.
Qed.

(* iota a = a, a+1, a+2, ...; len = infinity *)
Theorem iota_prefix a n : unfold range_step n (iota a) = map (fun k => a + Z.of_nat k) (seq 0 n).
Proof.
  revert a. induction n; intros a; [reflexivity|].
  cbn [Streams.unfold]. unfold iota, range_step, range_empty. cbn [r_end r_start r_step fst snd].
  fold (iota (a + 1)). rewrite IHn. cbn [seq map]. f_equal; [f_equal; lia|].
  rewrite <- seq_shift, map_map. apply map_ext. intros. lia.
Qed.
Theorem iota_len a : range_len (iota a) = None.
Proof. reflexivity. Qed.

(* ------------------------------------------------------------------ WrappedVec *)
Section WVecProofs.
Context {A : Type}.
Implicit Types w : @wvec A.

Definition wvec_count w : Z := Z.of_nat (length (fst w) - snd w).

Lemma wvec_yields : forall (xs : list A) pos, yields wvec_step (xs, pos) (skipn pos xs).
Proof.
  intros xs pos. remember (length xs - pos)%nat as n eqn:Hn. revert pos Hn.
  induction n; intros pos Hn.
  - rewrite skipn_all2 by lia. constructor. unfold wvec_step.
    destruct (nth_error xs pos) eqn:E; [|reflexivity].
    assert (pos < length xs)%nat by (apply nth_error_Some; congruence). lia.
  - destruct (nth_error xs pos) as [a|] eqn:E.
    + assert (Hs : skipn pos xs = a :: skipn (S pos) xs).
      { clear -E. revert pos E. induction xs; intros [|pos] E; cbn in *; try discriminate.
        - congruence. - auto. }
      rewrite Hs. econstructor; unfold wvec_step; rewrite E; cbn; [reflexivity|].
      apply IHn. lia.
    + apply nth_error_None in E. lia.
Qed.

(* len (the fixed override: len - pos, saturating) = number of elements iteration yields *)
Theorem wvec_len_counts_iteration w l :
  yields wvec_step w l -> wvec_len w = Some (Z.of_nat (length l)).
Proof.
  destruct w as [xs pos]. intros Hy.
  rewrite (yields_fun _ _ _ Hy _ (wvec_yields xs pos)).
  unfold wvec_len. rewrite skipn_length. reflexivity.
Qed.
Theorem wvec_lists_the_sequence (xs : list A) : yields wvec_step (stream_of_list xs) xs.
Proof. apply (wvec_yields xs 0). Qed.
End WVecProofs.
