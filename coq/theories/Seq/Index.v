(* C10 model: transcription of the index/slice helpers of src/core.rs (pythonic_index_isize,
   pythonic_index, clamped_pythonic_index, pythonic_slice, obj_to_isize_slice_index), of
   eval.rs index/slice_seq on slice-backed kinds, of the Stream default methods, and of the
   lib.rs accessors (!? !% first last ...).  Definitions only; proofs are in Index_proofs.v. *)
From Coq Require Import ZArith List Bool.
From NV Require Import Common.Outcome Common.MachineInt.
Import ListNotations.
Open Scope Z_scope.

(* An index/slice-bound object: an integer of any size, some other number, or a non-number *)
Inductive idx := IInt (z : Z) | INonInt | INonNum.

(* NNum::to_isize: integers that fit in isize only *)
Definition to_isize (i : idx) : option Z :=
  match i with IInt z => if in_i64b z then Some z else None | _ => None end.
Definition to_usize (i : idx) : option Z :=
  match i with IInt z => if in_usizeb z then Some z else None | _ => None end.

(* core.rs pythonic_index_isize; len is xs.len() (0 <= len <= isize::MAX), n an isize.
   `n.wrapping_add(len as isize) as usize` *)
Definition pythonic_index_isize (len n : Z) : outcome Z :=
  if (0 <=? n) && (n <? len) then Ok n
  else
    let i2 := as_usize (wrap_i64 (n + len)) in
    if i2 <? len then Ok i2 else Err EIndex.

Definition pythonic_index (len : Z) (i : idx) : outcome Z :=
  match to_isize i with
  | Some n => pythonic_index_isize len n
  | None => Err EIndex
  end.

Definition clamped_pythonic_index (len i : Z) : outcome Z :=
  if 0 <=? i then Ok (Z.min i len)
  else i2 <- add_i64 i len ;; Ok (if i2 <? 0 then 0 else i2).

Definition obj_to_isize_slice_index (x : option idx) : outcome (option Z) :=
  match x with
  | None => Ok None
  | Some i => match to_isize i with Some n => Ok (Some n) | None => Err EIndex end
  end.

Definition pythonic_slice (len : Z) (lo hi : option Z) : outcome (Z * Z) :=
  clo <- match lo with Some lo => clamped_pythonic_index len lo | None => Ok 0 end ;;
  chi <- match hi with Some hi => clamped_pythonic_index len hi | None => Ok len end ;;
  Ok (clo, Z.max chi clo).

Definition pythonic_slice_obj (len : Z) (lo hi : option idx) : outcome (Z * Z) :=
  lo' <- obj_to_isize_slice_index lo ;;
  hi' <- obj_to_isize_slice_index hi ;;
  pythonic_slice len lo' hi'.

Section Elems.
Context {A : Type}.

Definition zlen (xs : list A) : Z := Z.of_nat (length xs).

(* xs[k] on a Rust slice: panics when out of bounds *)
Definition rust_get (xs : list A) (k : Z) : outcome A :=
  if (0 <=? k) then match nth_error xs (Z.to_nat k) with Some a => Ok a | None => Panic end
  else Panic.
(* xs[a..b] on a Rust slice: panics when a > b or b > len *)
Definition rust_range (xs : list A) (a b : Z) : outcome (list A) :=
  if (0 <=? a) && (a <=? b) && (b <=? zlen xs)
  then Ok (firstn (Z.to_nat (b - a)) (skipn (Z.to_nat a) xs))
  else Panic.

(* eval.rs index on List/Vector/Bytes (and String by byte) *)
Definition index_list (xs : list A) (i : idx) : outcome A :=
  k <- pythonic_index (zlen xs) i ;; rust_get xs k.
(* eval.rs slice_seq on the slice-backed kinds *)
Definition slice_list (xs : list A) (lo hi : option idx) : outcome (list A) :=
  ab <- pythonic_slice_obj (zlen xs) lo hi ;; rust_range xs (fst ab) (snd ab).
(* lib.rs linear_index_isize (first/second/third/last/only) *)
Definition linear_index_isize (xs : list A) (i : Z) : outcome A :=
  k <- pythonic_index_isize (zlen xs) i ;; rust_get xs k.

(* lib.rs safe_index_inner / safe_index (!?): None is the language's null *)
Definition safe_index (xs : list A) (i : idx) : outcome (option A) :=
  match to_usize i with
  | Some n => if n <? zlen xs then a <- rust_get xs n ;; Ok (Some a) else Ok None
  | None => Ok None
  end.
(* lib.rs cyclic_index (!%): n.rem_euclid(len) *)
Definition cyclic_index (xs : list A) (i : idx) : outcome A :=
  match to_isize i with
  | Some n => if zlen xs =? 0 then Err EIndex else rust_get xs (n mod zlen xs)
  | None => Err EIndex
  end.

(* ---- Stream default methods, over an iterator whose remaining elements are xs ---- *)
Fixpoint stream_index_nonneg (xs : list A) (i : Z) : outcome A :=
  match xs with
  | [] => Err EIndex
  | e :: r => if i =? 0 then Ok e else stream_index_nonneg r (i - 1)
  end.
Definition stream_index_isize (xs : list A) (i : Z) : outcome A :=
  if 0 <=? i then stream_index_nonneg xs i
  else
    s <- add_i64 i (zlen xs) ;;
    let i2 := as_usize s in
    if i2 <? zlen xs then rust_get xs i2 else Err EIndex.
Definition stream_index (xs : list A) (i : idx) : outcome A :=
  match to_isize i with Some n => stream_index_isize xs n | None => Err EIndex end.

(* `for _ in 0..k { if it.next().is_none() break }` *)
Fixpoint advance (xs : list A) (k : Z) : list A :=
  match xs with
  | [] => []
  | _ :: r => if k <=? 0 then xs else advance r (k - 1)
  end.
(* `for _ in lo..hi { match it.next() { Some(x) => push, None => break } }` *)
Fixpoint take_upto (xs : list A) (k : Z) : list A :=
  match xs with
  | [] => []
  | e :: r => if k <=? 0 then [] else e :: take_upto r (k - 1)
  end.
Inductive sliced := SStream (rest : list A) | SList (l : list A).
Definition stream_slice_isize (xs : list A) (lo hi : option Z) : outcome sliced :=
  let lo := match lo with Some l => l | None => 0 end in
  match hi with
  | None =>
    if 0 <=? lo then Ok (SStream (advance xs lo))
    else ab <- pythonic_slice (zlen xs) (Some lo) None ;;
         l <- rust_range xs (fst ab) (snd ab) ;; Ok (SList l)
  | Some hi =>
    if (0 <=? lo) && (0 <=? hi) then Ok (SList (take_upto (advance xs lo) (hi - lo)))
    else ab <- pythonic_slice (zlen xs) (Some lo) (Some hi) ;;
         l <- rust_range xs (fst ab) (snd ab) ;; Ok (SList l)
  end.
Definition stream_slice (xs : list A) (lo hi : option idx) : outcome sliced :=
  lo' <- obj_to_isize_slice_index lo ;;
  hi' <- obj_to_isize_slice_index hi ;;
  stream_slice_isize xs lo' hi'.
Definition sliced_elems (s : sliced) : list A :=
  match s with SStream l => l | SList l => l end.

(* ---- write addressing (eval.rs set_index / try_pop / try_remove_index on lists) ---- *)
Fixpoint set_nth (xs : list A) (k : nat) (v : A) : list A :=
  match xs, k with
  | [], _ => []
  | _ :: r, O => v :: r
  | x :: r, S k' => x :: set_nth r k' v
  end.
Fixpoint remove_nth (xs : list A) (k : nat) : list A :=
  match xs, k with
  | [], _ => []
  | _ :: r, O => r
  | x :: r, S k' => x :: remove_nth r k'
  end.
(* x[i] = v *)
Definition set_index_list (xs : list A) (i : idx) (v : A) : outcome (list A) :=
  k <- pythonic_index (zlen xs) i ;;
  if k <? zlen xs then Ok (set_nth xs (Z.to_nat k) v) else Panic.
(* pop x[i] / remove x[i]: Vec::remove(k) panics when k >= len *)
Definition remove_index_list (xs : list A) (i : idx) : outcome (A * list A) :=
  k <- pythonic_index (zlen xs) i ;;
  a <- rust_get xs k ;; Ok (a, remove_nth xs (Z.to_nat k)).
(* remove x[lo:hi]: Vec::drain(lo..hi) *)
Definition remove_slice_list (xs : list A) (lo hi : option idx) : outcome (list A * list A) :=
  ab <- pythonic_slice_obj (zlen xs) lo hi ;;
  mid <- rust_range xs (fst ab) (snd ab) ;;
  Ok (mid, firstn (Z.to_nat (fst ab)) xs ++ skipn (Z.to_nat (snd ab)) xs).
End Elems.
