(* C13 - "filter-like functions return the same sequence kind they were given", as a fact about
   the interpreter [run] of Seq/SeqVal.v (the function the implementation is compared with). *)
From Coq Require Import List Bool Arith ZArith NArith Lia.
From NV Require Import Seq.SeqLib Seq.SeqVal.
Import ListNotations.

(* r is a sequence of the same type as x: strings, vectors, bytes and lists keep their kind,
   dictionaries (keys) and streams give lists *)
Definition same_kind (x r : val) : Prop :=
  match x with
  | VStr _ => exists s, r = VStr s
  | VSeq SVec _ => exists l, r = VSeq SVec l
  | VSeq SBytes _ => exists l, r = VSeq SBytes l
  | VSeq _ _ => exists l, r = VSeq SList l
  | _ => False
  end.

Definition one_char (v : val) : Prop := exists c, v = VStr [c].

Lemma chars_roundtrip : forall l, Forall one_char l -> map (fun c => VStr [c]) (chars_of l) = l.
Proof.
  induction l as [|v t IH]; intros H; [reflexivity|]. inversion H as [|? ? [c ->] Ht]; subst.
  unfold chars_of in *. cbn [flat_map app map]. now rewrite IH.
Qed.

Lemma elems_one_char : forall s, Forall one_char (map (fun c => VStr [c]) s).
Proof. induction s; constructor; [eexists; reflexivity|auto]. Qed.

(* rebuilding from a sub-multiset of the elements gives a value of the same kind with exactly those elements *)
Lemma rebuild_like_spec : forall x l l', elems x = Some l -> (forall v, In v l' -> In v l) ->
  same_kind x (rebuild_like x l') /\ elems (rebuild_like x l') = Some l'.
Proof.
  intros x l l' He Hin. destruct x as [| | |s|k m]; try discriminate.
  - cbn [elems] in He. inversion He; subst. cbn [rebuild_like same_kind elems]. split; [eexists; reflexivity|].
    f_equal. apply chars_roundtrip. apply Forall_forall. intros v Hv.
    pose proof (elems_one_char s) as H. rewrite Forall_forall in H. auto.
  - cbn [elems] in He. destruct k; cbn [rebuild_like same_kind elems]; (split; [eexists; reflexivity|reflexivity]).
Qed.

Definition filter_like (c : call) : option (list val -> list val) :=
  match c with
  | CFilter f => Some (sl_filter (pred f))
  | CReject f => Some (sl_reject (pred f))
  | CTakeWhile f => Some (sl_take_while (pred f))
  | CSortBy g => Some (sl_sort (leb_of_cmp g))
  | CReverse => Some (@sl_reverse val)
  | CUnique => Some (sl_unique veq)
  | _ => None
  end.

Lemma in_take_while : forall (p : val -> bool) l v, In v (sl_take_while p l) -> In v l.
Proof. induction l as [|x t IH]; cbn [sl_take_while]; [tauto|]. intros v. destruct (p x); [intros [->|H]; [now left|right; auto]|intros []]. Qed.
Lemma in_insert : forall leb (x : val) l v, In v (insert leb x l) -> In v (x :: l).
Proof.
  induction l as [|y t IH]; cbn [insert]; [tauto|]. intros v. destruct (leb x y); [tauto|].
  intros [->|H]; [right; now left|]. apply IH in H as [->|H]; [now left|right; now right].
Qed.
Lemma in_sort : forall leb (l : list val) v, In v (sl_sort leb l) -> In v l.
Proof.
  induction l as [|x t IH]; [tauto|]. intros v H. cbn [sl_sort fold_right] in H. apply in_insert in H as [->|H]; [now left|right; now apply IH].
Qed.
Lemma in_unique : forall (l : list val) v, In v (sl_unique veq l) -> In v l.
Proof.
  induction l as [|x t IH]; [tauto|]. cbn [sl_unique]. intros v [->|H]; [now left|]. apply filter_In in H as [H _]. right. auto.
Qed.

(* filter, reject, take (predicate form), sort with a comparator, reverse, unique: the result has
   the kind of the argument and its elements are the one-liner applied to the argument's elements *)
Theorem filter_like_same_kind : forall c g x r, filter_like c = Some g -> run c [x] = Some r ->
  same_kind x r /\ exists l, elems x = Some l /\ elems r = Some (g l).
Proof.
  intros c g x r Hc Hr.
  assert (K : forall l, elems x = Some l -> (forall v, In v (g l) -> In v l) -> r = rebuild_like x (g l) ->
              same_kind x r /\ exists l, elems x = Some l /\ elems r = Some (g l)).
  { intros l He Hin ->. destruct (rebuild_like_spec x l (g l) He Hin) as [S E]. split; [exact S|]. exists l. auto. }
  destruct c; try discriminate; cbn [filter_like] in Hc; inversion Hc; subst g; clear Hc;
    cbn [run with1] in Hr; destruct (elems x) as [l|] eqn:He; try discriminate; cbn [bind] in Hr; inversion Hr; subst r; clear Hr;
    apply (K l eq_refl); try reflexivity.
  - intros v H. apply filter_In in H. tauto.
  - intros v H. apply filter_In in H. tauto.
  - apply in_take_while.
  - apply in_sort.
  - intros v H. now apply in_rev.
  - apply in_unique.
Qed.
