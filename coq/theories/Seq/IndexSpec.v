(* C10 specification: Python indexing and slicing on lists, stated declaratively
   (no clamping arithmetic): xs[i] and the positions selected by xs[lo:hi]. *)
From Coq Require Import ZArith List Bool.
Import ListNotations.
Open Scope Z_scope.

Section Spec.
Context {A : Type}.
Definition zlength (xs : list A) : Z := Z.of_nat (length xs).

(* Python xs[i]: position i for 0 <= i < len, len+i for -len <= i < 0, else IndexError *)
Definition py_index (xs : list A) (i : Z) : option A :=
  let len := zlength xs in
  if (0 <=? i) && (i <? len) then nth_error xs (Z.to_nat i)
  else if (- len <=? i) && (i <? 0) then nth_error xs (Z.to_nat (len + i))
  else None.

(* Python's reading of a slice bound: a negative bound counts from the end *)
Definition py_bound (len : Z) (b : Z) : Z := if b <? 0 then b + len else b.

(* the elements at positions k (counted from s) satisfying p, in order *)
Fixpoint select_from (s : Z) (p : Z -> bool) (xs : list A) : list A :=
  match xs with
  | [] => []
  | x :: r => if p s then x :: select_from (s + 1) p r else select_from (s + 1) p r
  end.

(* Python xs[lo:hi] = [xs[k] for k in range(len) if lo' <= k < hi'] *)
Definition py_slice (xs : list A) (lo hi : option Z) : list A :=
  let len := zlength xs in
  let l := match lo with Some l => py_bound len l | None => 0 end in
  let h := match hi with Some h => py_bound len h | None => len end in
  select_from 0 (fun k => (l <=? k) && (k <? h)) xs.
End Spec.
