(* C11 proofs, part 2: CartesianPower (mixed-radix counter) and Subsequences (binary counter,
   obtained from the radix-2 case through a simulation). *)
From Coq Require Import ZArith List Bool Arith Lia Sorting.Sorted.
From NV Require Import Common.Outcome Common.MachineInt Seq.Index Seq.Streams Seq.StreamsSpec Seq.Streams_proofs.
Import ListNotations.
Open Scope Z_scope.

Lemma nth_map_default {A B} (f : A -> B) l i da db : (i < length l)%nat ->
  nth i (map f l) db = f (nth i l da).
Proof. intros. rewrite (nth_indep _ db (f da)) by (rewrite map_length; lia). apply map_nth. Qed.

(* ------------------------------------------------------------------ digits *)
Section Radix.
Variable m : nat.
Notation M := (Z.of_nat m).

(* big-endian value of a digit vector *)
Fixpoint dval (v : list nat) : Z :=
  match v with
  | [] => 0
  | d :: r => Z.of_nat d * M ^ Z.of_nat (length r) + dval r
  end.
Definition valid (v : list nat) : Prop := Forall (fun d => (d < m)%nat) v.

Lemma pow_len_pos (r : list nat) : 0 < M -> 0 < M ^ Z.of_nat (length r).
Proof. intros. apply Z.pow_pos_nonneg; lia. Qed.
Lemma pow_succ_len (d : nat) (r : list nat) : M ^ Z.of_nat (length (d :: r)) = M * M ^ Z.of_nat (length r).
Proof. cbn [length]. rewrite Nat2Z.inj_succ, Z.pow_succ_r by lia. reflexivity. Qed.

Lemma dval_bounds v : valid v -> 0 <= dval v < M ^ Z.of_nat (length v).
Proof.
  induction v as [|d r IH]; intros Hv; [cbn; lia|].
  inversion Hv; subst. specialize (IH H2). rewrite pow_succ_len. cbn [dval].
  assert (0 < M) by lia. pose proof (pow_len_pos r H). nia.
Qed.

Lemma digit_cmp x y r1 r2 P : 0 <= r1 < P -> 0 <= r2 < P ->
  (x * P + r1 < y * P + r2 <-> x < y \/ (x = y /\ r1 < r2)).
Proof.
  intros H1 H2. split.
  - intros H. destruct (Z.lt_trichotomy x y) as [Hl|[He|Hg]]; [auto|subst; right; lia|].
    exfalso. assert (y * P + 1 * P <= x * P) by (rewrite <- Z.mul_add_distr_r; apply Z.mul_le_mono_nonneg_r; lia). lia.
  - intros [Hl|[He Hr]]; [|subst; lia].
    assert (x * P + 1 * P <= y * P) by (rewrite <- Z.mul_add_distr_r; apply Z.mul_le_mono_nonneg_r; lia). lia.
Qed.

Lemma dval_inj : forall u v, valid u -> valid v -> length u = length v -> dval u = dval v -> u = v.
Proof.
  induction u as [|x u IH]; intros [|y v] Hu Hv Hl He; try discriminate; [reflexivity|].
  inversion Hu; inversion Hv; subst. cbn [length] in Hl. injection Hl as Hl. cbn [dval] in He.
  rewrite Hl in He. pose proof (dval_bounds u H2). pose proof (dval_bounds v H6). rewrite Hl in H.
  assert (Z.of_nat x = Z.of_nat y /\ dval u = dval v) as [Hx Hr].
  { destruct (Z.lt_trichotomy (Z.of_nat x) (Z.of_nat y)) as [Hlt|[Heq|Hgt]].
    - pose proof (proj2 (digit_cmp _ _ _ _ _ H H0) (or_introl Hlt)). lia.
    - rewrite Heq in He. lia.
    - pose proof (proj2 (digit_cmp _ _ _ _ _ H0 H) (or_introl Hgt)). lia. }
  f_equal; [lia|]. apply IH; auto.
Qed.

Lemma lex_dval : forall u v, valid u -> valid v -> length u = length v ->
  (dval u < dval v <-> lex_lt u v = true).
Proof.
  induction u as [|x u IH]; intros [|y v] Hu Hv Hl; try discriminate; [cbn; split; [lia|discriminate]|].
  inversion Hu; inversion Hv; subst. cbn [length] in Hl. injection Hl as Hl. cbn [dval lex_lt].
  rewrite Hl. pose proof (dval_bounds u H2). pose proof (dval_bounds v H6). rewrite Hl in H.
  rewrite digit_cmp by assumption. rewrite orb_true_iff, andb_true_iff, Nat.ltb_lt, Nat.eqb_eq.
  rewrite <- (IH v H2 H6 Hl). lia.
Qed.

(* the successor function is "+1" on values *)
Lemma cart_inc_spec : forall v, valid v ->
  match cart_inc m v with
  | Some v' => valid v' /\ length v' = length v /\ dval v' = dval v + 1
  | None => dval v = M ^ Z.of_nat (length v) - 1
  end.
Proof.
  induction v as [|d r IH]; intros Hv; [reflexivity|].
  inversion Hv; subst. specialize (IH H2). cbn [cart_inc].
  destruct (cart_inc m r) as [r'|].
  - destruct IH as [Hv' [Hl Hd]]. repeat split; [constructor; assumption | cbn; lia |].
    cbn [dval]. rewrite Hl. lia.
  - destruct (Nat.eqb_spec (S d) m) as [E|E].
    + rewrite pow_succ_len. cbn [dval]. rewrite IH. nia.
    + assert (Hz : forall r0 : list nat, dval (map (fun _ => O) r0) = 0).
      { induction r0; cbn [map dval]; [reflexivity|]. rewrite IHr0. lia. }
      repeat split.
      * constructor; [lia|]. clear -H1. induction r; constructor; [lia|assumption].
      * cbn. rewrite map_length. reflexivity.
      * cbn [dval]. rewrite map_length, Hz, IH. lia.
Qed.

(* ---- the count ---- *)
Definition cart_count (s : ivstate) : Z :=
  match s with
  | None => 0
  | Some v => M ^ Z.of_nat (length v) - dval v
  end.
Definition cart_inv (s : ivstate) : Prop :=
  match s with None => True | Some v => valid v end.

Lemma cart_inv_step s : cart_inv s -> cart_inv (snd (cart_step m s)).
Proof.
  destruct s as [v|]; cbn; [|auto]. intros Hv. pose proof (cart_inc_spec v Hv) as H.
  destruct (cart_inc m v); [apply H | exact I].
Qed.
Lemma cart_count_none s : cart_inv s -> fst (cart_step m s) = None -> cart_count s = 0.
Proof. destruct s; cbn; [discriminate|reflexivity]. Qed.
Lemma cart_count_some s e : cart_inv s -> fst (cart_step m s) = Some e ->
  cart_count s = 1 + cart_count (snd (cart_step m s)).
Proof.
  destruct s as [v|]; cbn [cart_step fst snd cart_inv]; [|discriminate]. intros Hv _.
  pose proof (cart_inc_spec v Hv) as H. unfold cart_count.
  destruct (cart_inc m v) as [v'|]; [destruct H as [_ [Hl Hd]]; rewrite Hl, Hd; lia | lia].
Qed.
Lemma cart_count_nonneg s : cart_inv s -> 0 <= cart_count s.
Proof. destruct s as [v|]; cbn; [|lia]. intros Hv. pose proof (dval_bounds v Hv). lia. Qed.

Theorem cart_count_is_length s : cart_inv s ->
  exists l, yields (cart_step m) s l /\ Z.of_nat (length l) = cart_count s.
Proof.
  apply (count_is_length (cart_step m) cart_inv cart_count).
  - apply cart_inv_step. - apply cart_count_none. - apply cart_count_some. - apply cart_count_nonneg.
Qed.

(* ---- the implementation's len (checked usize arithmetic) is the count squeezed through usize:
   Some count when it fits, None ("infinite") when it does not; never a panic ---- *)
Lemma chk_usize_ok z : 0 <= z < 2 ^ 64 -> chk_usize z = Ok z.
Proof.
  intros. unfold chk_usize, in_usizeb, usize_max.
  destruct (Z.leb_spec 0 z); [|lia]. destruct (Z.leb_spec z (2 ^ 64 - 1)); [reflexivity|lia].
Qed.
Lemma to_usize_z_spec z : 0 <= z -> to_usize_z z = if z <? 2 ^ 64 then Some z else None.
Proof.
  intros. destruct (Z.ltb_spec z (2 ^ 64)); [apply to_usize_small | apply to_usize_big]; lia.
Qed.

Lemma cart_len_aux_exact : M < 2 ^ 64 -> forall v, valid v ->
  cart_len_aux M v =
  Ok (if M ^ Z.of_nat (length v) - dval v <? 2 ^ 64
      then Some (to_usize_z (M ^ Z.of_nat (length v)), M ^ Z.of_nat (length v) - dval v)
      else None).
Proof.
  intros HM. induction v as [|d r IH]; intros Hv; [reflexivity|].
  inversion Hv; subst. assert (Hm : 0 < M) by lia.
  pose proof (pow_len_pos r Hm) as Hp. rewrite pow_succ_len.
  pose proof (dval_bounds r H2) as Hd.
  set (P := M ^ Z.of_nat (length r)) in *. set (R := dval r) in *.
  cbn [cart_len_aux dval]. fold P. fold R. rewrite IH by assumption. cbn [bind].
  set (e := M - 1 - Z.of_nat d).
  assert (He : 0 <= e < 2 ^ 64) by (unfold e; lia).
  assert (HS : M * P - (Z.of_nat d * P + R) = e * P + (P - R)) by (unfold e; ring).
  rewrite HS.
  assert (HeP : 0 <= e * P) by (apply Z.mul_nonneg_nonneg; lia).
  assert (HMP : P <= M * P) by (replace P with (1 * P) at 1 by ring; apply Z.mul_le_mono_nonneg_r; lia).
  destruct (Z.ltb_spec (P - R) (2 ^ 64)) as [Hs|Hs].
  2:{ destruct (Z.ltb_spec (e * P + (P - R)) (2 ^ 64)); [lia|reflexivity]. }
  unfold sub_usize. rewrite (chk_usize_ok (M - 1)) by lia. cbn [bind]. fold e.
  rewrite (chk_usize_ok e) by lia. cbn [bind].
  assert (Hcur : omul (to_usize_z P) M = to_usize_z (M * P)).
  { rewrite (to_usize_z_spec P) by lia. destruct (Z.ltb_spec P (2 ^ 64)); cbn [omul].
    - f_equal. ring.
    - symmetry. apply to_usize_big. lia. }
  destruct (Z.ltb_spec 0 e) as [Hpos|Hzero].
  - unfold add_term. rewrite (to_usize_z_spec P) by lia.
    assert (HPe : P <= e * P) by (replace P with (1 * P) at 1 by ring; apply Z.mul_le_mono_nonneg_r; lia).
    destruct (Z.ltb_spec P (2 ^ 64)) as [HP|HP]; cbn [omul].
    + rewrite (Z.mul_comm P e). rewrite (to_usize_z_spec (e * P)) by lia.
      destruct (Z.ltb_spec (e * P) (2 ^ 64)) as [HeP'|HeP'].
      * rewrite (to_usize_z_spec (P - R + e * P)) by lia. rewrite (Z.add_comm (P - R) (e * P)).
        destruct (Z.ltb_spec (e * P + (P - R)) (2 ^ 64)); [|reflexivity].
        rewrite <- Hcur. rewrite (to_usize_z_spec P) by lia.
        destruct (Z.ltb_spec P (2 ^ 64)); [reflexivity|lia].
      * destruct (Z.ltb_spec (e * P + (P - R)) (2 ^ 64)); [lia|reflexivity].
    + destruct (Z.ltb_spec (e * P + (P - R)) (2 ^ 64)); [lia|reflexivity].
  - assert (e = 0) by lia. replace (e * P) with 0 by (subst e; lia). rewrite Z.add_0_l.
    destruct (Z.ltb_spec (P - R) (2 ^ 64)); [|lia]. rewrite Hcur. reflexivity.
Qed.

Theorem cart_len_is_count s : Z.of_nat m < 2 ^ 64 -> cart_inv s ->
  cart_len m s = Ok (to_usize_z (cart_count s)).
Proof.
  intros HM. destruct s as [v|]; [|reflexivity]. intros Hv.
  cbn [cart_len cart_count]. rewrite cart_len_aux_exact by assumption. cbn [omap bind].
  pose proof (dval_bounds v Hv).
  destruct (Z.ltb_spec (M ^ Z.of_nat (length v) - dval v) (2 ^ 64)); cbn [option_map snd];
    [rewrite (to_usize_small (M ^ Z.of_nat (length v) - dval v)) by lia
    |rewrite (to_usize_big (M ^ Z.of_nat (length v) - dval v)) by lia]; reflexivity.
Qed.

(* len = the number of elements iteration yields when that fits a machine word, and "infinite"
   otherwise (known finding len-count-ge-2^64); never a panic *)
Theorem cart_len_counts_iteration s l : Z.of_nat m < 2 ^ 64 -> cart_inv s ->
  yields (cart_step m) s l -> cart_len m s = Ok (to_usize_z (Z.of_nat (length l))).
Proof.
  intros HM Hi Hy. destruct (cart_count_is_length s Hi) as [l' [Hy' Hl]].
  rewrite (yields_fun _ _ _ Hy _ Hy'), Hl. apply cart_len_is_count; assumption.
Qed.

(* ---- enumeration: from v, the vectors with values dval v, dval v + 1, ..., m^k - 1 ---- *)
Lemma cart_chain : forall l v, valid v -> yields (cart_step m) (Some v) l ->
  Forall (fun w => valid w /\ length w = length v) l /\
  map dval l = map (fun i => dval v + Z.of_nat i) (seq 0 (length l)) /\
  Z.of_nat (length l) = M ^ Z.of_nat (length v) - dval v.
Proof.
  induction l as [|w l IH]; intros v Hv Hy.
  - apply yields_inv_nil in Hy. discriminate.
  - apply yields_inv_cons in Hy. destruct Hy as [H1 H2]. cbn [cart_step fst snd] in H1, H2.
    injection H1 as <-. pose proof (cart_inc_spec v Hv) as Hs.
    destruct (cart_inc m v) as [v'|].
    + destruct Hs as [Hv' [Hl Hd]]. destruct (IH v' Hv' H2) as [Hf [Hm Hn]].
      split; [|split].
      * constructor; [auto|]. eapply Forall_impl; [|exact Hf]. cbn. intros a [? ?]. split; [auto|lia].
      * cbn [length seq map]. rewrite Z.add_0_r. f_equal. rewrite Hm, <- seq_shift, map_map.
        apply map_ext. intros. lia.
      * cbn [length]. rewrite Hl in Hn. lia.
    + destruct l as [|w' l'].
      * split; [|split]; [constructor; auto | cbn; f_equal; lia | cbn [length]; lia].
      * apply yields_inv_cons in H2. destruct H2 as [H2 _]. discriminate.
Qed.

Lemma sorted_by_value : forall l k, Forall (fun w => valid w /\ length w = k) l ->
  (forall i j, (i < j < length l)%nat -> nth i (map dval l) 0 < nth j (map dval l) 0) ->
  StronglySorted (fun u v => lex_lt u v = true) l.
Proof.
  induction l as [|a l IH]; intros k Hf Hlt; [constructor|].
  inversion Hf; subst. constructor.
  - apply (IH k); [exact H2|].
    intros i j Hij. apply (Hlt (S i) (S j)). cbn [length]. lia.
  - apply Forall_forall. intros w Hw. destruct (In_nth _ _ [] Hw) as [j [Hj Hn]].
    rewrite Forall_forall in H2. destruct (H2 w Hw) as [Hvw Hlw]. destruct H1 as [Hva Hla].
    apply lex_dval; [assumption..|lia|].
    specialize (Hlt O (S j)). cbn [length map nth] in Hlt.
    rewrite (nth_map_default dval l j [] 0), Hn in Hlt by lia.
    apply Hlt. lia.
Qed.

Theorem cart_enumerates k l : yields (cart_step m) (cart_init m k) l -> enumerates (is_tuple m k) l.
Proof.
  unfold cart_init. intros Hy.
  destruct ((m =? 0)%nat && negb (k =? 0)%nat) eqn:E.
  - (* empty base, positive power: nothing *)
    apply andb_true_iff in E. destruct E as [E1 E2]. apply Nat.eqb_eq in E1. apply negb_true_iff, Nat.eqb_neq in E2.
    destruct l; [|apply yields_inv_cons in Hy; destruct Hy; discriminate].
    split; [|constructor]. intros v. split; [contradiction|]. intros [Hl Hf]. destruct v; [cbn in Hl; lia|].
    inversion Hf; lia.
  - assert (Hv0 : valid (repeat O k)).
    { apply Forall_forall. intros d Hd. destruct m as [|m'].
      - cbn in E. destruct k; [contradiction|discriminate].
      - apply repeat_spec in Hd. subst. lia. }
    assert (Hz : dval (repeat O k) = 0).
    { clear. induction k; cbn [repeat dval]; [reflexivity|]. rewrite IHk. lia. }
    destruct (cart_chain l _ Hv0 Hy) as [Hf [Hm Hn]]. rewrite repeat_length, Hz in *.
    split.
    + intros w. split.
      * intros Hw. rewrite Forall_forall in Hf. destruct (Hf w Hw). split; assumption.
      * intros [Hl Hw]. pose proof (dval_bounds w Hw) as Hb. rewrite Hl in Hb.
        set (i := Z.to_nat (dval w)). assert (Hi : (i < length l)%nat) by lia.
        assert (Hnth : dval (nth i l []) = dval w).
        { rewrite <- (nth_map_default dval l i [] 0) by lia. rewrite Hm.
          rewrite (nth_map_default _ _ i O 0) by (rewrite seq_length; lia). rewrite seq_nth by lia. lia. }
        assert (Hin : In (nth i l []) l) by (apply nth_In; assumption).
        rewrite Forall_forall in Hf. destruct (Hf _ Hin) as [Hv' Hl'].
        rewrite <- (dval_inj _ _ Hv' Hw); [assumption|lia|assumption].
    + apply (sorted_by_value l k Hf). intros i j Hij. rewrite Hm.
      rewrite !(nth_map_default _ _ _ O 0) by (rewrite seq_length; lia). rewrite !seq_nth by lia. lia.
Qed.
End Radix.

(* ------------------------------------------------------------------ Subsequences *)
(* masks are radix-2 digit vectors; sub_inc is cart_inc 2 *)
Definition bits (v : list bool) : list nat := map nat_of_bool v.
Definition obits (s : option (list bool)) : ivstate := option_map bits s.

Lemma bits_length v : length (bits v) = length v.
Proof. apply map_length. Qed.
Lemma bits_valid v : valid 2 (bits v).
Proof. induction v as [|[|] r]; constructor; cbn; auto; lia. Qed.

Lemma sub_inc_sim : forall v, option_map bits (sub_inc v) = cart_inc 2 (bits v).
Proof.
  induction v as [|b r IH]; [reflexivity|]. cbn [sub_inc bits map cart_inc]. fold (bits r).
  rewrite <- IH. destruct (sub_inc r) as [r'|]; cbn [option_map]; [reflexivity|].
  destruct b; cbn; [reflexivity|]. unfold bits. rewrite !map_map. reflexivity.
Qed.

Lemma sub_step_sim s :
  cart_step 2 (obits s) = (option_map bits (fst (sub_step s)), obits (snd (sub_step s))).
Proof. destruct s as [v|]; cbn; [|reflexivity]. rewrite <- sub_inc_sim. reflexivity. Qed.

Lemma sub_yields_sim : forall s l, yields sub_step s l -> yields (cart_step 2) (obits s) (map bits l).
Proof.
  induction 1 as [s H|s e l H Hy IH].
  - constructor. rewrite sub_step_sim. cbn. rewrite H. reflexivity.
  - cbn [map]. econstructor.
    + rewrite sub_step_sim. cbn. rewrite H. reflexivity.
    + rewrite sub_step_sim. cbn [snd]. assumption.
Qed.
Lemma sub_yields_sim_inv : forall l' s, yields (cart_step 2) (obits s) l' ->
  exists l, yields sub_step s l /\ l' = map bits l.
Proof.
  induction l' as [|w l' IH]; intros s Hy.
  - exists []. split; [|reflexivity]. constructor. apply yields_inv_nil in Hy.
    rewrite sub_step_sim in Hy. cbn in Hy. destruct (fst (sub_step s)); [discriminate|reflexivity].
  - apply yields_inv_cons in Hy. destruct Hy as [H1 H2]. rewrite sub_step_sim in H1, H2. cbn [fst snd] in H1, H2.
    destruct (fst (sub_step s)) as [e|] eqn:E; [|discriminate]. cbn in H1. injection H1 as <-.
    destruct (IH _ H2) as [l [Hy Hl]]. exists (e :: l). split; [econstructor; eauto | cbn; f_equal; assumption].
Qed.

Definition sub_count (s : option (list bool)) : Z := cart_count 2 (obits s).

Theorem sub_count_is_length s : exists l, yields sub_step s l /\ Z.of_nat (length l) = sub_count s.
Proof.
  assert (Hi : cart_inv 2 (obits s)) by (destruct s; cbn; [apply bits_valid|exact I]).
  destruct (cart_count_is_length 2 _ Hi) as [l' [Hy Hl]].
  destruct (sub_yields_sim_inv _ _ Hy) as [l [Hy' ->]]. exists l. rewrite map_length in Hl. auto.
Qed.

(* one-step lemmas, for every state *)
Lemma sub_count_some s e : fst (sub_step s) = Some e -> sub_count s = 1 + sub_count (snd (sub_step s)).
Proof.
  intros H. unfold sub_count.
  assert (Hi : cart_inv 2 (obits s)) by (destruct s; cbn; [apply bits_valid|exact I]).
  pose proof (cart_count_some 2 (obits s) (bits e) Hi) as Hc. rewrite sub_step_sim in Hc. cbn [fst snd] in Hc.
  apply Hc. rewrite H. reflexivity.
Qed.
Lemma sub_count_none s : fst (sub_step s) = None -> sub_count s = 0.
Proof. destruct s; cbn; [discriminate|reflexivity]. Qed.

Lemma sub_len_aux_exact : forall v,
  sub_len_aux v =
  if 2 ^ Z.of_nat (length v) - dval 2 (bits v) <? 2 ^ 64
  then Some (to_usize_z (2 ^ Z.of_nat (length v)), 2 ^ Z.of_nat (length v) - dval 2 (bits v))
  else None.
Proof.
  induction v as [|b r IH]; [reflexivity|].
  pose proof (dval_bounds 2 (bits r) (bits_valid r)) as Hd. rewrite bits_length in Hd.
  change (Z.of_nat 2) with 2 in *.
  assert (Hp : 0 < 2 ^ Z.of_nat (length r)) by (apply Z.pow_pos_nonneg; lia).
  assert (Hs : 2 ^ Z.of_nat (length (b :: r)) = 2 * 2 ^ Z.of_nat (length r)).
  { cbn [length]. rewrite Nat2Z.inj_succ, Z.pow_succ_r by lia. reflexivity. }
  rewrite Hs. change (bits (b :: r)) with (nat_of_bool b :: bits r). cbn [dval]. rewrite bits_length.
  change (Z.of_nat 2) with 2.
  set (P := 2 ^ Z.of_nat (length r)) in *. set (R := dval 2 (bits r)) in *.
  cbn [sub_len_aux]. rewrite IH. fold P R.
  assert (Hcur : omul (to_usize_z P) 2 = to_usize_z (2 * P)).
  { rewrite (to_usize_z_spec P) by lia. destruct (Z.ltb_spec P (2 ^ 64)); cbn [omul].
    - f_equal. ring.
    - symmetry. apply to_usize_big. lia. }
  destruct (Z.ltb_spec (P - R) (2 ^ 64)) as [HS|HS].
  2:{ destruct b; cbn [nat_of_bool].
      - destruct (Z.ltb_spec (2 * P - (Z.of_nat 1 * P + R)) (2 ^ 64)); [lia|reflexivity].
      - destruct (Z.ltb_spec (2 * P - (Z.of_nat 0 * P + R)) (2 ^ 64)); [lia|reflexivity]. }
  destruct b; cbn [nat_of_bool].
  - replace (2 * P - (Z.of_nat 1 * P + R)) with (P - R) by lia.
    destruct (Z.ltb_spec (P - R) (2 ^ 64)); [|lia]. rewrite Hcur. reflexivity.
  - replace (2 * P - (Z.of_nat 0 * P + R)) with (P - R + P) by lia.
    unfold add_term. rewrite (to_usize_z_spec P) by lia.
    destruct (Z.ltb_spec P (2 ^ 64)) as [HP|HP]; cbn [omul].
    + rewrite Z.mul_1_r. rewrite (to_usize_z_spec P) by lia.
      destruct (Z.ltb_spec P (2 ^ 64)); [|lia].
      rewrite (to_usize_z_spec (P - R + P)) by lia.
      destruct (Z.ltb_spec (P - R + P) (2 ^ 64)); [|reflexivity].
      rewrite <- Hcur. rewrite (to_usize_z_spec P) by lia.
      destruct (Z.ltb_spec P (2 ^ 64)); [reflexivity|lia].
    + destruct (Z.ltb_spec (P - R + P) (2 ^ 64)); [lia|reflexivity].
Qed.

(* len = the number of elements iteration yields when that fits a machine word, "infinite"
   otherwise (known finding len-count-ge-2^64); never a panic, for every state *)
Theorem sub_len_counts_iteration s l :
  yields sub_step s l -> sub_len s = Ok (to_usize_z (Z.of_nat (length l))).
Proof.
  intros Hy. destruct (sub_count_is_length s) as [l' [Hy' Hl]].
  rewrite (yields_fun _ _ _ Hy _ Hy'), Hl. clear Hy Hy' Hl l l'.
  destruct s as [v|]; [|reflexivity].
  cbn [sub_len]. rewrite sub_len_aux_exact.
  pose proof (dval_bounds 2 (bits v) (bits_valid v)) as Hd. rewrite bits_length in Hd.
  change (Z.of_nat 2) with 2 in *.
  unfold sub_count, obits, option_map, cart_count. rewrite bits_length. change (Z.of_nat 2) with 2.
  destruct (Z.ltb_spec (2 ^ Z.of_nat (length v) - dval 2 (bits v)) (2 ^ 64)); cbn [option_map snd];
    [rewrite (to_usize_small (2 ^ Z.of_nat (length v) - dval 2 (bits v))) by lia
    |rewrite (to_usize_big (2 ^ Z.of_nat (length v) - dval 2 (bits v))) by lia]; reflexivity.
Qed.

(* known finding len-count-ge-2^64: 64 flags, 2^64 subsequences, len reports infinity; one
   element later the count 2^64 - 1 fits and is reported exactly *)
Theorem sub_len_huge_refuted :
  (exists l, yields sub_step (sub_init 64) l /\ Z.of_nat (length l) = 2 ^ 64) /\
  sub_len (sub_init 64) = Ok None /\
  sub_len (snd (sub_step (sub_init 64))) = Ok (Some (2 ^ 64 - 1)).
Proof.
  split; [|split].
  - destruct (sub_count_is_length (sub_init 64)) as [l [Hy Hl]]. exists l. split; [assumption|].
    rewrite Hl. vm_compute. reflexivity.
  - vm_compute. reflexivity.
  - vm_compute. reflexivity.
Qed.

Theorem sub_enumerates n l : yields sub_step (sub_init n) l -> enumerates (is_mask n) (map bits l).
Proof.
  intros Hy. apply sub_yields_sim in Hy.
  assert (E : obits (sub_init n) = cart_init 2 n).
  { unfold sub_init, cart_init, obits, option_map, bits. cbn [Nat.eqb andb]. f_equal.
    clear. induction n; cbn [repeat map nat_of_bool]; [reflexivity|]. rewrite IHn. reflexivity. }
  rewrite E in Hy. apply (cart_enumerates 2 n) in Hy. exact Hy.
Qed.

(* the element produced for a mask is the subsequence it selects *)
Lemma mask_select_spec {A} : forall (v : list bool) (base : list A), length v = length base ->
  mask_select v base = map snd (filter fst (combine v base)).
Proof.
  induction v as [|b v IH]; intros [|x base] Hl; try discriminate; [reflexivity|].
  cbn [mask_select combine filter]. injection Hl as Hl. destruct b; cbn [fst map snd]; rewrite IH by assumption; reflexivity.
Qed.

(* known finding len-count-ge-2^64 for cartesian powers: 2^64 tuples, len reports infinity *)
Theorem cart_len_huge_refuted :
  (exists l, yields (cart_step 2) (cart_init 2 64) l /\ Z.of_nat (length l) = 2 ^ 64) /\
  cart_len 2 (cart_init 2 64) = Ok None.
Proof.
  split.
  - assert (Hi : cart_inv 2 (cart_init 2 64)).
    { apply Forall_forall. intros d Hd. apply repeat_spec in Hd. subst. lia. }
    destruct (cart_count_is_length 2 _ Hi) as [l [Hy Hl]]. exists l. split; [assumption|].
    rewrite Hl. vm_compute. reflexivity.
  - vm_compute. reflexivity.
Qed.

(* the element built from an index vector: indices below the base length never hit the
   slice-index panic of self.0[*i] *)
Lemma pick_ok {A} (d : A) (base : list A) : forall v, Forall (fun i => (i < length base)%nat) v ->
  pick base v = Ok (map (fun i => nth i base d) v).
Proof.
  induction v as [|i v IH]; intros Hf; [reflexivity|]. inversion Hf; subst.
  unfold pick in *. cbn [mapM map]. rewrite IH by assumption. unfold rust_get.
  destruct (Z.leb_spec 0 (Z.of_nat i)); [|lia]. rewrite Nat2Z.id.
  rewrite (nth_error_nth' base d H1). reflexivity.
Qed.
