(* C13 - further facts about the specification: take/drop (predicate forms), locate/find,
   min/max, count/any/all, enumerate, pairwise, and unbounded facts about the enumerators. *)
From Coq Require Import List Bool Arith Lia Permutation.
From NV Require Import Seq.SeqLib Seq.SeqLib_proofs.
Import ListNotations.

Section Elementwise.
  Variable A : Type.
  Variable p : A -> bool.

  Theorem take_drop_while : forall xs,
    sl_take_while p xs ++ sl_drop_while p xs = xs /\
    Forall (fun x => p x = true) (sl_take_while p xs) /\
    match sl_drop_while p xs with [] => True | y :: _ => p y = false end.
  Proof.
    induction xs as [|x t (I1 & I2 & I3)]; [repeat split; constructor|].
    cbn [sl_take_while sl_drop_while]. destruct (p x) eqn:E.
    - cbn [app]. rewrite I1. repeat split; auto.
    - repeat split; auto.
  Qed.

  (* locate is the position of the element find returns: the first one satisfying p *)
  Theorem locate_find : forall xs,
    match sl_locate p xs with
    | Some i => (exists x, nth_error xs i = Some x /\ p x = true /\ sl_find p xs = Some x) /\
                (forall j y, j < i -> nth_error xs j = Some y -> p y = false)
    | None => sl_find p xs = None /\ Forall (fun x => p x = false) xs
    end.
  Proof.
    induction xs as [|x t IH]; [split; [reflexivity|constructor]|].
    cbn [sl_locate sl_find find]. destruct (p x) eqn:E.
    - split; [exists x; auto|intros j y Hj; lia].
    - unfold sl_find in IH. destruct (sl_locate p t) as [i|]; cbn [option_map].
      + destruct IH as ((y & H1 & H2 & H3) & H4). split; [exists y; auto|].
        intros j z Hj Hz. destruct j as [|j]; [cbn in Hz; inversion Hz; subst; exact E|]. cbn in Hz. apply (H4 j); auto. lia.
      + destruct IH as (H1 & H2). split; auto.
  Qed.

  Lemma filter_len_le : forall (q : A -> bool) l, length (filter q l) <= length l.
  Proof. induction l as [|x t IH]; cbn [filter length]; [lia|]. destruct (q x); cbn [length]; lia. Qed.

  Theorem count_any_all : forall xs,
    sl_count p xs + sl_count (fun x => negb (p x)) xs = length xs /\
    (sl_any p xs = true <-> 0 < sl_count p xs) /\
    (sl_all p xs = true <-> sl_count p xs = length xs) /\
    sl_any p xs = negb (sl_all (fun x => negb (p x)) xs).
  Proof.
    unfold sl_count, sl_any, sl_all. induction xs as [|x t (I1 & I2 & I3 & I4)]; [cbn; repeat split; auto; lia|].
    cbn [filter existsb forallb length]. destruct (p x) eqn:E; cbn [negb length orb andb].
    - split; [lia|]. split; [split; auto; lia|]. split; [|reflexivity].
      rewrite I3. pose proof (filter_len_le p t). lia.
    - split; [lia|]. split; [exact I2|]. split; [|exact I4].
      split; [discriminate|]. pose proof (filter_len_le p t). lia.
  Qed.
End Elementwise.

Theorem enumerate_spec : forall A (xs : list A),
  length (sl_enumerate xs) = length xs /\
  forall i x, nth_error xs i = Some x -> nth_error (sl_enumerate xs) i = Some (i, x).
Proof.
  intros A xs. unfold sl_enumerate. split; [rewrite combine_length, seq_length; lia|].
  assert (H : forall s i x, nth_error xs i = Some x -> nth_error (combine (seq s (length xs)) xs) i = Some (s + i, x)).
  { induction xs as [|y t IH]; intros s i x H; [destruct i; discriminate|].
    cbn [length seq combine]. destruct i as [|i]; [cbn in *; inversion H; now rewrite Nat.add_0_r|].
    cbn [nth_error] in *. rewrite (IH (S s) i x H). f_equal. f_equal. lia. }
  intros i x Hx. exact (H 0 i x Hx).
Qed.

Theorem pairwise_spec : forall A B (f : A -> A -> B) (xs : list A) d e,
  length (sl_pairwise f xs) = length xs - 1 /\
  forall i, S i < length xs -> nth i (sl_pairwise f xs) e = f (nth i xs d) (nth (S i) xs d).
Proof.
  intros A B f xs d e. unfold sl_pairwise.
  split; [rewrite map_length, combine_length; destruct xs; cbn [length tl]; lia|].
  induction xs as [|x t IH]; intros i Hi; [cbn in Hi; lia|].
  destruct t as [|y u]; [cbn in Hi; lia|]. cbn [tl combine map fst snd].
  destruct i as [|i]; [reflexivity|]. cbn [nth]. cbn [tl] in IH. rewrite IH by (cbn [length] in *; lia). reflexivity.
Qed.

(* ------------------------------------------------------------------ min / max *)
Section Extremum.
  Variable A : Type.
  Variable leb : A -> A -> bool.
  Hypothesis leb_total : forall a b, leb a b = true \/ leb b a = true.
  Hypothesis leb_trans : forall a b c, leb a b = true -> leb b c = true -> leb a c = true.
  (* b strictly beats r *)
  Definition beats (b r : A) : bool := negb (leb r b).

  Lemma find_app_l : forall (q : A -> bool) l1 l2 x, find q l1 = Some x -> find q (l1 ++ l2) = Some x.
  Proof. induction l1 as [|y t IH]; intros l2 x H; [discriminate|]. cbn in *. destruct (q y); auto. Qed.
  Lemma find_app_r : forall (q : A -> bool) l1 l2, (forall y, In y l1 -> q y = false) -> find q (l1 ++ l2) = find q l2.
  Proof. induction l1 as [|y t IH]; intros l2 H; [reflexivity|]. cbn. rewrite (H y) by now left. apply IH. intros z Hz. apply H. now right. Qed.

  Lemma extremum_inv : forall t pre r,
    In r pre -> (forall x, In x pre -> leb r x = true) -> find (fun x => leb x r) pre = Some r ->
    forall m, m = fold_left (fun r b => if beats b r then b else r) t r ->
    In m (pre ++ t) /\ (forall x, In x (pre ++ t) -> leb m x = true) /\ find (fun x => leb x m) (pre ++ t) = Some m.
  Proof.
    unfold beats. induction t as [|b t IH]; intros pre r Hin Hle Hf m Hm; cbn [fold_left] in Hm; [subst m|].
    - rewrite app_nil_r. auto.
    - replace (pre ++ b :: t) with ((pre ++ [b]) ++ t) by (now rewrite <- app_assoc).
      destruct (leb r b) eqn:E; cbn [negb] in Hm.
      + apply (IH (pre ++ [b]) r); [ | | |exact Hm].
        * apply in_or_app. now left.
        * intros x Hx. apply in_app_or in Hx as [Hx|[<-|[]]]; auto.
        * now apply find_app_l.
      + assert (Hbr : leb b r = true) by (destruct (leb_total b r); congruence).
        apply (IH (pre ++ [b]) b); [ | | |exact Hm].
        * apply in_or_app. right. now left.
        * intros x Hx. apply in_app_or in Hx as [Hx|[<-|[]]]; [eapply leb_trans; eauto|destruct (leb_total b b); auto].
        * rewrite find_app_r.
          -- cbn. destruct (leb_total b b) as [H|H]; now rewrite H.
          -- intros y Hy. destruct (leb y b) eqn:Ey; [|reflexivity].
             rewrite (leb_trans r y b (Hle y Hy) Ey) in E. discriminate.
  Qed.

  (* min (max with the reversed order): an element of the input that no element beats, and the
     FIRST such element: every element before it is strictly worse *)
  Theorem extremum_first_best : forall xs,
    match sl_extremum beats xs with
    | None => xs = []
    | Some m => In m xs /\ (forall x, In x xs -> leb m x = true) /\ find (fun x => leb x m) xs = Some m
    end.
  Proof.
    intros [|x t]; [reflexivity|]. cbn [sl_extremum sl_fold].
    apply (extremum_inv t [x] x); [now left| | |reflexivity].
    - intros y [<-|[]]. destruct (leb_total x x); auto.
    - cbn. destruct (leb_total x x) as [H|H]; now rewrite H.
  Qed.
End Extremum.

(* ------------------------------------------------------------------ enumerators, unbounded facts *)
Section EnumMore.
  Variable A : Type.

  Lemma selects_spec : forall (xs : list A) y r, In (y, r) (selects xs) -> Permutation (y :: r) xs.
  Proof.
    induction xs as [|x t IH]; intros y r H; [destruct H|].
    cbn [selects] in H. destruct H as [H|H]; [inversion H; subst; apply Permutation_refl|].
    apply in_map_iff in H as ([y' r'] & E & H). cbn [fst snd] in E. inversion E; subst.
    eapply perm_trans; [apply perm_swap|]. constructor. now apply IH.
  Qed.

  Lemma selects_length : forall (xs : list A), length (selects xs) = length xs.
  Proof. induction xs; cbn [selects length]; [reflexivity|]. now rewrite map_length, IHxs. Qed.

  Lemma perms_sound : forall n (xs : list A) p, length xs = n -> In p (perms n xs) -> Permutation p xs.
  Proof.
    induction n as [|n IH]; intros xs p Hl H.
    - destruct xs; [|discriminate]. destruct H as [<-|[]]. constructor.
    - cbn [perms] in H. apply in_flat_map in H as ([y r] & Hs & H). cbn [fst snd] in H.
      apply in_map_iff in H as (q & <- & Hq). pose proof (selects_spec xs y r Hs) as Hp.
      eapply perm_trans; [|exact Hp]. constructor. apply IH; auto.
      apply Permutation_length in Hp. cbn [length] in Hp. lia.
  Qed.

  Lemma perms_length : forall n (xs : list A), length xs = n -> length (perms n xs) = fact n.
  Proof.
    induction n as [|n IH]; intros xs Hl; [reflexivity|].
    cbn [perms fact]. assert (H : forall l : list (A * list A), (forall yr, In yr l -> length (snd yr) = n) ->
      length (flat_map (fun yr => map (cons (fst yr)) (perms n (snd yr))) l) = length l * fact n).
    { induction l as [|yr l IHl]; intros Hn; [reflexivity|]. cbn [flat_map length Nat.mul].
      rewrite app_length, map_length, IH by (apply Hn; now left). rewrite IHl; [lia|]. intros z Hz. apply Hn. now right. }
    rewrite H.
    - rewrite selects_length, Hl. cbn [Nat.mul]. lia.
    - intros [y r] Hyr. cbn [snd]. apply selects_spec, Permutation_length in Hyr. cbn [length] in Hyr. lia.
  Qed.

  (* every result of permutations is a rearrangement of the input, and there are len! of them *)
  Theorem permutations_sound : forall (xs : list A),
    length (sl_permutations xs) = fact (length xs) /\
    forall p, In p (sl_permutations xs) -> Permutation p xs.
  Proof. intros xs. split; [now apply perms_length|intros p; now apply perms_sound]. Qed.

  (* combinations(xs, k) are exactly the k-element subsequences *)
  Theorem combinations_subseq : forall (xs : list A) k c,
    In c (sl_combinations xs k) <-> subseq c xs /\ length c = k.
  Proof.
    induction xs as [|x t IH]; intros k c.
    - destruct k; cbn [sl_combinations].
      + split; [intros [<-|[]]; split; constructor|intros [H1 H2]; destruct c; [now left|discriminate]].
      + split; [intros []|intros [H1 H2]; inversion H1; subst; discriminate].
    - destruct k as [|k]; cbn [sl_combinations].
      + split; [intros [<-|[]]; split; constructor|intros [H1 H2]; destruct c; [now left|discriminate]].
      + rewrite in_app_iff. split.
        * intros [H|H].
          -- apply in_map_iff in H as (c' & <- & H). apply IH in H as [H1 H2]. split; [now constructor|cbn; lia].
          -- apply IH in H as [H1 H2]. split; [now constructor|assumption].
        * intros [H1 H2]. inversion H1; subst.
          -- discriminate.
          -- left. apply in_map_iff. exists l1. split; auto. apply IH. cbn in H2. split; auto; lia.
          -- right. apply IH. auto.
  Qed.
End EnumMore.
