(* C13 - unbounded: permutations and combinations of strictly increasing index lists come out
   in strictly increasing lexicographic order (hence without repetition), and permutations is
   complete (every rearrangement appears). Together with naturality (SeqEnum_proofs) and
   membership (SeqMore_proofs) this is "exactly the documented set, once each, in the documented
   order" for every length. *)
From Coq Require Import List Bool Arith Lia Permutation Sorted.
From NV Require Import Seq.SeqLib Seq.SeqLib_proofs Seq.SeqMore_proofs Seq.SeqEnum_proofs.
Import ListNotations.

(* strict lexicographic order on index lists *)
Inductive lex_lt : list nat -> list nat -> Prop :=
| lex_nil : forall y l, lex_lt [] (y :: l)
| lex_head : forall x y l1 l2, x < y -> lex_lt (x :: l1) (y :: l2)
| lex_tail : forall x l1 l2, lex_lt l1 l2 -> lex_lt (x :: l1) (x :: l2).

Lemma lex_lt_irrefl : forall l, ~ lex_lt l l.
Proof. induction l as [|x t IH]; intros H; inversion H; subst; [lia|auto]. Qed.

Lemma SS_app : forall (T : Type) (R : T -> T -> Prop) l1 l2,
  StronglySorted R l1 -> StronglySorted R l2 -> (forall a b, In a l1 -> In b l2 -> R a b) ->
  StronglySorted R (l1 ++ l2).
Proof.
  induction l1 as [|x t IH]; intros l2 H1 H2 H; [exact H2|].
  inversion H1; subst. cbn [app]. constructor.
  - apply IH; auto. intros a b Ha Hb. apply H; auto. now right.
  - apply Forall_app. split; auto. apply Forall_forall. intros b Hb. apply H; auto. now left.
Qed.

Lemma SS_map_cons : forall x l, StronglySorted lex_lt l -> StronglySorted lex_lt (map (cons x) l).
Proof.
  induction l as [|a t IH]; intros H; [constructor|]. inversion H; subst. cbn [map]. constructor; auto.
  apply Forall_forall. intros b Hb. apply in_map_iff in Hb as (b' & <- & Hb'). apply lex_tail.
  rewrite Forall_forall in H3. auto.
Qed.

Lemma SS_lex_NoDup : forall l, StronglySorted lex_lt l -> NoDup l.
Proof.
  induction l as [|a t IH]; intros H; constructor; inversion H; subst; auto.
  intros Hin. rewrite Forall_forall in H3. exact (lex_lt_irrefl a (H3 a Hin)).
Qed.

(* ------------------------------------------------------------------ combinations *)
Lemma subseq_in : forall (T : Type) (a b : list T) x, subseq a b -> In x a -> In x b.
Proof.
  intros T a b x H. induction H; intros Hx; [destruct Hx| |right; auto].
  destruct Hx as [<-|Hx]; [now left|right; auto].
Qed.

Theorem combinations_lex_sorted : forall xs k, StronglySorted lt xs ->
  StronglySorted lex_lt (sl_combinations xs k).
Proof.
  induction xs as [|x t IH]; intros k Hs.
  - destruct k; cbn [sl_combinations]; repeat constructor.
  - destruct k as [|k]; [cbn [sl_combinations]; repeat constructor|].
    inversion Hs; subst. cbn [sl_combinations]. apply SS_app.
    + apply SS_map_cons. auto.
    + auto.
    + intros a b Ha Hb. apply in_map_iff in Ha as (a' & <- & _).
      apply combinations_subseq in Hb as [Hb1 Hb2]. destruct b as [|y b']; [discriminate|].
      apply lex_head. rewrite Forall_forall in H2. apply H2. eapply subseq_in; [exact Hb1|now left].
Qed.

(* ------------------------------------------------------------------ permutations *)
Lemma selects_in : forall (T : Type) (xs : list T) y, In y xs -> exists r, In (y, r) (selects xs).
Proof.
  induction xs as [|x t IH]; intros y H; [destruct H|]. destruct H as [->|H].
  - exists t. now left.
  - destruct (IH y H) as (r & Hr). exists (x :: r). right. apply in_map_iff. exists (y, r). auto.
Qed.

Lemma perms_complete : forall (T : Type) n (xs p : list T), length xs = n -> Permutation p xs -> In p (perms n xs).
Proof.
  induction n as [|n IH]; intros xs p Hl Hp.
  - destruct xs; [|discriminate]. apply Permutation_sym, Permutation_nil in Hp. subst. now left.
  - destruct p as [|y p']; [apply Permutation_length in Hp; cbn in Hp; lia|].
    assert (Hy : In y xs) by (eapply Permutation_in; [exact Hp|now left]).
    destruct (selects_in T xs y Hy) as (r & Hr).
    cbn [perms]. apply in_flat_map. exists (y, r). split; auto. cbn [fst snd].
    apply in_map. pose proof (selects_spec T xs y r Hr) as Hs.
    apply IH.
    + apply Permutation_length in Hs. cbn [length] in Hs. lia.
    + apply Permutation_cons_inv with (a := y). eapply perm_trans; [exact Hp|]. now apply Permutation_sym.
Qed.

Theorem permutations_exact : forall (T : Type) (xs p : list T), In p (sl_permutations xs) <-> Permutation p xs.
Proof.
  intros T xs p. split; [now apply perms_sound|now apply perms_complete].
Qed.

Lemma SS_map_fst : forall (g : nat * list nat -> list nat) l,
  StronglySorted (fun a b : nat * list nat => fst a < fst b) l ->
  StronglySorted (fun a b : nat * list nat => fst a < fst b) (map (fun yr => (fst yr, g yr)) l).
Proof.
  induction l as [|a l IH]; intros H; [constructor|]. inversion H; subst. cbn [map]. constructor; auto.
  apply Forall_forall. intros b Hb. apply in_map_iff in Hb as (b' & <- & Hb'). cbn [fst].
  rewrite Forall_forall in H3. auto.
Qed.

Lemma selects_sorted : forall xs, StronglySorted lt xs ->
  StronglySorted (fun a b : nat * list nat => fst a < fst b) (selects xs) /\
  forall y r, In (y, r) (selects xs) -> StronglySorted lt r.
Proof.
  induction xs as [|x t IH]; intros Hs; [split; [constructor|intros y r []]|].
  inversion Hs; subst. destruct (IH H1) as (I1 & I2). rewrite Forall_forall in H2. cbn [selects]. split.
  - constructor.
    + apply SS_map_fst. exact I1.
    + apply Forall_forall. intros b Hb. apply in_map_iff in Hb as ([y r] & <- & Hyr). cbn [fst].
      apply H2. apply selects_spec in Hyr. eapply Permutation_in; [exact Hyr|now left].
  - intros y r [E|H].
    + inversion E; subst. auto.
    + apply in_map_iff in H as ([y' r'] & E & Hyr). cbn [fst snd] in E. inversion E; subst.
      constructor; [eapply I2; eauto|]. apply Forall_forall. intros z Hz. apply H2.
      apply selects_spec in Hyr. eapply Permutation_in; [exact Hyr|now right].
Qed.

Lemma blocks_sorted : forall (F : nat * list nat -> list (list nat)) l,
  StronglySorted (fun a b : nat * list nat => fst a < fst b) l ->
  (forall yr, In yr l -> StronglySorted lex_lt (F yr)) ->
  StronglySorted lex_lt (flat_map (fun yr => map (cons (fst yr)) (F yr)) l).
Proof.
  induction l as [|yr l IH]; intros Hs HF; [constructor|].
  inversion Hs; subst. cbn [flat_map]. apply SS_app.
  - apply SS_map_cons. apply HF. now left.
  - apply IH; auto. intros z Hz. apply HF. now right.
  - intros a b Ha Hb. apply in_map_iff in Ha as (a' & <- & _).
    apply in_flat_map in Hb as (zr & Hz & Hb). apply in_map_iff in Hb as (b' & <- & _).
    apply lex_head. rewrite Forall_forall in H2. auto.
Qed.

Lemma perms_lex_sorted : forall n xs, length xs = n -> StronglySorted lt xs -> StronglySorted lex_lt (perms n xs).
Proof.
  induction n as [|n IH]; intros xs Hl Hs; [cbn [perms]; repeat constructor|].
  cbn [perms]. destruct (selects_sorted xs Hs) as (S1 & S2).
  apply (blocks_sorted (fun yr => perms n (snd yr))); auto.
  intros [y r] Hyr. cbn [snd]. apply IH; [|eapply S2; eauto].
  apply selects_spec, Permutation_length in Hyr. cbn [length] in Hyr. lia.
Qed.

Theorem permutations_lex_sorted : forall xs, StronglySorted lt xs -> StronglySorted lex_lt (sl_permutations xs).
Proof. intros. now apply perms_lex_sorted. Qed.

Lemma seq_sorted : forall n s, StronglySorted lt (seq s n).
Proof.
  induction n as [|n IH]; intros s; [constructor|]. cbn [seq]. constructor; auto.
  apply Forall_forall. intros x Hx. apply in_seq in Hx. lia.
Qed.

(* the statement for arbitrary elements: results are the images of index lists *)
Theorem enumerators_exact_unbounded : forall (A : Type) (xs : list A) d,
  let pos := seq 0 (length xs) in
  let at_ := map (fun i => nth i xs d) in
  (sl_permutations xs = map at_ (sl_permutations pos) /\
   StronglySorted lex_lt (sl_permutations pos) /\ NoDup (sl_permutations pos) /\
   forall p, In p (sl_permutations pos) <-> Permutation p pos) /\
  (forall k, sl_combinations xs k = map at_ (sl_combinations pos k) /\
   StronglySorted lex_lt (sl_combinations pos k) /\ NoDup (sl_combinations pos k) /\
   forall c, In c (sl_combinations pos k) <-> subseq c pos /\ length c = k).
Proof.
  intros A xs d pos at_. split.
  - split; [|split; [|split]].
    + unfold at_, pos. rewrite <- permutations_map. now rewrite positions.
    + apply permutations_lex_sorted, seq_sorted.
    + apply SS_lex_NoDup, permutations_lex_sorted, seq_sorted.
    + intros p. apply permutations_exact.
  - intros k. split; [|split; [|split]].
    + unfold at_, pos. rewrite <- combinations_map. now rewrite positions.
    + apply combinations_lex_sorted, seq_sorted.
    + apply SS_lex_NoDup, combinations_lex_sorted, seq_sorted.
    + intros c. apply combinations_subseq.
Qed.
