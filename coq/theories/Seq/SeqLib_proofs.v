(* C13 - facts about the specification Seq/SeqLib.v, for lists of any length over any
   element type. Statements are re-exported verbatim by Props/C13.v. *)
From Coq Require Import List Bool Arith Lia Permutation Sorted.
From NV Require Import Seq.SeqLib.
Import ListNotations.

(* ------------------------------------------------------------------ sort *)
Section Sort.
  Variable A : Type.
  Variable leb : A -> A -> bool.
  Hypothesis leb_total : forall a b, leb a b = true \/ leb b a = true.
  Hypothesis leb_trans : forall a b c, leb a b = true -> leb b c = true -> leb a c = true.

  Definition le (a b : A) : Prop := leb a b = true.
  (* the ==-class of a under the order *)
  Definition equiv (a b : A) : bool := leb a b && leb b a.

  Lemma insert_perm : forall x l, Permutation (x :: l) (insert leb x l).
  Proof.
    induction l as [|y t IH]; simpl; auto.
    destruct (leb x y); auto.
    eapply perm_trans; [apply perm_swap|]. constructor. exact IH.
  Qed.

  Lemma sort_perm : forall xs, Permutation xs (sl_sort leb xs).
  Proof.
    induction xs as [|x t IH]; simpl; auto.
    eapply perm_trans; [|apply insert_perm]. constructor. exact IH.
  Qed.

  Lemma insert_sorted : forall x l, StronglySorted le l -> StronglySorted le (insert leb x l).
  Proof.
    induction l as [|y t IH]; simpl; intros S.
    - constructor; constructor.
    - destruct (leb x y) eqn:E.
      + constructor; auto. constructor; auto.
        inversion S; subst. rewrite Forall_forall in *. intros z Hz. eapply leb_trans; eauto. apply H2; auto.
      + inversion S; subst. constructor; auto.
        assert (Hyx : leb y x = true) by (destruct (leb_total x y); congruence).
        rewrite Forall_forall in *. intros z Hz.
        apply Permutation_in with (l' := x :: t) in Hz; [|apply Permutation_sym, insert_perm].
        destruct Hz as [->|Hz]; auto.
  Qed.

  Lemma sort_sorted : forall xs, StronglySorted le (sl_sort leb xs).
  Proof. induction xs; simpl; [constructor|apply insert_sorted; auto]. Qed.

  (* stability: elements of one ==-class keep their input order *)
  Lemma equiv_congr : forall a x y, leb x y = false -> equiv a y = true -> equiv a x = false.
  Proof.
    unfold equiv. intros a x y Hxy Hay. apply andb_true_iff in Hay as [H1 H2].
    destruct (leb a x) eqn:E1; simpl; auto. destruct (leb x a) eqn:E2; auto.
    rewrite (leb_trans _ _ _ E2 H1) in Hxy. discriminate.
  Qed.

  Lemma insert_filter_class : forall a x l, StronglySorted le l ->
    filter (equiv a) (insert leb x l) = filter (equiv a) (x :: l).
  Proof.
    induction l as [|y t IH]; intros S; [reflexivity|].
    cbn [insert]. destruct (leb x y) eqn:E; [reflexivity|].
    inversion S; subst. cbn [filter]. rewrite IH by assumption. cbn [filter].
    destruct (equiv a y) eqn:Ey; [|reflexivity].
    rewrite (equiv_congr a x y E Ey). reflexivity.
  Qed.

  Lemma sort_stable : forall a xs, filter (equiv a) (sl_sort leb xs) = filter (equiv a) xs.
  Proof.
    induction xs as [|x t IH]; [reflexivity|].
    cbn [sl_sort fold_right]. fold (sl_sort leb t).
    rewrite insert_filter_class by apply sort_sorted. cbn [filter]. rewrite IH. reflexivity.
  Qed.

  Theorem sort_sorted_stable_perm : forall xs,
    StronglySorted le (sl_sort leb xs) /\ Permutation xs (sl_sort leb xs) /\
    forall a, filter (equiv a) (sl_sort leb xs) = filter (equiv a) xs.
  Proof. intros. split; [apply sort_sorted|split; [apply sort_perm|intros; apply sort_stable]]. Qed.
End Sort.

(* ------------------------------------------------------------------ unique, frequencies *)
(* l1 is a subsequence of l2 *)
Inductive subseq {A} : list A -> list A -> Prop :=
| sub_nil : forall l, subseq [] l
| sub_take : forall x l1 l2, subseq l1 l2 -> subseq (x :: l1) (x :: l2)
| sub_skip : forall x l1 l2, subseq l1 l2 -> subseq l1 (x :: l2).

Lemma subseq_refl : forall A (l : list A), subseq l l.
Proof. induction l; constructor; auto. Qed.
Lemma subseq_filter : forall A (p : A -> bool) l, subseq (filter p l) l.
Proof. induction l; simpl; [constructor|destruct (p a); constructor; auto]. Qed.
Lemma subseq_trans : forall A (a b c : list A), subseq a b -> subseq b c -> subseq a c.
Proof.
  intros A a b c H1 H2. revert a H1. induction H2; intros a H1.
  - inversion H1; constructor.
  - inversion H1; subst; constructor; auto.
  - constructor; auto.
Qed.

Section Unique.
  Variable A : Type.
  Variable eqb : A -> A -> bool.
  Hypothesis eqb_refl : forall a, eqb a a = true.
  Hypothesis eqb_sym : forall a b, eqb a b = eqb b a.
  Hypothesis eqb_trans : forall a b c, eqb a b = true -> eqb b c = true -> eqb a c = true.

  (* no two elements of l are == *)
  Fixpoint pairwise_distinct (l : list A) : Prop :=
    match l with
    | [] => True
    | x :: t => (forall y, In y t -> eqb x y = false) /\ pairwise_distinct t
    end.

  Lemma pairwise_distinct_filter : forall p l, pairwise_distinct l -> pairwise_distinct (filter p l).
  Proof.
    induction l as [|x t IH]; simpl; auto. intros [H1 H2].
    destruct (p x); simpl; auto. split; auto. intros y Hy. apply filter_In in Hy as [Hy _]. auto.
  Qed.

  Lemma unique_subseq : forall xs, subseq (sl_unique eqb xs) xs.
  Proof.
    induction xs as [|x t IH]; simpl; constructor.
    eapply subseq_trans; [apply subseq_filter|exact IH].
  Qed.

  Lemma unique_distinct : forall xs, pairwise_distinct (sl_unique eqb xs).
  Proof.
    induction xs as [|x t IH]; simpl; auto. split.
    - intros y Hy. apply filter_In in Hy as [_ Hy]. now apply negb_true_iff in Hy.
    - now apply pairwise_distinct_filter.
  Qed.

  Lemma unique_represents : forall xs x, In x xs -> exists u, In u (sl_unique eqb xs) /\ eqb u x = true.
  Proof.
    induction xs as [|y t IH]; simpl; [tauto|]. intros x [->|Hx].
    - exists x. auto.
    - destruct (IH x Hx) as (u & Hu & Eu).
      destruct (eqb y u) eqn:E.
      + exists y. split; auto. eapply eqb_trans; eauto.
      + exists u. split; auto. right. apply filter_In. split; auto. now rewrite E.
  Qed.

  (* every kept element is the FIRST element of the input in its ==-class *)
  Lemma unique_first : forall xs u, In u (sl_unique eqb xs) -> find (eqb u) xs = Some u.
  Proof.
    induction xs as [|y t IH]; simpl; [tauto|]. intros u [->|Hu].
    - now rewrite eqb_refl.
    - apply filter_In in Hu as [Hu Hn]. apply negb_true_iff in Hn.
      rewrite eqb_sym, Hn. auto.
  Qed.

  Theorem unique_first_occurrences : forall xs,
    subseq (sl_unique eqb xs) xs /\ pairwise_distinct (sl_unique eqb xs) /\
    (forall x, In x xs -> exists u, In u (sl_unique eqb xs) /\ eqb u x = true) /\
    (forall u, In u (sl_unique eqb xs) -> find (eqb u) xs = Some u).
  Proof.
    intros. split; [apply unique_subseq|split; [apply unique_distinct|split; [apply unique_represents|apply unique_first]]].
  Qed.

  (* frequencies: one entry per ==-class, keyed by its first occurrence, counting the class *)
  Theorem frequencies_counts : forall xs,
    map fst (sl_frequencies eqb xs) = sl_unique eqb xs /\
    (forall k c, In (k, c) (sl_frequencies eqb xs) -> c = length (filter (eqb k) xs) /\ c > 0) /\
    (forall x, In x xs -> exists k c, In (k, c) (sl_frequencies eqb xs) /\ eqb k x = true).
  Proof.
    intros xs. unfold sl_frequencies. split; [|split].
    - rewrite map_map. simpl. apply map_id.
    - intros k c H. apply in_map_iff in H as (u & E & Hu). inversion E; subst. split; auto.
      assert (Hin : In k xs).
      { clear -Hu. revert k Hu. induction xs as [|y t IH]; simpl; [tauto|]. intros k [->|H]; auto.
        apply filter_In in H as [H _]. auto. }
      clear -Hin eqb_refl. induction xs as [|y t IH]; simpl in *; [tauto|].
      destruct Hin as [->|Hin]; [rewrite eqb_refl; simpl; lia|]. destruct (eqb k y); simpl; auto. lia.
    - intros x Hx. destruct (unique_represents xs x Hx) as (u & Hu & Eu).
      exists u, (length (filter (eqb u) xs)). split; auto. apply in_map_iff. exists u. auto.
  Qed.
End Unique.
Arguments pairwise_distinct {A} eqb l.

(* ------------------------------------------------------------------ filter / reject / partition *)
Section Filter.
  Variable A : Type.
  Variable p : A -> bool.

  (* xs is an order-preserving interleaving of a and b *)
  Inductive interleave : list A -> list A -> list A -> Prop :=
  | il_nil : interleave [] [] []
  | il_left : forall x a b l, interleave a b l -> interleave (x :: a) b (x :: l)
  | il_right : forall x a b l, interleave a b l -> interleave a (x :: b) (x :: l).

  Theorem filter_reject_partition : forall xs,
    sl_partition p xs = (sl_filter p xs, sl_reject p xs) /\
    length (sl_filter p xs) + length (sl_reject p xs) = length xs /\
    interleave (sl_filter p xs) (sl_reject p xs) xs /\
    Forall (fun x => p x = true) (sl_filter p xs) /\ Forall (fun x => p x = false) (sl_reject p xs).
  Proof.
    intros xs. split; [reflexivity|]. unfold sl_filter, sl_reject.
    induction xs as [|x t (IH1 & IH2 & IH3 & IH4)]; simpl.
    - repeat split; constructor.
    - destruct (p x) eqn:E; simpl; (split; [lia|split; [constructor; auto|split; auto]]).
  Qed.
End Filter.
Arguments interleave {A} _ _ _.

(* ------------------------------------------------------------------ simple algebra *)
Theorem reverse_involutive : forall A (xs : list A), sl_reverse (sl_reverse xs) = xs.
Proof. intros. apply rev_involutive. Qed.

Theorem flatten_flat_map : forall A B (f : B -> list A) xs, sl_flatten (map f xs) = sl_flat_map f xs.
Proof. intros. unfold sl_flatten, sl_flat_map. symmetry. apply flat_map_concat_map. Qed.

Theorem scan_last_is_fold : forall A (f : A -> A -> A) xs a d,
  last (sl_scan_from f xs a) d = sl_fold_from f xs a /\
  length (sl_scan_from f xs a) = S (length xs) /\
  (forall x t, xs = x :: t -> sl_fold f xs = Some (last (sl_scan f xs) d)).
Proof.
  intros A f. assert (H : forall xs a d, last (sl_scan_from f xs a) d = fold_left f xs a).
  { induction xs as [|x t IH]; intros a d; [reflexivity|].
    cbn [sl_scan_from]. cbn [fold_left]. rewrite <- (IH (f a x) d). destruct t; reflexivity. }
  intros xs a d. split; [apply H|split].
  - revert a. induction xs; intros; simpl; auto.
  - intros x t ->. simpl. now rewrite H.
Qed.
