(* C11 proofs, part 8: Permutations for EVERY base length: the stream terminates from every
   reachable state, every element is a permutation of 0..n-1, and the elements come in strictly
   increasing lexicographic order (so none is repeated).  (That ALL permutations appear, and the
   len formula, are proved for n <= 6 in Streams_comb_proofs.v.) *)
From Coq Require Import ZArith List Bool Arith Lia Sorting.Sorted Sorting.Permutation.
From NV Require Import Common.Outcome Common.MachineInt Seq.Index Seq.Streams Seq.StreamsSpec
  Seq.Streams_proofs Seq.Streams_counter_proofs Seq.Streams_comb_proofs Seq.Streams_combu_proofs.
Import ListNotations.
Open Scope nat_scope.

Lemma nth_set_nth : forall (xs : list nat) k j a, nth j (set_nth xs k a) 0 =
  if (j =? k) && (k <? length xs) then a else nth j xs 0.
Proof.
  induction xs as [|x xs IH]; intros k j a.
  - cbn [set_nth length]. replace (k <? 0) with false by (symmetry; apply Nat.ltb_ge; lia).
    rewrite andb_false_r. destruct k; reflexivity.
  - destruct k; cbn [set_nth length].
    + destruct j; cbn; [reflexivity|]. reflexivity.
    + destruct j; cbn [nth]; [reflexivity|]. rewrite IH. cbn [Nat.eqb]. reflexivity.
Qed.
Lemma set_nth_len : forall (xs : list nat) k a, length (set_nth xs k a) = length xs.
Proof. induction xs as [|x xs IH]; intros [|k] b; cbn; auto. Qed.

Lemma swap_length v i j : length (swap_nth v i j) = length v.
Proof. unfold swap_nth. rewrite !set_nth_len. reflexivity. Qed.
Lemma swap_nth_nth v i j p : i < length v -> j < length v ->
  nth p (swap_nth v i j) 0 = if p =? j then nth i v 0 else if p =? i then nth j v 0 else nth p v 0.
Proof.
  intros Hi Hj. unfold swap_nth. rewrite nth_set_nth, set_nth_len, nth_set_nth.
  destruct (Nat.eqb_spec p j), (Nat.eqb_spec p i); subst;
    repeat match goal with |- context [?a <? ?b] => destruct (Nat.ltb_spec a b); try lia end; cbn; reflexivity.
Qed.

Lemma rev_from_length (v : list nat) k : length (rev_from v k) = length v.
Proof. unfold rev_from. rewrite app_length, rev_length, <- app_length, firstn_skipn. reflexivity. Qed.
Lemma nth_skipn_add : forall (l : list nat) k j, nth j (skipn k l) 0 = nth (k + j) l 0.
Proof. induction l as [|x l IH]; intros [|k] j; cbn; try reflexivity; [destruct j; reflexivity | apply IH]. Qed.
Lemma rev_from_nth (v : list nat) k p : k <= length v -> p < length v ->
  nth p (rev_from v k) 0 = if p <? k then nth p v 0 else nth (k + (length v - 1 - p)) v 0.
Proof.
  intros Hk Hp. unfold rev_from. destruct (Nat.ltb_spec p k).
  - rewrite app_nth1 by (rewrite firstn_length; lia). apply nth_firstn_lt. assumption.
  - rewrite app_nth2; rewrite firstn_length; [|lia]. replace (Nat.min k (length v)) with k by lia.
    rewrite rev_nth by (rewrite skipn_length; lia). rewrite skipn_length, nth_skipn_add. f_equal. lia.
Qed.

(* the scan *)
Definition scan_f (v : list nat) (up : option (nat * nat)) (i : nat) : option (nat * nat) :=
  if nth i v 0 <? nth (i + 1) v 0 then Some (i, i + 1)
  else match up with
       | Some (inc, linc) => if nth inc v 0 <? nth (i + 1) v 0 then Some (inc, i + 1) else up
       | None => None
       end.
Lemma perm_scan_fold v : perm_scan v = fold_left (scan_f v) (seq 0 (length v - 1)) None.
Proof. reflexivity. Qed.
Lemma scan_inv v : forall m,
  match fold_left (scan_f v) (seq 0 m) None with
  | Some (inc, linc) => inc < linc /\ linc <= m /\ nth inc v 0 < nth linc v 0
  | None => True
  end.
Proof.
  induction m as [|m IH]; [exact I|]. rewrite seq_S, fold_left_app. cbn [fold_left Nat.add].
  unfold scan_f at 1. destruct (Nat.ltb_spec (nth m v 0) (nth (m + 1) v 0)); [lia|].
  destruct (fold_left (scan_f v) (seq 0 m) None) as [[inc linc]|]; [|exact I].
  destruct (Nat.ltb_spec (nth inc v 0) (nth (m + 1) v 0)); lia.
Qed.

(* permutations of 0..n-1 by length and membership *)
Definition permlike (n : nat) (v : list nat) : Prop := length v = n /\ forall x, x < n -> In x v.
Lemma permlike_is_perm n v : permlike n v <-> is_perm n v.
Proof.
  rewrite <- is_permb_spec. unfold permlike, is_permb. rewrite andb_true_iff, Nat.eqb_eq, forallb_forall.
  split; intros [Hl H]; split; auto.
  - intros x Hx. apply in_seq in Hx. apply existsb_exists. exists x. split; [apply H; lia|apply Nat.eqb_refl].
  - intros x Hx. specialize (H x ltac:(apply in_seq; lia)). apply existsb_exists in H. destruct H as [y [Hy He]].
    apply Nat.eqb_eq in He. subst. assumption.
Qed.

Lemma perm_succ_spec n v : permlike n v ->
  match perm_succ v with
  | Some v' => permlike n v' /\ lex_lt v v' = true
  | None => True
  end.
Proof.
  intros [Hl Hin]. unfold perm_succ. rewrite perm_scan_fold. pose proof (scan_inv v (length v - 1)) as Hs.
  destruct (fold_left (scan_f v) (seq 0 (length v - 1)) None) as [[inc linc]|]; [|exact I].
  destruct Hs as [H1 [H2 H3]].
  assert (Hli : inc < length v) by lia. assert (Hll : linc < length v) by lia.
  set (w := swap_nth v inc linc). assert (Hlw : length w = length v) by apply swap_length.
  split; [split|].
  - rewrite rev_from_length. lia.
  - intros x Hx. destruct (In_nth _ _ 0 (Hin x Hx)) as [p [Hp Hnp]].
    (* x sits at position p of v; find it in w, then in the reversed suffix *)
    set (q := if p =? linc then inc else if p =? inc then linc else p).
    assert (Hq : q < length v) by (unfold q; destruct (p =? linc), (p =? inc); lia).
    assert (Hwq : nth q w 0 = x).
    { unfold w. rewrite swap_nth_nth by assumption. unfold q.
      destruct (Nat.eqb_spec p linc) as [Hpl|Hpl].
      - destruct (Nat.eqb_spec inc linc); [lia|]. rewrite Nat.eqb_refl. subst p. exact Hnp.
      - destruct (Nat.eqb_spec p inc) as [Hpi|Hpi].
        + rewrite Nat.eqb_refl. subst p. exact Hnp.
        + destruct (Nat.eqb_spec p linc); [lia|]. destruct (Nat.eqb_spec p inc); [lia|]. exact Hnp. }
    set (k := inc + 1).
    set (r := if q <? k then q else k + (length v - 1 - q)).
    assert (Hr : r < length v) by (unfold r; destruct (Nat.ltb_spec q k); lia).
    assert (nth r (rev_from w k) 0 = x).
    { rewrite rev_from_nth by (rewrite ?Hlw; unfold k; lia). rewrite Hlw. unfold r.
      destruct (Nat.ltb_spec q k) as [Hqk|Hqk].
      - destruct (Nat.ltb_spec q k); [assumption|lia].
      - destruct (Nat.ltb_spec (k + (length v - 1 - q)) k); [lia|].
        replace (k + (length v - 1 - (k + (length v - 1 - q)))) with q by lia. assumption. }
    subst x. rewrite <- H. apply nth_In. rewrite rev_from_length, Hlw. assumption.
  - apply (lex_first_diff v (rev_from w (inc + 1)) inc).
    + rewrite rev_from_length. lia.
    + assumption.
    + intros j Hj. rewrite rev_from_nth by (rewrite ?Hlw; lia). destruct (Nat.ltb_spec j (inc + 1)); [|lia].
      unfold w. rewrite swap_nth_nth by assumption.
      destruct (Nat.eqb_spec j linc), (Nat.eqb_spec j inc); try lia; try reflexivity.
    + rewrite rev_from_nth by (rewrite ?Hlw; lia). destruct (Nat.ltb_spec inc (inc + 1)); [|lia].
      unfold w. rewrite swap_nth_nth by assumption.
      destruct (Nat.eqb_spec inc linc); [lia|]. rewrite Nat.eqb_refl. assumption.
Qed.

Section Perm.
Variable n : nat.
Definition perm_inv (s : ivstate) : Prop := match s with None => True | Some v => permlike n v end.
Definition perm_mu (s : ivstate) : nat :=
  match s with
  | None => 0
  | Some v => Z.to_nat (Z.of_nat n ^ Z.of_nat (length v) - dval n v)
  end.
Lemma permlike_digits v : permlike n v -> valid n v.
Proof.
  intros Hp. apply permlike_is_perm in Hp. apply (is_perm_tuple n v Hp).
Qed.
Lemma perm_inv_step s : perm_inv s -> perm_inv (snd (perm_step s)).
Proof.
  destruct s as [v|]; [|intros; exact I]. intros Hv. cbn [perm_step snd].
  pose proof (perm_succ_spec n v Hv) as H. destruct (perm_succ v); [apply H|exact I].
Qed.
Lemma perm_mu_step s e : perm_inv s -> fst (perm_step s) = Some e -> perm_mu (snd (perm_step s)) < perm_mu s.
Proof.
  destruct s as [v|]; [|discriminate]. intros Hv _. cbn [perm_step snd].
  pose proof (perm_succ_spec n v Hv) as H. pose proof (dval_bounds n v (permlike_digits v Hv)) as Hb.
  destruct (perm_succ v) as [v'|]; cbn [perm_mu]; [|lia].
  destruct H as [Hv' Hlt].
  pose proof (proj2 (lex_dval n v v' (permlike_digits _ Hv) (permlike_digits _ Hv')
                ltac:(destruct Hv, Hv'; lia)) Hlt) as Hd.
  pose proof (dval_bounds n v' (permlike_digits v' Hv')) as Hb'.
  destruct Hv as [Hl _], Hv' as [Hl' _]. rewrite Hl in *. rewrite Hl' in *. lia.
Qed.
Theorem perm_terminates s : perm_inv s -> exists l, yields perm_step s l.
Proof. apply (terminates_by_measure perm_step perm_inv perm_mu perm_inv_step perm_mu_step). Qed.

Lemma perm_init_inv : perm_inv (perm_init n).
Proof. split; [apply seq_length|]. intros x Hx. apply in_seq. lia. Qed.

Lemma perm_chain : forall l v, permlike n v -> yields perm_step (Some v) l ->
  exists r, l = v :: r /\ Forall (permlike n) l /\ Forall (fun w => lex_lt v w = true) r /\
    StronglySorted (fun a b => lex_lt a b = true) l.
Proof.
  induction l as [|x l IH]; intros v Hv Hy.
  - apply yields_inv_nil in Hy. discriminate.
  - apply yields_inv_cons in Hy. destruct Hy as [H1 H2]. cbn [perm_step fst snd] in H1, H2. injection H1 as <-.
    pose proof (perm_succ_spec n v Hv) as Hs. destruct (perm_succ v) as [v'|].
    + destruct Hs as [Hv' Hlt]. destruct (IH _ Hv' H2) as [r [-> [Hall [Hgt Hsorted]]]].
      exists (v' :: r). split; [reflexivity|].
      assert (Hgt' : Forall (fun w => lex_lt v w = true) (v' :: r)).
      { constructor; [assumption|]. eapply Forall_impl; [|exact Hgt]. cbn. intros a Ha. eapply lex_lt_trans; eauto. }
      split; [constructor; assumption|]. split; [assumption|]. constructor; assumption.
    + assert (l = []) as ->.
      { destruct l; [reflexivity|]. apply yields_inv_cons in H2. destruct H2 as [H2 _]. discriminate. }
      exists []. split; [reflexivity|]. split; [constructor; [assumption|constructor]|]. split; [constructor|]. constructor; constructor.
Qed.

Theorem perm_sound_unbounded :
  exists l, yields perm_step (perm_init n) l /\ Forall (is_perm n) l /\
    StronglySorted (fun a b => lex_lt a b = true) l /\
    forall t, reaches perm_step (perm_init n) t -> exists l', yields perm_step t l'.
Proof.
  destruct (perm_terminates _ perm_init_inv) as [l Hy]. exists l. split; [assumption|].
  destruct (perm_chain l _ perm_init_inv Hy) as [r [-> [Hall [_ Hs]]]].
  split; [eapply Forall_impl; [|exact Hall]; intros a; apply permlike_is_perm|]. split; [assumption|].
  intros t Ht. apply perm_terminates. eapply (inv_reaches perm_step perm_inv perm_inv_step); eauto using perm_init_inv.
Qed.
End Perm.
