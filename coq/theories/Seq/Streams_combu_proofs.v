(* C11 proofs, part 6: Combinations for EVERY base length n and selection size k: the stream
   terminates, and yields exactly the k-subsets (strictly increasing index vectors below n), each
   once, in lexicographic order.  (Its len is the default count-by-iterating, so with
   termination `len = number of elements` holds for every reachable state.)
   Method: the successor is the immediate lexicographic successor among valid vectors. *)
From Coq Require Import ZArith List Bool Arith Lia Sorting.Sorted.
From NV Require Import Common.Outcome Common.MachineInt Seq.Index Seq.Streams Seq.StreamsSpec
  Seq.Streams_proofs Seq.Streams_counter_proofs Seq.Streams_comb_proofs Seq.Streams_adapt_proofs.
Import ListNotations.
Open Scope nat_scope.

(* ------------------------------------------------------------------ lists by positions *)
Definition incn (v : list nat) : Prop := forall i j, i < j < length v -> nth i v 0 < nth j v 0.

Lemma ssorted_incn v : StronglySorted lt v <-> incn v.
Proof.
  split.
  - induction 1 as [|a r Hs IH Hf]; intros i j Hij; [cbn in Hij; lia|].
    destruct j; [lia|]. cbn [length] in Hij. destruct i.
    + cbn [nth]. rewrite Forall_forall in Hf. apply Hf. apply nth_In. lia.
    + cbn [nth]. apply IH. lia.
  - induction v as [|a r IH]; intros Hi; constructor.
    + apply IH. intros i j Hij. apply (Hi (S i) (S j)). cbn [length]. lia.
    + apply Forall_forall. intros x Hx. destruct (In_nth _ _ 0 Hx) as [j [Hj <-]].
      apply (Hi 0 (S j)). cbn [length]. lia.
Qed.

Lemma lex_first_diff : forall u w p, length u = length w -> p < length u ->
  (forall j, j < p -> nth j u 0 = nth j w 0) -> nth p u 0 < nth p w 0 -> lex_lt u w = true.
Proof.
  induction u as [|x u IH]; intros [|y w] p Hl Hp Heq Hlt; cbn [length] in *; try lia.
  cbn [lex_lt]. destruct p.
  - cbn [nth] in Hlt. apply orb_true_iff. left. apply Nat.ltb_lt. assumption.
  - apply orb_true_iff. right. apply andb_true_iff. split.
    + apply Nat.eqb_eq. apply (Heq 0). lia.
    + apply (IH w p); [lia|lia| |exact Hlt]. intros j Hj. apply (Heq (S j)). lia.
Qed.

Lemma lex_lt_diff : forall u w, length u = length w -> lex_lt u w = true ->
  exists p, p < length u /\ (forall j, j < p -> nth j u 0 = nth j w 0) /\ nth p u 0 < nth p w 0.
Proof.
  induction u as [|x u IH]; intros [|y w] Hl H; cbn [length lex_lt] in *; try discriminate; try lia.
  apply orb_true_iff in H. destruct H as [H|H].
  - apply Nat.ltb_lt in H. exists 0. repeat split; [lia | intros; lia | assumption].
  - apply andb_true_iff in H. destruct H as [He H]. apply Nat.eqb_eq in He. subst y.
    destruct (IH w ltac:(lia) H) as [p [Hp [Heq Hlt]]]. exists (S p). repeat split; [lia| |assumption].
    intros [|j] Hj; [reflexivity|]. cbn [nth]. apply Heq. lia.
Qed.

Lemma pointwise_le_lex : forall u w, length u = length w ->
  (forall j, j < length u -> nth j u 0 <= nth j w 0) -> u = w \/ lex_lt u w = true.
Proof.
  induction u as [|x u IH]; intros [|y w] Hl H; cbn [length] in *; try lia; [left; reflexivity|].
  pose proof (H 0 ltac:(lia)) as H0. cbn [nth] in H0.
  destruct (Nat.eq_dec x y) as [->|Hne].
  - destruct (IH w ltac:(lia)) as [->|Hlt].
    + intros j Hj. apply (H (S j)). lia.
    + left. reflexivity.
    + right. cbn [lex_lt]. rewrite Nat.eqb_refl, Hlt. apply orb_true_r.
  - right. cbn [lex_lt]. apply orb_true_iff. left. apply Nat.ltb_lt. lia.
Qed.

Lemma lex_lt_irrefl : forall u, lex_lt u u = false.
Proof. induction u as [|x u IH]; [reflexivity|]. cbn [lex_lt]. rewrite Nat.ltb_irrefl, Nat.eqb_refl, IH. reflexivity. Qed.

Lemma nth_firstn_lt {A} (d : A) : forall (l : list A) p j, j < p -> nth j (firstn p l) d = nth j l d.
Proof.
  induction l as [|x l IH]; intros p j H; [destruct p, j; reflexivity|].
  destruct p; [lia|]. destruct j; [reflexivity|]. cbn. apply IH. lia.
Qed.

(* a generic termination argument: a measure that strictly decreases with every element *)
Lemma terminates_by_measure {St E} (step : St -> option E * St) (Inv : St -> Prop) (mu : St -> nat) :
  (forall s, Inv s -> Inv (snd (step s))) ->
  (forall s e, Inv s -> fst (step s) = Some e -> mu (snd (step s)) < mu s) ->
  forall s, Inv s -> exists l, yields step s l.
Proof.
  intros Hinv Hdec s. remember (mu s) as m eqn:Hm. revert s Hm.
  induction m as [m IH] using lt_wf_ind. intros s Hm Hi.
  destruct (fst (step s)) as [e|] eqn:Es.
  - destruct (IH (mu (snd (step s))) ltac:(subst; eauto) (snd (step s)) eq_refl (Hinv s Hi)) as [l Hl].
    exists (e :: l). econstructor; eauto.
  - exists []. constructor. assumption.
Qed.

(* ------------------------------------------------------------------ combinations *)
Section Comb.
Variables n k : nat.

(* is_comb n k, by positions *)
Definition cvalid (v : list nat) : Prop := length v = k /\ incn v /\ (forall i, i < k -> nth i v 0 < n).

Lemma cvalid_is_comb v : is_comb n k v <-> cvalid v.
Proof.
  unfold is_comb, cvalid. rewrite ssorted_incn, Forall_forall. split; intros [Hl [Hi Hb]]; repeat split; auto.
  - intros i Hlt. apply Hb. apply nth_In. lia.
  - intros x Hx. destruct (In_nth _ _ 0 Hx) as [j [Hj <-]]. apply Hb. lia.
Qed.

(* position i can hold at most n - k + i *)
Lemma cvalid_bound v : cvalid v -> forall i, i < k -> nth i v 0 + (k - i) <= n.
Proof.
  intros [Hl [Hi Hb]] i Hik.
  assert (H : forall d, d < k -> nth (k - 1 - d) v 0 + (d + 1) <= n).
  { induction d; intros Hd.
    - specialize (Hb (k - 1) ltac:(lia)). replace (k - 1 - 0) with (k - 1) by lia. lia.
    - specialize (IHd ltac:(lia)). specialize (Hi (k - 1 - S d) (k - 1 - d) ltac:(lia)). lia. }
  specialize (H (k - 1 - i) ltac:(lia)). replace (k - 1 - (k - 1 - i)) with i in H by lia. lia.
Qed.
Lemma cvalid_k_le_n v : cvalid v -> k <= n.
Proof. intros Hv. destruct k as [|k'] eqn:Ek; [lia|]. pose proof (cvalid_bound v Hv 0 ltac:(lia)). lia. Qed.

(* the scan: the rightmost position that is not at its maximum *)
Definition cnd (v : list nat) (p : nat) : bool := nth p v 0 + 1 <? n - (k - 1 - p).
Lemma comb_find_spec v : forall i, i <= k ->
  match comb_find v i (n - (k - i)) with
  | Some p => p < i /\ cnd v p = true /\ forall j, p < j < i -> cnd v j = false
  | None => forall j, j < i -> cnd v j = false
  end.
Proof.
  induction i as [|i IH]; intros Hi; [cbn; intros; lia|].
  cbn [comb_find]. replace (n - (k - S i)) with (n - (k - 1 - i)) by lia.
  destruct (nth i v 0 + 1 <? n - (k - 1 - i)) eqn:E.
  - repeat split; [lia | exact E | intros; lia].
  - replace (n - (k - 1 - i) - 1) with (n - (k - i)) by lia. specialize (IH ltac:(lia)).
    destruct (comb_find v i (n - (k - i))) as [p|].
    + destruct IH as [Hp [Hc Hn]]. repeat split; [lia | assumption |].
      intros j Hj. destruct (Nat.eq_dec j i) as [->|]; [exact E | apply Hn; lia].
    + intros j Hj. destruct (Nat.eq_dec j i) as [->|]; [exact E | apply IH; lia].
Qed.

Lemma bump_length v p : length v = k -> p < k -> length (comb_bump v p) = k.
Proof. intros Hl Hp. unfold comb_bump. rewrite app_length, firstn_length, map_length, seq_length. lia. Qed.
Lemma bump_nth_lo v p j : length v = k -> p < k -> j < p -> nth j (comb_bump v p) 0 = nth j v 0.
Proof.
  intros Hl Hp Hj. unfold comb_bump. rewrite app_nth1 by (rewrite firstn_length; lia).
  apply nth_firstn_lt. assumption.
Qed.
Lemma bump_nth_hi v p j : length v = k -> p < k -> p <= j < k ->
  nth j (comb_bump v p) 0 = nth p v 0 + 1 + (j - p).
Proof.
  intros Hl Hp Hj. unfold comb_bump. rewrite app_nth2; rewrite firstn_length; [|lia].
  replace (Nat.min p (length v)) with p by lia. rewrite Hl.
  rewrite (nth_map_seq (fun d => nth p v 0 + 1 + d)) by lia. reflexivity.
Qed.

(* (A) the successor is valid, (lex) greater, and (C) the least valid vector above *)
Lemma bump_valid v p : cvalid v -> p < k -> cnd v p = true -> cvalid (comb_bump v p).
Proof.
  intros [Hl [Hi Hb]] Hp Hc. unfold cnd in Hc. apply Nat.ltb_lt in Hc.
  split; [apply bump_length; assumption|]. split.
  - intros i j Hij. rewrite bump_length in Hij by assumption.
    destruct (Nat.lt_ge_cases j p).
    + rewrite !bump_nth_lo by (auto; lia). apply Hi. lia.
    + rewrite (bump_nth_hi v p j) by (auto; lia). destruct (Nat.lt_ge_cases i p).
      * rewrite bump_nth_lo by (auto; lia). specialize (Hi i p ltac:(lia)). lia.
      * rewrite bump_nth_hi by (auto; lia). lia.
  - intros i Hik. destruct (Nat.lt_ge_cases i p).
    + rewrite bump_nth_lo by (auto; lia). apply Hb. assumption.
    + rewrite bump_nth_hi by (auto; lia). lia.
Qed.
Lemma bump_greater v p : length v = k -> p < k -> lex_lt v (comb_bump v p) = true.
Proof.
  intros Hl Hp. apply (lex_first_diff v (comb_bump v p) p).
  - rewrite bump_length; auto. - lia.
  - intros j Hj. rewrite bump_nth_lo by (auto; lia). reflexivity.
  - rewrite bump_nth_hi by (auto; lia). lia.
Qed.

(* a valid w above v differs first at a position that is not at its maximum in v *)
Lemma above_diff v w : cvalid v -> cvalid w -> lex_lt v w = true ->
  exists q, q < k /\ (forall j, j < q -> nth j v 0 = nth j w 0) /\ nth q v 0 < nth q w 0 /\ cnd v q = true.
Proof.
  intros Hv Hw Hlt. destruct Hv as [Hl Hv'], Hw as [Hlw Hw'].
  destruct (lex_lt_diff v w ltac:(lia) Hlt) as [q [Hq [Heq Hd]]]. rewrite Hl in Hq.
  exists q. repeat split; auto. unfold cnd. apply Nat.ltb_lt.
  pose proof (cvalid_bound w (conj Hlw Hw') q Hq). lia.
Qed.

Lemma bump_least v p w : cvalid v -> p < k -> cnd v p = true -> (forall j, p < j < k -> cnd v j = false) ->
  cvalid w -> lex_lt v w = true -> comb_bump v p = w \/ lex_lt (comb_bump v p) w = true.
Proof.
  intros Hv Hp Hc Hmax Hw Hlt.
  destruct (above_diff v w Hv Hw Hlt) as [q [Hq [Heq [Hd Hcq]]]].
  pose proof Hv as [Hl [Hi Hb]]. pose proof Hw as [Hlw [Hiw Hbw]].
  assert (Hqp : q <= p).
  { destruct (Nat.le_gt_cases q p); [assumption|]. rewrite Hmax in Hcq by lia. discriminate. }
  destruct (Nat.lt_ge_cases q p) as [Hlt'|Hge].
  - right. apply (lex_first_diff _ _ q).
    + rewrite bump_length by assumption. lia.
    + rewrite bump_length by assumption. assumption.
    + intros j Hj. rewrite bump_nth_lo by (auto; lia). apply Heq. assumption.
    + rewrite bump_nth_lo by (auto; lia). assumption.
  - assert (q = p) by lia. subst q.
    apply pointwise_le_lex; [rewrite bump_length by assumption; lia|].
    intros j Hj. rewrite bump_length in Hj by assumption.
    destruct (Nat.lt_ge_cases j p).
    + rewrite bump_nth_lo by (auto; lia). rewrite Heq by assumption. lia.
    + rewrite bump_nth_hi by (auto; lia).
      (* w is strictly increasing from w[p] >= v[p] + 1 *)
      assert (Hw_inc : forall d, p + d < k -> nth p w 0 + d <= nth (p + d) w 0).
      { induction d as [|d IHd]; intros Hpd; [rewrite !Nat.add_0_r; lia|].
        specialize (IHd ltac:(lia)). specialize (Hiw (p + d) (p + S d) ltac:(lia)). lia. }
      specialize (Hw_inc (j - p) ltac:(lia)). replace (p + (j - p)) with j in Hw_inc by lia. lia.
Qed.

(* what one step does, in terms of the scan *)
Lemma comb_step_valid v : cvalid v ->
  (exists p, p < k /\ cnd v p = true /\ (forall j, p < j < k -> cnd v j = false) /\
     comb_step n (Some v) = (Some v, Some (comb_bump v p))) \/
  ((forall j, j < k -> cnd v j = false) /\ comb_step n (Some v) = (Some v, None)).
Proof.
  intros Hv. pose proof (cvalid_k_le_n v Hv) as Hkn. destruct Hv as [Hl _].
  unfold comb_step. rewrite Hl. destruct (Nat.ltb_spec n k); [lia|].
  pose proof (comb_find_spec v k (le_n k)) as Hs. replace (n - (k - k)) with n in Hs by lia.
  destruct (comb_find v k n) as [p|].
  - left. exists p. destruct Hs as [Hp [Hc Hm]]. auto.
  - right. auto.
Qed.

(* from a valid v the stream lists v first, then only greater valid vectors, in order, and
   every valid vector at or above v *)
Lemma comb_chain : forall l v, cvalid v -> yields (comb_step n) (Some v) l ->
  exists r, l = v :: r /\ Forall cvalid l /\ Forall (fun w => lex_lt v w = true) r /\
    StronglySorted (fun a b => lex_lt a b = true) l /\
    (forall w, cvalid w -> v = w \/ lex_lt v w = true -> In w l).
Proof.
  induction l as [|x l IH]; intros v Hv Hy.
  - apply yields_inv_nil in Hy. destruct (comb_step_valid v Hv) as [[p [_ [_ [_ E]]]]|[_ E]]; rewrite E in Hy; discriminate.
  - apply yields_inv_cons in Hy. destruct Hy as [H1 H2].
    destruct (comb_step_valid v Hv) as [[p [Hp [Hc [Hm E]]]]|[Hm E]]; rewrite E in H1, H2; cbn [fst snd] in H1, H2;
      injection H1 as <-.
    + pose proof (bump_valid v p Hv Hp Hc) as Hv'.
      destruct (IH _ Hv' H2) as [r [-> [Hall [Hgt [Hs Hin]]]]].
      pose proof (bump_greater v p (proj1 Hv) Hp) as Hlt.
      exists (comb_bump v p :: r). split; [reflexivity|].
      assert (Hgt' : Forall (fun w => lex_lt v w = true) (comb_bump v p :: r)).
      { constructor; [assumption|]. eapply Forall_impl; [|exact Hgt]. cbn. intros a Ha. eapply lex_lt_trans; eauto. }
      split; [constructor; assumption|]. split; [assumption|]. split; [constructor; assumption|].
      intros w Hw [->|Hvw]; [left; reflexivity|]. right.
      apply Hin; [assumption|]. apply bump_least; assumption.
    + exists l. split; [reflexivity|].
      assert (l = []) as ->.
      { destruct l; [reflexivity|]. apply yields_inv_cons in H2. destruct H2 as [H2 _]. discriminate. }
      split; [constructor; [assumption|constructor]|]. split; [constructor|]. split; [repeat constructor|].
      intros w Hw [->|Hvw]; [left; reflexivity|]. exfalso.
      destruct (above_diff v w Hv Hw Hvw) as [q [Hq [_ [_ Hcq]]]]. rewrite Hm in Hcq by assumption. discriminate.
Qed.

(* ---- termination: the base-n value of the index vector strictly increases ---- *)
Definition comb_inv (s : ivstate) : Prop :=
  match s with None => True | Some v => cvalid v \/ n < length v end.
Definition comb_mu (s : ivstate) : nat :=
  match s with
  | None => 0
  | Some v => Z.to_nat (Z.of_nat n ^ Z.of_nat (length v) - dval n v)
  end.
Lemma cvalid_digits v : cvalid v -> valid n v.
Proof.
  intros [Hl [_ Hb]]. apply Forall_forall. intros x Hx. destruct (In_nth _ _ 0 Hx) as [j [Hj <-]]. apply Hb. lia.
Qed.

Lemma comb_inv_step s : comb_inv s -> comb_inv (snd (comb_step n s)).
Proof.
  destruct s as [v|]; [|intros; exact I]. intros [Hv|Hn].
  - destruct (comb_step_valid v Hv) as [[p [Hp [Hc [_ E]]]]|[_ E]]; rewrite E; cbn [snd comb_inv]; [|exact I].
    left. apply bump_valid; assumption.
  - unfold comb_step. destruct (Nat.ltb_spec n (length v)); [|lia]. cbn. right. assumption.
Qed.
Lemma comb_mu_step s e : comb_inv s -> fst (comb_step n s) = Some e -> comb_mu (snd (comb_step n s)) < comb_mu s.
Proof.
  destruct s as [v|]; [|discriminate]. intros [Hv|Hn] He.
  - pose proof (dval_bounds n v (cvalid_digits v Hv)) as Hb.
    destruct (comb_step_valid v Hv) as [[p [Hp [Hc [_ E]]]]|[_ E]]; rewrite E; cbn [snd comb_mu].
    + pose proof (bump_valid v p Hv Hp Hc) as Hv'.
      assert (Hlv : length v = k) by apply Hv.
      assert (Hlb : length (comb_bump v p) = k) by (apply bump_length; assumption).
      pose proof (proj2 (lex_dval n v (comb_bump v p) (cvalid_digits _ Hv) (cvalid_digits _ Hv') ltac:(lia))
                  (bump_greater v p Hlv Hp)) as Hd.
      pose proof (dval_bounds n _ (cvalid_digits _ Hv')) as Hb'.
      rewrite Hlb in *. rewrite Hlv in *. lia.
    + lia.
  - unfold comb_step in He. destruct (Nat.ltb_spec n (length v)); [discriminate|lia].
Qed.

Theorem comb_terminates s : comb_inv s -> exists l, yields (comb_step n) s l.
Proof. apply (terminates_by_measure (comb_step n) comb_inv comb_mu comb_inv_step comb_mu_step). Qed.

Lemma comb_init_inv : comb_inv (comb_init k).
Proof.
  unfold comb_init, comb_inv. rewrite seq_length. destruct (Nat.le_gt_cases k n); [left|right; assumption].
  split; [apply seq_length|]. split.
  - intros i j Hij. rewrite seq_length in Hij. rewrite !seq_nth by lia. lia.
  - intros i Hi. rewrite seq_nth by lia. lia.
Qed.
Lemma comb_init_least w : k <= n -> cvalid w -> seq 0 k = w \/ lex_lt (seq 0 k) w = true.
Proof.
  intros Hkn [Hl [Hi Hb]]. apply pointwise_le_lex; [rewrite seq_length; lia|].
  intros j Hj. rewrite seq_length in Hj. rewrite seq_nth by lia. cbn.
  induction j; [lia|]. specialize (IHj ltac:(lia)). specialize (Hi j (S j) ltac:(lia)). lia.
Qed.

Theorem comb_unbounded :
  exists l, yields (comb_step n) (comb_init k) l /\ enumerates (is_comb n k) l /\
    forall t, reaches (comb_step n) (comb_init k) t ->
      exists l', yields (comb_step n) t l' /\
        forall fuel, (length l' < fuel)%nat ->
          default_len (comb_step n) fuel t = Ok (Some (Z.of_nat (length l'))).
Proof.
  destruct (comb_terminates _ comb_init_inv) as [l Hy]. exists l. split; [assumption|]. split.
  - destruct (Nat.le_gt_cases k n) as [Hkn|Hkn].
    + assert (Hv0 : cvalid (seq 0 k)).
      { pose proof comb_init_inv as H. unfold comb_init, comb_inv in H. rewrite seq_length in H.
        destruct H; [assumption|lia]. }
      destruct (comb_chain l _ Hv0 Hy) as [r [-> [Hall [_ [Hs Hin]]]]]. split; [|assumption].
      intros w. rewrite cvalid_is_comb. split.
      * intros Hw. rewrite Forall_forall in Hall. apply Hall. assumption.
      * intros Hw. apply Hin; [assumption|]. apply comb_init_least; assumption.
    + (* more selected than there are things: nothing *)
      assert (l = []) as ->.
      { destruct l; [reflexivity|]. apply yields_inv_cons in Hy. destruct Hy as [H _].
        unfold comb_init, comb_step in H. rewrite seq_length in H. destruct (Nat.ltb_spec n k); [discriminate|lia]. }
      split; [|constructor]. intros w. split; [contradiction|]. rewrite cvalid_is_comb. intros Hw.
      pose proof (cvalid_k_le_n w Hw). lia.
  - intros t Ht. assert (Hi : comb_inv t) by (eapply (inv_reaches (comb_step n) comb_inv comb_inv_step); eauto using comb_init_inv).
    destruct (comb_terminates t Hi) as [l' Hy']. exists l'. split; [assumption|].
    intros fuel Hf. apply default_len_counts_iteration; assumption.
Qed.
End Comb.
