(* C11 specification: what iteration of a stream means, and what each constructor is
   documented to enumerate -- stated without reference to the closed-form `len`s or to the
   successor algorithms of the model. *)
From Coq Require Import ZArith List Bool Arith Sorting.Permutation Sorting.Sorted.
Import ListNotations.
Open Scope Z_scope.

Section Yields.
Context {St E : Type}.
Variable step : St -> option E * St.

(* iterating a clone of s yields exactly the elements l and then reports exhaustion *)
Inductive yields : St -> list E -> Prop :=
| yields_nil s : fst (step s) = None -> yields s []
| yields_cons s e l : fst (step s) = Some e -> yields (snd (step s)) l -> yields s (e :: l).

(* iterating a clone of s yields (at least) the elements l: finite prefixes of infinite streams *)
Inductive prefix_of : St -> list E -> Prop :=
| prefix_nil s : prefix_of s []
| prefix_cons s e l : fst (step s) = Some e -> prefix_of (snd (step s)) l -> prefix_of s (e :: l).

(* the states reachable by calling next repeatedly (`s drop k` for every k) *)
Inductive reaches : St -> St -> Prop :=
| reaches_refl s : reaches s s
| reaches_step s t : reaches (snd (step s)) t -> reaches s t.
End Yields.

(* ---- ranges: a, a+c, a+2c, ... while strictly before b in the direction of c ---- *)
Definition before (c x b : Z) : bool := if c <? 0 then b <? x else x <? b.
Definition range_spec (a b c : Z) (l : list Z) : Prop :=
  (forall k, (k < length l)%nat -> nth k l 0 = a + Z.of_nat k * c /\ before c (a + Z.of_nat k * c) b = true) /\
  before c (a + Z.of_nat (length l) * c) b = false.

(* ---- lexicographic order on index vectors / masks ---- *)
Fixpoint lex_lt (u v : list nat) : bool :=
  match u, v with
  | [], _ :: _ => true
  | x :: u', y :: v' => (x <? y)%nat || ((x =? y)%nat && lex_lt u' v')
  | _, [] => false
  end.
Definition nat_of_bool (b : bool) : nat := if b then 1%nat else 0%nat.

(* l lists, without repetition and in lexicographic order, exactly the vectors satisfying P *)
Definition enumerates (P : list nat -> Prop) (l : list (list nat)) : Prop :=
  (forall v, In v l <-> P v) /\ StronglySorted (fun u v => lex_lt u v = true) l.

(* permutations of n things: index vectors that are permutations of 0..n-1 *)
Definition is_perm (n : nat) (v : list nat) : Prop := Permutation v (seq 0 n).
(* k-combinations of n things: strictly increasing index vectors of length k below n *)
Definition is_comb (n k : nat) (v : list nat) : Prop :=
  length v = k /\ StronglySorted lt v /\ Forall (fun i => (i < n)%nat) v.
(* subsequences of n things: all masks of length n (as 0/1 vectors) *)
Definition is_mask (n : nat) (v : list nat) : Prop :=
  length v = n /\ Forall (fun i => (i < 2)%nat) v.
(* k-th cartesian power of m things: all index vectors of length k below m *)
Definition is_tuple (m k : nat) (v : list nat) : Prop :=
  length v = k /\ Forall (fun i => (i < m)%nat) v.

(* decidable versions used by the bounded (computational) theorems *)
Fixpoint sortedb (lt : list nat -> list nat -> bool) (l : list (list nat)) : bool :=
  match l with
  | [] => true
  | u :: r => match r with [] => true | v :: _ => lt u v && sortedb lt r end
  end.
