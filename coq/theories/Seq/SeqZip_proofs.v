(* C13 - zip / ziplongest / transpose / cartesian product. *)
From Coq Require Import List Bool Arith Lia.
From NV Require Import Seq.SeqLib.
Import ListNotations.

Section Zip.
  Variable A : Type.
  Implicit Types xs ys : list A.
  Implicit Types xss yss : list (list A).

  Lemma zip_cons_nil_r : forall xs, zip_cons xs [] = map (fun x => [x]) xs.
  Proof. destruct xs; reflexivity. Qed.

  Lemma zip_cons_length : forall xs yss, length (zip_cons xs yss) = Nat.max (length xs) (length yss).
  Proof.
    induction xs as [|x t IH]; intros yss; [reflexivity|].
    destruct yss as [|ys yss']; [cbn [zip_cons]; rewrite map_length; cbn [length]; lia|].
    cbn [zip_cons length]. rewrite IH. lia.
  Qed.

  Lemma transpose_length : forall xss, length (sl_transpose xss) = maxlen xss.
  Proof. induction xss as [|xs t IH]; [reflexivity|]. cbn [sl_transpose maxlen fold_right]. rewrite zip_cons_length, IH. reflexivity. Qed.

  Lemma minlen_le_maxlen : forall xss, minlen xss <= maxlen xss.
  Proof.
    destruct xss as [|xs t]; [apply le_n|]. cbn [minlen maxlen fold_right]. fold (maxlen t).
    assert (fold_right (fun ys m => Nat.min (length ys) m) (length xs) t <= length xs).
    { induction t as [|y u IH]; cbn [fold_right]; lia. }
    lia.
  Qed.

  (* zip stops at the shortest argument, ziplongest at the longest *)
  Theorem zip_length_min : forall xss, length (sl_zip xss) = minlen xss.
  Proof.
    intros. unfold sl_zip. rewrite firstn_length, transpose_length. pose proof (minlen_le_maxlen xss). lia.
  Qed.

  Theorem ziplongest_length_max : forall xss, length (sl_ziplongest xss) = maxlen xss.
  Proof. intros. apply transpose_length. Qed.

  (* the binary case is the usual zip (List.combine) *)
  Theorem zip_binary_combine : forall xs ys,
    sl_zip [xs; ys] = map (fun ab => [fst ab; snd ab]) (combine xs ys) /\
    length (sl_zip [xs; ys]) = Nat.min (length xs) (length ys).
  Proof.
    intros xs ys. split.
    - unfold sl_zip. cbn [sl_transpose minlen fold_right]. rewrite zip_cons_nil_r.
      revert ys. induction xs as [|x t IH]; intros ys.
      + cbn [length]. rewrite Nat.min_0_r. reflexivity.
      + destruct ys as [|y u]; [reflexivity|].
        cbn [length map zip_cons combine fst snd]. rewrite <- Nat.succ_min_distr. cbn [firstn]. f_equal. apply IH.
    - rewrite zip_length_min. cbn [minlen fold_right]. lia.
  Qed.

  (* ---------------------------------------------------------------- transpose *)
  Lemma transpose_zip_cons : forall xs yss, xs <> [] -> length xs = length yss ->
    sl_transpose (zip_cons xs yss) = xs :: sl_transpose yss.
  Proof.
    induction xs as [|x1 xs' IH]; intros yss Hne Hl; [congruence|].
    destruct yss as [|ys1 yss']; [discriminate|].
    cbn [zip_cons sl_transpose]. destruct xs' as [|x2 xs''].
    - destruct yss'; [|discriminate]. cbn [zip_cons sl_transpose]. rewrite !zip_cons_nil_r. reflexivity.
    - rewrite IH; [|discriminate|cbn [length] in *; lia]. reflexivity.
  Qed.

  Lemma transpose_singletons : forall xs, xs <> [] -> sl_transpose (map (fun x => [x]) xs) = [xs].
  Proof.
    induction xs as [|x t IH]; intros Hne; [congruence|].
    cbn [map sl_transpose]. destruct t as [|y u]; [reflexivity|].
    rewrite IH by discriminate. reflexivity.
  Qed.

  Lemma maxlen_rect : forall m xss, xss <> [] -> Forall (fun row => length row = m) xss -> maxlen xss = m.
  Proof.
    intros m xss Hne H. induction H as [|row t Hr Ht IH]; [congruence|].
    cbn [maxlen fold_right]. fold (maxlen t). destruct t as [|r2 t']; [cbn; lia|].
    rewrite IH by discriminate. lia.
  Qed.

  Lemma zip_cons_cols : forall k (row : list A) (tt : list (list A)), length row = length tt ->
    Forall (fun c => length c = k) tt -> Forall (fun c => length c = S k) (zip_cons row tt).
  Proof.
    intros k. induction row as [|x r IH]; intros tt Hl H.
    - destruct tt; [constructor|discriminate].
    - destruct tt as [|c cs]; [discriminate|]. cbn [zip_cons]. inversion H; subst.
      constructor; [cbn [length]; lia|]. apply IH; auto; cbn [length] in Hl; lia.
  Qed.

  (* transpose is an involution on rectangular, non-degenerate matrices *)
  Theorem transpose_involutive_on_rectangular : forall m xss, 0 < m -> xss <> [] ->
    Forall (fun row => length row = m) xss ->
    sl_transpose (sl_transpose xss) = xss /\
    length (sl_transpose xss) = m /\ Forall (fun col => length col = length xss) (sl_transpose xss).
  Proof.
    intros m xss Hm Hne H. induction H as [|row t Hr Ht IH]; [congruence|].
    assert (Hrow : row <> []) by (destruct row; [cbn [length] in Hr; lia|discriminate]).
    destruct t as [|r2 t'].
    - cbn [sl_transpose]. rewrite zip_cons_nil_r. split; [now apply transpose_singletons|].
      split; [now rewrite map_length|]. apply Forall_forall. intros c Hc. apply in_map_iff in Hc as (x & <- & _). reflexivity.
    - destruct IH as (I1 & I2 & I3); [discriminate|].
      cbn [sl_transpose] in *. set (tt := zip_cons r2 (sl_transpose t')) in *.
      split; [rewrite transpose_zip_cons by (auto; lia); now rewrite I1|].
      split; [rewrite zip_cons_length; lia|].
      cbn [length] in *. apply zip_cons_cols; auto; lia.
  Qed.

  (* ---------------------------------------------------------------- ragged transpose, zips with a function *)
  Definition pick (j : nat) (row : list A) : list A := match nth_error row j with Some x => [x] | None => [] end.

  Lemma zip_cons_nth : forall xs yss j, nth j (zip_cons xs yss) [] = pick j xs ++ nth j yss [].
  Proof.
    unfold pick. induction xs as [|x t IH]; intros yss j.
    - cbn [zip_cons]. destruct j; reflexivity.
    - destruct yss as [|ys yss'].
      + cbn [zip_cons]. revert j. generalize (x :: t). induction l as [|a l IHl]; intros j; [destruct j; reflexivity|].
        destruct j as [|j]; [reflexivity|]. cbn [map nth nth_error]. rewrite IHl. destruct j; reflexivity.
      + cbn [zip_cons]. destruct j as [|j]; [reflexivity|]. cbn [nth nth_error]. apply IH.
  Qed.

  (* transpose of ANY (ragged) list of rows: column j is made of the j-th elements of the rows that are
     long enough, in row order; there are as many columns as the longest row has elements *)
  Theorem transpose_ragged : forall xss,
    length (sl_transpose xss) = maxlen xss /\
    (forall j, nth j (sl_transpose xss) [] = flat_map (pick j) xss) /\
    Forall (fun col => col <> []) (sl_transpose xss).
  Proof.
    intros xss. split; [apply transpose_length|]. split.
    - induction xss as [|xs t IH]; intros j; [destruct j; reflexivity|].
      cbn [sl_transpose flat_map]. now rewrite zip_cons_nth, IH.
    - induction xss as [|xs t IH]; [constructor|]. cbn [sl_transpose].
      revert IH. generalize (sl_transpose t). clear. induction xs as [|x r IHr]; intros yss H; [exact H|].
      destruct yss as [|ys yss']; cbn [zip_cons].
      + apply Forall_forall. intros c Hc. apply in_map_iff in Hc as (y & <- & _). discriminate.
      + inversion H; subst. constructor; [discriminate|auto].
  Qed.

  (* ziplongest with a function reduces every (non-empty) batch of ziplongest from the left *)
  Theorem ziplongest_with_folds : forall (f : A -> A -> A) xss d,
    sl_ziplongest_with f xss =
      map (fun b => match sl_fold f b with Some r => r | None => d end) (sl_ziplongest xss) /\
    length (sl_ziplongest_with f xss) = maxlen xss.
  Proof.
    intros f xss d. unfold sl_ziplongest_with, sl_ziplongest.
    destruct (transpose_ragged xss) as (L & _ & NE).
    assert (E : flat_map (fun b => match sl_fold f b with Some r => [r] | None => [] end) (sl_transpose xss) =
                map (fun b => match sl_fold f b with Some r => r | None => d end) (sl_transpose xss)).
    { clear L. revert NE. generalize (sl_transpose xss). induction l as [|b l IH]; intros NE; [reflexivity|].
      inversion NE as [|? ? Hb NE']; subst. destruct b as [|x b']; [congruence|].
      cbn [flat_map map sl_fold app]. now rewrite (IH NE'). }
    split; [exact E|]. now rewrite E, map_length.
  Qed.

  (* zip with a function is zip followed by the function on every pair *)
  Theorem zip_with_is_zip_then_apply : forall (f : A -> A -> A) xs ys d,
    sl_zip_with f xs ys = map (fun row => f (nth 0 row d) (nth 1 row d)) (sl_zip [xs; ys]) /\
    length (sl_zip_with f xs ys) = Nat.min (length xs) (length ys).
  Proof.
    intros f xs ys d. destruct (zip_binary_combine xs ys) as [E L]. unfold sl_zip_with. split.
    - rewrite E, map_map. reflexivity.
    - rewrite map_length, combine_length. reflexivity.
  Qed.
End Zip.
Arguments pick {A} j row.

(* ------------------------------------------------------------------ cartesian product *)
Section Cartesian.
  Variable A : Type.

  Lemma flat_map_nth_block : forall (B : Type) (f : A -> list B) (m : nat) (xs : list A) i j d dx,
    (forall x, length (f x) = m) -> i < length xs -> j < m ->
    nth (i * m + j) (flat_map f xs) d = nth j (f (nth i xs dx)) d.
  Proof.
    intros B f m xs. induction xs as [|x t IH]; intros i j d dx Hf Hi Hj; [cbn [length] in Hi; lia|].
    cbn [flat_map]. destruct i as [|i'].
    - cbn [Nat.mul Nat.add nth]. rewrite app_nth1 by (rewrite Hf; lia). reflexivity.
    - rewrite app_nth2 by (rewrite Hf; cbn [Nat.mul]; lia). rewrite Hf.
      replace (S i' * m + j - m) with (i' * m + j) by (cbn [Nat.mul]; lia).
      cbn [nth]. apply IH; auto. cbn [length] in Hi. lia.
  Qed.

  Lemma flat_map_length_block : forall (B : Type) (f : A -> list B) (m : nat) (xs : list A),
    (forall x, length (f x) = m) -> length (flat_map f xs) = length xs * m.
  Proof.
    intros B f m xs Hf. induction xs as [|x t IH]; [reflexivity|].
    cbn [flat_map length Nat.mul]. rewrite app_length, Hf, IH. lia.
  Qed.

  (* the product of two sequences in row-major order: the left factor varies slowest *)
  Theorem cartesian_product_order : forall (xs ys : list A) d,
    length (sl_cartesian [xs; ys]) = length xs * length ys /\
    forall i j, i < length xs -> j < length ys ->
      nth (i * length ys + j) (sl_cartesian [xs; ys]) [] = [nth i xs d; nth j ys d].
  Proof.
    intros xs ys d. cbn [sl_cartesian].
    assert (E : forall x : A, map (cons x) (flat_map (fun y => map (cons y) [[]]) ys) = map (fun y => [x; y]) ys).
    { intros x. induction ys as [|y u IH]; [reflexivity|]. cbn [flat_map map app] in *. now rewrite IH. }
    assert (L : forall x : A, length (map (cons x) (flat_map (fun y => map (cons y) [[]]) ys)) = length ys).
    { intros x. now rewrite E, map_length. }
    split; [now apply flat_map_length_block|].
    intros i j Hi Hj. rewrite (flat_map_nth_block _ _ (length ys) xs i j [] d L Hi Hj). rewrite E.
    rewrite nth_indep with (d' := [nth i xs d; d]) by (now rewrite map_length).
    exact (map_nth (fun y => [nth i xs d; y]) ys d j).
  Qed.

  (* n-ary: exactly the tuples that pick one element of each factor, and how many *)
  Theorem cartesian_tuples : forall (xss : list (list A)),
    length (sl_cartesian xss) = fold_right (fun xs m => length xs * m) 1 xss /\
    forall t, In t (sl_cartesian xss) <-> Forall2 (fun x xs => In x xs) t xss.
  Proof.
    induction xss as [|xs rest (IHl & IHm)]; cbn [sl_cartesian fold_right].
    - split; [reflexivity|]. intros t. split; [intros [<-|[]]; constructor|intros H; inversion H; now left].
    - split.
      + rewrite (flat_map_length_block _ _ (length (sl_cartesian rest))) by (intros; now rewrite map_length). now rewrite IHl.
      + intros t. rewrite in_flat_map. split.
        * intros (x & Hx & Ht). apply in_map_iff in Ht as (u & <- & Hu). constructor; auto. now apply IHm.
        * intros H. inversion H; subst. exists x. split; auto. apply in_map_iff. exists l. split; auto. now apply IHm.
  Qed.
End Cartesian.
