(* Outcomes of modelled Rust code: a value, a catchable Noulith error (by class),
   a Rust panic/abort, or exhausted model fuel. *)
From Coq Require Import ZArith List.
Import ListNotations.

Inductive errc := EIndex | EKey | EType | EValue | EName | EArg | ESyntax | EEmpty | EOther.

Inductive outcome (A : Type) : Type :=
| Ok (a : A)
| Err (c : errc)
| Panic
| OutOfFuel.
Arguments Ok {A} a.
Arguments Err {A} c.
Arguments Panic {A}.
Arguments OutOfFuel {A}.

Definition bind {A B} (o : outcome A) (f : A -> outcome B) : outcome B :=
  match o with
  | Ok a => f a
  | Err c => Err c
  | Panic => Panic
  | OutOfFuel => OutOfFuel
  end.
Definition omap {A B} (f : A -> B) (o : outcome A) : outcome B :=
  bind o (fun a => Ok (f a)).

Notation "x <- e ;; k" := (bind e (fun x => k)) (at level 61, e at next level, right associativity).

Definition is_panic {A} (o : outcome A) : bool :=
  match o with Panic => true | _ => false end.
Definition is_ok {A} (o : outcome A) : bool :=
  match o with Ok _ => true | _ => false end.
Definition is_err {A} (o : outcome A) : bool :=
  match o with Err _ => true | _ => false end.

Fixpoint mapM {A B} (f : A -> outcome B) (l : list A) : outcome (list B) :=
  match l with
  | [] => Ok []
  | x :: r => y <- f x ;; ys <- mapM f r ;; Ok (y :: ys)
  end.
