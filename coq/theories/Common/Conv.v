(* Anchors so that every extracted model.ml mentions nat, positive, N and Z (the OCaml
   conversion helpers in ocaml/conv.ml refer to these types). *)
From Coq Require Import ZArith NArith List.
Definition conv_anchor (n : nat) (p : positive) (m : N) (z : Z) : nat * positive * N * Z :=
  (S n, Pos.succ p, N.succ m, Z.succ z).
