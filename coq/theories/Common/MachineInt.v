(* Machine integers as Z with explicit range predicates.  Checked operations model a
   debug build (overflow panics), casts model `as` (wrap modulo 2^64). *)
From Coq Require Import ZArith Lia Bool.
From NV Require Import Common.Outcome.
Open Scope Z_scope.

Definition i64_min : Z := - 2 ^ 63.
Definition i64_max : Z := 2 ^ 63 - 1.
Definition u64_mod : Z := 2 ^ 64.
Definition usize_max : Z := 2 ^ 64 - 1.

Definition in_i64 (z : Z) : Prop := i64_min <= z <= i64_max.
Definition in_i64b (z : Z) : bool := (i64_min <=? z) && (z <=? i64_max).
Definition in_usize (z : Z) : Prop := 0 <= z <= usize_max.
Definition in_usizeb (z : Z) : bool := (0 <=? z) && (z <=? usize_max).

Lemma in_i64b_spec z : in_i64b z = true <-> in_i64 z.
Proof. unfold in_i64b, in_i64. rewrite andb_true_iff, !Z.leb_le. tauto. Qed.
Lemma in_usizeb_spec z : in_usizeb z = true <-> in_usize z.
Proof. unfold in_usizeb, in_usize. rewrite andb_true_iff, !Z.leb_le. tauto. Qed.

(* isize/i64 arithmetic with overflow checks on (debug build) *)
Definition chk_i64 (z : Z) : outcome Z := if in_i64b z then Ok z else Panic.
Definition add_i64 (a b : Z) : outcome Z := chk_i64 (a + b).
Definition sub_i64 (a b : Z) : outcome Z := chk_i64 (a - b).
Definition mul_i64 (a b : Z) : outcome Z := chk_i64 (a * b).
(* usize arithmetic with overflow checks on *)
Definition chk_usize (z : Z) : outcome Z := if in_usizeb z then Ok z else Panic.
Definition add_usize (a b : Z) : outcome Z := chk_usize (a + b).
Definition sub_usize (a b : Z) : outcome Z := chk_usize (a - b).

(* `x as usize` from isize: two's complement reinterpretation *)
Definition as_usize (z : Z) : Z := z mod u64_mod.
(* `x as isize`/`as i64` from usize/u64 *)
Definition as_i64 (z : Z) : Z :=
  let m := z mod u64_mod in if m <? 2 ^ 63 then m else m - u64_mod.
(* wrapping i64 arithmetic (release build, or explicit wrapping ops) *)
Definition wrap_i64 (z : Z) : Z := as_i64 z.

Ltac Zify.zify_post_hook ::= Z.div_mod_to_equations.

Lemma as_usize_nonneg z : 0 <= z <= i64_max -> as_usize z = z.
Proof. unfold as_usize, u64_mod, i64_max. intros. lia. Qed.
Lemma as_usize_neg z : i64_min <= z < 0 -> as_usize z = z + 2 ^ 64.
Proof. unfold as_usize, u64_mod, i64_min. intros. lia. Qed.
Lemma as_usize_range z : 0 <= as_usize z <= usize_max.
Proof. unfold as_usize, u64_mod, usize_max. lia. Qed.
Lemma as_i64_id z : in_i64 z -> as_i64 z = z.
Proof.
  unfold as_i64, in_i64, i64_min, i64_max, u64_mod. intros.
  destruct (Z.ltb_spec (z mod 2 ^ 64) (2 ^ 63)); lia.
Qed.
Lemma as_i64_range z : in_i64 (as_i64 z).
Proof.
  unfold as_i64, in_i64, i64_min, i64_max, u64_mod.
  destruct (Z.ltb_spec (z mod 2 ^ 64) (2 ^ 63)); lia.
Qed.
