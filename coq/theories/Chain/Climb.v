(* C03 specification: operator-precedence grouping, written as recursive descent
   ("precedence climbing") with no stack.  `climb ctx lhs ops` parses as much of `ops` as
   binds tighter than the enclosing operator `ctx`: it stops when ctx is tighter than the next
   operator; otherwise the next operator takes lhs as its left operand, parses its right
   operand with itself as context, absorbs following operators it chains with, and the
   loop continues with the result as the new lhs. *)
From Coq Require Import List Bool.
From NV Require Import Chain.ChainEval.
Import ListNotations.
Set Implicit Arguments.

Section Climb.
Variables F P V : Type.
Variable tighter : P -> P -> bool.
Variable chain : F -> F -> option F.
Notation term := (term F V).
Notation pend := (pend F P V).
Notation oper := (oper F P).

Definition stops (ctx : option P) (o : oper) : bool :=
  match ctx with None => false | Some c => tighter c (o_prec o) end.

(* relational form, mutually inductive: Climb = the loop, Node = one operator with its right operand *)
Inductive Climb : option P -> term -> list (oper * term) -> term -> list (oper * term) -> Prop :=
| C_end ctx lhs : Climb ctx lhs [] lhs []
| C_stop ctx lhs o x r : stops ctx o = true -> Climb ctx lhs ((o, x) :: r) lhs ((o, x) :: r)
| C_take ctx lhs o x r t1 r1 t r2 :
    stops ctx o = false ->
    Node (mk o lhs) x r t1 r1 ->
    Climb ctx t1 r1 t r2 ->
    Climb ctx lhs ((o, x) :: r) t r2
with Node : pend -> term -> list (oper * term) -> term -> list (oper * term) -> Prop :=
| N_done p x r rhs r1 :
    Climb (Some (p_prec p)) x r rhs r1 ->
    (match r1 with (o2, _) :: _ => chain (p_fn p) (o_fn o2) = None | [] => True end) ->
    Node p x r (run_top p rhs) r1
| N_chain p x r rhs o2 x2 r2 g t r' :
    Climb (Some (p_prec p)) x r rhs ((o2, x2) :: r2) ->
    chain (p_fn p) (o_fn o2) = Some g ->
    Node (ext p rhs o2 g) x2 r2 t r' ->
    Node p x r t r'.

(* executable form (the oracle used by the correspondence): fuel = S (length ops) suffices *)
Fixpoint climb (fuel : nat) (ctx : option P) (lhs : term) (ops : list (oper * term)) : option (term * list (oper * term)) :=
  match fuel with
  | O => None
  | S fuel' =>
    match ops with
    | [] => Some (lhs, [])
    | (o, x) :: r =>
      if stops ctx o then Some (lhs, ops)
      else match node fuel' (mk o lhs) x r with
           | Some (t1, r1) => climb fuel' ctx t1 r1
           | None => None
           end
    end
  end
with node (fuel : nat) (p : pend) (x : term) (r : list (oper * term)) : option (term * list (oper * term)) :=
  match fuel with
  | O => None
  | S fuel' =>
    match climb fuel' (Some (p_prec p)) x r with
    | Some (rhs, (o2, x2) :: r2) =>
      match chain (p_fn p) (o_fn o2) with
      | Some g => node fuel' (ext p rhs o2 g) x2 r2
      | None => Some (run_top p rhs, (o2, x2) :: r2)
      end
    | Some (rhs, []) => Some (run_top p rhs, [])
    | None => None
    end
  end.

Definition climb_spec (e0 : term) (ops : list (oper * term)) : option term :=
  match climb (2 * length ops + 2) None e0 ops with
  | Some (t, []) => Some t
  | _ => None
  end.
End Climb.
