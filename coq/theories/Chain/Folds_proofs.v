(* C03: what "the left operator's associativity decides at equal precedence" means on whole
   chains, and the characterisation of tighter_than_when_before. *)
From Coq Require Import List Bool ZArith Lia.
From NV Require Import Chain.ChainEval.
Import ListNotations.
Set Implicit Arguments.

Section Folds.
Variables F P V : Type.
Variable tighter : P -> P -> bool.
Variable chain : F -> F -> option F.
Notation term := (term F V).
Notation oper := (oper F P).
Notation run := (run (V:=V) tighter chain).

Definition bin (l : term) (ox : oper * term) : term := App (o_fn (fst ox)) [o_id (fst ox)] [l; snd ox].
Definition left_fold (e0 : term) (ops : list (oper * term)) : term := fold_left bin ops e0.
Fixpoint right_fold (e0 : term) (ops : list (oper * term)) : term :=
  match ops with
  | [] => e0
  | (o, x) :: r => App (o_fn o) [o_id o] [e0; right_fold x r]
  end.

Definition precs (ops : list (oper * term)) : list P := map (fun ox => o_prec (fst ox)) ops.
Definition no_chain : Prop := forall f g, chain f g = None.

Lemma run_one_left o lhs x ops :
  no_chain ->
  (forall a b, In a (o_prec o :: precs ops) -> In b (precs ops) -> tighter a b = true) ->
  run [mk o lhs] x ops = left_fold (bin lhs (o, x)) ops.
Proof.
  intros Hn. revert o lhs x. induction ops as [|[o2 x2] r IH]; intros o lhs x H.
  - reflexivity.
  - cbn [ChainEval.run ChainEval.give mk p_prec p_fn].
    rewrite (H (o_prec o) (o_prec o2)) by (cbn; auto).
    rewrite Hn. cbn [ChainEval.give].
    rewrite IH.
    + reflexivity.
    + intros a b Ha Hb. apply H; cbn in *; tauto.
Qed.

(* every operator binds tighter than every later one (e.g. equal precedence, all left-associative):
   the chain is a left fold *)
Theorem all_tighter_left_fold (e0 : term) (ops : list (oper * term)) :
  no_chain ->
  (forall a b, In a (precs ops) -> In b (precs ops) -> tighter a b = true) ->
  eval_chain tighter chain e0 ops = left_fold e0 ops.
Proof.
  intros Hn H. unfold eval_chain. destruct ops as [|[o x] r]; [reflexivity|].
  cbn [ChainEval.run ChainEval.give]. rewrite run_one_left; [reflexivity|exact Hn|].
  intros a b Ha Hb. apply H; cbn in *; tauto.
Qed.

Lemma finish_right (stk : list (pend F P V)) (rm : term) (o : oper) (lhs : term) :
  finish (mk (P:=P) o lhs :: stk) rm = finish stk (App (o_fn o) [o_id o] [lhs; rm]).
Proof. reflexivity. Qed.

Lemma run_right ops : forall stk rm,
  (forall a b, In a (map (@p_prec F P V) stk ++ precs ops) -> In b (precs ops) -> tighter a b = false) ->
  run stk rm ops = finish stk (right_fold rm ops).
Proof.
  induction ops as [|[o x] r IH]; intros stk rm H; [reflexivity|].
  cbn [ChainEval.run].
  assert (Hg : give tighter chain stk rm o x = (mk o rm :: stk, x)).
  { destruct stk as [|p rest]; [reflexivity|]. cbn [ChainEval.give].
    rewrite (H (p_prec p) (o_prec o)); [reflexivity| |]; cbn; auto. }
  rewrite Hg. rewrite IH.
  - reflexivity.
  - intros a b Ha Hb. apply H; [|cbn; auto].
    cbn in Ha. destruct Ha as [Ha|Ha]; [subst; apply in_or_app; right; cbn; auto|].
    apply in_app_or in Ha. apply in_or_app. destruct Ha; [left; assumption|right; cbn; auto].
Qed.

(* no operator binds tighter than a later one (e.g. equal precedence, all right-associative):
   the chain is a right fold; no chaining hypothesis is needed because nothing is ever popped *)
Theorem none_tighter_right_fold (e0 : term) (ops : list (oper * term)) :
  (forall a b, In a (precs ops) -> In b (precs ops) -> tighter a b = false) ->
  eval_chain tighter chain e0 ops = right_fold e0 ops.
Proof. intros H. unfold eval_chain. rewrite run_right; [reflexivity|exact H]. Qed.
End Folds.

(* Precedence::tighter_than_when_before: greater, or not less and left-associative *)
Theorem tighter_spec (L : Type) (pcmp : L -> L -> option comparison) (a b : L * assoc) :
  tighter_than_when_before pcmp a b = true <->
  pcmp (fst a) (fst b) = Some Gt \/ (pcmp (fst a) (fst b) <> Some Gt /\ pcmp (fst a) (fst b) <> Some Lt /\ snd a = ALeft).
Proof.
  unfold tighter_than_when_before.
  destruct (pcmp (fst a) (fst b)) as [[| |]|]; destruct (snd a); split; intros H;
    try discriminate; try (left; reflexivity); try (right; repeat split; congruence); auto;
    destruct H as [H|[H1 [H2 H3]]]; congruence.
Qed.

(* on ranks: equal precedence, left operator left-associative => tighter; right-associative => not *)
Lemma tighter_rank_eq (z : Z) (a : assoc) (b : assoc) :
  tighter_rank (Some z, a) (Some z, b) = match a with ALeft => true | ARight => false end.
Proof. unfold tighter_rank, tighter_than_when_before, pcmp_rank. cbn. rewrite Z.compare_refl. reflexivity. Qed.
Lemma tighter_rank_gt (x y : Z) (a b : assoc) : (y < x)%Z -> tighter_rank (Some x, a) (Some y, b) = true.
Proof. intros H. unfold tighter_rank, tighter_than_when_before, pcmp_rank. cbn. apply Z.compare_gt_iff in H. rewrite H. reflexivity. Qed.
Lemma tighter_rank_lt (x y : Z) (a b : assoc) : (x < y)%Z -> tighter_rank (Some x, a) (Some y, b) = false.
Proof. intros H. unfold tighter_rank, tighter_than_when_before, pcmp_rank. cbn. apply Z.compare_lt_iff in H. rewrite H. reflexivity. Qed.
