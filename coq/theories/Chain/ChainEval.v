(* C03 model: transcription of eval.rs ChainEvaluator (pending stack, give, run_top_popped,
   finish), of the loop in Expr::Chain, of the one-operator fast path and of
   Func::ChainSection, and of Precedence::tighter_than_when_before (core.rs).
   Operators are abstract values F with an abstract precedence P; `tighter` and `chain`
   are arbitrary oracles (so NaN precedences and non-transitive ties are covered).
   Results are free terms.  Definitions only. *)
From Coq Require Import List Bool ZArith.
Import ListNotations.
Set Implicit Arguments.

Section Chain.
Variables F P V : Type.
Variable tighter : P -> P -> bool.          (* top.prec.tighter_than_when_before(new.prec) *)
Variable chain : F -> F -> option F.        (* top.try_chain(new) *)

(* the value of an application is a free term; `ids` are the positions (1-based) of the
   source operators merged into this n-ary application, for the exactly-once theorems *)
Inductive term := Leaf (v : V) | App (f : F) (ids : list nat) (args : list term).

Record pend := { p_args : list term; p_fn : F; p_ids : list nat; p_prec : P }.
Record oper := { o_fn : F; o_prec : P; o_id : nat }.

(* run_top_popped: operands.push(rightmost); rightmost = op.run(operands) *)
Definition run_top (p : pend) (rm : term) : term := App (p_fn p) (p_ids p) (p_args p ++ [rm]).
Definition mk (o : oper) (rm : term) : pend :=
  {| p_args := [rm]; p_fn := o_fn o; p_ids := [o_id o]; p_prec := o_prec o |}.
(* merge: operands.push(rightmost); pending.push((operands, new_op, prec)) -- keeps the LEFT precedence *)
Definition ext (p : pend) (rm : term) (o : oper) (g : F) : pend :=
  {| p_args := p_args p ++ [rm]; p_fn := g; p_ids := p_ids p ++ [o_id o]; p_prec := p_prec p |}.

(* give: the stack is a list with the top first *)
Fixpoint give (stk : list pend) (rm : term) (o : oper) (x : term) : list pend * term :=
  match stk with
  | [] => ([mk o rm], x)
  | p :: rest =>
    if tighter (p_prec p) (o_prec o) then
      match chain (p_fn p) (o_fn o) with
      | Some g => (ext p rm o g :: rest, x)
      | None => give rest (run_top p rm) o x
      end
    else (mk o rm :: stk, x)
  end.
Fixpoint finish (stk : list pend) (rm : term) : term :=
  match stk with [] => rm | p :: rest => finish rest (run_top p rm) end.
Fixpoint run (stk : list pend) (rm : term) (ops : list (oper * term)) : term :=
  match ops with
  | [] => finish stk rm
  | (o, x) :: r => let '(s', rm') := give stk rm o x in run s' rm' r
  end.

(* Expr::Chain, general path *)
Definition eval_chain (e0 : term) (ops : list (oper * term)) : term := run [] e0 ops.
(* Expr::Chain with exactly one operator: b.run2(lhs, rhs) *)
Definition eval_chain_fast (e0 : term) (o : oper) (x : term) : term := App (o_fn o) [o_id o] [e0; x].

(* Func::ChainSection(seed, ops) applied to args: slots (None) are filled left to right *)
Fixpoint fill (slots : list (oper * option term)) (args : list term) : option (list (oper * term) * list term) :=
  match slots with
  | [] => Some ([], args)
  | (o, Some x) :: r =>
    match fill r args with Some (l, rest) => Some ((o, x) :: l, rest) | None => None end
  | (o, None) :: r =>
    match args with
    | [] => None
    | a :: args' => match fill r args' with Some (l, rest) => Some ((o, a) :: l, rest) | None => None end
    end
  end.
Definition run_section (seed : option term) (slots : list (oper * option term)) (args : list term) : option term :=
  match (match seed with Some s => Some (s, args) | None => match args with a :: r => Some (a, r) | [] => None end end) with
  | None => None
  | Some (e0, args') =>
    match fill slots args' with
    | Some (ops, []) => Some (run [] e0 ops)
    | _ => None   (* too few / too many arguments: argument error *)
    end
  end.
End Chain.

Arguments Leaf {F V} v.
Arguments App {F V} f ids args.
Arguments mk {F P V} o rm.
Arguments run_top {F P V} p rm.
Arguments finish {F P V} stk rm.

(* Precedence(f64, Assoc)::tighter_than_when_before over an abstract partial comparison *)
Inductive assoc := ALeft | ARight.
Section Prec.
Variable L : Type.
Variable pcmp : L -> L -> option comparison.   (* f64::partial_cmp: None when a NaN is involved *)
Definition tighter_than_when_before (a b : L * assoc) : bool :=
  match pcmp (fst a) (fst b) with
  | Some Gt => true
  | Some Lt => false
  | Some Eq | None => match snd a with ALeft => true | ARight => false end
  end.
End Prec.

(* concrete precedences for the runner: f64 values as ranks (None = NaN; +-inf are extreme ranks) *)
Definition prank := option Z.
Definition pcmp_rank (a b : prank) : option comparison :=
  match a, b with
  | Some x, Some y => Some (Z.compare x y)
  | _, _ => None
  end.
Definition tighter_rank : prank * assoc -> prank * assoc -> bool := tighter_than_when_before pcmp_rank.
