(* C03 root_choice: for a weak order of precedences (a total preorder of levels plus a
   per-operator associativity; no NaN) and no chaining, the value of a chain is the tree
   whose root is an operator that every operator to its left binds tighter than and that
   binds tighter than nothing to its right, applied to the recursively grouped sub-chains.
   Proved directly on the stack machine (frame lemma + pop-all lemma + strong induction). *)
From Coq Require Import List Bool Lia Arith.
From NV Require Import Chain.ChainEval.
Import ListNotations.
Set Implicit Arguments.

Section Machine.
Variables F P V : Type.
Variable tighter : P -> P -> bool.
Variable chain : F -> F -> option F.
Notation term := (term F V).
Notation pend := (pend F P V).
Notation oper := (oper F P).
Notation run := (run (V:=V) tighter chain).
Notation give := (give (V:=V) tighter chain).

(* the state after all operators have been given, before finish *)
Fixpoint steps (stk : list pend) (rm : term) (ops : list (oper * term)) : list pend * term :=
  match ops with
  | [] => (stk, rm)
  | (o, x) :: r => let '(s', rm') := give stk rm o x in steps s' rm' r
  end.

Lemma run_steps ops : forall stk rm, run stk rm ops = finish (fst (steps stk rm ops)) (snd (steps stk rm ops)).
Proof.
  induction ops as [|[o x] r IH]; intros stk rm; cbn [ChainEval.run steps]; [reflexivity|].
  destruct (give stk rm o x) as [s' rm']. apply IH.
Qed.

Lemma finish_app (S T : list pend) rm : finish (S ++ T) rm = finish T (finish S rm).
Proof. revert rm. induction S as [|p S IH]; intros rm; cbn [finish app]; [reflexivity|apply IH]. Qed.

(* an entry that does not bind tighter than the incoming operator shields everything below it *)
Lemma give_frame (S B : list pend) p rm (o : oper) x :
  tighter (p_prec p) (o_prec o) = false ->
  give (S ++ p :: B) rm o x = (fst (give S rm o x) ++ p :: B, snd (give S rm o x)).
Proof.
  intros Hp. revert rm. induction S as [|s S IH]; intros rm; cbn [ChainEval.give app].
  - rewrite Hp. reflexivity.
  - destruct (tighter (p_prec s) (o_prec o)); [|reflexivity].
    destruct (chain (p_fn s) (o_fn o)); [reflexivity|]. apply IH.
Qed.

Lemma steps_frame ops : forall (S B : list pend) p rm,
  (forall q, In q ops -> tighter (p_prec p) (o_prec (fst q)) = false) ->
  steps (S ++ p :: B) rm ops = (fst (steps S rm ops) ++ p :: B, snd (steps S rm ops)).
Proof.
  induction ops as [|[o x] r IH]; intros S B p rm H; cbn [steps]; [reflexivity|].
  rewrite give_frame by (apply (H (o, x)); left; reflexivity).
  destruct (give S rm o x) as [s' rm']. cbn [fst snd]. apply IH.
  intros q Hq. apply H. right. exact Hq.
Qed.

(* entries that all bind tighter than the incoming operator (and do not chain) are all applied *)
Lemma give_pop_all (S B : list pend) rm (o : oper) x :
  (forall f g, chain f g = None) ->
  (forall s, In s S -> tighter (p_prec s) (o_prec o) = true) ->
  give (S ++ B) rm o x = give B (finish S rm) o x.
Proof.
  intros Hn. revert rm. induction S as [|s S IH]; intros rm H; cbn [ChainEval.give app finish]; [reflexivity|].
  rewrite (H s) by (left; reflexivity). rewrite Hn. apply IH. intros s' Hs'. apply H. right. exact Hs'.
Qed.

(* heads of the stack after processing ops from the empty stack are operators of ops *)
Lemma give_heads (S : list pend) rm (o : oper) x (Q : P -> Prop) :
  (forall s, In s S -> Q (p_prec s)) -> Q (o_prec o) ->
  forall s, In s (fst (give S rm o x)) -> Q (p_prec s).
Proof.
  revert rm. induction S as [|p S IH]; intros rm HS Ho s; cbn [ChainEval.give].
  - cbn. intros [<-|[]]. exact Ho.
  - destruct (tighter (p_prec p) (o_prec o)).
    + destruct (chain (p_fn p) (o_fn o)).
      * cbn. intros [<-|Hs]; [cbn; apply HS; left; reflexivity | apply HS; right; exact Hs].
      * apply IH; [intros s' Hs'; apply HS; right; exact Hs' | exact Ho].
    + cbn. intros [<-|Hs]; [exact Ho | apply HS; exact Hs].
Qed.
Lemma steps_heads ops (Q : P -> Prop) : forall (S : list pend) rm,
  (forall s, In s S -> Q (p_prec s)) -> (forall q, In q ops -> Q (o_prec (fst q))) ->
  forall s, In s (fst (steps S rm ops)) -> Q (p_prec s).
Proof.
  induction ops as [|[o x] r IH]; intros S rm HS Hq; cbn [steps]; [exact HS|].
  pose proof (@give_heads S rm o x Q HS (Hq (o, x) (or_introl eq_refl))) as Hg.
  destruct (give S rm o x) as [s' rm']. apply IH; [exact Hg|]. intros q Hin. apply Hq. right. exact Hin.
Qed.
End Machine.

Section Root.
Variables F L V : Type.
Variable leb : L -> L -> bool.
Hypothesis leb_total : forall a b, leb a b = true \/ leb b a = true.
Hypothesis leb_trans : forall a b c, leb a b = true -> leb b c = true -> leb a c = true.

(* f64::partial_cmp on non-NaN values, as a total preorder *)
Definition pcmp_of (a b : L) : option comparison :=
  if leb a b then (if leb b a then Some Eq else Some Lt) else Some Gt.
Definition P := (L * assoc)%type.
Definition tight : P -> P -> bool := tighter_than_when_before pcmp_of.
Definition nochain : F -> F -> option F := fun _ _ => None.
Notation term := (term F V).
Notation oper := (oper F P).
Notation eval := (eval_chain (V:=V) tight nochain).

Lemma tight_true a b : tight a b = true <->
  (leb (fst a) (fst b) = false) \/ (leb (fst b) (fst a) = true /\ snd a = ALeft).
Proof.
  unfold tight, tighter_than_when_before, pcmp_of.
  destruct (leb (fst a) (fst b)) eqn:E1; destruct (leb (fst b) (fst a)) eqn:E2; destruct (snd a);
    split; intros H; try discriminate; auto; try (destruct H as [H|[H1 H2]]; congruence).
  all: try (destruct (leb_total (fst a) (fst b)); congruence).
Qed.
Lemma tight_false a b : tight a b = false <->
  leb (fst a) (fst b) = true /\ (leb (fst b) (fst a) = false \/ snd a = ARight).
Proof.
  pose proof (tight_true a b) as T. destruct (tight a b).
  - split; [discriminate|]. intros [H1 [H2|H2]]; destruct (proj1 T eq_refl) as [H|[H3 H4]]; congruence.
  - split; [|reflexivity]. intros _.
    destruct (leb (fst a) (fst b)) eqn:E1.
    + split; [reflexivity|]. destruct (leb (fst b) (fst a)) eqn:E2; [|left; reflexivity].
      destruct (snd a) eqn:Ea; [|right; reflexivity].
      assert (false = true) by (apply T; right; split; reflexivity). discriminate.
    + assert (false = true) by (apply T; left; reflexivity). discriminate.
Qed.

(* W1: c does not stop p but stops o  =>  p stops o *)
Lemma W1 c p o : tight c p = false -> tight c o = true -> tight p o = true.
Proof.
  rewrite tight_false, !tight_true. intros [Hcp Hc] [Hco|[Hoc Ha]].
  - left. destruct (leb (fst p) (fst o)) eqn:E; [|reflexivity].
    rewrite (leb_trans Hcp E) in Hco. discriminate.
  - destruct Hc as [Hpc|Hr]; [|congruence].
    left. destruct (leb (fst p) (fst o)) eqn:E; [|reflexivity].
    rewrite (leb_trans E Hoc) in Hpc. discriminate.
Qed.
(* W2: stopping is transitive *)
Lemma W2 a b c : tight a b = true -> tight b c = true -> tight a c = true.
Proof.
  rewrite !tight_true. intros [Hab|[Hba Ha]] [Hbc|[Hcb Hb]].
  - left. destruct (leb (fst a) (fst c)) eqn:E; [|reflexivity].
    destruct (leb_total (fst b) (fst c)) as [H|H]; [congruence|].
    rewrite (leb_trans E H) in Hab. discriminate.
  - left. destruct (leb (fst a) (fst c)) eqn:E; [|reflexivity].
    rewrite (leb_trans E Hcb) in Hab. discriminate.
  - left. destruct (leb (fst a) (fst c)) eqn:E; [|reflexivity].
    rewrite (leb_trans Hba E) in Hbc. discriminate.
  - right. split; [exact (leb_trans Hcb Hba)|exact Ha].
Qed.

Definition stopsb (o : oper) (q : oper * term) : bool := tight (o_prec o) (o_prec (fst q)).

Lemma first_stop (o : oper) (r : list (oper * term)) :
  (forall q, In q r -> stopsb o q = false) \/
  exists r1 q r2, r = r1 ++ q :: r2 /\ stopsb o q = true /\ forall s, In s r1 -> stopsb o s = false.
Proof.
  induction r as [|a r IH]; [left; intros q []|].
  destruct (stopsb o a) eqn:E.
  - right. exists [], a, r. repeat split; auto. intros s [].
  - destruct IH as [H|[r1 [q [r2 [-> [Hq H1]]]]]].
    + left. intros q [<-|Hq]; auto.
    + right. exists (a :: r1), q, r2. repeat split; auto. intros s [<-|Hs]; auto.
Qed.

(* nothing after the first operator is stopped by it: it is the root *)
Lemma eval_first_root (e0 : term) (o : oper) x r :
  (forall q, In q r -> stopsb o q = false) ->
  eval e0 ((o, x) :: r) = App (o_fn o) [o_id o] [e0; eval x r].
Proof.
  intros H. unfold eval_chain. cbn [run give]. rewrite !run_steps.
  pose proof (@steps_frame F P V tight nochain r [] [] (mk o e0) x) as Hf.
  cbn [app] in Hf. rewrite Hf by (intros q Hq; apply (H q Hq)).
  cbn [fst snd]. rewrite finish_app. reflexivity.
Qed.

(* the first operator stops some later one: the chain reduces to a shorter chain whose first
   operand is the grouped prefix *)
Lemma eval_reduce (e0 : term) (o : oper) x r1 q r2 :
  stopsb o q = true -> (forall s, In s r1 -> stopsb o s = false) ->
  eval e0 ((o, x) :: r1 ++ q :: r2) = eval (eval e0 ((o, x) :: r1)) (q :: r2).
Proof.
  intros Hq H1. rewrite (eval_first_root e0 o x r1 H1).
  unfold eval_chain at 1 2. cbn [run give].
  destruct q as [oq xq].
  (* process r1 above the shielded bottom entry *)
  assert (Hs : forall rest, run tight nochain [mk o e0] x (r1 ++ rest) =
                 run tight nochain (fst (steps tight nochain [] x r1) ++ [mk o e0]) (snd (steps tight nochain [] x r1)) rest).
  { intros rest.
    assert (G : forall r S rm, run tight nochain S rm (r ++ rest) =
               run tight nochain (fst (steps tight nochain S rm r)) (snd (steps tight nochain S rm r)) rest).
    { induction r as [|[a b] r IH]; intros S rm; cbn [app run steps]; [reflexivity|].
      destruct (give tight nochain S rm a b) as [s' rm']. apply IH. }
    rewrite G. pose proof (@steps_frame F P V tight nochain r1 [] [] (mk o e0) x) as Hf.
    cbn [app] in Hf. rewrite Hf by (intros s Hs; apply (H1 s Hs)). reflexivity. }
  rewrite Hs. cbn [run].
  set (S1 := fst (steps tight nochain [] x r1)). set (rm1 := snd (steps tight nochain [] x r1)).
  (* the incoming operator pops all of S1 and then the bottom entry *)
  assert (Hall : forall s, In s S1 -> tight (p_prec s) (o_prec oq) = true).
  { intros s Hs'. apply (W1 (o_prec o)).
    - revert s Hs'. subst S1.
      apply (@steps_heads F P V tight nochain r1 (fun p => tight (o_prec o) p = false) [] x).
      + intros s [].
      + intros s' Hin. apply (H1 s' Hin).
    - exact Hq. }
  rewrite (@give_pop_all F P V tight nochain S1 [mk o e0] rm1 oq xq (fun _ _ => eq_refl) Hall).
  cbn [give mk p_prec p_fn]. unfold stopsb in Hq. cbn [fst] in Hq. rewrite Hq. cbn [nochain give].
  subst S1 rm1. rewrite <- run_steps. reflexivity.
Qed.

(* ---------- Theorem root_choice ---------- *)
Theorem root_choice : forall (ops : list (oper * term)) (e0 : term), ops <> [] ->
  exists pre o x post,
    ops = pre ++ (o, x) :: post /\
    eval e0 ops = App (o_fn o) [o_id o] [eval e0 pre; eval x post] /\
    (forall q, In q pre -> tight (o_prec (fst q)) (o_prec o) = true) /\
    (forall q, In q post -> tight (o_prec o) (o_prec (fst q)) = false).
Proof.
  intros ops. remember (length ops) as n eqn:Hn. revert ops Hn.
  induction n as [n IH] using lt_wf_ind. intros ops Hn e0 Hne.
  destruct ops as [|[o x] r]; [contradiction|].
  destruct (first_stop o r) as [Hnone|[r1 [q [r2 [-> [Hq H1]]]]]].
  - exists [], o, x, r. split; [reflexivity|]. split; [apply eval_first_root; exact Hnone|].
    split; [intros q []|]. intros q Hq. apply (Hnone q Hq).
  - rewrite (eval_reduce e0 o x r1 q r2 Hq H1).
    set (T1 := eval e0 ((o, x) :: r1)).
    destruct (IH (length (q :: r2))) with (ops := q :: r2) (e0 := T1) as [pre' [o' [x' [post' [Heq [Hev [Hpre Hpost]]]]]]].
    { subst n. cbn [length]. rewrite app_length. cbn [length]. lia. }
    { reflexivity. }
    { discriminate. }
    exists ((o, x) :: r1 ++ pre'), o', x', post'.
    split; [cbn [app]; rewrite <- app_assoc, <- Heq; reflexivity|].
    split.
    { rewrite Hev. f_equal. f_equal.
      destruct pre' as [|q' pre''].
      - rewrite app_nil_r. reflexivity.
      - cbn [app] in Heq. inversion Heq; subst q'. symmetry. apply eval_reduce; assumption. }
    split; [|exact Hpost].
    (* everything in (o,x) :: r1 binds tighter than the root o' *)
    assert (Hq' : tight (o_prec (fst q)) (o_prec o') = true \/ (pre' = [] /\ o' = fst q)).
    { destruct pre' as [|q' pre'']; [right; split; [reflexivity|]; cbn [app] in Heq; inversion Heq; reflexivity|].
      left. cbn [app] in Heq. inversion Heq; subst q'. apply Hpre. left. reflexivity. }
    intros s Hs. cbn [In] in Hs. destruct Hs as [<-|Hs].
    + cbn [fst]. destruct Hq' as [Hq'|[_ ->]]; [apply (W2 _ (o_prec (fst q))); [exact Hq|exact Hq']|exact Hq].
    + apply in_app_or in Hs. destruct Hs as [Hs|Hs]; [|apply Hpre; exact Hs].
      assert (Hsq : tight (o_prec (fst s)) (o_prec (fst q)) = true) by (apply (W1 (o_prec o)); [apply (H1 s Hs)|exact Hq]).
      destruct Hq' as [Hq'|[_ ->]]; [apply (W2 _ (o_prec (fst q))); assumption|exact Hsq].
Qed.
End Root.
