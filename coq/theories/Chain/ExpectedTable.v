(* C03: the chainable pairs the documentation and the property statement name (left, right):
   comparisons with each other; zip, **, &&&, *** with themselves; zip with `with`;
   til/to with by; fold/scan with from; replace with with. Committed, not generated. *)
From Coq Require Import String List Bool.
Import ListNotations.
Open Scope string_scope.

Definition comparisons : list string := ["=="; "!="; "<"; "<="; ">"; ">="].
Definition documented_pairs : list (string * string) :=
  list_prod comparisons comparisons ++
  [("zip", "zip"); ("zip", "with"); ("**", "**"); ("&&&", "&&&"); ("***", "***");
   ("til", "by"); ("to", "by"); ("fold", "from"); ("scan", "from"); ("replace", "with")].

Definition pair_eqb (p q : string * string) : bool :=
  String.eqb (fst p) (fst q) && String.eqb (snd p) (snd q).
Definition chains_in (table : list (string * string)) (p : string * string) : bool :=
  existsb (pair_eqb p) table.
