From Coq Require Import List Bool Lia Arith.
From NV Require Import Chain.ChainEval Chain.Climb.
Import ListNotations.
Set Implicit Arguments.

Section Proofs.
Variables F P V : Type.
Variable tighter : P -> P -> bool.
Variable chain : F -> F -> option F.
Notation term := (term F V).
Notation pend := (pend F P V).
Notation oper := (oper F P).
Notation Climb := (Climb (V:=V) tighter chain).
Notation Node := (Node (V:=V) tighter chain).
Notation run := (run (V:=V) tighter chain).
Notation give := (give (V:=V) tighter chain).
Notation climb := (climb (V:=V) tighter chain).
Notation node := (node (V:=V) tighter chain).

Scheme Climb_ind2 := Induction for Climb.Climb Sort Prop
with Node_ind2 := Induction for Climb.Node Sort Prop.
Combined Scheme Climb_Node_ind from Climb_ind2, Node_ind2.

Definition ctx_of (stk : list pend) : option P :=
  match stk with [] => None | p :: _ => Some (p_prec p) end.

(* a returned remainder always starts with an operator the context stops at *)
Lemma climb_rest :
  (forall ctx lhs ops t r2, Climb ctx lhs ops t r2 ->
     match r2 with [] => True | (o, _) :: _ => stops tighter ctx o = true end) /\
  (forall p x r t r1, Node p x r t r1 ->
     match r1 with [] => True | (o, _) :: _ => tighter (p_prec p) (o_prec o) = true end).
Proof.
  apply Climb_Node_ind; intros; auto.
Qed.

Lemma pop_step p stk rhs r1 :
  match r1 with
  | [] => True
  | (o, _) :: _ => tighter (p_prec p) (o_prec o) = true /\ chain (p_fn p) (o_fn o) = None
  end ->
  run (p :: stk) rhs r1 = run stk (run_top p rhs) r1.
Proof.
  destruct r1 as [|[o2 x2] r]; intros H; cbn [ChainEval.run finish]; [reflexivity|].
  destruct H as [Ht Hc]. cbn [ChainEval.give]. rewrite Ht, Hc. reflexivity.
Qed.

(* the stack is the defunctionalised continuation of the recursive descent *)
Lemma climb_run :
  (forall ctx lhs ops t r2, Climb ctx lhs ops t r2 ->
     forall stk, ctx_of stk = ctx -> run stk lhs ops = run stk t r2) /\
  (forall p x r t r1, Node p x r t r1 ->
     forall stk, run (p :: stk) x r = run stk t r1).
Proof.
  apply Climb_Node_ind; intros.
  - reflexivity.
  - reflexivity.
  - cbn [ChainEval.run].
    assert (Hg : give stk lhs o x = (mk o lhs :: stk, x)).
    { destruct stk as [|q stk']; [reflexivity|].
      cbn [ChainEval.give]. cbn in H1. subst ctx. cbn in e. rewrite e. reflexivity. }
    rewrite Hg. rewrite H. apply H0. exact H1.
  - rewrite (H (p :: stk) eq_refl).
    apply pop_step.
    pose proof (proj1 climb_rest _ _ _ _ _ c) as Hr.
    destruct r1 as [|[o2 x2] r1']; [exact I|]. split; [exact Hr | exact y].
  - rewrite (H (p :: stk) eq_refl).
    cbn [ChainEval.run ChainEval.give].
    pose proof (proj1 climb_rest _ _ _ _ _ c) as Hr. cbn in Hr.
    rewrite Hr, e. apply H0.
Qed.

Theorem chain_eval_climb_rel (e0 : term) (ops : list (oper * term)) (t : term) :
  Climb None e0 ops t [] -> eval_chain tighter chain e0 ops = t.
Proof.
  intros H. unfold eval_chain.
  rewrite (proj1 climb_run _ _ _ _ _ H [] eq_refl). reflexivity.
Qed.

Lemma climb_S fuel ctx lhs ops :
  climb (S fuel) ctx lhs ops =
    match ops with
    | [] => Some (lhs, [])
    | (o, x) :: r =>
      if stops tighter ctx o then Some (lhs, ops)
      else match node fuel (mk o lhs) x r with
           | Some (t1, r1) => climb fuel ctx t1 r1
           | None => None
           end
    end.
Proof. reflexivity. Qed.
Lemma node_S fuel p x r :
  node (S fuel) p x r =
    match climb fuel (Some (p_prec p)) x r with
    | Some (rhs, (o2, x2) :: r2) =>
      match chain (p_fn p) (o_fn o2) with
      | Some g => node fuel (ext p rhs o2 g) x2 r2
      | None => Some (run_top p rhs, (o2, x2) :: r2)
      end
    | Some (rhs, []) => Some (run_top p rhs, [])
    | None => None
    end.
Proof. reflexivity. Qed.

(* ---- the executable specification is sound for the relation, total, and its remainder is short ---- *)
Lemma climb_sound : forall fuel,
  (forall ctx lhs ops t r, climb fuel ctx lhs ops = Some (t, r) -> Climb ctx lhs ops t r) /\
  (forall p x r t r1, node fuel p x r = Some (t, r1) -> Node p x r t r1).
Proof.
  induction fuel as [|fuel [IHc IHn]]; [split; intros; discriminate|].
  split.
  - intros ctx lhs ops t r H. rewrite climb_S in H.
    destruct ops as [|[o x] rest].
    + inversion H; subst. constructor.
    + destruct (stops tighter ctx o) eqn:Es.
      * inversion H; subst. constructor. exact Es.
      * destruct (node fuel (mk o lhs) x rest) as [[t1 r1]|] eqn:En; [|discriminate].
        eapply C_take; [exact Es | apply IHn; exact En | apply IHc; exact H].
  - intros p x r t r1 H. rewrite node_S in H.
    destruct (climb fuel (Some (p_prec p)) x r) as [[rhs rr]|] eqn:Ec; [|discriminate].
    apply IHc in Ec.
    destruct rr as [|[o2 x2] r2].
    + inversion H; subst. apply N_done; [exact Ec | exact I].
    + destruct (chain (p_fn p) (o_fn o2)) as [g|] eqn:Eg.
      * eapply N_chain; [exact Ec | exact Eg | apply IHn; exact H].
      * inversion H; subst. apply N_done; [exact Ec | exact Eg].
Qed.

Lemma climb_len :
  (forall ctx lhs ops t r2, Climb ctx lhs ops t r2 -> length r2 <= length ops) /\
  (forall p x r t r1, Node p x r t r1 -> length r1 <= length r).
Proof.
  apply Climb_Node_ind; intros; cbn [length] in *; try lia.
Qed.

Lemma climb_total : forall fuel,
  (forall ctx lhs ops, 2 * length ops + 1 <= fuel -> exists t r, climb fuel ctx lhs ops = Some (t, r)) /\
  (forall p x r, 2 * length r + 2 <= fuel -> exists t r1, node fuel p x r = Some (t, r1)).
Proof.
  induction fuel as [|fuel [IHc IHn]]; [split; intros; lia|].
  split.
  - intros ctx lhs ops Hf. rewrite climb_S.
    destruct ops as [|[o x] rest]; [eauto|].
    destruct (stops tighter ctx o); [eauto|].
    cbn [length] in Hf.
    destruct (IHn (mk o lhs) x rest) as [t1 [r1 En]]; [lia|]. rewrite En.
    pose proof (proj2 climb_len _ _ _ _ _ (proj2 (climb_sound fuel) _ _ _ _ _ En)) as Hl.
    apply IHc. lia.
  - intros p x r Hf. rewrite node_S.
    destruct (IHc (Some (p_prec p)) x r) as [rhs [rr Ec]]; [lia|]. rewrite Ec.
    pose proof (proj1 climb_len _ _ _ _ _ (proj1 (climb_sound fuel) _ _ _ _ _ Ec)) as Hl.
    destruct rr as [|[o2 x2] r2]; [eauto|].
    destruct (chain (p_fn p) (o_fn o2)); [|eauto].
    cbn [length] in Hl. apply IHn. lia.
Qed.

(* ---------- Theorem: the stack machine computes precedence climbing, for every oracle ---------- *)
Theorem chain_eval_climb (e0 : term) (ops : list (oper * term)) :
  climb_spec tighter chain e0 ops = Some (eval_chain tighter chain e0 ops).
Proof.
  unfold climb_spec.
  destruct (proj1 (climb_total (2 * length ops + 2)) None e0 ops) as [t [r Ec]]; [lia|].
  rewrite Ec. apply (proj1 (climb_sound _)) in Ec.
  pose proof (proj1 climb_rest _ _ _ _ _ Ec) as Hr.
  destruct r as [|[o x] r']; [|cbn in Hr; discriminate].
  rewrite (chain_eval_climb_rel Ec). reflexivity.
Qed.

(* ---------- exactly once, in order ---------- *)
Definition item := (V + nat)%type.
Fixpoint interleave (segs : list (list item)) (ids : list nat) : list item :=
  match segs with
  | [] => []
  | s :: segs' =>
    match ids with
    | [] => s
    | i :: ids' => s ++ inr i :: interleave segs' ids'
    end
  end.
Fixpoint inorder (t : term) : list item :=
  match t with
  | Leaf v => [inl v]
  | App _ ids args => interleave (map inorder args) ids
  end.
Definition pend_seq (p : pend) : list item :=
  interleave (map inorder (p_args p) ++ [[]]) (p_ids p).
Definition pend_wf (p : pend) : Prop := length (p_args p) = length (p_ids p).
Fixpoint stack_seq (stk : list pend) : list item :=
  match stk with [] => [] | p :: rest => stack_seq rest ++ pend_seq p end.
Definition flat (ops : list (oper * term)) : list item :=
  flat_map (fun ox => inr (o_id (fst ox)) :: inorder (snd ox)) ops.

Lemma interleave_snoc segs ids last :
  length segs = length ids ->
  interleave (segs ++ [last]) ids = interleave (segs ++ [[]]) ids ++ last.
Proof.
  revert ids. induction segs as [|s segs IH]; intros [|i ids] H; cbn in *; try discriminate.
  - reflexivity.
  - rewrite IH by lia. rewrite <- app_assoc. reflexivity.
Qed.

Lemma inorder_run_top p rm : pend_wf p -> inorder (run_top p rm) = pend_seq p ++ inorder rm.
Proof.
  intros H. unfold run_top, pend_seq. cbn [inorder]. rewrite map_app. cbn [map].
  apply interleave_snoc. rewrite map_length. exact H.
Qed.

Lemma pend_seq_mk o rm : pend_seq (mk (P:=P) o rm) = inorder rm ++ [inr (o_id o)].
Proof. unfold pend_seq, mk. cbn. reflexivity. Qed.

Lemma interleave_ext segs ids s i :
  length segs = length ids ->
  interleave ((segs ++ [s]) ++ [[]]) (ids ++ [i]) = interleave (segs ++ [[]]) ids ++ s ++ [inr i].
Proof.
  revert ids. induction segs as [|s0 segs IH]; intros [|i0 ids] H; cbn in *; try discriminate.
  - reflexivity.
  - rewrite IH by lia. rewrite <- app_assoc. reflexivity.
Qed.

Lemma pend_seq_ext p rm o g : pend_wf p ->
  pend_seq (ext p rm o g) = pend_seq p ++ inorder rm ++ [inr (o_id o)].
Proof.
  intros H. unfold pend_seq, ext. cbn [p_args p_ids]. rewrite map_app. cbn [map].
  apply interleave_ext. rewrite map_length. exact H.
Qed.

Lemma give_seq stk rm o x : Forall pend_wf stk ->
  let '(s', rm') := give stk rm o x in
  Forall pend_wf s' /\ stack_seq s' ++ inorder rm' = stack_seq stk ++ inorder rm ++ inr (o_id o) :: inorder x.
Proof.
  revert rm. induction stk as [|p rest IH]; intros rm Hwf; cbn [ChainEval.give].
  - split; [constructor; [reflexivity|constructor]|]. cbn [stack_seq]. rewrite pend_seq_mk.
    cbn. rewrite <- app_assoc. reflexivity.
  - inversion Hwf as [|? ? Hp Hrest]; subst.
    destruct (tighter (p_prec p) (o_prec o)).
    + destruct (chain (p_fn p) (o_fn o)) as [g|].
      * split.
        { constructor; [|exact Hrest]. unfold pend_wf, ext in *. cbn. rewrite !app_length. cbn. lia. }
        cbn [stack_seq]. rewrite pend_seq_ext by exact Hp. rewrite <- !app_assoc. reflexivity.
      * specialize (IH (run_top p rm) Hrest).
        destruct (give rest (run_top p rm) o x) as [s' rm'].
        destruct IH as [Hw Hs]. split; [exact Hw|]. rewrite Hs.
        rewrite inorder_run_top by exact Hp. cbn [stack_seq]. rewrite <- !app_assoc. reflexivity.
    + split; [constructor; [reflexivity|exact Hwf]|].
      cbn [stack_seq]. rewrite pend_seq_mk. rewrite <- !app_assoc. reflexivity.
Qed.

Lemma finish_seq stk rm : Forall pend_wf stk -> inorder (finish stk rm) = stack_seq stk ++ inorder rm.
Proof.
  revert rm. induction stk as [|p rest IH]; intros rm Hwf; cbn [finish stack_seq]; [reflexivity|].
  inversion Hwf; subst. rewrite IH by assumption. rewrite inorder_run_top by assumption.
  rewrite <- app_assoc. reflexivity.
Qed.

Lemma run_seq ops : forall stk rm, Forall pend_wf stk ->
  inorder (run stk rm ops) = stack_seq stk ++ inorder rm ++ flat ops.
Proof.
  induction ops as [|[o x] r IH]; intros stk rm Hwf; cbn [ChainEval.run].
  - rewrite finish_seq by exact Hwf. cbn. rewrite app_nil_r. reflexivity.
  - pose proof (give_seq rm o x Hwf) as Hg.
    destruct (give stk rm o x) as [s' rm']. destruct Hg as [Hw Hs].
    rewrite IH by exact Hw. rewrite app_assoc, Hs. cbn [flat flat_map fst snd].
    rewrite <- !app_assoc. reflexivity.
Qed.

(* every operand and every operator occurs exactly once in the result, in source order,
   whatever is merged *)
Theorem yield_in_order (e0 : term) (ops : list (oper * term)) :
  inorder (eval_chain tighter chain e0 ops) = inorder e0 ++ flat ops.
Proof. unfold eval_chain. rewrite run_seq by constructor. reflexivity. Qed.

(* ---------- merging happens exactly when the left operator is tighter and chains ---------- *)
Theorem merge_exactly_when (p : pend) rest (rm : term) (o : oper) (x : term) :
  give (p :: rest) rm o x =
    if tighter (p_prec p) (o_prec o) then
      match chain (p_fn p) (o_fn o) with
      | Some g => (ext p rm o g :: rest, x)            (* merged: one n-ary application *)
      | None => give rest (run_top p rm) o x            (* applied first *)
      end
    else (mk o rm :: p :: rest, x).                     (* waits *)
Proof. reflexivity. Qed.

(* ---------- the one-operator fast path and sections agree with the general path ---------- *)
Theorem fast_path_agrees (e0 : term) (o : oper) (x : term) :
  eval_chain tighter chain e0 [(o, x)] = eval_chain_fast e0 o x.
Proof. reflexivity. Qed.

Lemma fill_all_slots (ops : list (oper * term)) :
  fill (map (fun ox => (fst ox, None)) ops) (map snd ops) = Some (ops, []).
Proof.
  induction ops as [|[o x] r IH]; cbn; [reflexivity|]. rewrite IH. reflexivity.
Qed.
Lemma fill_no_slots (ops : list (oper * term)) args :
  fill (map (fun ox => (fst ox, Some (snd ox))) ops) args = Some (ops, args).
Proof.
  induction ops as [|[o x] r IH]; cbn; [reflexivity|]. rewrite IH. reflexivity.
Qed.

Theorem section_agrees (e0 : term) (ops : list (oper * term)) :
  run_section tighter chain None (map (fun ox => (fst ox, None)) ops) (e0 :: map snd ops)
    = Some (eval_chain tighter chain e0 ops) /\
  run_section tighter chain (Some e0) (map (fun ox => (fst ox, Some (snd ox))) ops) []
    = Some (eval_chain tighter chain e0 ops).
Proof.
  unfold run_section. rewrite fill_all_slots, fill_no_slots. split; reflexivity.
Qed.
End Proofs.
