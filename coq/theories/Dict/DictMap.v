(* C09 model, part 3: HashMap<ObjKey, _> and the dictionary operations written over it.

   HashMap is modelled by what it is trusted to be: entries addressed by the `Hasher` write sequence of
   their key (the bucket) and matched by `Eq` inside a bucket.  A stored entry answers a probe exactly when
   `slot probe stored` holds; for the implementation  slot = hm_slot hash  (same bucket AND Eq), for the
   specification  slot = key_eq  (a finite map on ==-classes).  The literal bucket structure
   (list of buckets labelled by token sequences) is `bmap` below; DictMap_proofs.v shows it is the same map.
   Iteration order of a HashMap is not observable in this model: entries are kept in insertion order and
   every comparison made by the correspondence run sorts them.

   Transcribes  std HashMap: get/contains_key/insert (keeps the old key, replaces the value)/remove/entry/
                retain/extend/collect/len/PartialEq
                src/eval.rs  index Dict arm, set_index Dict arm, modify_existing_index Dict arm, Expr::Dict,
                             Func::Memoized
                src/core.rs  try_remove_index Dict arm, dict conversion
                src/lib.rs   safe_index, obj_in, ||, ||+, |., -./discard, insert/|.., &&, --, set, uniqued,
                             frequencies, count_distinct, classified_with/group_all *)
From Coq Require Import ZArith NArith QArith List Bool.
From NV Require Import Common.Outcome Dict.KeyEq Dict.KeyHash.
Import ListNotations.
Local Open Scope Z_scope.

(* probe k finds stored k' in a HashMap iff they are in the same bucket and Eq *)
Definition hm_slot (hash : key -> list token) (probe stored : key) : bool :=
  stream_eqb (hash probe) (hash stored) && key_eq probe stored.

(* `Eq for ObjKey` exactly as written: the nested-dictionary arm calls `b.get(k)`, a hashed lookup (same bucket
   AND Eq, recursively).  DictMap_proofs.v shows key_eq_hm = key_eq on valid keys. *)
Section KeyEqHM.
  Variable hash : key -> list token.
  Fixpoint key_eq_hm (a b : key) {struct a} : bool :=
    match a, b with
    | KNull, KNull => true
    | KNum x, KNum y => num_total_eq x y
    | KStr s, KStr t => bytes_eqb s t
    | KList l, KList m => list_eqb key_eq_hm l m
    | KDict d, KDict e =>
        Nat.eqb (length d) (length e) &&
        forallb (fun kv => match afindp (fun k' => stream_eqb (hash (fst kv)) (hash k') && key_eq_hm (fst kv) k') e with
                           | Some (_, v') => key_eq_hm (snd kv) v'
                           | None => false
                           end) d
    | KVec v, KVec w => list_eqb num_total_eq v w
    | KBytes s, KBytes t => bytes_eqb s t
    | _, _ => false
    end.
End KeyEqHM.

(* ------------------------------------------------------------------ primitives *)
Section Prim.
  Variable slot : key -> key -> bool.
  Context {V : Type}.
  Definition store := list (key * V).

  Definition sfind (k : key) (s : store) : option (key * V) := afind slot k s.
  Definition sget (k : key) (s : store) : option V := option_map snd (sfind k s).
  Definition smem (k : key) (s : store) : bool := match sfind k s with Some _ => true | None => false end.

  (* HashMap::insert: an existing entry keeps its key and gets the new value *)
  Fixpoint sset (k : key) (v : V) (s : store) : store :=
    match s with
    | [] => [(k, v)]
    | (k', v') :: r => if slot k k' then (k', v) :: r else (k', v') :: sset k v r
    end.

  Fixpoint sremove (k : key) (s : store) : store :=
    match s with
    | [] => []
    | (k', v') :: r => if slot k k' then r else (k', v') :: sremove k r
    end.

  (* collect::<HashMap>, Expr::Dict, extend: successive inserts *)
  Definition sextend (s : store) (l : list (key * V)) : store :=
    fold_left (fun acc kv => sset (fst kv) (snd kv) acc) l s.
  Definition from_pairs (l : list (key * V)) : store := sextend [] l.
End Prim.
Arguments store V : clear implicits.

(* ------------------------------------------------------------------ the operation language *)
Inductive obs (V : Type) :=
| OVal (v : V)
| OBool (b : bool)
| ONat (n : nat)
| ODone
| OErr (c : errc).
Arguments OVal {V} v.
Arguments OBool {V} b.
Arguments ONat {V} n.
Arguments ODone {V}.
Arguments OErr {V} c.

Inductive op (V : Type) :=
| OGet (k : key)                  (* d[k] *)
| OSafeGet (k : key)              (* d !? k *)
| OIn (k : key)                   (* k in d *)
| OLen                            (* len(d) *)
| OSet (k : key) (v : V)          (* d[k] = v *)
| OModify (k : key) (v : V)       (* d[k] += v *)
| ORemove (k : key)               (* remove d[k] *)
| OAddKey (k : key)               (* d |.= k *)
| ODiscard (k : key)              (* d -.= k, d discard= k *)
| OInsert (k : key) (v : V)       (* d insert= [k, v], d |..= [k, v] *)
| OUnion (l : list (key * V))     (* d ||= {l} *)
| OUnionAdd (l : list (key * V))  (* d = d ||+ {l} *)
| OInter (l : list (key * V))     (* d &&= {l} *)
| ODiff (l : list (key * V))      (* d --= {l} *)
| OEq (l : list (key * V)).       (* d == {l} *)
Arguments OGet {V} k.
Arguments OSafeGet {V} k.
Arguments OIn {V} k.
Arguments OLen {V}.
Arguments OSet {V} k v.
Arguments OModify {V} k v.
Arguments ORemove {V} k.
Arguments OAddKey {V} k.
Arguments ODiscard {V} k.
Arguments OInsert {V} k v.
Arguments OUnion {V} l.
Arguments OUnionAdd {V} l.
Arguments OInter {V} l.
Arguments ODiff {V} l.
Arguments OEq {V} l.

Section Ops.
  Variable V : Type.
  Variable vnull : V.                       (* Obj::Null *)
  Variable vadd : V -> V -> outcome V.      (* the `+` of `+=` and `||+` *)
  Variable veq : V -> V -> bool.            (* `==` on values *)
  Variable slot : key -> key -> bool.

  (* Seq::Dict(entries, default) *)
  Definition dict := (store V * option V)%type.

  (* ||+ : for (k, v) in b: entry(k): vacant -> insert v; occupied -> slot = old + v (an error aborts) *)
  Fixpoint union_add (s : store V) (e : list (key * V)) : outcome (store V) :=
    match e with
    | [] => Ok s
    | (k, v) :: r =>
        match sfind slot k s with
        | None => union_add (sset slot k v s) r
        | Some (_, old) => nv <- vadd old v ;; union_add (sset slot k nv s) r
        end
    end.

  (* HashMap == : same len, and every entry of a is found in b with an equal value *)
  Definition store_eq (a b : store V) : bool :=
    Nat.eqb (length a) (length b) &&
    forallb (fun kv => match sfind slot (fst kv) b with Some (_, v') => veq (snd kv) v' | None => false end) a.

  Definition step (d : dict) (o : op V) : obs V * dict :=
    let (s, def) := d in
    match o with
    | OGet k =>
        (match sfind slot k s with
         | Some (_, v) => OVal v
         | None => match def with Some dv => OVal dv | None => OErr EKey end
         end, d)
    | OSafeGet k =>
        (match sfind slot k s with
         | Some (_, v) => OVal v
         | None => match def with Some dv => OVal dv | None => OVal vnull end
         end, d)
    | OIn k => (OBool (smem slot k s), d)
    | OLen => (ONat (length s), d)
    | OSet k v => (ODone, (sset slot k v s, def))
    | OModify k v =>
        match sfind slot k s with
        | Some (_, old) =>
            match vadd old v with
            | Ok nv => (ODone, (sset slot k nv s, def))
            | Err c => (OErr c, d)
            | _ => (OErr EOther, d)
            end
        | None =>
            match def with
            | Some dv =>
                match vadd dv v with
                | Ok nv => (ODone, (sset slot k nv s, def))
                | Err c => (OErr c, (sset slot k dv s, def))
                | _ => (OErr EOther, d)
                end
            | None => (OErr EKey, d)
            end
        end
    | ORemove k =>
        match sfind slot k s with
        | Some (_, v) => (OVal v, (sremove slot k s, def))
        | None => (OErr EKey, d)
        end
    | OAddKey k => (ODone, (sset slot k vnull s, def))
    | ODiscard k => (ODone, (sremove slot k s, def))
    | OInsert k v => (ODone, (sset slot k v s, def))
    | OUnion l => (ODone, (sextend slot s (from_pairs slot l), def))
    | OUnionAdd l =>
        match union_add s (from_pairs slot l) with
        | Ok s' => (ODone, (s', def))
        | Err c => (OErr c, d)
        | _ => (OErr EOther, d)
        end
    | OInter l => let e := from_pairs slot l in
                  (ODone, (filter (fun kv => smem slot (fst kv) e) s, def))
    | ODiff l => let e := from_pairs slot l in
                 (ODone, (filter (fun kv => negb (smem slot (fst kv) e)) s, def))
    | OEq l => (OBool (store_eq s (from_pairs slot l)), d)
    end.

  (* a history: the observation of every step, and the final dictionary *)
  Fixpoint run (d : dict) (ops : list (op V)) : list (obs V) * dict :=
    match ops with
    | [] => ([], d)
    | o :: r => let (x, d') := step d o in
                let (xs, d'') := run d' r in (x :: xs, d'')
    end.
End Ops.
Arguments step {V} vnull vadd veq slot d o.
Arguments run {V} vnull vadd veq slot d ops.
Arguments union_add {V} vadd slot s e.
Arguments store_eq {V} veq slot a b.

(* ------------------------------------------------------------------ library functions over sequences *)
Section Lib.
  Variable slot : key -> key -> bool.

  (* fn uniqued: keep the first element of every class, in order *)
  Fixpoint uniqued_go (l : list key) (seen : store unit) : list key :=
    match l with
    | [] => []
    | x :: r => if smem slot x seen then uniqued_go r seen
                else x :: uniqued_go r (sset slot x tt seen)
    end.
  Definition uniqued (l : list key) : list key := uniqued_go l [].

  (* set(l), and count_distinct(l) = its size *)
  Definition set_of (l : list key) : store unit := from_pairs slot (map (fun k => (k, tt)) l).
  Definition count_distinct (l : list key) : nat := length (set_of l).

  (* set(x) as a dictionary value, for every iterable x with items l (for a dictionary: its keys): every item is a
     key whose value is null, and there is no default - whatever values or default x itself had *)
  Definition set_dict {V} (vnull : V) (l : list key) : store V * option V :=
    (from_pairs slot (map (fun k => (k, vnull)) l), None).

  (* frequencies: *c.entry(k).or_insert(0) += 1 *)
  Fixpoint frequencies_go (l : list key) (c : store N) : store N :=
    match l with
    | [] => c
    | x :: r => frequencies_go r
                  (match sfind slot x c with
                   | Some (_, n) => sset slot x (n + 1)%N c
                   | None => sset slot x 1%N c
                   end)
    end.
  Definition frequencies (l : list key) : store N := frequencies_go l [].

  (* classified_with: map.entry(f(i)).or_default().push(i);  group_all = its values *)
  Section Classify.
    Variable X : Type.
    Variable f : X -> key.
    Fixpoint classify_go (l : list X) (m : store (list X)) : store (list X) :=
      match l with
      | [] => m
      | x :: r => classify_go r
                    (match sfind slot (f x) m with
                     | Some (_, g) => sset slot (f x) (g ++ [x]) m
                     | None => sset slot (f x) [x] m
                     end)
      end.
    Definition classify (l : list X) : store (list X) := classify_go l [].
    Definition group_all (l : list X) : list (list X) := map snd (classify l).
  End Classify.

  (* Func::Memoized: the table is keyed by the vector of argument keys (Vec<ObjKey>: Eq is pairwise, Hash is
     the length then the elements; modelled by the key KList args, whose Eq and Hash are that, up to the tag
     byte).  On a hit the stored result is returned; on a miss f runs on the arguments it was given. *)
  Section Memo.
    Variable R : Type.
    Variable f : list key -> R.
    Fixpoint memo_calls (calls : list (list key)) (table : store R) : list R :=
      match calls with
      | [] => []
      | args :: r =>
          match sfind slot (KList args) table with
          | Some (_, res) => res :: memo_calls r table
          | None => let res := f args in res :: memo_calls r (sset slot (KList args) res table)
          end
      end.
  End Memo.
End Lib.
Arguments classify slot {X} f l.
Arguments group_all slot {X} f l.
Arguments memo_calls slot {R} f calls table.

(* keys / values / items of a dictionary (in HashMap iteration order, which the model does not fix) *)
Definition dict_keys {V} (s : store V) : list key := map fst s.
Definition dict_values {V} (s : store V) : list V := map snd s.
Definition dict_items {V} (s : store V) : list (key * V) := s.

(* ------------------------------------------------------------------ the literal bucket structure *)
Section Buckets.
  Variable hash : key -> list token.
  Context {V : Type}.
  (* buckets labelled by the token sequence; inside a bucket, Eq decides *)
  Definition bmap := list (list token * store V).

  Fixpoint bucket (h : list token) (m : bmap) : store V :=
    match m with
    | [] => []
    | (h', b) :: r => if stream_eqb h h' then b else bucket h r
    end.
  Fixpoint set_bucket (h : list token) (b : store V) (m : bmap) : bmap :=
    match m with
    | [] => [(h, b)]
    | (h', b') :: r => if stream_eqb h h' then (h', b) :: r else (h', b') :: set_bucket h b r
    end.

  Definition bfind (k : key) (m : bmap) : option (key * V) := sfind key_eq k (bucket (hash k) m).
  Definition bset (k : key) (v : V) (m : bmap) : bmap :=
    set_bucket (hash k) (sset key_eq k v (bucket (hash k) m)) m.
  Definition bremove (k : key) (m : bmap) : bmap :=
    set_bucket (hash k) (sremove key_eq k (bucket (hash k) m)) m.
  Definition bentries (m : bmap) : store V := concat (map snd m).
  Definition blen (m : bmap) : nat := length (bentries m).
End Buckets.
Arguments bmap V : clear implicits.

(* ------------------------------------------------------------------ examples *)
Definition zadd (a b : option Z) : outcome (option Z) :=
  match a, b with Some x, Some y => Ok (Some (x + y)%Z) | _, _ => Err EArg end.
Definition zeq (a b : option Z) : bool :=
  match a, b with Some x, Some y => Z.eqb x y | None, None => true | _, _ => false end.

Example ex_history :
  let k1 := KNum (NInt 1) in let k1f := KNum (NFloat f_one) in let kh := KNum (NRat (1 # 2)) in
  run None zadd zeq (hm_slot key_hash_real) ([], None)
      [OSet k1 (Some 10%Z); OGet k1f; OModify k1f (Some 5%Z); OGet (KNum (NComplex f_one f64_zero));
       OIn kh; OSet (KNum (NFloat f_half)) (Some 7%Z); OGet kh; OLen; ORemove k1f; OGet k1]
  = ([ODone; OVal (Some 10%Z); ODone; OVal (Some 15%Z); OBool false; ODone; OVal (Some 7%Z); ONat 2;
      OVal (Some 15%Z); OErr EKey],
     ([(KNum (NFloat f_half), Some 7%Z)], None)).
Proof. vm_compute. reflexivity. Qed.

Example ex_lib :
  let l := [KNum (NInt 1); KNum (NFloat f_one); KNum (NRat (1 # 2)); KNum (NFloat f_half); KNum (NRat (1 # 1))] in
  uniqued (hm_slot key_hash_real) l = [KNum (NInt 1); KNum (NRat (1 # 2))] /\
  count_distinct (hm_slot key_hash_real) l = 2%nat /\
  frequencies (hm_slot key_hash_real) l = [(KNum (NInt 1), 3%N); (KNum (NRat (1 # 2)), 2%N)].
Proof. vm_compute. repeat split. Qed.
