(* C09 proofs, keys: key_eq is an equivalence on valid keys (wf_key), and key_hash is coherent with it for every
   inner hasher H. *)
From Coq Require Import ZArith NArith QArith List Bool Lia Permutation.
From NV Require Import Dict.KeyEq Dict.KeyHash Dict.Num_proofs.
Import ListNotations.
Local Open Scope nat_scope.

(* ------------------------------------------------------------------ list_eqb *)
Section ListEqb.
  Context {A B C : Type}.

  Lemma list_eqb_length : forall (f : A -> B -> bool) l m, list_eqb f l m = true -> length l = length m.
  Proof.
    induction l as [ | x l IH]; destruct m as [ | y m]; cbn; try discriminate; auto.
    intro H. apply andb_true_iff in H. destruct H. f_equal. auto.
  Qed.

  Lemma list_eqb_Forall2 : forall (f : A -> B -> bool) l m,
    list_eqb f l m = true <-> Forall2 (fun x y => f x y = true) l m.
  Proof.
    induction l as [ | x l IH]; destruct m as [ | y m]; cbn; split; intro H;
      try discriminate; try constructor; try (inversion H; fail).
    - apply andb_true_iff in H. tauto.
    - apply IH. apply andb_true_iff in H. tauto.
    - inversion H; subst. apply andb_true_iff. split; [assumption | apply IH; assumption].
  Qed.
End ListEqb.

Lemma list_eqb_refl {A} (f : A -> A -> bool) l : (forall x, In x l -> f x x = true) -> list_eqb f l l = true.
Proof.
  induction l as [ | x l IH]; cbn; intro H; [reflexivity | ].
  rewrite H by auto. apply IH. auto.
Qed.

Lemma list_eqb_sym {A} (f : A -> A -> bool) l m :
  (forall x y, In x l -> In y m -> f x y = true -> f y x = true) -> list_eqb f l m = true -> list_eqb f m l = true.
Proof.
  revert m. induction l as [ | x l IH]; destruct m as [ | y m]; cbn; intros Hs H; try discriminate; auto.
  apply andb_true_iff in H. destruct H as [H1 H2]. rewrite (Hs x y) by auto. apply IH; auto.
Qed.

Lemma list_eqb_trans {A} (f : A -> A -> bool) l m n :
  (forall x y z, In x l -> In y m -> In z n -> f x y = true -> f y z = true -> f x z = true) ->
  list_eqb f l m = true -> list_eqb f m n = true -> list_eqb f l n = true.
Proof.
  revert m n. induction l as [ | x l IH]; destruct m as [ | y m]; destruct n as [ | z n]; cbn; intros Ht H1 H2;
    try discriminate; auto.
  apply andb_true_iff in H1. apply andb_true_iff in H2. destruct H1, H2.
  rewrite (Ht x y z) by auto. eapply IH; eauto.
Qed.

Lemma list_eqb_flat_map {A T} (f : A -> A -> bool) (h : A -> list T) l m :
  (forall x y, In x l -> In y m -> f x y = true -> h x = h y) -> list_eqb f l m = true -> flat_map h l = flat_map h m.
Proof.
  revert m. induction l as [ | x l IH]; destruct m as [ | y m]; cbn; intros Hh H; try discriminate; auto.
  apply andb_true_iff in H. destruct H. rewrite (Hh x y) by auto. f_equal. apply IH; auto.
Qed.

Lemma N_list_eqb_eq : forall a b : list N, list_eqb N.eqb a b = true <-> a = b.
Proof.
  induction a as [ | x a IH]; destruct b as [ | y b]; cbn; split; intro H; try discriminate; auto.
  - apply andb_true_iff in H. destruct H as [H1 H2]. apply N.eqb_eq in H1. apply IH in H2. congruence.
  - inversion H; subst. rewrite N.eqb_refl. apply IH. reflexivity.
Qed.

(* ------------------------------------------------------------------ association lists *)
Lemma afindp_some {K W} (p : K -> bool) (e : list (K * W)) k w :
  afindp p e = Some (k, w) -> In (k, w) e /\ p k = true.
Proof.
  induction e as [ | [k' w'] e IH]; cbn; [discriminate | ].
  destruct (p k') eqn:E; intro H.
  - inversion H; subst. auto.
  - destruct (IH H). auto.
Qed.

Lemma afindp_none {K W} (p : K -> bool) (e : list (K * W)) :
  afindp p e = None -> forall k w, In (k, w) e -> p k = false.
Proof.
  induction e as [ | [k' w'] e IH]; cbn; [tauto | ].
  destruct (p k') eqn:E; [discriminate | ]. intros H k w [Hin | Hin].
  - inversion Hin; subst. assumption.
  - eauto.
Qed.

(* the matching between two association lists, abstractly *)
Section Matching.
  Context {A B : Type}.
  Variable r : A -> B -> Prop.
  Variable c : A -> A -> Prop.

  Fixpoint apart (d : list A) : Prop :=
    match d with [] => True | x :: d' => (forall x', In x' d' -> ~ c x x') /\ apart d' end.

  Lemma matching : forall d e,
    length d = length e ->
    (forall x, In x d -> exists y, In y e /\ r x y) ->
    (forall x x' y, In x d -> In x' d -> In y e -> r x y -> r x' y -> c x x') ->
    apart d ->
    exists e', Permutation e e' /\ Forall2 r d e'.
  Proof.
    induction d as [ | x d IH]; intros e Hlen Hex Hco Hap.
    - destruct e; [ | discriminate]. exists []. split; constructor.
    - destruct (Hex x (or_introl eq_refl)) as [y [Hy Hxy]].
      destruct (in_split _ _ Hy) as [e1 [e2 He]]. subst e.
      destruct Hap as [Hx Hap].
      destruct (IH (e1 ++ e2)) as [e' [Hp Hf]].
      + rewrite app_length in *. cbn in Hlen. lia.
      + intros x' Hx'. destruct (Hex x' (or_intror Hx')) as [y' [Hy' Hr]].
        exists y'. split; [ | assumption].
        apply in_app_or in Hy'. apply in_or_app. destruct Hy' as [ | [Heq | ]]; auto.
        subst y'. exfalso. apply (Hx x' Hx'). apply (Hco x x' y); cbn; auto.
      + intros x1 x2 y' H1 H2 Hy'. apply Hco; cbn; auto.
        apply in_app_or in Hy'. apply in_or_app. cbn. tauto.
      + assumption.
      + exists (y :: e'). split.
        * apply Permutation_sym. apply Permutation_cons_app. apply Permutation_sym. assumption.
        * constructor; assumption.
  Qed.
End Matching.

Lemma Forall2_in_r {A B} (r : A -> B -> Prop) l m y : Forall2 r l m -> In y m -> exists x, In x l /\ r x y.
Proof.
  induction 1; cbn; [tauto | ]. intros [-> | Hin].
  - eauto.
  - destruct (IHForall2 Hin) as [x' [? ?]]. eauto.
Qed.

Lemma Forall2_map_eq {A B T} (r : A -> B -> Prop) (g : A -> T) (g' : B -> T) l m :
  (forall x y, In x l -> In y m -> r x y -> g x = g' y) -> Forall2 r l m -> map g l = map g' m.
Proof.
  intros Hg H. induction H; cbn; [reflexivity | ]. f_equal.
  - apply Hg; cbn; auto.
  - apply IHForall2. intros; apply Hg; cbn; auto.
Qed.

(* ------------------------------------------------------------------ dict_eqb over an equivalence on a set of keys *)
Section DictLemmas.
  Variable E : key -> key -> bool.
  Variable Sm : key -> Prop.
  Hypothesis R : forall x, Sm x -> E x x = true.
  Hypothesis Sy : forall x y, Sm x -> Sm y -> E x y = true -> E y x = true.
  Hypothesis T : forall x y z, Sm x -> Sm y -> Sm z -> E x y = true -> E y z = true -> E x z = true.

  Definition okd (d : list (key * key)) : Prop :=
    (forall k v, In (k, v) d -> Sm k /\ Sm v) /\ nodupk E d.

  Definition ematch (x y : key * key) : Prop := E (fst x) (fst y) = true /\ E (snd x) (snd y) = true.

  Lemma okd_tail x d : okd (x :: d) -> okd d.
  Proof. destruct x. intros [H1 [H2 H3]]. split; [ | assumption]. intros; apply H1; cbn; auto. Qed.

  (* in a duplicate-free store a probe finds the one entry whose key is equivalent to it *)
  Lemma afind_unique : forall d kp k v,
    okd d -> Sm kp -> In (k, v) d -> E kp k = true -> afind E kp d = Some (k, v).
  Proof.
    unfold afind. induction d as [ | [k0 v0] d IH]; intros kp k v Hok Hkp Hin Hm; [destruct Hin | ].
    cbn. destruct Hok as [Hs [Hnd Hnd']]. destruct (E kp k0) eqn:E0.
    - destruct Hin as [Heq | Hin]; [congruence | ]. exfalso.
      assert (E k0 k = true).
      { destruct (Hs k v (or_intror Hin)), (Hs k0 v0 (or_introl eq_refl)).
        apply (T k0 kp k); auto. }
      rewrite (Hnd k v Hin) in H. discriminate.
    - destruct Hin as [Heq | Hin]; [congruence | ].
      apply IH; auto. split; [ | assumption]. intros; apply Hs; cbn; auto.
  Qed.

  Lemma apart_nodupk : forall d, okd d ->
    apart (fun x x' : key * key => E (fst x) (fst x') = true) d.
  Proof.
    induction d as [ | [k v] d IH]; intro Hok; cbn; [trivial | ]. split.
    - intros [k' v'] Hin. cbn. destruct Hok as [_ [Hnd _]]. rewrite (Hnd k' v' Hin). discriminate.
    - apply IH. eapply okd_tail; eassumption.
  Qed.

  Lemma dict_eqb_spec : forall d e, dict_eqb E d e = true ->
    length d = length e /\ forall x, In x d -> exists y, In y e /\ ematch x y.
  Proof.
    intros d e H. unfold dict_eqb in H. apply andb_true_iff in H. destruct H as [Hl Hf].
    split; [apply Nat.eqb_eq; assumption | ].
    intros x Hx. rewrite forallb_forall in Hf. specialize (Hf x Hx).
    unfold afind in Hf. destruct (afindp (E (fst x)) e) as [[k' v'] | ] eqn:Ef; [ | discriminate].
    apply afindp_some in Ef. destruct Ef. exists (k', v'). unfold ematch. cbn. auto.
  Qed.

  Lemma dict_pairing : forall d e, okd d -> okd e -> dict_eqb E d e = true ->
    exists e', Permutation e e' /\ Forall2 ematch d e'.
  Proof.
    intros d e Hd He H. destruct (dict_eqb_spec d e H) as [Hl Hm].
    apply (matching ematch (fun x x' => E (fst x) (fst x') = true)); auto.
    - intros [k1 v1] [k2 v2] [k' v'] H1 H2 Hy [Ha _] [Hb _]. cbn in *.
      destruct Hd as [Hd _], He as [He _].
      destruct (Hd _ _ H1), (Hd _ _ H2), (He _ _ Hy).
      apply (T k1 k' k2); auto.
    - apply apart_nodupk; assumption.
  Qed.

  Lemma dict_refl : forall d, okd d -> dict_eqb E d d = true.
  Proof.
    intros d Hok. unfold dict_eqb. rewrite Nat.eqb_refl. cbn. apply forallb_forall. intros [k v] Hin.
    destruct Hok as [Hs Hnd]. destruct (Hs k v Hin). cbn [fst snd].
    rewrite (afind_unique d k k v); auto. split; assumption.
  Qed.

  Lemma dict_sym : forall d e, okd d -> okd e -> dict_eqb E d e = true -> dict_eqb E e d = true.
  Proof.
    intros d e Hd He H. destruct (dict_pairing d e Hd He H) as [e' [Hp Hf]].
    destruct (dict_eqb_spec d e H) as [Hl _].
    unfold dict_eqb. rewrite <- Hl, Nat.eqb_refl. cbn. apply forallb_forall. intros [k' v'] Hin.
    assert (Hin' : In (k', v') e') by (eapply Permutation_in; eassumption).
    destruct (Forall2_in_r _ _ _ _ Hf Hin') as [[k v] [Hx [Hk Hv]]]. cbn in Hk, Hv. cbn [fst snd].
    destruct Hd as [Hds Hdn]. destruct He as [Hes Hen].
    destruct (Hds k v Hx), (Hes k' v' Hin).
    rewrite (afind_unique d k' k v); auto. split; assumption.
  Qed.

  Lemma dict_trans : forall d e f, okd d -> okd e -> okd f ->
    dict_eqb E d e = true -> dict_eqb E e f = true -> dict_eqb E d f = true.
  Proof.
    intros d e f Hd He Hf H1 H2.
    destruct (dict_eqb_spec d e H1) as [Hl1 Hm1]. destruct (dict_eqb_spec e f H2) as [Hl2 Hm2].
    unfold dict_eqb. rewrite Hl1, Hl2, Nat.eqb_refl. cbn. apply forallb_forall. intros [k v] Hin.
    destruct (Hm1 _ Hin) as [[k' v'] [Hin' [Hk Hv]]]. destruct (Hm2 _ Hin') as [[k'' v''] [Hin'' [Hk' Hv']]].
    cbn in *. destruct Hd as [Hds _], He as [Hes _]. destruct (Hds _ _ Hin), (Hes _ _ Hin').
    destruct (proj1 Hf _ _ Hin'').
    rewrite (afind_unique f k k'' v''); auto.
    - apply (T v v' v''); auto.
    - apply (T k k' k''); auto.
  Qed.
End DictLemmas.

(* ------------------------------------------------------------------ size, well-formedness unfolded *)
Fixpoint ksize (k : key) : nat :=
  match k with
  | KList l => S (list_sum (map ksize l))
  | KDict d => S (list_sum (map (fun kv => ksize (fst kv) + ksize (snd kv)) d))
  | _ => 1
  end.

Lemma list_sum_in {A} (f : A -> nat) l x : In x l -> f x <= list_sum (map f l).
Proof.
  induction l as [ | y l IH]; [intros [] | ].
  change (list_sum (map f (y :: l))) with (f y + list_sum (map f l)).
  intros [-> | H]; [lia | ]. specialize (IH H). lia.
Qed.

Lemma ksize_list l x : In x l -> ksize x < ksize (KList l).
Proof. intro H. cbn [ksize]. pose proof (list_sum_in ksize l x H). lia. Qed.
Lemma ksize_dict d k v : In (k, v) d -> ksize k < ksize (KDict d) /\ ksize v < ksize (KDict d).
Proof.
  intro H. cbn [ksize]. pose proof (list_sum_in (fun kv => ksize (fst kv) + ksize (snd kv)) d (k, v) H). cbn in H0. lia.
Qed.

Lemma wf_list l : wf_key (KList l) <-> forall x, In x l -> wf_key x.
Proof.
  cbn [wf_key]. induction l as [ | y l IH]; cbn; [tauto | ]. rewrite IH. split.
  - intros [H1 H2] x [-> | H]; auto.
  - intro H. split; auto.
Qed.
Lemma wf_dict d : wf_key (KDict d) <-> (forall k v, In (k, v) d -> wf_key k /\ wf_key v) /\ nodupk key_eq d.
Proof.
  cbn [wf_key]. apply and_iff_compat_r. induction d as [ | [k v] d IH]; cbn; [tauto | ]. rewrite IH. split.
  - intros [H1 H2] k' v' [Heq | H]; [inversion Heq; subst; assumption | auto].
  - intro H. split; auto.
Qed.

Lemma key_eq_dict d e : key_eq (KDict d) (KDict e) = dict_eqb key_eq d e.
Proof. reflexivity. Qed.

(* ------------------------------------------------------------------ key_eq is an equivalence on valid keys *)
Definition small (n : nat) (k : key) : Prop := ksize k <= n /\ wf_key k.

Definition equiv_upto (n : nat) : Prop :=
  (forall a, small n a -> key_eq a a = true) /\
  (forall a b, small n a -> small n b -> key_eq a b = true -> key_eq b a = true) /\
  (forall a b c, small n a -> small n b -> small n c -> key_eq a b = true -> key_eq b c = true -> key_eq a c = true).

Lemma small_list n l x : small (S n) (KList l) -> In x l -> small n x.
Proof. intros [Hs Hw] Hin. split; [pose proof (ksize_list l x Hin); lia | ]. apply (proj1 (wf_list l) Hw x Hin). Qed.

Lemma small_dict n d : small (S n) (KDict d) -> okd key_eq (small n) d.
Proof.
  intros [Hs Hw]. apply wf_dict in Hw. destruct Hw as [Hw Hnd]. split; [ | assumption].
  intros k v Hin. destruct (ksize_dict d k v Hin), (Hw k v Hin). unfold small. repeat split; auto; lia.
Qed.

Lemma equiv_step : forall n, equiv_upto n -> equiv_upto (S n).
Proof.
  intros n [R [Sy T]]. repeat split.
  - (* refl *)
    intros a Ha. destruct a as [ | x | s | l | d | v | s]; cbn [key_eq]; try reflexivity.
    + apply num_total_eq_refl.
    + apply N_list_eqb_eq. reflexivity.
    + apply list_eqb_refl. intros x Hx. apply R. eapply small_list; eassumption.
    + change (dict_eqb key_eq d d = true). apply (dict_refl key_eq (small n)); auto. apply small_dict; assumption.
    + apply list_eqb_refl. intros. apply num_total_eq_refl.
    + apply N_list_eqb_eq. reflexivity.
  - (* sym *)
    intros a b Ha Hb H.
    destruct a as [ | x | s | l | d | v | s]; destruct b as [ | y | t | m | e | w | t]; cbn [key_eq] in *; try discriminate; auto.
    + apply num_total_eq_sym; assumption.
    + unfold bytes_eqb in *. apply N_list_eqb_eq. apply N_list_eqb_eq in H. auto.
    + apply (list_eqb_sym key_eq l m); auto. intros x y Hx Hy. apply Sy; [apply (small_list n l) | apply (small_list n m)]; assumption.
    + change (dict_eqb key_eq e d = true). change (dict_eqb key_eq d e = true) in H.
      apply (dict_sym key_eq (small n)); auto; apply small_dict; assumption.
    + apply (list_eqb_sym num_total_eq v w); auto. intros; apply num_total_eq_sym; assumption.
    + unfold bytes_eqb in *. apply N_list_eqb_eq. apply N_list_eqb_eq in H. auto.
  - (* trans *)
    intros a b c Ha Hb Hc H1 H2.
    destruct a as [ | x | s | l | d | v | s]; destruct b as [ | y | t | m | e | w | t]; cbn [key_eq] in H1; try discriminate;
      destruct c as [ | z | u | o | f | q | u]; cbn [key_eq] in *; try discriminate; auto.
    + eapply num_total_eq_trans; eassumption.
    + unfold bytes_eqb in *. apply N_list_eqb_eq. apply N_list_eqb_eq in H1, H2. congruence.
    + apply (list_eqb_trans key_eq l m o); auto. intros x y z Hx Hy Hz. apply T; [apply (small_list n l) | apply (small_list n m) | apply (small_list n o)]; assumption.
    + change (dict_eqb key_eq d f = true). change (dict_eqb key_eq d e = true) in H1. change (dict_eqb key_eq e f = true) in H2.
      apply (dict_trans key_eq (small n)) with (e := e); auto; apply small_dict; assumption.
    + apply (list_eqb_trans num_total_eq v w q); auto. intros; eapply num_total_eq_trans; eassumption.
    + unfold bytes_eqb in *. apply N_list_eqb_eq. apply N_list_eqb_eq in H1, H2. congruence.
Qed.

Lemma ksize_pos k : 1 <= ksize k.
Proof. destruct k; cbn; lia. Qed.

Lemma equiv_all : forall n, equiv_upto n.
Proof.
  induction n as [ | n IH]; [ | apply equiv_step; assumption].
  repeat split; intros; exfalso; destruct H as [H _]; pose proof (ksize_pos a); lia.
Qed.

Theorem key_eq_refl : forall a, wf_key a -> key_eq a a = true.
Proof. intros a Ha. apply (proj1 (equiv_all (ksize a))). split; auto. Qed.

Theorem key_eq_sym : forall a b, wf_key a -> wf_key b -> key_eq a b = true -> key_eq b a = true.
Proof.
  intros a b Ha Hb. apply (proj1 (proj2 (equiv_all (ksize a + ksize b)))); split; auto; lia.
Qed.

Theorem key_eq_trans : forall a b c, wf_key a -> wf_key b -> wf_key c ->
  key_eq a b = true -> key_eq b c = true -> key_eq a c = true.
Proof.
  intros a b c Ha Hb Hc. apply (proj2 (proj2 (equiv_all (ksize a + ksize b + ksize c)))); split; auto; lia.
Qed.

(* ------------------------------------------------------------------ hash coherence *)
Lemma wadd_swap : forall x y a M : N, M <> 0%N ->
  ((y + (x + a) mod M) mod M = (x + (y + a) mod M) mod M)%N.
Proof.
  intros x y a M HM. rewrite !N.add_mod_idemp_r by assumption. f_equal. lia.
Qed.

Lemma wsum_perm : forall l l', Permutation l l' -> wsum l = wsum l'.
Proof.
  induction 1.
  - reflexivity.
  - unfold wsum in *. cbn [fold_right]. rewrite IHPermutation. reflexivity.
  - unfold wsum. cbn [fold_right]. apply wadd_swap. discriminate.
  - congruence.
Qed.

Section Coherence.
  Variable H : list token -> N.

  Lemma okd_wf d : wf_key (KDict d) -> okd key_eq wf_key d.
  Proof. intro Hw. apply wf_dict in Hw. exact Hw. Qed.

  Lemma coherent_upto : forall n a b, ksize a <= n -> wf_key a -> wf_key b ->
    key_eq a b = true -> key_hash H a = key_hash H b.
  Proof.
    induction n as [ | n IH]; intros a b Hs Ha Hb He; [pose proof (ksize_pos a); lia | ].
    destruct a as [ | x | s | l | d | v | s]; destruct b as [ | y | t | m | e | w | t]; cbn [key_eq] in He; try discriminate.
    - reflexivity.
    - cbn [key_hash]. f_equal. apply hash_num_coherent; assumption.
    - apply N_list_eqb_eq in He. subst. reflexivity.
    - cbn [key_hash]. rewrite (list_eqb_length _ _ _ He). do 2 f_equal.
      apply (list_eqb_flat_map key_eq); auto. intros x y Hx Hy Hxy.
      apply IH; auto.
      + pose proof (ksize_list l x Hx). lia.
      + apply (proj1 (wf_list l) Ha x Hx).
      + apply (proj1 (wf_list m) Hb y Hy).
    - change (dict_eqb key_eq d e = true) in He.
      destruct (dict_pairing key_eq wf_key key_eq_sym key_eq_trans d e (okd_wf d Ha) (okd_wf e Hb) He) as [e' [Hp Hf]].
      cbn [key_hash].
      set (g := fun kv : key * key => H (key_hash H (fst kv) ++ key_hash H (snd kv))).
      assert (Hmap : map g d = map g e').
      { apply (Forall2_map_eq (ematch key_eq)); auto. intros [k v] [k' v'] Hx Hy [Hk Hv]. cbn in Hk, Hv. unfold g. cbn [fst snd].
        assert (Hy' : In (k', v') e) by (eapply Permutation_in; [apply Permutation_sym | ]; eassumption).
        destruct (ksize_dict d k v Hx). destruct (proj1 (okd_wf d Ha) k v Hx). destruct (proj1 (okd_wf e Hb) k' v' Hy').
        rewrite (IH k k'), (IH v v'); auto; lia. }
      assert (Hperm : Permutation (map g e) (map g d)).
      { rewrite Hmap. apply Permutation_map. assumption. }
      rewrite (wsum_perm _ _ Hperm).
      rewrite (wsum_perm _ _ (Permutation_map wsq Hperm)). reflexivity.
    - cbn [key_hash]. rewrite (list_eqb_length _ _ _ He). do 2 f_equal.
      apply (list_eqb_flat_map num_total_eq); auto. intros x y Hx Hy Hxy.
      cbn in Ha, Hb. rewrite Forall_forall in Ha, Hb. apply hash_num_coherent; auto.
    - apply N_list_eqb_eq in He. subst. reflexivity.
  Qed.

  Theorem hash_coherent : forall a b, wf_key a -> wf_key b -> key_eq a b = true -> key_hash H a = key_hash H b.
  Proof. intros a b. apply (coherent_upto (ksize a)). lia. Qed.

  (* the hash of a nested dictionary does not depend on the order of its entries *)
  Theorem dict_hash_order_independent : forall d d', Permutation d d' -> key_hash H (KDict d) = key_hash H (KDict d').
  Proof.
    intros d d' Hp. cbn [key_hash].
    set (g := fun kv : key * key => H (key_hash H (fst kv) ++ key_hash H (snd kv))).
    rewrite (wsum_perm _ _ (Permutation_map g Hp)).
    rewrite (wsum_perm _ _ (Permutation_map wsq (Permutation_map g Hp))). reflexivity.
  Qed.
End Coherence.
