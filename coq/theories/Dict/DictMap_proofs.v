(* C09 proofs, dictionaries: the hash-bucket model is the finite map on ==-classes. *)
From Coq Require Import ZArith NArith QArith List Bool Lia Permutation.
From NV Require Import Common.Outcome Dict.KeyEq Dict.KeyHash Dict.DictMap Dict.Num_proofs Dict.KeyEq_proofs.
Import ListNotations.
Local Open Scope nat_scope.

(* ------------------------------------------------------------------ token streams *)
Lemma token_eqb_eq : forall a b, token_eqb a b = true <-> a = b.
Proof.
  destruct a, b; cbn; split; intro H; try discriminate; try (inversion H; fail);
    try (apply N.eqb_eq in H; congruence); try (apply Z.eqb_eq in H; congruence);
    try (inversion H; subst; try apply N.eqb_refl; try apply Z.eqb_refl; fail).
  - apply N_list_eqb_eq in H. congruence.
  - inversion H; subst. apply N_list_eqb_eq. reflexivity.
Qed.

Lemma stream_eqb_eq : forall s t, stream_eqb s t = true <-> s = t.
Proof.
  unfold stream_eqb. induction s as [ | a s IH]; destruct t as [ | b t]; cbn; split; intro H; try discriminate; auto.
  - apply andb_true_iff in H. destruct H as [H1 H2]. apply token_eqb_eq in H1. apply IH in H2. congruence.
  - inversion H; subst. apply andb_true_iff. split; [apply token_eqb_eq | apply IH]; reflexivity.
Qed.

(* on valid keys the bucket test is implied by Eq: same bucket AND Eq  =  Eq *)
Lemma hm_slot_key_eq : forall H a b, wf_key a -> wf_key b -> hm_slot (key_hash H) a b = key_eq a b.
Proof.
  intros H a b Ha Hb. unfold hm_slot. destruct (key_eq a b) eqn:E; [ | apply andb_false_r].
  rewrite (hash_coherent H a b Ha Hb E). rewrite andb_true_r. apply stream_eqb_eq. reflexivity.
Qed.

Lemma hm_slot_coherent : forall hash, (forall a b, key_eq a b = true -> hash a = hash b) ->
  forall a b, hm_slot hash a b = key_eq a b.
Proof.
  intros hash Hc a b. unfold hm_slot. destruct (key_eq a b) eqn:E; [ | apply andb_false_r].
  rewrite (Hc a b E). rewrite andb_true_r. apply stream_eqb_eq. reflexivity.
Qed.

(* ------------------------------------------------------------------ two slot functions that agree on a set of keys *)
Section Ext.
  Variable P : key -> Prop.
  Variables s1 s2 : key -> key -> bool.
  Hypothesis agree : forall a b, P a -> P b -> s1 a b = s2 a b.

  Definition SP {V} (s : store V) : Prop := forall k v, In (k, v) s -> P k.

  Lemma SP_nil {V} : SP ([] : store V).
  Proof. intros k v []. Qed.
  Lemma SP_cons {V} k v (s : store V) : SP ((k, v) :: s) <-> P k /\ SP s.
  Proof.
    split.
    - intro H. split; [apply (H k v); cbn; auto | intros k' v' Hin; apply (H k' v'); cbn; auto].
    - intros [H1 H2] k' v' [Heq | Hin]; [inversion Heq; subst; assumption | eauto].
  Qed.

  Lemma sfind_ext {V} : forall k (s : store V), P k -> SP s -> sfind s1 k s = sfind s2 k s.
  Proof.
    unfold sfind, afind. induction s as [ | [k' v'] s IH]; intros Hk Hs; [reflexivity | ].
    apply SP_cons in Hs. destruct Hs as [Hk' Hs]. cbn. rewrite (agree k k' Hk Hk'), IH by assumption. reflexivity.
  Qed.

  Lemma smem_ext {V} : forall k (s : store V), P k -> SP s -> smem s1 k s = smem s2 k s.
  Proof. intros. unfold smem. rewrite sfind_ext by assumption. reflexivity. Qed.

  Lemma sfind_SP {V} (sl : key -> key -> bool) : forall k (s : store V) k' v', SP s -> sfind sl k s = Some (k', v') -> P k'.
  Proof. intros k s k' v' Hs Hf. apply afindp_some in Hf. destruct Hf. eauto. Qed.

  Lemma sset_SP {V} (sl : key -> key -> bool) : forall k v (s : store V), P k -> SP s -> SP (sset sl k v s).
  Proof.
    induction s as [ | [k' v'] s IH]; intros Hk Hs; cbn.
    - apply SP_cons. split; [assumption | apply SP_nil].
    - apply SP_cons in Hs. destruct Hs as [Hk' Hs]. destruct (sl k k'); apply SP_cons; auto.
  Qed.

  Lemma sset_ext {V} : forall k v (s : store V), P k -> SP s -> sset s1 k v s = sset s2 k v s.
  Proof.
    induction s as [ | [k' v'] s IH]; intros Hk Hs; [reflexivity | ].
    apply SP_cons in Hs. destruct Hs as [Hk' Hs]. cbn. rewrite (agree k k' Hk Hk'), IH by assumption. reflexivity.
  Qed.

  Lemma sremove_SP {V} (sl : key -> key -> bool) : forall k (s : store V), SP s -> SP (sremove sl k s).
  Proof.
    induction s as [ | [k' v'] s IH]; intros Hs; cbn; [assumption | ].
    apply SP_cons in Hs. destruct Hs as [Hk' Hs]. destruct (sl k k'); [assumption | apply SP_cons; auto].
  Qed.

  Lemma sremove_ext {V} : forall k (s : store V), P k -> SP s -> sremove s1 k s = sremove s2 k s.
  Proof.
    induction s as [ | [k' v'] s IH]; intros Hk Hs; [reflexivity | ].
    apply SP_cons in Hs. destruct Hs as [Hk' Hs]. cbn. rewrite (agree k k' Hk Hk'), IH by assumption. reflexivity.
  Qed.

  Lemma sextend_SP {V} (sl : key -> key -> bool) : forall (l : list (key * V)) (s : store V), SP l -> SP s -> SP (sextend sl s l).
  Proof.
    unfold sextend. induction l as [ | [k v] l IH]; intros s Hl Hs; cbn; [assumption | ].
    apply SP_cons in Hl. destruct Hl. apply IH; [assumption | ]. apply sset_SP; assumption.
  Qed.

  Lemma sextend_ext {V} : forall (l : list (key * V)) (s : store V), SP l -> SP s -> sextend s1 s l = sextend s2 s l.
  Proof.
    unfold sextend. induction l as [ | [k v] l IH]; intros s Hl Hs; cbn; [reflexivity | ].
    apply SP_cons in Hl. destruct Hl. rewrite sset_ext by assumption. apply IH; [assumption | ]. apply sset_SP; assumption.
  Qed.

  Lemma from_pairs_SP {V} (sl : key -> key -> bool) (l : list (key * V)) : SP l -> SP (from_pairs sl l).
  Proof. intro. apply sextend_SP; [assumption | apply SP_nil]. Qed.
  Lemma from_pairs_ext {V} (l : list (key * V)) : SP l -> from_pairs s1 l = from_pairs s2 l.
  Proof. intro. apply sextend_ext; [assumption | apply SP_nil]. Qed.

  Lemma filter_SP {V} (f : key * V -> bool) (s : store V) : SP s -> SP (filter f s).
  Proof. intros Hs k v Hin. apply filter_In in Hin. destruct Hin. eauto. Qed.

  Lemma filter_ext_in {A} (f g : A -> bool) l : (forall x, In x l -> f x = g x) -> filter f l = filter g l.
  Proof.
    induction l as [ | x l IH]; intro H; cbn; [reflexivity | ].
    rewrite (H x) by (cbn; auto). rewrite IH by (intros; apply H; cbn; auto). reflexivity.
  Qed.

  Lemma forallb_ext_in' {A} (f g : A -> bool) l : (forall x, In x l -> f x = g x) -> forallb f l = forallb g l.
  Proof.
    induction l as [ | x l IH]; intro H; cbn; [reflexivity | ].
    rewrite (H x) by (cbn; auto). rewrite IH by (intros; apply H; cbn; auto). reflexivity.
  Qed.

  Section WithV.
    Variable V : Type.
    Variable vnull : V.
    Variable vadd : V -> V -> outcome V.
    Variable veq : V -> V -> bool.

    Lemma union_add_ext : forall (e s : store V), SP e -> SP s ->
      union_add vadd s1 s e = union_add vadd s2 s e /\
      forall s', union_add vadd s2 s e = Ok s' -> SP s'.
    Proof.
      induction e as [ | [k v] e IH]; intros s He Hs; cbn.
      - split; [reflexivity | ]. intros s' Heq. inversion Heq; subst. assumption.
      - apply SP_cons in He. destruct He as [Hk He]. rewrite (sfind_ext k s Hk Hs).
        destruct (sfind s2 k s) as [[k0 old] | ].
        + destruct (vadd old v) as [nv | c | | ]; cbn; try (split; [reflexivity | discriminate]).
          rewrite (sset_ext k nv s Hk Hs). apply IH; [assumption | apply sset_SP; assumption].
        + rewrite (sset_ext k v s Hk Hs). apply IH; [assumption | apply sset_SP; assumption].
    Qed.

    Lemma store_eq_ext : forall (a b : store V), SP a -> SP b -> store_eq veq s1 a b = store_eq veq s2 a b.
    Proof.
      intros a b Ha Hb. unfold store_eq. f_equal. apply forallb_ext_in'.
      intros [k v] Hin. cbn [fst snd]. rewrite (sfind_ext k b (Ha k v Hin) Hb). reflexivity.
    Qed.

    (* every key mentioned by an operation *)
    Definition op_keys (o : op V) : list key :=
      match o with
      | OGet k | OSafeGet k | OIn k | ORemove k | OAddKey k | ODiscard k => [k]
      | OLen => []
      | OSet k _ | OModify k _ | OInsert k _ => [k]
      | OUnion l | OUnionAdd l | OInter l | ODiff l | OEq l => map fst l
      end.

    Lemma SP_map_fst (l : list (key * V)) : Forall P (map fst l) -> SP l.
    Proof. intros H k v Hin. rewrite Forall_forall in H. apply H. apply (in_map fst) in Hin. exact Hin. Qed.

    Lemma step_ext : forall (d : dict V) o, SP (fst d) -> Forall P (op_keys o) ->
      step vnull vadd veq s1 d o = step vnull vadd veq s2 d o /\ SP (fst (snd (step vnull vadd veq s2 d o))).
    Proof.
      intros [s def] o Hs Ho. cbn [fst] in Hs.
      destruct o as [k | k | k | | k v | k v | k | k | k | k v | l | l | l | l | l]; cbn [op_keys] in Ho;
        try (assert (Hk : P k) by (inversion Ho; assumption));
        try (assert (Hl : SP l) by (apply SP_map_fst; assumption));
        cbn [step].
      - rewrite (sfind_ext k s Hk Hs). split; [reflexivity | assumption].
      - rewrite (sfind_ext k s Hk Hs). split; [reflexivity | assumption].
      - rewrite (smem_ext k s Hk Hs). split; [reflexivity | assumption].
      - split; [reflexivity | assumption].
      - rewrite (sset_ext k v s Hk Hs). split; [reflexivity | apply sset_SP; assumption].
      - rewrite (sfind_ext k s Hk Hs). destruct (sfind s2 k s) as [[k0 old] | ].
        + destruct (vadd old v); try (split; [reflexivity | assumption]).
          rewrite (sset_ext k a s Hk Hs). split; [reflexivity | apply sset_SP; assumption].
        + destruct def as [dv | ]; [ | split; [reflexivity | assumption]].
          destruct (vadd dv v); try (split; [reflexivity | assumption]).
          * rewrite (sset_ext k a s Hk Hs). split; [reflexivity | apply sset_SP; assumption].
          * rewrite (sset_ext k dv s Hk Hs). split; [reflexivity | apply sset_SP; assumption].
      - rewrite (sfind_ext k s Hk Hs). destruct (sfind s2 k s) as [[k0 old] | ]; [ | split; [reflexivity | assumption]].
        rewrite (sremove_ext k s Hk Hs). split; [reflexivity | apply sremove_SP; assumption].
      - rewrite (sset_ext k vnull s Hk Hs). split; [reflexivity | apply sset_SP; assumption].
      - rewrite (sremove_ext k s Hk Hs). split; [reflexivity | apply sremove_SP; assumption].
      - rewrite (sset_ext k v s Hk Hs). split; [reflexivity | apply sset_SP; assumption].
      - rewrite (from_pairs_ext l Hl). rewrite (sextend_ext (from_pairs s2 l) s (from_pairs_SP s2 l Hl) Hs).
        split; [reflexivity | ]. apply sextend_SP; [apply from_pairs_SP | ]; assumption.
      - rewrite (from_pairs_ext l Hl).
        destruct (union_add_ext (from_pairs s2 l) s (from_pairs_SP s2 l Hl) Hs) as [Hu Hsp]. rewrite Hu.
        destruct (union_add vadd s2 s (from_pairs s2 l)) as [s' | c | | ]; (split; [reflexivity | ]); cbn; auto.
      - rewrite (from_pairs_ext l Hl).
        rewrite (filter_ext_in (fun kv : key * V => smem s1 (fst kv) (from_pairs s2 l))
                               (fun kv : key * V => smem s2 (fst kv) (from_pairs s2 l)) s).
        + split; [reflexivity | cbn; apply filter_SP; assumption].
        + intros [k v] Hin. cbn [fst]. apply smem_ext; [eauto | apply from_pairs_SP; assumption].
      - rewrite (from_pairs_ext l Hl).
        rewrite (filter_ext_in (fun kv : key * V => negb (smem s1 (fst kv) (from_pairs s2 l)))
                               (fun kv : key * V => negb (smem s2 (fst kv) (from_pairs s2 l))) s).
        + split; [reflexivity | cbn; apply filter_SP; assumption].
        + intros [k v] Hin. cbn [fst]. f_equal. apply smem_ext; [eauto | apply from_pairs_SP; assumption].
      - rewrite (from_pairs_ext l Hl). rewrite (store_eq_ext s (from_pairs s2 l) Hs (from_pairs_SP s2 l Hl)).
        split; [reflexivity | assumption].
    Qed.

    Lemma run_ext : forall ops (d : dict V), SP (fst d) -> Forall (fun o => Forall P (op_keys o)) ops ->
      run vnull vadd veq s1 d ops = run vnull vadd veq s2 d ops.
    Proof.
      induction ops as [ | o ops IH]; intros d Hd Hops; [reflexivity | ].
      inversion Hops; subst. cbn [run]. destruct (step_ext d o Hd H1) as [He Hsp]. rewrite He.
      destruct (step vnull vadd veq s2 d o) as [x d']. cbn [snd] in Hsp. rewrite (IH d' Hsp H2). reflexivity.
    Qed.
  End WithV.

  (* library functions *)
  Lemma uniqued_go_ext : forall l (seen : store unit), Forall P l -> SP seen -> uniqued_go s1 l seen = uniqued_go s2 l seen.
  Proof.
    induction l as [ | x l IH]; intros seen Hl Hs; [reflexivity | ]. inversion Hl; subst. cbn.
    rewrite (smem_ext x seen H1 Hs). destruct (smem s2 x seen); [apply IH; assumption | ].
    rewrite (sset_ext x tt seen H1 Hs). f_equal. apply IH; [assumption | apply sset_SP; assumption].
  Qed.

  Lemma set_of_ext : forall l, Forall P l -> set_of s1 l = set_of s2 l.
  Proof.
    intros l Hl. unfold set_of. apply from_pairs_ext. intros k v Hin. apply in_map_iff in Hin.
    destruct Hin as [x [Heq Hin]]. inversion Heq; subst. rewrite Forall_forall in Hl. auto.
  Qed.

  Lemma frequencies_go_ext : forall l (c : store N), Forall P l -> SP c -> frequencies_go s1 l c = frequencies_go s2 l c.
  Proof.
    induction l as [ | x l IH]; intros c Hl Hc; [reflexivity | ]. inversion Hl; subst. cbn.
    rewrite (sfind_ext x c H1 Hc). destruct (sfind s2 x c) as [[k n] | ]; rewrite sset_ext by assumption;
      (apply IH; [assumption | apply sset_SP; assumption]).
  Qed.

  Lemma classify_go_ext {X} (f : X -> key) : forall l (m : store (list X)), (forall x, In x l -> P (f x)) -> SP m ->
    classify_go s1 X f l m = classify_go s2 X f l m.
  Proof.
    induction l as [ | x l IH]; intros m Hl Hm; [reflexivity | ]. cbn.
    assert (Hx : P (f x)) by (apply Hl; cbn; auto).
    rewrite (sfind_ext (f x) m Hx Hm). destruct (sfind s2 (f x) m) as [[k g] | ]; rewrite sset_ext by assumption;
      (apply IH; [intros; apply Hl; cbn; auto | apply sset_SP; assumption]).
  Qed.

  Lemma memo_calls_ext {R} (f : list key -> R) : forall calls (t : store R),
    (forall args, In args calls -> P (KList args)) -> SP t -> memo_calls s1 f calls t = memo_calls s2 f calls t.
  Proof.
    induction calls as [ | args calls IH]; intros t Hc Ht; [reflexivity | ]. cbn.
    assert (Ha : P (KList args)) by (apply Hc; cbn; auto).
    rewrite (sfind_ext (KList args) t Ha Ht). destruct (sfind s2 (KList args) t) as [[k r] | ].
    - f_equal. apply IH; [intros; apply Hc; cbn; auto | assumption].
    - f_equal. rewrite sset_ext by assumption. apply IH; [intros; apply Hc; cbn; auto | apply sset_SP; assumption].
  Qed.
End Ext.

(* ------------------------------------------------------------------ the refinement theorems *)
Definition wf_store {V} (s : store V) : Prop := forall k v, In (k, v) s -> wf_key k.
Definition wf_op {V} (o : op V) : Prop := Forall wf_key (op_keys V o).

Theorem dict_refines_map : forall (H : list token -> N) V (vnull : V) vadd veq (d : dict V) ops,
  wf_store (fst d) -> Forall wf_op ops ->
  run vnull vadd veq (hm_slot (key_hash H)) d ops = run vnull vadd veq key_eq d ops.
Proof.
  intros H V vnull vadd veq d ops Hd Hops.
  apply (run_ext wf_key (hm_slot (key_hash H)) key_eq (hm_slot_key_eq H)); assumption.
Qed.

(* the same under an abstract coherence hypothesis on an arbitrary hash function, with no condition on the keys *)
Theorem dict_refines_map_coherent : forall (hash : key -> list token),
  (forall a b, key_eq a b = true -> hash a = hash b) ->
  forall V (vnull : V) vadd veq (d : dict V) ops,
  run vnull vadd veq (hm_slot hash) d ops = run vnull vadd veq key_eq d ops.
Proof.
  intros hash Hc V vnull vadd veq d ops.
  apply (run_ext (fun _ => True) (hm_slot hash) key_eq).
  - intros. apply hm_slot_coherent. assumption.
  - intros k v _. exact I.
  - apply Forall_forall. intros o _. apply Forall_forall. intros k _. exact I.
Qed.

Theorem lib_refines_map : forall (H : list token -> N) (l : list key), Forall wf_key l ->
  let slot := hm_slot (key_hash H) in
  uniqued slot l = uniqued key_eq l /\
  set_of slot l = set_of key_eq l /\
  count_distinct slot l = count_distinct key_eq l /\
  frequencies slot l = frequencies key_eq l /\
  group_all slot (fun k => k) l = group_all key_eq (fun k => k) l.
Proof.
  intros H l Hl slot. pose proof (hm_slot_key_eq H) as Hag.
  repeat split.
  - apply (uniqued_go_ext wf_key slot key_eq Hag); [assumption | intros k v []].
  - apply (set_of_ext wf_key slot key_eq Hag); assumption.
  - unfold count_distinct. rewrite (set_of_ext wf_key slot key_eq Hag) by assumption. reflexivity.
  - apply (frequencies_go_ext wf_key slot key_eq Hag); [assumption | intros k v []].
  - unfold group_all, classify. rewrite (classify_go_ext wf_key slot key_eq Hag (fun k => k)); [reflexivity | | intros k v []].
    rewrite Forall_forall in Hl. assumption.
Qed.

Theorem memo_refines_map : forall (H : list token -> N) R (f : list key -> R) calls,
  (forall args, In args calls -> Forall wf_key args) ->
  memo_calls (hm_slot (key_hash H)) f calls [] = memo_calls key_eq f calls [].
Proof.
  intros H R f calls Hc.
  apply (memo_calls_ext wf_key _ key_eq (hm_slot_key_eq H)); [ | intros k v []].
  intros args Hin. apply wf_list. rewrite <- Forall_forall. auto.
Qed.

(* ------------------------------------------------------------------ equal keys address the same entry *)
Lemma key_eq_cong : forall k1 k2 x, wf_key k1 -> wf_key k2 -> wf_key x -> key_eq k1 k2 = true -> key_eq k1 x = key_eq k2 x.
Proof.
  intros k1 k2 x H1 H2 Hx He. destruct (key_eq k1 x) eqn:E1, (key_eq k2 x) eqn:E2; try reflexivity.
  - rewrite (key_eq_trans k2 k1 x) in E2; auto. apply key_eq_sym; auto.
  - rewrite (key_eq_trans k1 k2 x) in E1; auto.
Qed.

Section SameEntry.
  Variable slot : key -> key -> bool.
  Variables k1 k2 : key.
  Context {V : Type}.

  Lemma sfind_cong : forall (s : store V), (forall k v, In (k, v) s -> slot k1 k = slot k2 k) -> sfind slot k1 s = sfind slot k2 s.
  Proof.
    unfold sfind, afind. induction s as [ | [k v] s IH]; intro Hc; [reflexivity | ]. cbn.
    rewrite (Hc k v) by (cbn; auto). rewrite IH by (intros; eapply Hc; cbn; eauto). reflexivity.
  Qed.
  Lemma sremove_cong : forall (s : store V), (forall k v, In (k, v) s -> slot k1 k = slot k2 k) -> sremove slot k1 s = sremove slot k2 s.
  Proof.
    induction s as [ | [k v] s IH]; intro Hc; [reflexivity | ]. cbn.
    rewrite (Hc k v) by (cbn; auto). rewrite IH by (intros; eapply Hc; cbn; eauto). reflexivity.
  Qed.
  (* a write through either key changes the same entry; only when the key is new does the stored representative differ *)
  Lemma sset_cong : forall (s : store V) v, (forall k v, In (k, v) s -> slot k1 k = slot k2 k) ->
    (smem slot k1 s = true -> sset slot k1 v s = sset slot k2 v s) /\
    (smem slot k1 s = false -> sset slot k1 v s = s ++ [(k1, v)] /\ sset slot k2 v s = s ++ [(k2, v)]).
  Proof.
    unfold smem, sfind, afind. induction s as [ | [k w] s IH]; intros v Hc; cbn.
    - split; [discriminate | auto].
    - rewrite <- (Hc k w) by (cbn; auto). destruct (slot k1 k) eqn:E.
      + split; [reflexivity | discriminate].
      + destruct (IH v) as [IH1 IH2]; [intros; eapply Hc; cbn; eauto | ]. split; intro Hm.
        * rewrite IH1 by assumption. reflexivity.
        * destruct (IH2 Hm) as [-> ->]. auto.
  Qed.
End SameEntry.

Theorem equal_keys_same_entry : forall (H : list token -> N) V (s : store V) k1 k2,
  wf_store s -> wf_key k1 -> wf_key k2 -> key_eq k1 k2 = true ->
  let slot := hm_slot (key_hash H) in
  sfind slot k1 s = sfind slot k2 s /\
  sremove slot k1 s = sremove slot k2 s /\
  (forall v, smem slot k1 s = true -> sset slot k1 v s = sset slot k2 v s) /\
  (forall v, smem slot k1 s = false -> sset slot k1 v s = s ++ [(k1, v)] /\ sset slot k2 v s = s ++ [(k2, v)]).
Proof.
  intros H V s k1 k2 Hs H1 H2 He slot.
  assert (Hc : forall k v, In (k, v) s -> slot k1 k = slot k2 k).
  { intros k v Hin. unfold slot. rewrite !hm_slot_key_eq by eauto. apply key_eq_cong; eauto. }
  repeat split.
  - apply sfind_cong; assumption.
  - apply sremove_cong; assumption.
  - intros v. apply (proj1 (sset_cong slot k1 k2 s v Hc)).
  - apply (proj2 (sset_cong slot k1 k2 s v Hc)); assumption.
  - apply (proj2 (sset_cong slot k1 k2 s v Hc)); assumption.
Qed.

(* ------------------------------------------------------------------ unequal keys never collide: for ANY hash function *)
Section NoCollide.
  Variable slot : key -> key -> bool.
  Hypothesis slot_sound : forall a b, slot a b = true -> key_eq a b = true.
  Context {V : Type}.

  Lemma sfind_sset_other : forall (s : store V) k1 k2 v,
    wf_store s -> wf_key k1 -> wf_key k2 -> key_eq k1 k2 = false ->
    sfind slot k2 (sset slot k1 v s) = sfind slot k2 s.
  Proof.
    unfold sfind, afind. induction s as [ | [k w] s IH]; intros k1 k2 v Hs H1 H2 Hne; cbn.
    - destruct (slot k2 k1) eqn:E; [ | reflexivity]. apply slot_sound in E.
      rewrite (key_eq_sym k2 k1) in Hne; auto. discriminate.
    - assert (Hk : wf_key k) by (apply (Hs k w); cbn; auto).
      destruct (slot k1 k) eqn:E1; cbn.
      + destruct (slot k2 k) eqn:E2; [ | reflexivity]. exfalso.
        apply slot_sound in E1, E2. rewrite (key_eq_trans k1 k k2) in Hne; auto; try discriminate.
        apply key_eq_sym; auto.
      + destruct (slot k2 k); [reflexivity | ]. apply IH; auto. intros k' v' Hin. apply (Hs k' v'). cbn; auto.
  Qed.

  Lemma sfind_sremove_other : forall (s : store V) k1 k2,
    wf_store s -> wf_key k1 -> wf_key k2 -> key_eq k1 k2 = false ->
    sfind slot k2 (sremove slot k1 s) = sfind slot k2 s.
  Proof.
    unfold sfind, afind. induction s as [ | [k w] s IH]; intros k1 k2 Hs H1 H2 Hne; cbn; [reflexivity | ].
    assert (Hk : wf_key k) by (apply (Hs k w); cbn; auto).
    destruct (slot k1 k) eqn:E1; cbn.
    - destruct (slot k2 k) eqn:E2; [ | reflexivity]. exfalso.
      apply slot_sound in E1, E2. rewrite (key_eq_trans k1 k k2) in Hne; auto; try discriminate.
      apply key_eq_sym; auto.
    - destruct (slot k2 k); [reflexivity | ]. apply IH; auto. intros k' v' Hin. apply (Hs k' v'). cbn; auto.
  Qed.
End NoCollide.

Lemma hm_slot_sound : forall hash a b, hm_slot hash a b = true -> key_eq a b = true.
Proof. intros hash a b H. unfold hm_slot in H. apply andb_true_iff in H. tauto. Qed.

Theorem unequal_keys_never_collide : forall (hash : key -> list token) V (s : store V) k1 k2 v,
  wf_store s -> wf_key k1 -> wf_key k2 -> key_eq k1 k2 = false ->
  let slot := hm_slot hash in
  sfind slot k2 (sset slot k1 v s) = sfind slot k2 s /\
  sfind slot k2 (sremove slot k1 s) = sfind slot k2 s.
Proof.
  intros. split.
  - apply sfind_sset_other; auto. apply hm_slot_sound.
  - apply sfind_sremove_other; auto. apply hm_slot_sound.
Qed.

(* ------------------------------------------------------------------ the specification map is a finite map on ==-classes *)
Section Laws.
  Context {V : Type}.

  Lemma sget_sset_same : forall (s : store V) k k' v, wf_store s -> wf_key k -> wf_key k' -> key_eq k k' = true ->
    sget key_eq k' (sset key_eq k v s) = Some v.
  Proof.
    unfold sget, sfind, afind. induction s as [ | [k0 w] s IH]; intros k k' v Hs Hk Hk' He; cbn.
    - rewrite (key_eq_sym k k') by auto. reflexivity.
    - assert (H0 : wf_key k0) by (apply (Hs k0 w); cbn; auto).
      destruct (key_eq k k0) eqn:E; cbn.
      + rewrite <- (key_eq_cong k k' k0), E by auto. reflexivity.
      + rewrite <- (key_eq_cong k k' k0), E by auto. apply IH; auto. intros k1 v1 Hin. apply (Hs k1 v1). cbn; auto.
  Qed.

  Lemma sset_length : forall (s : store V) k v,
    length (sset key_eq k v s) = if smem key_eq k s then length s else S (length s).
  Proof.
    unfold smem, sfind, afind. induction s as [ | [k0 w] s IH]; intros k v; cbn; [reflexivity | ].
    destruct (key_eq k k0); cbn; [reflexivity | ]. rewrite IH. destruct (afindp (key_eq k) s); reflexivity.
  Qed.

  (* the HashMap invariant: stored keys are pairwise unequal *)
  Lemma nodupk_sset : forall (s : store V) k v, wf_store s -> wf_key k -> nodupk key_eq s -> nodupk key_eq (sset key_eq k v s).
  Proof.
    induction s as [ | [k0 w] s IH]; intros k v Hs Hk Hn; cbn.
    - split; [intros k' w' [] | exact I].
    - destruct Hn as [Hn1 Hn2]. assert (H0 : wf_key k0) by (apply (Hs k0 w); cbn; auto).
      assert (Hs' : wf_store s) by (intros k1 v1 Hin; apply (Hs k1 v1); cbn; auto).
      destruct (key_eq k k0) eqn:E; cbn; [split; assumption | ]. split; [ | apply IH; assumption].
      intros k' w' Hin.
      assert (Hin' : (k', w') = (k, v) \/ exists w'', In (k', w'') s).
      { clear - Hin. induction s as [ | [k1 w1] s IH]; cbn in Hin.
        - destruct Hin as [Hq | []]. left. congruence.
        - destruct (key_eq k k1); cbn in Hin.
          + destruct Hin as [Hq | Hin]; [inversion Hq; subst | ]; right; eexists; cbn; eauto.
          + destruct Hin as [Hq | Hin]; [right; eexists; left; eassumption | ].
            destruct (IH Hin) as [ | [w'' ?]]; [auto | right; eexists; right; eassumption]. }
      destruct Hin' as [Hq | [w'' Hin']].
      + inversion Hq; subst. destruct (key_eq k0 k) eqn:E'; [ | reflexivity].
        rewrite (key_eq_sym k0 k) in E; auto.
      + eapply Hn1; eassumption.
  Qed.

  Lemma nodupk_sremove : forall (s : store V) k, nodupk key_eq s -> nodupk key_eq (sremove key_eq k s).
  Proof.
    induction s as [ | [k0 w] s IH]; intros k Hn; cbn; [exact I | ]. destruct Hn as [Hn1 Hn2].
    destruct (key_eq k k0); [assumption | ]. cbn. split; [ | apply IH; assumption].
    intros k' w' Hin. apply (Hn1 k' w'). clear - Hin. induction s as [ | [k1 w1] s IH]; cbn in *; [assumption | ].
    destruct (key_eq k k1); cbn in Hin; [auto | ]. destruct Hin; auto.
  Qed.

  (* after a removal the key is absent (this is where the invariant is needed) *)
  Lemma sget_sremove_same : forall (s : store V) k k', wf_store s -> wf_key k -> wf_key k' -> nodupk key_eq s ->
    key_eq k k' = true -> sget key_eq k' (sremove key_eq k s) = None.
  Proof.
    unfold sget, sfind, afind. induction s as [ | [k0 w] s IH]; intros k k' Hs Hk Hk' Hn He; cbn; [reflexivity | ].
    destruct Hn as [Hn1 Hn2]. assert (H0 : wf_key k0) by (apply (Hs k0 w); cbn; auto).
    assert (Hs' : wf_store s) by (intros k1 v1 Hin; apply (Hs k1 v1); cbn; auto).
    destruct (key_eq k k0) eqn:E.
    - (* the removed entry was the only one equal to k *)
      destruct (afindp (key_eq k') s) as [[k1 w1] | ] eqn:Ef; [ | reflexivity]. exfalso.
      apply afindp_some in Ef. destruct Ef as [Hin Hm].
      assert (key_eq k0 k1 = true).
      { apply (key_eq_trans k0 k k1); eauto. apply key_eq_sym; auto.
        rewrite (key_eq_cong k k' k1); eauto. }
      rewrite (Hn1 k1 w1 Hin) in H. discriminate.
    - cbn. rewrite <- (key_eq_cong k k' k0), E by auto. apply IH; auto.
  Qed.
End Laws.

(* ------------------------------------------------------------------ every history keeps the stored keys pairwise unequal *)
Section Invariant.
  Variable V : Type.
  Variable vnull : V.
  Variable vadd : V -> V -> outcome V.
  Variable veq : V -> V -> bool.

  Definition inv (s : store V) : Prop := wf_store s /\ nodupk key_eq s.

  Lemma inv_sset s k v : wf_key k -> inv s -> inv (sset key_eq k v s).
  Proof. intros Hk [Hw Hn]. split; [apply (sset_SP wf_key); assumption | apply nodupk_sset; assumption]. Qed.
  Lemma inv_sremove s k : inv s -> inv (sremove key_eq k s).
  Proof. intros [Hw Hn]. split; [apply (sremove_SP wf_key); assumption | apply nodupk_sremove; assumption]. Qed.

  Lemma nodupk_filter (f : key * V -> bool) : forall s, nodupk key_eq s -> nodupk key_eq (filter f s).
  Proof.
    induction s as [ | [k w] s IH]; intro Hn; cbn; [exact I | ]. destruct Hn as [Hn1 Hn2].
    destruct (f (k, w)); [ | auto]. cbn. split; [ | auto].
    intros k' w' Hin. apply filter_In in Hin. destruct Hin. eauto.
  Qed.
  Lemma inv_filter f s : inv s -> inv (filter f s).
  Proof. intros [Hw Hn]. split; [apply (filter_SP wf_key); assumption | apply nodupk_filter; assumption]. Qed.

  Lemma inv_sextend : forall (l : list (key * V)) s, wf_store l -> inv s -> inv (sextend key_eq s l).
  Proof.
    unfold sextend. induction l as [ | [k v] l IH]; intros s Hl Hs; cbn; [assumption | ].
    apply IH; [intros k' v' Hin; apply (Hl k' v'); cbn; auto | ]. apply inv_sset; [ | assumption]. apply (Hl k v). cbn; auto.
  Qed.

  Lemma inv_union_add : forall (e : store V) s s', wf_store e -> inv s -> union_add vadd key_eq s e = Ok s' -> inv s'.
  Proof.
    induction e as [ | [k v] e IH]; intros s s' He Hs Hu; cbn in Hu; [inversion Hu; subst; assumption | ].
    assert (Hk : wf_key k) by (apply (He k v); cbn; auto).
    assert (He' : wf_store e) by (intros k' v' Hin; apply (He k' v'); cbn; auto).
    destruct (sfind key_eq k s) as [[k0 old] | ].
    - destruct (vadd old v) as [nv | | | ]; cbn in Hu; try discriminate. apply (IH (sset key_eq k nv s)); auto. apply inv_sset; assumption.
    - apply (IH (sset key_eq k v s)); auto. apply inv_sset; assumption.
  Qed.

  Lemma inv_nil : inv [].
  Proof. split; [intros k v [] | exact I]. Qed.

  Lemma step_inv : forall (d : dict V) o, inv (fst d) -> wf_op o -> inv (fst (snd (step vnull vadd veq key_eq d o))).
  Proof.
    intros [s def] o Hs Ho. cbn [fst] in Hs. unfold wf_op in Ho.
    destruct o as [k | k | k | | k v | k v | k | k | k | k v | l | l | l | l | l]; cbn [op_keys] in Ho;
      try (assert (Hk : wf_key k) by (inversion Ho; assumption));
      try (assert (Hl : wf_store l) by (apply (SP_map_fst wf_key); assumption));
      cbn [step]; try assumption.
    - cbn. apply inv_sset; assumption.
    - destruct (sfind key_eq k s) as [[k0 old] | ].
      + destruct (vadd old v); cbn; try assumption. apply inv_sset; assumption.
      + destruct def as [dv | ]; [ | assumption]. destruct (vadd dv v); cbn; try assumption; apply inv_sset; assumption.
    - destruct (sfind key_eq k s) as [[k0 old] | ]; cbn; [apply inv_sremove | ]; assumption.
    - cbn. apply inv_sset; assumption.
    - cbn. apply inv_sremove; assumption.
    - cbn. apply inv_sset; assumption.
    - cbn. apply inv_sextend; [ | assumption]. apply (inv_sextend l []); [assumption | apply inv_nil].
    - destruct (union_add vadd key_eq s (from_pairs key_eq l)) as [s' | c | | ] eqn:Eu; cbn; try assumption.
      apply (inv_union_add (from_pairs key_eq l) s s'); auto. apply (inv_sextend l []); [assumption | apply inv_nil].
    - cbn. apply inv_filter; assumption.
    - cbn. apply inv_filter; assumption.
  Qed.

  Theorem run_inv : forall ops (d : dict V), inv (fst d) -> Forall wf_op ops ->
    inv (fst (snd (run vnull vadd veq key_eq d ops))).
  Proof.
    induction ops as [ | o ops IH]; intros d Hd Hops; [assumption | ]. inversion Hops; subst. cbn [run].
    pose proof (step_inv d o Hd H1) as Hi. destruct (step vnull vadd veq key_eq d o) as [x d']. cbn [snd] in Hi.
    specialize (IH d' Hi H2). destruct (run vnull vadd veq key_eq d' ops) as [xs d'']. exact IH.
  Qed.
End Invariant.

(* ------------------------------------------------------------------ Eq as written (hashed nested lookup) is key_eq *)
Lemma list_eqb_ext {A} (f g : A -> A -> bool) : forall l m,
  (forall x y, In x l -> In y m -> f x y = g x y) -> list_eqb f l m = list_eqb g l m.
Proof.
  induction l as [ | x l IH]; destruct m as [ | y m]; intro H; cbn; try reflexivity.
  rewrite (H x y) by (cbn; auto). rewrite IH by (intros; apply H; cbn; auto). reflexivity.
Qed.

Lemma afindp_ext {K W} (p q : K -> bool) : forall (e : list (K * W)),
  (forall k w, In (k, w) e -> p k = q k) -> afindp p e = afindp q e.
Proof.
  induction e as [ | [k w] e IH]; intro H; cbn; [reflexivity | ].
  rewrite (H k w) by (cbn; auto). rewrite IH by (intros; eapply H; cbn; eauto). reflexivity.
Qed.

Lemma key_eq_hm_upto : forall (H : list token -> N) n a b, ksize a <= n -> wf_key a -> wf_key b ->
  key_eq_hm (key_hash H) a b = key_eq a b.
Proof.
  intros H. induction n as [ | n IH]; intros a b Hs Ha Hb; [pose proof (ksize_pos a); lia | ].
  destruct a as [ | x | s | l | d | v | s]; destruct b as [ | y | t | m | e | w | t]; try reflexivity.
  - cbn [key_eq_hm key_eq]. apply list_eqb_ext. intros x y Hx Hy. apply IH.
    + pose proof (ksize_list l x Hx). lia.
    + apply (proj1 (wf_list l) Ha x Hx).
    + apply (proj1 (wf_list m) Hb y Hy).
  - cbn [key_eq_hm key_eq]. f_equal. apply forallb_ext_in'. intros [k v] Hin. cbn [fst snd].
    destruct (ksize_dict d k v Hin) as [Hk Hv].
    destruct (proj1 (proj1 (wf_dict d) Ha) k v Hin) as [Hwk Hwv].
    unfold afind.
    rewrite (afindp_ext (fun k' => stream_eqb (key_hash H k) (key_hash H k') && key_eq_hm (key_hash H) k k') (key_eq k) e).
    + destruct (afindp (key_eq k) e) as [[k' v'] | ] eqn:Ef; [ | reflexivity].
      apply afindp_some in Ef. destruct Ef as [Hin' _].
      apply IH; [lia | assumption | ]. apply (proj1 (proj1 (wf_dict e) Hb) k' v' Hin').
    + intros k' w' Hin'. destruct (proj1 (proj1 (wf_dict e) Hb) k' w' Hin') as [Hwk' _].
      rewrite (IH k k') by (auto; lia). apply (hm_slot_key_eq H k k'); assumption.
Qed.

Theorem key_eq_hm_is_key_eq : forall (H : list token -> N) a b, wf_key a -> wf_key b ->
  key_eq_hm (key_hash H) a b = key_eq a b.
Proof. intros H a b. apply (key_eq_hm_upto H (ksize a)). lia. Qed.

(* ------------------------------------------------------------------ set(x): all values null, no default *)
Lemma sset_values {V} (slot : key -> key -> bool) (P : V -> Prop) : forall (s : store V) k v,
  P v -> (forall k' v', In (k', v') s -> P v') -> forall k' v', In (k', v') (sset slot k v s) -> P v'.
Proof.
  induction s as [ | [k0 w0] s IH]; intros k v Hv Hs k' v' Hin; cbn in Hin.
  - destruct Hin as [Hq | []]. inversion Hq; subst. assumption.
  - destruct (slot k k0); cbn in Hin.
    + destruct Hin as [Hq | Hin]; [inversion Hq; subst; assumption | apply (Hs k' v'); cbn; auto].
    + destruct Hin as [Hq | Hin]; [inversion Hq; subst; apply (Hs k' v'); cbn; auto | ].
      apply (IH k v Hv) with (k' := k'); auto. intros; eapply Hs; cbn; eauto.
Qed.

Lemma sextend_values {V} (slot : key -> key -> bool) (P : V -> Prop) : forall (l : list (key * V)) (s : store V),
  (forall k v, In (k, v) l -> P v) -> (forall k v, In (k, v) s -> P v) ->
  forall k v, In (k, v) (sextend slot s l) -> P v.
Proof.
  unfold sextend. induction l as [ | [k0 v0] l IH]; intros s Hl Hs; cbn; [assumption | ].
  apply IH; [intros; eapply Hl; cbn; eauto | ]. apply sset_values; [eapply Hl; cbn; eauto | assumption].
Qed.

Theorem set_dict_all_null : forall (slot : key -> key -> bool) V (vnull : V) (l : list key),
  snd (set_dict slot vnull l) = None /\
  (forall k v, In (k, v) (fst (set_dict slot vnull l)) -> v = vnull) /\
  (forall k v, In (k, v) (fst (set_dict slot vnull l)) -> In k l).
Proof.
  intros slot V vnull l. unfold set_dict, from_pairs. cbn [fst snd]. repeat split.
  - apply (sextend_values slot (fun v => v = vnull)); [ | intros k v []].
    intros k v Hin. apply in_map_iff in Hin. destruct Hin as [x [Hq _]]. inversion Hq. reflexivity.
  - intros k v Hin.
    assert (Hg : forall (p : list (key * V)) (s : store V) k v, In (k, v) (sextend slot s p) ->
                 In k (map fst p) \/ In k (map fst s)).
    { unfold sextend. induction p as [ | [k0 v0] p IH]; intros s k1 v1 H1; cbn in *; [right; apply (in_map fst) in H1; exact H1 | ].
      destruct (IH _ _ _ H1) as [ | Hs]; [auto | ].
      apply in_map_iff in Hs. destruct Hs as [[k2 v2] [Hq Hs]]. cbn in Hq. subst k2.
      clear - Hs. induction s as [ | [k3 v3] s IHs]; cbn in Hs.
      - destruct Hs as [Hq | []]. inversion Hq. auto.
      - destruct (slot k0 k3); cbn in Hs.
        + destruct Hs as [Hq | Hs]; [inversion Hq; subst; right; cbn; auto | right; cbn; right; apply (in_map fst) in Hs; exact Hs].
        + destruct Hs as [Hq | Hs]; [inversion Hq; subst; right; cbn; auto | ].
          destruct (IHs Hs) as [ | ]; [auto | right; cbn; auto]. }
    destruct (Hg _ _ _ _ Hin) as [H1 | []]. rewrite map_map in H1. cbn in H1. rewrite map_id in H1. exact H1.
Qed.

Theorem set_dict_refines : forall (H : list token -> N) V (vnull : V) (l : list key), Forall wf_key l ->
  set_dict (hm_slot (key_hash H)) vnull l = set_dict key_eq vnull l.
Proof.
  intros H V vnull l Hl. unfold set_dict. f_equal.
  apply (from_pairs_ext wf_key _ key_eq (hm_slot_key_eq H)).
  intros k v Hin. apply in_map_iff in Hin. destruct Hin as [x [Hq Hin]]. inversion Hq; subst.
  rewrite Forall_forall in Hl. auto.
Qed.
