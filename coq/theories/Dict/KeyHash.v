(* C09 model, part 2: the sequence of `Hasher` writes made for a dictionary key.

   Transcribes  src/core.rs  total_hash_of_key (`Hash for ObjKey`)
                src/nnum.rs  NNum::total_hash, consistent_hash_f64, consistent_hash_rational (after the
                             repair 8f04d9f; the previous version is `old_hash_num` at the end)
                src/nint.rs  hash_bigint, `Hash for NInt`
                num-bigint   `Hash for BigInt` = derived Hash of Sign (write_isize of the discriminant), then
                             `Vec<u64>::hash` of the magnitude (write_usize(len), write(bytes))
                std          `str::hash` = write(bytes), write_u8(0xff);  `Vec<u8>::hash` = write_usize(len), write(bytes)

   A token is one call of a `Hasher` method.  The nested-dictionary arm feeds every entry to a fresh
   `DefaultHasher` and adds up the results; `H` stands for "finish() of a fresh DefaultHasher fed this token
   sequence" and is a parameter of the model: the theorems hold for every H.  `sip13` is SipHash-1-3 with a
   zero key (what DefaultHasher::new() is), so that the extracted model produces the very numbers the
   implementation writes. *)
From Coq Require Import ZArith NArith QArith List Bool.
From NV Require Import Dict.KeyEq.
Import ListNotations.
Open Scope Z_scope.

Inductive token :=
| TU8 (n : N)
| TI64 (z : Z)
| TU64 (n : N)
| TUsize (n : N)
| TIsize (z : Z)
| TBytes (l : list N).

Definition token_eqb (a b : token) : bool :=
  match a, b with
  | TU8 x, TU8 y => (x =? y)%N
  | TI64 x, TI64 y => x =? y
  | TU64 x, TU64 y => (x =? y)%N
  | TUsize x, TUsize y => (x =? y)%N
  | TIsize x, TIsize y => x =? y
  | TBytes x, TBytes y => list_eqb N.eqb x y
  | _, _ => false
  end.
Definition stream_eqb (s t : list token) : bool := list_eqb token_eqb s t.

(* ------------------------------------------------------------------ integers *)
Fixpoint le_bytes (n : nat) (x : N) : list N :=
  match n with
  | O => []
  | S n' => (x mod 256)%N :: le_bytes n' (x / 256)%N
  end.

(* number of 64-bit digits of a positive magnitude *)
Definition ndigits (m : N) : N := (N.log2 m / 64 + 1)%N.

(* impl Hash for BigInt *)
Definition hash_bigint_raw (z : Z) : list token :=
  match z with
  | Z0 => [TIsize 1]                                    (* Sign::NoSign *)
  | Zpos p => let m := Npos p in
              [TIsize 2; TUsize (ndigits m); TBytes (le_bytes (N.to_nat (8 * ndigits m)) m)]
  | Zneg p => let m := Npos p in
              [TIsize 0; TUsize (ndigits m); TBytes (le_bytes (N.to_nat (8 * ndigits m)) m)]
  end.

Definition fits_i64 (z : Z) : bool := (- 2 ^ 63 <=? z) && (z <=? 2 ^ 63 - 1).

(* fn hash_bigint (nint.rs); `Hash for NInt` is the same function of the integer's value in both
   representations: Small(a) writes the i64, Big(a) goes through hash_bigint *)
Definition hash_bigint (z : Z) : list token :=
  if fits_i64 z then [TI64 z] else hash_bigint_raw z.

(* ------------------------------------------------------------------ numbers (repaired) *)
Definition nan_hash : N := 9218868437227405313%N.     (* 0x7FF0000000000001 *)

(* fn consistent_hash_rational: r.numer(), r.denom() of a BigRational (lowest terms) *)
Definition hash_rational (q : Q) : list token :=
  hash_bigint (Qnum q) ++ (if (Qden q =? 1)%positive then [] else hash_bigint (Zpos (Qden q))).

(* fn consistent_hash_f64 *)
Definition hash_f64 (f : f64) : list token :=
  match to_nint_if_int f with
  | Some z => hash_bigint z
  | None =>
      match decode f with
      | FFin s m e => hash_rational (Qred (fin_q s m e))     (* BigRational::from_float, exact, reduced *)
      | FNaN => [TU64 nan_hash]
      | FInf _ => [TU64 (f64_bits f)]
      end
  end.

(* fn NNum::total_hash *)
Definition hash_num (n : num) : list token :=
  if num_is_nan n then [TU64 nan_hash]
  else match n with
       | NInt z => hash_bigint z
       | NRat q => hash_rational q
       | NFloat f => hash_f64 f
       | NComplex re im => hash_f64 re ++ (if f64_eq im f64_zero then [] else hash_f64 im)
       end.

(* ------------------------------------------------------------------ keys *)
Definition two64 : N := (2 ^ 64)%N.
(* acc = acc.wrapping_add(f) over the entries, in iteration order *)
Definition wsum (l : list N) : N := fold_right (fun f acc => ((f + acc) mod two64)%N) 0%N l.
Definition wsq (f : N) : N := ((f * f) mod two64)%N.

Section KeyHash.
  Variable H : list token -> N.

  (* fn total_hash_of_key *)
  Fixpoint key_hash (k : key) : list token :=
    match k with
    | KNull => [TU8 0]
    | KNum n => TU8 1 :: hash_num n
    | KStr s => [TU8 2; TBytes s; TU8 255]
    | KList l => TU8 3 :: TUsize (N.of_nat (length l)) :: flat_map key_hash l
    | KDict d =>
        let fs := map (fun kv => H (key_hash (fst kv) ++ key_hash (snd kv))) d in
        [TU8 4; TU64 (wsum fs); TU64 (wsum (map wsq fs))]
    | KVec v => TU8 5 :: TUsize (N.of_nat (length v)) :: flat_map hash_num v
    | KBytes b => [TU8 6; TUsize (N.of_nat (length b)); TBytes b]
    end.
End KeyHash.

(* ------------------------------------------------------------------ SipHash-1-3, zero key *)
Definition w64 (x : N) : N := N.land x (N.ones 64).
Definition add64 (a b : N) : N := w64 (a + b).
Definition rotl (x b : N) : N := N.lor (w64 (N.shiftl x b)) (N.shiftr x (64 - b)).

Definition sipround (s : N * N * N * N) : N * N * N * N :=
  let '(v0, v1, v2, v3) := s in
  let v0 := add64 v0 v1 in let v1 := rotl v1 13 in let v1 := N.lxor v1 v0 in let v0 := rotl v0 32 in
  let v2 := add64 v2 v3 in let v3 := rotl v3 16 in let v3 := N.lxor v3 v2 in
  let v0 := add64 v0 v3 in let v3 := rotl v3 21 in let v3 := N.lxor v3 v0 in
  let v2 := add64 v2 v1 in let v1 := rotl v1 17 in let v1 := N.lxor v1 v2 in let v2 := rotl v2 32 in
  (v0, v1, v2, v3).

Definition sip_word (s : N * N * N * N) (m : N) : N * N * N * N :=
  let '(v0, v1, v2, v3) := s in
  let '(v0, v1, v2, v3) := sipround (v0, v1, v2, N.lxor v3 m) in
  (N.lxor v0 m, v1, v2, v3).

Fixpoint le_word (bs : list N) : N :=
  match bs with [] => 0%N | b :: r => (b + 256 * le_word r)%N end.

Fixpoint sip_blocks (bs : list N) (s : N * N * N * N) : N * N * N * N * list N :=
  match bs with
  | b0 :: b1 :: b2 :: b3 :: b4 :: b5 :: b6 :: b7 :: r =>
      sip_blocks r (sip_word s (le_word [b0; b1; b2; b3; b4; b5; b6; b7]))
  | tail => (s, tail)
  end.

Definition sip13_bytes (bs : list N) : N :=
  let init := (8317987319222330741, 7237128888997146477, 7816392313619706465, 8387220255154660723)%N in
  let '(s, tail) := sip_blocks bs init in
  let b := ((N.of_nat (length bs) mod 256) * 2 ^ 56 + le_word tail)%N in
  let '(v0, v1, v2, v3) := sip_word s b in
  let '(v0, v1, v2, v3) := sipround (sipround (sipround (v0, v1, N.lxor v2 255, v3))) in
  N.lxor (N.lxor v0 v1) (N.lxor v2 v3).

(* the bytes SipHasher13 receives for one Hasher call (little-endian machine) *)
Definition token_bytes (t : token) : list N :=
  match t with
  | TU8 n => [n]
  | TI64 z => le_bytes 8 (Z.to_N (z mod 2 ^ 64))
  | TU64 n => le_bytes 8 n
  | TUsize n => le_bytes 8 n
  | TIsize z => le_bytes 8 (Z.to_N (z mod 2 ^ 64))
  | TBytes l => l
  end.

Definition sip13 (s : list token) : N := sip13_bytes (flat_map token_bytes s).

Definition key_hash_real : key -> list token := key_hash sip13.

(* ------------------------------------------------------------------ the hash before the repair (F5) *)
Definition old_hash_f64 (f : f64) : list token :=
  match to_nint_if_int f with
  | Some z => hash_bigint z
  | None => if f64_is_nan f then [TU64 nan_hash] else [TU64 (f64_bits f)]
  end.
Definition old_hash_num (n : num) : list token :=
  match n with
  | NInt z => hash_bigint z
  | NRat q => hash_bigint_raw (Qnum q) ++ (if (Qden q =? 1)%positive then [] else hash_bigint_raw (Zpos (Qden q)))
  | NFloat f => old_hash_f64 f
  | NComplex re im => old_hash_f64 re ++ old_hash_f64 im
  end.

(* ------------------------------------------------------------------ examples (values observed on the implementation) *)
Example ex_tokens :
  key_hash_real (KNum (NInt 1)) = [TU8 1; TI64 1] /\
  key_hash_real (KNum (NRat (1 # 1))) = [TU8 1; TI64 1] /\
  key_hash_real (KNum (NComplex f_one f64_zero)) = [TU8 1; TI64 1] /\
  key_hash_real (KNum (NFloat f_half)) = [TU8 1; TI64 1; TI64 2] /\
  key_hash_real (KNum (NFloat f_inf)) = [TU8 1; TU64 9218868437227405312] /\
  key_hash_real (KNum (NInt (2 ^ 64))) = [TU8 1; TIsize 2; TUsize 2; TBytes [0;0;0;0;0;0;0;0;1;0;0;0;0;0;0;0]%N] /\
  key_hash_real (KNum (NFloat f_2p64)) = key_hash_real (KNum (NInt (2 ^ 64))) /\
  key_hash_real (KStr [97; 98]%N) = [TU8 2; TBytes [97; 98]%N; TU8 255].
Proof. vm_compute. repeat split. Qed.

(* D{1:2, 3:4}: acc and acc2 as written by the implementation *)
Example ex_dict_tokens :
  key_hash_real (KDict [(KNum (NInt 1), KNum (NInt 2)); (KNum (NInt 3), KNum (NInt 4))]) =
  [TU8 4; TU64 7289876174442718872; TU64 16452551301407457938].
Proof. vm_compute. reflexivity. Qed.
