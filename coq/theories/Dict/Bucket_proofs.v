(* C09 proofs, the literal bucket structure: a list of buckets labelled by Hasher write sequences, Eq inside a
   bucket (bmap in DictMap.v), is the flat slot model: a lookup in it is the slot lookup over its entries, and
   insert/remove keep the structure well formed and change the entries exactly as the flat model does
   (up to the order in which entries are listed).  No assumption on the hash function. *)
From Coq Require Import ZArith NArith QArith List Bool Lia Permutation.
From NV Require Import Common.Outcome Dict.KeyEq Dict.KeyHash Dict.DictMap Dict.KeyEq_proofs Dict.DictMap_proofs.
Import ListNotations.
Local Open Scope nat_scope.

Section Buckets.
  Variable hash : key -> list token.
  Context {V : Type}.
  Let slot := hm_slot hash.

  (* every entry sits in the bucket labelled by its own write sequence; labels are distinct *)
  Definition bwf (m : bmap V) : Prop :=
    (forall h b, In (h, b) m -> forall k v, In (k, v) b -> hash k = h) /\ NoDup (map fst m).

  Lemma stream_eqb_refl s : stream_eqb s s = true.
  Proof. apply stream_eqb_eq. reflexivity. Qed.
  Lemma stream_eqb_neq s t : s <> t -> stream_eqb s t = false.
  Proof. intro H. destruct (stream_eqb s t) eqn:E; [apply stream_eqb_eq in E; contradiction | reflexivity]. Qed.

  Lemma sfind_app (sl : key -> key -> bool) k (a b : store V) :
    sfind sl k (a ++ b) = match sfind sl k a with Some x => Some x | None => sfind sl k b end.
  Proof.
    unfold sfind, afind. induction a as [ | [k' v'] a IH]; cbn; [reflexivity | ]. destruct (sl k k'); [reflexivity | apply IH].
  Qed.

  (* inside the probe's own bucket the slot test is Eq; in any other bucket it fails *)
  Lemma sfind_same_bucket k (b : store V) : (forall k' v', In (k', v') b -> hash k' = hash k) ->
    sfind slot k b = sfind key_eq k b.
  Proof.
    unfold sfind, afind. induction b as [ | [k' v'] b IH]; intro Hb; cbn; [reflexivity | ].
    unfold slot at 1, hm_slot. rewrite (Hb k' v') by (cbn; auto). rewrite stream_eqb_refl. cbn.
    destruct (key_eq k k'); [reflexivity | ]. apply IH. intros; eapply Hb; cbn; eauto.
  Qed.
  Lemma sfind_other_bucket k (b : store V) : (forall k' v', In (k', v') b -> hash k' <> hash k) -> sfind slot k b = None.
  Proof.
    unfold sfind, afind. induction b as [ | [k' v'] b IH]; intro Hb; cbn; [reflexivity | ].
    unfold slot at 1, hm_slot. rewrite stream_eqb_neq; [ | intro Hq; apply (Hb k' v'); cbn; auto]. cbn.
    apply IH. intros; eapply Hb; cbn; eauto.
  Qed.

  Lemma bwf_tail h (b : store V) (m : bmap V) : bwf ((h, b) :: m) -> bwf m.
  Proof. intros [H1 H2]. split; [intros; eapply H1; cbn; eauto | inversion H2; assumption]. Qed.

  Lemma other_buckets k h (b : store V) (m : bmap V) : bwf ((h, b) :: m) -> h = hash k ->
    forall k' v', In (k', v') (bentries m) -> hash k' <> hash k.
  Proof.
    intros [H1 H2] Hh k' v' Hin. unfold bentries in Hin. apply in_concat in Hin. destruct Hin as [b' [Hb' Hin]].
    apply in_map_iff in Hb'. destruct Hb' as [[h' b''] [Hq Hm]]. cbn in Hq. subst b''.
    rewrite (H1 h' b' (or_intror Hm) k' v' Hin). inversion H2; subst. intro Hq. apply H3.
    rewrite <- Hq. apply (in_map fst) in Hm. exact Hm.
  Qed.

  (* B1: a lookup in the bucket structure is the slot lookup over all its entries *)
  Theorem bfind_is_sfind : forall m k, bwf m -> bfind hash k m = sfind slot k (bentries m).
  Proof.
    unfold bfind. induction m as [ | [h b] m IH]; intros k Hw; [reflexivity | ].
    change (bentries ((h, b) :: m)) with (b ++ bentries m). rewrite sfind_app. cbn [bucket].
    destruct (stream_eqb (hash k) h) eqn:E.
    - apply stream_eqb_eq in E. subst h.
      rewrite (sfind_same_bucket k b) by (intros; eapply (proj1 Hw); cbn; eauto).
      destruct (sfind key_eq k b); [reflexivity | ]. symmetry. apply sfind_other_bucket.
      apply (other_buckets k (hash k) b m Hw eq_refl).
    - rewrite (sfind_other_bucket k b).
      + apply IH. eapply bwf_tail; eassumption.
      + intros k' v' Hin Hq. rewrite ((proj1 Hw) h b (or_introl eq_refl) k' v' Hin) in Hq. subst h.
        rewrite stream_eqb_refl in E. discriminate.
  Qed.

  (* set_bucket / bucket *)
  Lemma set_bucket_fst h (b : store V) (m : bmap V) : map fst (set_bucket h b m) = if existsb (stream_eqb h) (map fst m) then map fst m else map fst m ++ [h].
  Proof.
    induction m as [ | [h' b'] m IH]; cbn; [reflexivity | ]. destruct (stream_eqb h h') eqn:E; cbn; [reflexivity | ].
    rewrite IH. destruct (existsb (stream_eqb h) (map fst m)); reflexivity.
  Qed.

  Lemma existsb_stream h l : existsb (stream_eqb h) l = true <-> In h l.
  Proof.
    rewrite existsb_exists. split.
    - intros [x [Hin He]]. apply stream_eqb_eq in He. subst. assumption.
    - intro. exists h. split; [assumption | apply stream_eqb_refl].
  Qed.

  Lemma set_bucket_in h (b : store V) (m : bmap V) h' b' : In (h', b') (set_bucket h b m) -> (h' = h /\ b' = b) \/ In (h', b') m.
  Proof.
    induction m as [ | [h0 b0] m IH]; cbn.
    - intros [Hq | []]. inversion Hq. auto.
    - destruct (stream_eqb h h0) eqn:E; cbn.
      + apply stream_eqb_eq in E. subst h0. intros [Hq | Hin]; [inversion Hq; auto | auto].
      + intros [Hq | Hin]; [auto | ]. destruct (IH Hin); auto.
  Qed.

  Lemma bucket_in h (m : bmap V) k v : In (k, v) (bucket h m) -> exists b, In (h, b) m /\ In (k, v) b.
  Proof.
    induction m as [ | [h0 b0] m IH]; cbn; [tauto | ]. destruct (stream_eqb h h0) eqn:E.
    - apply stream_eqb_eq in E. subst. eauto.
    - intro Hin. destruct (IH Hin) as [b [? ?]]. eauto.
  Qed.

  Lemma bwf_set_bucket h (b : store V) (m : bmap V) : bwf m -> (forall k v, In (k, v) b -> hash k = h) -> bwf (set_bucket h b m).
  Proof.
    intros [H1 H2] Hb. split.
    - intros h' b' Hin k v Hkv. destruct (set_bucket_in h b m h' b' Hin) as [[-> ->] | Hin']; eauto.
    - rewrite set_bucket_fst. destruct (existsb (stream_eqb h) (map fst m)) eqn:E; [assumption | ].
      assert (~ In h (map fst m)) by (rewrite <- existsb_stream, E; discriminate).
      apply Permutation_NoDup with (l := h :: map fst m); [ | constructor; assumption].
      apply Permutation_cons_append.
  Qed.

  Lemma sset_keys (sl : key -> key -> bool) k v (b : store V) k' v' :
    In (k', v') (sset sl k v b) -> k' = k \/ exists w, In (k', w) b.
  Proof.
    induction b as [ | [k0 w0] b IH]; cbn.
    - intros [Hq | []]. inversion Hq. auto.
    - destruct (sl k k0); cbn; intros [Hq | Hin].
      + inversion Hq; subst. right. eexists; left; reflexivity.
      + right. eexists; right; eassumption.
      + inversion Hq; subst. right. eexists; left; reflexivity.
      + destruct (IH Hin) as [ | [w ?]]; [auto | right; eexists; right; eassumption].
  Qed.
  Lemma sremove_keys (sl : key -> key -> bool) k (b : store V) k' v' : In (k', v') (sremove sl k b) -> In (k', v') b.
  Proof.
    induction b as [ | [k0 w0] b IH]; cbn; [tauto | ]. destruct (sl k k0); cbn; [auto | ]. intros [ | ]; auto.
  Qed.

  (* B2: insert and remove keep the structure well formed *)
  Theorem bwf_bset m k v : bwf m -> bwf (bset hash k v m).
  Proof.
    intro Hw. unfold bset. apply bwf_set_bucket; [assumption | ]. intros k' v' Hin.
    destruct (sset_keys key_eq k v _ k' v' Hin) as [-> | [w Hin']]; [reflexivity | ].
    destruct (bucket_in _ _ _ _ Hin') as [b [Hb Hkb]]. exact (proj1 Hw _ _ Hb _ _ Hkb).
  Qed.
  Theorem bwf_bremove m k : bwf m -> bwf (bremove hash k m).
  Proof.
    intro Hw. unfold bremove. apply bwf_set_bucket; [assumption | ]. intros k' v' Hin.
    apply sremove_keys in Hin. destruct (bucket_in _ _ _ _ Hin) as [b [Hb Hkb]]. exact (proj1 Hw _ _ Hb _ _ Hkb).
  Qed.
  Lemma bwf_empty : bwf [].
  Proof. split; [intros h b [] | constructor]. Qed.

  (* B3: the entries after an insert/remove are those of the flat model, listed in another order *)
  Lemma sset_app_hit (sl : key -> key -> bool) k v (a b : store V) : smem sl k a = true -> sset sl k v (a ++ b) = sset sl k v a ++ b.
  Proof.
    unfold smem, sfind, afind. induction a as [ | [k0 w0] a IH]; cbn; [discriminate | ].
    destruct (sl k k0); [reflexivity | ]. intro H. cbn. rewrite IH by assumption. reflexivity.
  Qed.
  Lemma sset_app_miss (sl : key -> key -> bool) k v (a b : store V) : smem sl k a = false -> sset sl k v (a ++ b) = a ++ sset sl k v b.
  Proof.
    unfold smem, sfind, afind. induction a as [ | [k0 w0] a IH]; cbn; [reflexivity | ].
    destruct (sl k k0); [discriminate | ]. intro H. cbn. rewrite IH by assumption. reflexivity.
  Qed.
  Lemma sset_miss (sl : key -> key -> bool) k v (a : store V) : smem sl k a = false -> sset sl k v a = a ++ [(k, v)].
  Proof. intro H. rewrite <- (app_nil_r a) at 1. rewrite sset_app_miss by assumption. reflexivity. Qed.
  Lemma sremove_app_hit (sl : key -> key -> bool) k (a b : store V) : smem sl k a = true -> sremove sl k (a ++ b) = sremove sl k a ++ b.
  Proof.
    unfold smem, sfind, afind. induction a as [ | [k0 w0] a IH]; cbn; [discriminate | ].
    destruct (sl k k0); [reflexivity | ]. intro H. cbn. rewrite IH by assumption. reflexivity.
  Qed.
  Lemma sremove_app_miss (sl : key -> key -> bool) k (a b : store V) : smem sl k a = false -> sremove sl k (a ++ b) = a ++ sremove sl k b.
  Proof.
    unfold smem, sfind, afind. induction a as [ | [k0 w0] a IH]; cbn; [reflexivity | ].
    destruct (sl k k0); [discriminate | ]. intro H. cbn. rewrite IH by assumption. reflexivity.
  Qed.
  Lemma sremove_none (sl : key -> key -> bool) k (a : store V) : smem sl k a = false -> sremove sl k a = a.
  Proof. intro H. rewrite <- (app_nil_r a) at 1. rewrite sremove_app_miss by assumption. cbn. apply app_nil_r. Qed.

  Lemma smem_of_sfind (sl sl' : key -> key -> bool) k (a a' : store V) : sfind sl k a = sfind sl' k a' -> smem sl k a = smem sl' k a'.
  Proof. unfold smem. intros ->. reflexivity. Qed.

  Lemma sset_same_bucket k v (b : store V) : (forall k' v', In (k', v') b -> hash k' = hash k) -> sset slot k v b = sset key_eq k v b.
  Proof.
    induction b as [ | [k' v'] b IH]; intro Hb; cbn; [reflexivity | ].
    unfold slot at 1, hm_slot. rewrite (Hb k' v') by (cbn; auto). rewrite stream_eqb_refl. cbn.
    destruct (key_eq k k'); [reflexivity | ]. rewrite IH; [reflexivity | intros; eapply Hb; cbn; eauto].
  Qed.
  Lemma sremove_same_bucket k (b : store V) : (forall k' v', In (k', v') b -> hash k' = hash k) -> sremove slot k b = sremove key_eq k b.
  Proof.
    induction b as [ | [k' v'] b IH]; intro Hb; cbn; [reflexivity | ].
    unfold slot at 1, hm_slot. rewrite (Hb k' v') by (cbn; auto). rewrite stream_eqb_refl. cbn.
    destruct (key_eq k k'); [reflexivity | ]. rewrite IH; [reflexivity | intros; eapply Hb; cbn; eauto].
  Qed.

  Theorem bentries_bset : forall m k v, bwf m ->
    Permutation (bentries (bset hash k v m)) (sset slot k v (bentries m)).
  Proof.
    unfold bset. induction m as [ | [h b] m IH]; intros k v Hw.
    - cbn. reflexivity.
    - change (bentries ((h, b) :: m)) with (b ++ bentries m). cbn [bucket set_bucket].
      destruct (stream_eqb (hash k) h) eqn:E.
      + apply stream_eqb_eq in E. subst h.
        assert (Hb : forall k' v', In (k', v') b -> hash k' = hash k) by (intros; eapply (proj1 Hw); cbn; eauto).
        change (bentries ((hash k, sset key_eq k v b) :: m)) with (sset key_eq k v b ++ bentries m).
        rewrite <- (sset_same_bucket k v b Hb).
        destruct (smem slot k b) eqn:Em.
        * rewrite sset_app_hit by assumption. reflexivity.
        * rewrite sset_app_miss by assumption. rewrite (sset_miss slot k v b Em).
          rewrite (sset_miss slot k v (bentries m)).
          -- rewrite <- app_assoc. apply Permutation_app_head. apply Permutation_app_comm.
          -- unfold smem. rewrite sfind_other_bucket; [reflexivity | ]. apply (other_buckets k (hash k) b m Hw eq_refl).
      + change (bentries ((h, b) :: set_bucket (hash k) (sset key_eq k v (bucket (hash k) m)) m))
          with (b ++ bentries (set_bucket (hash k) (sset key_eq k v (bucket (hash k) m)) m)).
        rewrite sset_app_miss.
        * apply Permutation_app_head. apply IH. eapply bwf_tail; eassumption.
        * unfold smem. rewrite sfind_other_bucket; [reflexivity | ].
          intros k' v' Hin Hq. rewrite ((proj1 Hw) h b (or_introl eq_refl) k' v' Hin) in Hq. subst h.
          rewrite stream_eqb_refl in E. discriminate.
  Qed.

  Theorem bentries_bremove : forall m k, bwf m ->
    Permutation (bentries (bremove hash k m)) (sremove slot k (bentries m)).
  Proof.
    unfold bremove. induction m as [ | [h b] m IH]; intros k Hw.
    - cbn. reflexivity.
    - change (bentries ((h, b) :: m)) with (b ++ bentries m). cbn [bucket set_bucket].
      destruct (stream_eqb (hash k) h) eqn:E.
      + apply stream_eqb_eq in E. subst h.
        assert (Hb : forall k' v', In (k', v') b -> hash k' = hash k) by (intros; eapply (proj1 Hw); cbn; eauto).
        change (bentries ((hash k, sremove key_eq k b) :: m)) with (sremove key_eq k b ++ bentries m).
        rewrite <- (sremove_same_bucket k b Hb).
        destruct (smem slot k b) eqn:Em.
        * rewrite sremove_app_hit by assumption. reflexivity.
        * rewrite sremove_app_miss by assumption. rewrite (sremove_none slot k b Em).
          rewrite (sremove_none slot k (bentries m)); [reflexivity | ].
          unfold smem. rewrite sfind_other_bucket; [reflexivity | ]. apply (other_buckets k (hash k) b m Hw eq_refl).
      + change (bentries ((h, b) :: set_bucket (hash k) (sremove key_eq k (bucket (hash k) m)) m))
          with (b ++ bentries (set_bucket (hash k) (sremove key_eq k (bucket (hash k) m)) m)).
        rewrite sremove_app_miss.
        * apply Permutation_app_head. apply IH. eapply bwf_tail; eassumption.
        * unfold smem. rewrite sfind_other_bucket; [reflexivity | ].
          intros k' v' Hin Hq. rewrite ((proj1 Hw) h b (or_introl eq_refl) k' v' Hin) in Hq. subst h.
          rewrite stream_eqb_refl in E. discriminate.
  Qed.
End Buckets.
