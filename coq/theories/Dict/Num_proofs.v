(* C09 proofs, numbers: num_total_eq is "same exact value (all NaNs alike)", hence an equivalence, and the
   repaired hash_num is a function of that exact value. *)
From Coq Require Import ZArith NArith QArith List Bool Lia.
From NV Require Import Dict.KeyEq Dict.KeyHash.
Import ListNotations.
Open Scope Z_scope.

(* ------------------------------------------------------------------ Q helpers *)
Lemma Qred_reduced : forall n d, Z.gcd n (Zpos d) = 1 -> Qred (n # d) = n # d.
Proof.
  intros n d Hg. unfold Qred.
  generalize (Z.ggcd_gcd n (Zpos d)) (Z.ggcd_correct_divisors n (Zpos d)).
  destruct (Z.ggcd n (Zpos d)) as [g [aa bb]]. cbn [fst snd]. intros Hgg [Ha Hb].
  rewrite Hg in Hgg. subst g. rewrite Z.mul_1_l in Ha, Hb. subst aa bb. reflexivity.
Qed.

Lemma Qred_int : forall z, Qred (z # 1) = z # 1.
Proof. intros. apply Qred_reduced. apply Z.gcd_1_r. Qed.

Lemma Qred_idem : forall q, Qred (Qred q) = Qred q.
Proof. intros. apply Qred_complete. apply Qred_correct. Qed.

Lemma Qred_eq_iff : forall p q, Qred p = Qred q <-> p == q.
Proof.
  intros. split; intro H.
  - rewrite <- (Qred_correct p), <- (Qred_correct q), H. reflexivity.
  - apply Qred_complete; assumption.
Qed.

Lemma Qeq_bool_Qred : forall p q, Qeq_bool p q = true <-> Qred p = Qred q.
Proof. intros. rewrite Qeq_bool_iff. symmetry. apply Qred_eq_iff. Qed.

Lemma Qeq_bool_comp_l : forall p p' q, p == p' -> Qeq_bool p q = Qeq_bool p' q.
Proof.
  intros p p' q H. destruct (Qeq_bool p q) eqn:E1, (Qeq_bool p' q) eqn:E2; try reflexivity.
  - apply Qeq_bool_iff in E1. assert (p' == q) by (rewrite <- H; exact E1).
    apply Qeq_bool_iff in H0. congruence.
  - apply Qeq_bool_iff in E2. assert (p == q) by (rewrite H; exact E2).
    apply Qeq_bool_iff in H0. congruence.
Qed.

(* ------------------------------------------------------------------ exact values *)
(* canonical exact value of a non-NaN real: an infinity or a rational in lowest terms *)
Inductive xc := XCInf (neg : bool) | XCQ (q : Q).

Definition xc_f (f : f64) : option xc :=
  match decode f with
  | FNaN => None
  | FInf s => Some (XCInf s)
  | FFin s m e => Some (XCQ (Qred (fin_q s m e)))
  end.

Definition xc_real (r : real) : option xc :=
  match r with
  | RInt z => Some (XCQ (Qred (z # 1)))
  | RRat q => Some (XCQ (Qred q))
  | RFloat f => xc_f f
  end.

Lemma exact_xc : forall r,
  match exact_to_rational r with
  | Some p => xc_real r = Some (XCQ (Qred p))
  | None => xc_real r = None \/ exists s, xc_real r = Some (XCInf s)
  end.
Proof.
  destruct r as [z | q | f]; cbn [exact_to_rational xc_real]; try reflexivity.
  unfold xc_f. destruct (decode f); auto. right. eauto.
Qed.

Lemma to_nint_xc : forall f,
  match to_nint_if_int f with
  | Some z => xc_f f = Some (XCQ (z # 1))
  | None => forall z, xc_f f <> Some (XCQ (z # 1))
  end.
Proof.
  intro f. unfold to_nint_if_int, xc_f. destruct (decode f) as [ | s | s m e]; try (intros; discriminate).
  destruct (Qred (fin_q s m e)) as [a d] eqn:E. cbn [Qden Qnum].
  destruct (Pos.eqb_spec d 1).
  - subst d. reflexivity.
  - intros z H. inversion H. congruence.
Qed.

Lemma f64_eq_xc : forall a b, f64_eq a b = true <-> exists x, xc_f a = Some x /\ xc_f b = Some x.
Proof.
  intros a b. unfold f64_eq, xc_f.
  destruct (decode a) as [ | s | s m e], (decode b) as [ | t | t n g];
    try (split; [discriminate | intros [x [H1 H2]]; congruence]).
  - rewrite eqb_true_iff. split.
    + intros ->. eauto.
    + intros [x [H1 H2]]. congruence.
  - rewrite Qeq_bool_Qred. split.
    + intros ->. eauto.
    + intros [x [H1 H2]]. congruence.
Qed.

Lemma generic_arm : forall a b,
  (exact_to_rational a <> None \/ exact_to_rational b <> None) ->
  (match exact_to_rational a, exact_to_rational b with
   | Some p, Some q => Qeq_bool p q
   | _, _ => false
   end = true <-> exists x, xc_real a = Some x /\ xc_real b = Some x).
Proof.
  intros a b Hsome. generalize (exact_xc a) (exact_xc b).
  destruct (exact_to_rational a) as [p | ], (exact_to_rational b) as [q | ]; intros Ha Hb.
  - rewrite Ha, Hb, Qeq_bool_Qred. split.
    + intros ->. eauto.
    + intros [x [H1 H2]]. congruence.
  - split; [discriminate | ]. intros [x [H1 H2]]. rewrite Ha in H1.
    destruct Hb as [Hb | [s Hb]]; rewrite Hb in H2; congruence.
  - split; [discriminate | ]. intros [x [H1 H2]]. rewrite Hb in H2.
    destruct Ha as [Ha | [s Ha]]; rewrite Ha in H1; congruence.
  - destruct Hsome; congruence.
Qed.

Lemma real_eq_xc : forall a b, real_eq a b = true <-> exists x, xc_real a = Some x /\ xc_real b = Some x.
Proof.
  intros a b.
  destruct a as [x | p | f], b as [y | q | g]; cbn [real_eq];
    try (apply generic_arm; cbn [exact_to_rational]; (left; discriminate) || (right; discriminate)).
  - (* int, int *)
    cbn [xc_real]. rewrite !Qred_int, Z.eqb_eq. split.
    + intros ->. eauto.
    + intros [z [H1 H2]]. congruence.
  - (* int, float *)
    cbn [xc_real]. rewrite Qred_int. generalize (to_nint_xc g). destruct (to_nint_if_int g) as [z | ]; intro H.
    + rewrite H, Z.eqb_eq. split.
      * intros ->. eauto.
      * intros [w [H1 H2]]. congruence.
    + split; [discriminate | ]. intros [w [H1 H2]]. exfalso. apply (H x). congruence.
  - (* float, int *)
    cbn [xc_real]. rewrite Qred_int. generalize (to_nint_xc f). destruct (to_nint_if_int f) as [z | ]; intro H.
    + rewrite H, Z.eqb_eq. split.
      * intros ->. eauto.
      * intros [w [H1 H2]]. congruence.
    + split; [discriminate | ]. intros [w [H1 H2]]. exfalso. apply (H y). congruence.
  - (* float, float *)
    cbn [xc_real]. apply f64_eq_xc.
Qed.

(* ------------------------------------------------------------------ the class of a number *)
Inductive ncls := CNaN | CVal (re im : xc).

Definition ncls_of (n : num) : ncls :=
  match xc_real (fst (project n)), xc_real (snd (project n)) with
  | Some a, Some b => CVal a b
  | _, _ => CNaN
  end.

Lemma xc_f_nan : forall f, xc_f f = None <-> f64_is_nan f = true.
Proof. intro f. unfold xc_f, f64_is_nan. destruct (decode f); split; congruence. Qed.

Lemma xc_zero : xc_f f64_zero = Some (XCQ (Qred (fin_q false 0 (-1074)))).
Proof. reflexivity. Qed.

Lemma is_nan_cls : forall n, num_is_nan n = true <-> ncls_of n = CNaN.
Proof.
  intro n. unfold ncls_of.
  destruct n as [z | q | f | re im]; cbn [project fst snd xc_real num_is_nan]; try rewrite xc_zero.
  - split; discriminate.
  - split; discriminate.
  - rewrite <- xc_f_nan. destruct (xc_f f); split; congruence.
  - rewrite orb_true_iff, <- !xc_f_nan. destruct (xc_f re), (xc_f im); split; try congruence; intuition congruence.
Qed.

Lemma num_eq_cls : forall a b,
  num_eq a b = true <-> exists x y, ncls_of a = CVal x y /\ ncls_of b = CVal x y.
Proof.
  intros a b. unfold num_eq, ncls_of. rewrite andb_true_iff, !real_eq_xc. split.
  - intros [[x [H1 H2]] [y [H3 H4]]]. exists x, y. rewrite H1, H2, H3, H4. auto.
  - intros [x [y [H1 H2]]].
    destruct (xc_real (fst (project a))), (xc_real (snd (project a))); try discriminate.
    destruct (xc_real (fst (project b))), (xc_real (snd (project b))); try discriminate.
    inversion H1; inversion H2; subst. split; eauto.
Qed.

Theorem num_total_eq_cls : forall a b, num_total_eq a b = true <-> ncls_of a = ncls_of b.
Proof.
  intros a b. unfold num_total_eq. rewrite orb_true_iff, andb_true_iff, num_eq_cls, !is_nan_cls. split.
  - intros [[x [y [H1 H2]]] | [H1 H2]]; congruence.
  - intro H. destruct (ncls_of a) as [ | x y] eqn:Ea.
    + right. auto.
    + left. exists x, y. auto.
Qed.

Theorem num_total_eq_refl : forall a, num_total_eq a a = true.
Proof. intro. apply num_total_eq_cls. reflexivity. Qed.
Theorem num_total_eq_sym : forall a b, num_total_eq a b = true -> num_total_eq b a = true.
Proof. intros a b. rewrite !num_total_eq_cls. auto. Qed.
Theorem num_total_eq_trans : forall a b c, num_total_eq a b = true -> num_total_eq b c = true -> num_total_eq a c = true.
Proof. intros a b c. rewrite !num_total_eq_cls. congruence. Qed.

(* ------------------------------------------------------------------ the hash is a function of the class *)
Definition inf_bits (s : bool) : N := f64_bits (F64 s 2047 0).

Definition hash_xc (x : xc) : list token :=
  match x with
  | XCInf s => [TU64 (inf_bits s)]
  | XCQ q => hash_rational q
  end.
Definition xc_is_zero (x : xc) : bool :=
  match x with XCQ q => Qeq_bool q (fin_q false 0 (-1074)) | XCInf _ => false end.
Definition hash_cls (c : ncls) : list token :=
  match c with
  | CNaN => [TU64 nan_hash]
  | CVal re im => hash_xc re ++ (if xc_is_zero im then [] else hash_xc im)
  end.

Lemma hash_rational_int : forall z, hash_rational (z # 1) = hash_bigint z.
Proof. intro. unfold hash_rational. cbn [Qnum Qden Pos.eqb]. apply app_nil_r. Qed.

Lemma hash_f64_xc : forall f x, xc_f f = Some x -> hash_f64 f = hash_xc x.
Proof.
  intros f x Hx. unfold hash_f64. generalize (to_nint_xc f). destruct (to_nint_if_int f) as [z | ]; intro H.
  - rewrite H in Hx. inversion Hx. subst x. cbn [hash_xc]. symmetry. apply hash_rational_int.
  - unfold xc_f in Hx. destruct f as [s ex fr]. unfold decode in *. cbn [fexp ffrac fsign] in *.
    destruct (N.eqb_spec ex 2047).
    + destruct (N.eqb_spec fr 0); [ | discriminate]. inversion Hx. subst. reflexivity.
    + destruct (ex =? 0)%N; inversion Hx; reflexivity.
Qed.

Lemma f64_eq_zero : forall f x, xc_f f = Some x -> f64_eq f f64_zero = xc_is_zero x.
Proof.
  intros f x Hx. unfold f64_eq, xc_f in *. change (decode f64_zero) with (FFin false 0 (-1074)).
  destruct (decode f) as [ | s | s m e]; inversion Hx; subst; cbn [xc_is_zero]; try reflexivity.
  apply Qeq_bool_comp_l. symmetry. apply Qred_correct.
Qed.

Lemma zero_is_zero : xc_is_zero (XCQ (Qred (fin_q false 0 (-1074)))) = true.
Proof. reflexivity. Qed.

Theorem hash_num_cls : forall n, wf_num n -> hash_num n = hash_cls (ncls_of n).
Proof.
  intros n Hwf. unfold hash_num. destruct (num_is_nan n) eqn:En.
  - apply is_nan_cls in En. rewrite En. reflexivity.
  - assert (Hc : ncls_of n <> CNaN) by (intro H; apply is_nan_cls in H; congruence).
    unfold ncls_of in *. destruct n as [z | q | f | re im]; cbn [project fst snd xc_real] in *.
    + rewrite xc_zero, Qred_int. cbn [hash_cls hash_xc]. rewrite zero_is_zero, app_nil_r. symmetry. apply hash_rational_int.
    + rewrite xc_zero. cbn [hash_cls hash_xc]. rewrite zero_is_zero, app_nil_r. cbn in Hwf. rewrite Hwf. reflexivity.
    + rewrite xc_zero in *. destruct (xc_f f) as [x | ] eqn:Ex; [ | congruence].
      cbn [hash_cls]. rewrite zero_is_zero, app_nil_r. apply hash_f64_xc; assumption.
    + destruct (xc_f re) as [x | ] eqn:Ex; [ | congruence]. destruct (xc_f im) as [y | ] eqn:Ey; [ | congruence].
      cbn [hash_cls]. rewrite (hash_f64_xc re x Ex), (f64_eq_zero im y Ey).
      destruct (xc_is_zero y); [reflexivity | ]. rewrite (hash_f64_xc im y Ey). reflexivity.
Qed.

Theorem hash_num_coherent : forall a b, wf_num a -> wf_num b -> num_total_eq a b = true -> hash_num a = hash_num b.
Proof.
  intros a b Ha Hb H. rewrite (hash_num_cls a Ha), (hash_num_cls b Hb).
  apply num_total_eq_cls in H. rewrite H. reflexivity.
Qed.

(* the hash before the repair was not coherent: the witnesses of finding F5 *)
Theorem old_hash_num_refuted :
  (num_total_eq (NInt 2) (NRat (2 # 1)) = true /\ old_hash_num (NInt 2) <> old_hash_num (NRat (2 # 1))) /\
  (num_total_eq (NRat (1 # 2)) (NFloat f_half) = true /\ old_hash_num (NRat (1 # 2)) <> old_hash_num (NFloat f_half)) /\
  (num_total_eq (NInt 1) (NComplex f_one f64_zero) = true /\ old_hash_num (NInt 1) <> old_hash_num (NComplex f_one f64_zero)) /\
  (num_total_eq (NFloat f_nan) (NComplex f_nan f_one) = true /\ old_hash_num (NFloat f_nan) <> old_hash_num (NComplex f_nan f_one)).
Proof. repeat split; try (vm_compute; reflexivity); vm_compute; discriminate. Qed.
