(* C09 model, part 1: dictionary keys and their equality.

   Transcribes  src/core.rs  ObjKey, total_eq_of_keys, total_eq_of_key_seqs (`Eq for ObjKey`),
                src/nnum.rs  NNumReal (eq), project_to_reals, `PartialEq for NNum`, is_nan, total_eq,
                             to_nint_if_int, exact_to_rational
                src/nint.rs  `PartialEq for NInt` (both representations denote a Z: equality of values).

   External crates are replaced by their mathematical meaning:
     BigInt ~ Z;  BigRational ~ Q (the crate keeps it in lowest terms: `wf_num`);
     f64 ~ its three bit fields, decoded to NaN / +-inf / (-1)^s * m * 2^e;  `==` on f64 is IEEE
     (NaN differs from everything, +0 = -0), `f == f.trunc()`, `to_bigint`, `BigRational::from_float`
     are exact.  No float arithmetic is needed for this property.
   Definitions and small examples only; proofs are in KeyEq_proofs.v. *)
From Coq Require Import ZArith NArith QArith List Bool.
Import ListNotations.
Open Scope Z_scope.

(* ------------------------------------------------------------------ f64 *)
Record f64 := F64 { fsign : bool; fexp : N; ffrac : N }.

Definition f64_bits (f : f64) : N :=
  ((if fsign f then 2 ^ 63 else 0) + fexp f * 2 ^ 52 + ffrac f)%N.

Inductive fdec := FNaN | FInf (neg : bool) | FFin (neg : bool) (m : N) (e : Z).

Definition decode (f : f64) : fdec :=
  if (fexp f =? 2047)%N then (if (ffrac f =? 0)%N then FInf (fsign f) else FNaN)
  else if (fexp f =? 0)%N then FFin (fsign f) (ffrac f) (-1074)
  else FFin (fsign f) (ffrac f + 2 ^ 52) (Z.of_N (fexp f) - 1075).

(* exact value of a finite float *)
Definition fin_q (neg : bool) (m : N) (e : Z) : Q :=
  let z := if neg then - Z.of_N m else Z.of_N m in
  if 0 <=? e then (z * 2 ^ e) # 1 else z # (Z.to_pos (2 ^ (- e))).

Definition f64_zero : f64 := F64 false 0 0.

(* ------------------------------------------------------------------ NNumReal *)
Inductive real := RInt (z : Z) | RRat (q : Q) | RFloat (f : f64).

(* fn to_nint_if_int(f): if f == f.trunc() { f.to_bigint() } else { None }
   NaN: the comparison fails; +-inf: to_bigint fails; finite: Some exactly when integral *)
Definition to_nint_if_int (f : f64) : option Z :=
  match decode f with
  | FFin s m e => let q := Qred (fin_q s m e) in
                  if (Qden q =? 1)%positive then Some (Qnum q) else None
  | _ => None
  end.

(* fn exact_to_rational: BigRational::from_float is None for NaN and infinities *)
Definition exact_to_rational (r : real) : option Q :=
  match r with
  | RInt z => Some (z # 1)
  | RRat q => Some q
  | RFloat f => match decode f with FFin s m e => Some (fin_q s m e) | _ => None end
  end.

(* IEEE == *)
Definition f64_eq (a b : f64) : bool :=
  match decode a, decode b with
  | FFin s m e, FFin t n g => Qeq_bool (fin_q s m e) (fin_q t n g)
  | FInf s, FInf t => Bool.eqb s t
  | _, _ => false
  end.

(* impl PartialEq for NNumReal *)
Definition real_eq (a b : real) : bool :=
  match a, b with
  | RInt x, RInt y => x =? y
  | RInt x, RFloat f => match to_nint_if_int f with Some z => z =? x | None => false end
  | RFloat f, RInt y => match to_nint_if_int f with Some z => z =? y | None => false end
  | RFloat f, RFloat g => f64_eq f g
  | _, _ => match exact_to_rational a, exact_to_rational b with
            | Some p, Some q => Qeq_bool p q
            | _, _ => false
            end
  end.

(* ------------------------------------------------------------------ NNum *)
Inductive num := NInt (z : Z) | NRat (q : Q) | NFloat (f : f64) | NComplex (re im : f64).

(* fn project_to_reals *)
Definition project (n : num) : real * real :=
  match n with
  | NInt z => (RInt z, RFloat f64_zero)
  | NRat q => (RRat q, RFloat f64_zero)
  | NFloat f => (RFloat f, RFloat f64_zero)
  | NComplex re im => (RFloat re, RFloat im)
  end.

(* impl PartialEq for NNum: the projections are compared as a pair *)
Definition num_eq (a b : num) : bool :=
  real_eq (fst (project a)) (fst (project b)) && real_eq (snd (project a)) (snd (project b)).

Definition f64_is_nan (f : f64) : bool := match decode f with FNaN => true | _ => false end.

(* fn is_nan *)
Definition num_is_nan (n : num) : bool :=
  match n with
  | NInt _ | NRat _ => false
  | NFloat f => f64_is_nan f
  | NComplex re im => f64_is_nan re || f64_is_nan im
  end.

(* fn total_eq, and the Num arm of total_eq_of_keys *)
Definition num_total_eq (a b : num) : bool := num_eq a b || (num_is_nan a && num_is_nan b).

(* invariants of the representations: BigRational is in lowest terms, the bit fields are in range *)
Definition wf_f64 (f : f64) : Prop := (fexp f < 2048)%N /\ (ffrac f < 2 ^ 52)%N.
Definition wf_num (n : num) : Prop :=
  match n with
  | NInt _ => True
  | NRat q => Qred q = q
  | NFloat f => wf_f64 f
  | NComplex re im => wf_f64 re /\ wf_f64 im
  end.

(* ------------------------------------------------------------------ keys *)
(* what check_if_valid_key accepts: null, numbers, strings (their bytes), lists of keys, dicts whose
   keys are keys and whose values are keys (the default is ignored by Eq and Hash), vectors, bytes *)
Inductive key :=
| KNull
| KNum (n : num)
| KStr (s : list N)
| KList (l : list key)
| KDict (d : list (key * key))
| KVec (v : list num)
| KBytes (b : list N).

Section Generic.
  Variables A B : Type.
  Variable f : A -> B -> bool.
  (* a.len() == b.len() && a.iter().zip(b.iter()).all(f) *)
  Fixpoint list_eqb (l : list A) (m : list B) : bool :=
    match l, m with
    | [], [] => true
    | x :: l', y :: m' => f x y && list_eqb l' m'
    | _, _ => false
    end.
End Generic.
Arguments list_eqb {A B} f l m.

Section Assoc.
  Variables K W : Type.
  Variable p : K -> bool.
  (* b.get(k): the first entry whose stored key satisfies p = "matches the probe k" *)
  Fixpoint afindp (e : list (K * W)) : option (K * W) :=
    match e with
    | [] => None
    | (k', w) :: r => if p k' then Some (k', w) else afindp r
    end.
End Assoc.
Arguments afindp {K W} p e.
Definition afind {K K' W} (eqk : K -> K' -> bool) (k : K) (e : list (K' * W)) : option (K' * W) :=
  afindp (eqk k) e.

Section DictEq.
  Variable eqk : key -> key -> bool.
  (* a.len() == b.len() && a.iter().all(|(k, v)| match b.get(k) { Some(vv) => eq(v, vv), None => false }) *)
  Definition dict_eqb (d e : list (key * key)) : bool :=
    Nat.eqb (length d) (length e) &&
    forallb (fun kv => match afind eqk (fst kv) e with
                       | Some (_, v') => eqk (snd kv) v'
                       | None => false
                       end) d.
End DictEq.

Definition bytes_eqb (a b : list N) : bool := list_eqb N.eqb a b.

(* fn total_eq_of_keys / total_eq_of_key_seqs.  Nested dict lookup `b.get(k)` is the entry of b whose
   key is Eq to k (DictMap.v shows the hashed lookup finds exactly that entry). *)
Fixpoint key_eq (a b : key) {struct a} : bool :=
  match a, b with
  | KNull, KNull => true
  | KNum x, KNum y => num_total_eq x y
  | KStr s, KStr t => bytes_eqb s t
  | KList l, KList m => list_eqb key_eq l m
  | KDict d, KDict e =>
      Nat.eqb (length d) (length e) &&
      forallb (fun kv => match afind key_eq (fst kv) e with
                         | Some (_, v') => key_eq (snd kv) v'
                         | None => false
                         end) d
  | KVec v, KVec w => list_eqb num_total_eq v w
  | KBytes s, KBytes t => bytes_eqb s t
  | _, _ => false
  end.

(* pairwise distinct stored keys: the HashMap invariant *)
Fixpoint nodupk {W} (eqk : key -> key -> bool) (d : list (key * W)) : Prop :=
  match d with
  | [] => True
  | (k, _) :: r => (forall k' w', In (k', w') r -> eqk k k' = false) /\ nodupk eqk r
  end.

Fixpoint wf_key (k : key) : Prop :=
  match k with
  | KNull => True
  | KNum n => wf_num n
  | KStr _ => True
  | KList l => (fix all (l : list key) : Prop := match l with [] => True | x :: r => wf_key x /\ all r end) l
  | KDict d => (fix all (d : list (key * key)) : Prop :=
                  match d with [] => True | (k, v) :: r => (wf_key k /\ wf_key v) /\ all r end) d
               /\ nodupk key_eq d
  | KVec v => Forall wf_num v
  | KBytes _ => True
  end.

(* ------------------------------------------------------------------ examples *)
Definition f_one := F64 false 1023 0.               (* 1.0 *)
Definition f_half := F64 false 1022 0.              (* 0.5 *)
Definition f_negzero := F64 true 0 0.               (* -0.0 *)
Definition f_nan := F64 false 2047 (2 ^ 51).        (* a quiet NaN *)
Definition f_inf := F64 false 2047 0.
Definition f_2p64 := F64 false (1023 + 64) 0.       (* 2.0^64 *)

Example ex_levels :
  key_eq (KNum (NInt 1)) (KNum (NFloat f_one)) = true /\
  key_eq (KNum (NRat (1 # 1))) (KNum (NComplex f_one f64_zero)) = true /\
  key_eq (KNum (NRat (1 # 2))) (KNum (NFloat f_half)) = true /\
  key_eq (KNum (NInt (2 ^ 64))) (KNum (NFloat f_2p64)) = true /\
  key_eq (KNum (NFloat f64_zero)) (KNum (NFloat f_negzero)) = true /\
  key_eq (KNum (NFloat f_nan)) (KNum (NComplex f_one f_nan)) = true /\
  key_eq (KNum (NInt 1)) (KNum (NFloat f_half)) = false /\
  key_eq (KNum (NFloat f_inf)) (KNum (NInt (2 ^ 64))) = false.
Proof. vm_compute. repeat split. Qed.

Example ex_nested :
  key_eq (KList [KNum (NInt 1); KDict [(KNum (NInt 2), KNull); (KStr [97%N], KNum (NFloat f_half))]])
         (KList [KNum (NFloat f_one); KDict [(KStr [97%N], KNum (NRat (1 # 2))); (KNum (NRat (2 # 1)), KNull)]]) = true.
Proof. vm_compute. reflexivity. Qed.
