(* C08 proofs, part 2: numbers of all four levels as (re, im) pairs; the order laws at the level
   of the language's operators. *)
From Coq Require Import ZArith NArith QArith Bool List Lia.
From NV Require Import Common.Outcome Common.MachineInt Num.FloatBits Num.FloatBits_proofs Num.Cmp Num.CmpSpec Num.Cmp_proofs.
Import ListNotations.
Open Scope Z_scope.

Theorem complex_as_pairs a b : nnum_partial_cmp a b = pair_cmp (num_val a) (num_val b).
Proof.
  unfold nnum_partial_cmp, num_val, pair_cmp.
  destruct (project_to_reals a) as [ra ia], (project_to_reals b) as [rb ib]. cbn [fst snd].
  now rewrite !cmp_is_exact.
Qed.

Lemma wf_project a : wf_num a -> wf_real (fst (project_to_reals a)) /\ wf_real (snd (project_to_reals a)).
Proof. destruct a; cbn; auto. Qed.

Lemma is_Eq_pair x y : is_Eq x && is_Eq y = is_Eq (match x with Some Eq => y | o => o end).
Proof. destruct x as [[]|]; cbn; try reflexivity. Qed.

Theorem num_eq_is_exact a b : wf_num a -> wf_num b ->
  nnum_eq a b = is_Eq (pair_cmp (num_val a) (num_val b)).
Proof.
  intros Wa Wb. apply wf_project in Wa, Wb. unfold nnum_eq, num_val, pair_cmp.
  destruct (project_to_reals a) as [ra ia], (project_to_reals b) as [rb ib]. cbn [fst snd] in *.
  rewrite !eq_is_exact by tauto.
  destruct (exact_cmp (real_val ra) (real_val rb)) as [[]|]; reflexivity.
Qed.

Lemma real_val_zero : exists q, real_val (RFloat zero_bits) = Some (Finite q) /\ q == 0.
Proof. eexists. split; [vm_compute; reflexivity|reflexivity]. Qed.

Lemma float_val_some f : f_is_nan f = false -> exists x, real_val (RFloat f) = Some x.
Proof.
  intros H. destruct (real_val (RFloat f)) eqn:E; [eauto|]. apply real_val_float_nan in E. congruence.
Qed.

Lemma num_ok_val n : nnum_is_nan n = false -> exists x y, num_val n = (Some x, Some y).
Proof.
  destruct real_val_zero as [z [Hz _]].
  destruct n as [i|q|f|re im]; unfold num_val; cbn [project_to_reals nnum_is_nan]; intros H.
  - rewrite Hz. cbn. eauto.
  - rewrite Hz. cbn. eauto.
  - destruct (float_val_some f H) as [x ->]. rewrite Hz. eauto.
  - apply orb_false_iff in H. destruct H as [H1 H2].
    destruct (float_val_some re H1) as [x ->], (float_val_some im H2) as [y ->]. eauto.
Qed.

Lemma total_num_compare : total_cmp num_compare.
Proof.
  unfold num_compare. apply (total_pullback num_key). apply total_lexc; apply total_ext_compare.
Qed.

(* on numbers without NaN the code's partial order is the exact total order *)
Theorem partial_cmp_is_num_compare a b : nnum_is_nan a = false -> nnum_is_nan b = false ->
  nnum_partial_cmp a b = Some (num_compare a b).
Proof.
  intros Ha Hb. rewrite complex_as_pairs. unfold num_compare, num_key, pair_cmp, lexc.
  destruct (num_ok_val a Ha) as [x1 [y1 ->]], (num_ok_val b Hb) as [x2 [y2 ->]]. cbn.
  destruct (ext_compare x1 x2); reflexivity.
Qed.

Theorem eq_is_num_compare a b : num_ok a -> num_ok b -> nnum_eq a b = is_eq (num_compare a b).
Proof.
  intros [Wa Ha] [Wb Hb]. rewrite num_eq_is_exact by assumption.
  rewrite <- complex_as_pairs, partial_cmp_is_num_compare by assumption.
  destruct (num_compare a b); reflexivity.
Qed.

(* ------------------------------------------------------------------ operators on numbers *)
Lemma ncmp_num a b : nnum_is_nan a = false -> nnum_is_nan b = false ->
  ncmp (ONum a) (ONum b) = Ok (num_compare a b).
Proof. intros Ha Hb. cbn. now rewrite partial_cmp_is_num_compare. Qed.

(* every operator, on numbers without NaN, is the corresponding test on the exact order *)
Theorem ops_are_exact a b : num_ok a -> num_ok b ->
  let c := num_compare a b in
  accept OpEq (ONum a) (ONum b) = Ok (is_eq c) /\
  accept OpNe (ONum a) (ONum b) = Ok (negb (is_eq c)) /\
  accept OpLt (ONum a) (ONum b) = Ok (is_lt c) /\
  accept OpGt (ONum a) (ONum b) = Ok (is_gt c) /\
  accept OpLe (ONum a) (ONum b) = Ok (negb (is_gt c)) /\
  accept OpGe (ONum a) (ONum b) = Ok (negb (is_lt c)) /\
  spaceship (ONum a) (ONum b) = Ok (int_of_cmp c) /\
  rev_spaceship (ONum a) (ONum b) = Ok (- int_of_cmp c).
Proof.
  intros Oa Ob c. pose proof (eq_is_num_compare a b Oa Ob) as E.
  destruct Oa as [_ Ha], Ob as [_ Hb].
  unfold accept, spaceship, rev_spaceship. rewrite (ncmp_num a b Ha Hb).
  cbn [obj_eq bind]. rewrite E. repeat split; reflexivity.
Qed.

Theorem trichotomy a b : num_ok a -> num_ok b ->
  let A := ONum a in let B := ONum b in
  (accept OpLt A B = Ok true /\ accept OpEq A B = Ok false /\ accept OpGt A B = Ok false) \/
  (accept OpLt A B = Ok false /\ accept OpEq A B = Ok true /\ accept OpGt A B = Ok false) \/
  (accept OpLt A B = Ok false /\ accept OpEq A B = Ok false /\ accept OpGt A B = Ok true).
Proof.
  intros Oa Ob A B. destruct (ops_are_exact a b Oa Ob) as (E & _ & L & G & _).
  unfold A, B. rewrite E, L, G. destruct (num_compare a b); cbn; tauto.
Qed.

Lemma ok_inj {A} (x y : A) : @Ok A x = Ok y -> x = y.
Proof. congruence. Qed.

Theorem eq_equivalence :
  (forall a, num_ok a -> accept OpEq (ONum a) (ONum a) = Ok true) /\
  (forall a b, num_ok a -> num_ok b ->
     accept OpEq (ONum a) (ONum b) = Ok true -> accept OpEq (ONum b) (ONum a) = Ok true) /\
  (forall a b c, num_ok a -> num_ok b -> num_ok c ->
     accept OpEq (ONum a) (ONum b) = Ok true -> accept OpEq (ONum b) (ONum c) = Ok true ->
     accept OpEq (ONum a) (ONum c) = Ok true).
Proof.
  pose proof total_num_compare as T. repeat split.
  - intros a Oa. destruct (ops_are_exact a a Oa Oa) as (E & _). rewrite E. now rewrite (tc_refl _ T).
  - intros a b Oa Ob. destruct (ops_are_exact a b Oa Ob) as (E & _), (ops_are_exact b a Ob Oa) as (E' & _).
    rewrite E, E'. intros H. apply ok_inj in H.
    destruct (num_compare a b) eqn:C; try discriminate. now rewrite (tc_eq_sym _ T a b C).
  - intros a b c Oa Ob Oc.
    destruct (ops_are_exact a b Oa Ob) as (E1 & _), (ops_are_exact b c Ob Oc) as (E2 & _), (ops_are_exact a c Oa Oc) as (E3 & _).
    rewrite E1, E2, E3. intros H1 H2. apply ok_inj in H1, H2.
    destruct (num_compare a b) eqn:C1; try discriminate. destruct (num_compare b c) eqn:C2; try discriminate.
    now rewrite (tc_eq_trans _ T a b c C1 C2).
Qed.

Theorem lt_transitive a b c : num_ok a -> num_ok b -> num_ok c ->
  accept OpLt (ONum a) (ONum b) = Ok true -> accept OpLt (ONum b) (ONum c) = Ok true ->
  accept OpLt (ONum a) (ONum c) = Ok true.
Proof.
  intros Oa Ob Oc.
  destruct (ops_are_exact a b Oa Ob) as (_ & _ & E1 & _), (ops_are_exact b c Ob Oc) as (_ & _ & E2 & _),
           (ops_are_exact a c Oa Oc) as (_ & _ & E3 & _).
  rewrite E1, E2, E3. intros H1 H2. apply ok_inj in H1, H2.
  destruct (num_compare a b) eqn:C1; try discriminate. destruct (num_compare b c) eqn:C2; try discriminate.
  now rewrite (tc_lt_trans _ total_num_compare a b c C1 C2).
Qed.

Theorem lt_respects_eq a b c : num_ok a -> num_ok b -> num_ok c ->
  accept OpEq (ONum a) (ONum b) = Ok true ->
  accept OpLt (ONum a) (ONum c) = accept OpLt (ONum b) (ONum c) /\
  accept OpLt (ONum c) (ONum a) = accept OpLt (ONum c) (ONum b).
Proof.
  intros Oa Ob Oc. pose proof total_num_compare as T.
  destruct (ops_are_exact a b Oa Ob) as (E & _).
  destruct (ops_are_exact a c Oa Oc) as (_ & _ & L1 & _), (ops_are_exact b c Ob Oc) as (_ & _ & L2 & _),
           (ops_are_exact c a Oc Oa) as (_ & _ & L3 & _), (ops_are_exact c b Oc Ob) as (_ & _ & L4 & _).
  rewrite E, L1, L2, L3, L4. intros H. apply ok_inj in H.
  destruct (num_compare a b) eqn:C; try discriminate.
  now rewrite (tc_eq_l _ T a b c C), (tc_eq_r _ T a b c C).
Qed.

Theorem spaceship_antisym a b : num_ok a -> num_ok b ->
  exists z, spaceship (ONum a) (ONum b) = Ok z /\ spaceship (ONum b) (ONum a) = Ok (- z) /\
            rev_spaceship (ONum a) (ONum b) = Ok (- z) /\ (z = -1 \/ z = 0 \/ z = 1).
Proof.
  intros Oa Ob.
  destruct (ops_are_exact a b Oa Ob) as (_ & _ & _ & _ & _ & _ & S1 & R1),
           (ops_are_exact b a Ob Oa) as (_ & _ & _ & _ & _ & _ & S2 & _).
  exists (int_of_cmp (num_compare a b)). rewrite S1, S2, R1.
  rewrite (tc_antisym _ total_num_compare a b). destruct (num_compare a b); cbn; repeat split; auto.
Qed.

(* a NaN anywhere the comparison looks makes every ordering operator raise, == false *)
Theorem nan_raises a b : nnum_partial_cmp a b = None ->
  ncmp (ONum a) (ONum b) = Err EType /\
  (forall op, op <> OpEq -> op <> OpNe -> accept op (ONum a) (ONum b) = Err EType) /\
  spaceship (ONum a) (ONum b) = Err EType.
Proof.
  intros H. assert (N : ncmp (ONum a) (ONum b) = Err EType) by (cbn; now rewrite H).
  repeat split; [exact N| |unfold spaceship; now rewrite N].
  intros [] H1 H2; try congruence; unfold accept; now rewrite N.
Qed.

(* ------------------------------------------------------------------ incomparable kinds *)
Theorem incomparable_raises a b :
  ordered_pair a b = false ->
  ncmp a b = Err EType /\
  accept OpLt a b = Err EType /\ accept OpGt a b = Err EType /\
  accept OpLe a b = Err EType /\ accept OpGe a b = Err EType /\
  spaceship a b = Err EType /\ rev_spaceship a b = Err EType /\
  builtin_min [a; b] = Err EType /\ builtin_max [a; b] = Err EType /\
  (* == and != never raise *)
  (exists e, accept OpEq a b = Ok e /\ accept OpNe a b = Ok (negb e)).
Proof.
  intros H.
  assert (N : ncmp a b = Err EType) by (destruct a, b; try discriminate; reflexivity).
  assert (N' : ncmp b a = Err EType) by (destruct a, b; try discriminate; reflexivity).
  unfold accept, spaceship, rev_spaceship, builtin_min, builtin_max, extremum_on. cbn [extremum_go].
  rewrite N, N'. repeat split; try reflexivity. eexists; split; reflexivity.
Qed.

Theorem ncmp_ok_only_ordered a b o : ncmp a b = Ok o -> ordered_pair a b = true.
Proof.
  intros H. destruct (ordered_pair a b) eqn:E; [reflexivity|].
  destruct (incomparable_raises a b E) as [N _]. congruence.
Qed.

(* ------------------------------------------------------------------ the two total orders of nnum.rs *)
Lemma f_is_nan_val f : f_is_nan f = match fval_ext (decode f) with None => true | Some _ => false end.
Proof. fprims. destruct (decode_dy f) as [|s|m e]; cbn; try reflexivity. Qed.

Lemma real_is_nan_val r : real_is_nan r = match real_val r with None => true | Some _ => false end.
Proof. destruct r; cbn [real_is_nan real_val]; try reflexivity. apply f_is_nan_val. Qed.

Lemma generic_arm_total (nanlt : bool) a b :
  exact_to_rational a <> None \/ exact_to_rational b <> None ->
  match exact_to_rational a, exact_to_rational b with
  | Some p, Some q => Qcompare p q
  | _, _ => then_cmp (if nanlt then bool_cmp (real_is_nan b) (real_is_nan a) else bool_cmp (real_is_nan a) (real_is_nan b))
                     (infinite_signum a ?= infinite_signum b)
  end = (if nanlt then small_nan_cmp else big_nan_cmp) (real_val a) (real_val b).
Proof.
  intros NN.
  pose proof (exact_to_rational_spec a) as Ha. pose proof (exact_to_rational_spec b) as Hb.
  destruct (exact_to_rational a) as [p|] eqn:Ea, (exact_to_rational b) as [q|] eqn:Eb.
  - rewrite Ha, Hb. destruct nanlt; reflexivity.
  - rewrite Ha, (exact_to_rational_signum a p Ea), (exact_to_rational_notnan a p Ea).
    destruct Hb as [[N V]|[[N [V S]]|[N [V S]]]]; rewrite N, V, ?S; destruct nanlt; reflexivity.
  - rewrite Hb, (exact_to_rational_signum b q Eb), (exact_to_rational_notnan b q Eb).
    destruct Ha as [[N V]|[[N [V S]]|[N [V S]]]]; rewrite N, V, ?S; destruct nanlt; reflexivity.
  - destruct NN; congruence.
Qed.

Theorem total_cmp_small_nan_exact a b :
  real_total_cmp_small_nan a b = small_nan_cmp (real_val a) (real_val b).
Proof.
  destruct a as [x|f|p], b as [y|g|q]; cbn [real_total_cmp_small_nan].
  - cbn. now rewrite nint_cmp_val, Qcompare_inject.
  - rewrite cmp_nint_f64_exact. cbn [real_val]. destruct (fval_ext (decode g)); reflexivity.
  - apply (generic_arm_total true (RInt x) (RRat q)). left; discriminate.
  - rewrite cmp_nint_f64_exact. cbn [real_val]. destruct (fval_ext (decode f)) as [e|]; cbn; [|reflexivity].
    symmetry. apply (tc_antisym _ total_ext_compare).
  - rewrite f_partial_cmp_exact, !f_is_nan_val. cbn [real_val].
    destruct (fval_ext (decode f)), (fval_ext (decode g)); reflexivity.
  - apply (generic_arm_total true (RFloat f) (RRat q)). right; discriminate.
  - apply (generic_arm_total true (RRat p) (RInt y)). left; discriminate.
  - apply (generic_arm_total true (RRat p) (RFloat g)). left; discriminate.
  - apply (generic_arm_total true (RRat p) (RRat q)). left; discriminate.
Qed.

Theorem total_cmp_big_nan_exact a b :
  real_total_cmp_big_nan a b = big_nan_cmp (real_val a) (real_val b).
Proof.
  destruct a as [x|f|p], b as [y|g|q]; cbn [real_total_cmp_big_nan].
  - cbn. now rewrite nint_cmp_val, Qcompare_inject.
  - rewrite cmp_nint_f64_exact. cbn [real_val]. destruct (fval_ext (decode g)); reflexivity.
  - apply (generic_arm_total false (RInt x) (RRat q)). left; discriminate.
  - rewrite cmp_nint_f64_exact. cbn [real_val]. destruct (fval_ext (decode f)) as [e|]; cbn; [|reflexivity].
    symmetry. apply (tc_antisym _ total_ext_compare).
  - rewrite f_partial_cmp_exact, !f_is_nan_val. cbn [real_val].
    destruct (fval_ext (decode f)), (fval_ext (decode g)); reflexivity.
  - apply (generic_arm_total false (RFloat f) (RRat q)). right; discriminate.
  - apply (generic_arm_total false (RRat p) (RInt y)). left; discriminate.
  - apply (generic_arm_total false (RRat p) (RFloat g)). left; discriminate.
  - apply (generic_arm_total false (RRat p) (RRat q)). left; discriminate.
Qed.

Lemma total_small_nan_cmp : total_cmp small_nan_cmp.
Proof.
  pose proof total_ext_compare as T. split.
  - intros [x|] [y|]; cbn; try reflexivity. apply (tc_antisym _ T).
  - intros [x|] [y|] [z|]; cbn; try reflexivity; try discriminate. apply (tc_eq_l _ T).
  - intros [x|] [y|] [z|]; cbn; try reflexivity; try discriminate. apply (tc_lt_trans _ T).
Qed.
Lemma total_big_nan_cmp : total_cmp big_nan_cmp.
Proof.
  pose proof total_ext_compare as T. split.
  - intros [x|] [y|]; cbn; try reflexivity. apply (tc_antisym _ T).
  - intros [x|] [y|] [z|]; cbn; try reflexivity; try discriminate. apply (tc_eq_l _ T).
  - intros [x|] [y|] [z|]; cbn; try reflexivity; try discriminate. apply (tc_lt_trans _ T).
Qed.

(* on NNum: lexicographic on (re, im) with NaN as the least / greatest value; genuinely total *)
Theorem nnum_total_cmp_exact a b :
  nnum_total_cmp_small_nan a b = lexc small_nan_cmp small_nan_cmp (num_val a) (num_val b) /\
  nnum_total_cmp_big_nan a b = lexc big_nan_cmp big_nan_cmp (num_val a) (num_val b).
Proof.
  unfold nnum_total_cmp_small_nan, nnum_total_cmp_big_nan, num_val, lexc, then_cmp.
  destruct (project_to_reals a) as [ra ia], (project_to_reals b) as [rb ib]. cbn [fst snd].
  rewrite !total_cmp_small_nan_exact, !total_cmp_big_nan_exact.
  split; [destruct (small_nan_cmp (real_val ra) (real_val rb))|destruct (big_nan_cmp (real_val ra) (real_val rb))]; reflexivity.
Qed.

Theorem nnum_total_cmps_total : total_cmp nnum_total_cmp_small_nan /\ total_cmp nnum_total_cmp_big_nan.
Proof.
  split.
  - assert (T : total_cmp (fun a b => lexc small_nan_cmp small_nan_cmp (num_val a) (num_val b)))
      by (apply (total_pullback num_val), total_lexc; apply total_small_nan_cmp).
    destruct T as [A B C]. split; intros; rewrite ?(proj1 (nnum_total_cmp_exact _ _)) in *; eauto.
  - assert (T : total_cmp (fun a b => lexc big_nan_cmp big_nan_cmp (num_val a) (num_val b)))
      by (apply (total_pullback num_val), total_lexc; apply total_big_nan_cmp).
    destruct T as [A B C]. split; intros; rewrite ?(proj2 (nnum_total_cmp_exact _ _)) in *; eauto.
Qed.

(* both extend the partial order *)
Theorem total_cmps_extend_partial a b o : nnum_partial_cmp a b = Some o ->
  nnum_total_cmp_small_nan a b = o /\ nnum_total_cmp_big_nan a b = o.
Proof.
  destruct (nnum_total_cmp_exact a b) as [-> ->]. rewrite complex_as_pairs.
  unfold pair_cmp, lexc. destruct (num_val a) as [x1 y1], (num_val b) as [x2 y2]; cbn.
  destruct x1 as [e1|], x2 as [e2|]; cbn; try discriminate.
  destruct (ext_compare e1 e2); try (intros [= <-]; split; reflexivity).
  destruct y1, y2; cbn; try discriminate. intros [= <-]; split; reflexivity.
Qed.

(* NNum::min / NNum::max: agree with the order; ties keep the left (min) / the right (max) argument;
   a real NaN loses against any non-NaN real *)
Theorem nnum_min_max_rules a b :
  (forall o, nnum_partial_cmp a b = Some o ->
     nnum_min a b = (match o with Gt => b | _ => a end) /\ nnum_max a b = (match o with Gt => a | _ => b end)) /\
  (forall f, a = NFloat f -> f_is_nan f = true -> nnum_is_nan b = false ->
     match b with NComplex _ _ => True | _ =>
       nnum_min a b = b /\ nnum_max a b = b /\ nnum_min b a = b /\ nnum_max b a = b end).
Proof.
  split.
  - intros o H. destruct (total_cmps_extend_partial a b o H) as [S B].
    unfold nnum_min, nnum_max. rewrite S, B. destruct o; split; reflexivity.
  - intros f -> Hf Hb.
    assert (Va : real_val (RFloat f) = None) by now apply real_val_float_nan.
    destruct real_val_zero as [z [Hz _]].
    assert (Vb : match b with NComplex _ _ => True | _ => exists x, fst (num_val b) = Some x end).
    { destruct b as [i|q|g|re im]; unfold num_val; cbn [project_to_reals fst real_val]; eauto.
      cbn [nnum_is_nan] in Hb. destruct (float_val_some g Hb) as [x Hx]. cbn [real_val] in Hx. eauto. }
    destruct b as [i|q|g|re im]; [| | |exact I]; destruct Vb as [x Vx];
      match goal with |- context [nnum_min (NFloat f) ?B] =>
        destruct (nnum_total_cmp_exact (NFloat f) B) as [S1 B1];
        destruct (nnum_total_cmp_exact B (NFloat f)) as [S2 B2] end;
      unfold num_val, lexc in *; cbn [project_to_reals fst snd] in *;
      rewrite Va, ?Hz, ?Vx in *; cbn [small_nan_cmp big_nan_cmp] in *;
      unfold nnum_min, nnum_max; rewrite S1, B1, S2, B2; repeat split; reflexivity.
Qed.
