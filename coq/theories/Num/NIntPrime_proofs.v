(* C06 proofs, part 2: lazy_is_prime (trial division by 2, 3, 6k-1, 6k+1 up to the truncated
   square root) decides primality in the sense of Coq's Znumtheory.prime; it never panics and
   fuel sqrt(n)+1 always suffices. *)
From Coq Require Import ZArith List Bool Lia Znumtheory.
From NV Require Import Common.Outcome Common.MachineInt Num.NInt Num.NInt_proofs.
Open Scope Z_scope.

Ltac Zify.zify_post_hook ::= Z.to_euclidean_division_equations.

Lemma rem_is_zero_spec n f : ok n -> ok f -> val f <> 0 ->
  rem_is_zero n f = Ok (Z.rem (val n) (val f) =? 0).
Proof.
  intros Hn Hf Hz. unfold rem_is_zero.
  destruct (proj1 (rem_exact n f Hn Hf) Hz) as (r & -> & _ & Hv). cbn [bind].
  now rewrite is_zero_spec, Hv.
Qed.

Lemma rem_zero_divide a b : b <> 0 -> (Z.rem a b =? 0) = true <-> (b | a).
Proof. intros Hb. rewrite Z.eqb_eq. now apply Z.rem_divide. Qed.

Lemma prime_of_no_small_divisor n :
  1 < n -> (forall d, 1 < d -> d * d <= n -> ~ (d | n)) -> prime n.
Proof.
  intros Hn H. destruct (prime_dec n) as [|Hnp]; [assumption|exfalso].
  destruct (not_prime_divide n Hn Hnp) as (d & Hd & q & Hq).
  assert (1 < q < n) by nia.
  destruct (Z_le_gt_dec d q).
  - apply (H d); [lia|nia|]. exists q. lia.
  - apply (H q); [lia|nia|]. exists d. lia.
Qed.

Lemma composite_not_prime n d : 1 < d < n -> (d | n) -> ~ prime n.
Proof.
  intros Hd Hdiv Hp. destruct (prime_divisors n Hp d Hdiv) as [|[|[|]]]; lia.
Qed.

Definition no_div_below (n f : Z) : Prop := forall d, 1 < d < f -> ~ (d | n).

Lemma even_divisor n d : (2 | d) -> (d | n) -> (2 | n).
Proof. intros. eapply Z.divide_trans; eassumption. Qed.

Lemma sqrt_bound n d : 0 <= n -> 1 < d -> d * d <= n -> d <= Z.sqrt n.
Proof.
  intros Hn Hd Hdd. rewrite <- (Z.sqrt_square d) by lia. now apply Z.sqrt_le_mono.
Qed.

Lemma prime_loop_S fuel n s f :
  prime_loop (S fuel) n s f =
  if gtb f s then Ok true else
  z1 <- rem_is_zero n f ;;
  if z1 then Ok false else
  let f2 := add f (Small 2) in
  if gtb f2 s then Ok true else
  z2 <- rem_is_zero n f2 ;;
  if z2 then Ok false else
  prime_loop fuel n s (add f2 (Small 4)).
Proof. reflexivity. Qed.

Lemma small_ok k : -100 <= k <= 100 -> ok (Small k).
Proof. cbn. unfold in_i64, i64_min, i64_max. lia. Qed.

Lemma prime_loop_spec fuel : forall n s f,
  ok n -> ok s -> ok f -> 3 < val n -> val s = Z.sqrt (val n) ->
  5 <= val f -> val f mod 6 = 5 ->
  ~ (2 | val n) -> ~ (3 | val n) -> no_div_below (val n) (val f) ->
  prime_loop fuel n s f = OutOfFuel \/
  exists r, prime_loop fuel n s f = Ok r /\ (r = true <-> prime (val n)).
Proof.
  induction fuel as [|fuel IH]; intros n s f Hn Hs Hf Hn3 Hsq Hf5 Hmod H2 H3 Hinv; [left; reflexivity|].
  rewrite prime_loop_S.
  assert (Hprime : forall g, no_div_below (val n) g -> val s < g -> prime (val n)).
  { intros g Hg Hlt. apply prime_of_no_small_divisor; [lia|].
    intros d Hd Hdd. apply Hg. pose proof (sqrt_bound (val n) d ltac:(lia) Hd Hdd). lia. }
  assert (Hcomp : forall g, 1 < g -> g <= val s -> (g | val n) -> ~ prime (val n)).
  { intros g Hg Hle Hdiv. apply (composite_not_prime (val n) g); [|exact Hdiv].
    pose proof (Z.sqrt_spec (val n) ltac:(lia)) as Hs2. cbv zeta in Hs2. rewrite <- Hsq in Hs2.
    assert (g * g <= val s * val s) by (apply Z.mul_le_mono_nonneg; lia).
    assert (g * 2 <= g * g) by (apply Z.mul_le_mono_nonneg_l; lia). lia. }
  rewrite gtb_exact. destruct (Z.gtb_spec (val f) (val s)) as [Hgt|Hle].
  { right. exists true. split; [reflexivity|]. split; [intros _|reflexivity]. apply (Hprime (val f)); [exact Hinv|lia]. }
  rewrite rem_is_zero_spec by (try assumption; lia). cbn [bind].
  destruct (Z.rem (val n) (val f) =? 0) eqn:E1.
  { right. exists false. split; [reflexivity|]. split; [discriminate|]. intros Hp. exfalso.
    apply rem_zero_divide in E1; [|lia]. exact (Hcomp (val f) ltac:(lia) Hle E1 Hp). }
  assert (Hnd1 : ~ (val f | val n)).
  { intros Hd. apply rem_zero_divide in Hd; [|lia]. congruence. }
  destruct (add_exact f (Small 2) Hf (small_ok 2 ltac:(lia))) as [Hf2 Hv2]. cbn [val] in Hv2.
  cbv zeta. set (f2 := add f (Small 2)) in *.
  assert (Hinv2 : no_div_below (val n) (val f2)).
  { intros d Hd Hdiv. rewrite Hv2 in Hd.
    destruct (Z_lt_le_dec d (val f)) as [Hlt|Hge]; [apply (Hinv d); [lia|exact Hdiv]|].
    destruct (Z.eq_dec d (val f)) as [->|Hne]; [exact (Hnd1 Hdiv)|].
    assert (d = val f + 1) as -> by lia.
    apply H2. apply (even_divisor _ (val f + 1)); [|exact Hdiv]. exists ((val f + 1) / 2). lia. }
  rewrite gtb_exact. destruct (Z.gtb_spec (val f2) (val s)) as [Hgt2|Hle2].
  { right. exists true. split; [reflexivity|]. split; [intros _|reflexivity]. apply (Hprime (val f2)); [exact Hinv2|lia]. }
  rewrite rem_is_zero_spec by (try assumption; lia). cbn [bind].
  destruct (Z.rem (val n) (val f2) =? 0) eqn:E2.
  { right. exists false. split; [reflexivity|]. split; [discriminate|]. intros Hp. exfalso.
    apply rem_zero_divide in E2; [|lia]. exact (Hcomp (val f2) ltac:(lia) Hle2 E2 Hp). }
  assert (Hnd2 : ~ (val f2 | val n)).
  { intros Hd. apply rem_zero_divide in Hd; [|lia]. congruence. }
  destruct (add_exact f2 (Small 4) Hf2 (small_ok 4 ltac:(lia))) as [Hf6 Hv6]. cbn [val] in Hv6.
  apply IH; try assumption; try lia.
  intros d Hd Hdiv. rewrite Hv6, Hv2 in Hd.
  destruct (Z_lt_le_dec d (val f2)) as [Hlt|Hge]; [apply (Hinv2 d); [lia|exact Hdiv]|].
  destruct (Z.eq_dec d (val f2)) as [->|Hne]; [exact (Hnd2 Hdiv)|].
  rewrite Hv2 in Hge, Hne.
  assert (d = val f + 3 \/ d = val f + 4 \/ d = val f + 5) as [->|[->| ->]] by lia.
  - apply H2. apply (even_divisor _ (val f + 3)); [|exact Hdiv]. exists ((val f + 3) / 2). lia.
  - apply H3. apply (Z.divide_trans _ (val f + 4)); [|exact Hdiv]. exists ((val f + 4) / 3). lia.
  - apply H2. apply (even_divisor _ (val f + 5)); [|exact Hdiv]. exists ((val f + 5) / 2). lia.
Qed.

Lemma rem_is_zero_not_fuel n f : rem_is_zero n f <> OutOfFuel.
Proof.
  unfold rem_is_zero, rem, binary_checked_p, big_rem.
  destruct n as [x|x], f as [y|y]; cbn [to_bigint val];
    try destruct (checked_rem x y); try destruct (y =? 0); cbn; discriminate.
Qed.

Lemma prime_loop_fuel fuel : forall n s f,
  ok f -> val s - val f < 6 * Z.of_nat fuel -> prime_loop (S fuel) n s f <> OutOfFuel.
Proof.
  induction fuel as [|fuel IH]; intros n s f Hf Hlt; rewrite prime_loop_S.
  - rewrite gtb_exact. destruct (Z.gtb_spec (val f) (val s)); [discriminate|lia].
  - rewrite gtb_exact. destruct (Z.gtb_spec (val f) (val s)); [discriminate|].
    pose proof (rem_is_zero_not_fuel n f) as NF1.
    destruct (rem_is_zero n f) as [[]| | |]; cbn [bind]; try discriminate; try contradiction.
    cbv zeta.
    destruct (add_exact f (Small 2) Hf (small_ok 2 ltac:(lia))) as [Hf2 Hv2]. cbn [val] in Hv2.
    destruct (gtb (add f (Small 2)) s); [discriminate|].
    pose proof (rem_is_zero_not_fuel n (add f (Small 2))) as NF2.
    destruct (rem_is_zero n (add f (Small 2))) as [[]| | |]; cbn [bind]; try discriminate; try contradiction.
    destruct (add_exact (add f (Small 2)) (Small 4) Hf2 (small_ok 4 ltac:(lia))) as [Hf6 Hv6]. cbn [val] in Hv6.
    apply IH; [exact Hf6|]. lia.
Qed.

Lemma lazy_is_prime_spec fuel n : ok n ->
  lazy_is_prime fuel n = OutOfFuel \/
  exists b, lazy_is_prime fuel n = Ok b /\ (b = true <-> prime (val n)).
Proof.
  intros Hn. unfold lazy_is_prime. rewrite !lte_exact.
  destruct (Z.leb_spec (val n) 1) as [H1|H1].
  { right. exists false. split; [reflexivity|]. split; [discriminate|]. intros Hp. apply prime_ge_2 in Hp. lia. }
  destruct (Z.leb_spec (val n) 3) as [H3|H3].
  { right. exists true. split; [reflexivity|]. split; [intros _|reflexivity].
    assert (val n = 2 \/ val n = 3) as [->| ->] by lia; [exact prime_2|exact prime_3]. }
  rewrite rem_is_zero_spec by (try assumption; try (apply small_ok; lia); cbn; lia). cbn [bind val].
  destruct (Z.rem (val n) 2 =? 0) eqn:E2.
  { right. exists false. split; [reflexivity|]. split; [discriminate|]. intros Hp. exfalso.
    apply rem_zero_divide in E2; [|lia]. exact (composite_not_prime (val n) 2 ltac:(lia) E2 Hp). }
  rewrite rem_is_zero_spec by (try assumption; try (apply small_ok; lia); cbn; lia). cbn [bind val].
  destruct (Z.rem (val n) 3 =? 0) eqn:E3.
  { right. exists false. split; [reflexivity|]. split; [discriminate|]. intros Hp. exfalso.
    apply rem_zero_divide in E3; [|lia]. exact (composite_not_prime (val n) 3 ltac:(lia) E3 Hp). }
  assert (N2 : ~ (2 | val n)). { intros Hd. apply rem_zero_divide in Hd; [|lia]. congruence. }
  assert (N3 : ~ (3 | val n)). { intros Hd. apply rem_zero_divide in Hd; [|lia]. congruence. }
  unfold sqrt, big_sqrt, to_bigint. destruct (Z.ltb_spec (val n) 0); [lia|]. cbn [omap bind].
  apply prime_loop_spec; try assumption; try exact I; try (apply small_ok; lia); try reflexivity; cbn [val]; try lia.
  intros d Hd Hdiv.
  assert (d = 2 \/ d = 3 \/ d = 4) as [->|[->| ->]] by lia; [exact (N2 Hdiv)|exact (N3 Hdiv)|].
  apply N2. apply (even_divisor _ 4); [exists 2; reflexivity|exact Hdiv].
Qed.

Theorem lazy_is_prime_correct fuel n b : ok n ->
  lazy_is_prime fuel n = Ok b -> (b = true <-> prime (val n)).
Proof.
  intros Hn E. destruct (lazy_is_prime_spec fuel n Hn) as [H|(b' & H & Hb)]; rewrite H in E; [discriminate|].
  inversion E; subst. exact Hb.
Qed.

Theorem lazy_is_prime_total n : ok n ->
  exists b, lazy_is_prime (prime_fuel n) n = Ok b /\ (b = true <-> prime (val n)).
Proof.
  intros Hn. destruct (lazy_is_prime_spec (prime_fuel n) n Hn) as [H|H]; [exfalso|exact H].
  revert H. unfold lazy_is_prime, prime_fuel. rewrite !lte_exact.
  destruct (val n <=? 1); [discriminate|]. destruct (Z.leb_spec (val n) 3); [discriminate|].
  pose proof (rem_is_zero_not_fuel n (Small 2)) as NF2.
  destruct (rem_is_zero n (Small 2)) as [[]| | |]; cbn [bind]; try discriminate; try contradiction.
  pose proof (rem_is_zero_not_fuel n (Small 3)) as NF3.
  destruct (rem_is_zero n (Small 3)) as [[]| | |]; cbn [bind]; try discriminate; try contradiction.
  unfold sqrt, big_sqrt, to_bigint. destruct (Z.ltb_spec (val n) 0); [lia|]. cbn [omap bind].
  apply prime_loop_fuel; [apply small_ok; lia|]. cbn [val].
  pose proof (Z.sqrt_nonneg (val n)). lia.
Qed.

Theorem lazy_is_prime_no_panic fuel n : ok n -> lazy_is_prime fuel n <> Panic.
Proof.
  intros Hn. destruct (lazy_is_prime_spec fuel n Hn) as [H|(b & H & _)]; rewrite H; discriminate.
Qed.
