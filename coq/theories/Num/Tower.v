(* C07 model: the numeric tower of /repo/src/nnum.rs (NNum), the arithmetic builtins of
   /repo/src/lib.rs that sit on it, the int()/rational()/float() conversions of
   /repo/src/core.rs (call_type1) and the vectorisation wrappers expect_nums_and_vectorize_*.

   Representation choices:
     NInt (i64-or-BigInt)   |->  Z        (the representation is C06's business)
     BigRational            |->  Q, kept in lowest terms (Qred); the denominator is a `positive`
     f64                    |->  its 64-bit pattern (N).  Decoding (sign/exponent/mantissa -> exact Q),
                                 integrality, floor/ceil/round/trunc, zero test and negation are concrete;
                                 float *arithmetic* and the exact->float conversions are fields of
                                 the abstract record [float_ops] (every theorem quantifies over it).
     Complex64              |->  a pair of bit patterns; arithmetic abstract (fields of [float_ops]).
   Rust panics are the outcome [Panic].  Definitions only; proofs are in Tower_proofs.v. *)
From Coq Require Import ZArith NArith QArith Qabs Qround Qreduction List Bool.
From NV Require Import Common.Outcome.
Import ListNotations.
Open Scope Z_scope.

Definition bits := N.
Record cplx := mkC { cre : bits; cim : bits }.

Inductive nnum := NI (z : Z) | NR (q : Q) | NF (f : bits) | NC (c : cplx).

(* int < rational < float < complex *)
Definition level (x : nnum) : nat :=
  match x with NI _ => 0 | NR _ => 1 | NF _ => 2 | NC _ => 3 end%nat.

(* ------------------------------------------------------------------ f64 bit patterns *)
Definition f_sign (b : bits) : bool := N.testbit b 63.
Definition f_exp (b : bits) : N := N.land (N.shiftr b 52) 2047.
Definition f_man (b : bits) : N := N.land b (N.ones 52).

Inductive fclass := FNaN | FInf (neg : bool) | FFin (q : Q).

(* m * 2^e as a fraction in lowest terms *)
Definition scale2 (m e : Z) : Q :=
  if 0 <=? e then inject_Z (m * 2 ^ e) else Qred (m # (2 ^ Z.to_pos (- e))).

Definition fdecode (b : bits) : fclass :=
  let e := f_exp b in
  let m := f_man b in
  if N.eqb e 2047 then (if N.eqb m 0 then FInf (f_sign b) else FNaN)
  else
    let mz := Z.of_N (if N.eqb e 0 then m else m + 2 ^ 52)%N in
    let ex := if N.eqb e 0 then -1074 else Z.of_N e - 1075 in
    FFin (scale2 (if f_sign b then - mz else mz) ex).

Definition f_pos_zero : bits := 0%N.
Definition f_neg (b : bits) : bits := N.lxor b (2 ^ 63)%N.       (* -f flips the sign bit, NaN included *)
Definition f_abs (b : bits) : bits := N.land b (N.ones 63).
(* `*f != 0.0`: false for +0.0 and -0.0, true for NaN *)
Definition f_nonzero (b : bits) : bool :=
  match fdecode b with FFin q => negb (Qnum q =? 0) | _ => true end.

(* ------------------------------------------------------------------ abstract float arithmetic *)
Record float_ops := {
  z2f : Z -> bits;                         (* nint_to_f64_or_inf *)
  q2f : Q -> bits;                         (* rational_to_f64_or_inf *)
  fadd : bits -> bits -> bits;
  fsub : bits -> bits -> bits;
  fmul : bits -> bits -> bits;
  fdiv : bits -> bits -> bits;
  frem : bits -> bits -> bits;             (* f64 % f64 *)
  fdiv_euclid : bits -> bits -> bits;      (* f64::div_euclid *)
  frem_euclid : bits -> bits -> bits;      (* f64::rem_euclid *)
  cadd : cplx -> cplx -> cplx;
  csub : cplx -> cplx -> cplx;
  cmul : cplx -> cplx -> cplx;
  cdiv : cplx -> cplx -> cplx;
  crem : cplx -> cplx -> cplx;             (* Complex64 % Complex64 *)
  cdiv_floor : cplx -> cplx -> cplx;       (* dumb_complex_div_floor *)
  c_div_f : cplx -> bits -> cplx;          (* Complex64 / f64 *)
  f_div_c : bits -> cplx -> cplx;          (* f64 / Complex64 *)
  cnorm : cplx -> bits;                    (* Complex64::norm *)
  (* exponentiation away from the exact levels: may answer Float or Complex *)
  powf_pd : bits -> bits -> nnum;          (* powf_pdnum *)
  powif_pd : bits -> Z -> nnum;            (* powif_pdnum *)
  cpowf : cplx -> bits -> cplx;            (* Complex64::powf *)
  cpowif : cplx -> Z -> cplx;              (* PowIF::powif for Complex64 *)
  cpowc : cplx -> cplx -> cplx             (* Complex64::pow(Complex64) *)
}.

(* ------------------------------------------------------------------ rationals (num-rational) *)
Definition qnum_den (q : Q) : Z * Z := (Qnum q, Zpos (Qden q)).
Definition rat_is_zero (q : Q) : bool := Qnum q =? 0.

(* Ratio::floor/ceil/trunc/round, followed by to_integer; BigInt `/` and `%` truncate (Z.quot, Z.rem) *)
Definition rat_floor (q : Q) : Z :=
  let '(n, d) := qnum_den q in
  if n <? 0 then Z.quot (n - d + 1) d else Z.quot n d.
Definition rat_ceil (q : Q) : Z :=
  let '(n, d) := qnum_den q in
  if n <? 0 then Z.quot n d else Z.quot (n + d - 1) d.
Definition rat_trunc (q : Q) : Z :=
  let '(n, d) := qnum_den q in Z.quot n d.
Definition rat_round (q : Q) : Z :=
  let '(n, d) := qnum_den q in
  let fn := Z.abs (Z.rem n d) in                     (* |fract| has numerator |n rem d| over d *)
  let half_or_larger :=
    if Z.even d then Z.quot d 2 <=? fn else Z.quot d 2 + 1 <=? fn in
  if half_or_larger then (if 0 <=? n then Z.quot n d + 1 else Z.quot n d - 1) else Z.quot n d.

(* + - * / : the crate computes the exact result and reduces it (Ratio::new) *)
Definition rat_add (a b : Q) : Q := Qred (Qplus a b).
Definition rat_sub (a b : Q) : Q := Qred (Qminus a b).
Definition rat_mul (a b : Q) : Q := Qred (Qmult a b).
Definition rat_neg (a : Q) : Q := Qopp a.
Definition rat_abs (a : Q) : Q := Qabs a.
(* Ratio::new panics on a zero denominator *)
Definition rat_div (a b : Q) : outcome Q :=
  if rat_is_zero b then Panic else Ok (Qred (Qdiv a b)).
(* arith_impl!(Rem): numerators over a common denominator, BigInt % (truncating; panics on zero) *)
Definition rat_rem (a b : Q) : outcome Q :=
  let x := Qnum a * Zpos (Qden b) in
  let y := Qnum b * Zpos (Qden a) in
  if y =? 0 then Panic else Ok (Qred (Z.rem x y # (Qden a * Qden b))).
(* dumb_rational_div_floor: (a / b).floor() *)
Definition rat_div_floor (a b : Q) : outcome Q :=
  q <- rat_div a b ;; Ok (inject_Z (rat_floor q)).
(* rational mod_floor.  ORIGINAL code: Rem::rem (the truncating remainder above) -- defect F6.
   Repaired code (fix: commit in /repo): a - b * (a / b).floor() *)
Definition rat_mod_floor_original (a b : Q) : outcome Q := rat_rem a b.
Definition rat_mod_floor (a b : Q) : outcome Q :=
  q <- rat_div a b ;; Ok (Qred (Qminus a (Qmult b (inject_Z (rat_floor q))))).

(* Pow<&BigUint> for &Ratio: new_raw(numer^e, denom^e) -- not re-reduced *)
Definition rat_pow_pos (a : Q) (e : positive) : Q := (Qnum a ^ Zpos e) # (Qden a ^ e).

(* ------------------------------------------------------------------ integers (NInt / BigInt) *)
Definition int_rem (a b : Z) : outcome Z := if b =? 0 then Panic else Ok (Z.rem a b).
Definition int_div_floor (a b : Z) : outcome Z := if b =? 0 then Panic else Ok (Z.div a b).
Definition int_mod_floor (a b : Z) : outcome Z := if b =? 0 then Panic else Ok (Z.modulo a b).

(* ------------------------------------------------------------------ conversions used by the dispatch *)
Definition of_f (f : bits) : cplx := mkC f f_pos_zero.          (* Complex64::from(f64) *)

(* to_f64_or_inf_or_complex *)
Definition to_f_or_c (F : float_ops) (x : nnum) : bits + cplx :=
  match x with
  | NI z => inl (z2f F z)
  | NR q => inl (q2f F q)
  | NF f => inl f
  | NC c => inr c
  end.
(* to_complex_or_inf *)
Definition to_c (F : float_ops) (x : nnum) : cplx :=
  match to_f_or_c F x with inl f => of_f f | inr c => c end.
(* to_rational *)
Definition to_rational (x : nnum) : option Q :=
  match x with NI z => Some (inject_Z z) | NR q => Some q | _ => None end.

(* is_nonzero *)
Definition is_nonzero (x : nnum) : bool :=
  match x with
  | NI z => negb (z =? 0)
  | NR q => negb (rat_is_zero q)
  | NF f => f_nonzero f
  | NC c => f_nonzero (cre c) || f_nonzero (cim c)
  end.

(* ------------------------------------------------------------------ binary_match! *)
(* The arms in source order.  `.expect("complex not elim")` cannot fire: a Complex operand is
   consumed by the first two arms; the model makes that arm a Panic so the claim is proved, not assumed. *)
Definition binary_match (F : float_ops)
    (fi : Z -> Z -> outcome Z) (fr : Q -> Q -> outcome Q)
    (ff : bits -> bits -> bits) (fc : cplx -> cplx -> cplx) (a b : nnum) : outcome nnum :=
  match a, b with
  | NC za, _ => Ok (NC (fc za (to_c F b)))
  | _, NC zb => Ok (NC (fc (to_c F a) zb))
  | NF fa, _ => match to_f_or_c F b with inl fb => Ok (NF (ff fa fb)) | inr _ => Panic end
  | _, NF fb => match to_f_or_c F a with inl fa => Ok (NF (ff fa fb)) | inr _ => Panic end
  | NR ra, NR rb => omap NR (fr ra rb)
  | NR ra, NI ib => omap NR (fr ra (inject_Z ib))
  | NI ia, NR rb => omap NR (fr (inject_Z ia) rb)
  | NI ia, NI ib => omap NI (fi ia ib)
  end.

Definition tot {A B C} (f : A -> B -> C) : A -> B -> outcome C := fun a b => Ok (f a b).

(* impl_binary_method_4!(Add/Sub/Mul/Rem ...), div_floor, mod_floor *)
Definition num_add F := binary_match F (tot Z.add) (tot rat_add) (fadd F) (cadd F).
Definition num_sub F := binary_match F (tot Z.sub) (tot rat_sub) (fsub F) (csub F).
Definition num_mul F := binary_match F (tot Z.mul) (tot rat_mul) (fmul F) (cmul F).
Definition num_rem F := binary_match F int_rem rat_rem (frem F) (crem F).
Definition num_div_floor F := binary_match F int_div_floor rat_div_floor (fdiv_euclid F) (cdiv_floor F).
Definition num_mod_floor_original F := binary_match F int_mod_floor rat_mod_floor_original (frem_euclid F) (crem F).
Definition num_mod_floor F := binary_match F int_mod_floor rat_mod_floor (frem_euclid F) (crem F).

(* impl Div<&NNum> for &NNum: exact when both sides are exact and the divisor is not zero,
   otherwise carried out on floats / complex *)
Definition num_div_fallback (F : float_ops) (a b : nnum) : nnum :=
  match to_f_or_c F a, to_f_or_c F b with
  | inl fa, inl fb => NF (fdiv F fa fb)
  | inr za, inl fb => NC (c_div_f F za fb)
  | inl fa, inr zb => NC (f_div_c F fa zb)
  | inr za, inr zb => NC (cdiv F za zb)
  end.
Definition num_div (F : float_ops) (a b : nnum) : outcome nnum :=
  match to_rational a, to_rational b with
  | Some qa, Some qb =>
      if negb (rat_is_zero qb) then omap NR (rat_div qa qb) else Ok (num_div_fallback F a b)
  | _, _ => Ok (num_div_fallback F a b)
  end.

(* Neg, abs *)
Definition num_neg (x : nnum) : nnum :=
  match x with
  | NI z => NI (- z) | NR q => NR (rat_neg q) | NF f => NF (f_neg f)
  | NC c => NC (mkC (f_neg (cre c)) (f_neg (cim c)))
  end.
Definition num_abs (F : float_ops) (x : nnum) : nnum :=
  match x with
  | NI z => NI (Z.abs z) | NR q => NR (rat_abs q) | NF f => NF (f_abs f) | NC c => NF (cnorm F c)
  end.

(* ------------------------------------------------------------------ pow_num *)
(* ORIGINAL pow_big_ints: BigRational::from(a^|b|).recip(), which panics on zero -- defect F10.
   ORIGINAL (Rational, Int) arm: Pow::pow(&ratio, &BigInt), whose negative branch is into_recip -- same panic. *)
Definition recip_original (q : Q) : outcome Q := if rat_is_zero q then Panic else Ok (Qinv q).
Definition pow_big_ints_original (a b : Z) : outcome nnum :=
  match b with
  | Z0 => Ok (NI 1)
  | Zpos e => Ok (NI (a ^ Zpos e))
  | Zneg e => omap NR (recip_original (inject_Z (a ^ Zpos e)))
  end.
Definition rat_pow_int_original (a : Q) (b : Z) : outcome nnum :=
  match b with
  | Z0 => Ok (NR 1%Q)
  | Zpos e => Ok (NR (rat_pow_pos a e))
  | Zneg e => omap NR (recip_original (rat_pow_pos a e))
  end.
(* Repaired code: the reciprocal is taken by NNum's own `/` (1 / a^|b|), so a zero base
   gets the same float fallback as 1/0. *)
Definition pow_big_ints (F : float_ops) (a b : Z) : outcome nnum :=
  match b with
  | Z0 => Ok (NI 1)
  | Zpos e => Ok (NI (a ^ Zpos e))
  | Zneg e => num_div F (NI 1) (NI (a ^ Zpos e))
  end.
Definition rat_pow_int (F : float_ops) (a : Q) (b : Z) : outcome nnum :=
  match b with
  | Z0 => Ok (NR 1%Q)
  | Zpos e => Ok (NR (rat_pow_pos a e))
  | Zneg e => num_div F (NI 1) (NR (rat_pow_pos a e))
  end.

Definition to_f_total (F : float_ops) (x : nnum) : bits :=
  match to_f_or_c F x with inl f => f | inr c => cre c end.

Definition pow_num_gen (F : float_ops)
    (pii : Z -> Z -> outcome nnum) (pri : Q -> Z -> outcome nnum) (a b : nnum) : outcome nnum :=
  match a, b with
  | NI x, NI y => pii x y
  | NI x, NR y => Ok (powf_pd F (z2f F x) (q2f F y))
  | NI x, NF y => Ok (powf_pd F (z2f F x) y)
  | NR x, NI y => pri x y
  | NR x, NR y => Ok (powf_pd F (q2f F x) (q2f F y))
  | NR x, NF y => Ok (powf_pd F (q2f F x) y)
  | NF x, NF y => Ok (powf_pd F x y)
  | NC x, NF y => Ok (NC (cpowf F x y))
  | NF x, NR y => Ok (powf_pd F x (q2f F y))
  | NC x, NR y => Ok (NC (cpowf F x (q2f F y)))
  | NF x, NI y => Ok (powif_pd F x y)
  | NC x, NI y => Ok (NC (cpowif F x y))
  | _, NC y => Ok (NC (cpowc F (to_c F a) y))
  end.
Definition pow_num_original F := pow_num_gen F pow_big_ints_original rat_pow_int_original.
Definition pow_num F := pow_num_gen F (pow_big_ints F) (rat_pow_int F).

(* ------------------------------------------------------------------ forward_int_coercion!, numerator, ... *)
(* Int: itself; Rational: r.method().to_integer(); Float: f.method().to_bigint(), and the float
   itself when that is None (inf, NaN); Complex: None.  f64::floor/ceil/trunc/round are exact on
   the decoded value (round: half away from zero), modelled by the same functions of Q. *)
Definition coerce_with (rq : Q -> Z) (x : nnum) : option nnum :=
  match x with
  | NI _ => Some x
  | NR q => Some (NI (rq q))
  | NF f => Some (match fdecode f with FFin q => NI (rq q) | _ => x end)
  | NC _ => None
  end.
Definition num_floor := coerce_with rat_floor.
Definition num_ceil := coerce_with rat_ceil.
Definition num_trunc := coerce_with rat_trunc.
Definition num_round := coerce_with rat_round.

Definition num_numerator (x : nnum) : option nnum :=
  match x with NI _ => Some x | NR q => Some (NI (Qnum q)) | _ => None end.
Definition num_denominator (x : nnum) : option nnum :=
  match x with NI _ => Some (NI 1) | NR q => Some (NI (Zpos (Qden q))) | _ => None end.

(* exact_to_rational (BigRational::from_float for floats) and to_f64 *)
Definition exact_to_rational (x : nnum) : option Q :=
  match x with
  | NI z => Some (inject_Z z)
  | NR q => Some q
  | NF f => match fdecode f with FFin q => Some q | _ => None end
  | NC _ => None
  end.
Definition to_f64 (F : float_ops) (x : nnum) : option bits :=
  match to_f_or_c F x with inl f => Some f | inr _ => None end.

(* ------------------------------------------------------------------ builtins *)
Inductive binop := OAdd | OSub | OMul | ORem | ODivFloor | OModFloor | ODiv | OPow.
Inductive unop := UNeg | UAbs | UFloor | UCeil | URound | UNumerator | UDenominator.
Inductive conv := CInt | CRational | CFloat.

Definition of_opt {A} (e : errc) (o : option A) : outcome A :=
  match o with Some a => Ok a | None => Err e end.

(* the closures registered in lib.rs `initialize` (Plus/Minus/Times/Divide structs, "%", "//", "%%", "^") *)
Definition guard_nonzero (f : nnum -> nnum -> outcome nnum) (a b : nnum) : outcome nnum :=
  if is_nonzero b then f a b else Err EValue.

(* "%": a % b, except that an exact zero divisor under an exact dividend is a value error
   (the guard added by C06's fix: commit 2a751e6; float and complex % keep their IEEE answer) *)
Definition is_exact (x : nnum) : bool := match x with NI _ | NR _ => true | _ => false end.
Definition rem_builtin (F : float_ops) (a b : nnum) : outcome nnum :=
  if is_exact a && is_exact b && negb (is_nonzero b) then Err EValue else num_rem F a b.

Definition num_binop_gen (F : float_ops) (modfl pw : nnum -> nnum -> outcome nnum)
    (op : binop) (a b : nnum) : outcome nnum :=
  match op with
  | OAdd => num_add F a b
  | OSub => num_sub F a b
  | OMul => num_mul F a b
  | ORem => rem_builtin F a b
  | ODivFloor => guard_nonzero (num_div_floor F) a b
  | OModFloor => guard_nonzero modfl a b
  | ODiv => num_div F a b
  | OPow => pw a b
  end.
Definition num_binop_original F := num_binop_gen F (num_mod_floor_original F) (pow_num_original F).
Definition num_binop F := num_binop_gen F (num_mod_floor F) (pow_num F).

Definition num_unop (F : float_ops) (op : unop) (x : nnum) : outcome nnum :=
  match op with
  | UNeg => Ok (num_neg x)
  | UAbs => Ok (num_abs F x)
  | UFloor => of_opt EValue (num_floor x)
  | UCeil => of_opt EValue (num_ceil x)
  | URound => of_opt EValue (num_round x)
  | UNumerator => of_opt EType (num_numerator x)
  | UDenominator => of_opt EType (num_denominator x)
  end.

(* call_type1 on a number.  ORIGINAL int(): n.trunc() as is, so int(inf) is the float inf -- defect F16.
   Repaired: anything but an Int out of trunc() is a value error. *)
Definition num_conv_original (F : float_ops) (c : conv) (x : nnum) : outcome nnum :=
  match c with
  | CInt => of_opt EValue (num_trunc x)
  | CRational => omap NR (of_opt EValue (exact_to_rational x))
  | CFloat => omap NF (of_opt EValue (to_f64 F x))
  end.
Definition num_conv (F : float_ops) (c : conv) (x : nnum) : outcome nnum :=
  match c with
  | CInt => match num_trunc x with Some (NI z) => Ok (NI z) | _ => Err EValue end
  | _ => num_conv_original F c x
  end.

(* ------------------------------------------------------------------ vectorisation *)
Inductive obj := ONum (n : nnum) | OVec (l : list nnum) | OOther.

Fixpoint zipM {A B C} (f : A -> B -> outcome C) (l1 : list A) (l2 : list B) : outcome (list C) :=
  match l1, l2 with
  | x :: r, y :: s => v <- f x y ;; vs <- zipM f r s ;; Ok (v :: vs)
  | _, _ => Ok []
  end.

(* expect_nums_and_vectorize_2_nums and expect_nums_and_vectorize_2 (the same shape: the second
   collects NRes results left to right, the first cannot fail but can panic) *)
Definition vectorize2 (body : nnum -> nnum -> outcome nnum) (a b : obj) : outcome obj :=
  match a, b with
  | ONum x, ONum y => omap ONum (body x y)
  | ONum x, OVec l => omap OVec (mapM (fun e => body x e) l)
  | OVec l, ONum y => omap OVec (mapM (fun e => body e y) l)
  | OVec l1, OVec l2 =>
      if Nat.eqb (length l1) (length l2) then omap OVec (zipM body l1 l2) else Err EValue
  | _, _ => Err EArg
  end.
(* expect_nums_and_vectorize_1 *)
Definition vectorize1 (body : nnum -> outcome nnum) (a : obj) : outcome obj :=
  match a with
  | ONum x => omap ONum (body x)
  | OVec l => omap OVec (mapM body l)
  | OOther => Err EArg
  end.

Definition builtin2_original F op := vectorize2 (num_binop_original F op).
Definition builtin2 F op := vectorize2 (num_binop F op).
Definition builtin1 F op := vectorize1 (num_unop F op).
(* call_type1 does not vectorise: a vector argument is a type error *)
Definition builtin_conv_gen (cv : conv -> nnum -> outcome nnum) (c : conv) (a : obj) : outcome obj :=
  match a with ONum x => omap ONum (cv c x) | _ => Err EType end.
Definition builtin_conv_original F := builtin_conv_gen (num_conv_original F).
Definition builtin_conv F := builtin_conv_gen (num_conv F).

(* ------------------------------------------------------------------ small sanity examples *)
Example ex_decode_one : fdecode 4607182418800017408%N = FFin 1%Q.       (* 0x3ff0000000000000 *)
Proof. vm_compute. reflexivity. Qed.
Example ex_decode_tenth :                                                 (* 0.1 *)
  fdecode 4591870180066957722%N = FFin (3602879701896397 # 36028797018963968).
Proof. vm_compute. reflexivity. Qed.
Example ex_decode_inf : fdecode 9218868437227405312%N = FInf false /\ fdecode 18442240474082181120%N = FInf true
  /\ fdecode 9221120237041090560%N = FNaN /\ fdecode (2 ^ 63)%N = FFin 0%Q /\ fdecode 1%N = FFin (1 # 2 ^ 1074).
Proof. vm_compute. repeat split; reflexivity. Qed.
Example ex_round : map rat_round [5 # 2; -5 # 2; 7 # 3; -7 # 3; 1 # 2; -1 # 2; 3 # 1]%Q = [3; -3; 2; -2; 1; -1; 3].
Proof. vm_compute. reflexivity. Qed.
Example ex_f6_original : rat_mod_floor_original (-1 # 2) (1 # 3) = Ok (-1 # 6)%Q.
Proof. vm_compute. reflexivity. Qed.
Example ex_f6_repaired : rat_mod_floor (-1 # 2) (1 # 3) = Ok (1 # 6)%Q.
Proof. vm_compute. reflexivity. Qed.
