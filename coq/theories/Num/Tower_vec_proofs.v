(* C07 proofs, part 4: the vectorisation wrappers act element-wise, broadcast scalars, reject unequal
   lengths, and add no panic of their own. *)
From Coq Require Import ZArith NArith QArith List Bool Lia.
From NV Require Import Common.Outcome Num.Tower Num.TowerSpec.
Import ListNotations.

Section Vec.
Variable body : nnum -> nnum -> outcome nnum.

Lemma zipM_ok l1 : forall l2 out, length l1 = length l2 -> zipM body l1 l2 = Ok out -> pointwise2 body l1 l2 out.
Proof.
  induction l1 as [|x r IH]; intros [|y s] out Hl H; cbn in *; try discriminate.
  - injection H as <-. repeat split; auto. intros [|i] ? ? ?; discriminate.
  - destruct (body x y) as [v| | |] eqn:Ev; cbn in H; try discriminate.
    destruct (zipM body r s) as [vs| | |] eqn:Er; cbn in H; try discriminate.
    injection H as <-. destruct (IH s vs ltac:(lia) Er) as [L1 [L2 P]].
    repeat split; cbn; try lia.
    intros [|i] x' y' Hx Hy; cbn in *.
    + injection Hx as <-. injection Hy as <-. eauto.
    + eauto.
Qed.

Lemma zipM_complete l1 : forall l2, length l1 = length l2 ->
  (forall i x y, nth_error l1 i = Some x -> nth_error l2 i = Some y -> exists v, body x y = Ok v) ->
  exists out, zipM body l1 l2 = Ok out.
Proof.
  induction l1 as [|x r IH]; intros [|y s] Hl H; cbn in *; try discriminate; eauto.
  destruct (H 0%nat x y eq_refl eq_refl) as [v ->]. cbn.
  destruct (IH s ltac:(lia)) as [vs ->]; [|cbn; eauto].
  intros i x' y' Hx Hy. apply (H (S i)); assumption.
Qed.

(* a failure is the failure of the leftmost failing element: never a crash of the wrapper's own *)
Lemma zipM_no_panic l1 : forall l2,
  (forall i x y, nth_error l1 i = Some x -> nth_error l2 i = Some y -> body x y <> Panic) ->
  zipM body l1 l2 <> Panic.
Proof.
  induction l1 as [|x r IH]; intros [|y s] H; cbn; try discriminate.
  pose proof (H 0%nat x y eq_refl eq_refl) as H0.
  destruct (body x y) as [v| | |]; cbn; try congruence.
  specialize (IH s (fun i => H (S i))). destruct (zipM body r s); cbn; congruence.
Qed.

Lemma mapM_zipM_l x l : mapM (fun e => body x e) l = zipM body (repeat x (length l)) l.
Proof. induction l as [|y s IH]; cbn; [reflexivity|]. now rewrite IH. Qed.
Lemma mapM_zipM_r y l : mapM (fun e => body e y) l = zipM body l (repeat y (length l)).
Proof. induction l as [|x s IH]; cbn; [reflexivity|]. now rewrite IH. Qed.

(* vector (op) vector *)
Theorem vectorize2_pointwise l1 l2 r :
  vectorize2 body (OVec l1) (OVec l2) = Ok r -> exists out, r = OVec out /\ pointwise2 body l1 l2 out.
Proof.
  cbn [vectorize2]. destruct (Nat.eqb_spec (length l1) (length l2)) as [E|E]; [|discriminate].
  destruct (zipM body l1 l2) as [out| | |] eqn:Ez; cbn; try discriminate.
  intros H. injection H as <-. exists out. split; [reflexivity|]. now apply zipM_ok.
Qed.

Theorem vectorize2_complete l1 l2 : length l1 = length l2 ->
  (forall i x y, nth_error l1 i = Some x -> nth_error l2 i = Some y -> exists v, body x y = Ok v) ->
  exists out, vectorize2 body (OVec l1) (OVec l2) = Ok (OVec out) /\ pointwise2 body l1 l2 out.
Proof.
  intros E H. cbn [vectorize2]. rewrite (proj2 (Nat.eqb_eq _ _) E).
  destruct (zipM_complete l1 l2 E H) as [out Ho]. rewrite Ho. cbn. exists out. split; [reflexivity|].
  now apply zipM_ok.
Qed.

Theorem vectorize2_length_mismatch l1 l2 : length l1 <> length l2 ->
  vectorize2 body (OVec l1) (OVec l2) = Err EValue.
Proof. intros E. cbn [vectorize2]. now rewrite (proj2 (Nat.eqb_neq _ _) E). Qed.

(* a scalar behaves as the vector of its copies *)
Theorem vectorize2_broadcast x l :
  vectorize2 body (ONum x) (OVec l) = vectorize2 body (OVec (repeat x (length l))) (OVec l) /\
  vectorize2 body (OVec l) (ONum x) = vectorize2 body (OVec l) (OVec (repeat x (length l))).
Proof. cbn [vectorize2]. rewrite repeat_length, Nat.eqb_refl, mapM_zipM_l, mapM_zipM_r. split; reflexivity. Qed.

Theorem vectorize2_scalar x y : vectorize2 body (ONum x) (ONum y) = omap ONum (body x y).
Proof. reflexivity. Qed.

Theorem vectorize2_non_number a : vectorize2 body OOther a = Err EArg /\ vectorize2 body a OOther = Err EArg.
Proof. destruct a; split; reflexivity. Qed.

Theorem vectorize2_no_panic a b :
  (forall x y, body x y <> Panic) -> vectorize2 body a b <> Panic.
Proof.
  intros H. destruct a as [x|l1|], b as [y|l2|]; cbn [vectorize2]; try discriminate.
  - specialize (H x y). destruct (body x y); cbn; congruence.
  - rewrite mapM_zipM_l. pose proof (zipM_no_panic (repeat x (length l2)) l2 (fun _ x y _ _ => H x y)).
    destruct (zipM body _ l2); cbn; congruence.
  - rewrite mapM_zipM_r. pose proof (zipM_no_panic l1 (repeat y (length l1)) (fun _ x y _ _ => H x y)).
    destruct (zipM body l1 _); cbn; congruence.
  - destruct (Nat.eqb _ _); [|discriminate].
    pose proof (zipM_no_panic l1 l2 (fun _ x y _ _ => H x y)). destruct (zipM body l1 l2); cbn; congruence.
Qed.
End Vec.

Section Vec1.
Variable body : nnum -> outcome nnum.

Lemma mapM_ok l : forall out, mapM body l = Ok out -> pointwise1 body l out.
Proof.
  induction l as [|x r IH]; intros out H; cbn in *.
  - injection H as <-. split; auto. intros [|i] ? ?; discriminate.
  - destruct (body x) as [v| | |] eqn:Ev; cbn in H; try discriminate.
    destruct (mapM body r) as [vs| | |] eqn:Er; cbn in H; try discriminate.
    injection H as <-. destruct (IH vs eq_refl) as [L P]. split; cbn; [lia|].
    intros [|i] x' Hx; cbn in *; [injection Hx as <-; eauto | eauto].
Qed.

Theorem vectorize1_pointwise l r :
  vectorize1 body (OVec l) = Ok r -> exists out, r = OVec out /\ pointwise1 body l out.
Proof.
  cbn [vectorize1]. destruct (mapM body l) as [out| | |] eqn:E; cbn; try discriminate.
  intros H. injection H as <-. exists out. split; [reflexivity|]. now apply mapM_ok.
Qed.

Theorem vectorize1_scalar_other x :
  vectorize1 body (ONum x) = omap ONum (body x) /\ vectorize1 body OOther = Err EArg.
Proof. split; reflexivity. Qed.
End Vec1.

(* conversions do not vectorise *)
Theorem conv_not_vectorised F c l : builtin_conv F c (OVec l) = Err EType /\ builtin_conv F c OOther = Err EType.
Proof. split; reflexivity. Qed.
