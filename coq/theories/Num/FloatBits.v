(* C08 model, part 1: f64 as its 64-bit pattern, decoded exactly.
   No Reals, no Flocq: a finite double is the dyadic rational  m * 2^e  (m signed integer).

   What is transcribed:  num_traits::float::integer_decode_f64 (the decoder BigRational::from_float
   is built on), BigRational::from_float (num-rational 0.4.2).
   What is *meaning*, not transcription (IEEE-754 / std operations taken at their documented exact
   meaning on the decoded value; validated against the implementation by the correspondence run):
   is_nan, is_infinite, is_sign_positive, ==, partial_cmp, trunc, floor, ToBigInt::to_bigint. *)
From Coq Require Import ZArith NArith QArith Bool.
Open Scope Z_scope.

Definition bits := N.   (* f64::to_bits(); a well-formed pattern is < 2^64 *)
Definition wf_bits (b : bits) : Prop := (b < 2 ^ 64)%N.

Definition f_neg (b : bits) : bool := negb (N.shiftr b 63 =? 0)%N.       (* bits >> 63 != 0 *)
Definition biased_exp (b : bits) : N := N.land (N.shiftr b 52) 0x7ff%N.
Definition fraction (b : bits) : N := N.land b 0xfffffffffffff%N.

(* integer_decode_f64: (mantissa, exponent, sign) with value = sign * mantissa * 2^exponent *)
Definition integer_decode (b : bits) : Z * Z * bool :=
  let e := biased_exp b in
  let m := if (e =? 0)%N then N.shiftl (fraction b) 1 else N.lor (fraction b) 0x10000000000000%N in
  (Z.of_N m, Z.of_N e - (1023 + 52), f_neg b).

(* decoded double in dyadic form *)
Inductive dy := DNaN | DInf (neg : bool) | DFin (m e : Z).   (* DFin m e  is  m * 2^e *)

Definition decode_dy (b : bits) : dy :=
  if (biased_exp b =? 2047)%N then
    if (fraction b =? 0)%N then DInf (f_neg b) else DNaN
  else
    let '(m, e, s) := integer_decode b in DFin (if s then - m else m) e.

(* the exact rational value of m * 2^e, built the way BigRational::from_float builds it:
   exponent < 0: Ratio::new(m, 1 << -exponent); otherwise from_integer(m << exponent) *)
Definition dyQ (m e : Z) : Q :=
  if e <? 0 then Qmake m (Z.to_pos (2 ^ (- e))) else inject_Z (m * 2 ^ e).

(* the decoder of the property statement *)
Inductive fval := NaN | Inf (neg : bool) | Fin (q : Q).
Definition decode (b : bits) : fval :=
  match decode_dy b with
  | DNaN => NaN
  | DInf s => Inf s
  | DFin m e => Fin (dyQ m e)
  end.

(* ---- dyadic helpers: integrality, truncation, floor, comparison, all in Z *)
Definition dy_is_int (m e : Z) : bool := (0 <=? e) || (m mod 2 ^ (- e) =? 0).
Definition dy_trunc (m e : Z) : Z := if 0 <=? e then m * 2 ^ e else Z.quot m (2 ^ (- e)).
Definition dy_floor (m e : Z) : Z := if 0 <=? e then m * 2 ^ e else m / 2 ^ (- e).
Definition dy_compare (m1 e1 m2 e2 : Z) : comparison :=
  let e := Z.min e1 e2 in (m1 * 2 ^ (e1 - e) ?= m2 * 2 ^ (e2 - e)).

(* ---- the f64 operations the comparison code uses *)
Definition f_is_nan (b : bits) : bool := match decode_dy b with DNaN => true | _ => false end.
Definition f_is_infinite (b : bits) : bool := match decode_dy b with DInf _ => true | _ => false end.
Definition f_is_sign_positive (b : bits) : bool := negb (f_neg b).

(* a == b on f64: false if either is NaN, +0 == -0 *)
Definition f_eq (a b : bits) : bool :=
  match decode_dy a, decode_dy b with
  | DNaN, _ | _, DNaN => false
  | DInf s, DInf t => Bool.eqb s t
  | DInf _, DFin _ _ | DFin _ _, DInf _ => false
  | DFin m1 e1, DFin m2 e2 => match dy_compare m1 e1 m2 e2 with Eq => true | _ => false end
  end.

(* a.partial_cmp(b) on f64 *)
Definition f_partial_cmp (a b : bits) : option comparison :=
  match decode_dy a, decode_dy b with
  | DNaN, _ | _, DNaN => None
  | DInf s, DInf t => Some (if s then (if t then Eq else Lt) else (if t then Gt else Eq))
  | DInf s, DFin _ _ => Some (if s then Lt else Gt)
  | DFin _ _, DInf t => Some (if t then Gt else Lt)
  | DFin m1 e1, DFin m2 e2 => Some (dy_compare m1 e1 m2 e2)
  end.

(* f == f.trunc(): true for integral finite values and for +-inf, false for NaN *)
Definition f_eq_trunc (b : bits) : bool :=
  match decode_dy b with
  | DNaN => false
  | DInf _ => true
  | DFin m e => dy_is_int m e
  end.

(* ToBigInt for f64 (num-bigint from_f64): None unless finite, else truncation toward zero *)
Definition f_to_bigint (b : bits) : option Z :=
  match decode_dy b with
  | DFin m e => Some (dy_trunc m e)
  | _ => None
  end.

(* f.floor().to_bigint(): floor of a finite double is a double with that exact value *)
Definition f_floor_to_bigint (b : bits) : option Z :=
  match decode_dy b with
  | DFin m e => Some (dy_floor m e)
  | _ => None
  end.

(* BigRational::from_float *)
Definition rat_from_float (b : bits) : option Q :=
  match decode_dy b with
  | DFin m e => Some (dyQ m e)
  | _ => None
  end.

(* examples: 1.0, 0.1, -0.0, 2^53, the smallest subnormal, inf, a NaN (values up to Qeq:
   Ratio::new reduces, the model keeps m / 2^-e unreduced; only Qcompare/Qeq ever look at it) *)
Definition decodes_to (b : bits) (q : Q) : bool :=
  match decode b with Fin p => Qeq_bool p q | _ => false end.
Example decode_one : decodes_to 0x3ff0000000000000%N 1 = true.
Proof. vm_compute. reflexivity. Qed.
Example decode_tenth : decodes_to 0x3fb999999999999a%N (3602879701896397 # 36028797018963968) = true.
Proof. vm_compute. reflexivity. Qed.
Example decode_negzero : decodes_to 0x8000000000000000%N 0 = true.
Proof. vm_compute. reflexivity. Qed.
Example decode_2p53 : decodes_to 0x4340000000000000%N (inject_Z 9007199254740992) = true.
Proof. vm_compute. reflexivity. Qed.
Example decode_minsub : decodes_to 1%N (Qmake 1 (2 ^ 1074)) = true.
Proof. vm_compute. reflexivity. Qed.
Example decode_inf : decode 0xfff0000000000000%N = Inf true.
Proof. vm_compute. reflexivity. Qed.
Example decode_nan : decode 0x7ff8000000000000%N = NaN.
Proof. vm_compute. reflexivity. Qed.
