(* C06 proofs, part 3: lazy_factorize (nnum.rs).  Whenever it returns, the listed prime powers
   multiply back to the argument (sign included, as a leading (-1, 1)), every listed base other than
   that -1 is prime (Znumtheory.prime) and every exponent is positive; factorize 0 = []. *)
From Coq Require Import ZArith List Bool Lia Znumtheory.
From NV Require Import Common.Outcome Common.MachineInt Num.NInt Num.NIntSpec Num.NInt_proofs Num.NIntPrime_proofs.
Import ListNotations.
Open Scope Z_scope.

Ltac Zify.zify_post_hook ::= Z.to_euclidean_division_equations.


Lemma fprod_cons p e l : fprod ((p, e) :: l) = p ^ e * fprod l.
Proof. reflexivity. Qed.
Lemma fprod_nil : fprod [] = 1.
Proof. reflexivity. Qed.
Lemma fprod_app l1 l2 : fprod (l1 ++ l2) = fprod l1 * fprod l2.
Proof. induction l1 as [|[p e] l IH]; cbn [app]; [rewrite fprod_nil; lia|]. rewrite !fprod_cons, IH. ring. Qed.
Lemma fprod_rev l : fprod (rev l) = fprod l.
Proof.
  induction l as [|[p e] l IH]; [reflexivity|]. cbn [rev]. rewrite fprod_app, IH, !fprod_cons, fprod_nil. ring.
Qed.

(* the inner `while (&a % f).is_zero() { a /= f; mult += 1 }` *)
Lemma strip_spec fuel : forall a f m a' m', 1 < f -> 0 < a -> strip fuel a f m = (a', m') ->
  m <= m' /\ a = a' * f ^ (m' - m) /\ 0 < a'.
Proof.
  induction fuel as [|fuel IH]; intros a f m a' m' Hf Ha E; cbn [strip] in E.
  - inversion E; subst. rewrite Z.sub_diag. cbn. lia.
  - destruct (Z.rem a f =? 0) eqn:R.
    + apply Z.eqb_eq in R.
      assert (Hq : a = f * Z.quot a f) by (pose proof (Z.quot_rem' a f); lia).
      assert (0 < Z.quot a f) by nia.
      destruct (IH _ _ _ _ _ Hf H E) as (Hm & Hq' & Ha').
      split; [lia|]. split; [|exact Ha'].
      replace (m' - m) with (Z.succ (m' - (m + 1))) by lia. rewrite Z.pow_succ_r by lia.
      rewrite Hq at 1. rewrite Hq' at 1. ring.
    + inversion E; subst. rewrite Z.sub_diag. cbn. lia.
Qed.
Lemma strip_done fuel : forall a f m a' m', 1 < f -> 0 < a -> a < 2 ^ Z.of_nat fuel ->
  strip fuel a f m = (a', m') -> ~ (f | a').
Proof.
  induction fuel as [|fuel IH]; intros a f m a' m' Hf Ha Hlt E; cbn [strip] in E.
  - cbn in Hlt. lia.
  - destruct (Z.rem a f =? 0) eqn:R.
    + apply Z.eqb_eq in R.
      assert (Hq : a = f * Z.quot a f) by (pose proof (Z.quot_rem' a f); lia).
      assert (0 < Z.quot a f) by nia.
      refine (IH _ _ _ _ _ Hf H _ E).
      rewrite Nat2Z.inj_succ, Z.pow_succ_r in Hlt by lia. nia.
    + inversion E; subst. intros Hd. apply Z.rem_divide in Hd; [|lia]. apply Z.eqb_neq in R. contradiction.
Qed.

Lemma log2_fuel a : 0 < a -> a < 2 ^ Z.of_nat (S (Z.to_nat (Z.log2 a))).
Proof.
  intros Ha. rewrite Nat2Z.inj_succ, Z2Nat.id by apply Z.log2_nonneg.
  apply Z.log2_spec. exact Ha.
Qed.

(* loop invariant: a is what is left, acc (reversed) what has been found, nothing in (1, f) divides a *)
Record inv (a0 a : Z) (acc : list (Z * Z)) (f : Z) : Prop := {
  inv_pos : 0 < a;
  inv_prod : a * fprod acc = a0;
  inv_nodiv : no_div_below a f;
  inv_good : Forall good_factor acc }.

Lemma least_divisor_prime a f : 1 < f -> (f | a) -> no_div_below a f -> prime f.
Proof.
  intros Hf Hd Hn. apply prime_of_no_small_divisor; [exact Hf|].
  intros d Hd1 Hdd Hdf. apply (Hn d); [nia|]. eapply Z.divide_trans; eassumption.
Qed.

Lemma fact_test_spec a0 a acc f d a' acc' : 1 < f -> inv a0 a acc f ->
  fact_test a acc f = (d, a', acc') ->
  if d then fprod acc' = a0 /\ Forall good_factor acc'
  else inv a0 a' acc' (f + 1).
Proof.
  intros Hf [Hpos Hprod Hnodiv Hgood]. unfold fact_test.
  destruct (Z.ltb_spec a (f * f)) as [Hlt|Hge].
  - intros E; injection E as <- <- <-. destruct (Z.ltb_spec 1 a) as [H1|H1].
    + split; [rewrite fprod_cons; lia|]. constructor; [|exact Hgood]. right. cbn [fst snd]. split; [|lia].
      apply prime_of_no_small_divisor; [exact H1|]. intros d Hd Hdd. apply Hnodiv. nia.
    + assert (a = 1) as E1 by lia. rewrite E1 in Hprod. split; [lia|exact Hgood].
  - destruct (strip (S (Z.to_nat (Z.log2 a))) a f 0) as [a1 mult] eqn:S.
    intros E; injection E as <- <- <-.
    destruct (strip_spec _ _ _ _ _ _ Hf Hpos S) as (Hm & Ha & Ha1). rewrite Z.sub_0_r in Ha.
    pose proof (strip_done _ _ _ _ _ _ Hf Hpos (log2_fuel a Hpos) S) as Hnd.
    assert (Hnodiv' : no_div_below a1 (f + 1)).
    { intros d Hd Hdiv. destruct (Z.eq_dec d f) as [->|Hne]; [exact (Hnd Hdiv)|].
      apply (Hnodiv d); [lia|]. rewrite Ha. now apply Z.divide_mul_l. }
    destruct (Z.ltb_spec 0 mult) as [Hm0|Hm0].
    + constructor; try assumption.
      * rewrite fprod_cons. rewrite <- Hprod, Ha. ring.
      * constructor; [|exact Hgood]. right. cbn [fst snd]. split; [|exact Hm0].
        apply (least_divisor_prime a); [exact Hf| |exact Hnodiv].
        rewrite Ha. apply Z.divide_mul_r. replace mult with (Z.succ (mult - 1)) by lia.
        rewrite Z.pow_succ_r by lia. now apply Z.divide_mul_l, Z.divide_refl.
    + assert (mult = 0) as E0 by lia. rewrite E0, Z.pow_0_r, Z.mul_1_r in Ha. subst a1.
      constructor; assumption.
Qed.

(* a composite g cannot be the least divisor: the invariant skips it *)
Lemma inv_skip a0 a acc g p : inv a0 a acc g -> 1 < p < g -> (p | g) -> inv a0 a acc (g + 1).
Proof.
  intros [Hpos Hprod Hnodiv Hgood] Hp Hpg. constructor; try assumption.
  intros d Hd Hdiv. destruct (Z.eq_dec d g) as [->|Hne]; [|apply (Hnodiv d); [lia|exact Hdiv]].
  apply (Hnodiv p); [lia|]. eapply Z.divide_trans; eassumption.
Qed.

Lemma fact_loop_spec a0 fuel : forall a acc f6 l,
  5 <= f6 -> f6 mod 6 = 5 -> inv a0 a acc f6 ->
  fact_loop fuel a acc f6 = Ok l -> fprod l = a0 /\ Forall good_factor l.
Proof.
  induction fuel as [|fuel IH]; intros a acc f6 l Hf5 Hmod Hinv E; cbn [fact_loop] in E; [discriminate|].
  destruct (fact_test a acc f6) as [[d1 a1] acc1] eqn:T1.
  pose proof (fact_test_spec a0 a acc f6 d1 a1 acc1 ltac:(lia) Hinv T1) as H1.
  destruct d1.
  { injection E as <-. rewrite fprod_rev. split; [apply H1|]. apply Forall_rev, H1. }
  assert (Hinv2 : inv a0 a1 acc1 (f6 + 2)).
  { replace (f6 + 2) with (f6 + 1 + 1) by lia. apply (inv_skip _ _ _ _ 2 H1); [lia|]. exists ((f6 + 1) / 2). lia. }
  destruct (fact_test a1 acc1 (f6 + 2)) as [[d2 a2] acc2] eqn:T2.
  pose proof (fact_test_spec a0 a1 acc1 (f6 + 2) d2 a2 acc2 ltac:(lia) Hinv2 T2) as H2.
  destruct d2.
  { injection E as <-. rewrite fprod_rev. split; [apply H2|]. apply Forall_rev, H2. }
  apply (IH a2 acc2 (f6 + 6) l); [lia|lia| |exact E].
  replace (f6 + 6) with (f6 + 2 + 1 + 1 + 1 + 1) by lia.
  apply (inv_skip _ _ _ _ 2); [|lia|exists ((f6 + 5) / 2); lia].
  apply (inv_skip _ _ _ _ 3); [|lia|exists ((f6 + 4) / 3); lia].
  apply (inv_skip _ _ _ _ 2); [|lia|exists ((f6 + 3) / 2); lia].
  exact H2.
Qed.

Theorem lazy_factorize_correct fuel a0 l : lazy_factorize fuel a0 = Ok l ->
  (a0 = 0 -> l = []) /\ (a0 <> 0 -> fprod l = a0 /\ Forall good_factor l).
Proof.
  unfold lazy_factorize, big_sign.
  destruct (Z.eqb_spec a0 0) as [->|Hnz]; [intros E; inversion E; split; [reflexivity|contradiction]|].
  intros E. split; [contradiction|intros _].
  set (a := if 0 <? a0 then a0 else - a0) in *.
  set (acc := if 0 <? a0 then @nil (Z * Z) else [(-1, 1)]) in *.
  assert (Hinv : inv a0 a acc 2).
  { subst a acc. destruct (Z.ltb_spec 0 a0); constructor; cbn [fprod fold_right fst snd]; try lia.
    - intros d Hd; lia.
    - constructor.
    - intros d Hd; lia.
    - constructor; [left; split; reflexivity|constructor]. }
  assert (E' : (let '(d2, a2, acc2) := fact_test a acc 2 in
                if d2 then Ok (rev acc2) else
                let '(d3, a3, acc3) := fact_test a2 acc2 3 in
                if d3 then Ok (rev acc3) else fact_loop fuel a3 acc3 5) = Ok l).
  { subst a acc. destruct (0 <? a0); exact E. }
  clear E. destruct (fact_test a acc 2) as [[d2 a2] acc2] eqn:T2.
  pose proof (fact_test_spec a0 a acc 2 d2 a2 acc2 ltac:(lia) Hinv T2) as H2.
  destruct d2.
  { injection E' as <-. rewrite fprod_rev. split; [apply H2|]. apply Forall_rev, H2. }
  cbn [Z.add] in H2. change (2 + 1) with 3 in H2.
  destruct (fact_test a2 acc2 3) as [[d3 a3] acc3] eqn:T3.
  pose proof (fact_test_spec a0 a2 acc2 3 d3 a3 acc3 ltac:(lia) H2 T3) as H3.
  destruct d3.
  { injection E' as <-. rewrite fprod_rev. split; [apply H3|]. apply Forall_rev, H3. }
  apply (fact_loop_spec a0 fuel a3 acc3 5 l); [lia|reflexivity| |exact E'].
  change 5 with (3 + 1 + 1). apply (inv_skip _ _ _ _ 2 H3); [lia|exists 2; reflexivity].
Qed.

Lemma lazy_factorize_ok_or_fuel fuel a0 :
  lazy_factorize fuel a0 = OutOfFuel \/ exists l, lazy_factorize fuel a0 = Ok l.
Proof.
  assert (L : forall fuel a acc f, fact_loop fuel a acc f = OutOfFuel \/ exists l, fact_loop fuel a acc f = Ok l).
  { induction fuel0 as [|k IH]; intros a acc f; cbn [fact_loop]; [left; reflexivity|].
    destruct (fact_test a acc f) as [[[] ?] ?]; [right; eexists; reflexivity|].
    destruct (fact_test _ _ (f + 2)) as [[[] ?] ?]; [right; eexists; reflexivity|apply IH]. }
  unfold lazy_factorize. destruct (big_sign a0); try (right; eexists; reflexivity).
  - destruct (fact_test _ _ 2) as [[[] ?] ?]; [right; eexists; reflexivity|].
    destruct (fact_test _ _ 3) as [[[] ?] ?]; [right; eexists; reflexivity|apply L].
  - destruct (fact_test _ _ 2) as [[[] ?] ?]; [right; eexists; reflexivity|].
    destruct (fact_test _ _ 3) as [[[] ?] ?]; [right; eexists; reflexivity|apply L].
Qed.
Theorem lazy_factorize_no_panic fuel a0 : lazy_factorize fuel a0 <> Panic.
Proof. destruct (lazy_factorize_ok_or_fuel fuel a0) as [->|[l ->]]; discriminate. Qed.

(* ------------------------------------------------------------------ termination: fuel sqrt|a| + 1 suffices *)
Lemma fact_test_shrinks a acc f a' acc' : 1 < f -> 0 < a ->
  fact_test a acc f = (false, a', acc') -> 0 < a' <= a /\ f * f <= a.
Proof.
  intros Hf Hpos. unfold fact_test. destruct (Z.ltb_spec a (f * f)) as [Hlt|Hge]; [discriminate|].
  destruct (strip (S (Z.to_nat (Z.log2 a))) a f 0) as [a1 mult] eqn:S.
  intros E; injection E as <- _.
  destruct (strip_spec _ _ _ _ _ _ Hf Hpos S) as (Hm & Ha & Ha1). rewrite Z.sub_0_r in Ha.
  assert (0 < f ^ mult) by (apply Z.pow_pos_nonneg; lia). split; [nia|lia].
Qed.

Lemma fact_loop_fuel fuel : forall a acc f6, 0 < a -> 1 < f6 ->
  a < (f6 + 6 * Z.of_nat fuel) * (f6 + 6 * Z.of_nat fuel) -> fact_loop (S fuel) a acc f6 <> OutOfFuel.
Proof.
  induction fuel as [|fuel IH]; intros a acc f6 Hpos Hf Hlt.
  - cbn [fact_loop]. destruct (fact_test a acc f6) as [[[] a1] acc1] eqn:T1; [discriminate|].
    destruct (fact_test_shrinks _ _ _ _ _ Hf Hpos T1). cbn in Hlt. lia.
  - change (fact_loop (S (S fuel)) a acc f6) with
      (let '(d1, a1, acc1) := fact_test a acc f6 in
       if d1 then Ok (rev acc1) else
       let '(d2, a2, acc2) := fact_test a1 acc1 (f6 + 2) in
       if d2 then Ok (rev acc2) else fact_loop (S fuel) a2 acc2 (f6 + 6)).
    destruct (fact_test a acc f6) as [[[] a1] acc1] eqn:T1; [discriminate|].
    destruct (fact_test_shrinks _ _ _ _ _ Hf Hpos T1) as [[Hp1 Hle1] _].
    destruct (fact_test a1 acc1 (f6 + 2)) as [[[] a2] acc2] eqn:T2; [discriminate|].
    assert (Hf2 : 1 < f6 + 2) by lia.
    destruct (fact_test_shrinks _ _ _ _ _ Hf2 Hp1 T2) as [[Hp2 Hle2] _].
    apply IH; [exact Hp2|lia|]. rewrite Nat2Z.inj_succ in Hlt.
    replace (f6 + 6 + 6 * Z.of_nat fuel) with (f6 + 6 * Z.succ (Z.of_nat fuel)) by lia. lia.
Qed.

Theorem lazy_factorize_total a : exists l, lazy_factorize (fact_fuel a) a = Ok l /\
  (a = 0 -> l = []) /\ (a <> 0 -> fprod l = a /\ Forall good_factor l).
Proof.
  assert (H : lazy_factorize (fact_fuel a) a <> OutOfFuel).
  { unfold lazy_factorize, big_sign, fact_fuel.
    destruct (Z.eqb_spec a 0) as [->|Hnz]; [discriminate|].
    set (a' := if 0 <? a then a else - a).
    assert (Ha' : a' = Z.abs a /\ 0 < a') by (subst a'; destruct (Z.ltb_spec 0 a); lia).
    set (acc := if 0 <? a then @nil (Z * Z) else [(-1, 1)]).
    assert (G : (let '(d2, a2, acc2) := fact_test a' acc 2 in
                 if d2 then Ok (rev acc2) else
                 let '(d3, a3, acc3) := fact_test a2 acc2 3 in
                 if d3 then Ok (rev acc3) else fact_loop (S (Z.to_nat (Z.sqrt (Z.abs a)))) a3 acc3 5) <> OutOfFuel).
    { destruct (fact_test a' acc 2) as [[[] a2] acc2] eqn:T2; [discriminate|].
      assert (H12 : 1 < 2) by lia. assert (H13 : 1 < 3) by lia.
      destruct (fact_test_shrinks _ _ _ _ _ H12 (proj2 Ha') T2) as [[Hp2 Hle2] _].
      destruct (fact_test a2 acc2 3) as [[[] a3] acc3] eqn:T3; [discriminate|].
      destruct (fact_test_shrinks _ _ _ _ _ H13 Hp2 T3) as [[Hp3 Hle3] _].
      apply fact_loop_fuel; [exact Hp3|lia|].
      rewrite Z2Nat.id by apply Z.sqrt_nonneg.
      pose proof (Z.sqrt_spec (Z.abs a) ltac:(lia)) as Hs. cbv zeta in Hs.
      pose proof (Z.sqrt_nonneg (Z.abs a)). nia. }
    subst a' acc. destruct (0 <? a); exact G. }
  destruct (lazy_factorize_ok_or_fuel (fact_fuel a) a) as [E|[l E]]; [contradiction|].
  exists l. split; [exact E|]. exact (lazy_factorize_correct _ _ _ E).
Qed.

(* ------------------------------------------------------------------ the bases are listed in strictly increasing order *)
From Coq Require Import Sorted.
Definition below (f : Z) (acc : list (Z * Z)) : Prop := Forall (fun pe => fst pe < f) acc.
Definition decreasing (acc : list (Z * Z)) : Prop := StronglySorted (fun x y => fst y < fst x) acc.
Definition increasing (l : list (Z * Z)) : Prop := StronglySorted (fun x y => fst x < fst y) l.

Lemma below_mono f g acc : f <= g -> below f acc -> below g acc.
Proof. intros H. apply Forall_impl. intros; lia. Qed.

Lemma sorted_snoc (R : Z * Z -> Z * Z -> Prop) l x :
  StronglySorted R l -> Forall (fun y => R y x) l -> StronglySorted R (l ++ [x]).
Proof.
  induction l as [|y l IH]; cbn [app]; intros Hs Hf.
  - constructor; constructor.
  - inversion Hs; subst. inversion Hf; subst. constructor; [apply IH; assumption|].
    apply Forall_app. split; [assumption|constructor; [assumption|constructor]].
Qed.
Lemma increasing_rev acc : decreasing acc -> increasing (rev acc).
Proof.
  unfold decreasing, increasing. induction acc as [|x l IH]; intros H; cbn [rev]; [constructor|].
  inversion H; subst. apply sorted_snoc; [apply IH; assumption|].
  apply Forall_rev. assumption.
Qed.

Lemma fact_test_sorted a acc f d a' acc' : 1 < f -> 0 < a -> no_div_below a f ->
  below f acc -> decreasing acc -> fact_test a acc f = (d, a', acc') ->
  decreasing acc' /\ below (f + 1) acc' \/ (d = true /\ decreasing acc').
Proof.
  intros Hf Hpos Hnodiv Hb Hd. unfold fact_test.
  destruct (Z.ltb_spec a (f * f)) as [Hlt|Hge].
  - intros E; injection E as <- <- <-. right. split; [reflexivity|].
    destruct (Z.ltb_spec 1 a) as [H1|H1]; [|exact Hd].
    assert (f <= a). { destruct (Z_lt_le_dec a f) as [Hc|]; [|assumption]. exfalso. apply (Hnodiv a); [lia|apply Z.divide_refl]. }
    constructor; [exact Hd|]. cbn [fst]. revert Hb. apply Forall_impl. intros; lia.
  - destruct (strip (S (Z.to_nat (Z.log2 a))) a f 0) as [a1 mult].
    intros E; injection E as <- <- <-. left.
    destruct (0 <? mult).
    + split; [constructor; [exact Hd|exact Hb]|].
      constructor; [cbn [fst]; lia|]. apply (below_mono f); [lia|exact Hb].
    + split; [exact Hd|]. apply (below_mono f); [lia|exact Hb].
Qed.

Lemma fact_loop_sorted a0 fuel : forall a acc f6 l,
  5 <= f6 -> f6 mod 6 = 5 -> inv a0 a acc f6 -> below f6 acc -> decreasing acc ->
  fact_loop fuel a acc f6 = Ok l -> increasing l.
Proof.
  induction fuel as [|fuel IH]; intros a acc f6 l Hf5 Hmod Hinv Hb Hd E; cbn [fact_loop] in E; [discriminate|].
  destruct (fact_test a acc f6) as [[d1 a1] acc1] eqn:T1.
  pose proof (fact_test_spec a0 a acc f6 d1 a1 acc1 ltac:(lia) Hinv T1) as H1.
  pose proof (fact_test_sorted a acc f6 d1 a1 acc1 ltac:(lia) (inv_pos _ _ _ _ Hinv) (inv_nodiv _ _ _ _ Hinv) Hb Hd T1) as S1.
  destruct d1.
  { injection E as <-. apply increasing_rev. destruct S1 as [[? _]|[_ ?]]; assumption. }
  destruct S1 as [[Hd1 Hb1]|[? _]]; [|discriminate].
  assert (Hinv2 : inv a0 a1 acc1 (f6 + 2)).
  { replace (f6 + 2) with (f6 + 1 + 1) by lia. apply (inv_skip _ _ _ _ 2 H1); [lia|]. exists ((f6 + 1) / 2). lia. }
  destruct (fact_test a1 acc1 (f6 + 2)) as [[d2 a2] acc2] eqn:T2.
  pose proof (fact_test_spec a0 a1 acc1 (f6 + 2) d2 a2 acc2 ltac:(lia) Hinv2 T2) as H2.
  pose proof (fact_test_sorted a1 acc1 (f6 + 2) d2 a2 acc2 ltac:(lia) (inv_pos _ _ _ _ Hinv2) (inv_nodiv _ _ _ _ Hinv2)
                (below_mono (f6 + 1) (f6 + 2) acc1 ltac:(lia) Hb1) Hd1 T2) as S2.
  destruct d2.
  { injection E as <-. apply increasing_rev. destruct S2 as [[? _]|[_ ?]]; assumption. }
  destruct S2 as [[Hd2 Hb2]|[? _]]; [|discriminate].
  apply (IH a2 acc2 (f6 + 6) l); [lia|lia| |apply (below_mono (f6 + 2 + 1)); [lia|exact Hb2]|exact Hd2|exact E].
  replace (f6 + 6) with (f6 + 2 + 1 + 1 + 1 + 1) by lia.
  apply (inv_skip _ _ _ _ 2); [|lia|exists ((f6 + 5) / 2); lia].
  apply (inv_skip _ _ _ _ 3); [|lia|exists ((f6 + 4) / 3); lia].
  apply (inv_skip _ _ _ _ 2); [|lia|exists ((f6 + 3) / 2); lia].
  exact H2.
Qed.

Theorem lazy_factorize_increasing fuel a0 l : lazy_factorize fuel a0 = Ok l -> increasing l.
Proof.
  unfold lazy_factorize, big_sign.
  destruct (Z.eqb_spec a0 0) as [->|Hnz]; [intros E; injection E as <-; constructor|].
  intros E.
  set (a := if 0 <? a0 then a0 else - a0) in *.
  set (acc := if 0 <? a0 then @nil (Z * Z) else [(-1, 1)]) in *.
  assert (Hinv : inv a0 a acc 2).
  { subst a acc. destruct (Z.ltb_spec 0 a0); constructor; cbn [fprod fold_right fst snd]; try lia.
    - intros d Hd; lia.
    - constructor.
    - intros d Hd; lia.
    - constructor; [left; split; reflexivity|constructor]. }
  assert (Hb : below 2 acc /\ decreasing acc).
  { subst acc. destruct (0 <? a0); split; try constructor; try constructor; cbn [fst]; try lia; constructor. }
  destruct Hb as [Hb Hd].
  assert (E' : (let '(d2, a2, acc2) := fact_test a acc 2 in
                if d2 then Ok (rev acc2) else
                let '(d3, a3, acc3) := fact_test a2 acc2 3 in
                if d3 then Ok (rev acc3) else fact_loop fuel a3 acc3 5) = Ok l).
  { subst a acc. destruct (0 <? a0); exact E. }
  clear E. destruct (fact_test a acc 2) as [[d2 a2] acc2] eqn:T2.
  pose proof (fact_test_spec a0 a acc 2 d2 a2 acc2 ltac:(lia) Hinv T2) as H2.
  pose proof (fact_test_sorted a acc 2 d2 a2 acc2 ltac:(lia) (inv_pos _ _ _ _ Hinv) (inv_nodiv _ _ _ _ Hinv) Hb Hd T2) as S2.
  destruct d2.
  { injection E' as <-. apply increasing_rev. destruct S2 as [[? _]|[_ ?]]; assumption. }
  destruct S2 as [[Hd2 Hb2]|[? _]]; [|discriminate].
  change (2 + 1) with 3 in H2, Hb2.
  destruct (fact_test a2 acc2 3) as [[d3 a3] acc3] eqn:T3.
  pose proof (fact_test_spec a0 a2 acc2 3 d3 a3 acc3 ltac:(lia) H2 T3) as H3.
  pose proof (fact_test_sorted a2 acc2 3 d3 a3 acc3 ltac:(lia) (inv_pos _ _ _ _ H2) (inv_nodiv _ _ _ _ H2) Hb2 Hd2 T3) as S3.
  destruct d3.
  { injection E' as <-. apply increasing_rev. destruct S3 as [[? _]|[_ ?]]; assumption. }
  destruct S3 as [[Hd3 Hb3]|[? _]]; [|discriminate].
  apply (fact_loop_sorted a0 fuel a3 acc3 5 l); [lia|reflexivity| |apply (below_mono (3 + 1)); [lia|exact Hb3]|exact Hd3|exact E'].
  change 5 with (3 + 1 + 1). apply (inv_skip _ _ _ _ 2 H3); [lia|exists 2; reflexivity].
Qed.
