(* C08 proofs, part 5: the partial order of the language (obj_partial_cmp) is the restriction of a
   total comparison obj_total on ALL values.  Hence wherever the comparisons involved are defined,
   the order laws hold for nested sequences too, and sorting a pairwise comparable list is sorting
   by a total preorder. *)
From Coq Require Import ZArith NArith QArith Bool List Lia Sorting.Permutation Sorting.Sorted.
From NV Require Import Common.Outcome Common.MachineInt Num.FloatBits Num.Cmp Num.CmpSpec
  Num.Cmp_proofs Num.Cmp_laws_proofs Num.Cmp_seq_proofs Num.Sort_proofs.
Import ListNotations.
Open Scope Z_scope.

(* the four facts about one element x that make a comparison total; each has x as the first
   argument of a comparison, so they can be proved by induction on x *)
Definition good {A} (c : A -> A -> comparison) (x : A) : Prop :=
  (forall y, c y x = CompOpp (c x y)) /\
  (forall y z, c x y = Eq -> c x z = c y z) /\
  (forall y z, c y z = Eq -> c x y = c x z) /\
  (forall y z, c x y = Lt -> c y z = Lt -> c x z = Lt).

Lemma good_total {A} (c : A -> A -> comparison) : (forall x, good c x) -> total_cmp c.
Proof. intros G. split; intros x; destruct (G x) as (a & b & d & e); auto. Qed.
Lemma total_good {A} (c : A -> A -> comparison) : total_cmp c -> forall x, good c x.
Proof.
  intros T x. repeat split.
  - apply (tc_antisym c T).
  - apply (tc_eq_l c T).
  - intros y z H. now apply (tc_eq_r c T).
  - apply (tc_lt_trans c T).
Qed.


Lemma slice_good {A} (c : A -> A -> comparison) l : Forall (good c) l -> good (slice_total c) l.
Proof.
  induction l as [|x l IH]; intros F.
  - repeat split.
    + intros [|y r]; reflexivity.
    + intros [|y r] z; cbn; try discriminate. reflexivity.
    + intros [|y r] [|w z]; cbn; intros; try discriminate; try reflexivity; try (destruct (c y w); discriminate).
    + intros [|y r] [|w z]; cbn; intros; try discriminate; try reflexivity; try (destruct (c y w); discriminate).
  - inversion F as [|? ? Gx Fl]; subst. destruct Gx as (Xa & Xb & Xd & Xe).
    destruct (IH Fl) as (La & Lb & Ld & Le). repeat split.
    + intros [|y r]; cbn; [reflexivity|]. rewrite (Xa y). destruct (c x y); cbn; try reflexivity. apply La.
    + intros [|y r] z; cbn; [discriminate|]. destruct (c x y) eqn:C; try discriminate. intros H.
      destruct z as [|w z]; [reflexivity|]. rewrite (Xb y w C). destruct (c y w); try reflexivity. now apply Lb.
    + intros [|y r] [|w z]; cbn; try discriminate; try reflexivity.
      destruct (c y w) eqn:C; try discriminate. intros H. rewrite (Xd y w C).
      destruct (c x w); try reflexivity. now apply Ld.
    + intros [|y r] [|w z]; cbn; try discriminate; try reflexivity; try (intros _ H; discriminate H).
      destruct (c x y) eqn:C1; try discriminate; destruct (c y w) eqn:C2; try discriminate; intros H1 H2.
      * rewrite (Xb y w C1), C2. now apply (Le r z).
      * now rewrite (Xb y w C1), C2.
      * now rewrite <- (Xd y w C2), C1.
      * now rewrite (Xe y w C1 C2).
Qed.

Lemma total_slice {A} (c : A -> A -> comparison) : total_cmp c -> total_cmp (slice_total c).
Proof.
  intros T. apply good_total. intros l. apply slice_good. apply Forall_forall. intros x _. now apply total_good.
Qed.

(* ------------------------------------------------------------------ the total extension *)

Lemma obj_total_list l r : obj_total (OList l) (OList r) = slice_total obj_total l r.
Proof.
  revert r. induction l as [|x l IH]; intros [|y r]; try reflexivity.
  cbn [slice_total]. rewrite <- IH. reflexivity.
Qed.

Lemma total_Ncompare : total_cmp N.compare.
Proof.
  split.
  - intros x y. apply N.compare_antisym.
  - intros x y z H. apply N.compare_eq in H. now subst.
  - intros x y z. rewrite !N.compare_lt_iff. apply N.lt_trans.
Qed.

Ltac kinds :=
  rewrite ?obj_total_list in *; cbn -[slice_total num_compare] in *; intros;
  try reflexivity; try discriminate.

Lemma obj_total_good a : good obj_total a.
Proof.
  induction a as [|n|l IH|s|v|bs|k|k] using obj_ind'.
  - repeat split; [intros y; destruct y|intros y z; destruct y, z ..]; kinds.
  - destruct (total_good _ total_num_compare n) as (Na & Nb & Nd & Ne).
    repeat split; [intros y; destruct y|intros y z; destruct y, z ..]; kinds; auto.
    eapply Ne; eauto.
  - destruct (slice_good obj_total l IH) as (La & Lb & Ld & Le).
    repeat split; [intros y; destruct y|intros y z; destruct y, z ..]; kinds; auto.
    eapply Le; eauto.
  - destruct (total_good _ (total_slice _ total_Ncompare) s) as (La & Lb & Ld & Le).
    repeat split; [intros y; destruct y|intros y z; destruct y, z ..]; kinds; auto.
    eapply Le; eauto.
  - destruct (total_good _ (total_slice _ total_num_compare) v) as (La & Lb & Ld & Le).
    repeat split; [intros y; destruct y|intros y z; destruct y, z ..]; kinds; auto.
    eapply Le; eauto.
  - destruct (total_good _ (total_slice _ total_Ncompare) bs) as (La & Lb & Ld & Le).
    repeat split; [intros y; destruct y|intros y z; destruct y, z ..]; kinds; auto.
    eapply Le; eauto.
  - repeat split; [intros y; destruct y|intros y z; destruct y, z ..]; kinds.
  - repeat split; [intros y; destruct y|intros y z; destruct y, z ..]; kinds.
Qed.

Theorem total_obj_total : total_cmp obj_total.
Proof. apply good_total. exact obj_total_good. Qed.

(* ------------------------------------------------------------------ agreement with the partial order *)
Lemma nnum_partial_cmp_total a b o : nnum_partial_cmp a b = Some o -> num_compare a b = o.
Proof.
  rewrite complex_as_pairs. unfold pair_cmp, num_compare, num_key, lexc.
  destruct (num_val a) as [x1 y1], (num_val b) as [x2 y2]; cbn.
  destruct x1 as [e1|], x2 as [e2|]; cbn; try discriminate.
  destruct (ext_compare e1 e2); try congruence.
  destruct y1, y2; cbn; congruence.
Qed.

Lemma slice_agree {A} (cmp : A -> A -> option comparison) (c : A -> A -> comparison) l :
  Forall (fun x => forall y o, cmp x y = Some o -> c x y = o) l ->
  forall r o, slice_partial_cmp cmp l r = Some o -> slice_total c l r = o.
Proof.
  induction l as [|x l IH]; intros F [|y r] o; cbn; try congruence.
  inversion F as [|? ? Hx Fl]; subst.
  destruct (cmp x y) as [[]|] eqn:C; try discriminate; rewrite (Hx y _ C); try congruence.
  now apply IH.
Qed.

Lemma n_agree l : Forall (fun x => forall y o, n_partial_cmp x y = Some o -> N.compare x y = o) l.
Proof. apply Forall_forall. intros x _ y o. unfold n_partial_cmp. congruence. Qed.

Theorem partial_cmp_is_total a : forall b o, obj_partial_cmp a b = Some o -> obj_total a b = o.
Proof.
  induction a as [|n|l IH|s|v|bs|k|k] using obj_ind'; intros b o; destruct b; try discriminate.
  - cbn. congruence.
  - cbn. apply nnum_partial_cmp_total.
  - rewrite obj_partial_cmp_list, obj_total_list. now apply slice_agree.
  - cbn [obj_partial_cmp obj_total]. apply slice_agree, n_agree.
  - cbn [obj_partial_cmp obj_total]. apply slice_agree. apply Forall_forall. intros x _ y p. apply nnum_partial_cmp_total.
  - cbn [obj_partial_cmp obj_total]. apply slice_agree, n_agree.
Qed.

Lemma ncmp_is_partial_cmp a b o : ncmp a b = Ok o -> obj_partial_cmp a b = Some o.
Proof.
  destruct a, b; cbn; try discriminate;
    match goal with |- context [match ?x with Some _ => _ | None => _ end] => destruct x end; congruence.
Qed.

(* ------------------------------------------------------------------ order laws for all values *)
Theorem lt_transitive_obj a b c :
  accept OpLt a b = Ok true -> accept OpLt b c = Ok true ->
  forall o, ncmp a c = Ok o -> o = Lt.
Proof.
  unfold accept. destruct (ncmp a b) as [o1| | |] eqn:N1; try discriminate.
  destruct (ncmp b c) as [o2| | |] eqn:N2; try discriminate. cbn.
  intros H1 H2 o N3.
  apply ncmp_is_partial_cmp, partial_cmp_is_total in N1, N2, N3.
  destruct o1; try discriminate. destruct o2; try discriminate.
  rewrite <- N3. exact (tc_lt_trans _ total_obj_total a b c N1 N2).
Qed.

Theorem spaceship_antisym_obj a b x y : spaceship a b = Ok x -> spaceship b a = Ok y -> y = - x.
Proof.
  unfold spaceship. destruct (ncmp a b) as [o1| | |] eqn:N1; try discriminate.
  destruct (ncmp b a) as [o2| | |] eqn:N2; try discriminate. cbn. intros [= <-] [= <-].
  apply ncmp_is_partial_cmp, partial_cmp_is_total in N1, N2.
  rewrite <- N1, <- N2, (tc_antisym _ total_obj_total a b). destruct (obj_total a b); reflexivity.
Qed.

(* ------------------------------------------------------------------ sorting lists of values *)

Lemma comparable_agrees l : pairwise_comparable l ->
  agrees_on obj_partial_cmp (fun x => x) obj_total l.
Proof.
  intros H x y Hx Hy. destruct (obj_partial_cmp x y) as [o|] eqn:E.
  - now rewrite (partial_cmp_is_total x y o E).
  - exfalso. exact (H x y Hx Hy E).
Qed.

Lemma ncmp_agrees_total l : pairwise_ncmp l -> ncmp_agrees (fun x => x) obj_total l.
Proof.
  intros H x y Hx Hy. specialize (H x y Hx Hy). destruct (ncmp x y) as [o| | |] eqn:E; try discriminate.
  apply ncmp_is_partial_cmp, partial_cmp_is_total in E. now subst.
Qed.


Lemma StronglySorted_weaken {A} (P Q : A -> A -> Prop) s :
  (forall x y, In x s -> In y s -> P x y -> Q x y) -> StronglySorted P s -> StronglySorted Q s.
Proof.
  induction s as [|x s IH]; intros H S; [constructor|].
  apply StronglySorted_inv in S. destruct S as [S F]. constructor.
  - apply IH; auto. intros; apply H; cbn; auto.
  - rewrite Forall_forall in *. intros y Hy. apply H; cbn; auto.
Qed.

(* sort: on a list whose elements are pairwise comparable, the result is an ascending, stable
   rearrangement -- stated with the language's own comparison only *)
Theorem sort_sorted_stable_perm l : pairwise_comparable l ->
  exists s, sorted_objs l = Ok s /\ Permutation l s /\ StronglySorted le_obj s /\
            forall k, In k l -> filter (eqv_obj k) s = filter (eqv_obj k) l.
Proof.
  intros PC. destruct (isort_stable_sort obj_partial_cmp (fun x => x) obj_total total_obj_total l (comparable_agrees l PC))
    as [s [I [P [S F]]]].
  exists s. unfold sorted_objs. rewrite I. repeat split; auto.
  - eapply StronglySorted_weaken; [|exact S]. intros x y Hx Hy L.
    assert (Hx' : In x l) by (eapply Permutation_in; [apply Permutation_sym; exact P|exact Hx]).
    assert (Hy' : In y l) by (eapply Permutation_in; [apply Permutation_sym; exact P|exact Hy]).
    exists (obj_total x y). split; [apply (comparable_agrees l PC); auto|exact L].
  - intros k Hk. specialize (F k).
    assert (E : forall t, (forall x, In x t -> In x l) -> filter (eqv_obj k) t = filter (same_class obj_total (fun x => x) k) t).
    { intros t Ht. apply filter_ext_in. intros x Hx. unfold eqv_obj, same_class.
      rewrite (comparable_agrees l PC x k (Ht x Hx) Hk). reflexivity. }
    rewrite !E; auto. intros x Hx. eapply Permutation_in; [apply Permutation_sym; exact P|exact Hx].
Qed.

(* and every list with those three properties is the one sort returns: the choice of insertion
   sort for Vec::sort_by loses nothing *)
Theorem stable_sort_unique_obj l s : pairwise_comparable l ->
  stable_sort_of obj_total (fun x => x) l s -> sorted_objs l = Ok s.
Proof.
  intros PC H. unfold sorted_objs.
  now rewrite (any_stable_sort_is_isort obj_partial_cmp (fun x => x) obj_total total_obj_total l s (comparable_agrees l PC) H).
Qed.

(* sort_on: the same, on the keys, with ncmp *)
Theorem sort_on_stable {A} (key : A -> obj) (l : list A) : pairwise_ncmp (map key l) ->
  exists s, sorted_on key l = Ok s /\ stable_sort_of obj_total key l s.
Proof.
  intros PC.
  assert (Ag : agrees_on ncmp_opt key obj_total l).
  { intros x y Hx Hy. unfold ncmp_opt.
    pose proof (PC (key x) (key y) (in_map key l x Hx) (in_map key l y Hy)) as H.
    destruct (ncmp (key x) (key y)) as [o| | |] eqn:E; try discriminate.
    apply ncmp_is_partial_cmp, partial_cmp_is_total in E. now subst. }
  destruct (isort_stable_sort ncmp_opt key obj_total total_obj_total l Ag) as [s [I H]].
  exists s. unfold sorted_on. now rewrite I.
Qed.

(* vectors: numbers without NaN are always pairwise comparable *)
Theorem sort_nums_stable (l : list nnum) : Forall (fun n => nnum_is_nan n = false) l ->
  exists s, sorted_nums l = Ok s /\ stable_sort_of num_compare (fun x => x) l s.
Proof.
  intros F.
  assert (Ag : agrees_on nnum_partial_cmp (fun x => x) num_compare l).
  { rewrite Forall_forall in F. intros x y Hx Hy. apply partial_cmp_is_num_compare; auto. }
  destruct (isort_stable_sort nnum_partial_cmp (fun x => x) num_compare total_num_compare l Ag) as [s [I H]].
  exists s. unfold sorted_nums. now rewrite I.
Qed.

(* a sort that answers never placed an incomparable pair next to each other: errors are not swallowed *)
Theorem sort_none_if_all_incomparable x y :
  obj_partial_cmp x y = None -> sorted_objs [x; y] = Err EValue.
Proof. intros H. unfold sorted_objs. cbn. now rewrite H. Qed.

(* min / max of a pairwise comparable list *)
Theorem min_max_agree_with_order l : l <> [] -> pairwise_ncmp l ->
  (exists pre m post, l = pre ++ m :: post /\ builtin_min l = Ok m /\
     (forall y, In y pre -> ncmp m y = Ok Lt) /\ (forall y, In y post -> ncmp y m <> Ok Lt)) /\
  (exists pre m post, l = pre ++ m :: post /\ builtin_max l = Ok m /\
     (forall y, In y pre -> ncmp m y = Ok Gt) /\ (forall y, In y post -> ncmp y m <> Ok Gt)).
Proof.
  intros NE PC. pose proof (ncmp_agrees_total l PC) as Ag. split.
  - destruct (min_is_first_minimum (fun x => x) obj_total total_obj_total l NE Ag) as [pre [m [post [E [M [H1 H2]]]]]].
    exists pre, m, post. repeat split; auto.
    + intros y Hy. rewrite (Ag m y), (H1 y Hy); auto; subst l; apply in_or_app; cbn; auto.
    + intros y Hy. rewrite (Ag y m); [|subst l; apply in_or_app; cbn; auto ..]. intros [= C]. exact (H2 y Hy C).
  - destruct (max_is_first_maximum (fun x => x) obj_total total_obj_total l NE Ag) as [pre [m [post [E [M [H1 H2]]]]]].
    exists pre, m, post. repeat split; auto.
    + intros y Hy. rewrite (Ag m y), (H1 y Hy); auto; subst l; apply in_or_app; cbn; auto.
    + intros y Hy. rewrite (Ag y m); [|subst l; apply in_or_app; cbn; auto ..]. intros [= C]. exact (H2 y Hy C).
Qed.

(* min is the first element of sort; max is == to its last element *)
Theorem min_max_vs_sort l s m M : pairwise_ncmp l ->
  sorted_objs l = Ok s -> builtin_min l = Ok m -> builtin_max l = Ok M ->
  hd_error s = Some m /\ forall d, ncmp (last s d) M = Ok Eq.
Proof.
  intros PC Hs Hm HM.
  assert (NE : l <> []) by (intros ->; discriminate Hm).
  assert (PC' : pairwise_comparable l).
  { intros x y Hx Hy E. specialize (PC x y Hx Hy). destruct (ncmp x y) as [o| | |] eqn:N; try discriminate.
    apply ncmp_is_partial_cmp in N. congruence. }
  pose proof (ncmp_agrees_total l PC) as Ag.
  destruct (isort_stable_sort obj_partial_cmp (fun x => x) obj_total total_obj_total l (comparable_agrees l PC'))
    as [s' [I St]].
  unfold sorted_objs in Hs. rewrite I in Hs. cbn in Hs. injection Hs as <-.
  split.
  - destruct (min_is_first_minimum (fun x => x) obj_total total_obj_total l NE Ag) as [pre [m' [post [E [Mn [H1 H2]]]]]].
    unfold builtin_min in Hm. rewrite Mn in Hm. injection Hm as <-.
    eapply (head_of_stable_sort (fun x => x) obj_total total_obj_total l s' pre m' post); eauto.
  - intros d.
    destruct (max_is_first_maximum (fun x => x) obj_total total_obj_total l NE Ag) as [pre [M' [post [E [Mx [H1 H2]]]]]].
    unfold builtin_max in HM. rewrite Mx in HM. injection HM as <-.
    assert (HM' : In M' l) by (subst l; apply in_or_app; cbn; auto).
    assert (Hmax : forall y, In y l -> le_key obj_total (fun x => x) y M').
    { intros y Hy. subst l. apply in_app_or in Hy. destruct Hy as [Hy|[<-|Hy]]; unfold le_key.
      - rewrite (tc_antisym _ total_obj_total), (H1 y Hy). discriminate.
      - rewrite (tc_refl _ total_obj_total). discriminate.
      - exact (H2 y Hy). }
    pose proof (last_of_stable_sort (fun x => x) obj_total total_obj_total l s' M' d St HM' Hmax) as E'.
    assert (Hl : In (last s' d) l).
    { destruct St as [P _]. eapply Permutation_in; [apply Permutation_sym; exact P|].
      apply last_In. intros ->. apply Permutation_sym, Permutation_nil in P. congruence. }
    now rewrite (Ag (last s' d) M' Hl HM'), E'.
Qed.

(* a chain `x op1 y1 op2 y2 ...` is the conjunction of its links (evaluated left to right) *)

Theorem chain_is_conjunction x links :
  chain_run x links = Ok true <->
  Forall (fun t => accept (fst (fst t)) (snd (fst t)) (snd t) = Ok true) (link_list x links).
Proof.
  revert x. induction links as [|[op y] r IH]; intros x; cbn [chain_run link_list].
  - split; auto.
  - split.
    + destruct (accept op x y) as [[]| | |] eqn:E; cbn; try discriminate. intros H. constructor; [exact E|]. now apply IH.
    + intros H. inversion H as [|? ? H1 H2]; subst. cbn in H1. rewrite H1. cbn. now apply IH.
Qed.

(* errors are not swallowed by sort: an element comparable with no other element (a NaN, a string
   among numbers, ...) makes the sort of any list of two or more elements raise, wherever it stands *)
Theorem sort_isolated_raises pre x post : pre ++ post <> [] ->
  (forall y, In y (pre ++ post) -> obj_partial_cmp x y = None /\ obj_partial_cmp y x = None) ->
  sorted_objs (pre ++ x :: post) = Err EValue.
Proof.
  intros NE Iso. unfold sorted_objs.
  now rewrite (isort_isolated_fails obj_partial_cmp (fun x => x) pre x post NE Iso).
Qed.
