(* C08 proofs, part 3: sequences compare lexicographically by the element order. *)
From Coq Require Import ZArith NArith QArith Bool List Lia.
From NV Require Import Common.Outcome Common.MachineInt Num.FloatBits Num.Cmp Num.CmpSpec Num.Cmp_proofs Num.Cmp_laws_proofs.
Import ListNotations.
Open Scope Z_scope.

Section Slices.
  Context {A : Type} (cmp : A -> A -> option comparison) (eq : A -> A -> bool).

  (* the loop of core::slice's partial_compare is the lexicographic extension *)
  Lemma slice_partial_cmp_lex l r : slice_partial_cmp cmp l r = lex_spec cmp l r.
  Proof.
    revert r. induction l as [|x l IH]; intros [|y r]; try reflexivity.
    unfold lex_spec. cbn [slice_partial_cmp eq_prefix].
    destruct (cmp x y) as [[]|] eqn:E; cbn [nth_error]; try (now rewrite E).
    rewrite IH. reflexivity.
  Qed.

  Lemma slice_eq_Forall2 l r : slice_eq eq l r = true <-> Forall2 (fun x y => eq x y = true) l r.
  Proof.
    revert r. induction l as [|x l IH]; intros [|y r]; cbn; split; intros H; try discriminate; try constructor;
      try solve [inversion H].
    - apply andb_true_iff in H. tauto.
    - apply andb_true_iff in H. apply IH. tauto.
    - inversion H; subst. apply andb_true_iff. split; [assumption|now apply IH].
  Qed.

  (* if == and <=> cohere on the elements, they cohere on the sequences *)
  Lemma slice_eq_coherent l r :
    (forall x y, In x l -> In y r -> eq x y = is_Eq (cmp x y)) ->
    slice_eq eq l r = is_Eq (slice_partial_cmp cmp l r).
  Proof.
    revert r. induction l as [|x l IH]; intros [|y r] H; try reflexivity.
    cbn [slice_eq slice_partial_cmp]. rewrite (H x y) by (now left).
    destruct (cmp x y) as [[]|]; cbn; try reflexivity.
    apply IH. intros; apply H; now right.
  Qed.
End Slices.

Lemma obj_partial_cmp_list l r :
  obj_partial_cmp (OList l) (OList r) = slice_partial_cmp obj_partial_cmp l r.
Proof.
  revert r. induction l as [|x l IH]; intros [|y r]; try reflexivity.
  cbn [slice_partial_cmp]. rewrite <- IH. reflexivity.
Qed.

Lemma obj_eq_list l r : obj_eq (OList l) (OList r) = slice_eq obj_eq l r.
Proof.
  revert r. induction l as [|x l IH]; intros [|y r]; try reflexivity.
  cbn [slice_eq]. rewrite <- IH. reflexivity.
Qed.

Theorem lex_order :
  (forall l r, obj_partial_cmp (OList l) (OList r) = lex_spec obj_partial_cmp l r) /\
  (forall l r, obj_partial_cmp (OVector l) (OVector r) = lex_spec nnum_partial_cmp l r) /\
  (forall l r, obj_partial_cmp (OString l) (OString r) = lex_spec n_partial_cmp l r) /\
  (forall l r, obj_partial_cmp (OBytes l) (OBytes r) = lex_spec n_partial_cmp l r).
Proof.
  repeat split; intros.
  - rewrite obj_partial_cmp_list. apply slice_partial_cmp_lex.
  - apply slice_partial_cmp_lex.
  - apply slice_partial_cmp_lex.
  - apply slice_partial_cmp_lex.
Qed.

(* ordering operators on two lists / vectors / strings / bytes return what the lexicographic
   comparison says, and raise when it meets an incomparable pair first *)
Theorem ncmp_seq a b : is_seq a = true -> is_seq b = true ->
  ncmp a b = match obj_partial_cmp a b with Some o => Ok o | None => Err EType end.
Proof. destruct a, b; try discriminate; reflexivity. Qed.

(* a structural induction principle for obj (lists nest) *)
Section ObjInd.
  Variable P : obj -> Prop.
  Hypothesis Hnull : P ONull.
  Hypothesis Hnum : forall n, P (ONum n).
  Hypothesis Hlist : forall l, Forall P l -> P (OList l).
  Hypothesis Hstr : forall s, P (OString s).
  Hypothesis Hvec : forall v, P (OVector v).
  Hypothesis Hbytes : forall bs, P (OBytes bs).
  Hypothesis Hdict : forall k, P (ODict k).
  Hypothesis Hother : forall k, P (OOther k).
  Fixpoint obj_ind' (a : obj) : P a :=
    match a with
    | ONull => Hnull
    | ONum n => Hnum n
    | OList l => Hlist l ((fix go (l : list obj) : Forall P l :=
                             match l with [] => Forall_nil P | x :: r => Forall_cons x (obj_ind' x) (go r) end) l)
    | OString s => Hstr s
    | OVector v => Hvec v
    | OBytes b => Hbytes b
    | ODict k => Hdict k
    | OOther k => Hother k
    end.
End ObjInd.


Lemma n_eq_coherent x y : N.eqb x y = is_Eq (n_partial_cmp x y).
Proof.
  unfold n_partial_cmp. cbn. destruct (N.eqb_spec x y) as [->|H].
  - now rewrite N.compare_refl.
  - destruct (N.compare_spec x y); congruence.
Qed.

(* == is true exactly when the three-way comparison answers Equal *)
Theorem eq_coherent_with_cmp a : clean a -> forall b, clean b ->
  obj_eq a b = is_Eq (obj_partial_cmp a b).
Proof.
  induction a as [|n|l IH|s|v|bs|k|k] using obj_ind'; intros Ca b Cb;
    inversion Ca as [? Oa|? Fa|?|? Fa|?]; subst; inversion Cb as [m Ob|r Fb|t|w Fb|cs]; subst; try reflexivity.
  - cbn. rewrite eq_is_num_compare, partial_cmp_is_num_compare by (assumption || apply Oa || apply Ob).
    destruct (num_compare n m); reflexivity.
  - rewrite obj_eq_list, obj_partial_cmp_list. apply slice_eq_coherent.
    intros x y Hx Hy. rewrite Forall_forall in IH, Fa, Fb. apply IH; auto.
  - cbn [obj_eq obj_partial_cmp]. apply slice_eq_coherent. intros; apply n_eq_coherent.
  - cbn [obj_eq obj_partial_cmp]. apply slice_eq_coherent. intros x y Hx Hy.
    rewrite Forall_forall in Fa, Fb. pose proof (Fa x Hx) as Ox. pose proof (Fb y Hy) as Oy.
    rewrite eq_is_num_compare, partial_cmp_is_num_compare by (assumption || apply Ox || apply Oy).
    destruct (num_compare x y); reflexivity.
  - cbn [obj_eq obj_partial_cmp]. apply slice_eq_coherent. intros; apply n_eq_coherent.
Qed.
