(* C06 specification: what each integer builtin must return, stated on mathematical integers
   only (no representation in sight), so `model = spec` is exactness AND independence from the
   representation of operands and intermediates. *)
From Coq Require Import ZArith Bool List Znumtheory.
From NV Require Import Common.Outcome Common.MachineInt Num.NInt.
Open Scope Z_scope.

(* the value a builtin result denotes: an integer, the reciprocal of an integer, NaN *)
Inductive numv := VI (z : Z) | VRecip (z : Z) | VNaN.
Definition num_val (n : num) : numv :=
  match n with NI n => VI (val n) | NRecip n => VRecip (val n) | NNaN => VNaN end.
Definition denote (o : outcome num) : outcome numv := omap num_val o.
Definition vbool (b : bool) : numv := VI (if b then 1 else 0).

Definition spec_add (a b : Z) : outcome numv := Ok (VI (a + b)).
Definition spec_sub (a b : Z) : outcome numv := Ok (VI (a - b)).
Definition spec_mul (a b : Z) : outcome numv := Ok (VI (a * b)).
(* `%` truncates (sign of the dividend), `//` floors, `%%` has the divisor's sign; a zero divisor is a value error *)
Definition spec_rem (a b : Z) : outcome numv := if b =? 0 then Err EValue else Ok (VI (Z.rem a b)).
Definition spec_div_floor (a b : Z) : outcome numv := if b =? 0 then Err EValue else Ok (VI (a / b)).
Definition spec_mod_floor (a b : Z) : outcome numv := if b =? 0 then Err EValue else Ok (VI (a mod b)).
Definition spec_div_exact (a b : Z) : outcome numv :=
  if b =? 0 then Err EValue else if a mod b =? 0 then Ok (VI (a / b)) else Err EValue.
Definition spec_pow (a b : Z) : outcome numv :=
  Ok (if b <? 0 then VRecip (a ^ (- b)) else VI (a ^ b)).
(* bit operators on infinite two's complement *)
Definition spec_and (a b : Z) : outcome numv := Ok (VI (Z.land a b)).
Definition spec_or (a b : Z) : outcome numv := Ok (VI (Z.lor a b)).
Definition spec_xor (a b : Z) : outcome numv := Ok (VI (Z.lxor a b)).
(* shifts by a count that fits a usize: exact multiplication / floor division by 2^b; otherwise NaN *)
Definition spec_shl (a b : Z) : outcome numv :=
  Ok (if (0 <=? b) && (b <=? usize_max) then VI (a * 2 ^ b) else VNaN).
Definition spec_shr (a b : Z) : outcome numv :=
  Ok (if (0 <=? b) && (b <=? usize_max) then VI (a / 2 ^ b) else VNaN).
Definition spec_gcd (a b : Z) : outcome numv := Ok (VI (Z.gcd a b)).
Definition spec_lcm (a b : Z) : outcome numv := Ok (VI (Z.lcm a b)).
Definition spec_neg (a : Z) : outcome numv := Ok (VI (- a)).
Definition spec_not (a : Z) : outcome numv := Ok (VI (- a - 1)).
Definition spec_abs (a : Z) : outcome numv := Ok (VI (Z.abs a)).
Definition spec_signum (a : Z) : outcome numv := Ok (VI (Z.sgn a)).
Definition spec_even (a : Z) : outcome numv := Ok (vbool (Z.even a)).
Definition spec_odd (a : Z) : outcome numv := Ok (vbool (Z.odd a)).

(* factorize: the product a list of (base, exponent) pairs denotes, and what a listed pair may be:
   the sign marker (-1, 1) or a prime with a positive exponent *)
Definition fprod (l : list (Z * Z)) : Z := fold_right (fun pe r => fst pe ^ snd pe * r) 1 l.
Definition good_factor (pe : Z * Z) : Prop :=
  (fst pe = -1 /\ snd pe = 1) \/ (prime (fst pe) /\ 0 < snd pe).
