(* C06 model: transcription of /repo/src/nint.rs (enum NInt { Small(i64), Big(BigInt) }) operator by
   operator with its branch structure, of the integer arms of src/nnum.rs that the integer
   builtins go through (shl/shr by to_usize, pow_big_ints, div_floor/mod_floor, is_nonzero,
   lazy_factorize) and of the zero-divisor guards of the builtins `% // %% /!`, `even`, `odd`
   in src/lib.rs.  num-bigint's BigInt is modelled by Z (trusted): + - * are Z's, `/` and `%`
   truncate (Z.quot / Z.rem) and panic on a zero divisor, div_floor/mod_floor are Z.div / Z.modulo,
   & | ^ ! act on infinite two's complement (Z.land Z.lor Z.lxor Z.lnot), << and >> are
   Z.shiftl / Z.shiftr, sqrt is Z.sqrt, gcd/lcm are Z.gcd / Z.lcm.
   i64 operations are written on the 64-bit patterns.  Definitions only; proofs in NInt_proofs.v. *)
From Coq Require Import ZArith List Bool.
From NV Require Import Common.Outcome Common.MachineInt.
Import ListNotations.
Open Scope Z_scope.

Inductive nint := Small (z : Z) | Big (z : Z).

(* the integer a representation denotes *)
Definition val (n : nint) : Z := match n with Small z => z | Big z => z end.
(* representation invariant: a Small holds an i64; the code does NOT normalise Big (Big 3 is reachable) *)
Definition ok (n : nint) : Prop := match n with Small z => in_i64 z | Big _ => True end.
Definition is_small (n : nint) : bool := match n with Small _ => true | Big _ => false end.

(* BigInt::to_i64 / to_usize / to_u32 / to_i32 *)
Definition big_to_i64 (z : Z) : option Z := if in_i64b z then Some z else None.
Definition big_to_usize (z : Z) : option Z := if in_usizeb z then Some z else None.
(* impl From<BigInt> for NInt *)
Definition of_big (z : Z) : nint :=
  match big_to_i64 z with Some x => Small x | None => Big z end.
(* NInt::usize / NInt::u64 *)
Definition of_usize (z : Z) : nint := of_big z.
(* to_bigint / into_bigint *)
Definition to_bigint (n : nint) : Z := val n.

(* forward!(to_i64), forward!(to_usize): i64::to_usize is None for negatives *)
Definition to_i64 (n : nint) : option Z :=
  match n with Small z => Some z | Big z => big_to_i64 z end.
Definition to_usize (n : nint) : option Z :=
  match n with Small z => if 0 <=? z then Some z else None | Big z => big_to_usize z end.
Definition is_zero (n : nint) : bool := match n with Small z => z =? 0 | Big z => z =? 0 end.
Definition is_positive (n : nint) : bool := match n with Small z => 0 <? z | Big z => 0 <? z end.
Definition is_negative (n : nint) : bool := match n with Small z => z <? 0 | Big z => z <? 0 end.

(* ------------------------------------------------------------------ i64 primitives *)
(* i64::checked_{add,sub,mul}: None on overflow *)
Definition checked (z : Z) : option Z := if in_i64b z then Some z else None.
Definition checked_add (a b : Z) : option Z := checked (a + b).
Definition checked_sub (a b : Z) : option Z := checked (a - b).
Definition checked_mul (a b : Z) : option Z := checked (a * b).
(* i64::checked_div / checked_rem: None when the divisor is 0 or on MIN / -1 *)
Definition checked_div (a b : Z) : option Z :=
  if b =? 0 then None else checked (Z.quot a b).
Definition checked_rem (a b : Z) : option Z :=
  if b =? 0 then None else if (a =? i64_min) && (b =? -1) then None else Some (Z.rem a b).
Definition checked_abs (a : Z) : option Z := checked (Z.abs a).
(* i64 & | ^ !: the 64-bit operation on the bit patterns, reinterpreted as signed *)
Definition and_i64 (a b : Z) : Z := as_i64 (Z.land (as_usize a) (as_usize b)).
Definition or_i64 (a b : Z) : Z := as_i64 (Z.lor (as_usize a) (as_usize b)).
Definition xor_i64 (a b : Z) : Z := as_i64 (Z.lxor (as_usize a) (as_usize b)).
Definition not_i64 (a : Z) : Z := as_i64 (usize_max - as_usize a).
Definition signum_i64 (a : Z) : Z := if a =? 0 then 0 else if 0 <? a then 1 else -1.

(* ------------------------------------------------------------------ BigInt primitives (Z) *)
Definition big_div (a b : Z) : outcome Z := if b =? 0 then Panic else Ok (Z.quot a b).
Definition big_rem (a b : Z) : outcome Z := if b =? 0 then Panic else Ok (Z.rem a b).
Definition big_div_floor (a b : Z) : outcome Z := if b =? 0 then Panic else Ok (Z.div a b).
Definition big_mod_floor (a b : Z) : outcome Z := if b =? 0 then Panic else Ok (Z.modulo a b).
Definition big_sqrt (a : Z) : outcome Z := if a <? 0 then Panic else Ok (Z.sqrt a).

(* ------------------------------------------------------------------ impl_binary_checked!
   All four owned/borrowed variants have this one meaning: both Small and the checked i64
   operation succeeds => Small, otherwise the BigInt operation on the widened operands. *)
Definition binary_checked (chk : Z -> Z -> option Z) (f : Z -> Z -> Z) (a b : nint) : nint :=
  match a, b with
  | Small x, Small y =>
      match chk x y with Some r => Small r | None => Big (f x y) end
  | _, _ => Big (f (to_bigint a) (to_bigint b))
  end.
Definition binary_checked_p (chk : Z -> Z -> option Z) (f : Z -> Z -> outcome Z) (a b : nint) : outcome nint :=
  match a, b with
  | Small x, Small y =>
      match chk x y with Some r => Ok (Small r) | None => omap Big (f x y) end
  | _, _ => omap Big (f (to_bigint a) (to_bigint b))
  end.

Definition add : nint -> nint -> nint := binary_checked checked_add Z.add.
Definition sub : nint -> nint -> nint := binary_checked checked_sub Z.sub.
Definition mul : nint -> nint -> nint := binary_checked checked_mul Z.mul.
Definition div : nint -> nint -> outcome nint := binary_checked_p checked_div big_div.
Definition rem : nint -> nint -> outcome nint := binary_checked_p checked_rem big_rem.

(* ------------------------------------------------------------------ impl_binary! (bit operators) *)
Definition binary_bits (f64 : Z -> Z -> Z) (f : Z -> Z -> Z) (a b : nint) : nint :=
  match a, b with
  | Small x, Small y => Small (f64 x y)
  | _, _ => Big (f (to_bigint a) (to_bigint b))
  end.
Definition bitand : nint -> nint -> nint := binary_bits and_i64 Z.land.
Definition bitor : nint -> nint -> nint := binary_bits or_i64 Z.lor.
Definition bitxor : nint -> nint -> nint := binary_bits xor_i64 Z.lxor.

(* impl Neg: NInt::from(-bigint) *)
Definition neg (a : nint) : nint := of_big (- to_bigint a).
(* impl Not *)
Definition not (a : nint) : nint :=
  match a with Small x => Small (not_i64 x) | Big x => Big (Z.lnot x) end.

(* ------------------------------------------------------------------ PartialEq / Ord / Hash *)
Definition eqb (a b : nint) : bool :=
  match a, b with
  | Small x, Small y => x =? y
  | Small x, Big y => match big_to_i64 y with Some n => x =? n | None => false end
  | Big x, Small y => match big_to_i64 x with Some n => n =? y | None => false end
  | Big x, Big y => x =? y
  end.
Definition cmp (a b : nint) : comparison :=
  match a, b with
  | Small x, Small y => x ?= y
  | _, _ => to_bigint a ?= to_bigint b
  end.
Definition ltb (a b : nint) : bool := match cmp a b with Lt => true | _ => false end.
Definition gtb (a b : nint) : bool := match cmp a b with Gt => true | _ => false end.
Definition leb (a b : nint) : bool := match cmp a b with Gt => false | _ => true end.
Definition geb (a b : nint) : bool := match cmp a b with Lt => false | _ => true end.
(* what is written to the Hasher *)
Inductive hash_write := WriteI64 (z : Z) | WriteBig (z : Z).
Definition hash (a : nint) : list hash_write :=
  match a with
  | Small x => [WriteI64 x]
  | Big x => match big_to_i64 x with Some n => [WriteI64 n] | None => [WriteBig x] end
  end.

(* ------------------------------------------------------------------ inherent methods *)
Definition div_floor (a b : nint) : outcome nint := omap Big (big_div_floor (to_bigint a) (to_bigint b)).
Definition mod_floor (a b : nint) : outcome nint := omap Big (big_mod_floor (to_bigint a) (to_bigint b)).
Definition abs (a : nint) : nint :=
  match a with
  | Small x => match checked_abs x with Some r => Small r | None => Big (Z.abs (to_bigint a)) end
  | Big _ => Big (Z.abs (to_bigint a))
  end.
Inductive sign := Minus | NoSign | Plus.
Definition big_sign (z : Z) : sign := if z =? 0 then NoSign else if 0 <? z then Plus else Minus.
Definition sign_of (a : nint) : sign :=
  match a with
  | Small x => if x =? 0 then NoSign else if 0 <? x then Plus else Minus
  | Big x => big_sign x
  end.
(* NInt::pow(u32) *)
Definition pow (a : nint) (e : Z) : nint := Big (Z.pow (to_bigint a) e).
Definition magnitude (a : nint) : Z := Z.abs (to_bigint a).
(* pow_maybe_recip: (take the reciprocal?, self ^ |other|) *)
Definition pow_maybe_recip (a b : nint) : bool * nint :=
  match sign_of b with
  | NoSign => (false, Small 1)
  | Plus => (false, Big (Z.pow (to_bigint a) (magnitude b)))
  | Minus => (true, Big (Z.pow (to_bigint a) (magnitude b)))
  end.
(* signum, as repaired (fix for F1: Big used to answer with the signs swapped) *)
Definition signum (a : nint) : nint :=
  match a with
  | Small x => Small (signum_i64 x)
  | Big x => match big_sign x with Minus => Small (-1) | NoSign => Small 0 | Plus => Small 1 end
  end.
Definition gcd (a b : nint) : nint := Big (Z.gcd (to_bigint a) (to_bigint b)).
Definition lcm (a b : nint) : nint := Big (Z.lcm (to_bigint a) (to_bigint b)).
Definition sqrt (a : nint) : outcome nint := omap Big (big_sqrt (to_bigint a)).
Definition lte (a : nint) (other : Z) : bool :=
  match a with Small x => x <=? other | Big x => x <=? other end.
(* impl Shl<usize> / Shr<usize> *)
Definition shl (a : nint) (k : Z) : nint := Big (Z.shiftl (to_bigint a) k).
Definition shr (a : nint) (k : Z) : nint := Big (Z.shiftr (to_bigint a) k).

(* lazy_is_prime: trial division by 2, 3 and 6k-1, 6k+1 up to the truncated square root.
   One unit of fuel per trip round the `loop`. *)
Definition rem_is_zero (n f : nint) : outcome bool := r <- rem n f ;; Ok (is_zero r).
Fixpoint prime_loop (fuel : nat) (n s f : nint) : outcome bool :=
  match fuel with
  | O => OutOfFuel
  | S fuel' =>
      if gtb f s then Ok true else
      z1 <- rem_is_zero n f ;;
      if z1 then Ok false else
      let f2 := add f (Small 2) in
      if gtb f2 s then Ok true else
      z2 <- rem_is_zero n f2 ;;
      if z2 then Ok false else
      prime_loop fuel' n s (add f2 (Small 4))
  end.
Definition lazy_is_prime (fuel : nat) (n : nint) : outcome bool :=
  if lte n 1 then Ok false
  else if lte n 3 then Ok true
  else
    z2 <- rem_is_zero n (Small 2) ;;
    if z2 then Ok false else
    z3 <- rem_is_zero n (Small 3) ;;
    if z3 then Ok false else
    s <- sqrt n ;;
    prime_loop fuel n s (Small 5).
(* fuel that always suffices (proved): one more than the square root *)
Definition prime_fuel (n : nint) : nat := S (Z.to_nat (Z.sqrt (val n))).

(* ------------------------------------------------------------------ nnum.rs lazy_factorize (on BigInt = Z)
   state: the unfactored part a and the accumulator (pushed at the end, kept reversed here) *)
Fixpoint strip (fuel : nat) (a f : Z) (mult : Z) : Z * Z :=
  match fuel with
  | O => (a, mult)
  | S fuel' => if Z.rem a f =? 0 then strip fuel' (Z.quot a f) f (mult + 1) else (a, mult)
  end.
(* `test`: returns (done?, a', acc'); the inner while loop runs at most log2 a times *)
Definition fact_test (a : Z) (acc : list (Z * Z)) (f : Z) : bool * Z * list (Z * Z) :=
  if a <? f * f then (true, a, if 1 <? a then (a, 1) :: acc else acc)
  else
    let '(a', mult) := strip (S (Z.to_nat (Z.log2 a))) a f 0 in
    (false, a', if 0 <? mult then (f, mult) :: acc else acc).
Fixpoint fact_loop (fuel : nat) (a : Z) (acc : list (Z * Z)) (f6 : Z) : outcome (list (Z * Z)) :=
  match fuel with
  | O => OutOfFuel
  | S fuel' =>
      let '(d1, a1, acc1) := fact_test a acc f6 in
      if d1 then Ok (rev acc1) else
      let '(d2, a2, acc2) := fact_test a1 acc1 (f6 + 2) in
      if d2 then Ok (rev acc2) else
      fact_loop fuel' a2 acc2 (f6 + 6)
  end.
Definition lazy_factorize (fuel : nat) (a0 : Z) : outcome (list (Z * Z)) :=
  match big_sign a0 with
  | NoSign => Ok []
  | s =>
      let a := match s with Minus => - a0 | _ => a0 end in
      let acc := match s with Minus => [(-1, 1)] | _ => [] end in
      let '(d2, a2, acc2) := fact_test a acc 2 in
      if d2 then Ok (rev acc2) else
      let '(d3, a3, acc3) := fact_test a2 acc2 3 in
      if d3 then Ok (rev acc3) else
      fact_loop fuel a3 acc3 5
  end.

(* fuel that always suffices (proved): one more than the square root of |a| *)
Definition fact_fuel (a : Z) : nat := S (Z.to_nat (Z.sqrt (Z.abs a))).

(* ------------------------------------------------------------------ the builtin layer (lib.rs, nnum.rs)
   What an integer builtin hands back: an integer, the reciprocal of an integer (`^` with a
   negative exponent builds BigRational::from(r).recip()), or the float NaN (shift by a count
   that is not a usize). *)
Inductive num := NI (n : nint) | NRecip (n : nint) | NNaN.

Definition is_nonzero (n : nint) : bool := negb (is_zero n).
Definition div_by_zero {A} : outcome A := Err EValue.

Definition bi_add (a b : nint) : outcome num := Ok (NI (add a b)).
Definition bi_sub (a b : nint) : outcome num := Ok (NI (sub a b)).
Definition bi_mul (a b : nint) : outcome num := Ok (NI (mul a b)).
(* `%`, as repaired (fix for F9: there used to be no guard, so `5 % 0` reached BigInt's panic) *)
Definition bi_rem (a b : nint) : outcome num :=
  if is_nonzero b then omap NI (rem a b) else div_by_zero.
Definition bi_div_floor (a b : nint) : outcome num :=
  if is_nonzero b then omap NI (div_floor a b) else div_by_zero.
Definition bi_mod_floor (a b : nint) : outcome num :=
  if is_nonzero b then omap NI (mod_floor a b) else div_by_zero.
(* `/!` : exact division, an error when there is a remainder *)
Definition bi_div_exact (a b : nint) : outcome num :=
  if is_nonzero b then
    r <- mod_floor a b ;;
    if is_nonzero r then Err EValue else omap NI (div_floor a b)
  else div_by_zero.
(* `^` on two integers: pow_big_ints (the reciprocal of 0 is outside this model: F10) *)
Definition bi_pow (a b : nint) : outcome num :=
  match pow_maybe_recip a b with
  | (false, r) => Ok (NI r)
  | (true, r) => Ok (NRecip r)
  end.
Definition bi_and (a b : nint) : outcome num := Ok (NI (bitand a b)).
Definition bi_or (a b : nint) : outcome num := Ok (NI (bitor a b)).
Definition bi_xor (a b : nint) : outcome num := Ok (NI (bitxor a b)).
(* Shl/Shr for NNum: the count must be a usize, otherwise NaN *)
Definition bi_shl (a b : nint) : outcome num :=
  match to_usize b with Some s => Ok (NI (shl a s)) | None => Ok NNaN end.
Definition bi_shr (a b : nint) : outcome num :=
  match to_usize b with Some s => Ok (NI (shr a s)) | None => Ok NNaN end.
Definition bi_gcd (a b : nint) : outcome num := Ok (NI (gcd a b)).
Definition bi_lcm (a b : nint) : outcome num := Ok (NI (lcm a b)).
Definition bi_neg (a : nint) : outcome num := Ok (NI (neg a)).
Definition bi_not (a : nint) : outcome num := Ok (NI (not a)).
Definition bi_abs (a : nint) : outcome num := Ok (NI (abs a)).
Definition bi_signum (a : nint) : outcome num := Ok (NI (signum a)).
Definition iverson (b : bool) : nint := Small (if b then 1 else 0).
(* even: !a.mod_floor(2).is_nonzero() ; odd: a.mod_floor(2) == 1 *)
Definition bi_even (a : nint) : outcome num :=
  r <- mod_floor a (Small 2) ;; Ok (NI (iverson (negb (is_nonzero r)))).
Definition bi_odd (a : nint) : outcome num :=
  r <- mod_floor a (Small 2) ;; Ok (NI (iverson (eqb r (Small 1)))).
Definition bi_is_prime (fuel : nat) (a : nint) : outcome num :=
  b <- lazy_is_prime fuel a ;; Ok (NI (iverson b)).

(* small sanity examples (both representations, the i64 boundary) *)
Example ex_add_overflow : add (Small i64_max) (Small 1) = Big (2 ^ 63). Proof. reflexivity. Qed.
Example ex_add_big_small : add (Big 3) (Small 4) = Big 7. Proof. reflexivity. Qed.
Example ex_div_min : div (Small i64_min) (Small (-1)) = Ok (Big (2 ^ 63)). Proof. reflexivity. Qed.
Example ex_rem_min : rem (Small i64_min) (Small (-1)) = Ok (Big 0). Proof. reflexivity. Qed.
Example ex_rem_zero : rem (Small 5) (Small 0) = Panic. Proof. reflexivity. Qed.
Example ex_and_neg : bitand (Small (-1)) (Small 12345) = Small 12345. Proof. reflexivity. Qed.
Example ex_not : not (Small 5) = Small (-6). Proof. reflexivity. Qed.
Example ex_neg_min : neg (Small i64_min) = Big (2 ^ 63). Proof. reflexivity. Qed.
Example ex_neg_big : neg (Big (2 ^ 63)) = Small i64_min. Proof. reflexivity. Qed.
Example ex_signum_big : signum (Big (2 ^ 64)) = Small 1. Proof. reflexivity. Qed.
Example ex_prime_97 : lazy_is_prime 10 (Big 97) = Ok true. Proof. reflexivity. Qed.
Example ex_prime_91 : lazy_is_prime 10 (Small 91) = Ok false. Proof. reflexivity. Qed.
Example ex_factorize : lazy_factorize 10 (-360) = Ok [(-1, 1); (2, 3); (3, 2); (5, 1)]. Proof. reflexivity. Qed.
Example ex_factorize_prime : lazy_factorize 10 97 = Ok [(97, 1)]. Proof. reflexivity. Qed.
