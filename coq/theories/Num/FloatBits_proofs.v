(* Facts about the dyadic decoding: the integer-only helpers (dy_compare, dy_is_int, dy_trunc,
   dy_floor) say exactly what the rational value dyQ m e says. *)
From Coq Require Import ZArith NArith QArith Bool Lia.
From NV Require Import Num.FloatBits.
Open Scope Z_scope.

Lemma pow2_pos k : 0 <= k -> 0 < 2 ^ k.
Proof. intros. apply Z.pow_pos_nonneg; lia. Qed.

Lemma to_pos_pow2 k : 0 <= k -> Z.pos (Z.to_pos (2 ^ k)) = 2 ^ k.
Proof. intros. apply Z2Pos.id. now apply pow2_pos. Qed.

(* numerator and denominator of dyQ, uniformly *)
Lemma dyQ_num m e : Qnum (dyQ m e) = m * 2 ^ Z.max e 0.
Proof.
  unfold dyQ. destruct (Z.ltb_spec e 0); cbn [Qnum inject_Z].
  - rewrite Z.max_r by lia. cbn. lia.
  - rewrite Z.max_l by lia. reflexivity.
Qed.
Lemma dyQ_den m e : Z.pos (Qden (dyQ m e)) = 2 ^ Z.max (- e) 0.
Proof.
  unfold dyQ. destruct (Z.ltb_spec e 0); cbn [Qden inject_Z].
  - rewrite Z.max_l by lia. apply to_pos_pow2. lia.
  - rewrite Z.max_r by lia. reflexivity.
Qed.

Lemma mul_compare_pos_r a b c : 0 < c -> (a * c ?= b * c) = (a ?= b).
Proof. intros. symmetry. apply Zmult_compare_compat_r. lia. Qed.

(* comparison of two doubles by aligning exponents = comparison of their exact values *)
Lemma dyQ_compare m1 e1 m2 e2 :
  Qcompare (dyQ m1 e1) (dyQ m2 e2) = dy_compare m1 e1 m2 e2.
Proof.
  unfold Qcompare, dy_compare. rewrite !dyQ_num, !dyQ_den.
  set (e := Z.min e1 e2).
  set (c := Z.max (- e1) 0 + Z.max (- e2) 0 + e).
  assert (Hc : 0 <= c) by (unfold c, e; lia).
  rewrite <- (mul_compare_pos_r (m1 * 2 ^ (e1 - e)) (m2 * 2 ^ (e2 - e)) (2 ^ c)) by now apply pow2_pos.
  rewrite <- !Z.mul_assoc, <- !Z.pow_add_r by (unfold c, e in *; lia).
  replace (e1 - e + c) with (Z.max e1 0 + Z.max (- e2) 0) by (unfold c, e; lia).
  replace (e2 - e + c) with (Z.max e2 0 + Z.max (- e1) 0) by (unfold c, e; lia).
  reflexivity.
Qed.

(* an integer against a double *)
Lemma Qcompare_inject_l a m e :
  Qcompare (inject_Z a) (dyQ m e) = (a * 2 ^ Z.max (- e) 0 ?= m * 2 ^ Z.max e 0).
Proof.
  unfold Qcompare. rewrite dyQ_num, dyQ_den. cbn [Qnum Qden inject_Z]. now rewrite Z.mul_1_r.
Qed.

Lemma dy_int_compare a m e : dy_is_int m e = true ->
  Qcompare (inject_Z a) (dyQ m e) = (a ?= dy_trunc m e).
Proof.
  unfold dy_is_int, dy_trunc. rewrite Qcompare_inject_l. intros H.
  destruct (Z.leb_spec 0 e).
  - rewrite Z.max_r, Z.max_l by lia. now rewrite Z.mul_1_r.
  - cbn [orb] in H. apply Z.eqb_eq in H.
    rewrite Z.max_l, Z.max_r by lia. rewrite Z.mul_1_r.
    assert (Hp : 0 < 2 ^ (- e)) by (apply pow2_pos; lia).
    set (d := 2 ^ (- e)) in *.
    assert (Hq : Z.quot m d = m / d).
    { apply Z.quot_div_exact. lia. apply Z.mod_divide; [lia|exact H]. }
    rewrite Hq.
    assert (Hm : m = (m / d) * d) by (pose proof (Z.div_mod m d); lia).
    rewrite Hm at 1. now apply mul_compare_pos_r.
Qed.

Lemma dy_nonint_compare a m e : dy_is_int m e = false ->
  Qcompare (inject_Z a) (dyQ m e) = match a ?= dy_floor m e with Gt => Gt | _ => Lt end.
Proof.
  unfold dy_is_int, dy_floor. rewrite Qcompare_inject_l. intros H.
  apply orb_false_iff in H. destruct H as [He Hm].
  apply Z.leb_gt in He. apply Z.eqb_neq in Hm.
  destruct (Z.leb_spec 0 e); [lia|].
  rewrite Z.max_l, Z.max_r by lia. rewrite Z.mul_1_r.
  assert (Hp : 0 < 2 ^ (- e)) by (apply pow2_pos; lia).
  set (d := 2 ^ (- e)) in *.
  pose proof (Z.div_mod m d) as Hdm. pose proof (Z.mod_pos_bound m d Hp) as Hb.
  destruct (Z.compare_spec a (m / d)) as [E|L|G].
  - apply Z.compare_lt_iff. subst a. nia.
  - apply Z.compare_lt_iff. nia.
  - apply Z.compare_gt_iff. nia.
Qed.

(* decode in terms of decode_dy *)
Lemma decode_fin b m e : decode_dy b = DFin m e -> decode b = Fin (dyQ m e).
Proof. unfold decode. now intros ->. Qed.
Lemma decode_nan b : decode_dy b = DNaN -> decode b = NaN.
Proof. unfold decode. now intros ->. Qed.
Lemma decode_inf b s : decode_dy b = DInf s -> decode b = Inf s.
Proof. unfold decode. now intros ->. Qed.

(* the sign bit of a decoded infinity is the sign bit of the pattern *)
Lemma decode_dy_inf_sign b s : decode_dy b = DInf s -> f_neg b = s.
Proof.
  unfold decode_dy. destruct (biased_exp b =? 2047)%N.
  - destruct (fraction b =? 0)%N; [now intros [= ->]|discriminate].
  - destruct (integer_decode b) as [[m e] s']. discriminate.
Qed.
