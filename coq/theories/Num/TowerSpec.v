(* C07 specification vocabulary: what "exact", "lowest terms", "level", "coerced upward" and the
   rounding functions mean, stated on Q/Z independently of how the model computes them. *)
From Coq Require Import ZArith NArith QArith Qabs Qround Qreduction List Bool.
From NV Require Import Common.Outcome Num.Tower.
Import ListNotations.
Open Scope Z_scope.

(* the exact levels *)
Definition exact (x : nnum) : Prop := (level x <= 1)%nat.
(* the mathematical value of an exact number *)
Definition qval (x : nnum) : Q :=
  match x with NI z => inject_Z z | NR q => q | _ => 0%Q end.
(* representation invariant of BigRational: lowest terms (the denominator is positive by type) *)
Definition reduced (q : Q) : Prop := Z.gcd (Qnum q) (Zpos (Qden q)) = 1.
Definition wf (x : nnum) : Prop := match x with NR q => reduced q | _ => True end.

(* rounding, defined from Qfloor/Qceiling only *)
Definition q_trunc (q : Q) : Z := if Qle_bool 0 q then Qfloor q else Qceiling q.
Definition q_round (q : Q) : Z :=     (* nearest, ties away from zero *)
  if Qle_bool 0 q then Qfloor (q + (1 # 2)) else Qceiling (q - (1 # 2)).

(* the operators on Q *)
Definition q_rem (a b : Q) : Q := (a - b * inject_Z (q_trunc (a / b)))%Q.       (* sign of the dividend *)
Definition q_div_floor (a b : Q) : Q := inject_Z (Qfloor (a / b)).
Definition q_mod_floor (a b : Q) : Q := (a - b * inject_Z (Qfloor (a / b)))%Q.

(* upward coercion to level k (identity at or above k): int -> rational exactly; -> float by the
   conversion of float_ops; -> complex with a +0.0 imaginary part *)
Definition lift (F : float_ops) (k : nat) (x : nnum) : nnum :=
  if (k <=? level x)%nat then x else
  match k with
  | 1%nat => match x with NI z => NR (inject_Z z) | _ => x end
  | 2%nat => match to_f_or_c F x with inl f => NF f | inr _ => x end
  | _ => NC (to_c F x)
  end.

(* the six operators the level rule speaks about, before the builtin layer's zero-divisor guard *)
Definition level_op (F : float_ops) (op : binop) : option (nnum -> nnum -> outcome nnum) :=
  match op with
  | OAdd => Some (num_add F) | OSub => Some (num_sub F) | OMul => Some (num_mul F)
  | ORem => Some (num_rem F) | ODivFloor => Some (num_div_floor F) | OModFloor => Some (num_mod_floor F)
  | _ => None
  end.

(* the exact meaning of each binary operator on Q (`^` is stated separately with Qpower) *)
Definition q_binop (op : binop) (a b : Q) : Q :=
  match op with
  | OAdd => a + b | OSub => a - b | OMul => a * b | ODiv => a / b
  | ORem => q_rem a b | ODivFloor => q_div_floor a b | OModFloor => q_mod_floor a b
  | OPow => 0
  end%Q.
Definition needs_nonzero (op : binop) : bool :=
  match op with ORem | ODivFloor | OModFloor | ODiv => true | _ => false end.

(* element-wise meaning of a vectorised binary builtin *)
Definition pointwise2 (body : nnum -> nnum -> outcome nnum) (l1 l2 out : list nnum) : Prop :=
  length out = length l1 /\ length l1 = length l2 /\
  forall i x y, nth_error l1 i = Some x -> nth_error l2 i = Some y ->
    exists v, nth_error out i = Some v /\ body x y = Ok v.
Definition pointwise1 (body : nnum -> outcome nnum) (l out : list nnum) : Prop :=
  length out = length l /\
  forall i x, nth_error l i = Some x -> exists v, nth_error out i = Some v /\ body x = Ok v.
