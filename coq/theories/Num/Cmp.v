(* C08 model, part 2: equality and ordering of Noulith values.
   Transcription (branch for branch) of
     src/nint.rs   PartialEq / Ord for NInt
     src/nnum.rs   to_nint_if_int, cmp_nint_f64, NNumReal::{is_nan, exact_to_rational, infinite_signum},
                   PartialEq / PartialOrd for NNumReal, total_cmp_small_nan / total_cmp_big_nan,
                   project_to_reals, PartialEq / PartialOrd for NNum, NNum::{min, max}
     src/core.rs   PartialEq / PartialOrd for Obj and Seq (slices: core::slice lexicographic order)
     src/lib.rs    ncmp, ComparisonOperator (== != < > <= >=, chains), <=> and >=<, Extremum (min/max),
                   sorted / sorted_on (Vec::sort_by, modelled as a stable insertion sort)
   BigInt is Z, BigRational is Q (compared with Qcompare / Qeq_bool), f64 is its bit pattern
   (FloatBits.v).  Definitions only; proofs are in Cmp_proofs.v. *)
From Coq Require Import ZArith NArith QArith Bool List.
From NV Require Import Common.Outcome Common.MachineInt Num.FloatBits.
Import ListNotations.
Open Scope Z_scope.

(* ------------------------------------------------------------------ NInt *)
Inductive nint := Small (z : Z) | Big (z : Z).
Definition wf_nint (n : nint) : Prop := match n with Small z => in_i64 z | Big _ => True end.
Definition nint_val (n : nint) : Z := match n with Small z => z | Big z => z end.   (* to_bigint *)
Definition to_i64 (z : Z) : option Z := if in_i64b z then Some z else None.      (* BigInt::to_i64 *)

Definition nint_eq (a b : nint) : bool :=
  match a, b with
  | Small a, Small b => a =? b
  | Small a, Big b => match to_i64 b with Some n => a =? n | None => false end
  | Big a, Small b => match to_i64 a with Some n => n =? b | None => false end
  | Big a, Big b => a =? b
  end.
Definition nint_cmp (a b : nint) : comparison :=
  match a, b with
  | Small a, Small b => a ?= b
  | _, _ => nint_val a ?= nint_val b
  end.

(* ------------------------------------------------------------------ NNumReal *)
Inductive nreal := RInt (n : nint) | RFloat (b : bits) | RRat (q : Q).

Definition to_nint_if_int (f : bits) : option nint :=
  if f_eq_trunc f then option_map Big (f_to_bigint f) else None.

Definition cmp_nint_f64 (a : nint) (b : bits) : option comparison :=
  match to_nint_if_int b with
  | Some bi => Some (nint_cmp a bi)
  | None =>
    if f_is_infinite b then
      if f_is_sign_positive b then Some Lt else Some Gt
    else
      option_map (fun bi => match nint_cmp a (Big bi) with Lt => Lt | Eq => Lt | Gt => Gt end)
                 (f_floor_to_bigint b)
  end.

Definition real_is_nan (r : nreal) : bool := match r with RFloat f => f_is_nan f | _ => false end.
Definition exact_to_rational (r : nreal) : option Q :=
  match r with
  | RInt i => Some (inject_Z (nint_val i))
  | RRat q => Some q
  | RFloat f => rat_from_float f
  end.
Definition infinite_signum (r : nreal) : Z :=
  match r with
  | RFloat f => if f_is_infinite f then (if f_is_sign_positive f then 1 else -1) else 0
  | _ => 0
  end.

Definition nreal_eq (a b : nreal) : bool :=
  match a, b with
  | RInt a, RInt b => nint_eq a b
  | RInt a, RFloat b => match to_nint_if_int b with Some x => nint_eq x a | None => false end
  | RFloat a, RInt b => match to_nint_if_int a with Some x => nint_eq x b | None => false end
  | RFloat a, RFloat b => f_eq a b
  | a, b => match exact_to_rational a, exact_to_rational b with
            | Some a, Some b => Qeq_bool a b
            | _, _ => false
            end
  end.

Definition nreal_partial_cmp (a b : nreal) : option comparison :=
  match a, b with
  | RInt a, RInt b => Some (nint_cmp a b)
  | RInt a, RFloat b => cmp_nint_f64 a b
  | RFloat a, RInt b => option_map CompOpp (cmp_nint_f64 b a)
  | RFloat a, RFloat b => f_partial_cmp a b
  | a, b => match exact_to_rational a, exact_to_rational b with
            | Some a, Some b => Some (Qcompare a b)
            | _, _ => if real_is_nan a || real_is_nan b then None
                      else Some (infinite_signum a ?= infinite_signum b)
            end
  end.

(* bool::cmp (false < true) and Ordering::then *)
Definition bool_cmp (a b : bool) : comparison :=
  match a, b with false, true => Lt | true, false => Gt | _, _ => Eq end.
Definition then_cmp (a b : comparison) : comparison := match a with Eq => b | _ => a end.
Definition unwrap_or {A} (o : option A) (d : A) : A := match o with Some a => a | None => d end.

Definition real_total_cmp_small_nan (a b : nreal) : comparison :=
  match a, b with
  | RInt a, RInt b => nint_cmp a b
  | RInt a, RFloat b => unwrap_or (cmp_nint_f64 a b) Gt
  | RFloat a, RInt b => match cmp_nint_f64 b a with Some o => CompOpp o | None => Lt end
  | RFloat a, RFloat b => unwrap_or (f_partial_cmp a b) (bool_cmp (f_is_nan b) (f_is_nan a))
  | a, b => match exact_to_rational a, exact_to_rational b with
            | Some a, Some b => Qcompare a b
            | _, _ => then_cmp (bool_cmp (real_is_nan b) (real_is_nan a))
                               (infinite_signum a ?= infinite_signum b)
            end
  end.
Definition real_total_cmp_big_nan (a b : nreal) : comparison :=
  match a, b with
  | RInt a, RInt b => nint_cmp a b
  | RInt a, RFloat b => unwrap_or (cmp_nint_f64 a b) Lt
  | RFloat a, RInt b => match cmp_nint_f64 b a with Some o => CompOpp o | None => Gt end
  | RFloat a, RFloat b => unwrap_or (f_partial_cmp a b) (bool_cmp (f_is_nan a) (f_is_nan b))
  | a, b => match exact_to_rational a, exact_to_rational b with
            | Some a, Some b => Qcompare a b
            | _, _ => then_cmp (bool_cmp (real_is_nan a) (real_is_nan b))
                               (infinite_signum a ?= infinite_signum b)
            end
  end.

(* ------------------------------------------------------------------ NNum *)
Inductive nnum := NInt (n : nint) | NRational (q : Q) | NFloat (f : bits) | NComplex (re im : bits).
Definition zero_bits : bits := 0%N.    (* 0.0 *)

Definition project_to_reals (n : nnum) : nreal * nreal :=
  match n with
  | NInt a => (RInt a, RFloat zero_bits)
  | NRational a => (RRat a, RFloat zero_bits)
  | NFloat a => (RFloat a, RFloat zero_bits)
  | NComplex re im => (RFloat re, RFloat im)
  end.

(* tuple ==, tuple partial_cmp (lexicographic; the first non-Equal answer, None included, decides) *)
Definition nnum_eq (a b : nnum) : bool :=
  let '(ra, ia) := project_to_reals a in
  let '(rb, ib) := project_to_reals b in
  nreal_eq ra rb && nreal_eq ia ib.
Definition nnum_partial_cmp (a b : nnum) : option comparison :=
  let '(ra, ia) := project_to_reals a in
  let '(rb, ib) := project_to_reals b in
  match nreal_partial_cmp ra rb with
  | Some Eq => nreal_partial_cmp ia ib
  | o => o
  end.
Definition nnum_total_cmp_small_nan (a b : nnum) : comparison :=
  let '(ra, ia) := project_to_reals a in
  let '(rb, ib) := project_to_reals b in
  then_cmp (real_total_cmp_small_nan ra rb) (real_total_cmp_small_nan ia ib).
Definition nnum_total_cmp_big_nan (a b : nnum) : comparison :=
  let '(ra, ia) := project_to_reals a in
  let '(rb, ib) := project_to_reals b in
  then_cmp (real_total_cmp_big_nan ra rb) (real_total_cmp_big_nan ia ib).
Definition nnum_is_nan (a : nnum) : bool :=
  match a with NFloat f => f_is_nan f | NComplex re im => f_is_nan re || f_is_nan im | _ => false end.
Definition nnum_total_eq (a b : nnum) : bool := nnum_eq a b || (nnum_is_nan a && nnum_is_nan b).
(* NNum::min / NNum::max (not reachable from the builtins min/max, which go through ncmp) *)
Definition nnum_min (a b : nnum) : nnum := match nnum_total_cmp_big_nan a b with Gt => b | _ => a end.
Definition nnum_max (a b : nnum) : nnum := match nnum_total_cmp_small_nan a b with Gt => a | _ => b end.

(* ------------------------------------------------------------------ slices (core::slice) *)
Section Slices.
  Context {A : Type}.
  Fixpoint slice_eq (eq : A -> A -> bool) (l r : list A) : bool :=
    match l, r with
    | [], [] => true
    | x :: l', y :: r' => eq x y && slice_eq eq l' r'
    | _, _ => false
    end.
  (* compare element by element up to the shorter length; the first answer that is not
     Some Equal is returned; otherwise the lengths are compared *)
  Fixpoint slice_partial_cmp (cmp : A -> A -> option comparison) (l r : list A) : option comparison :=
    match l, r with
    | [], [] => Some Eq
    | [], _ :: _ => Some Lt
    | _ :: _, [] => Some Gt
    | x :: l', y :: r' =>
      match cmp x y with
      | Some Eq => slice_partial_cmp cmp l' r'
      | o => o
      end
    end.
End Slices.

(* ------------------------------------------------------------------ Obj / Seq
   Obj::Seq(Seq::X(..)) is flattened to one constructor per sequence kind.  Strings are their
   UTF-8 bytes (String's order is the byte order).  Dictionaries, streams, functions and
   instances are opaque: the property only says that ordering them raises; OOther carries an
   identity used by nothing but == (dictionary equality is C09's subject). *)
Inductive obj :=
| ONull
| ONum (n : nnum)
| OList (l : list obj)
| OString (s : list N)
| OVector (v : list nnum)
| OBytes (b : list N)
| ODict (k : N)
| OOther (k : N).          (* Func, Seq::Stream: == is false even against itself; struct instances are not modelled *)

Definition is_seq (a : obj) : bool :=
  match a with OList _ | OString _ | OVector _ | OBytes _ | ODict _ => true | _ => false end.
Definition n_partial_cmp (a b : N) : option comparison := Some (N.compare a b).

Fixpoint obj_eq (a b : obj) {struct a} : bool :=
  match a, b with
  | ONull, ONull => true
  | ONum x, ONum y => nnum_eq x y
  | OList l, OList r =>
    (fix go (l r : list obj) {struct l} : bool :=
       match l, r with
       | [], [] => true
       | x :: l', y :: r' => obj_eq x y && go l' r'
       | _, _ => false
       end) l r
  | OString l, OString r => slice_eq N.eqb l r
  | OVector l, OVector r => slice_eq nnum_eq l r
  | OBytes l, OBytes r => slice_eq N.eqb l r
  | ODict j, ODict k => N.eqb j k
  | _, _ => false            (* includes Func and Stream, which are == to nothing *)
  end.

Fixpoint obj_partial_cmp (a b : obj) {struct a} : option comparison :=
  match a, b with
  | ONull, ONull => Some Eq
  | ONum x, ONum y => nnum_partial_cmp x y
  | OList l, OList r =>
    (fix go (l r : list obj) {struct l} : option comparison :=
       match l, r with
       | [], [] => Some Eq
       | [], _ :: _ => Some Lt
       | _ :: _, [] => Some Gt
       | x :: l', y :: r' =>
         match obj_partial_cmp x y with
         | Some Eq => go l' r'
         | o => o
         end
       end) l r
  | OString l, OString r => slice_partial_cmp n_partial_cmp l r
  | OVector l, OVector r => slice_partial_cmp nnum_partial_cmp l r
  | OBytes l, OBytes r => slice_partial_cmp n_partial_cmp l r
  | _, _ => None
  end.

(* ------------------------------------------------------------------ lib.rs: ncmp and the builtins *)
Definition ncmp (a b : obj) : outcome comparison :=
  match a, b with
  | ONum x, ONum y => match nnum_partial_cmp x y with Some o => Ok o | None => Err EType end
  | _, _ =>
    if is_seq a && is_seq b then
      match obj_partial_cmp a b with Some o => Ok o | None => Err EType end
    else Err EType
  end.

Definition is_lt (c : comparison) : bool := match c with Lt => true | _ => false end.
Definition is_gt (c : comparison) : bool := match c with Gt => true | _ => false end.
Definition is_eq (c : comparison) : bool := match c with Eq => true | _ => false end.

Inductive cmpop := OpEq | OpNe | OpLt | OpGt | OpLe | OpGe.
Definition accept (op : cmpop) (a b : obj) : outcome bool :=
  match op with
  | OpEq => Ok (obj_eq a b)
  | OpNe => Ok (negb (obj_eq a b))
  | OpLt => o <- ncmp a b ;; Ok (is_lt o)
  | OpGt => o <- ncmp a b ;; Ok (is_gt o)
  | OpLe => o <- ncmp a b ;; Ok (negb (is_gt o))
  | OpGe => o <- ncmp a b ;; Ok (negb (is_lt o))
  end.

(* ComparisonOperator::run with 2+ arguments: `a op1 b op2 c ...` is one call of the chained
   operator; evaluation stops at the first false link or the first error *)
Fixpoint chain_run (x : obj) (links : list (cmpop * obj)) : outcome bool :=
  match links with
  | [] => Ok true
  | (op, y) :: rest =>
    b <- accept op x y ;;
    if b then chain_run y rest else Ok false
  end.

Definition int_of_cmp (c : comparison) : Z := match c with Lt => -1 | Eq => 0 | Gt => 1 end.
Definition spaceship (a b : obj) : outcome Z := o <- ncmp a b ;; Ok (int_of_cmp o).          (* <=> *)
Definition rev_spaceship (a b : obj) : outcome Z := o <- ncmp a b ;; Ok (- int_of_cmp o).  (* >=< *)

(* Extremum: min has bias Less, max has bias Greater; the running answer is replaced only by an
   element that compares strictly on the bias side, so the first extremal element wins.
   `key` lets the correspondence run track positions; the builtins use key = id. *)
Definition cmp_eqb (a b : comparison) : bool :=
  match a, b with Lt, Lt | Eq, Eq | Gt, Gt => true | _, _ => false end.
Section Keyed.
  Context {A : Type} (key : A -> obj).
  Fixpoint extremum_go (bias : comparison) (ret : option A) (l : list A) : outcome (option A) :=
    match l with
    | [] => Ok ret
    | b :: rest =>
      match ret with
      | None => extremum_go bias (Some b) rest
      | Some r =>
        o <- ncmp (key b) (key r) ;;
        extremum_go bias (if cmp_eqb o bias then Some b else Some r) rest
      end
    end.
  Definition extremum_on (bias : comparison) (l : list A) : outcome A :=
    r <- extremum_go bias None l ;;
    match r with Some a => Ok a | None => Err EEmpty end.
End Keyed.
Definition builtin_min (l : list obj) : outcome obj := extremum_on (fun x => x) Lt l.
Definition builtin_max (l : list obj) : outcome obj := extremum_on (fun x => x) Gt l.

(* ------------------------------------------------------------------ sorting
   Vec::sort_by is a stable sort; it is modelled by a stable insertion sort.  The comparator
   closure records the first failing comparison and the whole call then fails, so the model
   fails as soon as a comparison it performs fails.  (Which comparisons a sort performs is
   algorithm specific; the theorems and the correspondence use inputs on which either every
   pair is comparable or some element is comparable with no other.) *)
Section Sort.
  Context {A K : Type} (cmp : K -> K -> option comparison) (key : A -> K).
  Fixpoint insert (x : A) (l : list A) : option (list A) :=
    match l with
    | [] => Some [x]
    | y :: r =>
      match cmp (key x) (key y) with
      | None => None
      | Some Gt => option_map (cons y) (insert x r)
      | Some _ => Some (x :: y :: r)
      end
    end.
  Fixpoint isort (l : list A) : option (list A) :=
    match l with
    | [] => Some []
    | x :: r => match isort r with Some s => insert x s | None => None end
    end.
End Sort.

Definition ncmp_opt (a b : obj) : option comparison :=
  match ncmp a b with Ok o => Some o | _ => None end.
Definition opt_out {A} (o : option A) (c : errc) : outcome A :=
  match o with Some a => Ok a | None => Err c end.

(* sorted::<Obj> (lists), sorted::<NNum> (vectors), sorted::<u8>/<char> (bytes, strings) *)
Definition sorted_objs (l : list obj) : outcome (list obj) := opt_out (isort obj_partial_cmp (fun x => x) l) EValue.
Definition sorted_nums (l : list nnum) : outcome (list nnum) := opt_out (isort nnum_partial_cmp (fun x => x) l) EValue.
Definition sorted_ns (l : list N) : outcome (list N) := opt_out (isort n_partial_cmp (fun x => x) l) EValue.
(* sorted_on: keys are computed first, then the (key, element) pairs are sorted with ncmp on keys *)
Definition sorted_on {A} (key : A -> obj) (l : list A) : outcome (list A) := opt_out (isort ncmp_opt key l) EType.

Definition builtin_sort (a : obj) : outcome obj :=
  match a with
  | OList l => omap OList (sorted_objs l)
  | OVector v => omap OVector (sorted_nums v)
  | OBytes b => omap OBytes (sorted_ns b)
  | _ => Err EType     (* strings sort by char, dicts sort their keys, streams are forced: not modelled *)
  end.

(* runner helpers for the correspondence: positions instead of values *)
Definition sort_positions (l : list obj) : outcome (list nat) :=
  omap (map snd) (opt_out (isort obj_partial_cmp fst (combine l (seq 0 (length l)))) EValue).
Definition sort_on_positions (l : list obj) : outcome (list nat) :=
  omap (map snd) (sorted_on fst (combine l (seq 0 (length l)))).
Definition extremum_position (bias : comparison) (l : list obj) : outcome nat :=
  omap snd (extremum_on fst bias (combine l (seq 0 (length l)))).

Example ex_2p53 : accept OpLt (ONum (NFloat 0x4340000000000000%N)) (ONum (NInt (Small 9007199254740993))) = Ok true.
Proof. vm_compute. reflexivity. Qed.
Example ex_tenth : spaceship (ONum (NFloat 0x3fb999999999999a%N)) (ONum (NRational (1 # 10))) = Ok 1.
Proof. vm_compute. reflexivity. Qed.
Example ex_inf_rat : accept OpLt (ONum (NRational (1 # 2))) (ONum (NFloat 0x7ff0000000000000%N)) = Ok true.
Proof. vm_compute. reflexivity. Qed.
Example ex_kinds : ncmp (ONum (NInt (Small 1))) (OString [97%N]) = Err EType.
Proof. vm_compute. reflexivity. Qed.
Example ex_sort : sort_positions [ONum (NFloat 0x3ff0000000000000%N); ONum (NInt (Small 0)); ONum (NInt (Small 1))] = Ok [1; 0; 2]%nat.
Proof. vm_compute. reflexivity. Qed.
