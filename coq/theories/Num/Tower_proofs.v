(* C07 proofs: the model of Num/Tower.v against the vocabulary of Num/TowerSpec.v. *)
From Coq Require Import ZArith NArith QArith Qabs Qround Qreduction Qpower Znumtheory Zpow_facts Zquot List Bool Lia.
From NV Require Import Common.Outcome Num.Tower Num.TowerSpec.
Import ListNotations.
Open Scope Z_scope.

Ltac zeuclid := Z.quot_rem_to_equations; Z.div_mod_to_equations.

(* ------------------------------------------------------------------ A. lowest terms *)
Lemma Qred_reduced q : reduced (Qred q).
Proof.
  destruct q as [n d]. unfold reduced, Qred.
  pose proof (Z.ggcd_gcd n (Zpos d)) as Hg.
  pose proof (Z.ggcd_correct_divisors n (Zpos d)) as Hd.
  destruct (Z.ggcd n (Zpos d)) as [g [aa bb]]. cbn [fst snd] in *.
  destruct Hd as [Ha Hb]. cbn [Qnum Qden].
  assert (0 < g) by (subst g; pose proof (Z.gcd_nonneg n (Zpos d));
    destruct (Z.eq_dec (Z.gcd n (Zpos d)) 0) as [E|E]; [apply Z.gcd_eq_0_r in E; discriminate | lia]).
  assert (0 < bb) by nia.
  rewrite Z2Pos.id by assumption.
  assert (Hgg : Z.gcd (g * aa) (g * bb) = g) by (rewrite <- Ha, <- Hb; symmetry; exact Hg).
  rewrite Z.gcd_mul_mono_l_nonneg in Hgg by lia. nia.
Qed.

Lemma reduced_Qred q : reduced q -> Qred q = q.
Proof.
  destruct q as [n d]. unfold reduced, Qred. cbn [Qnum Qden]. intros Hr.
  pose proof (Z.ggcd_gcd n (Zpos d)) as Hg.
  pose proof (Z.ggcd_correct_divisors n (Zpos d)) as Hd.
  destruct (Z.ggcd n (Zpos d)) as [g [aa bb]]. cbn [fst snd] in *.
  destruct Hd as [Ha Hb]. rewrite Hr in Hg. subst g.
  rewrite Z.mul_1_l in Ha, Hb. subst aa bb. reflexivity.
Qed.

Lemma reduced_unique p q : reduced p -> reduced q -> p == q -> p = q.
Proof. intros Hp Hq E. rewrite <- (reduced_Qred p Hp), <- (reduced_Qred q Hq). now apply Qred_complete. Qed.

Lemma reduced_inject_Z z : reduced (inject_Z z).
Proof. unfold reduced, inject_Z. cbn [Qnum Qden]. apply Z.gcd_1_r. Qed.

Lemma reduced_opp q : reduced q -> reduced (- q).
Proof. unfold reduced. destruct q as [n d]. cbn [Qopp Qnum Qden]. now rewrite Z.gcd_opp_l. Qed.

Lemma reduced_abs q : reduced q -> reduced (Qabs q).
Proof. unfold reduced. destruct q as [n d]. cbn [Qabs Qnum Qden]. now rewrite Z.gcd_abs_l. Qed.

Lemma reduced_inv q : reduced q -> reduced (/ q).
Proof.
  unfold reduced, Qinv. destruct q as [[|n|n] d]; cbn [Qnum Qden]; intros H.
  - reflexivity.
  - now rewrite Z.gcd_comm.
  - rewrite Z.gcd_comm. change (Z.neg d) with (- Z.pos d). rewrite Z.gcd_opp_r.
    change (Z.neg n) with (- Z.pos n) in H. now rewrite Z.gcd_opp_l in H.
Qed.

Lemma reduced_pow q e : reduced q -> reduced (rat_pow_pos q e).
Proof.
  unfold reduced, rat_pow_pos. destruct q as [n d]. cbn [Qnum Qden]. intros H.
  rewrite Pos2Z.inj_pow. apply Zgcd_1_rel_prime. apply rel_prime_Zpower; try lia.
  now apply Zgcd_1_rel_prime.
Qed.

Lemma rat_pow_pos_Qpower q e : rat_pow_pos q e = Qpower q (Zpos e).
Proof. destruct q as [n d]. unfold rat_pow_pos. cbn [Qnum Qden Qpower]. now rewrite Qpower_decomp_positive. Qed.

(* ------------------------------------------------------------------ B. rounding = its Q definition *)
Lemma rat_floor_spec q : rat_floor q = Qfloor q.
Proof.
  destruct q as [n d]. unfold rat_floor, qnum_den, Qfloor. cbn [Qnum Qden].
  destruct (Z.ltb_spec n 0); zeuclid; nia.
Qed.

Lemma Qceiling_div n d : Qceiling (n # d) = - ((- n) / Zpos d).
Proof. reflexivity. Qed.

Lemma rat_ceil_spec q : rat_ceil q = Qceiling q.
Proof.
  destruct q as [n d]. rewrite Qceiling_div. unfold rat_ceil, qnum_den. cbn [Qnum Qden].
  destruct (Z.ltb_spec n 0); zeuclid; nia.
Qed.

Lemma Qle_bool_0 n d : Qle_bool 0 (n # d) = (0 <=? n).
Proof. unfold Qle_bool. cbn [Qnum Qden]. now rewrite Z.mul_1_r. Qed.

Lemma rat_trunc_spec q : rat_trunc q = q_trunc q.
Proof.
  destruct q as [n d]. unfold q_trunc. rewrite Qle_bool_0, Qceiling_div.
  unfold rat_trunc, qnum_den, Qfloor. cbn [Qnum Qden].
  destruct (Z.leb_spec 0 n); zeuclid; nia.
Qed.

Lemma rat_round_spec q : rat_round q = q_round q.
Proof.
  destruct q as [n d]. unfold q_round. rewrite Qle_bool_0.
  unfold rat_round, qnum_den. cbn [Qnum Qden].
  assert (Hp : ((n # d) + (1 # 2))%Q = (n * 2 + 1 * Zpos d) # (d * 2)) by reflexivity.
  assert (Hm : ((n # d) - (1 # 2))%Q = (n * 2 + (-1) * Zpos d) # (d * 2)) by reflexivity.
  rewrite Hp, Hm, Qceiling_div. unfold Qfloor. rewrite Pos2Z.inj_mul.
  set (D := Zpos d). assert (0 < D) by (subst D; lia). clearbody D.
  destruct (Z.even D) eqn:Ev.
  - apply Z.even_spec in Ev. destruct Ev as [k ->].
    destruct (Z.leb_spec (Z.quot (2 * k) 2) (Z.abs (Z.rem n (2 * k)))); destruct (Z.leb_spec 0 n); zeuclid; nia.
  - assert (Od : Z.odd D = true) by (rewrite <- Z.negb_even, Ev; reflexivity).
    apply Z.odd_spec in Od. destruct Od as [k ->].
    destruct (Z.leb_spec (Z.quot (2 * k + 1) 2 + 1) (Z.abs (Z.rem n (2 * k + 1)))); destruct (Z.leb_spec 0 n); zeuclid; nia.
Qed.
