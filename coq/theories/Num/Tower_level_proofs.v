(* C07 proofs, part 3: the level rule for + - * % // %% (result level = max of operand levels, the
   operator commutes with upward coercion, no panic away from the exact zero divisors), and the
   rounding family / numerator / denominator / int() / rational() / float(). *)
From Coq Require Import ZArith NArith QArith Qabs Qround Qreduction Zquot List Bool Lia.
From NV Require Import Common.Outcome Num.Tower Num.TowerSpec Num.Tower_proofs Num.Tower_exact_proofs.
Import ListNotations.
Open Scope Z_scope.

(* ------------------------------------------------------------------ D. levels *)
Lemma binary_match_level F fi fr ff fc a b r :
  binary_match F fi fr ff fc a b = Ok r -> level r = Nat.max (level a) (level b).
Proof.
  destruct a, b; cbn [binary_match to_f_or_c level Nat.max]; unfold omap, bind; intros H;
    repeat match type of H with context [match ?e with _ => _ end] => destruct e end;
    try discriminate; injection H as <-; reflexivity.
Qed.

Theorem level_is_max F op f a b r : level_op F op = Some f -> f a b = Ok r ->
  level r = Nat.max (level a) (level b).
Proof.
  destruct op; cbn [level_op]; intros E; try discriminate; injection E as <-;
    apply binary_match_level.
Qed.

(* the guard of the builtin layer adds only an error *)
Theorem builtin_of_level_op F op f a b : level_op F op = Some f ->
  num_binop F op a b = match op with
                       | ODivFloor | OModFloor => if is_nonzero b then f a b else Err EValue
                       | ORem => if is_exact a && is_exact b && negb (is_nonzero b) then Err EValue else f a b
                       | _ => f a b
                       end.
Proof. destruct op; cbn [level_op]; intros E; try discriminate; injection E as <-; reflexivity. Qed.

Lemma level_lift F k x : (k <= 3)%nat -> level (lift F k x) = Nat.max k (level x).
Proof.
  intros Hk. unfold lift. destruct (Nat.leb_spec k (level x)) as [H|H]; [lia|].
  destruct k as [|[|[|[|k]]]]; try lia; destruct x; cbn in *; try lia; reflexivity.
Qed.

Lemma binary_match_lift F fi fr ff fc a b :
  binary_match F fi fr ff fc a b =
  binary_match F fi fr ff fc (lift F (Nat.max (level a) (level b)) a) (lift F (Nat.max (level a) (level b)) b).
Proof. destruct a, b; reflexivity. Qed.

(* the operator applied to mixed operands is the operator of the higher level applied to the
   operands coerced to that level *)
Theorem level_op_commutes F op f a b : level_op F op = Some f ->
  let k := Nat.max (level a) (level b) in
  f a b = f (lift F k a) (lift F k b) /\ level (lift F k a) = k /\ level (lift F k b) = k.
Proof.
  intros E k. split.
  - destruct op; cbn [level_op] in E; try discriminate; injection E as <-; apply binary_match_lift.
  - subst k. rewrite !level_lift; destruct a, b; cbn; lia.
Qed.

(* coercion int -> rational is exact; coercion never goes down *)
Theorem lift_upward F k x : (k <= 3)%nat ->
  (level x <= level (lift F k x))%nat /\ ((k <= level x)%nat -> lift F k x = x) /\
  (exact x -> k = 1%nat -> qval (lift F k x) == qval x /\ (wf x -> wf (lift F k x))).
Proof.
  intros Hk. rewrite level_lift by exact Hk. split; [lia|]. split.
  - intros H. unfold lift. now rewrite (proj2 (Nat.leb_le _ _) H).
  - intros Hx -> . destruct x; unfold exact in Hx; cbn in *; try lia.
    + split; [reflexivity|]. intros _. apply reduced_inject_Z.
    + split; [reflexivity|]. auto.
Qed.

(* the dispatch itself never panics; only the exact zero divisors of % // %% do *)
Lemma binary_match_no_panic F fi fr ff fc a b :
  (forall x y, exact a -> exact b -> a = NI x -> b = NI y -> fi x y <> Panic) ->
  (exact a -> exact b -> fr (qval a) (qval b) <> Panic) ->
  binary_match F fi fr ff fc a b <> Panic.
Proof.
  intros Hi Hr.
  destruct a, b; cbn [binary_match to_f_or_c]; try discriminate; unfold omap, bind.
  all: try (specialize (Hr ltac:(unfold exact; cbn; lia) ltac:(unfold exact; cbn; lia)); cbn [qval] in Hr;
            match goal with |- match ?e with _ => _ end <> _ => destruct e; congruence end).
  specialize (Hi _ _ ltac:(unfold exact; cbn; lia) ltac:(unfold exact; cbn; lia) eq_refl eq_refl).
  match goal with |- match ?e with _ => _ end <> _ => destruct e; congruence end.
Qed.

Lemma nonzero_exact_qval b : exact b -> is_nonzero b = true -> ~ qval b == 0.
Proof.
  intros Hb H E. rewrite (is_nonzero_exact b Hb), (rat_is_zero_true _ E) in H. discriminate.
Qed.

Lemma num_div_no_panic F a b : num_div F a b <> Panic.
Proof.
  unfold num_div. destruct (to_rational a) as [qa|]; [|discriminate].
  destruct (to_rational b) as [qb|]; [|discriminate].
  destruct (rat_is_zero qb) eqn:E; cbn [negb]; [discriminate|].
  unfold rat_div. rewrite E. discriminate.
Qed.

(* no binary arithmetic builtin crashes, on any pair of numbers of any levels *)
Theorem binops_no_panic F op a b : num_binop F op a b <> Panic.
Proof.
  destruct op; unfold num_binop, num_binop_gen.
  - apply binary_match_no_panic; unfold tot; discriminate.
  - apply binary_match_no_panic; unfold tot; discriminate.
  - apply binary_match_no_panic; unfold tot; discriminate.
  - unfold rem_builtin. destruct (is_exact a && is_exact b && negb (is_nonzero b)) eqn:G; [discriminate|].
    assert (Hnz : exact a -> exact b -> ~ qval b == 0).
    { intros Ha Hb. rewrite (is_exact_true a Ha), (is_exact_true b Hb) in G. cbn in G.
      apply nonzero_exact_qval; [exact Hb|]. now destruct (is_nonzero b). }
    apply binary_match_no_panic.
    + intros x y Ha Hb -> ->. specialize (Hnz Ha Hb). cbn in Hnz. apply (proj1 (inject_Z_nonzero y)) in Hnz.
      destruct (int_rem_ok x y Hnz) as [-> _]. discriminate.
    + intros Ha Hb. destruct (rat_rem_ok (qval a) (qval b) (Hnz Ha Hb)) as [r [-> _]]. discriminate.
  - unfold guard_nonzero. destruct (is_nonzero b) eqn:Eb; [|discriminate].
    apply binary_match_no_panic.
    + intros x y Ha Hb -> ->. pose proof (nonzero_exact_qval _ Hb Eb) as Hnz. cbn in Hnz. apply (proj1 (inject_Z_nonzero y)) in Hnz.
      destruct (int_div_floor_ok x y Hnz) as [-> _]. discriminate.
    + intros Ha Hb. destruct (rat_div_floor_ok (qval a) (qval b) (nonzero_exact_qval _ Hb Eb)) as [r [-> _]]. discriminate.
  - unfold guard_nonzero. destruct (is_nonzero b) eqn:Eb; [|discriminate].
    apply binary_match_no_panic.
    + intros x y Ha Hb -> ->. pose proof (nonzero_exact_qval _ Hb Eb) as Hnz. cbn in Hnz. apply (proj1 (inject_Z_nonzero y)) in Hnz.
      destruct (int_mod_floor_ok x y Hnz) as [-> _]. discriminate.
    + intros Ha Hb. destruct (rat_mod_floor_ok (qval a) (qval b) (nonzero_exact_qval _ Hb Eb)) as [r [-> _]]. discriminate.
  - apply num_div_no_panic.
  - unfold pow_num, pow_num_gen. destruct a, b; try discriminate.
    + unfold pow_big_ints. destruct z0; try discriminate. apply num_div_no_panic.
    + unfold rat_pow_int. destruct z; try discriminate. apply num_div_no_panic.
Qed.

(* ------------------------------------------------------------------ E. rounding, parts, conversions *)
Lemma q_round_Z z : q_round (inject_Z z) = z.
Proof.
  rewrite <- rat_round_spec. unfold rat_round, qnum_den, inject_Z. cbn [Qnum Qden].
  rewrite Z.rem_1_r, Z.quot_1_r. cbn. destruct (0 <=? z); reflexivity.
Qed.
Lemma q_trunc_Z z : q_trunc (inject_Z z) = z.
Proof. rewrite <- rat_trunc_spec. unfold rat_trunc, qnum_den, inject_Z. cbn [Qnum Qden]. apply Z.quot_1_r. Qed.

(* on ints and rationals *)
Theorem rounding_exact F x : exact x -> wf x ->
  num_unop F UFloor x = Ok (NI (Qfloor (qval x))) /\
  num_unop F UCeil x = Ok (NI (Qceiling (qval x))) /\
  num_unop F URound x = Ok (NI (q_round (qval x))) /\
  num_conv F CInt x = Ok (NI (q_trunc (qval x))) /\
  (exists n d, num_unop F UNumerator x = Ok (NI n) /\ num_unop F UDenominator x = Ok (NI (Zpos d)) /\
               Z.gcd n (Zpos d) = 1 /\ qval x == n # d) /\
  (exists q, num_conv F CRational x = Ok (NR q) /\ reduced q /\ q == qval x) /\
  num_conv F CFloat x = Ok (NF (to_f_total F x)).
Proof.
  intros Hx Wx. destruct (exact_cases x Hx) as [[z ->]|[q ->]]; cbn [qval wf] in *.
  - rewrite Qfloor_Z, Qceiling_Z, q_round_Z, q_trunc_Z. repeat split; try reflexivity.
    + exists z, 1%positive. repeat split; try reflexivity. apply Z.gcd_1_r.
    + exists (inject_Z z). repeat split; try reflexivity. apply reduced_inject_Z.
  - rewrite <- rat_floor_spec, <- rat_ceil_spec, <- rat_round_spec, <- rat_trunc_spec. repeat split; try reflexivity.
    + exists (Qnum q), (Qden q). repeat split; try reflexivity; try exact Wx.
    + exists q. repeat split; try reflexivity; try exact Wx.
Qed.

(* decoding a bit pattern yields a fraction in lowest terms *)
Lemma scale2_reduced m e : reduced (scale2 m e).
Proof. unfold scale2. destruct (0 <=? e); [apply reduced_inject_Z | apply Qred_reduced]. Qed.
Lemma FFin_inj a b : FFin a = FFin b -> a = b.
Proof. intros H. inversion H. reflexivity. Qed.
Lemma fdecode_reduced f q : fdecode f = FFin q -> reduced q.
Proof.
  unfold fdecode. destruct (N.eqb (f_exp f) 2047); [destruct (N.eqb (f_man f) 0); discriminate|].
  intros H. apply FFin_inj in H. rewrite <- H. apply scale2_reduced.
Qed.

(* on finite floats the same functions act on the exact decoded value *)
Theorem rounding_float_finite F f q : fdecode f = FFin q ->
  num_unop F UFloor (NF f) = Ok (NI (Qfloor q)) /\
  num_unop F UCeil (NF f) = Ok (NI (Qceiling q)) /\
  num_unop F URound (NF f) = Ok (NI (q_round q)) /\
  num_conv F CInt (NF f) = Ok (NI (q_trunc q)) /\
  num_conv F CRational (NF f) = Ok (NR q) /\ reduced q /\
  num_conv F CFloat (NF f) = Ok (NF f).
Proof.
  intros H. unfold num_unop, num_conv, num_conv_original, num_floor, num_ceil, num_round, num_trunc, coerce_with, exact_to_rational.
  rewrite H, <- rat_floor_spec, <- rat_ceil_spec, <- rat_round_spec, <- rat_trunc_spec.
  repeat split; try reflexivity. now apply fdecode_reduced with f.
Qed.

(* non-finite floats: floor/ceil/round hand the float back (the code's choice); int() and rational()
   raise (int(): repaired F16); complex: every one of these raises *)
Theorem rounding_float_nonfinite F f : (forall q, fdecode f <> FFin q) ->
  num_unop F UFloor (NF f) = Ok (NF f) /\ num_unop F UCeil (NF f) = Ok (NF f) /\ num_unop F URound (NF f) = Ok (NF f) /\
  num_conv F CInt (NF f) = Err EValue /\ num_conv F CRational (NF f) = Err EValue.
Proof.
  intros H. unfold num_unop, num_conv, num_conv_original, num_floor, num_ceil, num_round, num_trunc, coerce_with, exact_to_rational.
  destruct (fdecode f) eqn:E; try (exfalso; eapply H; reflexivity); repeat split; reflexivity.
Qed.
Theorem int_of_nonfinite_original_returns_float : forall F,
  num_conv_original F CInt (NF 9218868437227405312%N) = Ok (NF 9218868437227405312%N).
Proof. intros F. vm_compute. reflexivity. Qed.

Theorem rounding_complex F c op : In op [UFloor; UCeil; URound; UNumerator; UDenominator] ->
  (exists e, num_unop F op (NC c) = Err e) /\ (forall cv, exists e, num_conv F cv (NC c) = Err e) /\
  (exists e, num_unop F UNumerator (NF (cre c)) = Err e) /\ (exists e, num_unop F UDenominator (NF (cre c)) = Err e).
Proof.
  intros H. split; [|split; [|split]].
  - cbn in H. destruct H as [<-|[<-|[<-|[<-|[<-|[]]]]]]; eexists; reflexivity.
  - intros cv. destruct cv; eexists; reflexivity.
  - eexists; reflexivity.
  - eexists; reflexivity.
Qed.

(* the unary builtins and the conversions never crash either *)
Theorem unops_no_panic F x : (forall op, num_unop F op x <> Panic) /\ (forall c, num_conv F c x <> Panic).
Proof.
  split.
  - intros op. destruct op, x; cbn; try discriminate.
  - intros c. destruct c, x; cbn; try discriminate;
      unfold num_trunc, coerce_with, exact_to_rational; destruct (fdecode f); discriminate.
Qed.
