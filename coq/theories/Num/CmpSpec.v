(* C08 specification: what the comparisons are supposed to compute, stated without reference to
   the code's case analysis.  Exact values live in Q u {-inf, +inf}; NaN has no value. *)
From Coq Require Import ZArith NArith QArith Bool List Sorting.Permutation Sorting.Sorted.
From NV Require Import Common.Outcome Common.MachineInt Num.FloatBits Num.Cmp.
Import ListNotations.
Open Scope Z_scope.

(* ---------------------------------------------------------------- exact values *)
Inductive ext := NegInf | Finite (q : Q) | PosInf.

Definition ext_compare (x y : ext) : comparison :=
  match x, y with
  | NegInf, NegInf => Eq
  | NegInf, _ => Lt
  | _, NegInf => Gt
  | PosInf, PosInf => Eq
  | PosInf, _ => Gt
  | _, PosInf => Lt
  | Finite p, Finite q => Qcompare p q
  end.

Definition fval_ext (f : fval) : option ext :=
  match f with
  | NaN => None
  | Inf s => Some (if s then NegInf else PosInf)
  | Fin q => Some (Finite q)
  end.

(* the mathematical value of a real number of any level; None exactly for NaN *)
Definition real_val (r : nreal) : option ext :=
  match r with
  | RInt n => Some (Finite (inject_Z (nint_val n)))
  | RRat q => Some (Finite q)
  | RFloat b => fval_ext (decode b)
  end.

Definition wf_real (r : nreal) : Prop := match r with RInt n => wf_nint n | _ => True end.

(* comparison of exact values: no rounding anywhere *)
Definition exact_cmp (x y : option ext) : option comparison :=
  match x, y with
  | Some a, Some b => Some (ext_compare a b)
  | _, _ => None
  end.

(* the two total orders of nnum.rs: exact values, with NaN below / above everything and equal to itself *)
Definition small_nan_cmp (x y : option ext) : comparison :=
  match x, y with
  | None, None => Eq | None, Some _ => Lt | Some _, None => Gt
  | Some a, Some b => ext_compare a b
  end.
Definition big_nan_cmp (x y : option ext) : comparison :=
  match x, y with
  | None, None => Eq | None, Some _ => Gt | Some _, None => Lt
  | Some a, Some b => ext_compare a b
  end.

(* numbers of all four levels are pairs (re, im) of exact values *)
Definition num_val (n : nnum) : option ext * option ext :=
  let '(r, i) := project_to_reals n in (real_val r, real_val i).
Definition pair_cmp (a b : option ext * option ext) : option comparison :=
  match exact_cmp (fst a) (fst b) with
  | Some Eq => exact_cmp (snd a) (snd b)
  | o => o
  end.
Definition wf_num (n : nnum) : Prop := match n with NInt i => wf_nint i | _ => True end.
(* no NaN component *)
Definition num_ok (n : nnum) : Prop := wf_num n /\ nnum_is_nan n = false.

(* ---------------------------------------------------------------- total comparisons *)
Record total_cmp {K : Type} (c : K -> K -> comparison) : Prop := {
  tc_antisym : forall x y, c y x = CompOpp (c x y);
  tc_eq_l : forall x y z, c x y = Eq -> c x z = c y z;
  tc_lt_trans : forall x y z, c x y = Lt -> c y z = Lt -> c x z = Lt
}.

(* lexicographic product of two comparisons *)
Definition lexc {K L} (c : K -> K -> comparison) (d : L -> L -> comparison) (a b : K * L) : comparison :=
  match c (fst a) (fst b) with Eq => d (snd a) (snd b) | o => o end.

(* the exact order on numbers without a NaN component: lexicographic on (re, im) in (Q u {+-inf})^2.
   (`dflt` only makes num_key total; it is never consulted on num_ok numbers.) *)
Definition dflt (o : option ext) : ext := match o with Some x => x | None => PosInf end.
Definition num_key (n : nnum) : ext * ext := (dflt (fst (num_val n)), dflt (snd (num_val n))).
Definition num_compare (a b : nnum) : comparison := lexc ext_compare ext_compare (num_key a) (num_key b).

(* ---------------------------------------------------------------- lexicographic extension *)
Section Lex.
  Context {A : Type} (cmp : A -> A -> option comparison).
  (* length of the longest common prefix on which cmp answers Some Eq *)
  Fixpoint eq_prefix (l r : list A) : nat :=
    match l, r with
    | x :: l', y :: r' => match cmp x y with Some Eq => S (eq_prefix l' r') | _ => O end
    | _, _ => O
    end.
  (* the first position that is not equal (or not comparable) decides; a proper prefix is smaller *)
  Definition lex_spec (l r : list A) : option comparison :=
    let k := eq_prefix l r in
    match nth_error l k, nth_error r k with
    | Some x, Some y => cmp x y
    | None, None => Some Eq
    | None, Some _ => Some Lt
    | Some _, None => Some Gt
    end.
End Lex.

(* ---------------------------------------------------------------- sorting *)
Section SortSpec.
  Context {A K : Type} (c : K -> K -> comparison) (key : A -> K).
  Definition le_key (x y : A) : Prop := c (key x) (key y) <> Gt.
  Definition same_class (k : K) (x : A) : bool := match c (key x) k with Eq => true | _ => false end.
  (* s is l stably sorted: ascending, a rearrangement, and inside every class of equal keys the
     original order is kept *)
  Definition stable_sort_of (l s : list A) : Prop :=
    Permutation l s /\ StronglySorted le_key s /\
    forall k, filter (same_class k) s = filter (same_class k) l.
End SortSpec.

(* kinds that ncmp orders *)
Definition ordered_pair (a b : obj) : bool :=
  match a, b with
  | ONum _, ONum _ | OList _, OList _ | OString _, OString _ | OVector _, OVector _ | OBytes _, OBytes _ => true
  | _, _ => false
  end.

(* ---------------------------------------------------------------- further notions used by the theorem statements *)
(* (obj_total: a total comparison on ALL values -- kinds ranked, numbers by exact value with NaN
   components defaulted, sequences lexicographic -- of which the language's partial order is proved
   to be a restriction; it is a proof device and the yardstick of `stable_sort_of`.) *)
Definition is_Eq (o : option comparison) : bool := match o with Some Eq => true | _ => false end.

(* values built from well-formed numbers without NaN, strings, bytes and lists/vectors of such *)
Inductive clean : obj -> Prop :=
| clean_num n : num_ok n -> clean (ONum n)
| clean_list l : Forall clean l -> clean (OList l)
| clean_str s : clean (OString s)
| clean_vec v : Forall num_ok v -> clean (OVector v)
| clean_bytes b : clean (OBytes b).

Fixpoint slice_total {A} (c : A -> A -> comparison) (l r : list A) : comparison :=
  match l, r with
  | [], [] => Eq
  | [], _ :: _ => Lt
  | _ :: _, [] => Gt
  | x :: l', y :: r' => match c x y with Eq => slice_total c l' r' | o => o end
  end.

Definition rank (a : obj) : Z :=
  match a with
  | ONull => 0 | ONum _ => 1 | OList _ => 2 | OString _ => 3 | OVector _ => 4 | OBytes _ => 5
  | ODict _ => 6 | OOther _ => 7
  end.

Fixpoint obj_total (a b : obj) {struct a} : comparison :=
  match a, b with
  | ONum x, ONum y => num_compare x y
  | OList l, OList r =>
    (fix go (l r : list obj) {struct l} : comparison :=
       match l, r with
       | [], [] => Eq
       | [], _ :: _ => Lt
       | _ :: _, [] => Gt
       | x :: l', y :: r' => match obj_total x y with Eq => go l' r' | o => o end
       end) l r
  | OString l, OString r => slice_total N.compare l r
  | OVector l, OVector r => slice_total num_compare l r
  | OBytes l, OBytes r => slice_total N.compare l r
  | _, _ => rank a ?= rank b
  end.

Definition pairwise_comparable (l : list obj) : Prop :=
  forall x y, In x l -> In y l -> obj_partial_cmp x y <> None.
Definition pairwise_ncmp (l : list obj) : Prop :=
  forall x y, In x l -> In y l -> is_ok (ncmp x y) = true.

Definition le_obj (x y : obj) : Prop := exists o, obj_partial_cmp x y = Some o /\ o <> Gt.
Definition eqv_obj (k x : obj) : bool := is_Eq (obj_partial_cmp x k).

Fixpoint link_list (x : obj) (links : list (cmpop * obj)) : list (cmpop * obj * obj) :=
  match links with
  | [] => []
  | (op, y) :: r => (op, x, y) :: link_list y r
  end.
