(* C08 proofs, part 4: the insertion sort that stands for Vec::sort_by returns the stable sorted
   rearrangement, and ANY stable sort by a total comparison returns that same list. *)
From Coq Require Import ZArith NArith QArith Bool List Lia Sorting.Permutation Sorting.Sorted.
From NV Require Import Common.Outcome Num.FloatBits Num.Cmp Num.CmpSpec Num.Cmp_proofs.
Import ListNotations.

Section SortProofs.
  Context {A K : Type} (cmp : K -> K -> option comparison) (key : A -> K) (c : K -> K -> comparison).
  Hypothesis T : total_cmp c.
  Notation le := (le_key c key).
  Notation cls := (same_class c key).

  (* on the elements of l the code's (partial) comparison answers, and answers c *)
  Definition agrees_on (l : list A) : Prop :=
    forall x y, In x l -> In y l -> cmp (key x) (key y) = Some (c (key x) (key y)).

  Lemma agrees_sub l l' : (forall x, In x l' -> In x l) -> agrees_on l -> agrees_on l'.
  Proof. intros S H x y Hx Hy. apply H; auto. Qed.

  Lemma le_refl x : le x x.
  Proof. unfold le_key. rewrite (tc_refl c T). discriminate. Qed.
  Lemma le_trans x y z : le x y -> le y z -> le x z.
  Proof. apply (tc_le_trans c T). Qed.

  Lemma cls_both_eq k x y : cls k x = true -> cls k y = true -> c (key x) (key y) = Eq.
  Proof.
    unfold same_class. destruct (c (key x) k) eqn:E1; try discriminate.
    destruct (c (key y) k) eqn:E2; try discriminate. intros _ _.
    rewrite (tc_eq_l c T _ _ (key y) E1). now apply (tc_eq_sym c T).
  Qed.

  Lemma insert_spec x s : agrees_on (x :: s) -> StronglySorted le s ->
    exists s', insert cmp key x s = Some s' /\ Permutation (x :: s) s' /\ StronglySorted le s' /\
               forall k, filter (cls k) s' = filter (cls k) (x :: s).
  Proof.
    induction s as [|y r IH]; intros Ag So.
    - exists [x]. cbn. repeat split; auto. constructor; constructor.
    - cbn [insert]. rewrite (Ag x y) by (cbn; auto).
      apply StronglySorted_inv in So. destruct So as [Sr Fy].
      destruct (c (key x) (key y)) eqn:C.
      + exists (x :: y :: r). repeat split; auto.
        constructor; [constructor; assumption|]. constructor.
        * unfold le_key. rewrite C. discriminate.
        * eapply Forall_impl; [|exact Fy]. intros z Hz. apply (le_trans x y z); [|exact Hz].
          unfold le_key. rewrite C. discriminate.
      + exists (x :: y :: r). repeat split; auto.
        constructor; [constructor; assumption|]. constructor.
        * unfold le_key. rewrite C. discriminate.
        * eapply Forall_impl; [|exact Fy]. intros z Hz. apply (le_trans x y z); [|exact Hz].
          unfold le_key. rewrite C. discriminate.
      + destruct IH as [r' [I [P [S F]]]]; [|exact Sr|].
        { eapply agrees_sub; [|exact Ag]. cbn. intuition. }
        rewrite I. cbn [option_map]. exists (y :: r'). repeat split.
        * eapply perm_trans; [apply perm_swap|]. now apply perm_skip.
        * constructor; [exact S|]. eapply Permutation_Forall; [exact P|]. constructor; [|exact Fy].
          unfold le_key. rewrite (tc_antisym c T (key x) (key y)), C. discriminate.
        * intros k. cbn [filter]. rewrite F. cbn [filter].
          destruct (cls k x) eqn:Kx, (cls k y) eqn:Ky; try reflexivity.
          pose proof (cls_both_eq k x y Kx Ky). congruence.
  Qed.

  Theorem isort_stable_sort l : agrees_on l ->
    exists s, isort cmp key l = Some s /\ stable_sort_of c key l s.
  Proof.
    induction l as [|x r IH]; intros Ag.
    - exists []. cbn. repeat split; auto. constructor.
    - destruct IH as [s [I [P [S F]]]]. { eapply agrees_sub; [|exact Ag]. cbn; auto. }
      cbn [isort]. rewrite I.
      destruct (insert_spec x s) as [s' [I' [P' [S' F']]]]; [|exact S|].
      { eapply agrees_sub; [|exact Ag]. intros z [->|Hz]; [now left|right].
        eapply Permutation_in; [apply Permutation_sym; exact P|exact Hz]. }
      exists s'. split; [exact I'|]. repeat split.
      + eapply perm_trans; [apply perm_skip; exact P|exact P'].
      + exact S'.
      + intros k. rewrite F'. cbn [filter]. now rewrite F.
  Qed.

  (* two stable sorted rearrangements of the same list are the same list *)
  Lemma sorted_stable_unique s1 : forall s2,
    Permutation s1 s2 -> StronglySorted le s1 -> StronglySorted le s2 ->
    (forall k, filter (cls k) s1 = filter (cls k) s2) -> s1 = s2.
  Proof.
    induction s1 as [|x t1 IH]; intros s2 P S1 S2 F.
    - apply Permutation_nil in P. now subst.
    - destruct s2 as [|y t2]. { apply Permutation_sym, Permutation_nil in P. discriminate. }
      apply StronglySorted_inv in S1. destruct S1 as [St1 Fx].
      apply StronglySorted_inv in S2. destruct S2 as [St2 Fy].
      assert (Lxy : le x y).
      { assert (In y (x :: t1)) as [->|Hy] by (eapply Permutation_in; [apply Permutation_sym; exact P|now left]).
        - apply le_refl. - rewrite Forall_forall in Fx. auto. }
      assert (Lyx : le y x).
      { assert (In x (y :: t2)) as [->|Hx] by (eapply Permutation_in; [exact P|now left]).
        - apply le_refl. - rewrite Forall_forall in Fy. auto. }
      assert (E : c (key x) (key y) = Eq).
      { unfold le_key in *. rewrite (tc_antisym c T (key x) (key y)) in Lyx.
        destruct (c (key x) (key y)); cbn in *; congruence. }
      assert (x = y).
      { pose proof (F (key x)) as Fk. cbn [filter] in Fk.
        assert (K1 : cls (key x) x = true) by (unfold same_class; now rewrite (tc_refl c T)).
        assert (K2 : cls (key x) y = true) by (unfold same_class; now rewrite (tc_eq_sym c T _ _ E)).
        rewrite K1, K2 in Fk. congruence. }
      subst y. f_equal. apply IH; auto.
      + eapply Permutation_cons_inv; exact P.
      + intros k. pose proof (F k) as Fk. cbn [filter] in Fk. destruct (cls k x); congruence.
  Qed.

  Theorem stable_sort_unique l s1 s2 :
    stable_sort_of c key l s1 -> stable_sort_of c key l s2 -> s1 = s2.
  Proof.
    intros [P1 [S1 F1]] [P2 [S2 F2]]. apply sorted_stable_unique; auto.
    - eapply perm_trans; [apply Permutation_sym; exact P1|exact P2].
    - intros k. now rewrite F1, F2.
  Qed.

  (* hence: whatever stable algorithm Vec::sort_by uses, its result is the model's *)
  Corollary any_stable_sort_is_isort l s : agrees_on l ->
    stable_sort_of c key l s -> isort cmp key l = Some s.
  Proof.
    intros Ag H. destruct (isort_stable_sort l Ag) as [s' [I H']].
    now rewrite (stable_sort_unique l s s' H H').
  Qed.

  (* a failed comparison is never swallowed: if the sort answers, every comparison it made answered *)
  Lemma insert_some x s s' : insert cmp key x s = Some s' ->
    exists pre post, s = pre ++ post /\ s' = pre ++ x :: post /\
      (forall y, In y pre -> cmp (key x) (key y) = Some Gt) /\
      match post with [] => True | y :: _ => exists o, cmp (key x) (key y) = Some o /\ o <> Gt end.
  Proof.
    revert s'. induction s as [|y r IH]; intros s' H.
    - cbn in H. injection H as <-. exists [], []. repeat split; auto. intros y [].
    - cbn [insert] in H. destruct (cmp (key x) (key y)) as [[]|] eqn:C; try discriminate.
      + injection H as <-. exists [], (y :: r). repeat split; auto. intros z []. exists Eq. split; [auto|discriminate].
      + injection H as <-. exists [], (y :: r). repeat split; auto. intros z []. exists Lt. split; [auto|discriminate].
      + destruct (insert cmp key x r) as [r'|] eqn:I; try discriminate. injection H as <-.
        destruct (IH r' eq_refl) as [pre [post [E1 [E2 [Hp Hq]]]]].
        exists (y :: pre), post. subst. repeat split; auto. intros z [<-|Hz]; auto.
  Qed.
  (* the head of the stable sort is the FIRST minimal element of the input; its last element is
     equal (in the order) to every maximal element *)
  Lemma filter_none (f : A -> bool) l : (forall y, In y l -> f y = false) -> filter f l = [].
  Proof.
    induction l as [|y l IH]; intros H; [reflexivity|]. cbn. rewrite (H y) by (now left).
    apply IH. intros; apply H; now right.
  Qed.

  Lemma head_of_stable_sort l s pre m post : stable_sort_of c key l s ->
    l = pre ++ m :: post ->
    (forall y, In y pre -> c (key m) (key y) = Lt) ->
    (forall y, In y post -> c (key y) (key m) <> Lt) ->
    hd_error s = Some m.
  Proof.
    intros [P [S F]] -> Hpre Hpost.
    destruct s as [|h t]. { apply Permutation_sym, Permutation_nil in P. destruct pre; discriminate. }
    apply StronglySorted_inv in S. destruct S as [_ Fh]. rewrite Forall_forall in Fh.
    assert (Hm : In m (h :: t)) by (eapply Permutation_in; [exact P|apply in_or_app; cbn; auto]).
    assert (Hh : In h (pre ++ m :: post)) by (eapply Permutation_in; [apply Permutation_sym; exact P|now left]).
    assert (L1 : le h m) by (destruct Hm as [->|Hm]; [apply le_refl|auto]).
    assert (L2 : le m h).
    { apply in_app_or in Hh. destruct Hh as [Hh|[<-|Hh]].
      - unfold le_key. rewrite (Hpre h Hh). discriminate.
      - apply le_refl.
      - unfold le_key. rewrite (tc_antisym c T). specialize (Hpost h Hh). destruct (c (key h) (key m)); cbn; congruence. }
    assert (E : c (key h) (key m) = Eq).
    { unfold le_key in *. rewrite (tc_antisym c T (key h) (key m)) in L2. destruct (c (key h) (key m)); cbn in *; congruence. }
    pose proof (F (key m)) as Fk. rewrite filter_app in Fk. cbn [filter] in Fk.
    assert (K1 : cls (key m) h = true) by (unfold same_class; now rewrite E).
    assert (K2 : cls (key m) m = true) by (unfold same_class; now rewrite (tc_refl c T)).
    rewrite K1, K2, (filter_none (cls (key m)) pre) in Fk.
    - cbn in Fk. cbn. congruence.
    - intros y Hy. unfold same_class. rewrite (tc_antisym c T), (Hpre y Hy). reflexivity.
  Qed.

  Lemma sorted_last_max s d : StronglySorted le s -> forall z, In z s -> le z (last s d).
  Proof.
    induction s as [|x s IH]; intros S z Hz; [destruct Hz|].
    apply StronglySorted_inv in S. destruct S as [S Fx]. rewrite Forall_forall in Fx.
    destruct s as [|y s']; [destruct Hz as [<-|[]]; apply le_refl|].
    change (last (x :: y :: s') d) with (last (y :: s') d).
    destruct Hz as [Hz|Hz]; [subst z|now apply IH].
    apply (le_trans x y); [apply Fx; now left|apply IH; auto; now left].
  Qed.

  Lemma last_In (s : list A) d : s <> [] -> In (last s d) s.
  Proof.
    induction s as [|a u IH]; [congruence|]. intros _. destruct u as [|b u']; [now left|].
    right. apply IH. discriminate.
  Qed.

  Lemma last_of_stable_sort l s m d : stable_sort_of c key l s -> In m l ->
    (forall y, In y l -> le y m) -> c (key (last s d)) (key m) = Eq.
  Proof.
    intros [P [S F]] Hm Hmax.
    assert (Hs : In m s) by (eapply Permutation_in; [exact P|exact Hm]).
    assert (L1 : le m (last s d)) by now apply sorted_last_max.
    assert (Hl : In (last s d) l).
    { eapply Permutation_in; [apply Permutation_sym; exact P|]. apply last_In. intros ->. destruct Hs. }
    pose proof (Hmax _ Hl) as L2. unfold le_key in *.
    rewrite (tc_antisym c T (key (last s d)) (key m)) in L1. destruct (c (key (last s d)) (key m)); cbn in *; congruence.
  Qed.
  (* errors are not swallowed: an element that is comparable with no other element makes every
     sort of a list of length >= 2 fail (in whatever order the elements come) *)
  Lemma insert_perm x s s' : insert cmp key x s = Some s' -> Permutation (x :: s) s'.
  Proof.
    intros H. destruct (insert_some x s s' H) as [pre [post [-> [-> _]]]]. apply Permutation_middle.
  Qed.
  Lemma isort_perm l : forall s, isort cmp key l = Some s -> Permutation l s.
  Proof.
    induction l as [|x r IH]; intros s H; cbn in H.
    - injection H as <-. constructor.
    - destruct (isort cmp key r) as [t|] eqn:E; [|discriminate].
      eapply perm_trans; [apply perm_skip, IH; reflexivity|now apply insert_perm].
  Qed.

  Theorem isort_isolated_fails pre x post :
    pre ++ post <> [] ->
    (forall y, In y (pre ++ post) -> cmp (key x) (key y) = None /\ cmp (key y) (key x) = None) ->
    isort cmp key (pre ++ x :: post) = None.
  Proof.
    induction pre as [|a pre' IH]; intros NE Iso.
    - cbn [app] in *. cbn [isort]. destruct (isort cmp key post) as [s|] eqn:E; [|reflexivity].
      pose proof (isort_perm post s E) as P.
      destruct s as [|y s']. { apply Permutation_sym, Permutation_nil in P. congruence. }
      cbn [insert]. destruct (Iso y) as [-> _]; [|reflexivity].
      eapply Permutation_in; [apply Permutation_sym; exact P|now left].
    - cbn [app isort].
      assert (D : pre' ++ post = [] \/ pre' ++ post <> []) by (destruct (pre' ++ post); [now left|right; discriminate]).
      destruct D as [Z|Z].
      + apply app_eq_nil in Z. destruct Z as [-> ->]. cbn.
        destruct (Iso a) as [_ ->]; [now left|reflexivity].
      + rewrite IH; [reflexivity|exact Z|].
        intros y Hy. apply Iso. cbn. right. exact Hy.
  Qed.
End SortProofs.

(* ------------------------------------------------------------------ min / max *)
Section Extremum.
  Context {A : Type} (key : A -> obj) (c : obj -> obj -> comparison).
  Hypothesis T : total_cmp c.

  (* the pure scan behind Extremum: keep the running answer unless the new element is strictly better *)
  Section Best.
    Variable d : obj -> obj -> comparison.
    Hypothesis Td : total_cmp d.
    Fixpoint best (r : A) (l : list A) : A :=
      match l with
      | [] => r
      | b :: t => best (if is_lt (d (key b) (key r)) then b else r) t
      end.

    Lemma best_spec l : forall r, exists pre post,
      r :: l = pre ++ best r l :: post /\
      (forall y, In y pre -> d (key (best r l)) (key y) = Lt) /\
      (forall y, In y post -> d (key y) (key (best r l)) <> Lt).
    Proof.
      induction l as [|b t IH]; intros r.
      - exists [], []. cbn. repeat split; auto; intros y [].
      - cbn [best]. destruct (d (key b) (key r)) eqn:C; cbn [is_lt].
        + (* b == r: keep r *)
          destruct (IH r) as [pre' [post' [E [Hpre Hpost]]]]. remember (best r t) as m eqn:Hm.
          destruct pre' as [|p pre'']; cbn in E; injection E as E1 E2.
          * exists [], (b :: post'). subst r t. repeat split; auto.
            intros y [<-|Hy]; [rewrite C; discriminate|auto].
          * exists (r :: b :: pre''), post'. subst p t. repeat split; auto.
            intros y [<-|[<-|Hy]]; [apply Hpre; now left| |apply Hpre; now right].
            rewrite (tc_eq_r d Td _ _ (key m) C). apply Hpre. now left.
        + (* b < r: take b *)
          destruct (IH b) as [pre' [post' [E [Hpre Hpost]]]]. remember (best b t) as m eqn:Hm.
          exists (r :: pre'), post'. cbn. rewrite E. repeat split; auto.
          intros y [<-|Hy]; [|auto].
          destruct pre' as [|p pre'']; cbn in E; injection E as E1 E2.
          * now rewrite <- E1.
          * subst p. apply (tc_lt_trans d Td _ (key b)); [apply Hpre; now left|exact C].
        + (* b > r: keep r *)
          destruct (IH r) as [pre' [post' [E [Hpre Hpost]]]]. remember (best r t) as m eqn:Hm.
          destruct pre' as [|p pre'']; cbn in E; injection E as E1 E2.
          * exists [], (b :: post'). subst r t. repeat split; auto.
            intros y [<-|Hy]; [rewrite C; discriminate|auto].
          * exists (r :: b :: pre''), post'. subst p t. repeat split; auto.
            intros y [<-|[<-|Hy]]; [apply Hpre; now left| |apply Hpre; now right].
            apply (tc_lt_trans d Td _ (key r)); [apply Hpre; now left|].
            now apply (tc_gt_lt d Td).
    Qed.
  End Best.

  Definition ncmp_agrees (l : list A) : Prop :=
    forall x y, In x l -> In y l -> ncmp (key x) (key y) = Ok (c (key x) (key y)).

  Lemma extremum_go_best bias d l : forall r,
    (forall x y, cmp_eqb (c x y) bias = is_lt (d x y)) ->
    ncmp_agrees (r :: l) ->
    extremum_go key bias (Some r) l = Ok (Some (best d r l)).
  Proof.
    induction l as [|b t IH]; intros r Hd Ag; [reflexivity|].
    cbn [extremum_go best]. rewrite (Ag b r) by (cbn; auto). cbn [bind]. rewrite Hd.
    destruct (is_lt (d (key b) (key r))); apply IH; auto; intros x y Hx Hy; apply Ag; cbn in *; intuition.
  Qed.

  (* min: the answer is strictly below everything before it and not above anything after it,
     i.e. the FIRST minimal element *)
  Theorem min_is_first_minimum l : l <> [] -> ncmp_agrees l ->
    exists pre m post, l = pre ++ m :: post /\ extremum_on key Lt l = Ok m /\
      (forall y, In y pre -> c (key m) (key y) = Lt) /\
      (forall y, In y post -> c (key y) (key m) <> Lt).
  Proof.
    destruct l as [|r l]; [congruence|]. intros _ Ag.
    destruct (best_spec c T l r) as [pre [post [E [H1 H2]]]].
    exists pre, (best c r l), post. repeat split; auto.
    assert (Hd : forall x y, cmp_eqb (c x y) Lt = is_lt (c x y)) by (intros x y; destruct (c x y); reflexivity).
    unfold extremum_on. cbn [extremum_go]. rewrite (extremum_go_best Lt c l r Hd Ag). reflexivity.
  Qed.

  Lemma total_opp : total_cmp (fun x y => CompOpp (c x y)).
  Proof.
    split.
    - intros x y. rewrite (tc_antisym c T x y). reflexivity.
    - intros x y z H. f_equal. apply (tc_eq_l c T). destruct (c x y); cbn in H; congruence.
    - intros x y z H1 H2. rewrite (tc_gt_trans c T x y z); auto.
      + destruct (c x y); cbn in H1; congruence.
      + destruct (c y z); cbn in H2; congruence.
  Qed.

  (* max: strictly above everything before it, not below anything after it: the FIRST maximal element *)
  Theorem max_is_first_maximum l : l <> [] -> ncmp_agrees l ->
    exists pre m post, l = pre ++ m :: post /\ extremum_on key Gt l = Ok m /\
      (forall y, In y pre -> c (key m) (key y) = Gt) /\
      (forall y, In y post -> c (key y) (key m) <> Gt).
  Proof.
    destruct l as [|r l]; [congruence|]. intros _ Ag.
    destruct (best_spec _ total_opp l r) as [pre [post [E [H1 H2]]]].
    exists pre, (best (fun x y => CompOpp (c x y)) r l), post. repeat split; auto.
    - assert (Hd : forall x y, cmp_eqb (c x y) Gt = is_lt (CompOpp (c x y))) by (intros x y; destruct (c x y); reflexivity).
      unfold extremum_on. cbn [extremum_go].
      rewrite (extremum_go_best Gt (fun x y => CompOpp (c x y)) l r Hd Ag). reflexivity.
    - intros y Hy. specialize (H1 y Hy). cbn in H1. destruct (c _ _); cbn in H1; congruence.
    - intros y Hy. specialize (H2 y Hy). cbn in H2. destruct (c _ _); cbn in *; congruence.
  Qed.
End Extremum.
