(* C06 proofs: every NInt operator of Num/NInt.v computes the exact Z result on operands that
   satisfy the representation invariant `ok`, keeps the invariant, and panics only on an
   NInt-level zero divisor, which the builtin layer guards. *)
From Coq Require Import ZArith List Bool Lia Btauto Znumtheory.
From NV Require Import Common.Outcome Common.MachineInt Num.NInt.
Import ListNotations.
Open Scope Z_scope.

Ltac Zify.zify_post_hook ::= Z.to_euclidean_division_equations.

Local Ltac range := unfold in_i64, i64_min, i64_max in *.

(* ------------------------------------------------------------------ machine primitives *)
Lemma checked_some z r : checked z = Some r -> r = z /\ in_i64 z.
Proof.
  unfold checked. destruct (in_i64b z) eqn:E; [|discriminate].
  intros H; inversion H; subst. split; [reflexivity|]. now apply in_i64b_spec.
Qed.
Lemma checked_none z : checked z = None -> ~ in_i64 z.
Proof.
  unfold checked. destruct (in_i64b z) eqn:E; [discriminate|].
  intros _ H. apply in_i64b_spec in H. congruence.
Qed.
Lemma big_to_i64_some z r : big_to_i64 z = Some r -> r = z /\ in_i64 z.
Proof. exact (checked_some z r). Qed.
Lemma big_to_i64_none z : big_to_i64 z = None -> ~ in_i64 z.
Proof. exact (checked_none z). Qed.
Lemma big_to_i64_in z : in_i64 z -> big_to_i64 z = Some z.
Proof. intros H. unfold big_to_i64. apply in_i64b_spec in H. now rewrite H. Qed.

Lemma of_big_ok z : ok (of_big z) /\ val (of_big z) = z.
Proof.
  unfold of_big. destruct (big_to_i64 z) eqn:E.
  - apply big_to_i64_some in E as [-> H]. split; [exact H|reflexivity].
  - split; [exact I|reflexivity].
Qed.

(* ------------------------------------------------------------------ the checked family *)
Lemma binary_checked_exact chk f a b :
  (forall x y r, in_i64 x -> in_i64 y -> chk x y = Some r -> r = f x y /\ in_i64 r) ->
  ok a -> ok b ->
  ok (binary_checked chk f a b) /\ val (binary_checked chk f a b) = f (val a) (val b).
Proof.
  intros Hc Ha Hb. destruct a as [x|x], b as [y|y]; cbn [binary_checked val to_bigint ok] in *; try (split; [exact I|reflexivity]).
  destruct (chk x y) eqn:E.
  - destruct (Hc _ _ _ Ha Hb E) as [-> Hr]. split; [exact Hr|reflexivity].
  - split; [exact I|reflexivity].
Qed.

Lemma add_exact a b : ok a -> ok b -> ok (add a b) /\ val (add a b) = val a + val b.
Proof. apply binary_checked_exact. intros x y r _ _ H. unfold checked_add in H. apply checked_some in H as [-> H]. split; [reflexivity|exact H]. Qed.
Lemma sub_exact a b : ok a -> ok b -> ok (sub a b) /\ val (sub a b) = val a - val b.
Proof. apply binary_checked_exact. intros x y r _ _ H. unfold checked_sub in H. apply checked_some in H as [-> H]. split; [reflexivity|exact H]. Qed.
Lemma mul_exact a b : ok a -> ok b -> ok (mul a b) /\ val (mul a b) = val a * val b.
Proof. apply binary_checked_exact. intros x y r _ _ H. unfold checked_mul in H. apply checked_some in H as [-> H]. split; [reflexivity|exact H]. Qed.

Lemma binary_checked_p_exact chk (f : Z -> Z -> outcome Z) g a b :
  (forall x y r, in_i64 x -> in_i64 y -> chk x y = Some r -> y <> 0 /\ r = g x y /\ in_i64 r) ->
  (forall x y, y <> 0 -> f x y = Ok (g x y)) ->
  (forall x y, y = 0 -> f x y = Panic) ->
  (forall x, chk x 0 = None) ->
  ok a -> ok b ->
  (val b <> 0 -> exists r, binary_checked_p chk f a b = Ok r /\ ok r /\ val r = g (val a) (val b)) /\
  (val b = 0 -> binary_checked_p chk f a b = Panic).
Proof.
  intros Hc Hf Hp H0 Ha Hb.
  destruct a as [x|x], b as [y|y]; cbn [binary_checked_p val to_bigint ok] in *.
  - destruct (chk x y) eqn:E.
    + destruct (Hc _ _ _ Ha Hb E) as (Hy & -> & Hr). split; [|tauto].
      intros _. eexists; split; [reflexivity|]. split; [exact Hr|reflexivity].
    + split; intros Hy.
      * rewrite Hf by exact Hy. eexists; split; [reflexivity|]. split; [exact I|reflexivity].
      * now rewrite Hp.
  - split; intros Hy; [rewrite Hf by exact Hy; eexists; split; [reflexivity|]; split; [exact I|reflexivity] | now rewrite Hp].
  - split; intros Hy; [rewrite Hf by exact Hy; eexists; split; [reflexivity|]; split; [exact I|reflexivity] | now rewrite Hp].
  - split; intros Hy; [rewrite Hf by exact Hy; eexists; split; [reflexivity|]; split; [exact I|reflexivity] | now rewrite Hp].
Qed.

Lemma div_exact a b : ok a -> ok b ->
  (val b <> 0 -> exists r, div a b = Ok r /\ ok r /\ val r = Z.quot (val a) (val b)) /\
  (val b = 0 -> div a b = Panic).
Proof.
  apply binary_checked_p_exact.
  - intros x y r _ _. unfold checked_div. destruct (Z.eqb_spec y 0); [discriminate|].
    intros H. apply checked_some in H as [-> H]. auto.
  - intros x y Hy. unfold big_div. destruct (Z.eqb_spec y 0); [contradiction|reflexivity].
  - intros x y ->. reflexivity.
  - intros x. reflexivity.
Qed.

Lemma rem_exact a b : ok a -> ok b ->
  (val b <> 0 -> exists r, rem a b = Ok r /\ ok r /\ val r = Z.rem (val a) (val b)) /\
  (val b = 0 -> rem a b = Panic).
Proof.
  apply binary_checked_p_exact.
  - intros x y r Hx Hy. unfold checked_rem. destruct (Z.eqb_spec y 0); [discriminate|].
    destruct ((x =? i64_min) && (y =? -1)); [discriminate|].
    intros H; inversion H; subst. split; [assumption|]. split; [reflexivity|].
    range. lia.
  - intros x y Hy. unfold big_rem. destruct (Z.eqb_spec y 0); [contradiction|reflexivity].
  - intros x y ->. reflexivity.
  - intros x. reflexivity.
Qed.

(* ------------------------------------------------------------------ 64-bit bit operators *)
Lemma as_i64_of_congr z y : in_i64 y -> z mod 2 ^ 64 = y mod 2 ^ 64 -> as_i64 z = y.
Proof.
  unfold as_i64, u64_mod. intros Hy ->. range.
  destruct (Z.ltb_spec (y mod 2 ^ 64) (2 ^ 63)); lia.
Qed.
Lemma as_usize_land z : as_usize z = Z.land z (Z.ones 64).
Proof. unfold as_usize, u64_mod. now rewrite Z.land_ones by lia. Qed.

Lemma in_i64_shiftr z : in_i64 z <-> (Z.shiftr z 63 = 0 \/ Z.shiftr z 63 = -1).
Proof. rewrite Z.shiftr_div_pow2 by lia. range. lia. Qed.

Lemma land_in_i64 a b : in_i64 a -> in_i64 b -> in_i64 (Z.land a b).
Proof.
  rewrite !in_i64_shiftr, Z.shiftr_land. intros [->| ->] [->| ->]; cbn; auto.
Qed.
Lemma lor_in_i64 a b : in_i64 a -> in_i64 b -> in_i64 (Z.lor a b).
Proof.
  rewrite !in_i64_shiftr, Z.shiftr_lor. intros [->| ->] [->| ->]; cbn; auto.
Qed.
Lemma lxor_in_i64 a b : in_i64 a -> in_i64 b -> in_i64 (Z.lxor a b).
Proof.
  rewrite !in_i64_shiftr, Z.shiftr_lxor. intros [->| ->] [->| ->]; cbn; auto.
Qed.

Lemma and_i64_exact a b : in_i64 a -> in_i64 b -> and_i64 a b = Z.land a b /\ in_i64 (Z.land a b).
Proof.
  intros Ha Hb. pose proof (land_in_i64 _ _ Ha Hb) as H. split; [|exact H].
  unfold and_i64. apply as_i64_of_congr; [exact H|].
  rewrite !as_usize_land, <- !Z.land_ones by lia.
  apply Z.bits_inj'. intros n _. rewrite !Z.land_spec. btauto.
Qed.
Lemma or_i64_exact a b : in_i64 a -> in_i64 b -> or_i64 a b = Z.lor a b /\ in_i64 (Z.lor a b).
Proof.
  intros Ha Hb. pose proof (lor_in_i64 _ _ Ha Hb) as H. split; [|exact H].
  unfold or_i64. apply as_i64_of_congr; [exact H|].
  rewrite !as_usize_land, <- !Z.land_ones by lia.
  apply Z.bits_inj'. intros n _. rewrite !Z.land_spec, !Z.lor_spec, !Z.land_spec. btauto.
Qed.
Lemma xor_i64_exact a b : in_i64 a -> in_i64 b -> xor_i64 a b = Z.lxor a b /\ in_i64 (Z.lxor a b).
Proof.
  intros Ha Hb. pose proof (lxor_in_i64 _ _ Ha Hb) as H. split; [|exact H].
  unfold xor_i64. apply as_i64_of_congr; [exact H|].
  rewrite !as_usize_land, <- !Z.land_ones by lia.
  apply Z.bits_inj'. intros n _. rewrite !Z.land_spec, !Z.lxor_spec, !Z.land_spec. btauto.
Qed.
Lemma lnot_eq a : Z.lnot a = - a - 1.
Proof. unfold Z.lnot. lia. Qed.
Lemma not_i64_exact a : in_i64 a -> not_i64 a = Z.lnot a /\ in_i64 (Z.lnot a).
Proof.
  intros Ha. rewrite lnot_eq. assert (H : in_i64 (- a - 1)) by (range; lia). split; [|exact H].
  unfold not_i64. apply as_i64_of_congr; [exact H|].
  unfold as_usize, usize_max, u64_mod. lia.
Qed.

Lemma binary_bits_exact f64 f a b :
  (forall x y, in_i64 x -> in_i64 y -> f64 x y = f x y /\ in_i64 (f x y)) ->
  ok a -> ok b ->
  ok (binary_bits f64 f a b) /\ val (binary_bits f64 f a b) = f (val a) (val b).
Proof.
  intros Hc Ha Hb. destruct a as [x|x], b as [y|y]; cbn [binary_bits val to_bigint ok] in *; try (split; [exact I|reflexivity]).
  destruct (Hc _ _ Ha Hb) as [-> H]. split; [exact H|reflexivity].
Qed.
Lemma bitand_exact a b : ok a -> ok b -> ok (bitand a b) /\ val (bitand a b) = Z.land (val a) (val b).
Proof. apply binary_bits_exact, and_i64_exact. Qed.
Lemma bitor_exact a b : ok a -> ok b -> ok (bitor a b) /\ val (bitor a b) = Z.lor (val a) (val b).
Proof. apply binary_bits_exact, or_i64_exact. Qed.
Lemma bitxor_exact a b : ok a -> ok b -> ok (bitxor a b) /\ val (bitxor a b) = Z.lxor (val a) (val b).
Proof. apply binary_bits_exact, xor_i64_exact. Qed.
Lemma not_exact a : ok a -> ok (not a) /\ val (not a) = Z.lnot (val a).
Proof.
  destruct a as [x|x]; cbn [not ok val]; intros H; [|split; [exact I|reflexivity]].
  destruct (not_i64_exact x H) as [-> H']. split; [exact H'|reflexivity].
Qed.

(* ------------------------------------------------------------------ neg, abs, signum *)
Lemma neg_exact a : ok a -> ok (neg a) /\ val (neg a) = - val a.
Proof. intros _. unfold neg, to_bigint. apply of_big_ok. Qed.

Lemma abs_exact a : ok a -> ok (abs a) /\ val (abs a) = Z.abs (val a).
Proof.
  destruct a as [x|x]; cbn [abs ok val to_bigint]; intros H; [|split; [exact I|reflexivity]].
  unfold checked_abs. destruct (checked (Z.abs x)) eqn:E.
  - apply checked_some in E as [-> E]. split; [exact E|reflexivity].
  - split; [exact I|reflexivity].
Qed.

Lemma big_sign_sgn z : match big_sign z with Minus => -1 | NoSign => 0 | Plus => 1 end = Z.sgn z.
Proof.
  unfold big_sign. destruct (Z.eqb_spec z 0); [subst; reflexivity|].
  destruct (Z.ltb_spec 0 z); lia.
Qed.
Lemma sign_of_sgn a : match sign_of a with Minus => -1 | NoSign => 0 | Plus => 1 end = Z.sgn (val a).
Proof. destruct a as [x|x]; cbn [sign_of val]; exact (big_sign_sgn x). Qed.

Lemma signum_exact a : ok a -> ok (signum a) /\ val (signum a) = Z.sgn (val a).
Proof.
  intros _. destruct a as [x|x]; cbn [signum val].
  - unfold signum_i64. destruct (Z.eqb_spec x 0); [subst; cbn; range; lia|].
    destruct (Z.ltb_spec 0 x); cbn [ok val]; range; lia.
  - pose proof (big_sign_sgn x). destruct (big_sign x); cbn [ok val]; range; lia.
Qed.

(* ------------------------------------------------------------------ shifts, pow, gcd, lcm, sqrt *)
Lemma shl_exact a k : 0 <= k -> ok (shl a k) /\ val (shl a k) = val a * 2 ^ k.
Proof. intros Hk. split; [exact I|]. cbn. now apply Z.shiftl_mul_pow2. Qed.
Lemma shr_exact a k : 0 <= k -> ok (shr a k) /\ val (shr a k) = val a / 2 ^ k.
Proof. intros Hk. split; [exact I|]. cbn. now apply Z.shiftr_div_pow2. Qed.

Lemma to_usize_spec b : ok b ->
  (0 <= val b <= usize_max -> to_usize b = Some (val b)) /\
  (~ (0 <= val b <= usize_max) -> to_usize b = None).
Proof.
  destruct b as [y|y]; cbn [to_usize val ok]; intros H.
  - destruct (Z.leb_spec 0 y); split; intros; try reflexivity; try lia.
    exfalso. apply H1. unfold usize_max. range. lia.
  - unfold big_to_usize. destruct (in_usizeb y) eqn:E.
    + apply in_usizeb_spec in E. split; intros; [reflexivity|contradiction].
    + split; intros H'; [|reflexivity]. apply in_usizeb_spec in H'. congruence.
Qed.

Lemma pow_exact a e : ok (pow a e) /\ val (pow a e) = val a ^ e.
Proof. split; [exact I|reflexivity]. Qed.

Lemma pow_maybe_recip_exact a b : ok a -> ok b ->
  fst (pow_maybe_recip a b) = (val b <? 0) /\
  ok (snd (pow_maybe_recip a b)) /\
  val (snd (pow_maybe_recip a b)) = val a ^ Z.abs (val b).
Proof.
  intros _ _. unfold pow_maybe_recip. pose proof (sign_of_sgn b) as H.
  destruct (sign_of b); cbn [fst snd ok val magnitude to_bigint].
  - split; [|split; [exact I|reflexivity]]. symmetry. apply Z.ltb_lt. lia.
  - assert (val b = 0) as -> by lia. split; [reflexivity|]. split; [range; lia|reflexivity].
  - split; [|split; [exact I|reflexivity]]. symmetry. apply Z.ltb_ge. lia.
Qed.

Lemma gcd_exact a b : ok (gcd a b) /\ val (gcd a b) = Z.gcd (val a) (val b).
Proof. split; [exact I|reflexivity]. Qed.
Lemma lcm_exact a b : ok (lcm a b) /\ val (lcm a b) = Z.lcm (val a) (val b).
Proof. split; [exact I|reflexivity]. Qed.

(* ------------------------------------------------------------------ floor division and modulo *)
Lemma div_floor_exact a b :
  (val b <> 0 -> div_floor a b = Ok (Big (val a / val b))) /\ (val b = 0 -> div_floor a b = Panic).
Proof.
  unfold div_floor, big_div_floor, to_bigint. destruct (Z.eqb_spec (val b) 0); split; intros; try contradiction; reflexivity.
Qed.
Lemma mod_floor_exact a b :
  (val b <> 0 -> mod_floor a b = Ok (Big (val a mod val b))) /\ (val b = 0 -> mod_floor a b = Panic).
Proof.
  unfold mod_floor, big_mod_floor, to_bigint. destruct (Z.eqb_spec (val b) 0); split; intros; try contradiction; reflexivity.
Qed.

Lemma is_zero_spec a : is_zero a = (val a =? 0).
Proof. destruct a; reflexivity. Qed.
Lemma is_nonzero_true a : val a <> 0 -> is_nonzero a = true.
Proof. intros H. unfold is_nonzero. rewrite is_zero_spec. destruct (Z.eqb_spec (val a) 0); [contradiction|reflexivity]. Qed.
Lemma is_nonzero_false a : val a = 0 -> is_nonzero a = false.
Proof. intros H. unfold is_nonzero. rewrite is_zero_spec, H. reflexivity. Qed.

(* `//` floors, `%%` takes the divisor's sign, together they rebuild the dividend *)
Lemma floor_mod_identity a b : val b <> 0 ->
  exists q r, bi_div_floor a b = Ok (NI q) /\ bi_mod_floor a b = Ok (NI r) /\
    val q = val a / val b /\ val r = val a mod val b /\
    val q * val b + val r = val a /\
    (0 < val b -> 0 <= val r < val b) /\ (val b < 0 -> val b < val r <= 0).
Proof.
  intros Hb. unfold bi_div_floor, bi_mod_floor. rewrite (is_nonzero_true b Hb).
  rewrite (proj1 (div_floor_exact a b) Hb), (proj1 (mod_floor_exact a b) Hb). cbn [omap bind].
  do 2 eexists. split; [reflexivity|]. split; [reflexivity|]. cbn [val].
  split; [reflexivity|]. split; [reflexivity|].
  pose proof (Z.div_mod (val a) (val b) Hb).
  split; [lia|]. split; intros; [apply Z.mod_pos_bound|apply Z.mod_neg_bound]; assumption.
Qed.

(* `%` truncates: the remainder has the dividend's sign *)
Lemma rem_trunc_spec a b : ok a -> ok b -> val b <> 0 ->
  exists r, bi_rem a b = Ok (NI r) /\ ok r /\ val r = Z.rem (val a) (val b) /\
    val a = val b * Z.quot (val a) (val b) + val r /\ Z.abs (val r) < Z.abs (val b) /\
    (0 <= val a -> 0 <= val r) /\ (val a <= 0 -> val r <= 0).
Proof.
  intros Ha Hb Hz. unfold bi_rem. rewrite (is_nonzero_true b Hz).
  destruct (proj1 (rem_exact a b Ha Hb) Hz) as (r & -> & Hr & Hv). cbn [omap bind].
  exists r. split; [reflexivity|]. split; [exact Hr|]. split; [exact Hv|]. rewrite Hv. lia.
Qed.

Lemma zero_divisor_is_error a b : val b = 0 ->
  bi_rem a b = Err EValue /\ bi_div_floor a b = Err EValue /\
  bi_mod_floor a b = Err EValue /\ bi_div_exact a b = Err EValue.
Proof.
  intros H. unfold bi_rem, bi_div_floor, bi_mod_floor, bi_div_exact. rewrite (is_nonzero_false b H). auto.
Qed.

(* `/!`: the exact quotient when the divisor divides, an error otherwise *)
Lemma div_exact_spec a b : val b <> 0 ->
  ((val b | val a) -> exists q, bi_div_exact a b = Ok (NI q) /\ val q * val b = val a) /\
  (~ (val b | val a) -> bi_div_exact a b = Err EValue).
Proof.
  intros Hb. unfold bi_div_exact. rewrite (is_nonzero_true b Hb).
  rewrite (proj1 (mod_floor_exact a b) Hb), (proj1 (div_floor_exact a b) Hb). cbn [bind omap].
  unfold is_nonzero. rewrite is_zero_spec. cbn [val].
  split; intros Hd.
  - apply Z.mod_divide in Hd; [|exact Hb]. rewrite Hd. cbn.
    eexists; split; [reflexivity|]. cbn [val]. pose proof (Z.div_mod (val a) (val b) Hb). lia.
  - destruct (Z.eqb_spec (val a mod val b) 0) as [E|E]; [|reflexivity].
    exfalso. apply Hd. apply Z.mod_divide; assumption.
Qed.

(* ------------------------------------------------------------------ equality, order, hash *)
Lemma eqb_exact a b : ok a -> ok b -> eqb a b = (val a =? val b).
Proof.
  destruct a as [x|x], b as [y|y]; cbn [eqb val ok]; intros Ha Hb; try reflexivity.
  - destruct (big_to_i64 y) eqn:E.
    + apply big_to_i64_some in E as [-> _]. reflexivity.
    + apply big_to_i64_none in E. destruct (Z.eqb_spec x y); [subst; contradiction|reflexivity].
  - destruct (big_to_i64 x) eqn:E.
    + apply big_to_i64_some in E as [-> _]. reflexivity.
    + apply big_to_i64_none in E. destruct (Z.eqb_spec x y); [subst; contradiction|reflexivity].
Qed.
Lemma cmp_exact a b : cmp a b = (val a ?= val b).
Proof. destruct a, b; reflexivity. Qed.
Lemma hash_repr_indep a b : ok a -> ok b -> val a = val b -> hash a = hash b.
Proof.
  destruct a as [x|x], b as [y|y]; cbn [hash val ok]; intros Ha Hb E; subst; try reflexivity.
  - now rewrite big_to_i64_in.
  - now rewrite big_to_i64_in.
Qed.
Lemma hash_injective a b : ok a -> ok b -> hash a = hash b -> val a = val b.
Proof.
  destruct a as [x|x], b as [y|y]; cbn [hash val ok]; intros Ha Hb.
  - congruence.
  - destruct (big_to_i64 y) eqn:E; [apply big_to_i64_some in E as [-> _]|]; congruence.
  - destruct (big_to_i64 x) eqn:E; [apply big_to_i64_some in E as [-> _]|]; congruence.
  - destruct (big_to_i64 x) eqn:E, (big_to_i64 y) eqn:E';
      try (apply big_to_i64_some in E as [-> _]); try (apply big_to_i64_some in E' as [-> _]); congruence.
Qed.

Lemma ltb_exact a b : ltb a b = (val a <? val b).
Proof. unfold ltb, Z.ltb. now rewrite cmp_exact. Qed.
Lemma gtb_exact a b : gtb a b = (val a >? val b).
Proof. unfold gtb, Z.gtb. now rewrite cmp_exact. Qed.
Lemma leb_exact a b : leb a b = (val a <=? val b).
Proof. unfold leb, Z.leb. now rewrite cmp_exact. Qed.
Lemma geb_exact a b : geb a b = (val a >=? val b).
Proof. unfold geb, Z.geb. now rewrite cmp_exact. Qed.
Lemma lte_exact a k : lte a k = (val a <=? k).
Proof. destruct a; reflexivity. Qed.

(* ------------------------------------------------------------------ even / odd *)
Lemma Zeq_bool_eqb x y : Zeq_bool x y = (x =? y).
Proof.
  unfold Zeq_bool. destruct (Z.eqb_spec x y) as [->|H]; [now rewrite Z.compare_refl|].
  destruct (Z.compare_spec x y); congruence.
Qed.
Lemma even_exact a : bi_even a = Ok (NI (iverson (Z.even (val a)))).
Proof.
  unfold bi_even. rewrite (proj1 (mod_floor_exact a (Small 2))) by (cbn; lia). cbn [bind val].
  unfold is_nonzero. rewrite is_zero_spec, Bool.negb_involutive. cbn [val].
  now rewrite Zeven_mod, Zeq_bool_eqb.
Qed.
Lemma odd_exact a : bi_odd a = Ok (NI (iverson (Z.odd (val a)))).
Proof.
  unfold bi_odd. rewrite (proj1 (mod_floor_exact a (Small 2))) by (cbn; lia). cbn [bind val].
  rewrite eqb_exact; [|exact I|cbn; unfold in_i64, i64_min, i64_max; lia]. cbn [val].
  now rewrite Zodd_mod, Zeq_bool_eqb.
Qed.

(* ------------------------------------------------------------------ builtin layer = specification *)
From NV Require Import Num.NIntSpec.

Lemma bi_add_spec a b : ok a -> ok b -> denote (bi_add a b) = spec_add (val a) (val b).
Proof. intros Ha Hb. cbn. now rewrite (proj2 (add_exact a b Ha Hb)). Qed.
Lemma bi_sub_spec a b : ok a -> ok b -> denote (bi_sub a b) = spec_sub (val a) (val b).
Proof. intros Ha Hb. cbn. now rewrite (proj2 (sub_exact a b Ha Hb)). Qed.
Lemma bi_mul_spec a b : ok a -> ok b -> denote (bi_mul a b) = spec_mul (val a) (val b).
Proof. intros Ha Hb. cbn. now rewrite (proj2 (mul_exact a b Ha Hb)). Qed.
Lemma bi_rem_spec a b : ok a -> ok b -> denote (bi_rem a b) = spec_rem (val a) (val b).
Proof.
  intros Ha Hb. unfold spec_rem. destruct (Z.eqb_spec (val b) 0) as [E|E].
  - now rewrite (proj1 (zero_divisor_is_error a b E)).
  - destruct (rem_trunc_spec a b Ha Hb E) as (r & -> & _ & Hv & _). cbn. now rewrite Hv.
Qed.
Lemma bi_div_floor_spec a b : denote (bi_div_floor a b) = spec_div_floor (val a) (val b).
Proof.
  unfold spec_div_floor. destruct (Z.eqb_spec (val b) 0) as [E|E].
  - now rewrite (proj1 (proj2 (zero_divisor_is_error a b E))).
  - destruct (floor_mod_identity a b E) as (q & r & -> & _ & Hv & _). cbn. now rewrite Hv.
Qed.
Lemma bi_mod_floor_spec a b : denote (bi_mod_floor a b) = spec_mod_floor (val a) (val b).
Proof.
  unfold spec_mod_floor. destruct (Z.eqb_spec (val b) 0) as [E|E].
  - now rewrite (proj1 (proj2 (proj2 (zero_divisor_is_error a b E)))).
  - destruct (floor_mod_identity a b E) as (q & r & _ & -> & _ & Hv & _). cbn. now rewrite Hv.
Qed.
Lemma bi_div_exact_spec a b : denote (bi_div_exact a b) = spec_div_exact (val a) (val b).
Proof.
  unfold spec_div_exact. destruct (Z.eqb_spec (val b) 0) as [E|E].
  - now rewrite (proj2 (proj2 (proj2 (zero_divisor_is_error a b E)))).
  - unfold bi_div_exact. rewrite (is_nonzero_true b E).
    rewrite (proj1 (mod_floor_exact a b) E), (proj1 (div_floor_exact a b) E). cbn [bind omap].
    unfold is_nonzero. rewrite is_zero_spec. cbn [val].
    destruct (val a mod val b =? 0); reflexivity.
Qed.
Lemma bi_pow_spec a b : ok a -> ok b -> denote (bi_pow a b) = spec_pow (val a) (val b).
Proof.
  intros Ha Hb. unfold bi_pow, spec_pow.
  destruct (pow_maybe_recip_exact a b Ha Hb) as (Hf & _ & Hv).
  destruct (pow_maybe_recip a b) as [f r]. cbn [fst snd] in *. subst f.
  destruct (Z.ltb_spec (val b) 0); cbn; rewrite Hv; do 2 f_equal; f_equal; lia.
Qed.
Lemma bi_and_spec a b : ok a -> ok b -> denote (bi_and a b) = spec_and (val a) (val b).
Proof. intros Ha Hb. cbn. now rewrite (proj2 (bitand_exact a b Ha Hb)). Qed.
Lemma bi_or_spec a b : ok a -> ok b -> denote (bi_or a b) = spec_or (val a) (val b).
Proof. intros Ha Hb. cbn. now rewrite (proj2 (bitor_exact a b Ha Hb)). Qed.
Lemma bi_xor_spec a b : ok a -> ok b -> denote (bi_xor a b) = spec_xor (val a) (val b).
Proof. intros Ha Hb. cbn. now rewrite (proj2 (bitxor_exact a b Ha Hb)). Qed.
Lemma usize_test b : (0 <=? b) && (b <=? usize_max) = true <-> 0 <= b <= usize_max.
Proof. rewrite andb_true_iff, !Z.leb_le. tauto. Qed.
Lemma bi_shl_spec a b : ok b -> denote (bi_shl a b) = spec_shl (val a) (val b).
Proof.
  intros Hb. unfold bi_shl, spec_shl. destruct (to_usize_spec b Hb) as [H1 H2].
  destruct ((0 <=? val b) && (val b <=? usize_max)) eqn:E.
  - apply usize_test in E. rewrite (H1 E). cbn. now rewrite Z.shiftl_mul_pow2 by lia.
  - rewrite H2; [reflexivity|]. intros H. apply usize_test in H. congruence.
Qed.
Lemma bi_shr_spec a b : ok b -> denote (bi_shr a b) = spec_shr (val a) (val b).
Proof.
  intros Hb. unfold bi_shr, spec_shr. destruct (to_usize_spec b Hb) as [H1 H2].
  destruct ((0 <=? val b) && (val b <=? usize_max)) eqn:E.
  - apply usize_test in E. rewrite (H1 E). cbn. now rewrite Z.shiftr_div_pow2 by lia.
  - rewrite H2; [reflexivity|]. intros H. apply usize_test in H. congruence.
Qed.
Lemma bi_gcd_spec a b : denote (bi_gcd a b) = spec_gcd (val a) (val b).
Proof. reflexivity. Qed.
Lemma bi_lcm_spec a b : denote (bi_lcm a b) = spec_lcm (val a) (val b).
Proof. reflexivity. Qed.
Lemma bi_neg_spec a : ok a -> denote (bi_neg a) = spec_neg (val a).
Proof. intros Ha. cbn. now rewrite (proj2 (neg_exact a Ha)). Qed.
Lemma bi_not_spec a : ok a -> denote (bi_not a) = spec_not (val a).
Proof. intros Ha. cbn. now rewrite (proj2 (not_exact a Ha)), lnot_eq. Qed.
Lemma bi_abs_spec a : ok a -> denote (bi_abs a) = spec_abs (val a).
Proof. intros Ha. cbn. now rewrite (proj2 (abs_exact a Ha)). Qed.
Lemma bi_signum_spec a : ok a -> denote (bi_signum a) = spec_signum (val a).
Proof. intros Ha. cbn. now rewrite (proj2 (signum_exact a Ha)). Qed.
Lemma bi_even_spec a : denote (bi_even a) = spec_even (val a).
Proof. rewrite even_exact. unfold spec_even, vbool. cbn. now destruct (Z.even (val a)). Qed.
Lemma bi_odd_spec a : denote (bi_odd a) = spec_odd (val a).
Proof. rewrite odd_exact. unfold spec_odd, vbool. cbn. now destruct (Z.odd (val a)). Qed.

(* results of the builtins satisfy the representation invariant again *)
Definition num_ok (o : outcome num) : Prop :=
  match o with Ok (NI n) => ok n | Ok (NRecip n) => ok n | _ => True end.
Lemma builtins_keep_invariant a b : ok a -> ok b ->
  num_ok (bi_add a b) /\ num_ok (bi_sub a b) /\ num_ok (bi_mul a b) /\ num_ok (bi_rem a b) /\
  num_ok (bi_div_floor a b) /\ num_ok (bi_mod_floor a b) /\ num_ok (bi_div_exact a b) /\ num_ok (bi_pow a b) /\
  num_ok (bi_and a b) /\ num_ok (bi_or a b) /\ num_ok (bi_xor a b) /\ num_ok (bi_shl a b) /\ num_ok (bi_shr a b) /\
  num_ok (bi_gcd a b) /\ num_ok (bi_lcm a b) /\ num_ok (bi_neg a) /\ num_ok (bi_not a) /\ num_ok (bi_abs a) /\
  num_ok (bi_signum a) /\ num_ok (bi_even a) /\ num_ok (bi_odd a).
Proof.
  intros Ha Hb.
  repeat match goal with |- _ /\ _ => split end; cbn [num_ok bi_add bi_sub bi_mul bi_and bi_or bi_xor bi_gcd bi_lcm bi_neg bi_not bi_abs bi_signum].
  - apply add_exact; assumption.
  - apply sub_exact; assumption.
  - apply mul_exact; assumption.
  - destruct (Z.eq_dec (val b) 0) as [E|E].
    + now rewrite (proj1 (zero_divisor_is_error a b E)).
    + destruct (rem_trunc_spec a b Ha Hb E) as (r & -> & Hr & _). exact Hr.
  - unfold bi_div_floor, div_floor, big_div_floor. destruct (is_nonzero b); [|exact I]. destruct (to_bigint b =? 0); exact I.
  - unfold bi_mod_floor, mod_floor, big_mod_floor. destruct (is_nonzero b); [|exact I]. destruct (to_bigint b =? 0); exact I.
  - unfold bi_div_exact, mod_floor, div_floor, big_mod_floor, big_div_floor. destruct (is_nonzero b); [|exact I].
    destruct (to_bigint b =? 0); cbn; [exact I|]. destruct (is_nonzero _); exact I.
  - unfold bi_pow. destruct (pow_maybe_recip_exact a b Ha Hb) as (_ & H & _).
    destruct (pow_maybe_recip a b) as [[] r]; exact H.
  - apply bitand_exact; assumption.
  - apply bitor_exact; assumption.
  - apply bitxor_exact; assumption.
  - unfold bi_shl. destruct (to_usize b); exact I.
  - unfold bi_shr. destruct (to_usize b); exact I.
  - exact I.
  - exact I.
  - apply neg_exact; assumption.
  - apply not_exact; assumption.
  - apply abs_exact; assumption.
  - apply signum_exact; assumption.
  - rewrite even_exact. destruct (Z.even (val a)); cbn; unfold in_i64, i64_min, i64_max; lia.
  - rewrite odd_exact. destruct (Z.odd (val a)); cbn; unfold in_i64, i64_min, i64_max; lia.
Qed.

(* no integer builtin panics, whatever the operands (the specification never says Panic) *)
Lemma spec_no_panic : forall a b,
  spec_add a b <> Panic /\ spec_sub a b <> Panic /\ spec_mul a b <> Panic /\ spec_rem a b <> Panic /\
  spec_div_floor a b <> Panic /\ spec_mod_floor a b <> Panic /\ spec_div_exact a b <> Panic /\ spec_pow a b <> Panic /\
  spec_and a b <> Panic /\ spec_or a b <> Panic /\ spec_xor a b <> Panic /\ spec_shl a b <> Panic /\ spec_shr a b <> Panic /\
  spec_gcd a b <> Panic /\ spec_lcm a b <> Panic.
Proof.
  intros a b. unfold spec_rem, spec_div_floor, spec_mod_floor, spec_div_exact.
  repeat split; try discriminate; destruct (b =? 0); try discriminate; destruct (a mod b =? 0); discriminate.
Qed.
Lemma denote_panic o : denote o = Panic <-> o = Panic.
Proof. destruct o; cbn; split; congruence. Qed.
Lemma builtins_no_panic a b : ok a -> ok b ->
  bi_add a b <> Panic /\ bi_sub a b <> Panic /\ bi_mul a b <> Panic /\ bi_rem a b <> Panic /\
  bi_div_floor a b <> Panic /\ bi_mod_floor a b <> Panic /\ bi_div_exact a b <> Panic /\ bi_pow a b <> Panic /\
  bi_and a b <> Panic /\ bi_or a b <> Panic /\ bi_xor a b <> Panic /\ bi_shl a b <> Panic /\ bi_shr a b <> Panic /\
  bi_gcd a b <> Panic /\ bi_lcm a b <> Panic /\ bi_neg a <> Panic /\ bi_not a <> Panic /\ bi_abs a <> Panic /\
  bi_signum a <> Panic /\ bi_even a <> Panic /\ bi_odd a <> Panic.
Proof.
  intros Ha Hb. pose proof (spec_no_panic (val a) (val b)) as S.
  repeat match goal with |- _ /\ _ => split end; try discriminate;
    try (rewrite even_exact; discriminate); try (rewrite odd_exact; discriminate);
    rewrite <- denote_panic.
  - rewrite bi_rem_spec by assumption. apply S.
  - rewrite bi_div_floor_spec. apply S.
  - rewrite bi_mod_floor_spec. apply S.
  - rewrite bi_div_exact_spec. apply S.
  - rewrite bi_pow_spec by assumption. apply S.
  - rewrite bi_shl_spec by assumption. apply S.
  - rewrite bi_shr_spec by assumption. apply S.
Qed.
