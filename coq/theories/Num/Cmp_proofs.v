(* C08 proofs, part 1: the comparison code computes the comparison of exact values. *)
From Coq Require Import ZArith NArith QArith Bool List Lia.
From NV Require Import Common.Outcome Common.MachineInt Num.FloatBits Num.FloatBits_proofs Num.Cmp Num.CmpSpec.
Import ListNotations.
Open Scope Z_scope.

(* ------------------------------------------------------------------ small facts *)
Lemma eqb_compare x y : (x =? y) = match x ?= y with Eq => true | _ => false end.
Proof.
  destruct (Z.eqb_spec x y) as [->|N].
  - now rewrite Z.compare_refl.
  - destruct (Z.compare_spec x y); congruence.
Qed.

Lemma Qcompare_inject a b : Qcompare (inject_Z a) (inject_Z b) = (a ?= b).
Proof. unfold Qcompare. cbn. now rewrite !Z.mul_1_r. Qed.

Lemma Qeq_bool_compare p q : Qeq_bool p q = match Qcompare p q with Eq => true | _ => false end.
Proof. unfold Qeq_bool, Qcompare, Zeq_bool. reflexivity. Qed.

(* ------------------------------------------------------------------ NInt *)
Lemma nint_cmp_val a b : nint_cmp a b = (nint_val a ?= nint_val b).
Proof. destruct a, b; reflexivity. Qed.

Lemma nint_eq_val a b : wf_nint a -> wf_nint b -> nint_eq a b = (nint_val a =? nint_val b).
Proof.
  destruct a as [a|a], b as [b|b]; cbn; intros Ha Hb; try reflexivity; unfold to_i64.
  - destruct (in_i64b b) eqn:E; [reflexivity|].
    symmetry. apply Z.eqb_neq. intros ->. apply in_i64b_spec in Ha. congruence.
  - destruct (in_i64b a) eqn:E; [reflexivity|].
    symmetry. apply Z.eqb_neq. intros ->. apply in_i64b_spec in Hb. congruence.
Qed.

(* ------------------------------------------------------------------ ext_compare is a total comparison *)
Lemma Qcompare_eq_l x y z : Qcompare x y = Eq -> Qcompare x z = Qcompare y z.
Proof. intros H. apply Qeq_alt in H. now rewrite H. Qed.

Lemma Qcompare_lt_trans x y z : Qcompare x y = Lt -> Qcompare y z = Lt -> Qcompare x z = Lt.
Proof. rewrite <- !Qlt_alt. apply Qlt_trans. Qed.

Lemma total_Qcompare : total_cmp Qcompare.
Proof.
  split.
  - intros x y. symmetry. apply Qcompare_antisym.
  - apply Qcompare_eq_l.
  - apply Qcompare_lt_trans.
Qed.

Lemma total_ext_compare : total_cmp ext_compare.
Proof.
  split.
  - intros [|p|] [|q|]; cbn; try reflexivity. symmetry. apply Qcompare_antisym.
  - intros [|p|] [|q|] [|r|]; cbn; try reflexivity; try discriminate. apply Qcompare_eq_l.
  - intros [|p|] [|q|] [|r|]; cbn; try reflexivity; try discriminate. apply Qcompare_lt_trans.
Qed.

Lemma exact_cmp_opp x y : option_map CompOpp (exact_cmp x y) = exact_cmp y x.
Proof.
  destruct x, y; cbn; try reflexivity. f_equal. symmetry. apply (tc_antisym _ total_ext_compare).
Qed.

(* generic consequences *)
Section TotalCmp.
  Context {K : Type} (c : K -> K -> comparison) (T : total_cmp c).
  Lemma tc_refl x : c x x = Eq.
  Proof. pose proof (tc_antisym c T x x) as H. destruct (c x x); cbn in H; congruence. Qed.
  Lemma tc_eq_sym x y : c x y = Eq -> c y x = Eq.
  Proof. intros H. rewrite (tc_antisym c T x y), H. reflexivity. Qed.
  Lemma tc_eq_r x y z : c x y = Eq -> c z x = c z y.
  Proof.
    intros H. rewrite (tc_antisym c T x z), (tc_antisym c T y z). f_equal. now apply (tc_eq_l c T).
  Qed.
  Lemma tc_eq_trans x y z : c x y = Eq -> c y z = Eq -> c x z = Eq.
  Proof. intros H1 H2. now rewrite (tc_eq_l c T x y z H1). Qed.
  Lemma tc_gt_lt x y : c x y = Gt <-> c y x = Lt.
  Proof. rewrite (tc_antisym c T x y). destruct (c x y); cbn; split; congruence. Qed.
  Lemma tc_gt_trans x y z : c x y = Gt -> c y z = Gt -> c x z = Gt.
  Proof. rewrite !tc_gt_lt. intros H1 H2. exact (tc_lt_trans c T z y x H2 H1). Qed.
  Lemma tc_le_trans x y z : c x y <> Gt -> c y z <> Gt -> c x z <> Gt.
  Proof.
    intros H1 H2 H3.
    destruct (c x y) eqn:E1; [| |congruence].
    - rewrite (tc_eq_l c T x y z E1) in H3. congruence.
    - destruct (c y z) eqn:E2; [| |congruence].
      + rewrite <- (tc_eq_r y z x E2) in H3. congruence.
      + rewrite (tc_lt_trans c T x y z E1 E2) in H3. discriminate.
  Qed.
  Lemma tc_lt_le_trans x y z : c x y = Lt -> c y z <> Gt -> c x z = Lt.
  Proof.
    intros H1 H2. destruct (c y z) eqn:E2; [| |congruence].
    - now rewrite <- (tc_eq_r y z x E2).
    - exact (tc_lt_trans c T x y z H1 E2).
  Qed.
End TotalCmp.

(* pullback along a function, lexicographic product *)
Lemma total_pullback {A K} (f : A -> K) (c : K -> K -> comparison) :
  total_cmp c -> total_cmp (fun x y => c (f x) (f y)).
Proof. intros T. split; intros; [apply (tc_antisym c T)|now apply (tc_eq_l c T)|now apply (tc_lt_trans c T _ (f y))]. Qed.

Lemma total_lexc {K L} (c : K -> K -> comparison) (d : L -> L -> comparison) :
  total_cmp c -> total_cmp d -> total_cmp (lexc c d).
Proof.
  intros Tc Td. split; unfold lexc.
  - intros [x1 x2] [y1 y2]; cbn. rewrite (tc_antisym c Tc x1 y1).
    destruct (c x1 y1); cbn; try reflexivity. apply (tc_antisym d Td).
  - intros [x1 x2] [y1 y2] [z1 z2]; cbn. destruct (c x1 y1) eqn:E; try discriminate. intros H.
    rewrite (tc_eq_l c Tc x1 y1 z1 E). destruct (c y1 z1); try reflexivity. now apply (tc_eq_l d Td).
  - intros [x1 x2] [y1 y2] [z1 z2]; cbn.
    destruct (c x1 y1) eqn:E1; try discriminate; destruct (c y1 z1) eqn:E2; try discriminate; intros H1 H2.
    + rewrite (tc_eq_l c Tc x1 y1 z1 E1), E2. now apply (tc_lt_trans d Td _ y2).
    + now rewrite (tc_eq_l c Tc x1 y1 z1 E1), E2.
    + now rewrite <- (tc_eq_r c Tc y1 z1 x1 E2), E1.
    + now rewrite (tc_lt_trans c Tc x1 y1 z1 E1 E2).
Qed.

(* ------------------------------------------------------------------ floats *)
Ltac fprims := unfold f_partial_cmp, f_eq, f_is_nan, f_is_infinite, f_eq_trunc, f_to_bigint,
  f_floor_to_bigint, rat_from_float, f_is_sign_positive, decode in *.

Lemma f_partial_cmp_exact a b :
  f_partial_cmp a b = exact_cmp (fval_ext (decode a)) (fval_ext (decode b)).
Proof.
  fprims. destruct (decode_dy a) as [|s|m1 e1], (decode_dy b) as [|t|m2 e2]; cbn; try reflexivity.
  - destruct s, t; reflexivity.
  - destruct s; reflexivity.
  - destruct t; reflexivity.
  - now rewrite dyQ_compare.
Qed.

Lemma f_eq_exact a b :
  f_eq a b = match exact_cmp (fval_ext (decode a)) (fval_ext (decode b)) with Some Eq => true | _ => false end.
Proof.
  fprims. destruct (decode_dy a) as [|s|m1 e1], (decode_dy b) as [|t|m2 e2]; cbn; try reflexivity.
  - destruct s, t; reflexivity.
  - destruct s; reflexivity.
  - destruct t; reflexivity.
  - now rewrite dyQ_compare.
Qed.

Lemma cmp_nint_f64_exact a b :
  cmp_nint_f64 a b = exact_cmp (Some (Finite (inject_Z (nint_val a)))) (fval_ext (decode b)).
Proof.
  unfold cmp_nint_f64, to_nint_if_int. fprims.
  destruct (decode_dy b) as [|s|m e] eqn:E; cbn.
  - reflexivity.
  - rewrite (decode_dy_inf_sign b s E). destruct s; reflexivity.
  - destruct (dy_is_int m e) eqn:I; cbn.
    + rewrite nint_cmp_val. cbn. now rewrite dy_int_compare.
    + rewrite nint_cmp_val. cbn. rewrite dy_nonint_compare by assumption.
      destruct (nint_val a ?= dy_floor m e); reflexivity.
Qed.

Lemma to_nint_if_int_eq b x : wf_nint x ->
  match to_nint_if_int b with Some n => nint_eq n x | None => false end =
  match exact_cmp (Some (Finite (inject_Z (nint_val x)))) (fval_ext (decode b)) with Some Eq => true | _ => false end.
Proof.
  intros W. unfold to_nint_if_int. fprims.
  destruct (decode_dy b) as [|s|m e] eqn:E; cbn -[nint_eq].
  - reflexivity.
  - destruct s; reflexivity.
  - destruct (dy_is_int m e) eqn:I; cbn -[nint_eq].
    + rewrite nint_eq_val by (cbn; auto). cbn. rewrite dy_int_compare by assumption.
      rewrite Z.eqb_sym. apply eqb_compare.
    + rewrite dy_nonint_compare by assumption. destruct (nint_val x ?= dy_floor m e); reflexivity.
Qed.

(* ------------------------------------------------------------------ NNumReal *)
Lemma real_val_float_nan f : real_val (RFloat f) = None <-> f_is_nan f = true.
Proof. cbn. fprims. destruct (decode_dy f) as [|s|m e]; cbn; split; try congruence; destruct s; discriminate. Qed.

(* what exact_to_rational, is_nan and infinite_signum say about the value *)
Lemma exact_to_rational_spec r :
  match exact_to_rational r with
  | Some q => real_val r = Some (Finite q)
  | None => (real_is_nan r = true /\ real_val r = None) \/
            (real_is_nan r = false /\ real_val r = Some NegInf /\ infinite_signum r = -1) \/
            (real_is_nan r = false /\ real_val r = Some PosInf /\ infinite_signum r = 1)
  end.
Proof.
  destruct r as [n|b|q]; cbn; try reflexivity. fprims.
  destruct (decode_dy b) as [|s|m e] eqn:E; cbn.
  - now left.
  - rewrite (decode_dy_inf_sign b s E). destruct s; cbn; [right; left|right; right]; repeat split.
  - reflexivity.
Qed.
Lemma exact_to_rational_signum r q : exact_to_rational r = Some q -> infinite_signum r = 0.
Proof.
  destruct r as [n|b|p]; cbn; try reflexivity. fprims.
  destruct (decode_dy b); try discriminate. reflexivity.
Qed.

Lemma exact_to_rational_notnan r q : exact_to_rational r = Some q -> real_is_nan r = false.
Proof.
  destruct r as [n|b|p]; cbn; try reflexivity. fprims.
  destruct (decode_dy b); try discriminate. reflexivity.
Qed.

(* the generic arm of partial_cmp / eq (at least one side is a rational) *)
Lemma generic_arm_cmp a b :
  match exact_to_rational a, exact_to_rational b with
  | Some p, Some q => Some (Qcompare p q)
  | _, _ => if real_is_nan a || real_is_nan b then None else Some (infinite_signum a ?= infinite_signum b)
  end = exact_cmp (real_val a) (real_val b) \/
  (exact_to_rational a = None /\ exact_to_rational b = None).
Proof.
  pose proof (exact_to_rational_spec a) as Ha. pose proof (exact_to_rational_spec b) as Hb.
  destruct (exact_to_rational a) as [p|] eqn:Ea, (exact_to_rational b) as [q|] eqn:Eb.
  - left. now rewrite Ha, Hb.
  - left. rewrite Ha, (exact_to_rational_signum a p Ea), (exact_to_rational_notnan a p Ea).
    destruct Hb as [[N V]|[[N [V S]]|[N [V S]]]]; rewrite N, V, ?S; reflexivity.
  - left. rewrite Hb, (exact_to_rational_signum b q Eb), (exact_to_rational_notnan b q Eb).
    destruct Ha as [[N V]|[[N [V S]]|[N [V S]]]]; rewrite N, V, ?S; reflexivity.
  - right. split; reflexivity.
Qed.

Theorem cmp_is_exact a b :
  nreal_partial_cmp a b = exact_cmp (real_val a) (real_val b).
Proof.
  destruct a as [x|f|p], b as [y|g|q].
  - cbn. now rewrite nint_cmp_val, Qcompare_inject.
  - apply cmp_nint_f64_exact.
  - destruct (generic_arm_cmp (RInt x) (RRat q)) as [H|[H _]]; [exact H|discriminate].
  - cbn [nreal_partial_cmp]. rewrite cmp_nint_f64_exact. apply exact_cmp_opp.
  - apply f_partial_cmp_exact.
  - destruct (generic_arm_cmp (RFloat f) (RRat q)) as [H|[_ H]]; [exact H|discriminate].
  - destruct (generic_arm_cmp (RRat p) (RInt y)) as [H|[H _]]; [exact H|discriminate].
  - destruct (generic_arm_cmp (RRat p) (RFloat g)) as [H|[H _]]; [exact H|discriminate].
  - destruct (generic_arm_cmp (RRat p) (RRat q)) as [H|[H _]]; [exact H|discriminate].
Qed.

(* None exactly when a NaN is involved *)
Theorem cmp_none_iff_nan a b :
  nreal_partial_cmp a b = None <-> real_is_nan a = true \/ real_is_nan b = true.
Proof.
  rewrite cmp_is_exact.
  assert (V : forall r, real_val r = None <-> real_is_nan r = true).
  { intros [n|f|q]; cbn [real_is_nan]; [cbn; split; discriminate|apply real_val_float_nan|cbn; split; discriminate]. }
  rewrite <- !V. destruct (real_val a), (real_val b); cbn; split; intros H; try discriminate; auto;
    destruct H; discriminate.
Qed.


Theorem eq_is_exact a b : wf_real a -> wf_real b ->
  nreal_eq a b = is_Eq (exact_cmp (real_val a) (real_val b)).
Proof.
  intros Wa Wb. destruct a as [x|f|p], b as [y|g|q]; cbn [nreal_eq].
  - cbn. rewrite nint_eq_val, Qcompare_inject by assumption. apply eqb_compare.
  - rewrite (to_nint_if_int_eq g x Wa). reflexivity.
  - cbn. now rewrite Qeq_bool_compare.
  - rewrite (to_nint_if_int_eq f y Wb). rewrite <- exact_cmp_opp.
    cbn [real_val]. destruct (exact_cmp _ _) as [[]|]; reflexivity.
  - apply f_eq_exact.
  - pose proof (exact_to_rational_spec (RFloat f)) as H. cbn [exact_to_rational] in *.
    destruct (rat_from_float f) as [r|].
    + rewrite H. cbn. apply Qeq_bool_compare.
    + destruct H as [[_ V]|[[_ [V _]]|[_ [V _]]]]; rewrite V; reflexivity.
  - cbn. now rewrite Qeq_bool_compare.
  - pose proof (exact_to_rational_spec (RFloat g)) as H. cbn [exact_to_rational] in *.
    destruct (rat_from_float g) as [r|].
    + rewrite H. cbn. apply Qeq_bool_compare.
    + destruct H as [[_ V]|[[_ [V _]]|[_ [V _]]]]; rewrite V; reflexivity.
  - cbn. apply Qeq_bool_compare.
Qed.
