(* C07 proofs, part 2: the exact levels (int, rational) -- every operator returns the exact Q result,
   in lowest terms, at the stated level; floor-mod identity; integer exponents. *)
From Coq Require Import ZArith NArith QArith Qabs Qround Qreduction Qpower Qfield Zquot List Bool Lia.
From NV Require Import Common.Outcome Num.Tower Num.TowerSpec Num.Tower_proofs.
Import ListNotations.
Open Scope Z_scope.

Lemma Qeq0_num q : q == 0 <-> Qnum q = 0.
Proof. unfold Qeq. cbn. lia. Qed.

Lemma rat_is_zero_false q : ~ q == 0 -> rat_is_zero q = false.
Proof. rewrite Qeq0_num. unfold rat_is_zero. intros. now apply Z.eqb_neq. Qed.
Lemma rat_is_zero_true q : q == 0 -> rat_is_zero q = true.
Proof. rewrite Qeq0_num. unfold rat_is_zero. intros. now apply Z.eqb_eq. Qed.

(* numerator and denominator of a quotient, up to a common sign *)
Lemma Qdiv_num_den a b : Qnum b <> 0 ->
  exists s, (s = 1 \/ s = -1) /\ Qnum (a / b) = s * (Qnum a * QDen b) /\ QDen (a / b) = s * (Qnum b * QDen a).
Proof.
  destruct a as [n1 d1], b as [n2 d2]. cbn [Qnum Qden]. intros H.
  destruct n2 as [|p|p]; [congruence | exists 1 | exists (-1)]; split; auto;
    unfold Qdiv, Qinv, Qmult; cbn [Qnum Qden]; rewrite Pos2Z.inj_mul; lia.
Qed.

Lemma Qfloor_div a b : Qnum b <> 0 -> Qfloor (a / b) = (Qnum a * QDen b) / (Qnum b * QDen a).
Proof.
  intros H. destruct (Qdiv_num_den a b H) as [s [Hs [Hn Hd]]].
  destruct (a / b)%Q as [n d] eqn:E. cbn [Qnum Qden] in *. unfold Qfloor. rewrite Hn, Hd.
  destruct Hs as [-> | ->]; [now rewrite !Z.mul_1_l|].
  change (-1) with (- (1)). rewrite !Z.mul_opp_l, !Z.mul_1_l. apply Z.div_opp_opp. lia.
Qed.

Lemma q_trunc_div a b : Qnum b <> 0 -> q_trunc (a / b) = Z.quot (Qnum a * QDen b) (Qnum b * QDen a).
Proof.
  intros H. rewrite <- rat_trunc_spec. destruct (Qdiv_num_den a b H) as [s [Hs [Hn Hd]]].
  destruct (a / b)%Q as [n d] eqn:E. unfold rat_trunc, qnum_den. cbn [Qnum Qden] in *. rewrite Hn, Hd.
  destruct Hs as [-> | ->]; [now rewrite !Z.mul_1_l|].
  change (-1) with (- (1)). rewrite !Z.mul_opp_l, !Z.mul_1_l. apply Z.quot_opp_opp. lia.
Qed.

(* ------------------------------------------------------------------ the rational methods *)
Lemma rat_add_ok a b : reduced (rat_add a b) /\ rat_add a b == a + b.
Proof. split; [apply Qred_reduced | apply Qred_correct]. Qed.
Lemma rat_sub_ok a b : reduced (rat_sub a b) /\ rat_sub a b == a - b.
Proof. split; [apply Qred_reduced | apply Qred_correct]. Qed.
Lemma rat_mul_ok a b : reduced (rat_mul a b) /\ rat_mul a b == a * b.
Proof. split; [apply Qred_reduced | apply Qred_correct]. Qed.

Lemma rat_div_ok a b : ~ b == 0 -> exists r, rat_div a b = Ok r /\ reduced r /\ r == a / b.
Proof.
  intros H. unfold rat_div. rewrite (rat_is_zero_false b H). eexists. split; [reflexivity|].
  split; [apply Qred_reduced | apply Qred_correct].
Qed.

Lemma q_rem_num a b : Qnum b <> 0 ->
  q_rem a b == Z.rem (Qnum a * QDen b) (Qnum b * QDen a) # (Qden a * Qden b).
Proof.
  intros H. unfold q_rem. rewrite (q_trunc_div a b H).
  destruct a as [n1 d1], b as [n2 d2]. cbn [Qnum Qden] in *.
  set (x := n1 * Zpos d2). set (y := n2 * Zpos d1).
  pose proof (Z.quot_rem' x y) as E. set (t := Z.quot x y) in *. set (r := Z.rem x y) in *.
  unfold Qeq, Qminus, Qplus, Qopp, Qmult, inject_Z. cbn [Qnum Qden]. rewrite !Pos2Z.inj_mul.
  subst x y. clearbody t r. nia.
Qed.

Lemma rat_rem_ok a b : ~ b == 0 -> exists r, rat_rem a b = Ok r /\ reduced r /\ r == q_rem a b.
Proof.
  intros H. assert (Hn : Qnum b <> 0) by (now rewrite <- Qeq0_num).
  unfold rat_rem. destruct (Z.eqb_spec (Qnum b * Zpos (Qden a)) 0) as [E|E]; [nia|].
  eexists. split; [reflexivity|]. split; [apply Qred_reduced|].
  rewrite Qred_correct. symmetry. now apply q_rem_num.
Qed.

Lemma rat_div_floor_ok a b : ~ b == 0 -> exists r, rat_div_floor a b = Ok r /\ reduced r /\ r == q_div_floor a b.
Proof.
  intros H. unfold rat_div_floor. destruct (rat_div_ok a b H) as [q [-> [_ Hq]]]. cbn [bind].
  eexists. split; [reflexivity|]. split; [apply reduced_inject_Z|].
  unfold q_div_floor. rewrite rat_floor_spec. now rewrite (Qfloor_comp _ _ Hq).
Qed.

Lemma rat_mod_floor_ok a b : ~ b == 0 -> exists r, rat_mod_floor a b = Ok r /\ reduced r /\ r == q_mod_floor a b.
Proof.
  intros H. unfold rat_mod_floor. destruct (rat_div_ok a b H) as [q [-> [_ Hq]]]. cbn [bind].
  eexists. split; [reflexivity|]. split; [apply Qred_reduced|].
  rewrite Qred_correct. unfold q_mod_floor. rewrite rat_floor_spec. now rewrite (Qfloor_comp _ _ Hq).
Qed.

(* ------------------------------------------------------------------ floor-mod identity on Q *)
Lemma q_floor_mod_identity a b : (q_div_floor a b * b + q_mod_floor a b == a)%Q.
Proof. unfold q_div_floor, q_mod_floor. ring. Qed.

Lemma q_mod_floor_range_pos a b : (0 < b)%Q -> (0 <= q_mod_floor a b)%Q /\ (q_mod_floor a b < b)%Q.
Proof.
  intros Hb. assert (Hb0 : ~ b == 0) by (intro E; rewrite E in Hb; discriminate).
  unfold q_mod_floor. set (f := Qfloor (a / b)).
  pose proof (Qfloor_le (a / b)) as H1. pose proof (Qlt_floor (a / b)) as H2. fold f in H1, H2.
  assert (Ha : (b * (a / b) == a)%Q) by (now apply Qmult_div_r).
  split.
  - apply (Qmult_le_l _ _ b Hb) in H1. rewrite Ha in H1.
    apply (Qplus_le_l _ _ (b * inject_Z f)). ring_simplify. exact H1.
  - apply (Qmult_lt_l _ _ b Hb) in H2. rewrite Ha in H2. rewrite inject_Z_plus in H2.
    apply (Qplus_lt_l _ _ (b * inject_Z f)). ring_simplify.
    setoid_replace (b * inject_Z f + b)%Q with (b * (inject_Z f + inject_Z 1))%Q by ring. exact H2.
Qed.

Lemma q_mod_floor_range_neg a b : (b < 0)%Q -> (b < q_mod_floor a b)%Q /\ (q_mod_floor a b <= 0)%Q.
Proof.
  intros Hb. assert (Hb0 : ~ b == 0) by (intro E; rewrite E in Hb; discriminate).
  assert (Hnb : (0 < - b)%Q) by (apply (Qplus_lt_l _ _ b); ring_simplify; exact Hb).
  unfold q_mod_floor. set (f := Qfloor (a / b)).
  pose proof (Qfloor_le (a / b)) as H1. pose proof (Qlt_floor (a / b)) as H2. fold f in H1, H2.
  assert (Ha : ((- b) * (a / b) == - a)%Q).
  { setoid_replace ((- b) * (a / b))%Q with (- (b * (a / b)))%Q by ring. now rewrite Qmult_div_r. }
  split.
  - apply (Qmult_lt_l _ _ (- b) Hnb) in H2. rewrite Ha in H2. rewrite inject_Z_plus in H2.
    apply (Qplus_lt_l _ _ (- a - b)). ring_simplify.
    setoid_replace (-1 * a)%Q with (- a)%Q by ring.
    setoid_replace ((-1) * b * inject_Z f - b)%Q with (- b * (inject_Z f + inject_Z 1))%Q by ring. exact H2.
  - apply (Qmult_le_l _ _ (- b) Hnb) in H1. rewrite Ha in H1.
    apply (Qplus_le_l _ _ (- a)). ring_simplify.
    setoid_replace ((-1) * b * inject_Z f)%Q with (- b * inject_Z f)%Q by ring.
    setoid_replace (-1 * a)%Q with (- a)%Q by ring. exact H1.
Qed.

(* ------------------------------------------------------------------ the integer methods *)
Lemma int_rem_ok x y : y <> 0 -> int_rem x y = Ok (Z.rem x y) /\ inject_Z (Z.rem x y) == q_rem (inject_Z x) (inject_Z y).
Proof.
  intros H. unfold int_rem. rewrite (proj2 (Z.eqb_neq y 0) H). split; [reflexivity|].
  rewrite (q_rem_num (inject_Z x) (inject_Z y)) by exact H. cbn [inject_Z Qnum Qden].
  now rewrite !Z.mul_1_r.
Qed.
Lemma int_div_floor_ok x y : y <> 0 ->
  int_div_floor x y = Ok (x / y) /\ inject_Z (x / y) == q_div_floor (inject_Z x) (inject_Z y).
Proof.
  intros H. unfold int_div_floor. rewrite (proj2 (Z.eqb_neq y 0) H). split; [reflexivity|].
  unfold q_div_floor. now rewrite <- Zdiv_Qdiv.
Qed.
Lemma int_mod_floor_ok x y : y <> 0 ->
  int_mod_floor x y = Ok (x mod y) /\ inject_Z (x mod y) == q_mod_floor (inject_Z x) (inject_Z y).
Proof.
  intros H. unfold int_mod_floor. rewrite (proj2 (Z.eqb_neq y 0) H). split; [reflexivity|].
  unfold q_mod_floor. rewrite <- Zdiv_Qdiv. unfold Qminus. rewrite <- inject_Z_mult, <- inject_Z_opp, <- inject_Z_plus.
  rewrite Z.mod_eq by exact H. reflexivity.
Qed.

(* ------------------------------------------------------------------ binary_match on the exact levels *)
Lemma binary_match_exact F fi fr ff fc a b : exact a -> exact b ->
  binary_match F fi fr ff fc a b =
  match a, b with
  | NI x, NI y => omap NI (fi x y)
  | _, _ => omap NR (fr (qval a) (qval b))
  end.
Proof. destruct a, b; unfold exact; cbn; intros; try lia; reflexivity. Qed.

Lemma exact_cases a : exact a -> (exists z, a = NI z) \/ (exists q, a = NR q).
Proof. destruct a; unfold exact; cbn; intros; try lia; eauto. Qed.

Lemma is_nonzero_exact a : exact a -> is_nonzero a = negb (rat_is_zero (qval a)).
Proof. destruct a; unfold exact; cbn; intros; try lia; reflexivity. Qed.

Lemma is_exact_true a : exact a -> is_exact a = true.
Proof. destruct a; unfold exact; cbn; intros; try lia; reflexivity. Qed.

Lemma rem_guard_nonzero a b : exact a -> exact b -> ~ qval b == 0 ->
  is_exact a && is_exact b && negb (is_nonzero b) = false.
Proof.
  intros Ha Hb H. rewrite (is_exact_true a Ha), (is_exact_true b Hb), (is_nonzero_exact b Hb), (rat_is_zero_false _ H). reflexivity.
Qed.
Lemma rem_guard_zero a b : exact a -> exact b -> qval b == 0 ->
  is_exact a && is_exact b && negb (is_nonzero b) = true.
Proof.
  intros Ha Hb H. rewrite (is_exact_true a Ha), (is_exact_true b Hb), (is_nonzero_exact b Hb), (rat_is_zero_true _ H). reflexivity.
Qed.

Lemma inject_Z_nonzero z : ~ inject_Z z == 0 <-> z <> 0.
Proof. rewrite Qeq0_num. reflexivity. Qed.

(* the result of an exact-level operator: value, lowest terms, level *)
Definition exact_result (r : nnum) (v : Q) (rat : Prop) : Prop :=
  exact r /\ wf r /\ qval r == v /\ (level r = 1%nat <-> rat).

Lemma exact_result_NI z v (rat : Prop) : inject_Z z == v -> ~ rat -> exact_result (NI z) v rat.
Proof. intros. unfold exact_result, exact. cbn. repeat split; auto; try lia; intros; try discriminate; tauto. Qed.
Lemma exact_result_NR q v (rat : Prop) : reduced q -> q == v -> rat -> exact_result (NR q) v rat.
Proof. intros. unfold exact_result, exact. cbn. repeat split; auto. Qed.

Lemma level_exact a : exact a -> level a = 1%nat \/ level a = 0%nat.
Proof. unfold exact. lia. Qed.

Theorem exact_level_ops F op a b :
  op <> OPow -> exact a -> exact b -> wf a -> wf b ->
  (needs_nonzero op = true -> ~ qval b == 0) ->
  exists r, num_binop F op a b = Ok r /\
    exact_result r (q_binop op (qval a) (qval b)) (level a = 1%nat \/ level b = 1%nat \/ op = ODiv).
Proof.
  intros Hop Ha Hb Wa Wb Hnz.
  assert (Hrat : forall x y : Z, ~ (level (NI x) = 1%nat \/ level (NI y) = 1%nat \/ OAdd = ODiv)) by (cbn; intros x y [H|[H|H]]; discriminate).
  destruct op; try congruence; unfold num_binop, num_binop_gen.
  - (* + *) unfold num_add. rewrite binary_match_exact by assumption.
    destruct (exact_cases a Ha) as [[x ->]|[p ->]], (exact_cases b Hb) as [[y ->]|[q ->]]; cbn [omap bind tot qval];
      eexists; (split; [reflexivity|]);
      try (apply exact_result_NR; [apply Qred_reduced | apply Qred_correct | cbn; tauto]).
    apply exact_result_NI; [cbn [q_binop]; rewrite inject_Z_plus; reflexivity | cbn; intros [H|[H|H]]; discriminate].
  - (* - *) unfold num_sub. rewrite binary_match_exact by assumption.
    destruct (exact_cases a Ha) as [[x ->]|[p ->]], (exact_cases b Hb) as [[y ->]|[q ->]]; cbn [omap bind tot qval];
      eexists; (split; [reflexivity|]);
      try (apply exact_result_NR; [apply Qred_reduced | apply Qred_correct | cbn; tauto]).
    apply exact_result_NI; [cbn [q_binop]; unfold Z.sub, Qminus; rewrite inject_Z_plus, inject_Z_opp; reflexivity | cbn; intros [H|[H|H]]; discriminate].
  - (* * *) unfold num_mul. rewrite binary_match_exact by assumption.
    destruct (exact_cases a Ha) as [[x ->]|[p ->]], (exact_cases b Hb) as [[y ->]|[q ->]]; cbn [omap bind tot qval];
      eexists; (split; [reflexivity|]);
      try (apply exact_result_NR; [apply Qred_reduced | apply Qred_correct | cbn; tauto]).
    apply exact_result_NI; [cbn [q_binop]; rewrite inject_Z_mult; reflexivity | cbn; intros [H|[H|H]]; discriminate].
  - (* % *) specialize (Hnz eq_refl). unfold rem_builtin. rewrite (rem_guard_nonzero a b Ha Hb Hnz). unfold num_rem. rewrite binary_match_exact by assumption.
    destruct (exact_cases a Ha) as [[x ->]|[p ->]], (exact_cases b Hb) as [[y ->]|[q ->]]; cbn [qval] in *;
      try (match goal with |- context [rat_rem ?u ?v] => destruct (rat_rem_ok u v Hnz) as [r [-> [Hr Hv]]] end; cbn [omap bind]; eexists; (split; [reflexivity|]);
           apply exact_result_NR; [exact Hr | exact Hv | cbn; tauto]).
    apply (proj1 (inject_Z_nonzero y)) in Hnz. destruct (int_rem_ok x y Hnz) as [-> Hv]. cbn [omap bind].
    eexists; (split; [reflexivity|]). apply exact_result_NI; [exact Hv | cbn; intros [H|[H|H]]; discriminate].
  - (* // *) specialize (Hnz eq_refl). unfold guard_nonzero. rewrite (is_nonzero_exact b Hb), (rat_is_zero_false _ Hnz). cbn [negb].
    unfold num_div_floor. rewrite binary_match_exact by assumption.
    destruct (exact_cases a Ha) as [[x ->]|[p ->]], (exact_cases b Hb) as [[y ->]|[q ->]]; cbn [qval] in *;
      try (match goal with |- context [rat_div_floor ?u ?v] => destruct (rat_div_floor_ok u v Hnz) as [r [-> [Hr Hv]]] end; cbn [omap bind]; eexists; (split; [reflexivity|]);
           apply exact_result_NR; [exact Hr | exact Hv | cbn; tauto]).
    apply (proj1 (inject_Z_nonzero y)) in Hnz. destruct (int_div_floor_ok x y Hnz) as [-> Hv]. cbn [omap bind].
    eexists; (split; [reflexivity|]). apply exact_result_NI; [exact Hv | cbn; intros [H|[H|H]]; discriminate].
  - (* %% *) specialize (Hnz eq_refl). unfold guard_nonzero. rewrite (is_nonzero_exact b Hb), (rat_is_zero_false _ Hnz). cbn [negb].
    unfold num_mod_floor. rewrite binary_match_exact by assumption.
    destruct (exact_cases a Ha) as [[x ->]|[p ->]], (exact_cases b Hb) as [[y ->]|[q ->]]; cbn [qval] in *;
      try (match goal with |- context [rat_mod_floor ?u ?v] => destruct (rat_mod_floor_ok u v Hnz) as [r [-> [Hr Hv]]] end; cbn [omap bind]; eexists; (split; [reflexivity|]);
           apply exact_result_NR; [exact Hr | exact Hv | cbn; tauto]).
    apply (proj1 (inject_Z_nonzero y)) in Hnz. destruct (int_mod_floor_ok x y Hnz) as [-> Hv]. cbn [omap bind].
    eexists; (split; [reflexivity|]). apply exact_result_NI; [exact Hv | cbn; intros [H|[H|H]]; discriminate].
  - (* / *) specialize (Hnz eq_refl). unfold num_div.
    assert (Ta : to_rational a = Some (qval a)) by (destruct (exact_cases a Ha) as [[x ->]|[p ->]]; reflexivity).
    assert (Tb : to_rational b = Some (qval b)) by (destruct (exact_cases b Hb) as [[y ->]|[q ->]]; reflexivity).
    rewrite Ta, Tb, (rat_is_zero_false _ Hnz). cbn [negb].
    destruct (rat_div_ok (qval a) (qval b) Hnz) as [r [-> [Hr Hv]]]. cbn [omap bind].
    eexists; (split; [reflexivity|]). apply exact_result_NR; [exact Hr | exact Hv | tauto].
Qed.

(* zero divisors on the exact levels: % // and %% raise, / falls back to float division *)
Theorem exact_zero_divisor F a b : exact a -> exact b -> qval b == 0 ->
  num_binop F ORem a b = Err EValue /\
  num_binop F ODivFloor a b = Err EValue /\ num_binop F OModFloor a b = Err EValue /\
  num_binop F ODiv a b = Ok (NF (fdiv F (to_f_total F a) (to_f_total F b))).
Proof.
  intros Ha Hb Hz. unfold num_binop, num_binop_gen, guard_nonzero, rem_builtin.
  rewrite (rem_guard_zero a b Ha Hb Hz).
  rewrite (is_nonzero_exact b Hb), (rat_is_zero_true _ Hz). cbn [negb]. repeat split.
  unfold num_div.
  assert (Ta : to_rational a = Some (qval a)) by (destruct (exact_cases a Ha) as [[x ->]|[p ->]]; reflexivity).
  assert (Tb : to_rational b = Some (qval b)) by (destruct (exact_cases b Hb) as [[y ->]|[q ->]]; reflexivity).
  rewrite Ta, Tb, (rat_is_zero_true _ Hz). cbn [negb].
  destruct (exact_cases a Ha) as [[x ->]|[p ->]], (exact_cases b Hb) as [[y ->]|[q ->]]; reflexivity.
Qed.

(* the floor-mod identity and the range of %% on the exact levels, any mix of int and rational *)
Theorem rat_floor_mod_identity F a b d m : exact a -> exact b -> wf a -> wf b ->
  num_binop F ODivFloor a b = Ok d -> num_binop F OModFloor a b = Ok m ->
  (qval d * qval b + qval m == qval a)%Q /\
  ((0 < qval b)%Q -> (0 <= qval m)%Q /\ (qval m < qval b)%Q) /\
  ((qval b < 0)%Q -> (qval b < qval m)%Q /\ (qval m <= 0)%Q).
Proof.
  intros Ha Hb Wa Wb Hd Hm.
  assert (Hnz : ~ qval b == 0).
  { intro Hz. destruct (exact_zero_divisor F a b Ha Hb Hz) as [_ [E _]]. congruence. }
  destruct (exact_level_ops F ODivFloor a b) as [d' [Ed [_ [_ [Vd _]]]]]; try assumption; try discriminate; auto.
  destruct (exact_level_ops F OModFloor a b) as [m' [Em [_ [_ [Vm _]]]]]; try assumption; try discriminate; auto.
  rewrite Hd in Ed. rewrite Hm in Em. injection Ed as <-. injection Em as <-.
  cbn [q_binop] in Vd, Vm. rewrite Vd, Vm. split; [apply q_floor_mod_identity|].
  split; [apply q_mod_floor_range_pos | apply q_mod_floor_range_neg].
Qed.

(* the ORIGINAL rational mod_floor (truncating Rem::rem) violated the identity: F6 *)
Theorem rat_floor_mod_identity_original_refuted : forall F, exists a b d m,
  exact a /\ exact b /\ wf a /\ wf b /\
  num_binop_original F ODivFloor a b = Ok d /\ num_binop_original F OModFloor a b = Ok m /\
  ~ (qval d * qval b + qval m == qval a)%Q /\ (0 < qval b)%Q /\ ~ (0 <= qval m)%Q.
Proof.
  intros F. exists (NR (-1 # 2)), (NR (1 # 3)), (NR (-2 # 1)), (NR (-1 # 6)).
  unfold exact. cbn [level wf]. repeat split; try lia; try reflexivity; vm_compute; congruence.
Qed.

(* ------------------------------------------------------------------ `^` with an integer exponent *)
Lemma one_div q : (1 / q == / q)%Q.
Proof. unfold Qdiv. apply Qmult_1_l. Qed.

Lemma num_div_one_exact F q : ~ q == 0 -> forall b, to_rational b = Some q ->
  exists r, num_div F (NI 1) b = Ok (NR r) /\ reduced r /\ r == / q.
Proof.
  intros Hq b Tb. unfold num_div. cbn [to_rational]. rewrite Tb, (rat_is_zero_false _ Hq). cbn [negb].
  destruct (rat_div_ok (inject_Z 1) q Hq) as [r [-> [Hr Hv]]]. cbn [omap bind].
  exists r. split; [reflexivity|]. split; [exact Hr|]. rewrite Hv. apply one_div.
Qed.

Theorem pow_exact F a e : exact a -> wf a -> (e < 0 -> ~ qval a == 0) ->
  exists r, num_binop F OPow a (NI e) = Ok r /\ exact_result r (qval a ^ e) (level a = 1%nat \/ e < 0).
Proof.
  intros Ha Wa Hnz. unfold num_binop, num_binop_gen, pow_num, pow_num_gen.
  destruct (exact_cases a Ha) as [[x ->]|[q ->]]; cbn [qval wf level] in *.
  - destruct e as [|p|p]; unfold pow_big_ints.
    + eexists; split; [reflexivity|]. apply exact_result_NI; [reflexivity | intros [H|H]; [discriminate | lia]].
    + eexists; split; [reflexivity|]. apply exact_result_NI; [apply Zpower_Qpower; lia | intros [H|H]; [discriminate | lia]].
    + assert (Hx : x <> 0) by (apply inject_Z_nonzero; apply Hnz; lia).
      assert (Hp : ~ inject_Z (x ^ Zpos p) == 0) by (apply inject_Z_nonzero; apply Z.pow_nonzero; lia).
      destruct (num_div_one_exact F _ Hp (NI (x ^ Zpos p)) eq_refl) as [r [-> [Hr Hv]]].
      eexists; split; [reflexivity|]. apply exact_result_NR; [exact Hr | | right; lia].
      rewrite Hv. rewrite Zpower_Qpower by lia. reflexivity.
  - destruct e as [|p|p]; unfold rat_pow_int.
    + eexists; split; [reflexivity|]. apply exact_result_NR; [reflexivity | reflexivity | now left].
    + eexists; split; [reflexivity|]. apply exact_result_NR; [now apply reduced_pow | now rewrite rat_pow_pos_Qpower | now left].
    + assert (Hq : ~ q == 0) by (apply Hnz; lia).
      assert (Hp : ~ rat_pow_pos q p == 0) by (rewrite rat_pow_pos_Qpower; cbn [Qpower]; now apply Qpower_not_0_positive).
      destruct (num_div_one_exact F _ Hp (NR (rat_pow_pos q p)) eq_refl) as [r [-> [Hr Hv]]].
      eexists; split; [reflexivity|]. apply exact_result_NR; [exact Hr | | now left].
      rewrite Hv, rat_pow_pos_Qpower. reflexivity.
Qed.

Lemma pos_pow_1_l p : (1 ^ p = 1)%positive.
Proof. apply Pos2Z.inj. rewrite Pos2Z.inj_pow. apply Z.pow_1_l. lia. Qed.

(* a zero base with a negative exponent is exactly 1 / 0: the float fallback of `/` (repaired F10) *)
Theorem pow_zero_negative F a e : exact a -> wf a -> qval a == 0 -> e < 0 ->
  num_binop F OPow a (NI e) = num_binop F ODiv (NI 1) a /\
  num_binop F OPow a (NI e) = Ok (NF (fdiv F (z2f F 1) (to_f_total F a))).
Proof.
  intros Ha Wa Hz He.
  assert (E : num_binop F OPow a (NI e) = num_binop F ODiv (NI 1) a).
  { unfold num_binop, num_binop_gen, pow_num, pow_num_gen.
    destruct e as [|p|p]; try lia.
    destruct (exact_cases a Ha) as [[x ->]|[q ->]]; cbn [qval wf] in *.
    - apply Qeq0_num in Hz. cbn in Hz. subst x. unfold pow_big_ints. now rewrite Z.pow_0_l by lia.
    - apply Qeq0_num in Hz. destruct q as [n d]. cbn [Qnum] in Hz. subst n.
      unfold reduced in Wa. cbn [Qnum Qden] in Wa. rewrite Z.gcd_0_l in Wa. cbn in Wa.
      assert (d = 1%positive) by lia. subst d.
      unfold rat_pow_int, rat_pow_pos. cbn [Qnum Qden]. now rewrite Z.pow_0_l, pos_pow_1_l by lia. }
  split; [exact E|]. rewrite E.
  destruct (exact_zero_divisor F (NI 1) a) as [_ [_ [_ ->]]]; auto. unfold exact; cbn; lia.
Qed.

(* the ORIGINAL code panicked there (BigRational::recip of zero): F10 *)
Theorem pow_zero_negative_original_panics : forall F,
  num_binop_original F OPow (NI 0) (NI (-1)) = Panic /\ num_binop_original F OPow (NR 0) (NI (-1)) = Panic.
Proof. intros F. split; reflexivity. Qed.
