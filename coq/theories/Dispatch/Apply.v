(* C04 - model of function application in the Noulith interpreter.

   Transcribed from /repo/src:
     eval.rs  Func::run / Func::run1 / Func::run2           -> func_run / func_run1 / func_run2
              apply_section                                 -> apply_section
              call / call1 / call2 / call_or_part_apply     -> call / call1 / call2 / call_or_part_apply
              splat_section_eval                            -> sse_step (one loop iteration), folded in eval
              evaluate: arms Expr::Call, Expr::Chain (section, and the single-operator fast
              path), Expr::List, Expr::OpAssign (hot path)  -> eval, op_assign
              ChainEvaluator with exactly one operator      -> the FChainSection arm of func_run
     core.rs  trait Builtin { run; run1 (default); run2 (default) }
     lib.rs   TwoArgBuiltin / EnvTwoArgBuiltin / OneArgBuiltin dispatch, and the bodies of
              then . .> <. apply of const id flip >>> <<<   -> known_run / known_run1 / known_run2

   A builtin other than those few is opaque: its meaning is the Section variable
   [brun : B -> list val -> outcome val], and its one- and two-argument entry points are
   DEFINED from it (brun1, brun2).  This is the modelling assumption "a builtin is a function
   of its argument vector, whichever entry point is used"; the correspondence sweep checks it
   against every builtin of the live environment.  Closures are opaque too ([crun]); in the
   Rust code Closure has only the vector entry point, so nothing is assumed there.

   Recursion through function VALUES (apply, then, call sections ...) is general recursion, so
   the interpreter is indexed by fuel: [runners_at n] is the triple (run, run1, run2) allowed
   [n] nested dispatches into function values.  The transcribed bodies are parameterised by
   the triple one level down (Section Step, variable R).

   Not modelled: chain sections with more than one operator (the pending-operator stack is
   C03's model), index/slice/update sections, Memoized/Type/StructField/SymbolAccess. *)
From Coq Require Import List Bool.
From NV Require Import Common.Outcome.
Import ListNotations.

Set Implicit Arguments.

(* the builtins whose bodies call back into the interpreter or build function values, by name *)
Inductive known :=
| KThen      (* then  .  .>   EnvTwoArgBuiltin  |env, a, b| call1(env, b, a) *)
| KCallL     (* <.            EnvTwoArgBuiltin  |env, a, b| call1(env, a, b) *)
| KApply     (* apply         EnvTwoArgBuiltin  |env, a, b| call(env, b, iter(a)) *)
| KOf        (* of            EnvTwoArgBuiltin  |env, a, b| call(env, a, iter(b)) *)
| KConst     (* const         TwoArgBuiltin     |_, b| Ok(b) *)
| KCompR     (* >>>           TwoArgBuiltin     (f, g) -> Composition(g, f) *)
| KCompL     (* <<<           TwoArgBuiltin     (f, g) -> Composition(f, g) *)
| KId        (* id            OneArgBuiltin     |a| Ok(a) *)
| KFlip      (* flip          OneArgBuiltin     Func f -> Flip(f) *)
| KOn.       (* on            TwoArgBuiltin     (f, g) -> OnComposition(f, g) *)

(* builtins with only the vector entry point that BUILD function values from all their arguments *)
Inductive comb :=
| CParallel  (* ***   struct Parallel: all arguments functions -> Func::Parallel(args) *)
| CFanout    (* &&&   struct Fanout:   all arguments functions -> Func::Fanout(args) *)
| CLift.     (* lift  struct Lift: one argument -> PartialAppLast(lift, a);
                      more -> the last must be a function f -> OnFanoutConst(f, the others) *)

Section Apply.
Variable B : Type.   (* opaque builtins (Rc<dyn Builtin>) *)
Variable C : Type.   (* closures *)
Variable D : Type.   (* data that is neither a function nor a list built by the forms *)

(* Obj, restricted to what application can tell apart; Func; Result<Obj, bool> section slots *)
Inductive val :=
| VData (d : D)
| VList (l : list val)
| VFunc (f : func)
with func :=
| FBuiltin (b : B)
| FKnown (k : known)
| FClosure (c : C)
| FPartialApp1 (f : func) (x : val)
| FPartialApp2 (f : func) (x : val)
| FPartialAppLast (f : func) (x : val)
| FComposition (f g : func)
| FFlip (f : func)
| FListSection (slots : list slot)
| FChainSection (seed : option val) (op : func) (opd : option val)   (* one operator *)
| FCallSection (callee : val) (slots : list slot)                    (* callee present *)
| FOnComposition (f g : func)
| FParallel (fs : list func)
| FFanout (fs : list func)
| FOnFanoutConst (f : func) (gs : list val)
| FCombinator (c : comb)
| FCallSectionHole (slots : list slot)                               (* _(...): the callee is the first argument *)
with slot :=
| SVal (v : val)          (* Ok(obj) *)
| SHole (is_splat : bool) (* Err(is_splat) *).

Variable brun : B -> list val -> outcome val.   (* Builtin::run *)
Variable crun : C -> list val -> outcome val.   (* Closure::run *)
Variable diter : D -> outcome (list val).       (* mut_obj_into_iter on other data *)

(* THE modelling assumption (validated by the sweep over every real builtin) *)
Definition brun1 (b : B) (a : val) : outcome val := brun b [a].
Definition brun2 (b : B) (a1 a2 : val) : outcome val := brun b [a1; a2].

Definition is_func (v : val) : bool := match v with VFunc _ => true | _ => false end.

(* mut_obj_into_iter(..).collect(): Seq -> elements, anything else a type error *)
Definition to_iter (v : val) : outcome (list val) :=
  match v with
  | VList l => Ok l
  | VData d => diter d
  | VFunc _ => Err EType
  end.

(* eval.rs apply_section: fill the holes left to right from the argument iterator;
   surplus arguments are left in the iterator (and ignored by the callers) *)
Fixpoint apply_section (slots : list slot) (args : list val) : outcome (list val) :=
  match slots with
  | [] => Ok []
  | SVal e :: r => rest <- apply_section r args ;; Ok (e :: rest)
  | SHole sp :: r =>
    match args with
    | a :: args' =>
      if sp then els <- to_iter a ;; rest <- apply_section r args' ;; Ok (els ++ rest)
      else rest <- apply_section r args' ;; Ok (a :: rest)
    | [] => Err EArg
    end
  end.

Fixpoint funcs_of (l : list val) : option (list func) :=
  match l with
  | [] => Some []
  | VFunc f :: r => match funcs_of r with Some fs => Some (f :: fs) | None => None end
  | _ :: _ => None
  end.

(* lib.rs: Parallel::run, Fanout::run, Lift::run *)
Definition comb_run (c : comb) (args : list val) : outcome val :=
  match c with
  | CParallel => match funcs_of args with Some fs => Ok (VFunc (FParallel fs)) | None => Err EType end
  | CFanout => match funcs_of args with Some fs => Ok (VFunc (FFanout fs)) | None => Err EType end
  | CLift =>
    match args with
    | [] => Err EType
    | [a] => Ok (VFunc (FPartialAppLast (FCombinator CLift) a))
    | _ => match last args (VList []) with
           | VFunc f => Ok (VFunc (FOnFanoutConst f (removelast args)))
           | _ => Err EType
           end
    end
  end.

Record runners := {
  r_run : func -> list val -> outcome val;
  r_run1 : func -> val -> outcome val;
  r_run2 : func -> val -> val -> outcome val }.

Section Step.
Variable R : runners.   (* the interpreter one dispatch further down *)

Definition call (f : val) (args : list val) : outcome val :=
  match f with VFunc ff => r_run R ff args | _ => Err EType end.
Definition call1 (f : val) (a : val) : outcome val :=
  match f with VFunc ff => r_run1 R ff a | _ => Err EType end.
Definition call2 (f : val) (a1 a2 : val) : outcome val :=
  match f with VFunc ff => r_run2 R ff a1 a2 | _ => Err EType end.

(* lib.rs: the closure bodies of the named builtins *)
Definition known_body2 (k : known) (a b : val) : outcome val :=
  match k with
  | KThen => call1 b a
  | KCallL => call1 a b
  | KApply => args <- to_iter a ;; call b args
  | KOf => args <- to_iter b ;; call a args
  | KConst => Ok b
  | KCompR => match a, b with
              | VFunc f, VFunc g => Ok (VFunc (FComposition g f))
              | _, _ => Err EType end
  | KCompL => match a, b with
              | VFunc f, VFunc g => Ok (VFunc (FComposition f g))
              | _, _ => Err EType end
  | KOn => match a, b with
           | VFunc f, VFunc g => Ok (VFunc (FOnComposition f g))
           | _, _ => Err EType end
  | KId | KFlip => Err EArg   (* not two-argument builtins *)
  end.
Definition known_body1 (k : known) (a : val) : outcome val :=
  match k with
  | KId => Ok a
  | KFlip => match a with VFunc f => Ok (VFunc (FFlip f)) | _ => Err EType end
  | _ => Err EArg
  end.
Definition is_one_arg (k : known) : bool :=
  match k with KId | KFlip => true | _ => false end.

(* OneArgBuiltin: run = run1(expect_one(args)); run1 = body; run2 = trait default.
   TwoArgBuiltin / EnvTwoArgBuiltin: run = few2 { One(arg) => clone_and_part_app_2(self, arg),
   Two(a, b) => self.run2(a, b), _ => argument error }; run1 = trait default; run2 = body. *)
Definition known_run (k : known) (args : list val) : outcome val :=
  if is_one_arg k then
    match args with [a] => known_body1 k a | _ => Err EArg end
  else
    match args with
    | [arg] => Ok (VFunc (FPartialApp2 (FKnown k) arg))
    | [a; b] => known_body2 k a b
    | _ => Err EArg
    end.
Definition known_run1 (k : known) (a : val) : outcome val :=
  if is_one_arg k then known_body1 k a else known_run k [a].
Definition known_run2 (k : known) (a b : val) : outcome val :=
  if is_one_arg k then known_run k [a; b] else known_body2 k a b.

Fixpoint zip_run1 (fs : list func) (l : list val) : outcome (list val) :=
  match fs, l with
  | f :: fs', a :: l' => r <- r_run1 R f a ;; rest <- zip_run1 fs' l' ;; Ok (r :: rest)
  | _, _ => Ok []
  end.

(* eval.rs impl Func { pub fn run } *)
Definition func_run (f : func) (args : list val) : outcome val :=
  match f with
  | FBuiltin b => brun b args
  | FKnown k => known_run k args
  | FClosure c => crun c args
  | FPartialApp1 g x =>
    match args with              (* few(args) *)
    | [arg] => r_run2 R g x arg
    | _ => Err EArg
    end
  | FPartialApp2 g x =>
    match args with
    | [arg] => r_run2 R g arg x
    | _ => Err EArg
    end
  | FPartialAppLast g x => r_run R g (args ++ [x])
  | FComposition g h => r <- r_run R h args ;; r_run1 R g r
  | FFlip g =>
    match args with              (* few2(args) *)
    | [a] => Ok (VFunc (FPartialApp1 g a))
    | [a; b] => r_run2 R g b a
    | _ => Err EArg
    end
  | FListSection slots => xs <- apply_section slots args ;; Ok (VList xs)
  | FChainSection seed op opd =>
    (* ChainEvaluator::new(lhs); give(op, rhs) pushes onto the empty pending stack;
       a third argument is an error; finish() runs op.run(env, vec![lhs, rhs]) *)
    match (match seed with Some x => Some (x, args) | None =>
             match args with e :: rest => Some (e, rest) | [] => None end end) with
    | None => Err EArg
    | Some (lhs, it) =>
      match (match opd with Some x => Some (x, it) | None =>
               match it with e :: rest => Some (e, rest) | [] => None end end) with
      | None => Err EArg
      | Some (rhs, it') =>
        match it' with
        | [] => r_run R op [lhs; rhs]
        | _ :: _ => Err EArg
        end
      end
    end
  | FCallSection callee slots =>
    real_args <- apply_section slots args ;; call callee real_args
  | FOnComposition g h =>
    mapped_args <- mapM (fun e => r_run1 R h e) args ;; r_run R g mapped_args
  | FParallel fs =>
    match args with              (* few(args) *)
    | [] => Err EArg
    | [x] =>                     (* one sequence of exactly as many elements as functions *)
      match x with
      | VFunc _ => Err EType
      | _ => match to_iter x with
             | Ok l => if Nat.eqb (length l) (length fs)
                       then res <- zip_run1 fs l ;; Ok (VList res) else Err EType
             | Err _ => Err EType
             | Panic => Panic
             | OutOfFuel => OutOfFuel
             end
      end
    | _ => res <- zip_run1 fs args ;; Ok (VList res)     (* zip: surplus functions/arguments are ignored *)
    end
  | FFanout fs => res <- mapM (fun g => r_run R g args) fs ;; Ok (VList res)
  | FOnFanoutConst g gs =>
    mapped_args <- mapM (fun x => match x with VFunc gf => r_run R gf args | _ => Ok x end) gs ;;
    r_run R g mapped_args
  | FCombinator c => comb_run c args
  | FCallSectionHole slots =>
    match args with
    | [] => Err EArg
    | callee :: it => real_args <- apply_section slots it ;; call callee real_args
    end
  end.

(* eval.rs impl Func { pub fn run1; pub fn run2 } *)
Definition func_run1 (f : func) (a : val) : outcome val :=
  match f with
  | FBuiltin b => brun1 b a
  | FKnown k => known_run1 k a
  | FPartialApp1 g x => r_run2 R g x a
  | FPartialApp2 g x => r_run2 R g a x
  | _ => func_run f [a]
  end.
Definition func_run2 (f : func) (a1 a2 : val) : outcome val :=
  match f with
  | FBuiltin b => brun2 b a1 a2
  | FKnown k => known_run2 k a1 a2
  | _ => func_run f [a1; a2]
  end.
End Step.

Definition no_fuel : runners :=
  {| r_run := fun _ _ => OutOfFuel; r_run1 := fun _ _ => OutOfFuel; r_run2 := fun _ _ _ => OutOfFuel |}.

Fixpoint runners_at (n : nat) : runners :=
  match n with
  | O => no_fuel
  | S n' =>
    let R := runners_at n' in
    {| r_run := func_run R; r_run1 := func_run1 R; r_run2 := func_run2 R |}
  end.

Definition run (n : nat) := r_run (runners_at n).
Definition run1 (n : nat) := r_run1 (runners_at n).
Definition run2 (n : nat) := r_run2 (runners_at n).

(* eval.rs call_or_part_apply: calling a non-function with one function argument is a left section *)
Definition call_or_part_apply (n : nat) (f : val) (args : list val) : outcome val :=
  match f with
  | VFunc ff => run n ff args
  | _ =>
    match args with
    | [VFunc f2] => Ok (VFunc (FPartialApp1 f2 f))
    | _ => Err EType
    end
  end.

(* ---------------------------------------------------------------- expressions *)
(* The fragment of Expr that the application forms are written in.  Operands that are
   variables or literals are already values (EVal).  `_` is not an expression of its own:
   it occurs as a call/list argument (AHole, ASplatHole) or as a chain operand (None).
   Call syntax (parentheses, bang, juxtaposition) and backticks are parser-only: evaluate
   ignores CallSyntax, and a backticked operator is an ordinary chain operator. *)
Inductive expr :=
| EVal (v : val)
| ECall (f : expr) (args : list arg)
| EChain (a : option expr) (op : expr) (b : option expr)   (* one operator *)
| EList (xs : list arg)
| ECallHole (args : list arg)                              (* _(args): call section with a hole callee *)
with arg :=
| ANorm (e : expr)
| ASplat (e : expr)    (* ...e *)
| AHole                (* _    *)
| ASplatHole           (* ..._ *).

(* splat_section_eval: the accumulator is Ok(values so far) until the first hole, then
   Err(slots so far) *)
Definition sse_acc := (list val + list slot)%type.
Definition sse_hole (is_splat : bool) (acc : sse_acc) : sse_acc :=
  match acc with
  | inl v => inr (map SVal v ++ [SHole is_splat])
  | inr s => inr (s ++ [SHole is_splat])
  end.
Definition sse_push (e : val) (acc : sse_acc) : sse_acc :=
  match acc with
  | inl v => inl (v ++ [e])
  | inr s => inr (s ++ [SVal e])
  end.
Definition sse_splat (e : val) (acc : sse_acc) : outcome sse_acc :=
  els <- to_iter e ;;
  Ok (match acc with
      | inl v => inl (v ++ els)
      | inr s => inr (s ++ map SVal els)
      end).

Section Eval.
Variable n : nat.

Fixpoint eval (e : expr) : outcome val :=
  let sse := fix sse (args : list arg) (acc : sse_acc) {struct args} : outcome sse_acc :=
    match args with
    | [] => Ok acc
    | x :: rest =>
      match x with
      | ANorm e1 => v <- eval e1 ;; sse rest (sse_push v acc)
      | ASplat e1 => v <- eval e1 ;; acc' <- sse_splat v acc ;; sse rest acc'
      | AHole => sse rest (sse_hole false acc)
      | ASplatHole => sse rest (sse_hole true acc)
      end
    end in
  match e with
  | EVal v => Ok v
  | ECall f args =>
    fr <- eval f ;;
    acc <- sse args (inl []) ;;
    match acc with
    | inl v => call_or_part_apply n fr v
    | inr slots => Ok (VFunc (FCallSection fr slots))
    end
  | EChain a op b =>
    match a, b with
    | Some ea, Some eb =>          (* no section: the single-operator fast path *)
      lhs <- eval ea ;;
      oprr <- eval op ;;
      match oprr with
      | VFunc bf => oprd <- eval eb ;; run2 n bf lhs oprd
      | _ => Err EType
      end
    | _, _ =>                      (* chain section *)
      v1 <- match a with Some ea => omap Some (eval ea) | None => Ok None end ;;
      oprr <- eval op ;;
      match oprr with
      | VFunc bf =>
        opd <- match b with Some eb => omap Some (eval eb) | None => Ok None end ;;
        Ok (VFunc (FChainSection v1 bf opd))
      | _ => Err EType
      end
    end
  | EList xs =>
    acc <- sse xs (inl []) ;;
    match acc with
    | inl v => Ok (VList v)
    | inr slots => Ok (VFunc (FListSection slots))
    end
  | ECallHole args =>        (* (None, Ok(v)) | (None, Err(v)) => CallSection(None, ..) *)
    acc <- sse args (inl []) ;;
    match acc with
    | inl v => Ok (VFunc (FCallSectionHole (map SVal v)))
    | inr slots => Ok (VFunc (FCallSectionHole slots))
    end
  end.

(* Expr::OpAssign, hot path, on a plain variable holding [x]: the new value of the variable *)
Definition op_assign (x : val) (op rhs : expr) : outcome val :=
  opv <- eval op ;;
  match opv with
  | VFunc ff => rhs_value <- eval rhs ;; run2 n ff x rhs_value
  | _ => Err EType
  end.

(* Expr::OpAssign, hot path, with the ORDER of its steps explicit.  The assigned place is
   abstract: a store S with a read [get] (eval_lvalue_as_obj) and a write [set] (drop_lhs writes
   null, assign writes the result) - a plain variable is S = val, an index target a[i] is the
   obvious lens.  The operator and the right-hand side are expressions that may READ the store
   (x f= x, x f= g(x), a[i] f= a[j]): they are given as functions of the store they are evaluated
   in.  Steps, as in eval.rs:
     lhs_value = eval_lvalue_as_obj(p); opv = evaluate(op); rhs_value = evaluate(rhs)   -- all in s0
     drop_lhs(p)                          -- s1 = set s0 null   (only now: rhs has been evaluated)
     combined = ff.run2(lhs_value, rhs_value)
     assign(p, combined)                  -- s2 = set s1 combined
   The result is the final store and whether the statement succeeded (on a failure the store is
   whatever the steps so far left: s0 if nothing was dropped yet, s1 - the place nulled - after). *)
Definition op_assign_store (S : Type) (get : S -> outcome val) (set : S -> val -> outcome S)
    (vnull : val) (s0 : S) (op rhs : S -> expr) : S * outcome unit :=
  match get s0 with
  | Ok lhs_value =>
    match eval (op s0) with
    | Ok (VFunc ff) =>
      match eval (rhs s0) with            (* evaluated in s0: the place still holds its old value *)
      | Ok rhs_value =>
        match set s0 vnull with           (* drop_lhs *)
        | Ok s1 =>
          match run2 n ff lhs_value rhs_value with
          | Ok combined =>
            match set s1 combined with    (* assign *)
            | Ok s2 => (s2, Ok tt)
            | Err c => (s1, Err c) | Panic => (s1, Panic) | OutOfFuel => (s1, OutOfFuel)
            end
          | Err c => (s1, Err c) | Panic => (s1, Panic) | OutOfFuel => (s1, OutOfFuel)
          end
        | Err c => (s0, Err c) | Panic => (s0, Panic) | OutOfFuel => (s0, OutOfFuel)
        end
      | Err c => (s0, Err c) | Panic => (s0, Panic) | OutOfFuel => (s0, OutOfFuel)
      end
    | Ok _ => (s0, Err EType)
    | Err c => (s0, Err c) | Panic => (s0, Panic) | OutOfFuel => (s0, OutOfFuel)
    end
  | Err c => (s0, Err c) | Panic => (s0, Panic) | OutOfFuel => (s0, OutOfFuel)
  end.

(* a plain variable *)
Definition var_get (x : val) : outcome val := Ok x.
Definition var_set (_ : val) (v : val) : outcome val := Ok v.
End Eval.

(* ---------------------------------------------------------------- the surface forms *)
Definition V (v : val) : expr := EVal v.
Definition Fv (f : func) : expr := EVal (VFunc f).
Definition Kf (k : known) : expr := EVal (VFunc (FKnown k)).
Definition norm (l : list val) : list arg := map (fun v => ANorm (V v)) l.

(* two arguments *)
Definition form_infix f a b := EChain (Some (V a)) (Fv f) (Some (V b)).        (* a f b        *)
Definition form_call f a b := ECall (Fv f) [ANorm (V a); ANorm (V b)].          (* f(a, b)      *)
Definition form_bang := form_call.                                               (* f! a, b      *)
Definition form_backtick := form_infix.                                          (* a `f` b      *)
Definition form_sect_l f a b :=                                                  (* f(_, b)(a)   *)
  ECall (ECall (Fv f) [AHole; ANorm (V b)]) [ANorm (V a)].
Definition form_sect_r f a b :=                                                  (* f(a, _)(b)   *)
  ECall (ECall (Fv f) [ANorm (V a); AHole]) [ANorm (V b)].
Definition form_chain_sect_l f a b :=                                            (* (_ f b)(a)   *)
  ECall (EChain None (Fv f) (Some (V b))) [ANorm (V a)].
Definition form_chain_sect_r f a b :=                                            (* (a f _)(b)   *)
  ECall (EChain (Some (V a)) (Fv f) None) [ANorm (V b)].
Definition form_apply f a b :=                                                   (* [a, b] apply f *)
  EChain (Some (EList [ANorm (V a); ANorm (V b)])) (Kf KApply) (Some (Fv f)).
Definition form_of f a b :=                                                      (* f of [a, b]  *)
  EChain (Some (Fv f)) (Kf KOf) (Some (EList [ANorm (V a); ANorm (V b)])).
Definition form_juxt f a b :=                                                    (* (a f)(b)     *)
  ECall (ECall (V a) [ANorm (Fv f)]) [ANorm (V b)].
Definition form_curried f a b :=                                                 (* f(b)(a)      *)
  ECall (ECall (Fv f) [ANorm (V b)]) [ANorm (V a)].
Definition form_sect_both f a b :=                                               (* f(_, _)(a, b) *)
  ECall (ECall (Fv f) [AHole; AHole]) [ANorm (V a); ANorm (V b)].
Definition form_splat_hole f (args : list val) :=                                (* f(..._)([args]) *)
  ECall (ECall (Fv f) [ASplatHole]) [ANorm (EList (norm args))].

(* any number of arguments *)
Definition form_call_n f (args : list val) := ECall (Fv f) (norm args).          (* f(args) / f! args *)
Definition form_splat_n f (args : list val) :=                                   (* f(...[args]) *)
  ECall (Fv f) [ASplat (EList (norm args))].
Definition form_apply_n f (args : list val) :=                                   (* [args] apply f *)
  EChain (Some (EList (norm args))) (Kf KApply) (Some (Fv f)).
Definition form_of_n f (args : list val) :=                                      (* f of [args]  *)
  EChain (Some (Fv f)) (Kf KOf) (Some (EList (norm args))).

(* one argument *)
Definition form_dot f a := EChain (Some (V a)) (Kf KThen) (Some (Fv f)).         (* a.f  a then f  a .> f *)
Definition form_calll f a := EChain (Some (Fv f)) (Kf KCallL) (Some (V a)).      (* f <. a *)
Definition form_sect_1 f a := ECall (ECall (Fv f) [AHole]) [ANorm (V a)].        (* f(_)(a) *)

(* a section with holes at the positions marked true, applied to the values at those positions *)
Definition mask_arg (p : val * bool) : arg := if snd p then AHole else ANorm (V (fst p)).
Definition mask_slot (p : val * bool) : slot := if snd p then SHole false else SVal (fst p).
Definition holes (l : list (val * bool)) : list val := map fst (filter snd l).
Definition form_sect_mask f (l : list (val * bool)) :=                           (* f(a, _, c, _)(b, d) *)
  ECall (ECall (Fv f) (map mask_arg l)) (norm (holes l)).

(* _(a, _, c)(f, b): a call section whose callee is the hole *)
Definition form_hole_callee f (l : list (val * bool)) :=
  ECall (ECallHole (map mask_arg l)) (ANorm (Fv f) :: norm (holes l)).

Definition converges (n_e : nat -> outcome val) (r : outcome val) : Prop :=
  exists n, n_e n = r /\ r <> OutOfFuel.

End Apply.

Arguments FKnown {B C D} k.
Arguments FCombinator {B C D} c.
Arguments SHole {B C D} is_splat.
Arguments AHole {B C D}.
Arguments ASplatHole {B C D}.
Arguments VData {B C D} d.
Arguments FBuiltin {B C D} b.
Arguments FClosure {B C D} c.
Arguments no_fuel {B C D}.
