(* C04 - proofs about Dispatch/Apply.v: every application form reaches the same vector call. *)
From Coq Require Import List Bool Arith Lia.
From NV Require Import Common.Outcome Dispatch.Apply.
Import ListNotations.

Set Implicit Arguments.

Section Proofs.
Variable B C D : Type.
Variable brun : B -> list (val B C D) -> outcome (val B C D).
Variable crun : C -> list (val B C D) -> outcome (val B C D).
Variable diter : D -> outcome (list (val B C D)).

Notation val := (val B C D).
Notation func := (func B C D).
Notation slot := (slot B C D).
Notation expr := (expr B C D).
Notation arg := (arg B C D).
Notation runners := (runners B C D).
Notation run := (run brun crun diter).
Notation run1 := (run1 brun crun diter).
Notation run2 := (run2 brun crun diter).
Notation eval := (eval brun crun diter).
Notation op_assign := (op_assign brun crun diter).
Notation runners_at := (runners_at brun crun diter).
Notation func_run := (func_run brun crun diter).
Notation func_run1 := (func_run1 brun crun diter).
Notation func_run2 := (func_run2 brun crun diter).
Notation apply_section := (apply_section diter).
Notation to_iter := (to_iter diter).
Notation call_or_part_apply := (call_or_part_apply brun crun diter).

(* ------------------------------------------------------------ entry points agree *)
Lemma run_S : forall n f args, run (S n) f args = func_run (runners_at n) f args.
Proof. reflexivity. Qed.
Lemma run_0 : forall f args, run 0 f args = OutOfFuel.
Proof. reflexivity. Qed.

Lemma run1_is_run : forall n f a, run1 n f a = run n f [a].
Proof.
  intros n f a. destruct n as [|n]; [reflexivity|].
  destruct f; try reflexivity.
  destruct k; reflexivity.
Qed.

Lemma run2_is_run : forall n f a b, run2 n f a b = run n f [a; b].
Proof.
  intros n f a b. destruct n as [|n]; [reflexivity|].
  destruct f; try reflexivity.
  destruct k; reflexivity.
Qed.

(* ------------------------------------------------------------ partial-application wrappers *)
Lemma partial_app1 : forall n f x a,
  run (S n) (FPartialApp1 f x) [a] = run n f [x; a] /\
  run1 (S n) (FPartialApp1 f x) a = run n f [x; a].
Proof. intros. split; cbn; apply run2_is_run. Qed.

Lemma partial_app2 : forall n f x a,
  run (S n) (FPartialApp2 f x) [a] = run n f [a; x] /\
  run1 (S n) (FPartialApp2 f x) a = run n f [a; x].
Proof. intros. split; cbn; apply run2_is_run. Qed.

Lemma partial_app_arity : forall n f x args, length args <> 1%nat ->
  run (S n) (FPartialApp1 f x) args = Err EArg /\ run (S n) (FPartialApp2 f x) args = Err EArg.
Proof.
  intros n f x args H. destruct args as [|a [|b r]]; cbn in *; try (split; reflexivity). congruence.
Qed.

Lemma partial_app_last : forall n f x args,
  run (S n) (FPartialAppLast f x) args = run n f (args ++ [x]).
Proof. reflexivity. Qed.

Lemma flip_two : forall n f a b, run (S n) (FFlip f) [a; b] = run n f [b; a].
Proof. intros. cbn. apply run2_is_run. Qed.

Lemma flip_one : forall n f a b,
  run (S n) (FFlip f) [a] = Ok (VFunc (FPartialApp1 f a)) /\
  (forall g, run (S n) (FFlip f) [a] = Ok (VFunc g) -> run (S n) g [b] = run n f [a; b]).
Proof.
  intros. split; [reflexivity|]. cbn. intros g H. inversion H; subst. cbn. apply run2_is_run.
Qed.

Lemma flip_arity : forall n f args, length args <> 1%nat -> length args <> 2%nat ->
  run (S n) (FFlip f) args = Err EArg.
Proof.
  intros n f args H1 H2. destruct args as [|a [|b [|c r]]]; cbn in *; try reflexivity; congruence.
Qed.

Lemma composition : forall n f g args,
  run (S n) (FComposition f g) args = bind (run n g args) (fun r => run n f [r]).
Proof.
  intros. rewrite run_S. cbn [Apply.func_run]. fold (run n g args).
  destruct (run n g args); cbn [bind]; try reflexivity. apply run1_is_run.
Qed.

(* ------------------------------------------------------------ sections *)
Definition sse (n : nat) : list arg -> sse_acc B C D -> outcome (sse_acc B C D) :=
  fix sse (args : list arg) (acc : sse_acc B C D) {struct args} : outcome (sse_acc B C D) :=
    match args with
    | [] => Ok acc
    | x :: rest =>
      match x with
      | ANorm e1 => v <- eval n e1 ;; sse rest (sse_push v acc)
      | ASplat e1 => v <- eval n e1 ;; acc' <- sse_splat diter v acc ;; sse rest acc'
      | AHole => sse rest (sse_hole false acc)
      | ASplatHole => sse rest (sse_hole true acc)
      end
    end.

Lemma eval_call : forall n f args,
  eval n (ECall f args) =
  (fr <- eval n f ;; acc <- sse n args (inl []) ;;
   match acc with
   | inl v => call_or_part_apply n fr v
   | inr slots => Ok (VFunc (FCallSection fr slots))
   end).
Proof. reflexivity. Qed.

Lemma eval_list : forall n xs,
  eval n (EList xs) =
  (acc <- sse n xs (inl []) ;;
   match acc with
   | inl v => Ok (VList v)
   | inr slots => Ok (VFunc (FListSection slots))
   end).
Proof. reflexivity. Qed.

Lemma eval_val : forall n v, eval n (EVal v) = Ok v.
Proof. reflexivity. Qed.

Lemma eval_chain_full : forall n ea op eb,
  eval n (EChain (Some ea) op (Some eb)) =
  (lhs <- eval n ea ;; oprr <- eval n op ;;
   match oprr with
   | VFunc bf => oprd <- eval n eb ;; run2 n bf lhs oprd
   | _ => Err EType
   end).
Proof. reflexivity. Qed.

Lemma sse_nil : forall n acc, sse n [] acc = Ok acc.
Proof. reflexivity. Qed.
Lemma sse_cons_norm : forall n e rest acc,
  sse n (ANorm e :: rest) acc = (v <- eval n e ;; sse n rest (sse_push v acc)).
Proof. reflexivity. Qed.
Lemma sse_cons_splat : forall n e rest acc,
  sse n (ASplat e :: rest) acc = (v <- eval n e ;; acc' <- sse_splat diter v acc ;; sse n rest acc').
Proof. reflexivity. Qed.
Lemma sse_cons_hole : forall n rest acc,
  sse n (AHole :: rest) acc = sse n rest (sse_hole false acc).
Proof. reflexivity. Qed.
Lemma sse_cons_splat_hole : forall n rest acc,
  sse n (ASplatHole :: rest) acc = sse n rest (sse_hole true acc).
Proof. reflexivity. Qed.

Lemma sse_norm : forall n args acc, sse n (norm args) (inl acc) = Ok (inl (acc ++ args)).
Proof.
  intros n args. induction args as [|a r IH]; intros acc; cbn.
  - rewrite app_nil_r. reflexivity.
  - rewrite IH. rewrite <- app_assoc. reflexivity.
Qed.

Lemma eval_list_norm : forall n args, eval n (EList (norm args)) = Ok (VList args).
Proof. intros. rewrite eval_list, sse_norm. reflexivity. Qed.

Definition acc_slots (acc : sse_acc B C D) : list slot :=
  match acc with inl v => map (@SVal B C D) v | inr s => s end.
Definition acc_is_sect (acc : sse_acc B C D) : bool :=
  match acc with inl _ => false | inr _ => true end.

Lemma sse_mask : forall n (l : list (val * bool)) acc,
  exists acc', sse n (map (@mask_arg B C D) l) acc = Ok acc' /\
    acc_slots acc' = acc_slots acc ++ map (@mask_slot B C D) l /\
    acc_is_sect acc' = acc_is_sect acc || existsb snd l.
Proof.
  intros n l. induction l as [|[v h] r IH]; intros acc.
  - exists acc. cbn. rewrite app_nil_r, orb_false_r. auto.
  - destruct h; cbn [map mask_arg snd fst sse].
    + destruct (IH (sse_hole false acc)) as (acc' & E & S1 & S2).
      exists acc'. split; [exact E|]. split.
      * rewrite S1. destruct acc; cbn; rewrite <- app_assoc; reflexivity.
      * rewrite S2. destruct acc; cbn; rewrite ?orb_true_r; reflexivity.
    + cbn. destruct (IH (sse_push v acc)) as (acc' & E & S1 & S2).
      exists acc'. split; [exact E|]. split.
      * rewrite S1. destruct acc; cbn; rewrite ?map_app; cbn; rewrite <- app_assoc; reflexivity.
      * rewrite S2. destruct acc; reflexivity.
Qed.

Lemma apply_section_mask : forall (pre : list val) (l : list (val * bool)),
  apply_section (map (@SVal B C D) pre ++ map (@mask_slot B C D) l) (holes l) = Ok (pre ++ map fst l).
Proof.
  intros pre l. induction pre as [|p pre IH]; cbn.
  - induction l as [|[v h] r IHl]; [reflexivity|].
    destruct h; unfold holes in *; cbn in *; rewrite IHl; reflexivity.
  - rewrite IH. reflexivity.
Qed.

Lemma apply_section_vals : forall (vs : list val) args,
  apply_section (map (@SVal B C D) vs) args = Ok vs.
Proof. induction vs as [|v r IH]; intros; cbn; [reflexivity|]. rewrite IH. reflexivity. Qed.

(* f(a, _, c, _)(b, d): any layout with at least one hole *)
Lemma sect_mask : forall n f (l : list (val * bool)), existsb snd l = true ->
  eval (S n) (form_sect_mask f l) = run n f (map fst l).
Proof.
  intros n f l H. unfold form_sect_mask.
  rewrite eval_call. rewrite eval_call.
  destruct (sse_mask (S n) l (inl [])) as (acc' & E & S1 & S2).
  cbn [eval Fv bind]. rewrite E. cbn [bind].
  rewrite H in S2. cbn in S2, S1.
  destruct acc' as [v|slots]; [discriminate|]. cbn in S1. subst slots.
  rewrite sse_norm. cbn [bind app call_or_part_apply].
  rewrite run_S. cbn [func_run].
  pose proof (apply_section_mask [] l) as A. cbn in A. rewrite A. reflexivity.
Qed.

(* ------------------------------------------------------------ n-argument forms *)
Lemma call_n : forall n f args, eval n (form_call_n f args) = run n f args.
Proof. intros. unfold form_call_n. rewrite eval_call. cbn [eval Fv bind]. rewrite sse_norm. reflexivity. Qed.

Lemma splat_n : forall n f args, eval n (form_splat_n f args) = run n f args.
Proof.
  intros. unfold form_splat_n, Fv. rewrite eval_call, eval_val, sse_cons_splat, eval_list_norm.
  reflexivity.
Qed.

Lemma apply_n : forall n f args, eval (S n) (form_apply_n f args) = run n f args.
Proof.
  intros. unfold form_apply_n, Kf, Fv. rewrite eval_chain_full, eval_list_norm, !eval_val.
  reflexivity.
Qed.

Lemma of_n : forall n f args, eval (S n) (form_of_n f args) = run n f args.
Proof.
  intros. unfold form_of_n, Kf, Fv. rewrite eval_chain_full, eval_list_norm, !eval_val.
  reflexivity.
Qed.

Lemma splat_hole_n : forall n f args, eval (S n) (form_splat_hole f args) = run n f args.
Proof.
  intros. unfold form_splat_hole, Fv.
  rewrite eval_call, eval_call, eval_val. cbn [bind].
  rewrite sse_cons_splat_hole, sse_nil. cbn [bind sse_hole map app].
  rewrite sse_cons_norm, eval_list_norm. cbn [bind]. rewrite sse_nil.
  cbn. rewrite app_nil_r. reflexivity.
Qed.

(* ------------------------------------------------------------ two arguments *)
Lemma forms_agree_2 : forall n f a b,
  let r := run n f [a; b] in
  eval n (form_infix f a b) = r /\
  eval n (form_call f a b) = r /\
  eval n (form_bang f a b) = r /\
  eval n (form_backtick f a b) = r /\
  eval (S n) (form_sect_l f a b) = r /\
  eval (S n) (form_sect_r f a b) = r /\
  eval (S n) (form_chain_sect_l f a b) = r /\
  eval (S n) (form_chain_sect_r f a b) = r /\
  eval (S n) (form_apply f a b) = r /\
  eval (S n) (form_of f a b) = r /\
  eval (S n) (form_sect_both f a b) = r /\
  eval (S n) (form_splat_hole f [a; b]) = r /\
  (is_func a = false -> eval (S n) (form_juxt f a b) = r).
Proof.
  intros n f a b r. subst r.
  repeat split; try reflexivity; try (cbn; apply run2_is_run).
  intros Ha. destruct a; try discriminate; cbn; apply run2_is_run.
Qed.

(* the forms that go through one more function value cannot answer without fuel *)
Lemma forms_2_need_fuel : forall f a b,
  eval 0 (form_sect_l f a b) = OutOfFuel /\ eval 0 (form_sect_r f a b) = OutOfFuel /\
  eval 0 (form_chain_sect_l f a b) = OutOfFuel /\ eval 0 (form_chain_sect_r f a b) = OutOfFuel /\
  eval 0 (form_apply f a b) = OutOfFuel /\ eval 0 (form_of f a b) = OutOfFuel /\
  eval 0 (form_sect_both f a b) = OutOfFuel /\ eval 0 (form_splat_hole f [a; b]) = OutOfFuel /\
  (is_func a = false -> eval 0 (form_juxt f a b) = OutOfFuel).
Proof.
  intros. repeat split; try reflexivity.
  intros Ha. destruct a; try discriminate; reflexivity.
Qed.

Lemma juxt_function : forall n f g b,
  eval n (form_juxt f (VFunc g) b) =
  bind (run n g [VFunc f]) (fun r => call_or_part_apply n r [b]).
Proof. reflexivity. Qed.

(* one-argument calls that return a section of the same function *)
Lemma right_section : forall n f a b,
  run (S n) f [b] = Ok (VFunc (FPartialApp2 f b)) ->
  eval (S n) (form_curried f a b) = run n f [a; b].
Proof.
  intros n f a b H. unfold form_curried, Fv, V. rewrite eval_call, eval_call, eval_val. cbn [bind].
  rewrite sse_cons_norm, eval_val. cbn [bind]. rewrite sse_nil.
  cbn [bind sse_push app Apply.call_or_part_apply]. rewrite H. cbn [bind].
  rewrite sse_cons_norm, eval_val. cbn [bind]. rewrite sse_nil.
  cbn [bind sse_push app Apply.call_or_part_apply]. apply partial_app2.
Qed.

Lemma last_section : forall n f a b,
  run (S n) f [b] = Ok (VFunc (FPartialAppLast f b)) ->
  eval (S n) (form_curried f a b) = run n f [a; b].
Proof.
  intros n f a b H. unfold form_curried, Fv, V. rewrite eval_call, eval_call, eval_val. cbn [bind].
  rewrite sse_cons_norm, eval_val. cbn [bind]. rewrite sse_nil.
  cbn [bind sse_push app Apply.call_or_part_apply]. rewrite H. cbn [bind].
  rewrite sse_cons_norm, eval_val. cbn [bind]. rewrite sse_nil.
  cbn [bind sse_push app Apply.call_or_part_apply]. apply partial_app_last.
Qed.

(* for the transcribed two-argument builtins the hypothesis of right_section is a theorem *)
Lemma known_right_section : forall n k b, is_one_arg k = false ->
  run (S n) (FKnown k) [b] = Ok (VFunc (FPartialApp2 (FKnown k) b)).
Proof. intros n k b H. destruct k; try discriminate; reflexivity. Qed.

Lemma opassign_is_call : forall n f x b,
  op_assign n x (Fv f) (V b) = run n f [x; b] /\
  op_assign n x (Fv f) (V b) = eval n (form_call f x b).
Proof. intros. split; cbn; apply run2_is_run. Qed.

(* ------------------------------------------------------------ one and three arguments *)
Lemma forms_agree_1 : forall n f a,
  let r := run n f [a] in
  eval n (form_call_n f [a]) = r /\
  eval n (form_splat_n f [a]) = r /\
  eval (S n) (form_dot f a) = r /\
  eval (S n) (form_calll f a) = r /\
  eval (S n) (form_sect_1 f a) = r /\
  eval (S n) (form_splat_hole f [a]) = r /\
  eval (S n) (form_apply_n f [a]) = r /\
  eval (S n) (form_of_n f [a]) = r.
Proof.
  intros n f a r. subst r.
  repeat split; try reflexivity; try (cbn; apply run1_is_run).
Qed.

Definition form_partial_splat_3 (f : func) (a b c : val) : expr :=      (* f(a, ...[b, c]) *)
  ECall (Fv f) [ANorm (V a); ASplat (EList (norm [b; c]))].

Lemma forms_agree_3 : forall n f a b c,
  let r := run n f [a; b; c] in
  eval n (form_call_n f [a; b; c]) = r /\
  eval n (form_splat_n f [a; b; c]) = r /\
  eval n (form_partial_splat_3 f a b c) = r /\
  eval (S n) (form_splat_hole f [a; b; c]) = r /\
  eval (S n) (form_apply_n f [a; b; c]) = r /\
  eval (S n) (form_of_n f [a; b; c]) = r /\
  (forall ha hb hc : bool, ha || hb || hc = true ->
     eval (S n) (form_sect_mask f [(a, ha); (b, hb); (c, hc)]) = r).
Proof.
  intros n f a b c r. subst r.
  repeat split; try reflexivity.
  intros ha hb hc H. destruct ha, hb, hc; try discriminate; reflexivity.
Qed.

Lemma list_section : forall n (l : list (val * bool)), existsb snd l = true ->
  eval (S n) (ECall (EList (map (@mask_arg B C D) l)) (norm (holes l))) = Ok (VList (map fst l)).
Proof.
  intros n l H. rewrite eval_call. rewrite eval_list.
  destruct (sse_mask (S n) l (inl [])) as (acc' & E & S1 & S2).
  rewrite E. cbn [bind]. rewrite H in S2. cbn in S1, S2.
  destruct acc' as [v|slots]; [discriminate|]. cbn in S1. subst slots.
  cbn [bind]. rewrite sse_norm. cbn [bind app call_or_part_apply].
  rewrite run_S. cbn [func_run].
  pose proof (apply_section_mask [] l) as A. cbn in A. rewrite A. reflexivity.
Qed.

(* ------------------------------------------------------------ fuel is only fuel *)
Definition ole (o o' : outcome val) : Prop := o = OutOfFuel \/ o = o'.

Lemma ole_refl : forall o, ole o o.
Proof. right. reflexivity. Qed.

Lemma ole_bind : forall A (o o' : outcome A) (k k' : A -> outcome val),
  (o = OutOfFuel \/ o = o') -> (forall x, ole (k x) (k' x)) -> ole (bind o k) (bind o' k').
Proof.
  intros A o o' k k' [H|H] K; subst.
  - left. reflexivity.
  - destruct o'; cbn; [apply K | right; reflexivity ..].
Qed.

Definition le_runners (R R' : runners) : Prop :=
  (forall f args, ole (r_run R f args) (r_run R' f args)) /\
  (forall f a, ole (r_run1 R f a) (r_run1 R' f a)) /\
  (forall f a b, ole (r_run2 R f a b) (r_run2 R' f a b)).

Section Mono.
Variables R R' : runners.
Hypothesis LE : le_runners R R'.

Lemma call_mono : forall f args, ole (call R f args) (call R' f args).
Proof. intros [d|l|f] args; cbn; try apply ole_refl. apply LE. Qed.
Lemma call1_mono : forall f a, ole (call1 R f a) (call1 R' f a).
Proof. intros [d|l|f] a; cbn; try apply ole_refl. apply LE. Qed.

Lemma known_body2_mono : forall k a b, ole (known_body2 diter R k a b) (known_body2 diter R' k a b).
Proof.
  intros k a b. destruct k; cbn; try apply ole_refl; try apply call1_mono.
  - apply ole_bind; [right; reflexivity | intros; apply call_mono].
  - apply ole_bind; [right; reflexivity | intros; apply call_mono].
Qed.

Lemma known_run_mono : forall k args, ole (known_run diter R k args) (known_run diter R' k args).
Proof.
  intros k args. unfold known_run. destruct (is_one_arg k).
  - apply ole_refl.
  - destruct args as [|a [|b [|c r]]]; try apply ole_refl. apply known_body2_mono.
Qed.

Lemma mapM_mono : forall A (f f' : A -> outcome val) l, (forall x, ole (f x) (f' x)) ->
  mapM f l = OutOfFuel \/ mapM f l = mapM f' l.
Proof.
  intros A f f' l H. induction l as [|a l IH]; cbn; [right; reflexivity|].
  destruct (H a) as [E|E]; rewrite E; [left; reflexivity|].
  destruct (f' a); cbn; try (right; reflexivity).
  destruct IH as [E2|E2]; rewrite E2; [left | right]; reflexivity.
Qed.

Lemma zip_run1_mono : forall fs l,
  zip_run1 R fs l = OutOfFuel \/ zip_run1 R fs l = zip_run1 R' fs l.
Proof.
  destruct LE as (L0 & L1 & L2).
  induction fs as [|f fs IH]; intros l; cbn; [right; reflexivity|].
  destruct l as [|a l]; [right; reflexivity|].
  destruct (L1 f a) as [E|E]; rewrite E; [left; reflexivity|].
  destruct (r_run1 R' f a); cbn; try (right; reflexivity).
  destruct (IH l) as [E2|E2]; rewrite E2; [left | right]; reflexivity.
Qed.

Lemma func_run_mono : forall f args, ole (func_run R f args) (func_run R' f args).
Proof.
  destruct LE as (L0 & L1 & L2).
  intros f args. destruct f; cbn [Apply.func_run]; try apply ole_refl.
  - apply known_run_mono.
  - destruct args as [|a [|b r]]; try apply ole_refl. apply L2.
  - destruct args as [|a [|b r]]; try apply ole_refl. apply L2.
  - apply L0.
  - apply ole_bind; [apply L0 | intros; apply L1].
  - destruct args as [|a [|b [|c r]]]; try apply ole_refl. apply L2.
  - destruct seed as [s|]; [|destruct args as [|e rest]]; try apply ole_refl.
    + destruct opd as [o|]; [|destruct args as [|e rest]]; try apply ole_refl.
      * destruct args; [apply L0 | apply ole_refl].
      * destruct rest; [apply L0 | apply ole_refl].
    + destruct opd as [o|]; [|destruct rest as [|e2 rest2]]; try apply ole_refl.
      * destruct rest; [apply L0 | apply ole_refl].
      * destruct rest2; [apply L0 | apply ole_refl].
  - apply ole_bind; [right; reflexivity | intros; apply call_mono].
  - (* OnComposition *) apply ole_bind; [apply mapM_mono; intros; apply L1 | intros; apply L0].
  - (* Parallel *) destruct args as [|x [|y r]]; try apply ole_refl.
    + destruct x; try apply ole_refl;
        (destruct (to_iter _); try apply ole_refl;
         destruct (Nat.eqb _ _); try apply ole_refl;
         apply ole_bind; [apply zip_run1_mono | intros; apply ole_refl]).
    + apply ole_bind; [apply zip_run1_mono | intros; apply ole_refl].
  - (* Fanout *) apply ole_bind; [apply mapM_mono; intros; apply L0 | intros; apply ole_refl].
  - (* OnFanoutConst *) apply ole_bind; [apply mapM_mono; intros [d|l|g]; try apply ole_refl; apply L0 | intros; apply L0].
  - (* CallSectionHole *) destruct args as [|c it]; try apply ole_refl.
    apply ole_bind; [right; reflexivity | intros; apply call_mono].
Qed.

Lemma func_run1_mono : forall f a, ole (func_run1 R f a) (func_run1 R' f a).
Proof.
  destruct LE as (L0 & L1 & L2).
  intros f a. destruct f; cbn [Apply.func_run1]; try apply func_run_mono; try apply ole_refl; try apply L2.
Qed.

Lemma func_run2_mono : forall f a b, ole (func_run2 R f a b) (func_run2 R' f a b).
Proof.
  intros f a b. destruct f; cbn [Apply.func_run2]; try apply func_run_mono; try apply ole_refl.
  unfold known_run2. destruct (is_one_arg k); [apply known_run_mono | apply known_body2_mono].
Qed.
End Mono.

Lemma runners_mono_S : forall n, le_runners (runners_at n) (runners_at (S n)).
Proof.
  induction n as [|n IH].
  - repeat split; intros; left; reflexivity.
  - repeat split; intros.
    + apply (func_run_mono IH).
    + apply (func_run1_mono IH).
    + apply (func_run2_mono IH).
Qed.

Lemma run_mono : forall n m f args r, (n <= m)%nat ->
  run n f args = r -> r <> OutOfFuel -> run m f args = r.
Proof.
  intros n m f args r Hle. induction Hle as [|m Hle IH]; intros H Hr; [exact H|].
  specialize (IH H Hr).
  destruct (runners_mono_S m) as (L0 & _). destruct (L0 f args) as [E|E].
  - unfold run in IH. congruence.
  - unfold run in *. congruence.
Qed.

Lemma run_deterministic : forall f args r1 r2,
  converges (fun n => run n f args) r1 -> converges (fun n => run n f args) r2 -> r1 = r2.
Proof.
  intros f args r1 r2 (n1 & H1 & N1) (n2 & H2 & N2).
  pose proof (run_mono (m := Nat.max n1 n2) f args (Nat.le_max_l n1 n2) H1 N1).
  pose proof (run_mono (m := Nat.max n1 n2) f args (Nat.le_max_r n1 n2) H2 N2).
  congruence.
Qed.

(* ------------------------------------------------------------ the fuel-free reading *)
Lemma converges_same : forall (g h : nat -> outcome val), (forall n, g n = h n) ->
  forall r, converges g r <-> converges h r.
Proof.
  intros g h E r. split; intros (n & H & N); exists n; split; auto; [rewrite <- E | rewrite E]; auto.
Qed.

Lemma converges_shift : forall (g h : nat -> outcome val), g 0%nat = OutOfFuel -> (forall n, g (S n) = h n) ->
  forall r, converges g r <-> converges h r.
Proof.
  intros g h Z E r. split; intros (n & H & N).
  - destruct n as [|n]; [congruence|]. exists n. rewrite <- E. auto.
  - exists (S n). rewrite E. auto.
Qed.

Definition forms2 (f : func) (a b : val) : list expr :=
  [form_infix f a b; form_call f a b; form_bang f a b; form_backtick f a b;
   form_sect_l f a b; form_sect_r f a b; form_chain_sect_l f a b; form_chain_sect_r f a b;
   form_apply f a b; form_of f a b; form_sect_both f a b; form_splat_hole f [a; b]].

Lemma forms_converge_2 : forall f a b r,
  (forall e, In e (forms2 f a b) ->
     (converges (fun n => eval n e) r <-> converges (fun n => run n f [a; b]) r)) /\
  (is_func a = false ->
     (converges (fun n => eval n (form_juxt f a b)) r <-> converges (fun n => run n f [a; b]) r)).
Proof.
  intros f a b r.
  pose proof (fun n => forms_agree_2 n f a b) as A. cbn zeta in A.
  pose proof (forms_2_need_fuel f a b) as Z.
  split.
  - intros e He. unfold forms2 in He. cbn [In] in He.
    repeat (destruct He as [He|He]; [subst e|]); try contradiction.
    + apply converges_same. intros; apply A.
    + apply converges_same. intros; apply A.
    + apply converges_same. intros; apply A.
    + apply converges_same. intros; apply A.
    + apply converges_shift; [apply Z | intros; apply A].
    + apply converges_shift; [apply Z | intros; apply A].
    + apply converges_shift; [apply Z | intros; apply A].
    + apply converges_shift; [apply Z | intros; apply A].
    + apply converges_shift; [apply Z | intros; apply A].
    + apply converges_shift; [apply Z | intros; apply A].
    + apply converges_shift; [apply Z | intros; apply A].
    + apply converges_shift; [apply Z | intros; apply A].
  - intros Ha. apply converges_shift; [apply Z; exact Ha | intros; apply A; exact Ha].
Qed.

(* ------------------------------------------------------------ fuel-free reading, one and three arguments *)
Definition forms1 (f : func) (a : val) : list expr :=
  [form_call_n f [a]; form_splat_n f [a]; form_dot f a; form_calll f a; form_sect_1 f a;
   form_splat_hole f [a]; form_apply_n f [a]; form_of_n f [a]].

Lemma forms_1_need_fuel : forall f a,
  eval 0 (form_dot f a) = OutOfFuel /\ eval 0 (form_calll f a) = OutOfFuel /\
  eval 0 (form_sect_1 f a) = OutOfFuel /\ eval 0 (form_splat_hole f [a]) = OutOfFuel /\
  eval 0 (form_apply_n f [a]) = OutOfFuel /\ eval 0 (form_of_n f [a]) = OutOfFuel.
Proof. intros. repeat split; reflexivity. Qed.

Lemma forms_converge_1 : forall f a r e, In e (forms1 f a) ->
  (converges (fun n => eval n e) r <-> converges (fun n => run n f [a]) r).
Proof.
  intros f a r e He.
  pose proof (fun n => forms_agree_1 n f a) as A. cbn zeta in A.
  pose proof (forms_1_need_fuel f a) as Z.
  unfold forms1 in He. cbn [In] in He.
  repeat (destruct He as [He|He]; [subst e|]); try contradiction.
  - apply converges_same. intros; apply A.
  - apply converges_same. intros; apply A.
  - apply converges_shift; [apply Z | intros; apply A].
  - apply converges_shift; [apply Z | intros; apply A].
  - apply converges_shift; [apply Z | intros; apply A].
  - apply converges_shift; [apply Z | intros; apply A].
  - apply converges_shift; [apply Z | intros; apply A].
  - apply converges_shift; [apply Z | intros; apply A].
Qed.

Definition forms3 (f : func) (a b c : val) : list expr :=
  [form_call_n f [a; b; c]; form_splat_n f [a; b; c]; form_partial_splat_3 f a b c;
   form_splat_hole f [a; b; c]; form_apply_n f [a; b; c]; form_of_n f [a; b; c];
   form_sect_mask f [(a, true); (b, false); (c, false)];
   form_sect_mask f [(a, false); (b, true); (c, false)];
   form_sect_mask f [(a, false); (b, false); (c, true)];
   form_sect_mask f [(a, true); (b, true); (c, false)];
   form_sect_mask f [(a, true); (b, false); (c, true)];
   form_sect_mask f [(a, false); (b, true); (c, true)];
   form_sect_mask f [(a, true); (b, true); (c, true)]].

Lemma forms_3_need_fuel : forall f a b c,
  eval 0 (form_splat_hole f [a; b; c]) = OutOfFuel /\
  eval 0 (form_apply_n f [a; b; c]) = OutOfFuel /\ eval 0 (form_of_n f [a; b; c]) = OutOfFuel /\
  (forall ha hb hc : bool, ha || hb || hc = true ->
     eval 0 (form_sect_mask f [(a, ha); (b, hb); (c, hc)]) = OutOfFuel).
Proof.
  intros. repeat split; try reflexivity.
  intros ha hb hc H. destruct ha, hb, hc; try discriminate; reflexivity.
Qed.

Lemma forms_converge_3 : forall f a b c r e, In e (forms3 f a b c) ->
  (converges (fun n => eval n e) r <-> converges (fun n => run n f [a; b; c]) r).
Proof.
  intros f a b c r e He.
  pose proof (fun n => forms_agree_3 n f a b c) as A. cbn zeta in A.
  pose proof (forms_3_need_fuel f a b c) as Z.
  unfold forms3 in He. cbn [In] in He.
  repeat (destruct He as [He|He]; [subst e|]); try contradiction.
  - apply converges_same. intros; apply A.
  - apply converges_same. intros; apply A.
  - apply converges_same. intros; apply A.
  - apply converges_shift; [apply Z | intros; apply A].
  - apply converges_shift; [apply Z | intros; apply A].
  - apply converges_shift; [apply Z | intros; apply A].
  - apply converges_shift; [apply Z; reflexivity | intros; apply A; reflexivity].
  - apply converges_shift; [apply Z; reflexivity | intros; apply A; reflexivity].
  - apply converges_shift; [apply Z; reflexivity | intros; apply A; reflexivity].
  - apply converges_shift; [apply Z; reflexivity | intros; apply A; reflexivity].
  - apply converges_shift; [apply Z; reflexivity | intros; apply A; reflexivity].
  - apply converges_shift; [apply Z; reflexivity | intros; apply A; reflexivity].
  - apply converges_shift; [apply Z; reflexivity | intros; apply A; reflexivity].
Qed.

(* ------------------------------------------------------------ op-assign whose right-hand side reads the place *)
Notation op_assign_store := (op_assign_store brun crun diter).

(* x f= rhs, any store, rhs (and nothing else) an arbitrary expression of the store: the place
   ends up holding f(old value, value of rhs in the OLD store) *)
Lemma opassign_store_ok : forall n (S : Type) (get : S -> outcome val) (set : S -> val -> outcome S)
    vnull (s0 s1 s2 : S) f (rhs : S -> expr) x0 b r,
  get s0 = Ok x0 -> eval n (rhs s0) = Ok b -> set s0 vnull = Ok s1 ->
  run n f [x0; b] = Ok r -> set s1 r = Ok s2 ->
  op_assign_store n get set vnull s0 (fun _ => Fv f) rhs = (s2, Ok tt).
Proof.
  intros n S get set vnull s0 s1 s2 f rhs x0 b r Hg Hr Hd Hc Ha.
  unfold Apply.op_assign_store. rewrite Hg. unfold Fv. rewrite eval_val, Hr, Hd.
  rewrite run2_is_run, Hc, Ha. reflexivity.
Qed.

(* if the right-hand side fails nothing has been dropped yet; if the call fails the place has *)
Lemma opassign_store_failures : forall n (S : Type) (get : S -> outcome val) (set : S -> val -> outcome S)
    vnull (s0 s1 : S) f (rhs : S -> expr) x0,
  get s0 = Ok x0 ->
  (is_ok (eval n (rhs s0)) = false ->
   fst (op_assign_store n get set vnull s0 (fun _ => Fv f) rhs) = s0 /\
   is_ok (snd (op_assign_store n get set vnull s0 (fun _ => Fv f) rhs)) = false) /\
  (forall b, eval n (rhs s0) = Ok b -> set s0 vnull = Ok s1 -> is_ok (run n f [x0; b]) = false ->
   fst (op_assign_store n get set vnull s0 (fun _ => Fv f) rhs) = s1 /\
   is_ok (snd (op_assign_store n get set vnull s0 (fun _ => Fv f) rhs)) = false).
Proof.
  intros n S get set vnull s0 s1 f rhs x0 Hg. split.
  - intros H. unfold Apply.op_assign_store. rewrite Hg. unfold Fv. rewrite eval_val.
    destruct (eval n (rhs s0)); try discriminate; split; reflexivity.
  - intros b Hr Hd H. unfold Apply.op_assign_store. rewrite Hg. unfold Fv. rewrite eval_val, Hr, Hd.
    rewrite run2_is_run. destruct (run n f [x0; b]); try discriminate; split; reflexivity.
Qed.

(* a plain variable: x f= rhs(x) leaves x = f(x0, rhs(x0)), the value of the plain call f(x0, b0) *)
Lemma opassign_reads_x : forall n vnull f (rhs : val -> expr) x0 b r,
  eval n (rhs x0) = Ok b -> run n f [x0; b] = Ok r ->
  op_assign_store n (@var_get B C D) (@var_set B C D) vnull x0 (fun _ => Fv f) rhs = (r, Ok tt) /\
  eval n (form_call f x0 b) = Ok r.
Proof.
  intros n vnull f rhs x0 b r Hr Hc. split.
  - eapply opassign_store_ok; try reflexivity; eassumption.
  - rewrite <- Hc. apply forms_agree_2.
Qed.

(* the statement with a store-independent operator and right-hand side is the old op_assign *)
Lemma opassign_store_const : forall n vnull x op rhs r,
  op_assign n x op rhs = Ok r <->
  op_assign_store n (@var_get B C D) (@var_set B C D) vnull x (fun _ => op) (fun _ => rhs) = (r, Ok tt).
Proof.
  intros n vnull x op rhs r. unfold Apply.op_assign, Apply.op_assign_store, var_get, var_set.
  destruct (eval n op) as [[d|l|ff]| | |]; cbn [bind]; try (split; intros H; inversion H; fail).
  destruct (eval n rhs) as [b| | |]; cbn [bind]; try (split; intros H; inversion H; fail).
  destruct (run2 n ff x b); split; intros H; inversion H; subst; reflexivity.
Qed.

(* ------------------------------------------------------------ call section with a hole callee *)
Lemma eval_call_hole : forall n args,
  eval n (ECallHole args) =
  (acc <- sse n args (inl []) ;;
   match acc with
   | inl v => Ok (VFunc (FCallSectionHole (map (@SVal B C D) v)))
   | inr slots => Ok (VFunc (FCallSectionHole slots))
   end).
Proof. reflexivity. Qed.

(* _(a, _, c)(f, b) = f(a, b, c): any layout, with or without further holes *)
Lemma hole_callee : forall n f (l : list (val * bool)),
  eval (S n) (form_hole_callee f l) = run n f (map fst l).
Proof.
  intros n f l. unfold form_hole_callee, Fv. rewrite eval_call, eval_call_hole.
  destruct (sse_mask (S n) l (inl [])) as (acc' & E & S1 & _).
  rewrite E. cbn [bind]. cbn in S1.
  assert (Hf : (match acc' with
                | inl v => Ok (VFunc (FCallSectionHole (map (@SVal B C D) v)))
                | inr slots => Ok (VFunc (FCallSectionHole slots))
                end) = Ok (VFunc (FCallSectionHole (map (@mask_slot B C D) l)))).
  { destruct acc' as [v|slots]; cbn in S1; rewrite S1; reflexivity. }
  rewrite Hf. cbn [bind].
  rewrite sse_cons_norm, eval_val. cbn [bind sse_push app]. rewrite sse_norm.
  cbn [bind app Apply.call_or_part_apply]. rewrite run_S. cbn [Apply.func_run].
  pose proof (apply_section_mask [] l) as A. cbn in A. rewrite A. reflexivity.
Qed.

(* ------------------------------------------------------------ function-building combinators *)
Lemma curried_eval : forall n f a b g,
  run (S n) f [b] = Ok (VFunc g) -> eval (S n) (form_curried f a b) = run (S n) g [a].
Proof.
  intros n f a b g H. unfold form_curried, Fv, V. rewrite eval_call, eval_call, eval_val. cbn [bind].
  rewrite sse_cons_norm, eval_val. cbn [bind]. rewrite sse_nil.
  cbn [bind sse_push app Apply.call_or_part_apply]. rewrite H. cbn [bind].
  rewrite sse_cons_norm, eval_val. cbn [bind]. rewrite sse_nil.
  cbn [bind sse_push app Apply.call_or_part_apply]. reflexivity.
Qed.

Lemma on_composition_2 : forall n f g a b,
  run (S n) (FOnComposition f g) [a; b] =
  bind (run n g [a]) (fun x => bind (run n g [b]) (fun y => run n f [x; y])).
Proof.
  intros. rewrite run_S. cbn [Apply.func_run mapM].
  change (r_run1 (runners_at n) g a) with (run1 n g a).
  change (r_run1 (runners_at n) g b) with (run1 n g b).
  rewrite !run1_is_run.
  destruct (run n g [a]); cbn [bind]; try reflexivity.
  destruct (run n g [b]); reflexivity.
Qed.

Lemma fanout_2 : forall n g h args,
  run (S n) (FFanout [g; h]) args =
  bind (run n g args) (fun x => bind (run n h args) (fun y => Ok (VList [x; y]))).
Proof.
  intros. rewrite run_S. cbn [Apply.func_run mapM].
  change (r_run (runners_at n) g args) with (run n g args).
  change (r_run (runners_at n) h args) with (run n h args).
  destruct (run n g args); cbn [bind]; try reflexivity.
  destruct (run n h args); reflexivity.
Qed.

Lemma parallel_2 : forall n g h a b,
  run (S n) (FParallel [g; h]) [a; b] =
  bind (run n g [a]) (fun x => bind (run n h [b]) (fun y => Ok (VList [x; y]))).
Proof.
  intros. rewrite run_S. cbn [Apply.func_run Apply.zip_run1].
  change (r_run1 (runners_at n) g a) with (run1 n g a).
  change (r_run1 (runners_at n) h b) with (run1 n h b).
  rewrite !run1_is_run.
  destruct (run n g [a]); cbn [bind]; try reflexivity.
  destruct (run n h [b]); reflexivity.
Qed.

Lemma on_fanout_const_2 : forall n f g c args, is_func c = false ->
  run (S n) (FOnFanoutConst f [VFunc g; c]) args = bind (run n g args) (fun x => run n f [x; c]).
Proof.
  intros n f g c args H. rewrite run_S. cbn [Apply.func_run mapM].
  change (r_run (runners_at n) g args) with (run n g args).
  destruct c; try discriminate; destruct (run n g args); reflexivity.
Qed.

Lemma combinators_build : forall n f g h (c : val),
  run (S n) (FCombinator CParallel) [VFunc g; VFunc h] = Ok (VFunc (FParallel [g; h])) /\
  run (S n) (FCombinator CFanout) [VFunc g; VFunc h] = Ok (VFunc (FFanout [g; h])) /\
  run (S n) (FKnown KOn) [VFunc f; VFunc g] = Ok (VFunc (FOnComposition f g)) /\
  run (S n) (FCombinator CLift) [VFunc g; c; VFunc f] = Ok (VFunc (FOnFanoutConst f [VFunc g; c])) /\
  (is_func c = false -> run (S n) (FCombinator CParallel) [VFunc g; c] = Err EType) /\
  (is_func c = false -> run (S n) (FCombinator CLift) [VFunc g; c] = Err EType).
Proof.
  intros. repeat split; try reflexivity; intros H; destruct c; try discriminate; reflexivity.
Qed.

(* flip(g)(b) is PartialApp1(g, b) - not a section of flip(g) itself, yet consistent with it:
   flip(g)(b)(a) = g(b, a) = flip(g)(a, b) *)
Lemma flip_curried : forall n g a b,
  eval (S (S n)) (form_curried (FFlip g) a b) = run (S (S n)) (FFlip g) [a; b] /\
  run (S (S n)) (FFlip g) [a; b] = run (S n) g [b; a].
Proof.
  intros n g a b. split; [|apply flip_two].
  rewrite (@curried_eval (S n) _ _ _ (FPartialApp1 g b)); [|reflexivity].
  rewrite flip_two. apply partial_app1.
Qed.

(* lift(b) is PartialAppLast(lift, b): a right section (so last_section applies) *)
Lemma lift_is_section : forall n a b,
  run (S n) (FCombinator CLift) [b] = Ok (VFunc (FPartialAppLast (FCombinator CLift) b)) /\
  eval (S n) (form_curried (FCombinator CLift) a b) = run n (FCombinator CLift) [a; b].
Proof. intros. split; [reflexivity | apply last_section; reflexivity]. Qed.

(* *** and &&& : the two-argument call succeeds, the one-argument call is a function, and the
   curried call is something else - in the model, for all functions g h and all builtin meanings *)
Lemma variadic_combinators_not_sections : forall n m g h,
  (run (S m) (FCombinator CParallel) [VFunc h; VFunc g] = Ok (VFunc (FParallel [h; g])) /\
   run (S n) (FCombinator CParallel) [VFunc g] = Ok (VFunc (FParallel [g])) /\
   eval (S (S n)) (form_curried (FCombinator CParallel) (VFunc h) (VFunc g)) = Err EType) /\
  (run (S m) (FCombinator CFanout) [VFunc h; VFunc g] = Ok (VFunc (FFanout [h; g])) /\
   run (S n) (FCombinator CFanout) [VFunc g] = Ok (VFunc (FFanout [g])) /\
   forall r, eval (S (S n)) (form_curried (FCombinator CFanout) (VFunc h) (VFunc g)) <> Ok (VFunc r)).
Proof.
  intros n m g h. split; (split; [reflexivity|]); (split; [reflexivity|]).
  - rewrite (@curried_eval (S n) _ _ _ (FParallel [g])); reflexivity.
  - intros r. rewrite (@curried_eval (S n) _ _ _ (FFanout [g])); [|reflexivity].
    rewrite run_S. cbn [Apply.func_run mapM].
    destruct (r_run (runners_at (S n)) g [VFunc h]); cbn; discriminate.
Qed.

(* equals(args) is OnFanoutConst(==, args) (LiftedEquals::run).  With data a b, the function equals(b)
   applied to a is the ONE-argument call of == on b - whatever that builtin makes of it (in /repo: the
   section ==(b)) - not equals(a, b) *)
Lemma equals_curried : forall n (beq : B) a b, is_func b = false ->
  run (S (S n)) (FOnFanoutConst (FBuiltin beq) [b]) [a] = brun beq [b].
Proof. intros n beq a b H. destruct b; try discriminate; reflexivity. Qed.

Lemma function_combinators : forall n f g h a b c (args : list val),
  run (S n) (FOnComposition f g) [a; b] =
    bind (run n g [a]) (fun x => bind (run n g [b]) (fun y => run n f [x; y])) /\
  run (S n) (FFanout [g; h]) args =
    bind (run n g args) (fun x => bind (run n h args) (fun y => Ok (VList [x; y]))) /\
  run (S n) (FParallel [g; h]) [a; b] =
    bind (run n g [a]) (fun x => bind (run n h [b]) (fun y => Ok (VList [x; y]))) /\
  (is_func c = false ->
   run (S n) (FOnFanoutConst f [VFunc g; c]) args = bind (run n g args) (fun x => run n f [x; c])).
Proof.
  intros. split; [apply on_composition_2|]. split; [apply fanout_2|]. split; [apply parallel_2 | apply on_fanout_const_2].
Qed.

(* ------------------------------------------------------------ operator section with both operands missing *)
Definition form_chain_sect_both (f : func) (args : list val) : expr :=      (* (_ f _)(args) *)
  ECall (EChain None (Fv f) None) (norm args).

(* (_ f _)(a, b) = f(a, b): the holes are filled left to right; any other argument count is an error *)
Lemma chain_section_both : forall n f a b c,
  eval (S n) (form_chain_sect_both f [a; b]) = run n f [a; b] /\
  eval (S n) (form_chain_sect_both f [a]) = Err EArg /\
  eval (S n) (form_chain_sect_both f []) = Err EArg /\
  eval (S n) (form_chain_sect_both f [a; b; c]) = Err EArg.
Proof. intros. repeat split; reflexivity. Qed.

(* ------------------------------------------------------------ packaged statements for Props/C04.v *)
Lemma entry_points_agree : forall n f a b,
  run1 n f a = run n f [a] /\ run2 n f a b = run n f [a; b].
Proof. intros. split; [apply run1_is_run | apply run2_is_run]. Qed.

Lemma right_sections : forall n f a b,
  (run (S n) f [b] = Ok (VFunc (FPartialApp2 f b)) ->
   eval (S n) (form_curried f a b) = run n f [a; b]) /\
  (run (S n) f [b] = Ok (VFunc (FPartialAppLast f b)) ->
   eval (S n) (form_curried f a b) = run n f [a; b]).
Proof. intros. split; [apply right_section | apply last_section]. Qed.

Lemma forms_agree_n : forall n f (args : list val) (l : list (val * bool)),
  eval n (form_call_n f args) = run n f args /\
  eval n (form_splat_n f args) = run n f args /\
  eval (S n) (form_apply_n f args) = run n f args /\
  eval (S n) (form_of_n f args) = run n f args /\
  eval (S n) (form_splat_hole f args) = run n f args /\
  (existsb snd l = true -> eval (S n) (form_sect_mask f l) = run n f (map fst l)).
Proof.
  intros. repeat split;
    [apply call_n | apply splat_n | apply apply_n | apply of_n | apply splat_hole_n | apply sect_mask].
Qed.

Lemma partial_wrappers : forall n f g x a b (args : list val),
  (run (S n) (FPartialApp1 f x) [a] = run n f [x; a] /\
   run1 (S n) (FPartialApp1 f x) a = run n f [x; a]) /\
  (run (S n) (FPartialApp2 f x) [a] = run n f [a; x] /\
   run1 (S n) (FPartialApp2 f x) a = run n f [a; x]) /\
  (length args <> 1%nat ->
   run (S n) (FPartialApp1 f x) args = Err EArg /\
   run (S n) (FPartialApp2 f x) args = Err EArg) /\
  run (S n) (FPartialAppLast f x) args = run n f (args ++ [x]) /\
  run (S n) (FFlip f) [a; b] = run n f [b; a] /\
  (run (S n) (FFlip f) [a] = Ok (VFunc (FPartialApp1 f a)) /\
   (forall h, run (S n) (FFlip f) [a] = Ok (VFunc h) -> run (S n) h [b] = run n f [a; b])) /\
  (length args <> 1%nat -> length args <> 2%nat -> run (S n) (FFlip f) args = Err EArg) /\
  run (S n) (FComposition f g) args = bind (run n g args) (fun r => run n f [r]).
Proof.
  intros. split; [apply partial_app1|]. split; [apply partial_app2|].
  split; [apply partial_app_arity|]. split; [apply partial_app_last|].
  split; [apply flip_two|]. split; [apply flip_one|]. split; [apply flip_arity|].
  apply composition.
Qed.

End Proofs.

(* ------------------------------------------------------------ the premise of right_section is needed *)
(* "whenever f(a, b) succeeds and f(b) is a function, f(b)(a) = f(a, b)" is FALSE without the
   premise that the one-argument result is the section of f: a variadic combinator (a builtin
   that returns a function built from however many arguments it gets, like *** &&& equals in
   /repo/src/lib.rs) is a counterexample.  Here: comb(args) = the function \... -> args. *)
Definition comb_brun (b : unit) (args : list (val unit unit nat)) : outcome (val unit unit nat) :=
  Ok (VFunc (FListSection (map (@SVal unit unit nat) args))).
Definition comb_crun (c : unit) (args : list (val unit unit nat)) : outcome (val unit unit nat) := Err EArg.
Definition comb_diter (d : nat) : outcome (list (val unit unit nat)) := Err EType.

Lemma right_section_refuted :
  exists (f : func unit unit nat) (a b : val unit unit nat) (g : func unit unit nat),
    (forall n, run comb_brun comb_crun comb_diter (S n) f [b] = Ok (VFunc g)) /\
    g <> FPartialApp2 f b /\ g <> FPartialAppLast f b /\
    (forall n, is_ok (run comb_brun comb_crun comb_diter (S n) f [a; b]) = true) /\
    (forall n m, eval comb_brun comb_crun comb_diter (S (S n)) (form_curried f a b) <>
                 run comb_brun comb_crun comb_diter (S m) f [a; b]).
Proof.
  exists (FBuiltin tt), (VData 1%nat), (VData 2%nat), (FListSection [SVal (VData 2%nat)]).
  repeat split; try reflexivity; try discriminate.
Qed.
