(* C09 - Dictionaries are finite maps keyed by value equality.
   Only statements here; every proof is `exact <lemma>` into Dict/*_proofs.v.

   key_eq      = Eq for ObjKey (total_eq_of_keys);  key_hash H = the sequence of Hasher writes of Hash for ObjKey,
                 H being the inner per-entry hasher of nested dictionaries (any function);
   wf_key      = what the representations guarantee: BigRational in lowest terms, float bit fields in range,
                 nested dictionaries with pairwise unequal keys (the HashMap invariant);
   hm_slot h   = "a HashMap finds stored key k' for probe k iff they are in the same bucket (equal write sequences
                 under h) and Eq";  slot key_eq = the specification: a finite map on ==-classes. *)
From Coq Require Import ZArith NArith QArith List Bool Permutation.
From NV Require Import Common.Outcome Dict.KeyEq Dict.KeyHash Dict.DictMap
  Dict.Num_proofs Dict.KeyEq_proofs Dict.DictMap_proofs Dict.Bucket_proofs.
Import ListNotations.

(* == on keys is an equivalence relation (NaN equal to itself), at every nesting depth *)
Theorem C09_key_eq_equivalence :
  (forall a, wf_key a -> key_eq a a = true) /\
  (forall a b, wf_key a -> wf_key b -> key_eq a b = true -> key_eq b a = true) /\
  (forall a b c, wf_key a -> wf_key b -> wf_key c -> key_eq a b = true -> key_eq b c = true -> key_eq a c = true).
Proof. exact (conj key_eq_refl (conj key_eq_sym key_eq_trans)). Qed.
Print Assumptions C09_key_eq_equivalence.

(* Eq for ObjKey exactly as written (its nested-dictionary arm uses the hashed lookup b.get(k)) is key_eq *)
Theorem C09_eq_as_written_is_key_eq : forall (H : list token -> N) (a b : key),
  wf_key a -> wf_key b -> key_eq_hm (key_hash H) a b = key_eq a b.
Proof. exact key_eq_hm_is_key_eq. Qed.
Print Assumptions C09_eq_as_written_is_key_eq.

(* numbers of any level are equal as keys exactly when they have the same exact value (real and imaginary part:
   an infinity or a rational in lowest terms), all NaN-containing numbers forming one class *)
Theorem C09_numeric_equality_is_exact_value : forall a b : num,
  num_total_eq a b = true <-> ncls_of a = ncls_of b.
Proof. exact num_total_eq_cls. Qed.
Print Assumptions C09_numeric_equality_is_exact_value.

(* equal keys make the same sequence of Hasher writes, whatever the inner hasher: they select the same bucket *)
Theorem C09_hash_coherent : forall (H : list token -> N) (a b : key),
  wf_key a -> wf_key b -> key_eq a b = true -> key_hash H a = key_hash H b.
Proof. exact hash_coherent. Qed.
Print Assumptions C09_hash_coherent.

(* finding F5: the hash before repair 8f04d9f was not coherent (2 vs 4/2, 1/2 vs 0.5, 1 vs 1+0i, NaN vs NaN+1i) *)
Theorem C09_old_hash_refuted :
  (num_total_eq (NInt 2) (NRat (2 # 1)) = true /\ old_hash_num (NInt 2) <> old_hash_num (NRat (2 # 1))) /\
  (num_total_eq (NRat (1 # 2)) (NFloat f_half) = true /\ old_hash_num (NRat (1 # 2)) <> old_hash_num (NFloat f_half)) /\
  (num_total_eq (NInt 1) (NComplex f_one f64_zero) = true /\ old_hash_num (NInt 1) <> old_hash_num (NComplex f_one f64_zero)) /\
  (num_total_eq (NFloat f_nan) (NComplex f_nan f_one) = true /\ old_hash_num (NFloat f_nan) <> old_hash_num (NComplex f_nan f_one)).
Proof. exact old_hash_num_refuted. Qed.
Print Assumptions C09_old_hash_refuted.

(* the hash of a dictionary used as a key does not depend on the order of its entries *)
Theorem C09_nested_dict_hash_order_independent : forall (H : list token -> N) (d d' : list (key * key)),
  Permutation d d' -> key_hash H (KDict d) = key_hash H (KDict d').
Proof. exact dict_hash_order_independent. Qed.
Print Assumptions C09_nested_dict_hash_order_independent.

(* every history of dictionary operations (d[k], !?, in, len, d[k] = v, d[k] += v with and without default, remove,
   |., -., insert/|.., ||, ||+, &&, --, == ; literals and dict() are from_pairs) gives the same observations and the same
   final dictionary on the hash-bucket model as on the finite map keyed by ==-classes *)
Theorem C09_dict_refines_map : forall (H : list token -> N) (V : Type) (vnull : V) (vadd : V -> V -> outcome V)
    (veq : V -> V -> bool) (d : dict V) (ops : list (op V)),
  wf_store (fst d) -> Forall wf_op ops ->
  run vnull vadd veq (hm_slot (key_hash H)) d ops = run vnull vadd veq key_eq d ops.
Proof. exact dict_refines_map. Qed.
Print Assumptions C09_dict_refines_map.

(* the same for ANY hash function that is coherent with ==, with no condition on the keys *)
Theorem C09_dict_refines_map_under_coherence : forall (hash : key -> list token),
  (forall a b, key_eq a b = true -> hash a = hash b) ->
  forall (V : Type) (vnull : V) (vadd : V -> V -> outcome V) (veq : V -> V -> bool) (d : dict V) (ops : list (op V)),
  run vnull vadd veq (hm_slot hash) d ops = run vnull vadd veq key_eq d ops.
Proof. exact dict_refines_map_coherent. Qed.
Print Assumptions C09_dict_refines_map_under_coherence.

(* unique, set, count_distinct, frequencies, group_all *)
Theorem C09_lib_refines_map : forall (H : list token -> N) (l : list key), Forall wf_key l ->
  let slot := hm_slot (key_hash H) in
  uniqued slot l = uniqued key_eq l /\
  set_of slot l = set_of key_eq l /\
  count_distinct slot l = count_distinct key_eq l /\
  frequencies slot l = frequencies key_eq l /\
  group_all slot (fun k => k) l = group_all key_eq (fun k => k) l.
Proof. exact lib_refines_map. Qed.
Print Assumptions C09_lib_refines_map.

(* set(x), for every iterable x (for a dictionary: over its keys, whatever its values and default): a dictionary without
   default whose values are all null and whose keys are items of x; bucket model = specification *)
Theorem C09_set_is_all_null_without_default : forall (slot : key -> key -> bool) (V : Type) (vnull : V) (l : list key),
  snd (set_dict slot vnull l) = None /\
  (forall k v, In (k, v) (fst (set_dict slot vnull l)) -> v = vnull) /\
  (forall k v, In (k, v) (fst (set_dict slot vnull l)) -> In k l).
Proof. exact set_dict_all_null. Qed.
Print Assumptions C09_set_is_all_null_without_default.

Theorem C09_set_refines_map : forall (H : list token -> N) (V : Type) (vnull : V) (l : list key), Forall wf_key l ->
  set_dict (hm_slot (key_hash H)) vnull l = set_dict key_eq vnull l.
Proof. exact set_dict_refines. Qed.
Print Assumptions C09_set_refines_map.

(* memoize: a call whose arguments are == to those of an earlier call returns the stored result *)
Theorem C09_memo_refines_map : forall (H : list token -> N) (R : Type) (f : list key -> R) (calls : list (list key)),
  (forall args, In args calls -> Forall wf_key args) ->
  memo_calls (hm_slot (key_hash H)) f calls [] = memo_calls key_eq f calls [].
Proof. exact memo_refines_map. Qed.
Print Assumptions C09_memo_refines_map.

(* two keys that compare equal address the same entry: reads and removals coincide; a write through either changes the
   same entry (which keeps its stored key); only a write of a new key stores the representative it was given *)
Theorem C09_equal_keys_same_entry : forall (H : list token -> N) (V : Type) (s : store V) (k1 k2 : key),
  wf_store s -> wf_key k1 -> wf_key k2 -> key_eq k1 k2 = true ->
  let slot := hm_slot (key_hash H) in
  sfind slot k1 s = sfind slot k2 s /\
  sremove slot k1 s = sremove slot k2 s /\
  (forall v, smem slot k1 s = true -> sset slot k1 v s = sset slot k2 v s) /\
  (forall v, smem slot k1 s = false -> sset slot k1 v s = s ++ [(k1, v)] /\ sset slot k2 v s = s ++ [(k2, v)]).
Proof. exact equal_keys_same_entry. Qed.
Print Assumptions C09_equal_keys_same_entry.

(* keys that compare unequal never collide, whatever the hash function: writing or removing one leaves the entry found
   for the other untouched *)
Theorem C09_unequal_keys_never_collide : forall (hash : key -> list token) (V : Type) (s : store V) (k1 k2 : key) (v : V),
  wf_store s -> wf_key k1 -> wf_key k2 -> key_eq k1 k2 = false ->
  let slot := hm_slot hash in
  sfind slot k2 (sset slot k1 v s) = sfind slot k2 s /\
  sfind slot k2 (sremove slot k1 s) = sfind slot k2 s.
Proof. exact unequal_keys_never_collide. Qed.
Print Assumptions C09_unequal_keys_never_collide.

(* the specification really is a finite map on ==-classes: a read after a write through an equal key sees the value;
   the size grows exactly when the key is new; after a removal the class is absent *)
Theorem C09_map_laws : forall (V : Type) (s : store V) (k k' : key) (v : V),
  wf_store s -> wf_key k -> wf_key k' -> key_eq k k' = true ->
  sget key_eq k' (sset key_eq k v s) = Some v /\
  length (sset key_eq k v s) = (if smem key_eq k s then length s else S (length s)) /\
  (nodupk key_eq s -> sget key_eq k' (sremove key_eq k s) = None).
Proof.
  intros V s k k' v Hs Hk Hk' He.
  exact (conj (sget_sset_same s k k' v Hs Hk Hk' He)
              (conj (sset_length s k v) (fun Hn => sget_sremove_same s k k' Hs Hk Hk' Hn He))).
Qed.
Print Assumptions C09_map_laws.

(* every history keeps the stored keys valid and pairwise unequal (one entry per ==-class) *)
Theorem C09_history_keeps_one_entry_per_class : forall (V : Type) (vnull : V) (vadd : V -> V -> outcome V)
    (veq : V -> V -> bool) (ops : list (op V)) (d : dict V),
  (wf_store (fst d) /\ nodupk key_eq (fst d)) -> Forall wf_op ops ->
  let s' := fst (snd (run vnull vadd veq key_eq d ops)) in wf_store s' /\ nodupk key_eq s'.
Proof. exact run_inv. Qed.
Print Assumptions C09_history_keeps_one_entry_per_class.

(* the literal bucket structure (buckets labelled by Hasher write sequences, Eq inside a bucket; bwf: every entry sits
   in the bucket of its own write sequence and labels are distinct) is the slot model, for any hash function: a lookup is
   the slot lookup over its entries; insert and remove keep it well formed and change the entries as the slot model does *)
Theorem C09_bucket_structure_is_slot_model : forall (hash : key -> list token) (V : Type) (m : bmap V) (k : key) (v : V),
  bwf hash m ->
  bfind hash k m = sfind (hm_slot hash) k (bentries m) /\
  (bwf hash (bset hash k v m) /\ Permutation (bentries (bset hash k v m)) (sset (hm_slot hash) k v (bentries m))) /\
  (bwf hash (bremove hash k m) /\ Permutation (bentries (bremove hash k m)) (sremove (hm_slot hash) k (bentries m))).
Proof.
  intros hash V m k v Hw.
  exact (conj (bfind_is_sfind hash m k Hw)
          (conj (conj (bwf_bset hash m k v Hw) (bentries_bset hash m k v Hw))
                (conj (bwf_bremove hash m k Hw) (bentries_bremove hash m k Hw)))).
Qed.
Print Assumptions C09_bucket_structure_is_slot_model.

(* non-vacuity: the hypotheses are met by ordinary keys of different numeric levels, nested, and the functions compute *)
Example C09_nonvacuous :
  let k1 := KList [KNum (NInt 1); KDict [(KNum (NRat (1 # 2)), KNum (NInt (2 ^ 64)))]] in
  let k2 := KList [KNum (NComplex f_one f64_zero); KDict [(KNum (NFloat f_half), KNum (NFloat f_2p64))]] in
  wf_key k1 /\ wf_key k2 /\ key_eq k1 k2 = true /\ k1 <> k2 /\
  key_hash_real k1 = key_hash_real k2 /\
  key_eq k1 (KList [KNum (NInt 1); KDict []]) = false /\
  fst (run None zadd zeq (hm_slot key_hash_real) ([], None) [OSet k1 (Some 5%Z); OGet k2; OLen]) = [ODone; OVal (Some 5%Z); ONat 1].
Proof.
  cbv zeta. repeat split; try (vm_compute; reflexivity); try discriminate; try exact I;
    try (intros ? ? []); try (vm_compute; intuition discriminate).
Qed.
