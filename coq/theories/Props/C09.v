(* C09 - placeholder while the proofs are being built *)
From Coq Require Import ZArith NArith QArith List Bool.
From NV Require Import Common.Outcome Dict.KeyEq Dict.KeyHash Dict.DictMap.
Import ListNotations.

Theorem C09_placeholder : key_eq KNull KNull = true.
Proof. reflexivity. Qed.
Print Assumptions C09_placeholder.
