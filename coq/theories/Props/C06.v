(* C06 - Integer arithmetic is exact at every magnitude and in either representation.
   Only statements here; every proof is `exact <lemma>` into Num/NInt_proofs.v and
   Num/NIntPrime_proofs.v.  `nint := Small z | Big z` is the Rust enum NInt, `val` the integer
   it denotes, `ok` the invariant "a Small holds an i64" (Big is NOT normalised: Big 3 is legal).
   The right-hand sides mention only `val`, so every statement is also independence from the
   representation of the operands and of the result. *)
From Coq Require Import ZArith List Bool Lia Znumtheory Sorted.
From NV Require Import Common.Outcome Common.MachineInt Num.NInt Num.NIntSpec Num.NInt_proofs Num.NIntPrime_proofs Num.NIntFactor_proofs.
Import ListNotations.
Open Scope Z_scope.

(* ---- NInt operators (src/nint.rs): checked i64 fast path, BigInt fallback ---- *)
Theorem C06_add_exact : forall a b, ok a -> ok b -> ok (add a b) /\ val (add a b) = val a + val b.
Proof. exact add_exact. Qed.
Print Assumptions C06_add_exact.

Theorem C06_sub_exact : forall a b, ok a -> ok b -> ok (sub a b) /\ val (sub a b) = val a - val b.
Proof. exact sub_exact. Qed.
Print Assumptions C06_sub_exact.

Theorem C06_mul_exact : forall a b, ok a -> ok b -> ok (mul a b) /\ val (mul a b) = val a * val b.
Proof. exact mul_exact. Qed.
Print Assumptions C06_mul_exact.

(* NInt `/` and `%` truncate; they panic exactly on a zero divisor (BigInt's panic) *)
Theorem C06_div_trunc_exact : forall a b, ok a -> ok b ->
  (val b <> 0 -> exists r, div a b = Ok r /\ ok r /\ val r = Z.quot (val a) (val b)) /\
  (val b = 0 -> div a b = Panic).
Proof. exact div_exact. Qed.
Print Assumptions C06_div_trunc_exact.

Theorem C06_rem_trunc_exact : forall a b, ok a -> ok b ->
  (val b <> 0 -> exists r, rem a b = Ok r /\ ok r /\ val r = Z.rem (val a) (val b)) /\
  (val b = 0 -> rem a b = Panic).
Proof. exact rem_exact. Qed.
Print Assumptions C06_rem_trunc_exact.

(* bit operators: the 64-bit machine operation on two Smalls IS the infinite two's-complement one *)
Theorem C06_and_exact : forall a b, ok a -> ok b -> ok (bitand a b) /\ val (bitand a b) = Z.land (val a) (val b).
Proof. exact bitand_exact. Qed.
Print Assumptions C06_and_exact.

Theorem C06_or_exact : forall a b, ok a -> ok b -> ok (bitor a b) /\ val (bitor a b) = Z.lor (val a) (val b).
Proof. exact bitor_exact. Qed.
Print Assumptions C06_or_exact.

Theorem C06_xor_exact : forall a b, ok a -> ok b -> ok (bitxor a b) /\ val (bitxor a b) = Z.lxor (val a) (val b).
Proof. exact bitxor_exact. Qed.
Print Assumptions C06_xor_exact.

Theorem C06_not_exact : forall a, ok a -> ok (not a) /\ val (not a) = Z.lnot (val a) /\ Z.lnot (val a) = - val a - 1.
Proof. intros a H. destruct (not_exact a H) as [H1 H2]. split; [exact H1|]. split; [exact H2|apply lnot_eq]. Qed.
Print Assumptions C06_not_exact.

Theorem C06_neg_exact : forall a, ok a -> ok (neg a) /\ val (neg a) = - val a.
Proof. exact neg_exact. Qed.
Print Assumptions C06_neg_exact.

Theorem C06_abs_exact : forall a, ok a -> ok (abs a) /\ val (abs a) = Z.abs (val a).
Proof. exact abs_exact. Qed.
Print Assumptions C06_abs_exact.

(* true of the repaired code only: before the fix signum (Big (2^64)) was Small (-1) *)
Theorem C06_signum_exact : forall a, ok a -> ok (signum a) /\ val (signum a) = Z.sgn (val a).
Proof. exact signum_exact. Qed.
Print Assumptions C06_signum_exact.

Theorem C06_shl_exact : forall a k, 0 <= k -> ok (shl a k) /\ val (shl a k) = val a * 2 ^ k.
Proof. exact shl_exact. Qed.
Print Assumptions C06_shl_exact.

Theorem C06_shr_exact : forall a k, 0 <= k -> ok (shr a k) /\ val (shr a k) = val a / 2 ^ k.
Proof. exact shr_exact. Qed.
Print Assumptions C06_shr_exact.

Theorem C06_pow_exact : forall a b, ok a -> ok b ->
  fst (pow_maybe_recip a b) = (val b <? 0) /\ ok (snd (pow_maybe_recip a b)) /\
  val (snd (pow_maybe_recip a b)) = val a ^ Z.abs (val b).
Proof. exact pow_maybe_recip_exact. Qed.
Print Assumptions C06_pow_exact.

Theorem C06_gcd_lcm_exact : forall a b,
  ok (gcd a b) /\ val (gcd a b) = Z.gcd (val a) (val b) /\ ok (lcm a b) /\ val (lcm a b) = Z.lcm (val a) (val b).
Proof. intros a b. destruct (gcd_exact a b), (lcm_exact a b). auto. Qed.
Print Assumptions C06_gcd_lcm_exact.

(* equality, ordering and the hasher stream ignore the representation *)
Theorem C06_eq_repr_indep : forall a b, ok a -> ok b -> eqb a b = (val a =? val b).
Proof. exact eqb_exact. Qed.
Print Assumptions C06_eq_repr_indep.

Theorem C06_cmp_repr_indep : forall a b, cmp a b = (val a ?= val b).
Proof. exact cmp_exact. Qed.
Print Assumptions C06_cmp_repr_indep.

Theorem C06_hash_repr_indep : forall a b, ok a -> ok b -> (hash a = hash b <-> val a = val b).
Proof. intros a b Ha Hb. split; [apply hash_injective|apply hash_repr_indep]; assumption. Qed.
Print Assumptions C06_hash_repr_indep.

(* ---- the builtins (src/lib.rs over src/nnum.rs): model = specification on Z ---- *)
Theorem C06_builtin_add : forall a b, ok a -> ok b -> denote (bi_add a b) = spec_add (val a) (val b).
Proof. exact bi_add_spec. Qed.
Print Assumptions C06_builtin_add.
Theorem C06_builtin_sub : forall a b, ok a -> ok b -> denote (bi_sub a b) = spec_sub (val a) (val b).
Proof. exact bi_sub_spec. Qed.
Print Assumptions C06_builtin_sub.
Theorem C06_builtin_mul : forall a b, ok a -> ok b -> denote (bi_mul a b) = spec_mul (val a) (val b).
Proof. exact bi_mul_spec. Qed.
Print Assumptions C06_builtin_mul.
(* `%`: true of the repaired code only (before the fix bi_rem a (Small 0) was Panic) *)
Theorem C06_builtin_rem : forall a b, ok a -> ok b -> denote (bi_rem a b) = spec_rem (val a) (val b).
Proof. exact bi_rem_spec. Qed.
Print Assumptions C06_builtin_rem.
Theorem C06_builtin_div_floor : forall a b, denote (bi_div_floor a b) = spec_div_floor (val a) (val b).
Proof. exact bi_div_floor_spec. Qed.
Print Assumptions C06_builtin_div_floor.
Theorem C06_builtin_mod_floor : forall a b, denote (bi_mod_floor a b) = spec_mod_floor (val a) (val b).
Proof. exact bi_mod_floor_spec. Qed.
Print Assumptions C06_builtin_mod_floor.
Theorem C06_builtin_div_exact : forall a b, denote (bi_div_exact a b) = spec_div_exact (val a) (val b).
Proof. exact bi_div_exact_spec. Qed.
Print Assumptions C06_builtin_div_exact.
Theorem C06_builtin_pow : forall a b, ok a -> ok b -> denote (bi_pow a b) = spec_pow (val a) (val b).
Proof. exact bi_pow_spec. Qed.
Print Assumptions C06_builtin_pow.
Theorem C06_builtin_and : forall a b, ok a -> ok b -> denote (bi_and a b) = spec_and (val a) (val b).
Proof. exact bi_and_spec. Qed.
Print Assumptions C06_builtin_and.
Theorem C06_builtin_or : forall a b, ok a -> ok b -> denote (bi_or a b) = spec_or (val a) (val b).
Proof. exact bi_or_spec. Qed.
Print Assumptions C06_builtin_or.
Theorem C06_builtin_xor : forall a b, ok a -> ok b -> denote (bi_xor a b) = spec_xor (val a) (val b).
Proof. exact bi_xor_spec. Qed.
Print Assumptions C06_builtin_xor.
Theorem C06_builtin_shl : forall a b, ok b -> denote (bi_shl a b) = spec_shl (val a) (val b).
Proof. exact bi_shl_spec. Qed.
Print Assumptions C06_builtin_shl.
Theorem C06_builtin_shr : forall a b, ok b -> denote (bi_shr a b) = spec_shr (val a) (val b).
Proof. exact bi_shr_spec. Qed.
Print Assumptions C06_builtin_shr.
Theorem C06_builtin_gcd_lcm : forall a b,
  denote (bi_gcd a b) = spec_gcd (val a) (val b) /\ denote (bi_lcm a b) = spec_lcm (val a) (val b).
Proof. intros a b. split; [apply bi_gcd_spec|apply bi_lcm_spec]. Qed.
Print Assumptions C06_builtin_gcd_lcm.
Theorem C06_builtin_unary : forall a, ok a ->
  denote (bi_neg a) = spec_neg (val a) /\ denote (bi_not a) = spec_not (val a) /\
  denote (bi_abs a) = spec_abs (val a) /\ denote (bi_signum a) = spec_signum (val a) /\
  denote (bi_even a) = spec_even (val a) /\ denote (bi_odd a) = spec_odd (val a).
Proof.
  intros a H. repeat split; [apply bi_neg_spec|apply bi_not_spec|apply bi_abs_spec|apply bi_signum_spec|apply bi_even_spec|apply bi_odd_spec]; assumption.
Qed.
Print Assumptions C06_builtin_unary.

(* `//` floors, `%%` has the divisor's sign, and together they rebuild the dividend *)
Theorem C06_floor_mod_identity : forall a b, val b <> 0 ->
  exists q r, bi_div_floor a b = Ok (NI q) /\ bi_mod_floor a b = Ok (NI r) /\
    val q = val a / val b /\ val r = val a mod val b /\
    val q * val b + val r = val a /\
    (0 < val b -> 0 <= val r < val b) /\ (val b < 0 -> val b < val r <= 0).
Proof. exact floor_mod_identity. Qed.
Print Assumptions C06_floor_mod_identity.

(* `%` truncates: remainder with the dividend's sign, smaller than the divisor in magnitude *)
Theorem C06_rem_dividend_sign : forall a b, ok a -> ok b -> val b <> 0 ->
  exists r, bi_rem a b = Ok (NI r) /\ ok r /\ val r = Z.rem (val a) (val b) /\
    val a = val b * Z.quot (val a) (val b) + val r /\ Z.abs (val r) < Z.abs (val b) /\
    (0 <= val a -> 0 <= val r) /\ (val a <= 0 -> val r <= 0).
Proof. exact rem_trunc_spec. Qed.
Print Assumptions C06_rem_dividend_sign.

Theorem C06_zero_divisor_is_error : forall a b, val b = 0 ->
  bi_rem a b = Err EValue /\ bi_div_floor a b = Err EValue /\
  bi_mod_floor a b = Err EValue /\ bi_div_exact a b = Err EValue.
Proof. exact zero_divisor_is_error. Qed.
Print Assumptions C06_zero_divisor_is_error.

Theorem C06_div_exact_spec : forall a b, val b <> 0 ->
  ((val b | val a) -> exists q, bi_div_exact a b = Ok (NI q) /\ val q * val b = val a) /\
  (~ (val b | val a) -> bi_div_exact a b = Err EValue).
Proof. exact div_exact_spec. Qed.
Print Assumptions C06_div_exact_spec.

Theorem C06_builtins_no_panic : forall a b, ok a -> ok b ->
  bi_add a b <> Panic /\ bi_sub a b <> Panic /\ bi_mul a b <> Panic /\ bi_rem a b <> Panic /\
  bi_div_floor a b <> Panic /\ bi_mod_floor a b <> Panic /\ bi_div_exact a b <> Panic /\ bi_pow a b <> Panic /\
  bi_and a b <> Panic /\ bi_or a b <> Panic /\ bi_xor a b <> Panic /\ bi_shl a b <> Panic /\ bi_shr a b <> Panic /\
  bi_gcd a b <> Panic /\ bi_lcm a b <> Panic /\ bi_neg a <> Panic /\ bi_not a <> Panic /\ bi_abs a <> Panic /\
  bi_signum a <> Panic /\ bi_even a <> Panic /\ bi_odd a <> Panic.
Proof. exact builtins_no_panic. Qed.
Print Assumptions C06_builtins_no_panic.

Theorem C06_builtins_keep_invariant : forall a b, ok a -> ok b ->
  num_ok (bi_add a b) /\ num_ok (bi_sub a b) /\ num_ok (bi_mul a b) /\ num_ok (bi_rem a b) /\
  num_ok (bi_div_floor a b) /\ num_ok (bi_mod_floor a b) /\ num_ok (bi_div_exact a b) /\ num_ok (bi_pow a b) /\
  num_ok (bi_and a b) /\ num_ok (bi_or a b) /\ num_ok (bi_xor a b) /\ num_ok (bi_shl a b) /\ num_ok (bi_shr a b) /\
  num_ok (bi_gcd a b) /\ num_ok (bi_lcm a b) /\ num_ok (bi_neg a) /\ num_ok (bi_not a) /\ num_ok (bi_abs a) /\
  num_ok (bi_signum a) /\ num_ok (bi_even a) /\ num_ok (bi_odd a).
Proof. exact builtins_keep_invariant. Qed.
Print Assumptions C06_builtins_keep_invariant.

(* ---- lazy_is_prime decides primality (Znumtheory.prime), for every integer and any fuel ---- *)
Theorem C06_is_prime_correct : forall fuel n b, ok n ->
  lazy_is_prime fuel n = Ok b -> (b = true <-> prime (val n)).
Proof. exact lazy_is_prime_correct. Qed.
Print Assumptions C06_is_prime_correct.

Theorem C06_is_prime_total : forall n, ok n ->
  exists b, lazy_is_prime (prime_fuel n) n = Ok b /\ (b = true <-> prime (val n)).
Proof. exact lazy_is_prime_total. Qed.
Print Assumptions C06_is_prime_total.

Theorem C06_is_prime_no_panic : forall fuel n, ok n -> lazy_is_prime fuel n <> Panic.
Proof. exact lazy_is_prime_no_panic. Qed.
Print Assumptions C06_is_prime_no_panic.

(* ---- lazy_factorize: the listed prime powers multiply back to the argument (sign as a leading
   (-1, 1)), every other base is prime, every exponent positive; factorize 0 = [] ---- *)
Theorem C06_factorize_correct : forall fuel a l, lazy_factorize fuel a = Ok l ->
  (a = 0 -> l = []) /\ (a <> 0 -> fprod l = a /\ Forall good_factor l).
Proof. exact lazy_factorize_correct. Qed.
Print Assumptions C06_factorize_correct.

Theorem C06_factorize_total : forall a, exists l, lazy_factorize (fact_fuel a) a = Ok l /\
  (a = 0 -> l = []) /\ (a <> 0 -> fprod l = a /\ Forall good_factor l).
Proof. exact lazy_factorize_total. Qed.
Print Assumptions C06_factorize_total.

(* the bases come out in strictly increasing order: -1 (if any), then the primes *)
Theorem C06_factorize_increasing : forall fuel a l, lazy_factorize fuel a = Ok l ->
  StronglySorted (fun x y => fst x < fst y) l.
Proof. exact lazy_factorize_increasing. Qed.
Print Assumptions C06_factorize_increasing.

Theorem C06_factorize_no_panic : forall fuel a, lazy_factorize fuel a <> Panic.
Proof. exact lazy_factorize_no_panic. Qed.
Print Assumptions C06_factorize_no_panic.

(* non-vacuity: the hypotheses are met on both sides of the i64 boundary and in both
   representations, and the functions compute *)
Example C06_nonvacuous :
  ok (Small i64_max) /\ ok (Big 3) /\ ok (Big (2 ^ 64)) /\
  add (Small i64_max) (Small 1) = Big (2 ^ 63) /\
  sub (Big (2 ^ 64)) (Big (2 ^ 64)) = Big 0 /\
  mul (Small (2 ^ 32)) (Small (2 ^ 31)) = Big (2 ^ 63) /\
  rem (Small i64_min) (Small (-1)) = Ok (Big 0) /\
  bitand (Small (-1)) (Big (2 ^ 64 + 5)) = Big (2 ^ 64 + 5) /\
  bitxor (Small (-1)) (Small i64_max) = Small i64_min /\
  signum (Big (2 ^ 64)) = Small 1 /\ signum (Big (-3)) = Small (-1) /\
  bi_div_floor (Small (-7)) (Big 2) = Ok (NI (Big (-4))) /\ bi_mod_floor (Small (-7)) (Big 2) = Ok (NI (Big 1)) /\
  bi_rem (Small (-7)) (Big 2) = Ok (NI (Big (-1))) /\ bi_rem (Small 5) (Big 0) = Err EValue /\
  bi_shr (Small (-7)) (Big 1) = Ok (NI (Big (-4))) /\ bi_shl (Small 1) (Small (-1)) = Ok NNaN /\
  bi_pow (Small 2) (Small (-3)) = Ok (NRecip (Big 8)) /\
  eqb (Small 5) (Big 5) = true /\ cmp (Big (-2 ^ 64)) (Small i64_min) = Lt /\
  lazy_is_prime 100 (Big 10007) = Ok true /\ lazy_is_prime 100 (Small 10001) = Ok false /\
  lazy_factorize 10 (-360) = Ok [(-1, 1); (2, 3); (3, 2); (5, 1)] /\ fprod [(-1, 1); (2, 3); (3, 2); (5, 1)] = -360 /\
  prime 2.
Proof.
  unfold ok, in_i64, i64_min, i64_max.
  repeat match goal with |- _ /\ _ => split end; try exact I; try (vm_compute; reflexivity); try (cbn; lia); try exact prime_2.
  all: vm_compute; intuition discriminate.
Qed.
