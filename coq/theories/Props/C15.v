(* C15 - Lexing is total and number/string literals decode exactly.
   Only statements here; every proof is `exact <lemma>` into Text/*_proofs.v.
   U : uclass is the Unicode table parameter (is_alphabetic / is_numeric / is_uppercase for
   code points >= 128): every theorem holds for every such table.
   Inputs are lists of code points (N); a Rust &str is such a list of scalar values.
   Totality of the recursive-descent PARSER is not a theorem here (searched by the driver). *)
From Coq Require Import NArith ZArith List Bool Lia.
From NV Require Import Common.Outcome Text.Chars Text.LexLit Text.Lexer Text.FormatScan Text.LexSpec
  Text.LexBytesSpec Text.Chars_proofs Text.LexLit_proofs Text.Lexer_proofs Text.LexSpec_proofs Text.FormatScan_proofs
  Text.LexBytes_proofs Text.LexFloat_proofs Text.LexUnfold_proofs.
Import ListNotations.
Open Scope N_scope.

(* fuel S (length s) is never exhausted, for every input of any length *)
Theorem C15_lex_terminates : forall (U : uclass) (s : list N), lex U s <> OutOfFuel.
Proof. exact lex_terminates. Qed.
Print Assumptions C15_lex_terminates.

(* the reason: every iteration of the main loop that returns hands back a suffix no longer than
   what it was given (one character was already consumed), or panics; it never loops *)
Theorem C15_lex_iteration_consumes : forall (U : uclass) (c : N) (r : list N),
  match lex_one U c r with
  | Ok (_, rest) => (length rest <= length r)%nat
  | Panic => True
  | _ => False
  end.
Proof. exact lex_one_shrinks. Qed.
Print Assumptions C15_lex_iteration_consumes.

(* the fuel is an artefact: lex satisfies the fuel-free equation of the Rust loop (emit the tokens
   of one iteration, continue on what is left), and any fuel above the input length agrees *)
Theorem C15_lex_unfold : forall (U : uclass) (c : N) (r : list N),
  lex U (c :: r) = (x <- lex_one U c r ;; let '(toks, rest) := x in ts <- lex U rest ;; Ok (toks ++ ts)).
Proof. exact lex_unfold. Qed.
Print Assumptions C15_lex_unfold.

Theorem C15_lex_fuel_irrelevant : forall (U : uclass) (s : list N) (fuel : nat),
  (length s < fuel)%nat -> lex_loop U fuel s [] = lex U s.
Proof. exact lex_fuel_irrelevant. Qed.
Print Assumptions C15_lex_fuel_irrelevant.

(* no panic (and no error): lexing returns a token list.  The bound is the i32 depth counter
   of #( ... ) comments: inputs shorter than 2^31 characters cannot overflow it. *)
Theorem C15_lex_no_panic : forall (U : uclass) (s : list N),
  (Z.of_nat (length s) <= 2147483647)%Z -> lex U s <> Panic /\ exists toks, lex U s = Ok toks.
Proof. exact lex_no_panic_total. Qed.
Print Assumptions C15_lex_no_panic.

(* the string-literal loop on its own: for every quote and every input it returns (an optional
   Invalid token, the decoded string, the rest), never panics, never runs out of fuel *)
Theorem C15_string_lexer_total : forall (q : N) (s : list N),
  exists inv content rest, lex_string q s = Ok (inv, content, rest) /\ (length rest <= length s)%nat.
Proof. exact lex_string_ok. Qed.
Print Assumptions C15_string_lexer_total.

(* INTEGER LITERALS, digit direction: whatever digits are written (any case, leading zeros, no
   digit at all), the token is the value they spell in positional notation *)
Theorem C15_int_digits_spell : forall (U : uclass),
  (forall b (up : bool) cs ds rest, 2 <= b -> b <= 36 -> spells b cs ds -> stop_base b rest ->
     lex_first U (render_dec b ++ (if up then 82 else 114) :: cs ++ rest) = Ok ([TInt (positional b ds)], rest)) /\
  (forall (up : bool) cs ds rest, spells 16 cs ds -> stop_base 16 rest ->
     lex_first U (48 :: (if up then 88 else 120) :: cs ++ rest) = Ok ([TInt (positional 16 ds)], rest)) /\
  (forall (up : bool) cs ds rest, spells 2 cs ds -> stop_base 2 rest ->
     lex_first U (48 :: (if up then 66 else 98) :: cs ++ rest) = Ok ([TInt (positional 2 ds)], rest)) /\
  (forall (up : bool) cs ds rest, spells 8 cs ds -> stop_base 8 rest ->
     lex_first U (48 :: (if up then 79 else 111) :: cs ++ rest) = Ok ([TInt (positional 8 ds)], rest)) /\
  (forall (up : bool) cs ds rest, spells64 cs ds -> stop_b64 rest ->
     lex_first U (54 :: 52 :: (if up then 82 else 114) :: cs ++ rest) = Ok ([TInt (positional 64 ds)], rest)) /\
  (forall cs rest, cs <> [] -> forallb is_ascii_digit cs = true -> stops rest ->
     lex_first U (cs ++ rest) = Ok ([TInt (positional 10 (map (fun c => c - 48) cs))], rest)).
Proof. exact int_digits_spell. Qed.
Print Assumptions C15_int_digits_spell.

(* INTEGER LITERALS, value direction: every n rendered in every syntax lexes to exactly IntLit n,
   followed by the end of input or a delimiter *)
Theorem C15_int_literal_exact : forall (U : uclass) (syn : int_syntax) (n : N) (rest : list N),
  syntax_ok syn -> stops rest -> lex_first U (render_int syn n ++ rest) = Ok ([TInt n], rest).
Proof. exact int_literal_exact. Qed.
Print Assumptions C15_int_literal_exact.

Theorem C15_int_literal_exact_whole : forall (U : uclass) (syn : int_syntax) (n : N),
  syntax_ok syn -> lex U (render_int syn n) = Ok [TInt n].
Proof. exact int_literal_exact_whole. Qed.
Print Assumptions C15_int_literal_exact_whole.

(* the renderers really are positional notation: digits below the radix that sum back to n *)
Theorem C15_render_is_positional : forall (b n : N), 2 <= b ->
  positional b (digits_of b n) = n /\ Forall (fun d => d < b) (digits_of b n).
Proof. exact digits_of_spec. Qed.
Print Assumptions C15_render_is_positional.

Theorem C15_rat_literal_exact : forall (U : uclass) (up : bool) (n : N) (rest : list N),
  lex_first U (render_rat up n ++ rest) = Ok ([TRat n], rest).
Proof. exact rat_literal_exact. Qed.
Print Assumptions C15_rat_literal_exact.

(* the parser's i64-or-BigInt split of an integer token keeps its value *)
Theorem C15_int_token_value : forall n : N, int_expr_value (atom_int n) = Z.of_N n.
Proof. exact atom_int_value. Qed.
Print Assumptions C15_int_token_value.

(* STRINGS: every string of Unicode scalar values, each character written in any admissible
   style (itself, named escape, \xHH, \u with any of the four delimiter pairs), inside either
   quote, lexes to exactly that string *)
Theorem C15_escape_exact : forall (U : uclass) (q : N) (f : N -> style) (s rest : list N),
  quote_ok q -> forallb is_scalar s = true -> forallb (fun c => style_ok q (f c) c) s = true ->
  lex_first U (render_string q f s ++ rest) = Ok ([TStr s], rest).
Proof. exact string_literal_exact. Qed.
Print Assumptions C15_escape_exact.

(* each escape form, on arbitrary digits: the scalar the digits spell, or an error; never
   another character.  (u_decoded v rest = push v if v is a scalar value, else Invalid.) *)
Theorem C15_escape_forms : forall (q : N), q <> 92 ->
  (forall o cl cs ds rest, In (o, cl) delims -> spells 16 cs ds ->
     str_step q (92 :: 117 :: o :: cs ++ cl :: rest) = u_decoded (positional 16 ds) rest) /\
  (forall c d cs ds rest, spells 16 (c :: cs) (d :: ds) -> stop_base 16 rest ->
     str_step q (92 :: 117 :: (c :: cs) ++ rest) = u_decoded (positional 16 (d :: ds)) rest) /\
  (forall h1 h2 d1 d2 rest, to_digit h1 16 = Some d1 -> to_digit h2 16 = Some d2 ->
     str_step q (92 :: 120 :: h1 :: h2 :: rest) = SPush (d1 * 16 + d2) rest) /\
  (forall h1 rest, to_digit h1 16 = None ->
     str_step q (92 :: 120 :: h1 :: rest) = SExit (Some IBadHex) rest) /\
  (forall h1 d1 h2 rest, to_digit h1 16 = Some d1 -> to_digit h2 16 = None ->
     str_step q (92 :: 120 :: h1 :: h2 :: rest) = SExit (Some IBadHex) rest) /\
  (forall e rest, existsb (N.eqb e) [110; 114; 116; 48; 92; 39; 34; 120; 117] = false ->
     str_step q (92 :: e :: rest) = SExit (Some IUnknownEscape) rest).
Proof. exact escape_forms. Qed.
Print Assumptions C15_escape_forms.

(* FORMAT STRINGS: the brace scanner returns segments or an error for every body and every
   behaviour of the expression parser; neither the i32 level arithmetic nor the ghost
   non-negativity check of dec_level ever fires *)
Theorem C15_format_scanner_total : forall (U : uclass) (parse_expr : list token -> option bool) (s : list N),
  (Z.of_nat (length s) <= 2147483647)%Z -> exists r, parse_format_string U parse_expr s = Ok r.
Proof. exact format_scanner_total. Qed.
Print Assumptions C15_format_scanner_total.

(* BYTES literals: outside the known finding bytes-x-escape-utf8 (some character >= 0x80 written
   as \xHH) a bytes literal lexes to exactly the bytes it spells (\xHH = the byte HH, anything
   else = its UTF-8 encoding) *)
Theorem C15_bytes_literal_exact : forall (U : uclass) (q : N) (f : N -> style) (s rest : list N),
  quote_ok q -> forallb is_scalar s = true -> forallb (fun c => style_ok q (f c) c) s = true ->
  ~ known_bytes_x f s ->
  lex_first U (66 :: render_string q f s ++ rest) = Ok ([TBytes (spelled_bytes f s)], rest).
Proof. exact bytes_literal_exact. Qed.
Print Assumptions C15_bytes_literal_exact.

(* ... and inside it the statement is false of the code: the text B"\xff" spells [255] but lexes to [195; 191] *)
Theorem C15_bytes_literal_refuted : exists (f : N -> style) (s : list N),
  known_bytes_x f s /\ forallb is_scalar s = true /\ forallb (fun c => style_ok 34 (f c) c) s = true /\
  lex_first U_ascii (66 :: render_string 34 f s) = Ok ([TBytes [195; 191]], []) /\
  spelled_bytes f s = [255].
Proof. exact bytes_literal_refuted. Qed.
Print Assumptions C15_bytes_literal_refuted.

(* FLOAT / IMAGINARY literals: the text handed to str::parse::<f64> is exactly the literal's own
   digits (exponent marker normalised to e, sign - or + kept as written, suffix dropped); an exponent without digits is an
   Invalid token, never a number.  Text -> f64 itself is Rust's parser (not modelled). *)
Theorem C15_float_literal_text : forall (U : uclass) (ip fp : list N) (ex : option (bool * esign * list N)) (rest : list N),
  ip <> [] -> digits ip -> digits fp -> exp_ok ex -> stops rest ->
  lex_first U (ip ++ 46 :: fp ++ exp_src ex ++ rest) = Ok ([TFloat (ip ++ 46 :: fp ++ exp_acc ex)], rest).
Proof. exact float_literal_text. Qed.
Print Assumptions C15_float_literal_text.

Theorem C15_float_suffix_imag_text : forall (U : uclass) (ip : list N), ip <> [] -> digits ip ->
  (forall (up : bool) rest, lex_first U (ip ++ (if up then 70 else 102) :: rest) = Ok ([TFloat ip], rest)) /\
  (forall k rest, In k [105; 73; 106; 74] -> lex_first U (ip ++ k :: rest) = Ok ([TImag ip], rest)) /\
  (forall (up : bool) (sg : esign) rest, stops rest ->
     lex_first U (ip ++ (if up then 69 else 101) :: sign_text sg ++ rest) = Ok ([TInvalid IBadFloat], rest)).
Proof. exact float_suffix_imag_text. Qed.
Print Assumptions C15_float_suffix_imag_text.

(* <digits>e[sign]<digits> without a fraction, sign none, - or + (1e21, 1e-7, 1e+21 - the form JSON
   encoders print): the text handed on is the digits, e, the sign as written, the exponent digits *)
Theorem C15_float_exponent_text : forall (U : uclass) (ip : list N) (up : bool) (sg : esign) (e rest : list N),
  ip <> [] -> digits ip -> e <> [] -> digits e -> stops rest ->
  lex_first U (ip ++ (if up then 69 else 101) :: sign_text sg ++ e ++ rest) =
  Ok ([TFloat (ip ++ 101 :: sign_text sg ++ e)], rest).
Proof. exact float_exponent_text. Qed.
Print Assumptions C15_float_exponent_text.

(* non-vacuity: the theorems speak about real literals, and the hypotheses are satisfiable *)
Example C15_nonvacuous :
  lex U_ascii [51; 54; 114; 122; 90] = Ok [TInt 1295] /\                    (* 36rzZ *)
  render_int (SynRadix 36 false false) 1295 = [51; 54; 114; 122; 122] /\
  syntax_ok (SynRadix 36 false false) /\ stops [41] /\
  lex U_ascii (render_string 34 (fun c => if c =? 10 then StSimple else if c <? 128 then StRaw else StU (Some (123, 125))) [97; 10; 128009])
    = Ok [TStr [97; 10; 128009]] /\
  lex_string 34 [92; 117; 123; 49; 49; 48; 48; 48; 48; 48; 48; 48; 125; 34] = Ok (Some IUTooBig, [], []) /\
  u_digits_checked 0 [49; 49; 48; 48; 48; 48; 48; 48; 48; 125] = Panic /\   (* F13, as found *)
  (exists r, parse_format_string U_ascii accept_all [123; 120; 125; 125; 125] = Ok (inr r)) /\
  parse_format_string U_ascii accept_all [125] = Ok (inl FUnmatchedRight) /\
  lex U_ascii [49; 101; 43; 50; 49] = Ok [TFloat [49; 101; 43; 50; 49]] /\                 (* 1e+21 *)
  lex U_ascii [50; 46; 53; 69; 43; 51] = Ok [TFloat [50; 46; 53; 101; 43; 51]].          (* 2.5E+3 *)
Proof. repeat split; try reflexivity; try (cbn; lia). eexists; reflexivity. Qed.
