(* C03 - infix chains group by the operators' runtime precedence and associativity.
   Only statements; proofs are in Chain/Climb_proofs.v and Chain/Folds_proofs.v.
   F = operator values, P = precedences, V = operand values; `tighter` and `chain` are
   ARBITRARY oracles (tighter_than_when_before / try_chain), so NaN precedences and
   non-transitive ties are covered. *)
From Coq Require Import List Bool ZArith.
From NV Require Import Chain.ChainEval Chain.Climb Chain.Climb_proofs Chain.Folds_proofs Chain.Root_proofs Chain.ExpectedTable.
From NV Require Import Generated.BuiltinTable.
Import ListNotations.

(* the pending-operator stack computes precedence climbing, for every chain and every oracle *)
Theorem C03_chain_eval_climb : forall (F P V : Type) (tighter : P -> P -> bool) (chain : F -> F -> option F)
  (e0 : term F V) (ops : list (oper F P * term F V)),
  climb_spec tighter chain e0 ops = Some (eval_chain tighter chain e0 ops).
Proof. exact chain_eval_climb. Qed.
Print Assumptions C03_chain_eval_climb.

(* relational reading of the same fact *)
Theorem C03_chain_eval_climb_rel : forall (F P V : Type) (tighter : P -> P -> bool) (chain : F -> F -> option F)
  (e0 : term F V) (ops : list (oper F P * term F V)) (t : term F V),
  Climb tighter chain None e0 ops t [] -> eval_chain tighter chain e0 ops = t.
Proof. exact chain_eval_climb_rel. Qed.
Print Assumptions C03_chain_eval_climb_rel.

(* every operand and every operator occurs exactly once in the result, in source order, merged or not *)
Theorem C03_yield_in_order : forall (F P V : Type) (tighter : P -> P -> bool) (chain : F -> F -> option F)
  (e0 : term F V) (ops : list (oper F P * term F V)),
  inorder (eval_chain tighter chain e0 ops) = inorder e0 ++ flat ops.
Proof. exact yield_in_order. Qed.
Print Assumptions C03_yield_in_order.

(* an incoming operator: merged exactly when the top is tighter and chains; applied first when tighter
   and not chaining; otherwise it waits *)
Theorem C03_merge_exactly_when : forall (F P V : Type) (tighter : P -> P -> bool) (chain : F -> F -> option F)
  (p : pend F P V) (rest : list (pend F P V)) (rm : term F V) (o : oper F P) (x : term F V),
  give tighter chain (p :: rest) rm o x =
    if tighter (p_prec p) (o_prec o) then
      match chain (p_fn p) (o_fn o) with
      | Some g => (ext p rm o g :: rest, x)
      | None => give tighter chain rest (run_top p rm) o x
      end
    else (mk o rm :: p :: rest, x).
Proof. exact merge_exactly_when. Qed.
Print Assumptions C03_merge_exactly_when.

Theorem C03_fast_path_agrees : forall (F P V : Type) (tighter : P -> P -> bool) (chain : F -> F -> option F)
  (e0 : term F V) (o : oper F P) (x : term F V),
  eval_chain tighter chain e0 [(o, x)] = eval_chain_fast e0 o x.
Proof. exact fast_path_agrees. Qed.
Print Assumptions C03_fast_path_agrees.

Theorem C03_section_agrees : forall (F P V : Type) (tighter : P -> P -> bool) (chain : F -> F -> option F)
  (e0 : term F V) (ops : list (oper F P * term F V)),
  run_section tighter chain None (map (fun ox => (fst ox, None)) ops) (e0 :: map snd ops)
    = Some (eval_chain tighter chain e0 ops) /\
  run_section tighter chain (Some e0) (map (fun ox => (fst ox, Some (snd ox))) ops) []
    = Some (eval_chain tighter chain e0 ops).
Proof. exact section_agrees. Qed.
Print Assumptions C03_section_agrees.

(* at equal precedence the LEFT operator's associativity decides: left fold / right fold *)
Theorem C03_all_tighter_left_fold : forall (F P V : Type) (tighter : P -> P -> bool) (chain : F -> F -> option F)
  (e0 : term F V) (ops : list (oper F P * term F V)),
  no_chain chain ->
  (forall a b, In a (precs ops) -> In b (precs ops) -> tighter a b = true) ->
  eval_chain tighter chain e0 ops = left_fold e0 ops.
Proof. exact all_tighter_left_fold. Qed.
Print Assumptions C03_all_tighter_left_fold.

Theorem C03_none_tighter_right_fold : forall (F P V : Type) (tighter : P -> P -> bool) (chain : F -> F -> option F)
  (e0 : term F V) (ops : list (oper F P * term F V)),
  (forall a b, In a (precs ops) -> In b (precs ops) -> tighter a b = false) ->
  eval_chain tighter chain e0 ops = right_fold e0 ops.
Proof. exact none_tighter_right_fold. Qed.
Print Assumptions C03_none_tighter_right_fold.

Theorem C03_tighter_spec : forall (L : Type) (pcmp : L -> L -> option comparison) (a b : L * assoc),
  tighter_than_when_before pcmp a b = true <->
  pcmp (fst a) (fst b) = Some Gt \/
  (pcmp (fst a) (fst b) <> Some Gt /\ pcmp (fst a) (fst b) <> Some Lt /\ snd a = ALeft).
Proof. exact tighter_spec. Qed.
Print Assumptions C03_tighter_spec.

(* the declarative reading for ordinary precedences: a total preorder of levels (no NaN) with a
   per-operator associativity, no chaining.  The root of the result is an operator that every
   operator on its left binds tighter than ("tighter operators apply first; at equal precedence
   the LEFT operator's associativity decides") and that binds tighter than nothing on its right;
   its operands are the recursively grouped sub-chains. *)
Theorem C03_root_choice : forall (F L V : Type) (leb : L -> L -> bool),
  (forall a b, leb a b = true \/ leb b a = true) ->
  (forall a b c, leb a b = true -> leb b c = true -> leb a c = true) ->
  forall (ops : list (oper F (L * assoc) * term F V)) (e0 : term F V), ops <> [] ->
  exists pre o x post,
    ops = pre ++ (o, x) :: post /\
    eval_chain (tight leb) (@nochain F) e0 ops =
      App (o_fn o) [o_id o] [eval_chain (tight leb) (@nochain F) e0 pre; eval_chain (tight leb) (@nochain F) x post] /\
    (forall q, In q pre -> tight leb (o_prec (fst q)) (o_prec o) = true) /\
    (forall q, In q post -> tight leb (o_prec o) (o_prec (fst q)) = false).
Proof. exact root_choice. Qed.
Print Assumptions C03_root_choice.

(* finite, over data regenerated from the live implementation on every run: every documented
   chainable pair chains in the try_chain relation dumped from /repo's working tree *)
Theorem C03_documented_pairs_chain :
  forallb (chains_in chain_pairs) documented_pairs = true.
Proof. vm_compute. reflexivity. Qed.
Print Assumptions C03_documented_pairs_chain.

(* non-vacuity: a + b * c - d with the usual precedences, and a < b <= c merging *)
Example C03_nonvacuous :
  let op (name : nat) (r : Z) a := {| o_fn := name; o_prec := (Some r, a); o_id := name |} in
  let ch (f g : nat) := if Nat.ltb 9 f && Nat.ltb 9 g then Some f else None in
  eval_chain tighter_rank ch (Leaf 0) [(op 1 5%Z ALeft, Leaf 1); (op 2 6%Z ALeft, Leaf 2); (op 3 5%Z ALeft, Leaf 3)]
    = App 3 [3] [App 1 [1] [Leaf 0; App 2 [2] [Leaf 1; Leaf 2]]; Leaf 3] /\
  eval_chain tighter_rank ch (Leaf 0) [(op 10 3%Z ALeft, Leaf 1); (op 11 3%Z ALeft, Leaf 2)]
    = App 10 [10; 11] [Leaf 0; Leaf 1; Leaf 2] /\
  eval_chain tighter_rank ch (Leaf 0) [(op 1 7%Z ARight, Leaf 1); (op 2 7%Z ARight, Leaf 2)]
    = App 1 [1] [Leaf 0; App 2 [2] [Leaf 1; Leaf 2]].
Proof. vm_compute. repeat split. Qed.
