(* C14 - every failure is a catchable error, never a crash; try/catch contains it; after a caught
   error the interpreter is usable and variables not named by the failing statement keep their values.
   Only statements here; every proof is `exact <lemma>` into Lang/Contain_proofs.v (model: Lang/Contain.v,
   a transcription of the Try / While / Assign / OpAssign arms of evaluate() in src/eval.rs).
   `apply_op` is the meaning of the builtin operators and is universally quantified: the containment
   theorems hold whatever the builtins compute. `runs op st s r` = for some (hence every larger) fuel,
   statement st started in store s ends with result r. *)
From Coq Require Import ZArith List Bool.
From NV Require Import Common.Outcome Lang.Contain Lang.Contain_proofs Lang.HugeCount Lang.HugeCount_proofs.
From NV Require Import Common.MachineInt Seq.Index Seq.IndexSpec Seq.Index_proofs Props.C10.
Import ListNotations.

(* the result of a run does not depend on the fuel *)
Theorem C14_runs_deterministic : forall (apply_op : binop -> val -> val -> outcome val) st s r1 r2,
  runs apply_op st s r1 -> runs apply_op st s r2 -> r1 = r2.
Proof. exact @runs_deterministic. Qed.
Print Assumptions C14_runs_deterministic.

(* whatever raises Throw inside `try` - however deep in sequences, loops, ifs - reaches the catch clause,
   which runs with the thrown value bound to the catch variable; the catch variable's scope then ends *)
Theorem C14_try_contains_throw : forall (apply_op : binop -> val -> val -> outcome val) body c h s s1 v r,
  runs apply_op body s (Raise s1 (GThrow v)) ->
  runs apply_op h (upd s1 c v) r ->
  runs apply_op (STry body c h) s (scope_out c (s1 c) r).
Proof. exact @try_contains_throw. Qed.
Print Assumptions C14_try_contains_throw.

(* Ok, Break, Continue and Return pass through a try statement untouched *)
Theorem C14_try_passes_signals : forall (apply_op : binop -> val -> val -> outcome val) body c h s r,
  runs apply_op body s r -> is_throw r = false -> runs apply_op (STry body c h) s r.
Proof. exact @try_passes_signals. Qed.
Print Assumptions C14_try_passes_signals.

(* a Throw that leaves a try statement was raised by its catch clause, never by the body *)
Theorem C14_try_throw_comes_from_handler : forall (apply_op : binop -> val -> val -> outcome val) body c h s s' v',
  runs apply_op (STry body c h) s (Raise s' (GThrow v')) ->
  exists s1 v s2, runs apply_op body s (Raise s1 (GThrow v)) /\
                  runs apply_op h (upd s1 c v) (Raise s2 (GThrow v')) /\ s' = restore s2 c (s1 c).
Proof. exact @try_throw_comes_from_handler. Qed.
Print Assumptions C14_try_throw_comes_from_handler.

(* with a catch clause that cannot raise, no Throw leaves the try statement, whatever the body does *)
Theorem C14_try_quiet_handler_contains : forall (apply_op : binop -> val -> val -> outcome val) body c h s r,
  quiet h = true -> runs apply_op (STry body c h) s r -> is_throw r = false.
Proof. exact @try_quiet_handler_contains. Qed.
Print Assumptions C14_try_quiet_handler_contains.

(* after a statement raises (Throw, Break, Continue, Return), every variable NOT named by it has its previous value *)
Theorem C14_failed_statement_frames : forall (apply_op : binop -> val -> val -> outcome val) st s s' g,
  runs apply_op st s (Raise s' g) -> forall y, ~ In y (names st) -> s' y = s y.
Proof. exact @failed_statement_frames. Qed.
Print Assumptions C14_failed_statement_frames.

(* a failed assignment x[path] = e changes nothing at all, and what it raises is an error message *)
Theorem C14_failed_assign_no_effect : forall (apply_op : binop -> val -> val -> outcome val) x path e s s' g,
  runs apply_op (SAssign x path e) s (Raise s' g) -> s' = s /\ exists c, g = GThrow (VErr c).
Proof. exact @failed_assign_no_effect. Qed.
Print Assumptions C14_failed_assign_no_effect.

(* a failed op-assignment x[path] o= e changes nothing, or leaves exactly the named slot null *)
Theorem C14_failed_opassign_effect : forall (apply_op : binop -> val -> val -> outcome val) x path o e s s' g,
  runs apply_op (SOpAssign x path o e) s (Raise s' g) ->
  (exists c, g = GThrow (VErr c)) /\
  (s' = s \/
   exists idxs old dropped, eval_list apply_op s path = Ok idxs /\ s x = Some old /\
     set_path old idxs VNull = Ok dropped /\ s' = upd s x dropped).
Proof. exact @failed_opassign_effect. Qed.
Print Assumptions C14_failed_opassign_effect.

Theorem C14_failed_plain_opassign_null : forall (apply_op : binop -> val -> val -> outcome val) x o e s s' g,
  runs apply_op (SOpAssign x [] o e) s (Raise s' g) ->
  s' = s \/ (s' x = Some VNull /\ forall y, y <> x -> s' y = s y).
Proof. exact @failed_plain_opassign_null. Qed.
Print Assumptions C14_failed_plain_opassign_null.

(* after the catch clause completes, evaluation continues with the next statement, in the store the
   catch clause left *)
Theorem C14_usable_after_catch : forall (apply_op : binop -> val -> val -> outcome val) body c h rest s s1 v s2 r,
  runs apply_op body s (Raise s1 (GThrow v)) ->
  runs apply_op h (upd s1 c v) (Done s2) ->
  runs apply_op rest (restore s2 c (s1 c)) r ->
  runs apply_op (SSeq (STry body c h) rest) s r.
Proof. exact @usable_after_catch. Qed.
Print Assumptions C14_usable_after_catch.

(* ... and in that store every variable named neither by the failing body nor by the catch clause is as before *)
Theorem C14_untouched_after_catch : forall (apply_op : binop -> val -> val -> outcome val) body c h s s1 v s2,
  runs apply_op body s (Raise s1 (GThrow v)) ->
  runs apply_op h (upd s1 c v) (Done s2) ->
  forall y, ~ In y (names (STry body c h)) -> restore s2 c (s1 c) y = s y.
Proof. exact @untouched_after_catch. Qed.
Print Assumptions C14_untouched_after_catch.

(* a loop consumes Break 0 / Continue 0: a Break n / Continue n that leaves it was Break (n+1) / Continue (n+1) in its body *)
Theorem C14_while_signal_levels : forall (apply_op : binop -> val -> val -> outcome val) c body s s' n,
  (runs apply_op (SWhile c body) s (Raise s' (GBreak n)) \/ runs apply_op (SWhile c body) s (Raise s' (GContinue n))) ->
  exists s0 s1, runs apply_op body s0 (Raise s1 (GBreak (S n))) \/ runs apply_op body s0 (Raise s1 (GContinue (S n))).
Proof. exact @while_signal_levels. Qed.
Print Assumptions C14_while_signal_levels.

(* if no builtin operator panics, no program panics: indexing, path reads and writes, assignment, op-assignment,
   loops and try/catch turn every failure into a Throw value *)
Theorem C14_program_no_panic : forall (apply_op : binop -> val -> val -> outcome val),
  (forall o a b, apply_op o a b <> Panic /\ apply_op o a b <> OutOfFuel) ->
  forall f st s, exec apply_op f st s <> RPanic.
Proof. exact @program_no_panic. Qed.
Print Assumptions C14_program_no_panic.

(* the operator table used in the correspondence run meets that hypothesis *)
Theorem C14_std_program_no_panic : forall f st s, exec_std f st s <> RPanic.
Proof. exact (program_no_panic std_op std_op_no_panic). Qed.
Print Assumptions C14_std_program_no_panic.

(* The known finding `huge-count-argument`, on the model of `x .* n` (vec![x; n], sz = size_of::<Obj>(), avail = what
   the allocator can give): outside the class (n < 2^31) and with room for 2^31 elements it never panics ... *)
Theorem C14_replicate_no_panic_unless_known : forall (A : Type) (sz avail : Z) (x : A) (n : Z),
  (0 < sz)%Z -> (2 ^ 31 * sz <= avail)%Z -> (avail <= isize_max)%Z -> ~ Known n ->
  dot_star sz avail x n <> Panic.
Proof. exact @dot_star_no_panic_unless_known. Qed.
Print Assumptions C14_replicate_no_panic_unless_known.

(* ... a count of the bounded stratum gives the list of that length ... *)
Theorem C14_replicate_bounded_ok : forall (A : Type) (sz avail : Z) (x : A) (n : Z),
  (0 < sz)%Z -> (2 ^ 16 * sz <= avail)%Z -> (avail <= isize_max)%Z -> (n <= 2 ^ 16)%Z ->
  exists l, dot_star sz avail x n = Ok l /\ Z.of_nat (length l) = Z.max 0 n.
Proof. exact @dot_star_bounded_ok. Qed.
Print Assumptions C14_replicate_bounded_ok.

(* ... and the unrestricted statement is false: [x] .* (2^63-1) panics whatever memory there is *)
Theorem C14_replicate_refuted : forall (A : Type) (sz : Z) (x : A), (2 <= sz)%Z ->
  exists n, Known n /\ forall avail, dot_star sz avail x n = Panic.
Proof. exact @dot_star_refuted. Qed.
Print Assumptions C14_replicate_refuted.

Theorem C14_replicate_refuted_by_allocation : forall (A : Type) (sz avail : Z) (x : A),
  (0 < sz)%Z -> (avail < 2 ^ 31 * sz)%Z -> dot_star sz avail x (2 ^ 31)%Z = Panic.
Proof. exact @dot_star_refuted_by_allocation. Qed.
Print Assumptions C14_replicate_refuted_by_allocation.

(* panic-freedom of modelled cores, proved in the other properties' developments, re-exported *)
Theorem C14_index_no_panic : forall (A : Type) (xs : list A) (i : idx),
  fits xs -> index_list xs i <> Panic.
Proof. exact @C10_index_no_panic. Qed.
Print Assumptions C14_index_no_panic.

Theorem C14_slice_no_panic : forall (A : Type) (xs : list A) (lo hi : option idx),
  fits xs -> slice_list xs lo hi <> Panic.
Proof. exact @C10_slice_no_panic. Qed.
Print Assumptions C14_slice_no_panic.

(* ... integer operators on both representations (C06), the numeric tower (C07), assignment / destructuring (C12),
   the lexer (C15), decimal parsing (C16).  Required, not imported: the names are fully qualified. *)
Require NV.Props.C06 NV.Props.C07 NV.Props.C12 NV.Props.C15 NV.Props.C16.

Theorem C14_nint_ops_no_panic : forall a b : NV.Num.NInt.nint, NV.Num.NInt.ok a -> NV.Num.NInt.ok b ->
  NV.Num.NInt.bi_add a b <> Panic /\
  NV.Num.NInt.bi_sub a b <> Panic /\
  NV.Num.NInt.bi_mul a b <> Panic /\
  NV.Num.NInt.bi_rem a b <> Panic /\
  NV.Num.NInt.bi_div_floor a b <> Panic /\
  NV.Num.NInt.bi_mod_floor a b <> Panic /\
  NV.Num.NInt.bi_div_exact a b <> Panic /\
  NV.Num.NInt.bi_pow a b <> Panic /\
  NV.Num.NInt.bi_and a b <> Panic /\
  NV.Num.NInt.bi_or a b <> Panic /\
  NV.Num.NInt.bi_xor a b <> Panic /\
  NV.Num.NInt.bi_shl a b <> Panic /\
  NV.Num.NInt.bi_shr a b <> Panic /\
  NV.Num.NInt.bi_gcd a b <> Panic /\
  NV.Num.NInt.bi_lcm a b <> Panic /\
  NV.Num.NInt.bi_neg a <> Panic /\
  NV.Num.NInt.bi_not a <> Panic /\
  NV.Num.NInt.bi_abs a <> Panic /\
  NV.Num.NInt.bi_signum a <> Panic /\
  NV.Num.NInt.bi_even a <> Panic /\
  NV.Num.NInt.bi_odd a <> Panic.
Proof. exact NV.Props.C06.C06_builtins_no_panic. Qed.
Print Assumptions C14_nint_ops_no_panic.

Theorem C14_num_binops_no_panic : forall (F : NV.Num.Tower.float_ops) (op : NV.Num.Tower.binop) (a b : NV.Num.Tower.nnum),
  NV.Num.Tower.num_binop F op a b <> Panic.
Proof. exact NV.Props.C07.C07_binops_no_panic. Qed.
Print Assumptions C14_num_binops_no_panic.

Theorem C14_num_unops_no_panic : forall (F : NV.Num.Tower.float_ops) (x : NV.Num.Tower.nnum),
  (forall op : NV.Num.Tower.unop, NV.Num.Tower.num_unop F op x <> Panic) /\
  (forall c : NV.Num.Tower.conv, NV.Num.Tower.num_conv F c x <> Panic).
Proof. exact NV.Props.C07.C07_unops_no_panic. Qed.
Print Assumptions C14_num_unops_no_panic.

Theorem C14_assign_no_panic : forall (sat : N -> NV.Lang.Types.val -> outcome bool)
    (inexact : NV.Lang.Pattern.iop -> NV.Lang.Types.num -> NV.Lang.Types.num -> NV.Lang.Types.num),
  (forall (pid : N) (v : NV.Lang.Types.val), sat pid v <> Panic) ->
  forall (fuel : nat) (p : NV.Lang.Pattern.pat) (rt : option NV.Lang.Types.ty) (v : NV.Lang.Types.val) (s : NV.Lang.Pattern.store),
  snd (NV.Lang.Pattern.assign sat inexact fuel p rt v s) <> Panic.
Proof. exact NV.Props.C12.C12_assign_total. Qed.
Print Assumptions C14_assign_no_panic.

Theorem C14_lex_no_panic : forall (U : NV.Text.Chars.uclass) (s : list N),
  (Z.of_nat (length s) <= 2147483647)%Z ->
  NV.Text.Lexer.lex U s <> Panic /\ exists toks, NV.Text.Lexer.lex U s = Ok toks.
Proof. exact NV.Props.C15.C15_lex_no_panic. Qed.
Print Assumptions C14_lex_no_panic.

Theorem C14_decimal_parse_no_panic : forall s : NV.Text.CodecChars.str,
  NV.Text.Decimal.parse_rational_exactly s <> Panic /\
  NV.Text.Decimal.parse_rational_exactly s <> OutOfFuel /\
  NV.Text.Decimal.parse_decimal_exactly s <> Panic /\
  NV.Text.Decimal.parse_decimal_exactly s <> OutOfFuel.
Proof. exact NV.Props.C16.C16_decimal_parse_no_panic. Qed.
Print Assumptions C14_decimal_parse_no_panic.

(* non-vacuity: x0 = 5, x2 = [1,2].  `try (x0 //= 0) catch x1 -> x2[5] = 1`, then `x2[0] += 10`:
   the operator fails (x0 is left null), the catch clause runs and itself fails on the index, that Throw
   leaves the try; with a quiet catch clause the next statement runs and x2 is intact *)
Example C14_nonvacuous :
  let x0 := 0%nat in let x1 := 1%nat in let x2 := 2%nat in
  let s0 := upd (upd empty_store x0 (VInt 5)) x2 (VList [VInt 1; VInt 2]) in
  let bad := SOpAssign x0 [] OFloorDiv (XConst (VInt 0)) in
  runs std_op bad s0 (Raise (upd s0 x0 VNull) (GThrow (VErr EValue))) /\
  (exists s', runs std_op (STry bad x1 (SAssign x2 [XConst (VInt 5)] (XConst (VInt 1)))) s0 (Raise s' (GThrow (VErr EIndex)))) /\
  (exists s', runs std_op (SSeq (STry bad x1 SSkip) (SOpAssign x2 [XConst (VInt 0)] OAdd (XConst (VInt 10)))) s0 (Done s') /\
              s' x0 = Some VNull /\ s' x1 = None /\ s' x2 = Some (VList [VInt 11; VInt 2])).
Proof.
  cbv zeta. split; [|split].
  - exists 3%nat. split; [reflexivity|discriminate].
  - eexists. exists 4%nat. split; [reflexivity|discriminate].
  - eexists. split; [exists 5%nat; split; [reflexivity|discriminate]|]. repeat split.
Qed.
