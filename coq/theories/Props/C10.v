(* C10 - Indexing and slicing follow Python semantics on every sequence kind.
   Only statements here; every proof is `exact <lemma>` into Seq/Index_proofs.v or Seq/Accessors_proofs.v.
   `fits xs` is "the length fits in isize", which Rust guarantees for every Vec/slice. *)
From Coq Require Import ZArith List Bool.
From NV Require Import Common.Outcome Common.MachineInt Seq.Index Seq.IndexSpec Seq.Index_proofs
  Seq.Accessors Seq.Accessors_proofs.
Import ListNotations.
Open Scope Z_scope.

(* s[i] for EVERY integer i, however large: Python position or an index error; never a panic *)
Theorem C10_index_python : forall (A : Type) (xs : list A) (z : Z),
  fits xs -> index_list xs (IInt z) = opt_out (py_index xs z).
Proof. exact @index_python. Qed.
Print Assumptions C10_index_python.

Theorem C10_index_non_integer : forall (A : Type) (xs : list A),
  index_list xs INonInt = Err EIndex /\ index_list xs INonNum = Err EIndex.
Proof. exact @index_non_integer. Qed.
Print Assumptions C10_index_non_integer.

Theorem C10_index_no_panic : forall (A : Type) (xs : list A) (i : idx),
  fits xs -> index_list xs i <> Panic.
Proof. exact @index_no_panic. Qed.
Print Assumptions C10_index_no_panic.

(* s[a:b], either bound omitted, bounds fitting a machine word: exactly Python's selection *)
Theorem C10_slice_python : forall (A : Type) (xs : list A) (lo hi : option Z),
  fits xs -> all_i64 lo -> all_i64 hi ->
  slice_list xs (obound lo) (obound hi) = Ok (py_slice xs lo hi).
Proof. exact @slice_python. Qed.
Print Assumptions C10_slice_python.

Theorem C10_slice_no_panic : forall (A : Type) (xs : list A) (lo hi : option idx),
  fits xs -> slice_list xs lo hi <> Panic.
Proof. exact @slice_no_panic. Qed.
Print Assumptions C10_slice_no_panic.

(* accessors are the corresponding index expressions *)
Theorem C10_first_last_are_indices : forall (A : Type) (xs : list A), fits xs ->
  linear_index_isize xs 0 = index_list xs (IInt 0) /\
  linear_index_isize xs 1 = index_list xs (IInt 1) /\
  linear_index_isize xs 2 = index_list xs (IInt 2) /\
  linear_index_isize xs (-1) = index_list xs (IInt (-1)).
Proof. exact @first_last_are_indices. Qed.
Print Assumptions C10_first_last_are_indices.

Theorem C10_safe_index_spec : forall (A : Type) (xs : list A) (z : Z), fits xs ->
  safe_index xs (IInt z) =
  Ok (if (0 <=? z) && (z <? zlen xs) then nth_error xs (Z.to_nat z) else None).
Proof. exact @safe_index_spec. Qed.
Print Assumptions C10_safe_index_spec.

Theorem C10_cyclic_index_spec : forall (A : Type) (xs : list A) (z : Z),
  in_i64 z -> zlen xs <> 0 ->
  exists a, cyclic_index xs (IInt z) = Ok a /\ nth_error xs (Z.to_nat (z mod zlen xs)) = Some a.
Proof. exact @cyclic_index_spec. Qed.
Print Assumptions C10_cyclic_index_spec.

(* finite streams: the default methods equal index/slice of the unfolded list *)
Theorem C10_stream_index_as_list : forall (A : Type) (xs : list A) (i : idx),
  fits xs -> stream_index xs i = index_list xs i.
Proof. exact @stream_index_as_list. Qed.
Print Assumptions C10_stream_index_as_list.

Theorem C10_stream_slice_as_list : forall (A : Type) (xs : list A) (lo hi : option Z),
  fits xs -> all_i64 lo -> all_i64 hi ->
  omap sliced_elems (stream_slice xs (obound lo) (obound hi)) = slice_list xs (obound lo) (obound hi).
Proof. exact @stream_slice_as_list. Qed.
Print Assumptions C10_stream_slice_as_list.

(* writes address the position reads do, and nothing else *)
Theorem C10_write_addresses_read : forall (A : Type) (xs : list A) (z : Z) (v : A), fits xs ->
  match py_index xs z with
  | None => set_index_list xs (IInt z) v = Err EIndex
  | Some _ =>
    exists ys, set_index_list xs (IInt z) v = Ok ys /\ length ys = length xs /\
      py_index ys z = Some v /\
      (forall j, py_index xs j <> None ->
         (forall k, pythonic_index (zlen xs) (IInt j) = Ok k -> pythonic_index (zlen xs) (IInt z) <> Ok k) ->
         py_index ys j = py_index xs j)
  end.
Proof. exact @write_addresses_read. Qed.
Print Assumptions C10_write_addresses_read.

Theorem C10_remove_addresses_read : forall (A : Type) (xs : list A) (z : Z), fits xs ->
  match py_index xs z with
  | None => remove_index_list xs (IInt z) = Err EIndex
  | Some a => exists k, 0 <= k < zlen xs /\ pythonic_index (zlen xs) (IInt z) = Ok k /\
      remove_index_list xs (IInt z) = Ok (a, firstn (Z.to_nat k) xs ++ skipn (S (Z.to_nat k)) xs)
  end.
Proof. exact @remove_addresses_read. Qed.
Print Assumptions C10_remove_addresses_read.

Theorem C10_remove_slice_addresses_read : forall (A : Type) (xs : list A) (lo hi : option Z),
  fits xs -> all_i64 lo -> all_i64 hi ->
  exists rest, remove_slice_list xs (obound lo) (obound hi) = Ok (py_slice xs lo hi, rest) /\
    length rest = (length xs - length (py_slice xs lo hi))%nat.
Proof. exact @remove_slice_addresses_read. Qed.
Print Assumptions C10_remove_slice_addresses_read.

(* ---- the builtin accessors agree with the corresponding index or slice expression ---- *)
(* take n / drop n for EVERY machine-word n (negative and extreme included): the two halves of the
   list split at Python's reading of n, which is also what the slice expressions select *)
Theorem C10_take_drop_python : forall (A : Type) (xs : list A) (n : Z), fits xs -> in_i64 n ->
  let k := Z.to_nat (py_bound (zlen xs) n) in
  take_list xs (IInt n) = Ok (firstn k xs) /\ drop_list xs (IInt n) = Ok (skipn k xs).
Proof. exact @take_drop_python. Qed.
Print Assumptions C10_take_drop_python.

Theorem C10_take_drop_are_slices : forall (A : Type) (xs : list A) (n : Z), fits xs -> in_i64 n ->
  take_list xs (IInt n) = Ok (py_slice xs None (Some n)) /\
  drop_list xs (IInt n) = Ok (py_slice xs (Some n) None).
Proof. exact @take_drop_are_slices. Qed.
Print Assumptions C10_take_drop_are_slices.

Theorem C10_take_drop_partition : forall (A : Type) (xs : list A) (n : Z), fits xs -> in_i64 n ->
  exists a b, take_list xs (IInt n) = Ok a /\ drop_list xs (IInt n) = Ok b /\ a ++ b = xs.
Proof. exact @take_drop_partition. Qed.
Print Assumptions C10_take_drop_partition.

Theorem C10_tail_butlast_python : forall (A : Type) (xs : list A), fits xs ->
  tail_list xs = Ok (tl xs) /\ butlast_list xs = Ok (removelast xs).
Proof. exact @tail_butlast_python. Qed.
Print Assumptions C10_tail_butlast_python.

(* uncons = (s[0], s[1:]), unsnoc = (s[:-1], s[-1]), including the index error on the empty sequence *)
Theorem C10_uncons_is_index_and_tail : forall (A : Type) (xs : list A), fits xs ->
  uncons_builtin xs = (a <- index_list xs (IInt 0) ;; t <- tail_list xs ;; Ok (a, t)).
Proof. exact @uncons_is_index_and_tail. Qed.
Print Assumptions C10_uncons_is_index_and_tail.

Theorem C10_unsnoc_is_index_and_butlast : forall (A : Type) (xs : list A), fits xs ->
  unsnoc_builtin xs = (a <- index_list xs (IInt (-1)) ;; t <- butlast_list xs ;; Ok (t, a)).
Proof. exact @unsnoc_is_index_and_butlast. Qed.
Print Assumptions C10_unsnoc_is_index_and_butlast.

Theorem C10_only_spec : forall (A : Type) (xs : list A), fits xs ->
  only_list xs = match xs with [a] => Ok a | _ => Err EIndex end.
Proof. exact @only_spec. Qed.
Print Assumptions C10_only_spec.

Theorem C10_accessors_no_panic : forall (A : Type) (xs : list A) (n : idx), fits xs ->
  tail_list xs <> Panic /\ butlast_list xs <> Panic /\ take_list xs n <> Panic /\ drop_list xs n <> Panic /\
  uncons_builtin xs <> Panic /\ unsnoc_builtin xs <> Panic /\ only_list xs <> Panic.
Proof. exact @accessors_no_panic. Qed.
Print Assumptions C10_accessors_no_panic.

(* the same accessors on a finite stream give what they give on the unfolded list ... *)
Theorem C10_stream_accessors_as_list : forall (A : Type) (xs : list A) (n : Z), fits xs -> in_i64 n ->
  omap sliced_elems (tail_stream xs) = tail_list xs /\
  omap sliced_elems (butlast_stream xs) = butlast_list xs /\
  omap sliced_elems (take_stream xs (IInt n)) = take_list xs (IInt n) /\
  omap sliced_elems (drop_stream xs (IInt n)) = drop_list xs (IInt n) /\
  uncons_stream xs = uncons_builtin xs /\
  unsnoc_stream xs = unsnoc_builtin xs /\
  only_stream xs = only_list xs.
Proof. exact @stream_accessors_as_list. Qed.
Print Assumptions C10_stream_accessors_as_list.

(* ... and tail / drop of a non-negative count leave a stream of the remaining elements (nothing forced) *)
Theorem C10_stream_tail_drop_lazy : forall (A : Type) (xs : list A) (n : Z), 0 <= n -> in_i64 n ->
  tail_stream xs = Ok (SStream (tl xs)) /\ drop_stream xs (IInt n) = Ok (SStream (skipn (Z.to_nat n) xs)).
Proof. exact @stream_tail_drop_lazy. Qed.
Print Assumptions C10_stream_tail_drop_lazy.

(* non-vacuity: the hypotheses are met by ordinary data and the functions compute *)
Example C10_nonvacuous :
  fits [10; 20; 30] /\ index_list [10; 20; 30] (IInt (-1)) = Ok 30 /\
  index_list [10; 20; 30] (IInt (2 ^ 63 - 1)) = Err EIndex /\
  index_list [10; 20; 30] (IInt (2 ^ 64)) = Err EIndex /\
  slice_list [10; 20; 30; 40] (Some (IInt (-3))) (Some (IInt 3)) = Ok [20; 30] /\
  py_slice [10; 20; 30; 40] (Some (-3)) (Some 3) = [20; 30] /\
  take_list [10; 20; 30] (IInt (-1)) = Ok [10; 20] /\ drop_list [10; 20; 30] (IInt (-(2 ^ 63))) = Ok [10; 20; 30] /\
  uncons_builtin [10; 20; 30] = Ok (10, [20; 30]) /\ unsnoc_builtin [10; 20; 30] = Ok ([10; 20], 30) /\
  uncons_builtin (@nil Z) = Err EIndex /\ only_list [10] = Ok 10 /\ only_list [10; 20] = Err EIndex /\
  tail_stream [10; 20; 30] = Ok (SStream [20; 30]).
Proof. unfold fits. repeat split; vm_compute; try reflexivity; discriminate. Qed.
