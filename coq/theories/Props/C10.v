(* C10 - Indexing and slicing follow Python semantics on every sequence kind.
   Only statements here; every proof is `exact <lemma>` into Seq/Index_proofs.v.
   `fits xs` is "the length fits in isize", which Rust guarantees for every Vec/slice. *)
From Coq Require Import ZArith List Bool.
From NV Require Import Common.Outcome Common.MachineInt Seq.Index Seq.IndexSpec Seq.Index_proofs.
Import ListNotations.
Open Scope Z_scope.

(* s[i] for EVERY integer i, however large: Python position or an index error; never a panic *)
Theorem C10_index_python : forall (A : Type) (xs : list A) (z : Z),
  fits xs -> index_list xs (IInt z) = opt_out (py_index xs z).
Proof. exact @index_python. Qed.
Print Assumptions C10_index_python.

Theorem C10_index_non_integer : forall (A : Type) (xs : list A),
  index_list xs INonInt = Err EIndex /\ index_list xs INonNum = Err EIndex.
Proof. exact @index_non_integer. Qed.
Print Assumptions C10_index_non_integer.

Theorem C10_index_no_panic : forall (A : Type) (xs : list A) (i : idx),
  fits xs -> index_list xs i <> Panic.
Proof. exact @index_no_panic. Qed.
Print Assumptions C10_index_no_panic.

(* s[a:b], either bound omitted, bounds fitting a machine word: exactly Python's selection *)
Theorem C10_slice_python : forall (A : Type) (xs : list A) (lo hi : option Z),
  fits xs -> all_i64 lo -> all_i64 hi ->
  slice_list xs (obound lo) (obound hi) = Ok (py_slice xs lo hi).
Proof. exact @slice_python. Qed.
Print Assumptions C10_slice_python.

Theorem C10_slice_no_panic : forall (A : Type) (xs : list A) (lo hi : option idx),
  fits xs -> slice_list xs lo hi <> Panic.
Proof. exact @slice_no_panic. Qed.
Print Assumptions C10_slice_no_panic.

(* accessors are the corresponding index expressions *)
Theorem C10_first_last_are_indices : forall (A : Type) (xs : list A), fits xs ->
  linear_index_isize xs 0 = index_list xs (IInt 0) /\
  linear_index_isize xs 1 = index_list xs (IInt 1) /\
  linear_index_isize xs 2 = index_list xs (IInt 2) /\
  linear_index_isize xs (-1) = index_list xs (IInt (-1)).
Proof. exact @first_last_are_indices. Qed.
Print Assumptions C10_first_last_are_indices.

Theorem C10_safe_index_spec : forall (A : Type) (xs : list A) (z : Z), fits xs ->
  safe_index xs (IInt z) =
  Ok (if (0 <=? z) && (z <? zlen xs) then nth_error xs (Z.to_nat z) else None).
Proof. exact @safe_index_spec. Qed.
Print Assumptions C10_safe_index_spec.

Theorem C10_cyclic_index_spec : forall (A : Type) (xs : list A) (z : Z),
  in_i64 z -> zlen xs <> 0 ->
  exists a, cyclic_index xs (IInt z) = Ok a /\ nth_error xs (Z.to_nat (z mod zlen xs)) = Some a.
Proof. exact @cyclic_index_spec. Qed.
Print Assumptions C10_cyclic_index_spec.

(* finite streams: the default methods equal index/slice of the unfolded list *)
Theorem C10_stream_index_as_list : forall (A : Type) (xs : list A) (i : idx),
  fits xs -> stream_index xs i = index_list xs i.
Proof. exact @stream_index_as_list. Qed.
Print Assumptions C10_stream_index_as_list.

Theorem C10_stream_slice_as_list : forall (A : Type) (xs : list A) (lo hi : option Z),
  fits xs -> all_i64 lo -> all_i64 hi ->
  omap sliced_elems (stream_slice xs (obound lo) (obound hi)) = slice_list xs (obound lo) (obound hi).
Proof. exact @stream_slice_as_list. Qed.
Print Assumptions C10_stream_slice_as_list.

(* writes address the position reads do, and nothing else *)
Theorem C10_write_addresses_read : forall (A : Type) (xs : list A) (z : Z) (v : A), fits xs ->
  match py_index xs z with
  | None => set_index_list xs (IInt z) v = Err EIndex
  | Some _ =>
    exists ys, set_index_list xs (IInt z) v = Ok ys /\ length ys = length xs /\
      py_index ys z = Some v /\
      (forall j, py_index xs j <> None ->
         (forall k, pythonic_index (zlen xs) (IInt j) = Ok k -> pythonic_index (zlen xs) (IInt z) <> Ok k) ->
         py_index ys j = py_index xs j)
  end.
Proof. exact @write_addresses_read. Qed.
Print Assumptions C10_write_addresses_read.

Theorem C10_remove_addresses_read : forall (A : Type) (xs : list A) (z : Z), fits xs ->
  match py_index xs z with
  | None => remove_index_list xs (IInt z) = Err EIndex
  | Some a => exists k, 0 <= k < zlen xs /\ pythonic_index (zlen xs) (IInt z) = Ok k /\
      remove_index_list xs (IInt z) = Ok (a, firstn (Z.to_nat k) xs ++ skipn (S (Z.to_nat k)) xs)
  end.
Proof. exact @remove_addresses_read. Qed.
Print Assumptions C10_remove_addresses_read.

Theorem C10_remove_slice_addresses_read : forall (A : Type) (xs : list A) (lo hi : option Z),
  fits xs -> all_i64 lo -> all_i64 hi ->
  exists rest, remove_slice_list xs (obound lo) (obound hi) = Ok (py_slice xs lo hi, rest) /\
    length rest = (length xs - length (py_slice xs lo hi))%nat.
Proof. exact @remove_slice_addresses_read. Qed.
Print Assumptions C10_remove_slice_addresses_read.

(* non-vacuity: the hypotheses are met by ordinary data and the functions compute *)
Example C10_nonvacuous :
  fits [10; 20; 30] /\ index_list [10; 20; 30] (IInt (-1)) = Ok 30 /\
  index_list [10; 20; 30] (IInt (2 ^ 63 - 1)) = Err EIndex /\
  index_list [10; 20; 30] (IInt (2 ^ 64)) = Err EIndex /\
  slice_list [10; 20; 30; 40] (Some (IInt (-3))) (Some (IInt 3)) = Ok [20; 30] /\
  py_slice [10; 20; 30; 40] (Some (-3)) (Some 3) = [20; 30].
Proof. unfold fits. repeat split; vm_compute; try reflexivity; discriminate. Qed.
