(* C04 - Operators are ordinary functions: all application forms agree.
   Only statements here; every proof is `exact <lemma>` into Dispatch/Apply_proofs.v.

   Every theorem quantifies over the types of opaque builtins B, closures C and data D and over
   their meanings  brun : B -> list val -> outcome val  (Builtin::run),  crun (Closure::run)
   and diter (iteration of non-list data).  The one- and two-argument entry points of an opaque
   builtin are DEFINED from brun in Dispatch/Apply.v (brun1, brun2): that is the modelling
   assumption the correspondence sweep validates against every builtin of the live environment.
   [run n f args] is Func::run with fuel for n nested dispatches into function values;
   [eval n e] is evaluate on the expression fragment the forms are written in. *)
From Coq Require Import List Bool.
From NV Require Import Common.Outcome Dispatch.Apply Dispatch.Apply_proofs.
Import ListNotations.

(* Func::run1 and Func::run2 (with their PartialApp1/PartialApp2/Builtin special arms) are Func::run *)
Theorem C04_entry_points_agree :
  forall (B C D : Type) (brun : B -> list (val B C D) -> outcome (val B C D))
         (crun : C -> list (val B C D) -> outcome (val B C D))
         (diter : D -> outcome (list (val B C D))) n f a b,
  run1 brun crun diter n f a = run brun crun diter n f [a] /\
  run2 brun crun diter n f a b = run brun crun diter n f [a; b].
Proof. exact @entry_points_agree. Qed.
Print Assumptions C04_entry_points_agree.

(* a f b,  f(a, b),  f! a, b,  a `f` b,  f(_, b)(a),  f(a, _)(b),  (_ f b)(a),  (a f _)(b),
   [a, b] apply f,  f of [a, b],  f(_, _)(a, b),  f(..._)([a, b])  and, when a is not a function,
   (a f)(b): each is the vector call run f [a; b], for every f (builtin, closure, partial
   application, flip, composition, section ...) and all values a b *)
Theorem C04_forms_agree_2 :
  forall (B C D : Type) (brun : B -> list (val B C D) -> outcome (val B C D))
         (crun : C -> list (val B C D) -> outcome (val B C D))
         (diter : D -> outcome (list (val B C D))) n f a b,
  let r := run brun crun diter n f [a; b] in
  eval brun crun diter n (form_infix f a b) = r /\
  eval brun crun diter n (form_call f a b) = r /\
  eval brun crun diter n (form_bang f a b) = r /\
  eval brun crun diter n (form_backtick f a b) = r /\
  eval brun crun diter (S n) (form_sect_l f a b) = r /\
  eval brun crun diter (S n) (form_sect_r f a b) = r /\
  eval brun crun diter (S n) (form_chain_sect_l f a b) = r /\
  eval brun crun diter (S n) (form_chain_sect_r f a b) = r /\
  eval brun crun diter (S n) (form_apply f a b) = r /\
  eval brun crun diter (S n) (form_of f a b) = r /\
  eval brun crun diter (S n) (form_sect_both f a b) = r /\
  eval brun crun diter (S n) (form_splat_hole f [a; b]) = r /\
  (is_func a = false -> eval brun crun diter (S n) (form_juxt f a b) = r).
Proof. exact @forms_agree_2. Qed.
Print Assumptions C04_forms_agree_2.

(* the same without fuel in the statement: a form yields r (a value, an error or a panic) with
   some fuel exactly when the plain vector call does *)
Theorem C04_forms_converge_2 :
  forall (B C D : Type) (brun : B -> list (val B C D) -> outcome (val B C D))
         (crun : C -> list (val B C D) -> outcome (val B C D))
         (diter : D -> outcome (list (val B C D))) f a b r,
  (forall e, In e (forms2 f a b) ->
     (converges (fun n => eval brun crun diter n e) r <->
      converges (fun n => run brun crun diter n f [a; b]) r)) /\
  (is_func a = false ->
     (converges (fun n => eval brun crun diter n (form_juxt f a b)) r <->
      converges (fun n => run brun crun diter n f [a; b]) r)).
Proof. exact @forms_converge_2. Qed.
Print Assumptions C04_forms_converge_2.

(* more fuel never changes an answer, so "the result of f(args)" is well defined *)
Theorem C04_fuel_monotone :
  forall (B C D : Type) (brun : B -> list (val B C D) -> outcome (val B C D))
         (crun : C -> list (val B C D) -> outcome (val B C D))
         (diter : D -> outcome (list (val B C D))) n m f args r, (n <= m)%nat ->
  run brun crun diter n f args = r -> r <> OutOfFuel -> run brun crun diter m f args = r.
Proof. exact @run_mono. Qed.
Print Assumptions C04_fuel_monotone.

Theorem C04_result_unique :
  forall (B C D : Type) (brun : B -> list (val B C D) -> outcome (val B C D))
         (crun : C -> list (val B C D) -> outcome (val B C D))
         (diter : D -> outcome (list (val B C D))) f args r1 r2,
  converges (fun n => run brun crun diter n f args) r1 ->
  converges (fun n => run brun crun diter n f args) r2 -> r1 = r2.
Proof. exact @run_deterministic. Qed.
Print Assumptions C04_result_unique.

(* (a f)(b) when a IS a function is a(f)(b): the proviso of forms_agree_2 is needed *)
Theorem C04_juxt_function :
  forall (B C D : Type) (brun : B -> list (val B C D) -> outcome (val B C D))
         (crun : C -> list (val B C D) -> outcome (val B C D))
         (diter : D -> outcome (list (val B C D))) n f g b,
  eval brun crun diter n (form_juxt f (VFunc g) b) =
  bind (run brun crun diter n g [VFunc f]) (fun r => call_or_part_apply brun crun diter n r [b]).
Proof. exact @juxt_function. Qed.
Print Assumptions C04_juxt_function.

(* one-argument calls are right sections: if f(b) is PartialApp2(f, b) (clone_and_part_app_2) or
   PartialAppLast(f, b) (clone_and_part_app_last) then f(b)(a) is f(a, b) *)
Theorem C04_right_section :
  forall (B C D : Type) (brun : B -> list (val B C D) -> outcome (val B C D))
         (crun : C -> list (val B C D) -> outcome (val B C D))
         (diter : D -> outcome (list (val B C D))) n f a b,
  (run brun crun diter (S n) f [b] = Ok (VFunc (FPartialApp2 f b)) ->
   eval brun crun diter (S n) (form_curried f a b) = run brun crun diter n f [a; b]) /\
  (run brun crun diter (S n) f [b] = Ok (VFunc (FPartialAppLast f b)) ->
   eval brun crun diter (S n) (form_curried f a b) = run brun crun diter n f [a; b]).
Proof. exact @right_sections. Qed.
Print Assumptions C04_right_section.

(* known finding `variadic-combinator`: without the premise of C04_right_section the claim is false.
   For a builtin that returns a function built from however many arguments it gets - the builtins named ***, &&&, equals -
   f(a, b) succeeds and f(b) is a function, yet f(b)(a) is something else. *)
Theorem C04_right_section_refuted :
  exists (f : func unit unit nat) (a b : val unit unit nat) (g : func unit unit nat),
    (forall n, run comb_brun comb_crun comb_diter (S n) f [b] = Ok (VFunc g)) /\
    g <> FPartialApp2 f b /\ g <> FPartialAppLast f b /\
    (forall n, is_ok (run comb_brun comb_crun comb_diter (S n) f [a; b]) = true) /\
    (forall n m, eval comb_brun comb_crun comb_diter (S (S n)) (form_curried f a b) <>
                 run comb_brun comb_crun comb_diter (S m) f [a; b]).
Proof. exact right_section_refuted. Qed.
Print Assumptions C04_right_section_refuted.

(* for the transcribed TwoArgBuiltin/EnvTwoArgBuiltin builtins the premise is a fact *)
Theorem C04_known_right_section :
  forall (B C D : Type) (brun : B -> list (val B C D) -> outcome (val B C D))
         (crun : C -> list (val B C D) -> outcome (val B C D))
         (diter : D -> outcome (list (val B C D))) n k b, is_one_arg k = false ->
  run brun crun diter (S n) (FKnown k) [b] = Ok (VFunc (FPartialApp2 (FKnown k) b)).
Proof. exact @known_right_section. Qed.
Print Assumptions C04_known_right_section.

(* x f= b leaves x = f(x, b) *)
Theorem C04_opassign_is_call :
  forall (B C D : Type) (brun : B -> list (val B C D) -> outcome (val B C D))
         (crun : C -> list (val B C D) -> outcome (val B C D))
         (diter : D -> outcome (list (val B C D))) n f x b,
  op_assign brun crun diter n x (Fv f) (V b) = run brun crun diter n f [x; b] /\
  op_assign brun crun diter n x (Fv f) (V b) = eval brun crun diter n (form_call f x b).
Proof. exact @opassign_is_call. Qed.
Print Assumptions C04_opassign_is_call.

(* x f= rhs where rhs (any expression) READS the assigned place: the steps of Expr::OpAssign are
   explicit in op_assign_store - old value read, rhs evaluated in the OLD store, only then the place
   is nulled (drop_lhs), the function called, the result assigned.  For any store (plain variable,
   a[i], ...): the place ends up holding f(old value, value of rhs in the old store). *)
Theorem C04_opassign_store :
  forall (B C D : Type) (brun : B -> list (val B C D) -> outcome (val B C D))
         (crun : C -> list (val B C D) -> outcome (val B C D))
         (diter : D -> outcome (list (val B C D))) n
         (S : Type) (get : S -> outcome (val B C D)) (set : S -> val B C D -> outcome S)
         vnull (s0 s1 s2 : S) f (rhs : S -> expr B C D) x0 b r,
  get s0 = Ok x0 -> eval brun crun diter n (rhs s0) = Ok b -> set s0 vnull = Ok s1 ->
  run brun crun diter n f [x0; b] = Ok r -> set s1 r = Ok s2 ->
  op_assign_store brun crun diter n get set vnull s0 (fun _ => Fv f) rhs = (s2, Ok tt).
Proof. exact @opassign_store_ok. Qed.
Print Assumptions C04_opassign_store.

(* plain variable: x f= rhs(x) leaves x equal to the value of the plain call f(x0, b0), b0 = rhs in the old store *)
Theorem C04_opassign_reads_x :
  forall (B C D : Type) (brun : B -> list (val B C D) -> outcome (val B C D))
         (crun : C -> list (val B C D) -> outcome (val B C D))
         (diter : D -> outcome (list (val B C D))) n vnull f (rhs : val B C D -> expr B C D) x0 b r,
  eval brun crun diter n (rhs x0) = Ok b -> run brun crun diter n f [x0; b] = Ok r ->
  op_assign_store brun crun diter n (@var_get B C D) (@var_set B C D) vnull x0 (fun _ => Fv f) rhs = (r, Ok tt) /\
  eval brun crun diter n (form_call f x0 b) = Ok r.
Proof. exact @opassign_reads_x. Qed.
Print Assumptions C04_opassign_reads_x.

(* failures: a failing right-hand side leaves the store untouched; a failing call leaves the place nulled *)
Theorem C04_opassign_failures :
  forall (B C D : Type) (brun : B -> list (val B C D) -> outcome (val B C D))
         (crun : C -> list (val B C D) -> outcome (val B C D))
         (diter : D -> outcome (list (val B C D))) n
         (S : Type) (get : S -> outcome (val B C D)) (set : S -> val B C D -> outcome S)
         vnull (s0 s1 : S) f (rhs : S -> expr B C D) x0,
  get s0 = Ok x0 ->
  (is_ok (eval brun crun diter n (rhs s0)) = false ->
   fst (op_assign_store brun crun diter n get set vnull s0 (fun _ => Fv f) rhs) = s0 /\
   is_ok (snd (op_assign_store brun crun diter n get set vnull s0 (fun _ => Fv f) rhs)) = false) /\
  (forall b, eval brun crun diter n (rhs s0) = Ok b -> set s0 vnull = Ok s1 ->
   is_ok (run brun crun diter n f [x0; b]) = false ->
   fst (op_assign_store brun crun diter n get set vnull s0 (fun _ => Fv f) rhs) = s1 /\
   is_ok (snd (op_assign_store brun crun diter n get set vnull s0 (fun _ => Fv f) rhs)) = false).
Proof. exact @opassign_store_failures. Qed.
Print Assumptions C04_opassign_failures.

(* with an operator and right-hand side that do not read the place this is the op_assign of C04_opassign_is_call *)
Theorem C04_opassign_store_const :
  forall (B C D : Type) (brun : B -> list (val B C D) -> outcome (val B C D))
         (crun : C -> list (val B C D) -> outcome (val B C D))
         (diter : D -> outcome (list (val B C D))) n vnull x op rhs r,
  op_assign brun crun diter n x op rhs = Ok r <->
  op_assign_store brun crun diter n (@var_get B C D) (@var_set B C D) vnull x (fun _ => op) (fun _ => rhs) = (r, Ok tt).
Proof. exact @opassign_store_const. Qed.
Print Assumptions C04_opassign_store_const.

(* f(a),  f! a,  f(...[a]),  a.f / a then f / a .> f,  f <. a,  f(_)(a),  f(..._)([a]),
   [a] apply f,  f of [a] *)
Theorem C04_forms_agree_1 :
  forall (B C D : Type) (brun : B -> list (val B C D) -> outcome (val B C D))
         (crun : C -> list (val B C D) -> outcome (val B C D))
         (diter : D -> outcome (list (val B C D))) n f a,
  let r := run brun crun diter n f [a] in
  eval brun crun diter n (form_call_n f [a]) = r /\
  eval brun crun diter n (form_splat_n f [a]) = r /\
  eval brun crun diter (S n) (form_dot f a) = r /\
  eval brun crun diter (S n) (form_calll f a) = r /\
  eval brun crun diter (S n) (form_sect_1 f a) = r /\
  eval brun crun diter (S n) (form_splat_hole f [a]) = r /\
  eval brun crun diter (S n) (form_apply_n f [a]) = r /\
  eval brun crun diter (S n) (form_of_n f [a]) = r.
Proof. exact @forms_agree_1. Qed.
Print Assumptions C04_forms_agree_1.

(* f(a, b, c),  f! a, b, c,  f(...[a, b, c]),  f(a, ...[b, c]),  f(..._)([a, b, c]),
   [a, b, c] apply f,  f of [a, b, c]  and all seven underscore layouts f(_, b, _)(a, c) ... *)
Theorem C04_forms_agree_3 :
  forall (B C D : Type) (brun : B -> list (val B C D) -> outcome (val B C D))
         (crun : C -> list (val B C D) -> outcome (val B C D))
         (diter : D -> outcome (list (val B C D))) n f a b c,
  let r := run brun crun diter n f [a; b; c] in
  eval brun crun diter n (form_call_n f [a; b; c]) = r /\
  eval brun crun diter n (form_splat_n f [a; b; c]) = r /\
  eval brun crun diter n (form_partial_splat_3 f a b c) = r /\
  eval brun crun diter (S n) (form_splat_hole f [a; b; c]) = r /\
  eval brun crun diter (S n) (form_apply_n f [a; b; c]) = r /\
  eval brun crun diter (S n) (form_of_n f [a; b; c]) = r /\
  (forall ha hb hc : bool, ha || hb || hc = true ->
     eval brun crun diter (S n) (form_sect_mask f [(a, ha); (b, hb); (c, hc)]) = r).
Proof. exact @forms_agree_3. Qed.
Print Assumptions C04_forms_agree_3.

(* the one- and three-argument families without fuel in the statement: every form of forms1 / forms3
   (all the forms of C04_forms_agree_1 / _3, the seven underscore layouts included) yields r with some
   fuel exactly when the plain vector call does *)
Theorem C04_forms_converge_1 :
  forall (B C D : Type) (brun : B -> list (val B C D) -> outcome (val B C D))
         (crun : C -> list (val B C D) -> outcome (val B C D))
         (diter : D -> outcome (list (val B C D))) f a r e, In e (forms1 f a) ->
  (converges (fun n => eval brun crun diter n e) r <->
   converges (fun n => run brun crun diter n f [a]) r).
Proof. exact @forms_converge_1. Qed.
Print Assumptions C04_forms_converge_1.

Theorem C04_forms_converge_3 :
  forall (B C D : Type) (brun : B -> list (val B C D) -> outcome (val B C D))
         (crun : C -> list (val B C D) -> outcome (val B C D))
         (diter : D -> outcome (list (val B C D))) f a b c r e, In e (forms3 f a b c) ->
  (converges (fun n => eval brun crun diter n e) r <->
   converges (fun n => run brun crun diter n f [a; b; c]) r).
Proof. exact @forms_converge_3. Qed.
Print Assumptions C04_forms_converge_3.

(* any number of arguments: call/bang, splat, apply, of, splatted hole; and a call section with
   holes in any (non-empty) set of positions applied to the values of those positions *)
Theorem C04_forms_agree_n :
  forall (B C D : Type) (brun : B -> list (val B C D) -> outcome (val B C D))
         (crun : C -> list (val B C D) -> outcome (val B C D))
         (diter : D -> outcome (list (val B C D))) n f (args : list (val B C D))
         (l : list (val B C D * bool)),
  eval brun crun diter n (form_call_n f args) = run brun crun diter n f args /\
  eval brun crun diter n (form_splat_n f args) = run brun crun diter n f args /\
  eval brun crun diter (S n) (form_apply_n f args) = run brun crun diter n f args /\
  eval brun crun diter (S n) (form_of_n f args) = run brun crun diter n f args /\
  eval brun crun diter (S n) (form_splat_hole f args) = run brun crun diter n f args /\
  (existsb snd l = true ->
   eval brun crun diter (S n) (form_sect_mask f l) = run brun crun diter n f (map fst l)).
Proof. exact @forms_agree_n. Qed.
Print Assumptions C04_forms_agree_n.

(* [a, _, c, _](b, d) = [a, b, c, d] *)
Theorem C04_list_section :
  forall (B C D : Type) (brun : B -> list (val B C D) -> outcome (val B C D))
         (crun : C -> list (val B C D) -> outcome (val B C D))
         (diter : D -> outcome (list (val B C D))) n (l : list (val B C D * bool)),
  existsb snd l = true ->
  eval brun crun diter (S n) (ECall (EList (map (@mask_arg B C D) l)) (norm (holes l))) =
  Ok (VList (map fst l)).
Proof. exact @list_section. Qed.
Print Assumptions C04_list_section.

(* PartialApp1 / PartialApp2 / PartialAppLast / Flip / Composition unfold to the call they abbreviate,
   through run and through run1; other argument counts are argument errors, never a panic *)
Theorem C04_partial_wrappers :
  forall (B C D : Type) (brun : B -> list (val B C D) -> outcome (val B C D))
         (crun : C -> list (val B C D) -> outcome (val B C D))
         (diter : D -> outcome (list (val B C D))) n f g x a b (args : list (val B C D)),
  (run brun crun diter (S n) (FPartialApp1 f x) [a] = run brun crun diter n f [x; a] /\
   run1 brun crun diter (S n) (FPartialApp1 f x) a = run brun crun diter n f [x; a]) /\
  (run brun crun diter (S n) (FPartialApp2 f x) [a] = run brun crun diter n f [a; x] /\
   run1 brun crun diter (S n) (FPartialApp2 f x) a = run brun crun diter n f [a; x]) /\
  (length args <> 1%nat ->
   run brun crun diter (S n) (FPartialApp1 f x) args = Err EArg /\
   run brun crun diter (S n) (FPartialApp2 f x) args = Err EArg) /\
  run brun crun diter (S n) (FPartialAppLast f x) args = run brun crun diter n f (args ++ [x]) /\
  run brun crun diter (S n) (FFlip f) [a; b] = run brun crun diter n f [b; a] /\
  (run brun crun diter (S n) (FFlip f) [a] = Ok (VFunc (FPartialApp1 f a)) /\
   (forall h, run brun crun diter (S n) (FFlip f) [a] = Ok (VFunc h) ->
              run brun crun diter (S n) h [b] = run brun crun diter n f [a; b])) /\
  (length args <> 1%nat -> length args <> 2%nat ->
   run brun crun diter (S n) (FFlip f) args = Err EArg) /\
  run brun crun diter (S n) (FComposition f g) args =
    bind (run brun crun diter n g args) (fun r => run brun crun diter n f [r]).
Proof. exact @partial_wrappers. Qed.
Print Assumptions C04_partial_wrappers.

(* (_ f _)(a, b) = f(a, b): an operator section with both operands missing takes them left to right;
   any other number of arguments is an argument error *)
Theorem C04_chain_section_both :
  forall (B C D : Type) (brun : B -> list (val B C D) -> outcome (val B C D))
         (crun : C -> list (val B C D) -> outcome (val B C D))
         (diter : D -> outcome (list (val B C D))) n f a b c,
  eval brun crun diter (S n) (form_chain_sect_both f [a; b]) = run brun crun diter n f [a; b] /\
  eval brun crun diter (S n) (form_chain_sect_both f [a]) = Err EArg /\
  eval brun crun diter (S n) (form_chain_sect_both f []) = Err EArg /\
  eval brun crun diter (S n) (form_chain_sect_both f [a; b; c]) = Err EArg.
Proof. exact @chain_section_both. Qed.
Print Assumptions C04_chain_section_both.

(* _(a, _, c)(f, b): a call section whose callee is the hole, any layout of further holes *)
Theorem C04_hole_callee :
  forall (B C D : Type) (brun : B -> list (val B C D) -> outcome (val B C D))
         (crun : C -> list (val B C D) -> outcome (val B C D))
         (diter : D -> outcome (list (val B C D))) n f (l : list (val B C D * bool)),
  eval brun crun diter (S n) (form_hole_callee f l) = run brun crun diter n f (map fst l).
Proof. exact @hole_callee. Qed.
Print Assumptions C04_hole_callee.

(* the function values built by  on  &&&  ***  lift  (OnComposition, Fanout, Parallel, OnFanoutConst) mean
   what their names say; being function values, every form of C04_forms_agree_* applies to them *)
Theorem C04_function_combinators :
  forall (B C D : Type) (brun : B -> list (val B C D) -> outcome (val B C D))
         (crun : C -> list (val B C D) -> outcome (val B C D))
         (diter : D -> outcome (list (val B C D))) n f g h a b c (args : list (val B C D)),
  run brun crun diter (S n) (FOnComposition f g) [a; b] =
    bind (run brun crun diter n g [a]) (fun x => bind (run brun crun diter n g [b]) (fun y => run brun crun diter n f [x; y])) /\
  run brun crun diter (S n) (FFanout [g; h]) args =
    bind (run brun crun diter n g args) (fun x => bind (run brun crun diter n h args) (fun y => Ok (VList [x; y]))) /\
  run brun crun diter (S n) (FParallel [g; h]) [a; b] =
    bind (run brun crun diter n g [a]) (fun x => bind (run brun crun diter n h [b]) (fun y => Ok (VList [x; y]))) /\
  (is_func c = false ->
   run brun crun diter (S n) (FOnFanoutConst f [VFunc g; c]) args =
     bind (run brun crun diter n g args) (fun x => run brun crun diter n f [x; c])).
Proof. exact @function_combinators. Qed.
Print Assumptions C04_function_combinators.

Theorem C04_combinators_build :
  forall (B C D : Type) (brun : B -> list (val B C D) -> outcome (val B C D))
         (crun : C -> list (val B C D) -> outcome (val B C D))
         (diter : D -> outcome (list (val B C D))) n f g h (c : val B C D),
  run brun crun diter (S n) (FCombinator CParallel) [VFunc g; VFunc h] = Ok (VFunc (FParallel [g; h])) /\
  run brun crun diter (S n) (FCombinator CFanout) [VFunc g; VFunc h] = Ok (VFunc (FFanout [g; h])) /\
  run brun crun diter (S n) (FKnown KOn) [VFunc f; VFunc g] = Ok (VFunc (FOnComposition f g)) /\
  run brun crun diter (S n) (FCombinator CLift) [VFunc g; c; VFunc f] = Ok (VFunc (FOnFanoutConst f [VFunc g; c])) /\
  (is_func c = false -> run brun crun diter (S n) (FCombinator CParallel) [VFunc g; c] = Err EType) /\
  (is_func c = false -> run brun crun diter (S n) (FCombinator CLift) [VFunc g; c] = Err EType).
Proof. exact @combinators_build. Qed.
Print Assumptions C04_combinators_build.

(* which one-argument calls of the combinators are right sections: lift (PartialAppLast) and on (a
   TwoArgBuiltin, C04_known_right_section) are ... *)
Theorem C04_lift_is_section :
  forall (B C D : Type) (brun : B -> list (val B C D) -> outcome (val B C D))
         (crun : C -> list (val B C D) -> outcome (val B C D))
         (diter : D -> outcome (list (val B C D))) n a b,
  run brun crun diter (S n) (FCombinator CLift) [b] = Ok (VFunc (FPartialAppLast (FCombinator CLift) b)) /\
  eval brun crun diter (S n) (form_curried (FCombinator CLift) a b) = run brun crun diter n (FCombinator CLift) [a; b].
Proof. exact @lift_is_section. Qed.
Print Assumptions C04_lift_is_section.

(* flip(g)(b) is PartialApp1(g, b), which is not a section of flip(g) itself but agrees with it:
   flip(g)(b)(a) = flip(g)(a, b) = g(b, a) *)
Theorem C04_flip_curried :
  forall (B C D : Type) (brun : B -> list (val B C D) -> outcome (val B C D))
         (crun : C -> list (val B C D) -> outcome (val B C D))
         (diter : D -> outcome (list (val B C D))) n g a b,
  eval brun crun diter (S (S n)) (form_curried (FFlip g) a b) = run brun crun diter (S (S n)) (FFlip g) [a; b] /\
  run brun crun diter (S (S n)) (FFlip g) [a; b] = run brun crun diter (S n) g [b; a].
Proof. exact @flip_curried. Qed.
Print Assumptions C04_flip_curried.

(* ... and the variadic combinators are not (known finding `variadic-combinator`, now a theorem about the
   model, for all g h and all builtin meanings): f(h, g) succeeds, f(g) is a function, f(g)(h) is not f(h, g) *)
Theorem C04_variadic_combinators_not_sections :
  forall (B C D : Type) (brun : B -> list (val B C D) -> outcome (val B C D))
         (crun : C -> list (val B C D) -> outcome (val B C D))
         (diter : D -> outcome (list (val B C D))) n m g h,
  (run brun crun diter (S m) (FCombinator CParallel) [VFunc h; VFunc g] = Ok (VFunc (FParallel [h; g])) /\
   run brun crun diter (S n) (FCombinator CParallel) [VFunc g] = Ok (VFunc (FParallel [g])) /\
   eval brun crun diter (S (S n)) (form_curried (FCombinator CParallel) (VFunc h) (VFunc g)) = Err EType) /\
  (run brun crun diter (S m) (FCombinator CFanout) [VFunc h; VFunc g] = Ok (VFunc (FFanout [h; g])) /\
   run brun crun diter (S n) (FCombinator CFanout) [VFunc g] = Ok (VFunc (FFanout [g])) /\
   forall r, eval brun crun diter (S (S n)) (form_curried (FCombinator CFanout) (VFunc h) (VFunc g)) <> Ok (VFunc r)).
Proof. exact @variadic_combinators_not_sections. Qed.
Print Assumptions C04_variadic_combinators_not_sections.

(* equals(args) = OnFanoutConst(==, args): for data a b the function equals(b) applied to a is the
   one-argument call of the == builtin on b, not equals(a, b) *)
Theorem C04_equals_curried :
  forall (B C D : Type) (brun : B -> list (val B C D) -> outcome (val B C D))
         (crun : C -> list (val B C D) -> outcome (val B C D))
         (diter : D -> outcome (list (val B C D))) n (beq : B) a b, is_func b = false ->
  run brun crun diter (S (S n)) (FOnFanoutConst (FBuiltin beq) [b]) [a] = brun beq [b].
Proof. exact @equals_curried. Qed.
Print Assumptions C04_equals_curried.

(* non-vacuity: a builtin that returns its argument vector tells the argument orders apart, every
   form computes, and the sections really are sections *)
Definition nv_brun (b : nat) (args : list (val nat unit nat)) : outcome (val nat unit nat) :=
  match b, args with
  | 1%nat, [x] => Ok (VFunc (FPartialApp2 (FBuiltin 1%nat) x))
  | _, _ => Ok (VList args)
  end.
Definition nv_crun (c : unit) (args : list (val nat unit nat)) : outcome (val nat unit nat) := Err EArg.
Definition nv_diter (d : nat) : outcome (list (val nat unit nat)) := Err EType.
Example C04_nonvacuous :
  let a := @VData nat unit nat 10 in let b := @VData nat unit nat 20 in
  let f := @FBuiltin nat unit nat 0 in let g := @FBuiltin nat unit nat 1 in
  let ev := eval nv_brun nv_crun nv_diter in
  run nv_brun nv_crun nv_diter 1 f [a; b] = Ok (VList [a; b]) /\
  run nv_brun nv_crun nv_diter 1 f [a; b] <> run nv_brun nv_crun nv_diter 1 f [b; a] /\
  Forall (fun e => ev 2%nat e = Ok (VList [a; b])) (forms2 f a b) /\
  ev 2%nat (form_juxt f a b) = Ok (VList [a; b]) /\
  ev 2%nat (form_curried g a b) = Ok (VList [a; b]) /\
  ev 2%nat (form_infix (FFlip f) a b) = Ok (VList [b; a]) /\
  ev 3%nat (form_apply (FKnown KApply) (VList [a; b]) (VFunc f)) = Ok (VList [a; b]) /\
  op_assign nv_brun nv_crun nv_diter 1 a (Fv f) (V b) = Ok (VList [a; b]) /\
  op_assign_store nv_brun nv_crun nv_diter 1 (@var_get nat unit nat) (@var_set nat unit nat) (VData 0%nat) a
    (fun _ => Fv f) (fun x => EList [ANorm (V x); ANorm (V x)]) = (VList [a; VList [a; a]], Ok tt) /\
  op_assign_store nv_brun nv_crun nv_diter 1 (@var_get nat unit nat) (@var_set nat unit nat) (VData 0%nat) a
    (fun _ => Fv f) (fun x => EList [ANorm (V x); ANorm (V x)]) <>
  (VList [a; VList [VData 0%nat; VData 0%nat]], Ok tt) /\
  ev 0%nat (form_sect_l f a b) = OutOfFuel /\
  ev 2%nat (form_sect_mask f [(a, true); (b, false); (a, true)]) = Ok (VList [a; b; a]).
Proof.
  cbv zeta. repeat split; try (vm_compute; reflexivity); try (vm_compute; discriminate).
  unfold forms2. repeat constructor.
Qed.
