(* C11 - Lazy streams are coherent: length, iteration, indexing, slicing, reversal agree.
   Only statements here; every proof is `exact <lemma>` into Seq/Streams_*_proofs.v.

   `yields step s l`   iterating a clone of state s produces exactly l, then reports exhaustion
   `reaches step s t`  t is s after some number of next() calls (`s drop k` for some k)
   (Seq/StreamsSpec.v).  Theorems quantified over every state (or every reachable state) cover
   every position reached by dropping a prefix.  `*_count` is the mathematical number of
   remaining elements; `*_len` is the transcription of the type's Stream::len (Ok None =
   "infinite", which the closed forms also answer when the count does not fit usize: the one
   known finding len-count-ge-2^64; `to_usize_z z` = Some z if z < 2^64, else None). *)
From Coq Require Import ZArith List Bool Sorting.Sorted.
From NV Require Import Common.Outcome Common.MachineInt Seq.Index Seq.IndexSpec Seq.Index_proofs
  Seq.Streams Seq.StreamsSpec Seq.Streams_proofs Seq.Streams_counter_proofs Seq.Streams_comb_proofs
  Seq.Streams_combu_proofs Seq.Streams_obs_proofs Seq.Streams_adapt_proofs Seq.Streams_ext_proofs Seq.Streams_permu_proofs.
Import ListNotations.
Open Scope Z_scope.

(* ================================================================ the counting argument *)
(* one-step lemmas + an invariant give: count = number of elements iteration yields, at every
   reachable state, with the count itself as the termination measure *)
Theorem C11_len_counts_iteration_generic : forall (St E : Type) (step : St -> option E * St)
    (Inv : St -> Prop) (cnt : St -> Z),
  (forall s, Inv s -> Inv (snd (step s))) ->
  (forall s, Inv s -> fst (step s) = None -> cnt s = 0) ->
  (forall s e, Inv s -> fst (step s) = Some e -> cnt s = 1 + cnt (snd (step s))) ->
  (forall s, Inv s -> 0 <= cnt s) ->
  forall s t, Inv s -> reaches step s t ->
  exists l, yields step t l /\ Z.of_nat (length l) = cnt t.
Proof. exact @count_is_length_reached. Qed.
Print Assumptions C11_len_counts_iteration_generic.

(* `s drop k` lists list(s) without its first k elements *)
Theorem C11_drop_lists_suffix : forall (St E : Type) (step : St -> option E * St) (s : St) (l : list E),
  (forall t, fst (step t) = None -> fst (step (snd (step t))) = None) ->
  yields step s l -> forall k, yields step (drop_prefix step k s) (skipn k l).
Proof. exact @yields_drop. Qed.
Print Assumptions C11_drop_lists_suffix.

(* ================================================================ Range: start/end/step in Z *)
Theorem C11_range_len_step : forall r x, range_finite r -> fst (range_step r) = Some x ->
  range_count r = 1 + range_count (snd (range_step r)).
Proof. exact range_count_some. Qed.
Print Assumptions C11_range_len_step.

Theorem C11_range_len_exhausted : forall r, range_finite r -> fst (range_step r) = None ->
  range_count r = 0.
Proof. exact range_count_none. Qed.
Print Assumptions C11_range_len_exhausted.

(* known finding len-count-ge-2^64 (F15): stated for counts below 2^64, refuted at 2^64 *)
Theorem C11_range_len_counts_iteration : forall r l,
  yields range_step r l -> Z.of_nat (length l) < 2 ^ 64 -> range_len r = Some (Z.of_nat (length l)).
Proof. exact range_len_counts_iteration. Qed.
Print Assumptions C11_range_len_counts_iteration.

Theorem C11_range_len_huge_refuted :
  exists r, (exists l, yields range_step r l /\ Z.of_nat (length l) = 2 ^ 64) /\ range_len r = None.
Proof. exact range_len_huge_refuted. Qed.
Print Assumptions C11_range_len_huge_refuted.

Theorem C11_range_len_sound : forall r n, range_len r = Some n ->
  exists l, yields range_step r l /\ Z.of_nat (length l) = n.
Proof. exact range_len_sound. Qed.
Print Assumptions C11_range_len_sound.

Theorem C11_range_infinite_reports_infinity : forall r, ~ range_finite r ->
  range_len r = None /\ forall l, ~ yields range_step r l.
Proof. exact range_infinite_len. Qed.
Print Assumptions C11_range_infinite_reports_infinity.

Theorem C11_range_enumerates_exactly : forall l a b c, c <> 0 ->
  yields range_step (Range a (Some b) c) l -> range_spec a b c l.
Proof. exact range_elements. Qed.
Print Assumptions C11_range_enumerates_exactly.

(* ================================================================ stream(seq) *)
Theorem C11_wvec_len_counts_iteration : forall (A : Type) (w : @wvec A) l,
  yields wvec_step w l -> wvec_len w = Some (Z.of_nat (length l)).
Proof. exact @wvec_len_counts_iteration. Qed.
Print Assumptions C11_wvec_len_counts_iteration.

Theorem C11_wvec_lists_the_sequence : forall (A : Type) (xs : list A),
  yields wvec_step (stream_of_list xs) xs.
Proof. exact @wvec_lists_the_sequence. Qed.
Print Assumptions C11_wvec_lists_the_sequence.

(* ================================================================ Subsequences: binary counter *)
Theorem C11_subseq_len_step : forall s e, fst (sub_step s) = Some e ->
  sub_count s = 1 + sub_count (snd (sub_step s)).
Proof. exact sub_count_some. Qed.
Print Assumptions C11_subseq_len_step.

Theorem C11_subseq_len_exhausted : forall s, fst (sub_step s) = None -> sub_count s = 0.
Proof. exact sub_count_none. Qed.
Print Assumptions C11_subseq_len_exhausted.

(* for EVERY state: len is the number of elements iteration yields when that fits usize, and
   None ("infinite") when it does not -- known finding len-count-ge-2^64; never a panic *)
Theorem C11_subseq_len_counts_iteration : forall s l,
  yields sub_step s l -> sub_len s = Ok (to_usize_z (Z.of_nat (length l))).
Proof. exact sub_len_counts_iteration. Qed.
Print Assumptions C11_subseq_len_counts_iteration.

(* the witness: 64 flags, 2^64 subsequences, len = infinity; one element later 2^64-1 is exact *)
Theorem C11_subseq_len_huge_refuted :
  (exists l, yields sub_step (sub_init 64) l /\ Z.of_nat (length l) = 2 ^ 64) /\
  sub_len (sub_init 64) = Ok None /\
  sub_len (snd (sub_step (sub_init 64))) = Ok (Some (2 ^ 64 - 1)).
Proof. exact sub_len_huge_refuted. Qed.
Print Assumptions C11_subseq_len_huge_refuted.

(* all 2^n masks, each once, in binary counting order *)
Theorem C11_subseq_enumerates_exactly : forall n l,
  yields sub_step (sub_init n) l -> enumerates (is_mask n) (map bits l).
Proof. exact sub_enumerates. Qed.
Print Assumptions C11_subseq_enumerates_exactly.

(* ================================================================ CartesianPower: mixed radix *)
Theorem C11_cart_len_step : forall m s e, cart_inv m s -> fst (cart_step m s) = Some e ->
  cart_count m s = 1 + cart_count m (snd (cart_step m s)).
Proof. exact cart_count_some. Qed.
Print Assumptions C11_cart_len_step.

Theorem C11_cart_len_exhausted : forall m s, cart_inv m s -> fst (cart_step m s) = None ->
  cart_count m s = 0.
Proof. exact cart_count_none. Qed.
Print Assumptions C11_cart_len_exhausted.

(* base length m fits usize (a Vec length); then as for subsequences *)
Theorem C11_cart_len_counts_iteration : forall m s l, Z.of_nat m < 2 ^ 64 -> cart_inv m s ->
  yields (cart_step m) s l -> cart_len m s = Ok (to_usize_z (Z.of_nat (length l))).
Proof. exact cart_len_counts_iteration. Qed.
Print Assumptions C11_cart_len_counts_iteration.

Theorem C11_cart_len_huge_refuted :
  (exists l, yields (cart_step 2) (cart_init 2 64) l /\ Z.of_nat (length l) = 2 ^ 64) /\
  cart_len 2 (cart_init 2 64) = Ok None.
Proof. exact cart_len_huge_refuted. Qed.
Print Assumptions C11_cart_len_huge_refuted.

(* all m^k index tuples, each once, in lexicographic order (also for m = 0 and for k = 0) *)
Theorem C11_cart_enumerates_exactly : forall m k l,
  yields (cart_step m) (cart_init m k) l -> enumerates (is_tuple m k) l.
Proof. exact cart_enumerates. Qed.
Print Assumptions C11_cart_enumerates_exactly.

(* the element for an index vector below the base length is built without the slice-index
   panic of self.0[*i] (index vectors of every stream above are below the base length) *)
Theorem C11_pick_never_panics : forall (A : Type) (d : A) (base : list A) v,
  Forall (fun i => (i < length base)%nat) v -> pick base v = Ok (map (fun i => nth i base d) v).
Proof. exact @pick_ok. Qed.
Print Assumptions C11_pick_never_panics.

(* ================================================================ Permutations, at most 6 things *)
(* terminates; enumerates exactly the permutations in lexicographic index order; and at every
   reachable state len (the factorial-number-system formula) = number of elements still to come *)
Theorem C11_perm_bounded : forall n, (n <= 6)%nat ->
  exists l, yields perm_step (perm_init n) l /\ enumerates (is_perm n) l /\
    forall t, reaches perm_step (perm_init n) t ->
      exists l', yields perm_step t l' /\ perm_len t = Ok (Some (Z.of_nat (length l'))).
Proof. exact perm_bounded. Qed.
Print Assumptions C11_perm_bounded.

Theorem C11_perm_len_step_bounded : forall n t e, (n <= 6)%nat ->
  reaches perm_step (perm_init n) t -> fst (perm_step t) = Some e ->
  exists k, perm_len (snd (perm_step t)) = Ok (Some k) /\ perm_len t = Ok (Some (1 + k)).
Proof. exact perm_len_step_bounded. Qed.
Print Assumptions C11_perm_len_step_bounded.

(* Permutations of EVERY base length n: the stream terminates from every reachable state, every
   element is a permutation of 0..n-1, and the elements come in strictly increasing lexicographic
   order, so none is repeated.  (That all n! of them appear, and len, are the n <= 6 theorems above.) *)
Theorem C11_perm_sound_unbounded : forall n,
  exists l, yields perm_step (perm_init n) l /\ Forall (is_perm n) l /\
    StronglySorted (fun a b => lex_lt a b = true) l /\
    forall t, reaches perm_step (perm_init n) t -> exists l', yields perm_step t l'.
Proof. exact perm_sound_unbounded. Qed.
Print Assumptions C11_perm_sound_unbounded.

(* ================================================================ Combinations: every n and k *)
(* no len override: len is the default (count by iterating a clone).  For EVERY base length n
   and selection size k the stream terminates from every reachable state, and lists exactly the
   strictly increasing index vectors of length k below n, each once, in lexicographic order *)
Theorem C11_comb_enumerates_exactly : forall n k,
  exists l, yields (comb_step n) (comb_init k) l /\ enumerates (is_comb n k) l /\
    forall t, reaches (comb_step n) (comb_init k) t ->
      exists l', yields (comb_step n) t l' /\
        forall fuel, (length l' < fuel)%nat ->
          default_len (comb_step n) fuel t = Ok (Some (Z.of_nat (length l'))).
Proof. exact comb_unbounded. Qed.
Print Assumptions C11_comb_enumerates_exactly.

(* ================================================================ default len, lazy adaptors *)
Theorem C11_default_len_counts_iteration : forall (St E : Type) (step : St -> option E * St) s l fuel,
  yields step s l -> (length l < fuel)%nat ->
  default_len step fuel s = Ok (Some (Z.of_nat (length l))).
Proof. exact @default_len_counts_iteration. Qed.
Print Assumptions C11_default_len_counts_iteration.

Theorem C11_lazy_map_lists_map : forall (St E F : Type) (step : St -> option E * St) (f : E -> F) s l,
  yields step s l -> yields (map_step step f) (AOk s) (map f l).
Proof. exact @map_yields. Qed.
Print Assumptions C11_lazy_map_lists_map.

Theorem C11_lazy_filter_lists_filter : forall (St E : Type) (step : St -> option E * St) (p : E -> bool) n s l,
  length l = n -> yields step s l -> forall fuel, (length l < fuel)%nat ->
  filter_unfold step p fuel (AOk s) = Ok (filter p l).
Proof. exact @filter_lists. Qed.
Print Assumptions C11_lazy_filter_lists_filter.

Theorem C11_lazy_zip_lists_zip : forall (St E : Type) (step : St -> option E * St) s1 l1,
  yields step s1 l1 -> forall s2 l2, yields step s2 l2 ->
  yields (zip_step step) (AOk [s1; s2]) (map (fun xy => [fst xy; snd xy]) (combine l1 l2)).
Proof. exact @zip2_yields. Qed.
Print Assumptions C11_lazy_zip_lists_zip.

(* ================================================================ observers = list functions *)
(* for any stream whose len is right (the theorems above), with enough fuel to force it:
   len, truthiness, s[i], s[a:b], reverse, last, in, unpacking are the functions of list(s) *)
Theorem C11_observers_as_list : forall (St E : Type) (step : St -> option E * St)
    (len : St -> outcome (option Z)) (eqb : E -> E -> bool) (fuel : nat) (s : St) (l : list E),
  yields step s l -> len s = Ok (Some (Z.of_nat (length l))) -> (length l <= fuel)%nat -> fits l ->
  obs_len len s = Ok (Some (Z.of_nat (length l))) /\
  obs_truthy len s = Ok (match l with [] => false | _ => true end) /\
  (forall i, obs_index step fuel s i = index_list l i) /\
  (forall lo hi, all_i64 lo -> all_i64 hi ->
     omap sliced_elems (obs_slice step fuel s (obound lo) (obound hi)) = Ok (py_slice l lo hi)) /\
  obs_reverse step fuel s = Ok (rev l) /\
  obs_last step fuel s = opt_out (py_index l (-1)) /\
  (forall x, obs_in step eqb fuel x s = Ok (existsb (eqb x) l)) /\
  (forall k, obs_unpack step len fuel k s = if (length l =? k)%nat then Ok l else Err EValue).
Proof. exact @observers_as_list. Qed.
Print Assumptions C11_observers_as_list.

(* a consumer iterating through a handle to a cell that a variable also owns (strong count
   >= 2) leaves the variable's stream state unchanged, and sees what a clone yields *)
Theorem C11_observation_does_not_advance : forall (St E : Type) (step : St -> option E * St)
    k (h : @heap St) a s cnt es h' a',
  nth_error h a = Some (s, cnt) -> (2 <= cnt)%nat -> handle_run step k h a = Some (es, h', a') ->
  (exists c, nth_error h' a = Some (s, c) /\ (1 <= c)%nat) /\
  (forall b, b <> a -> (b < length h)%nat -> nth_error h' b = nth_error h b) /\
  es = nexts step k s.
Proof. exact @observation_does_not_advance. Qed.
Print Assumptions C11_observation_does_not_advance.

(* ================================================================ endless streams *)
Theorem C11_iota_prefix : forall a n,
  unfold range_step n (iota a) = map (fun k => a + Z.of_nat k) (seq 0 n) /\ range_len (iota a) = None.
Proof. intros; split; [apply iota_prefix | apply iota_len]. Qed.
Print Assumptions C11_iota_prefix.

Theorem C11_repeat_prefix : forall (A : Type) (x : A) n, unfold repeat_step n x = repeat x n.
Proof. exact @repeat_prefix. Qed.
Print Assumptions C11_repeat_prefix.

Theorem C11_cycle_prefix : forall (A : Type) (d : A) n xs pos, (pos < length xs)%nat ->
  unfold cycle_step n (xs, pos) = map (fun k => nth ((pos + k) mod length xs) xs d) (seq 0 n).
Proof. exact @cycle_prefix. Qed.
Print Assumptions C11_cycle_prefix.

(* the index override: element (pos + i) mod len for every machine-word index; never a panic *)
Theorem C11_cycle_index_every_word : forall (A : Type) (d : A) xs pos (i : Z), (pos < length xs)%nat ->
  cycle_index (xs, pos) i = Ok (nth (Z.to_nat ((Z.of_nat pos + i) mod Z.of_nat (length xs))) xs d).
Proof. exact @cycle_index_spec. Qed.
Print Assumptions C11_cycle_index_every_word.

Theorem C11_cycle_index_agrees_with_iteration : forall (A : Type) (d : A) xs pos (k : nat), (pos < length xs)%nat ->
  cycle_index (xs, pos) (Z.of_nat k) = Ok (nth k (unfold cycle_step (S k) (xs, pos)) d).
Proof. exact @cycle_index_agrees_with_iteration. Qed.
Print Assumptions C11_cycle_index_agrees_with_iteration.

(* reverse of a cycle: reverse(s)[j] = s[-1-j] for every machine-word j *)
Theorem C11_cycle_reversed : forall (A : Type) (d : A) (xs : list A) pos (j : Z), (pos < length xs)%nat ->
  cycle_index (cycle_reversed (xs, pos)) j = cycle_index (xs, pos) (-1 - j).
Proof. exact @cycle_reversed_spec. Qed.
Print Assumptions C11_cycle_reversed.

Theorem C11_iterate_prefix : forall (A : Type) (f : A -> A) n x,
  unfold (iterate_step f) n x = map (fun k => Nat.iter k f x) (seq 0 n).
Proof. exact @iterate_prefix. Qed.
Print Assumptions C11_iterate_prefix.

(* ================================================================ extensions *)
(* lazy_zip of ANY non-empty list of streams lists the n-ary zip of their lists ... *)
Theorem C11_lazy_zip_nary : forall (St E : Type) (step : St -> option E * St) fuel ss ls,
  Forall2 (yields step) ss ls -> ss <> [] -> (length (hd [] ls) < fuel)%nat ->
  yields (zip_step step) (AOk ss) (zipn fuel ls).
Proof. exact @zipn_yields. Qed.
Print Assumptions C11_lazy_zip_nary.

(* ... where the n-ary zip is as long as the shortest list and its i-th element is the list of
   the i-th elements *)
Theorem C11_zipn_is_the_zip : forall (E : Type) (d : E) fuel (ls : list (list E)),
  ls <> [] -> (length (hd [] ls) < fuel)%nat ->
  (forall l, In l ls -> (length (zipn fuel ls) <= length l)%nat) /\
  (exists l, In l ls /\ length (zipn fuel ls) = length l) /\
  (forall i, (i < length (zipn fuel ls))%nat -> nth i (zipn fuel ls) [] = map (fun l => nth i l d) ls).
Proof. exact @zipn_spec. Qed.
Print Assumptions C11_zipn_is_the_zip.

(* lazy_zip with a function lists the function applied to each tuple of the n-ary zip *)
Theorem C11_lazy_zip_with_function : forall (St E : Type) (step : St -> option E * St) (F : Type)
    (g : list E -> F) fuel ss ls,
  Forall2 (yields step) ss ls -> ss <> [] -> (length (hd [] ls) < fuel)%nat ->
  yields (zipf_step step g) (AOk ss) (map g (zipn fuel ls)).
Proof. exact @zipf_yields. Qed.
Print Assumptions C11_lazy_zip_with_function.

(* Repeat::pythonic_slice (cap = the largest width try_reserve_exact grants): for bounds counted
   from the start it is the slice of the prefix x, x, x, ...; every bound combination; no panic *)
Theorem C11_repeat_slice_prefix : forall (A : Type) (cap : Z) (x : A) lo hi n,
  0 <= lo -> 0 <= hi -> Z.max (hi - lo) 0 <= cap -> (Z.to_nat hi <= n)%nat ->
  repeat_slice cap x (Some lo) (Some hi) =
  Ok (RList (firstn (Z.to_nat (hi - lo)) (skipn (Z.to_nat lo) (unfold repeat_step n x)))).
Proof. exact @repeat_slice_prefix. Qed.
Print Assumptions C11_repeat_slice_prefix.

Theorem C11_repeat_slice_cases : forall (A : Type) (cap : Z) (x : A) lo hi,
  repeat_slice cap x lo hi =
  match lo, hi with
  | Some l, Some h =>
    if (l <? 0) && (0 <=? h) then Ok (RList [])
    else if (0 <=? l) && (h <? 0) then Ok RSelf
    else if Z.max (h - l) 0 <=? cap then Ok (RList (repeat x (Z.to_nat (Z.max (h - l) 0)))) else Err EValue
  | Some l, None =>
    if l <? 0 then (if Z.max (- l) 0 <=? cap then Ok (RList (repeat x (Z.to_nat (- l)))) else Err EValue)
    else Ok RSelf
  | None, Some h =>
    if h <? 0 then Ok RSelf
    else if Z.max h 0 <=? cap then Ok (RList (repeat x (Z.to_nat h))) else Err EValue
  | None, None => Ok RSelf
  end.
Proof. exact @repeat_slice_cases. Qed.
Print Assumptions C11_repeat_slice_cases.

Theorem C11_repeat_slice_no_panic : forall (A : Type) (cap : Z) (x : A) lo hi,
  repeat_slice cap x lo hi <> Panic.
Proof. exact @repeat_slice_no_panic. Qed.
Print Assumptions C11_repeat_slice_no_panic.

(* lazy_map with a callback that may raise: the items are the results up to and including the
   first failure; list(s) is the mapped list or that first error; with no failure it is lazy_map *)
Theorem C11_lazy_map_erroring_items : forall (St E F : Type) (step : St -> option E * St)
    (f : E -> outcome F) s l,
  yields step s l -> yields (emap_step step f) (AOk s) (upto_err f l).
Proof. exact @emap_yields. Qed.
Print Assumptions C11_lazy_map_erroring_items.

Theorem C11_lazy_map_erroring_list : forall (E F : Type) (f : E -> outcome F) l,
  collect (upto_err f l) = mapM f l.
Proof. exact @emap_collect. Qed.
Print Assumptions C11_lazy_map_erroring_list.

Theorem C11_lazy_map_no_error : forall (E F : Type) (f : E -> outcome F) l,
  (forall e, In e l -> exists y, f e = Ok y) ->
  exists ys, mapM f l = Ok ys /\ upto_err f l = map Ok ys /\ length ys = length l.
Proof. exact @emap_total. Qed.
Print Assumptions C11_lazy_map_no_error.

(* lazy_filter with a predicate that may raise: one next() returns the first item of
   efilter_items and leaves a state that yields the rest (an error is the last item) *)
Theorem C11_lazy_filter_erroring_next : forall (St E : Type) (step : St -> option E * St)
    (p : E -> outcome bool) s l,
  yields step s l -> p_clean p l -> forall fuel, (length l < fuel)%nat ->
  match efilter_items p l with
  | [] => efilter_loop step p fuel s = Ok (None, AStopped)
  | Err c :: _ => efilter_items p l = [Err c] /\ efilter_loop step p fuel s = Ok (Some (Err c), AStopped)
  | Ok e :: rest => exists s' l', efilter_loop step p fuel s = Ok (Some (Ok e), AOk s') /\
                      yields step s' l' /\ efilter_items p l' = rest /\ (length l' < length l)%nat /\ p_clean p l'
  | _ => False
  end.
Proof. exact @efilter_next. Qed.
Print Assumptions C11_lazy_filter_erroring_next.

(* non-vacuity: the hypotheses are met by ordinary streams and the functions compute *)
Example C11_nonvacuous :
  yields range_step (til 10 0 (-3)) [10; 7; 4; 1] /\ range_len (til 10 0 (-3)) = Some 4 /\
  range_finite (til 10 0 (-3)) /\ ~ range_finite (til 1 5 0) /\
  yields wvec_step (stream_of_list [1; 2; 3]) [1; 2; 3] /\
  unfold perm_step 10 (perm_init 3) = [[0; 1; 2]; [0; 2; 1]; [1; 0; 2]; [1; 2; 0]; [2; 0; 1]; [2; 1; 0]]%nat /\
  perm_len (snd (perm_step (perm_init 3))) = Ok (Some 5) /\ perm_len (perm_init 21) = Ok None /\
  unfold (comb_step 4) 10 (comb_init 2) = [[0; 1]; [0; 2]; [0; 3]; [1; 2]; [1; 3]; [2; 3]]%nat /\
  sub_len (snd (sub_step (sub_init 3))) = Ok (Some 7) /\
  cart_len 3 (snd (cart_step 3 (cart_init 3 2))) = Ok (Some 8) /\ cart_inv 3 (cart_init 3 2) /\
  unfold (cart_step 0) 5 (cart_init 0 0) = [[]] /\ unfold perm_step 5 (perm_init 0) = [[]] /\
  zipn 9 [[1; 2; 3]; [4; 5]; [6; 7; 8]] = [[1; 4; 6]; [2; 5; 7]] /\
  repeat_slice 1000 7 (Some (-5)) (Some (-2)) = Ok (RList [7; 7; 7]) /\
  repeat_slice 1000 7 (Some 2) None = Ok RSelf /\ repeat_slice 1000 7 None (Some (2 ^ 62)) = Err EValue /\
  upto_err (fun x => if x =? 3 then Err EValue else Ok (2 * x + 1)) [1; 2; 3; 4] = [Ok 3; Ok 5; Err EValue] /\
  handle_run wvec_step 2 [(stream_of_list [7; 8; 9], 2%nat)] 0 =
    Some ([Some 7; Some 8], [(stream_of_list [7; 8; 9], 1%nat); (([7; 8; 9], 2%nat), 1%nat)], 1%nat).
Proof.
  repeat split; try (vm_compute; reflexivity).
  - repeat (econstructor; [reflexivity|]). constructor. reflexivity.
  - left. discriminate.
  - intros [H|H]; apply H; reflexivity.
  - repeat (econstructor; [reflexivity|]). constructor. reflexivity.
  - repeat constructor.
Qed.
