(* C11 - Lazy streams are coherent: length, iteration, indexing, slicing, reversal agree.
   Only statements here; every proof is `exact <lemma>` into Seq/Streams_*_proofs.v.
   `yields step s l` = iterating a clone of s produces exactly l and then reports exhaustion
   (Seq/StreamsSpec.v); theorems quantify over every state, hence over every position reached
   by dropping a prefix. *)
From Coq Require Import ZArith List Bool.
From NV Require Import Common.Outcome Common.MachineInt Seq.Index Seq.IndexSpec Seq.Index_proofs
  Seq.Streams Seq.StreamsSpec Seq.Streams_proofs.
Import ListNotations.
Open Scope Z_scope.

(* ---- Range: any start/end/step in Z, any step sign ---- *)
Theorem C11_range_len_step : forall r x, range_finite r -> fst (range_step r) = Some x ->
  range_count r = 1 + range_count (snd (range_step r)).
Proof. exact range_count_some. Qed.
Print Assumptions C11_range_len_step.

Theorem C11_range_len_exhausted : forall r, range_finite r -> fst (range_step r) = None ->
  range_count r = 0.
Proof. exact range_count_none. Qed.
Print Assumptions C11_range_len_exhausted.

(* known finding range-len-ge-2^64 (F15): stated for counts below 2^64, refuted at 2^64 *)
Theorem C11_range_len_counts_iteration : forall r l,
  yields range_step r l -> Z.of_nat (length l) < 2 ^ 64 -> range_len r = Some (Z.of_nat (length l)).
Proof. exact range_len_counts_iteration. Qed.
Print Assumptions C11_range_len_counts_iteration.

Theorem C11_range_len_huge_refuted :
  exists r, (exists l, yields range_step r l /\ Z.of_nat (length l) = 2 ^ 64) /\ range_len r = None.
Proof. exact range_len_huge_refuted. Qed.
Print Assumptions C11_range_len_huge_refuted.

Theorem C11_range_len_sound : forall r n, range_len r = Some n ->
  exists l, yields range_step r l /\ Z.of_nat (length l) = n.
Proof. exact range_len_sound. Qed.
Print Assumptions C11_range_len_sound.

Theorem C11_range_infinite_reports_infinity : forall r, ~ range_finite r ->
  range_len r = None /\ forall l, ~ yields range_step r l.
Proof. exact range_infinite_len. Qed.
Print Assumptions C11_range_infinite_reports_infinity.

Theorem C11_range_enumerates_exactly : forall l a b c, c <> 0 ->
  yields range_step (Range a (Some b) c) l -> range_spec a b c l.
Proof. exact range_elements. Qed.
Print Assumptions C11_range_enumerates_exactly.

(* ---- stream(seq) ---- *)
Theorem C11_wvec_len_counts_iteration : forall (A : Type) (w : @wvec A) l,
  yields wvec_step w l -> wvec_len w = Some (Z.of_nat (length l)).
Proof. exact @wvec_len_counts_iteration. Qed.
Print Assumptions C11_wvec_len_counts_iteration.

Theorem C11_wvec_lists_the_sequence : forall (A : Type) (xs : list A),
  yields wvec_step (stream_of_list xs) xs.
Proof. exact @wvec_lists_the_sequence. Qed.
Print Assumptions C11_wvec_lists_the_sequence.

(* ---- infinite streams ---- *)
Theorem C11_iota_prefix : forall a n,
  unfold range_step n (iota a) = map (fun k => a + Z.of_nat k) (seq 0 n) /\ range_len (iota a) = None.
Proof. intros; split; [apply iota_prefix | apply iota_len]. Qed.
Print Assumptions C11_iota_prefix.

(* non-vacuity *)
Example C11_nonvacuous :
  yields range_step (til 10 0 (-3)) [10; 7; 4; 1] /\ range_len (til 10 0 (-3)) = Some 4 /\
  range_finite (til 10 0 (-3)) /\ ~ range_finite (til 1 5 0) /\
  yields wvec_step (stream_of_list [1; 2; 3]) [1; 2; 3].
Proof.
  repeat split.
  - repeat (econstructor; [reflexivity|]). constructor. reflexivity.
  - left. discriminate.
  - intros [H|H]; apply H; reflexivity.
  - repeat (econstructor; [reflexivity|]). constructor. reflexivity.
Qed.
