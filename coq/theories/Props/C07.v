(* C07 - rationals are exact, the numeric tower coerces upward only as needed, vectorisation is element-wise.
   Only statements here; every proof is `exact <lemma>` into Num/Tower_*proofs.v.

   Vocabulary (Num/TowerSpec.v): exact x = level int or rational; qval x = its value in Q;
   wf x = a rational is in lowest terms (denominators are `positive` by type); reduced q = gcd(num, den) = 1;
   q_binop op = the operator's meaning on Q (q_rem: truncating, q_div_floor: floor of the quotient,
   q_mod_floor: a - b*floor(a/b)); exact_result r v rat = r is exact, in lowest terms, has value v and is at
   level rational iff rat; lift F k x = x coerced upward to level k; level_op F op = the NNum method behind
   + - * % // %%; pointwise2/pointwise1 = element-wise.  F : float_ops is the abstract float/complex
   arithmetic (and exact->float conversion) every statement quantifies over. *)
From Coq Require Import ZArith NArith QArith Qabs Qround Qreduction List Bool Lia.
From NV Require Import Common.Outcome Num.Tower Num.TowerSpec Num.Tower_proofs Num.Tower_exact_proofs
  Num.Tower_level_proofs Num.Tower_vec_proofs.
Import ListNotations.
Open Scope Z_scope.

(* + - * % // %% / on ints and rationals (divisor non-zero where one is needed): the exact Q result, in
   lowest terms; at level rational iff an operand was rational or the operator is `/` (4/2 is the rational 2/1) *)
Theorem C07_exact_level_ops : forall (F : float_ops) (op : binop) (a b : nnum),
  op <> OPow -> exact a -> exact b -> wf a -> wf b ->
  (needs_nonzero op = true -> ~ qval b == 0) ->
  exists r, num_binop F op a b = Ok r /\
    exact_result r (q_binop op (qval a) (qval b)) (level a = 1%nat \/ level b = 1%nat \/ op = ODiv).
Proof. exact @exact_level_ops. Qed.
Print Assumptions C07_exact_level_ops.

(* a zero divisor: % // and %% raise, / falls back to the float quotient (infinity or NaN) *)
Theorem C07_exact_zero_divisor : forall (F : float_ops) (a b : nnum), exact a -> exact b -> qval b == 0 ->
  num_binop F ORem a b = Err EValue /\
  num_binop F ODivFloor a b = Err EValue /\ num_binop F OModFloor a b = Err EValue /\
  num_binop F ODiv a b = Ok (NF (fdiv F (to_f_total F a) (to_f_total F b))).
Proof. exact @exact_zero_divisor. Qed.
Print Assumptions C07_exact_zero_divisor.

(* (a // b) * b + (a %% b) == a;  0 <= a %% b < b for b > 0  (and b < a %% b <= 0 for b < 0) *)
Theorem C07_rat_floor_mod_identity : forall (F : float_ops) (a b d m : nnum),
  exact a -> exact b -> wf a -> wf b ->
  num_binop F ODivFloor a b = Ok d -> num_binop F OModFloor a b = Ok m ->
  (qval d * qval b + qval m == qval a)%Q /\
  ((0 < qval b)%Q -> (0 <= qval m)%Q /\ (qval m < qval b)%Q) /\
  ((qval b < 0)%Q -> (qval b < qval m)%Q /\ (qval m <= 0)%Q).
Proof. exact @rat_floor_mod_identity. Qed.
Print Assumptions C07_rat_floor_mod_identity.

(* finding F6 (repaired in /repo): the original rational mod_floor broke the identity and the range *)
Theorem C07_rat_floor_mod_identity_original_refuted : forall F : float_ops, exists a b d m,
  exact a /\ exact b /\ wf a /\ wf b /\
  num_binop_original F ODivFloor a b = Ok d /\ num_binop_original F OModFloor a b = Ok m /\
  ~ (qval d * qval b + qval m == qval a)%Q /\ (0 < qval b)%Q /\ ~ (0 <= qval m)%Q.
Proof. exact @rat_floor_mod_identity_original_refuted. Qed.
Print Assumptions C07_rat_floor_mod_identity_original_refuted.

(* a ^ e, e any integer: exact (Qpower), lowest terms; rational iff the base was or e < 0 *)
Theorem C07_pow_exact : forall (F : float_ops) (a : nnum) (e : Z),
  exact a -> wf a -> (e < 0 -> ~ qval a == 0) ->
  exists r, num_binop F OPow a (NI e) = Ok r /\ exact_result r (qval a ^ e) (level a = 1%nat \/ e < 0).
Proof. exact @pow_exact. Qed.
Print Assumptions C07_pow_exact.

(* 0 ^ negative is 1 / 0: the float fallback of `/`, not a crash (finding F10, repaired in /repo) *)
Theorem C07_pow_zero_negative : forall (F : float_ops) (a : nnum) (e : Z),
  exact a -> wf a -> qval a == 0 -> e < 0 ->
  num_binop F OPow a (NI e) = num_binop F ODiv (NI 1) a /\
  num_binop F OPow a (NI e) = Ok (NF (fdiv F (z2f F 1) (to_f_total F a))).
Proof. exact @pow_zero_negative. Qed.
Print Assumptions C07_pow_zero_negative.

Theorem C07_pow_zero_negative_original_panics : forall F : float_ops,
  num_binop_original F OPow (NI 0) (NI (-1)) = Panic /\ num_binop_original F OPow (NR 0) (NI (-1)) = Panic.
Proof. exact @pow_zero_negative_original_panics. Qed.
Print Assumptions C07_pow_zero_negative_original_panics.

(* + - * % // %% : the result level is the higher of the operands' levels ... *)
Theorem C07_level_is_max : forall (F : float_ops) (op : binop) (f : nnum -> nnum -> outcome nnum) (a b r : nnum),
  level_op F op = Some f -> f a b = Ok r -> level r = Nat.max (level a) (level b).
Proof. exact @level_is_max. Qed.
Print Assumptions C07_level_is_max.

(* ... and the result is the operation carried out at that level on the coerced operands *)
Theorem C07_level_op_commutes : forall (F : float_ops) (op : binop) (f : nnum -> nnum -> outcome nnum) (a b : nnum),
  level_op F op = Some f ->
  let k := Nat.max (level a) (level b) in
  f a b = f (lift F k a) (lift F k b) /\ level (lift F k a) = k /\ level (lift F k b) = k.
Proof. exact @level_op_commutes. Qed.
Print Assumptions C07_level_op_commutes.

(* coercion only goes upward, is the identity at or above the target, and int -> rational is exact *)
Theorem C07_lift_upward : forall (F : float_ops) (k : nat) (x : nnum), (k <= 3)%nat ->
  (level x <= level (lift F k x))%nat /\ ((k <= level x)%nat -> lift F k x = x) /\
  (exact x -> k = 1%nat -> qval (lift F k x) == qval x /\ (wf x -> wf (lift F k x))).
Proof. exact @lift_upward. Qed.
Print Assumptions C07_lift_upward.

(* the builtins are these methods; % // %% add the zero-divisor error of the builtin layer *)
Theorem C07_builtin_of_level_op : forall (F : float_ops) (op : binop) (f : nnum -> nnum -> outcome nnum) (a b : nnum),
  level_op F op = Some f ->
  num_binop F op a b = match op with
                       | ODivFloor | OModFloor => if is_nonzero b then f a b else Err EValue
                       | ORem => if is_exact a && is_exact b && negb (is_nonzero b) then Err EValue else f a b
                       | _ => f a b
                       end.
Proof. exact @builtin_of_level_op. Qed.
Print Assumptions C07_builtin_of_level_op.

(* no binary arithmetic builtin (+ - * % // %% / ^) crashes, on any pair of numbers of any levels *)
Theorem C07_binops_no_panic : forall (F : float_ops) (op : binop) (a b : nnum), num_binop F op a b <> Panic.
Proof. exact @binops_no_panic. Qed.
Print Assumptions C07_binops_no_panic.

(* nor does any unary builtin or conversion *)
Theorem C07_unops_no_panic : forall (F : float_ops) (x : nnum),
  (forall op, num_unop F op x <> Panic) /\ (forall c, num_conv F c x <> Panic).
Proof. exact @unops_no_panic. Qed.
Print Assumptions C07_unops_no_panic.

(* num-rational's floor/ceil/trunc/round algorithms are floor, ceiling, truncation and round-half-away *)
Theorem C07_rounding_algorithms : forall q : Q,
  rat_floor q = Qfloor q /\ rat_ceil q = Qceiling q /\ rat_trunc q = q_trunc q /\ rat_round q = q_round q.
Proof. intro q. exact (conj (rat_floor_spec q) (conj (rat_ceil_spec q) (conj (rat_trunc_spec q) (rat_round_spec q)))). Qed.
Print Assumptions C07_rounding_algorithms.

(* floor ceil round int numerator denominator rational float on ints and rationals *)
Theorem C07_rounding_exact : forall (F : float_ops) (x : nnum), exact x -> wf x ->
  num_unop F UFloor x = Ok (NI (Qfloor (qval x))) /\
  num_unop F UCeil x = Ok (NI (Qceiling (qval x))) /\
  num_unop F URound x = Ok (NI (q_round (qval x))) /\
  num_conv F CInt x = Ok (NI (q_trunc (qval x))) /\
  (exists n d, num_unop F UNumerator x = Ok (NI n) /\ num_unop F UDenominator x = Ok (NI (Zpos d)) /\
               Z.gcd n (Zpos d) = 1 /\ qval x == n # d) /\
  (exists q, num_conv F CRational x = Ok (NR q) /\ reduced q /\ q == qval x) /\
  num_conv F CFloat x = Ok (NF (to_f_total F x)).
Proof. exact @rounding_exact. Qed.
Print Assumptions C07_rounding_exact.

(* the same functions on a finite float act on its exactly decoded value; rational(f) is that value, in lowest terms *)
Theorem C07_rounding_float_finite : forall (F : float_ops) (f : bits) (q : Q), fdecode f = FFin q ->
  num_unop F UFloor (NF f) = Ok (NI (Qfloor q)) /\
  num_unop F UCeil (NF f) = Ok (NI (Qceiling q)) /\
  num_unop F URound (NF f) = Ok (NI (q_round q)) /\
  num_conv F CInt (NF f) = Ok (NI (q_trunc q)) /\
  num_conv F CRational (NF f) = Ok (NR q) /\ reduced q /\
  num_conv F CFloat (NF f) = Ok (NF f).
Proof. exact @rounding_float_finite. Qed.
Print Assumptions C07_rounding_float_finite.

(* infinities and NaN: floor/ceil/round hand the float back, int() and rational() raise (int(): finding F16, repaired) *)
Theorem C07_rounding_float_nonfinite : forall (F : float_ops) (f : bits), (forall q, fdecode f <> FFin q) ->
  num_unop F UFloor (NF f) = Ok (NF f) /\ num_unop F UCeil (NF f) = Ok (NF f) /\ num_unop F URound (NF f) = Ok (NF f) /\
  num_conv F CInt (NF f) = Err EValue /\ num_conv F CRational (NF f) = Err EValue.
Proof. exact @rounding_float_nonfinite. Qed.
Print Assumptions C07_rounding_float_nonfinite.

Theorem C07_int_of_nonfinite_original_returns_float : forall F : float_ops,
  num_conv_original F CInt (NF 9218868437227405312%N) = Ok (NF 9218868437227405312%N).
Proof. exact @int_of_nonfinite_original_returns_float. Qed.
Print Assumptions C07_int_of_nonfinite_original_returns_float.

(* vector (op) vector: defined iff the lengths agree and every element pair is; then element-wise *)
Theorem C07_vectorize_pointwise : forall (body : nnum -> nnum -> outcome nnum) (l1 l2 : list nnum) (r : obj),
  vectorize2 body (OVec l1) (OVec l2) = Ok r -> exists out, r = OVec out /\ pointwise2 body l1 l2 out.
Proof. exact @vectorize2_pointwise. Qed.
Print Assumptions C07_vectorize_pointwise.

Theorem C07_vectorize_complete : forall (body : nnum -> nnum -> outcome nnum) (l1 l2 : list nnum),
  length l1 = length l2 ->
  (forall i x y, nth_error l1 i = Some x -> nth_error l2 i = Some y -> exists v, body x y = Ok v) ->
  exists out, vectorize2 body (OVec l1) (OVec l2) = Ok (OVec out) /\ pointwise2 body l1 l2 out.
Proof. exact @vectorize2_complete. Qed.
Print Assumptions C07_vectorize_complete.

(* vectors of different lengths are rejected (never a truncated zip) *)
Theorem C07_vectorize_length_mismatch : forall (body : nnum -> nnum -> outcome nnum) (l1 l2 : list nnum),
  length l1 <> length l2 -> vectorize2 body (OVec l1) (OVec l2) = Err EValue.
Proof. exact @vectorize2_length_mismatch. Qed.
Print Assumptions C07_vectorize_length_mismatch.

(* a scalar is broadcast: it behaves as the vector of its copies *)
Theorem C07_vectorize_broadcast : forall (body : nnum -> nnum -> outcome nnum) (x : nnum) (l : list nnum),
  vectorize2 body (ONum x) (OVec l) = vectorize2 body (OVec (repeat x (length l))) (OVec l) /\
  vectorize2 body (OVec l) (ONum x) = vectorize2 body (OVec l) (OVec (repeat x (length l))).
Proof. exact @vectorize2_broadcast. Qed.
Print Assumptions C07_vectorize_broadcast.

Theorem C07_vectorize_scalar_and_non_number : forall (body : nnum -> nnum -> outcome nnum) (x y : nnum) (a : obj),
  vectorize2 body (ONum x) (ONum y) = omap ONum (body x y) /\
  vectorize2 body OOther a = Err EArg /\ vectorize2 body a OOther = Err EArg.
Proof. intros body x y a. exact (conj (vectorize2_scalar body x y) (vectorize2_non_number body a)). Qed.
Print Assumptions C07_vectorize_scalar_and_non_number.

(* the wrapper adds no crash of its own *)
Theorem C07_vectorize_no_panic : forall (body : nnum -> nnum -> outcome nnum) (a b : obj),
  (forall x y, body x y <> Panic) -> vectorize2 body a b <> Panic.
Proof. exact @vectorize2_no_panic. Qed.
Print Assumptions C07_vectorize_no_panic.

(* unary builtins vectorise element-wise; conversions do not vectorise *)
Theorem C07_vectorize_unary : forall (body : nnum -> outcome nnum) (l : list nnum) (r : obj),
  vectorize1 body (OVec l) = Ok r -> exists out, r = OVec out /\ pointwise1 body l out.
Proof. exact @vectorize1_pointwise. Qed.
Print Assumptions C07_vectorize_unary.

Theorem C07_conv_not_vectorised : forall (F : float_ops) (c : conv) (l : list nnum),
  builtin_conv F c (OVec l) = Err EType /\ builtin_conv F c OOther = Err EType.
Proof. exact @conv_not_vectorised. Qed.
Print Assumptions C07_conv_not_vectorised.

(* non-vacuity: the hypotheses are met by ordinary data and the functions compute
   (floats instantiated by a dummy record: only exact-level results are inspected) *)
Definition dummy_ops : float_ops :=
  let b := fun (_ _ : bits) => 0%N in
  let c := fun (x _ : cplx) => x in
  Build_float_ops (fun _ => 0%N) (fun _ => 0%N) b b b b b b b c c c c c c (fun x _ => x) (fun _ x => x)
    (fun _ => 0%N) (fun _ _ => NF 0%N) (fun _ _ => NF 0%N) (fun x _ => x) (fun x _ => x) c.
Example C07_nonvacuous :
  exact (NR (1 # 2)) /\ wf (NR (-7 # 2)) /\ needs_nonzero ODiv = true /\ ~ qval (NI 2) == 0 /\
  num_binop dummy_ops ODiv (NI 4) (NI 2) = Ok (NR (2 # 1)) /\
  num_binop dummy_ops OAdd (NR (1 # 2)) (NR (1 # 2)) = Ok (NR (1 # 1)) /\
  num_binop dummy_ops ODivFloor (NR (-1 # 2)) (NR (1 # 3)) = Ok (NR (-2 # 1)) /\
  num_binop dummy_ops OModFloor (NR (-1 # 2)) (NR (1 # 3)) = Ok (NR (1 # 6)) /\
  num_binop dummy_ops OModFloor (NI (-7)) (NI 2) = Ok (NI 1) /\
  num_binop dummy_ops ORem (NR (-7 # 2)) (NI 2) = Ok (NR (-3 # 2)) /\
  num_binop dummy_ops OPow (NI 2) (NI (-2)) = Ok (NR (1 # 4)) /\
  num_binop dummy_ops OPow (NR (-2 # 3)) (NI (-3)) = Ok (NR (-27 # 8)) /\
  num_binop dummy_ops OPow (NI 0) (NI (-1)) = Ok (NF 0%N) /\
  level_op dummy_ops OMul = Some (num_mul dummy_ops) /\
  num_mul dummy_ops (NI 3) (NF 5%N) = Ok (NF 0%N) /\ lift dummy_ops 2 (NI 3) = NF 0%N /\
  num_unop dummy_ops URound (NR (-5 # 2)) = Ok (NI (-3)) /\
  fdecode 4612811918334230528%N = FFin (5 # 2) /\ num_unop dummy_ops UFloor (NF 4612811918334230528%N) = Ok (NI 2) /\
  (forall q, fdecode 9218868437227405312%N <> FFin q) /\
  builtin2 dummy_ops OAdd (OVec [NI 1; NR (1 # 2)]) (ONum (NI 1)) = Ok (OVec [NI 2; NR (3 # 2)]) /\
  builtin2 dummy_ops OAdd (OVec [NI 1; NI 2]) (OVec [NI 1]) = Err EValue.
Proof.
  unfold exact, wf, reduced. cbn [level qval].
  repeat split; try (vm_compute; reflexivity); try (vm_compute; lia); try (vm_compute; discriminate);
    try (intros q; vm_compute; discriminate).
Qed.
