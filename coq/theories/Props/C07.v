(* C07 - rationals are exact, the numeric tower coerces upward only as needed, vectorisation is element-wise.
   Only statements here; every proof is `exact <lemma>` into Num/Tower_proofs.v. *)
From Coq Require Import ZArith NArith QArith Qabs Qround Qreduction List Bool.
From NV Require Import Common.Outcome Num.Tower Num.TowerSpec Num.Tower_proofs.
Import ListNotations.
Open Scope Z_scope.

Theorem C07_rounding_exact : forall q : Q,
  rat_floor q = Qfloor q /\ rat_ceil q = Qceiling q /\ rat_trunc q = q_trunc q /\ rat_round q = q_round q.
Proof. intro q. exact (conj (rat_floor_spec q) (conj (rat_ceil_spec q) (conj (rat_trunc_spec q) (rat_round_spec q)))). Qed.
Print Assumptions C07_rounding_exact.
