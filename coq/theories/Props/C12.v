(* C12 - Patterns, destructuring, switch and runtime type annotations.
   Only statements here; every proof is `exact <lemma>` into Lang/*_proofs.v.
   `sat` is the table of user predicates behind `satisfying(..)` (any function from values to a
   truth value or an error); `inexact` is float/complex arithmetic (C07's subject).  Both are
   universally quantified. *)
From Coq Require Import ZArith NArith List Bool.
From NV Require Import Common.Outcome Lang.Types Lang.Types_proofs Lang.Pattern Lang.Pattern_proofs.
Import ListNotations.

(* binding a value to a pattern never panics, whatever the pattern, value, mode and store:
   in particular the usize subtractions of assign_all cannot underflow (they are checked
   operations in the model, Pattern.split_splat / scan) *)
Theorem C12_assign_total : forall (sat : N -> val -> outcome bool) (inexact : iop -> num -> num -> num),
  (forall pid v, sat pid v <> Panic) ->
  forall fuel p rt v s, snd (assign sat inexact fuel p rt v s) <> Panic.
Proof. exact assign_no_panic. Qed.
Print Assumptions C12_assign_total.

(* the model's fuel is never the reason for an answer: pat_size p units suffice *)
Theorem C12_assign_top_total : forall (sat : N -> val -> outcome bool) (inexact : iop -> num -> num -> num),
  (forall pid v, sat pid v <> Panic) -> (forall pid v, sat pid v <> OutOfFuel) ->
  forall p rt v s, snd (assign_top sat inexact p rt v s) <> Panic /\
                   snd (assign_top sat inexact p rt v s) <> OutOfFuel.
Proof. exact assign_top_total. Qed.
Print Assumptions C12_assign_top_total.

(* v is type(v), v is anything: for every value *)
Theorem C12_is_type_of : forall (sat : N -> val -> outcome bool) (v : val),
  is_type sat (type_of v) v = Ok true /\ is_type sat TAny v = Ok true.
Proof. intros. split; [apply is_type_of|apply is_type_any]. Qed.
Print Assumptions C12_is_type_of.

(* `v is T` is true for exactly the values type(v) classifies as T (T one of the kinds type_of reports) *)
Theorem C12_is_type_exact : forall (sat : N -> val -> outcome bool) (t : ty) (v : val),
  kind_type t = true -> is_type sat t v = Ok (ty_eqb (type_of v) t).
Proof. exact is_type_exact. Qed.
Print Assumptions C12_is_type_exact.

Example C12_nonvacuous :
  assign_top sat_none inexact_nan (PSeq [PVar 1; PSplat (PVar 2); PVar 3] false) (Some TAny) (VList [vint 1; vint 2]) [] =
    ([(3%N, (TAny, vint 2)); (2%N, (TAny, VList [])); (1%N, (TAny, vint 1))], Ok tt) /\
  is_type sat_none TRational (VNum (NRat 1 2)) = Ok true.
Proof. split; vm_compute; reflexivity. Qed.
